(** Key congruence: every descent of the model uses its query [q] only through the tests
    [peq p q], [contains p q], [contains q p], [to_right p q], [to_right q p] and [plen q] against
    node prefixes [p].  Under the prefix laws each of these depends on [bits q] only.  Hence two
    valid representations [q], [q'] of one key ([bits q = bits q']) drive every walker along the
    same path and give the SAME result — literally equal, for every tree all of whose node
    prefixes are valid ([nodes_ok], implied by [wf_under]).  The only place where the query itself
    is stored in a result is the virtual view of [find]/[view_at] ([VVirt q c]): there the two
    results are related by [view_sim] (same subtree, same kind, virtual prefixes with equal bits),
    and every view operation maps [view_sim]-related views to equal / [view_sim]-related results. *)
From Coq Require Import List NArith ZArith Bool Arith Lia.
From PT Require Import Bits BitsThm Laws Machine Trie Views TrieWf.
Import ListNotations.

Section KC.
Variables (pfx V : Type).
Variables (peq contains : pfx -> pfx -> bool) (is_bit_set : pfx -> N -> bool)
          (plen : pfx -> N) (lcp : pfx -> pfx -> pfx) (pzero : pfx)
          (mcmp : pfx -> pfx -> comparison).
Variable bits : pfx -> list bool.
Variable ok : pfx -> Prop.
Hypothesis LAWS : prefix_laws pfx peq contains is_bit_set plen lcp pzero mcmp bits ok.

Notation tree := (tree pfx V).
Notation view := (view pfx V).
Notation to_right := (to_right pfx is_bit_set plen).
Notation wf_under := (wf_under pfx V bits ok).
Notation wf_root := (wf_root pfx V bits ok).
Notation tpfx := (tpfx pfx V pzero).
Notation get_node := (get_node pfx V peq contains is_bit_set plen).
Notation get := (get pfx V peq contains is_bit_set plen).
Notation get_key_value := (get_key_value pfx V peq contains is_bit_set plen).
Notation contains_key := (contains_key pfx V peq contains is_bit_set plen).
Notation lpm_walk := (lpm_walk pfx V peq contains is_bit_set plen).
Notation lpmp_walk := (lpmp_walk pfx V peq contains is_bit_set plen).
Notation lpmm_walk := (lpmm_walk pfx V peq contains is_bit_set plen).
Notation get_lpm := (get_lpm pfx V peq contains is_bit_set plen).
Notation get_lpm_prefix := (get_lpm_prefix pfx V peq contains is_bit_set plen).
Notation get_lpm_mut := (get_lpm_mut pfx V peq contains is_bit_set plen).
Notation spm_walk := (spm_walk pfx V peq contains is_bit_set plen).
Notation get_spm := (get_spm pfx V peq contains is_bit_set plen).
Notation get_spm_prefix := (get_spm_prefix pfx V peq contains is_bit_set plen).
Notation cover_walk := (cover_walk pfx V peq contains is_bit_set plen).
Notation cover_loop := (cover_loop pfx V peq contains is_bit_set plen).
Notation cover_next := (cover_next pfx V peq contains is_bit_set plen).
Notation cover_drain := (cover_drain pfx V peq contains is_bit_set plen).
Notation children_start := (children_start pfx V peq contains is_bit_set plen).
Notation children := (children pfx V peq contains is_bit_set plen).
Notation children_mut := (children_mut pfx V peq contains is_bit_set plen).
Notation into_children := (into_children pfx V peq contains is_bit_set plen).
Notation modify := (modify pfx V peq contains is_bit_set plen).
Notation rem := (rem pfx V peq contains is_bit_set plen).
Notation remove := (remove pfx V peq contains is_bit_set plen).
Notation remove_keep_tree := (remove_keep_tree pfx V peq contains is_bit_set plen).
Notation occ_remove := (occ_remove pfx V peq contains is_bit_set plen).
Notation update_value := (update_value pfx V peq contains is_bit_set plen).
Notation rc := (rc pfx V peq contains is_bit_set plen).
Notation remove_children := (remove_children pfx V peq contains is_bit_set plen pzero).
Notation h_get := (h_get pfx V peq contains is_bit_set plen).
Notation entry := (entry pfx V peq contains is_bit_set plen).
Notation find_walk := (find_walk pfx V peq contains is_bit_set plen).
Notation v_find := (v_find pfx V peq contains is_bit_set plen).
Notation view_at := (view_at pfx V peq contains is_bit_set plen).
Notation find_exact_walk := (find_exact_walk pfx V peq contains is_bit_set plen).
Notation v_find_exact := (v_find_exact pfx V peq contains is_bit_set plen).
Notation find_lpm_walk := (find_lpm_walk pfx V peq contains is_bit_set plen).
Notation v_find_lpm := (v_find_lpm pfx V peq contains is_bit_set plen).
Notation v_left := (v_left pfx V is_bit_set plen pzero).
Notation v_right := (v_right pfx V is_bit_set plen pzero).
Notation v_prefix := (v_prefix pfx V pzero).
Notation find_walk_m := (find_walk_m pfx V peq contains is_bit_set plen).
Notation vm_find := (vm_find pfx V peq contains is_bit_set plen).
Notation find_exact_walk_m := (find_exact_walk_m pfx V peq contains is_bit_set plen).
Notation vm_find_exact := (vm_find_exact pfx V peq contains is_bit_set plen).
Notation find_lpm_walk_m := (find_lpm_walk_m pfx V peq contains is_bit_set plen).
Notation vm_find_lpm := (vm_find_lpm pfx V peq contains is_bit_set plen).
Notation vm_left := (vm_left pfx V is_bit_set plen pzero).
Notation vm_right := (vm_right pfx V is_bit_set plen pzero).
Notation vm_split := (vm_split pfx V is_bit_set plen pzero).
Notation vm_has_left := (vm_has_left pfx V is_bit_set plen pzero).
Notation vm_has_right := (vm_has_right pfx V is_bit_set plen pzero).
Notation vm_prefix := (vm_prefix pfx V pzero).

(* ------------------------------------------------------------------------------------------ *)
(** * The primitive tests depend on the key only *)

Lemma bool_iff_eq (a b : bool) : (a = true <-> b = true) -> a = b.
Proof. destruct a, b; intros [H1 H2]; try reflexivity; [symmetry; apply H1 | apply H2]; reflexivity. Qed.

Section Q.
Variables q q' : pfx.
Hypothesis Hq : ok q.
Hypothesis Hq' : ok q'.
Hypothesis E : bits q = bits q'.

Lemma plen_congr : plen q = plen q'.
Proof. rewrite (plen_bits _ _ _ _ _ _ _ _ _ _ LAWS q Hq), (plen_bits _ _ _ _ _ _ _ _ _ _ LAWS q' Hq'), E. reflexivity. Qed.

Lemma peq_congr p : ok p -> peq p q = peq p q'.
Proof.
  intros Hp. apply bool_iff_eq.
  rewrite (peq_spec _ _ _ _ _ _ _ _ _ _ LAWS p q Hp Hq), (peq_spec _ _ _ _ _ _ _ _ _ _ LAWS p q' Hp Hq'), E.
  tauto.
Qed.

Lemma peq_congr_l p : ok p -> peq q p = peq q' p.
Proof.
  intros Hp. apply bool_iff_eq.
  rewrite (peq_spec _ _ _ _ _ _ _ _ _ _ LAWS q p Hq Hp), (peq_spec _ _ _ _ _ _ _ _ _ _ LAWS q' p Hq' Hp), E.
  tauto.
Qed.

(** [p] covers the query *)
Lemma contains_congr p : ok p -> contains p q = contains p q'.
Proof.
  intros Hp. apply bool_iff_eq.
  rewrite (contains_spec _ _ _ _ _ _ _ _ _ _ LAWS p q Hp Hq), (contains_spec _ _ _ _ _ _ _ _ _ _ LAWS p q' Hp Hq'), E.
  tauto.
Qed.

(** the query covers [p] *)
Lemma contains_congr_l p : ok p -> contains q p = contains q' p.
Proof.
  intros Hp. apply bool_iff_eq.
  rewrite (contains_spec _ _ _ _ _ _ _ _ _ _ LAWS q p Hq Hp), (contains_spec _ _ _ _ _ _ _ _ _ _ LAWS q' p Hq' Hp), E.
  tauto.
Qed.

(** the branch bit of the query below [p]; no validity of [p] is needed *)
Lemma to_right_congr p : to_right p q = to_right p q'.
Proof.
  unfold Trie.to_right.
  rewrite (bit_spec _ _ _ _ _ _ _ _ _ _ LAWS q _ Hq), (bit_spec _ _ _ _ _ _ _ _ _ _ LAWS q' _ Hq'), E.
  reflexivity.
Qed.

(** the branch bit of [p] below the query; no validity of [p] is needed *)
Lemma to_right_congr_l p : to_right q p = to_right q' p.
Proof. unfold Trie.to_right. rewrite plen_congr. reflexivity. Qed.

End Q.

(* ------------------------------------------------------------------------------------------ *)
(** * Trees whose node prefixes are all valid *)

Fixpoint nodes_ok (t : tree) : Prop :=
  match t with
  | Leaf => True
  | Node _ p _ l r => ok p /\ nodes_ok l /\ nodes_ok r
  end.

Lemma wf_nodes_ok b t : wf_under b t -> nodes_ok t.
Proof.
  revert b. induction t as [|i p v l IHl r IHr]; intros b H; cbn; [exact I|].
  destruct H as [Hp [_ [Hl Hr]]]. split; [exact Hp|]. split; [eapply IHl | eapply IHr]; eassumption.
Qed.

Lemma wf_root_nodes_ok t : wf_root t -> nodes_ok t.
Proof. destruct t as [|i p v l r]; [intros []|]. intros [_ H]. eapply wf_nodes_ok; exact H. Qed.

Lemma nodes_ok_subtree t pa : nodes_ok t -> nodes_ok (subtree t pa).
Proof.
  revert t. induction pa as [|b pa IH]; intros t H; [destruct t; exact H|].
  destruct t as [|i p v l r]; [exact I|]. cbn [subtree]. destruct H as [_ [Hl Hr]].
  apply IH. destruct b; assumption.
Qed.

(* ------------------------------------------------------------------------------------------ *)
(** * The walkers: two representations of one key give the same result *)

Section W.
Variables q q' : pfx.
Hypothesis Hq : ok q.
Hypothesis Hq' : ok q'.
Hypothesis E : bits q = bits q'.

Let Cpeq := peq_congr q q' Hq Hq' E.
Let Ccon := contains_congr q q' Hq Hq' E.
Let Cconl := contains_congr_l q q' Hq Hq' E.
Let Ctr := to_right_congr q q' Hq Hq' E.
Let Ctrl := to_right_congr_l q q' Hq Hq' E.
Let Clen := plen_congr q q' Hq Hq' E.

(** after [cbn [walker]] in the [Node i p v l r] case: turn every test of the root against [q']
    into the test against [q] *)
Ltac kc_root p Hp := rewrite <- ?(Cpeq p Hp), <- ?(Ctr p).
(** the selected child [c] (with [Hc : nodes_ok c] and the induction hypothesis [IH]) *)
Ltac kc_child c Hc IH :=
  let ci := fresh "ci" in let cp := fresh "cp" in let cv := fresh "cv" in
  let cl := fresh "cl" in let cr := fresh "cr" in let Hcp := fresh "Hcp" in
  cbv beta match;
  destruct c as [|ci cp cv cl cr]; [reflexivity|];
  assert (Hcp : ok cp) by (exact (proj1 Hc));
  cbv beta match;
  rewrite <- ?(Ccon cp Hcp), <- ?(Cconl cp Hcp), <- ?(Cpeq cp Hcp), <- ?(Ctrl cp);
  rewrite <- ?(IH Hc);
  reflexivity.
Ltac kc_walk p Hp l Hl IHl r Hr IHr :=
  kc_root p Hp; destruct (to_right p q); [kc_child r Hr IHr | kc_child l Hl IHl].

Theorem get_node_congr t : nodes_ok t -> get_node t q = get_node t q'.
Proof.
  induction t as [|i p v l IHl r IHr]; intros H; [reflexivity|]. destruct H as [Hp [Hl Hr]].
  cbn [Trie.get_node]. kc_walk p Hp l Hl IHl r Hr IHr.
Qed.

Theorem lpm_walk_congr t : nodes_ok t -> forall best, lpm_walk t q best = lpm_walk t q' best.
Proof.
  induction t as [|i p v l IHl r IHr]; intros H best; [reflexivity|]. destruct H as [Hp [Hl Hr]].
  cbn [Trie.lpm_walk]. kc_walk p Hp l Hl IHl r Hr IHr.
Qed.

Theorem lpmp_walk_congr t : nodes_ok t -> forall best, lpmp_walk t q best = lpmp_walk t q' best.
Proof.
  induction t as [|i p v l IHl r IHr]; intros H best; [reflexivity|]. destruct H as [Hp [Hl Hr]].
  cbn [Trie.lpmp_walk]. kc_walk p Hp l Hl IHl r Hr IHr.
Qed.

Theorem lpmm_walk_congr t : nodes_ok t -> forall best, lpmm_walk t q best = lpmm_walk t q' best.
Proof.
  induction t as [|i p v l IHl r IHr]; intros H best; [reflexivity|]. destruct H as [Hp [Hl Hr]].
  cbn [Trie.lpmm_walk]. kc_walk p Hp l Hl IHl r Hr IHr.
Qed.

Theorem spm_walk_congr t : nodes_ok t -> spm_walk t q = spm_walk t q'.
Proof.
  induction t as [|i p v l IHl r IHr]; intros H; [reflexivity|]. destruct H as [Hp [Hl Hr]].
  cbn [Trie.spm_walk]. kc_walk p Hp l Hl IHl r Hr IHr.
Qed.

Theorem cover_walk_congr t : nodes_ok t -> cover_walk t q = cover_walk t q'.
Proof.
  induction t as [|i p v l IHl r IHr]; intros H; [reflexivity|]. destruct H as [Hp [Hl Hr]].
  cbn [Trie.cover_walk]. kc_walk p Hp l Hl IHl r Hr IHr.
Qed.

Theorem cover_loop_congr t : nodes_ok t -> cover_loop t q = cover_loop t q'.
Proof.
  induction t as [|i p v l IHl r IHr]; intros H; [reflexivity|]. destruct H as [Hp [Hl Hr]].
  cbn [Trie.cover_loop]. kc_walk p Hp l Hl IHl r Hr IHr.
Qed.

Theorem children_start_congr t : nodes_ok t -> children_start t q = children_start t q'.
Proof.
  induction t as [|i p v l IHl r IHr]; intros H; [reflexivity|]. destruct H as [Hp [Hl Hr]].
  cbn [Trie.children_start]. kc_walk p Hp l Hl IHl r Hr IHr.
Qed.

Theorem modify_congr t h : nodes_ok t -> modify t q h = modify t q' h.
Proof.
  induction t as [|i p v l IHl r IHr]; intros H; [reflexivity|]. destruct H as [Hp [Hl Hr]].
  cbn [Trie.modify]. kc_walk p Hp l Hl IHl r Hr IHr.
Qed.

Theorem rem_congr t : nodes_ok t -> forall hp a, rem hp t q a = rem hp t q' a.
Proof.
  induction t as [|i p v l IHl r IHr]; intros H hp a; [reflexivity|]. destruct H as [Hp [Hl Hr]].
  cbn [Trie.rem]. kc_walk p Hp l Hl IHl r Hr IHr.
Qed.

Theorem rc_congr t : nodes_ok t -> forall a, rc t q a = rc t q' a.
Proof.
  induction t as [|i p v l IHl r IHr]; intros H a; [reflexivity|]. destruct H as [Hp [Hl Hr]].
  cbn [Trie.rc]. kc_walk p Hp l Hl IHl r Hr IHr.
Qed.

Theorem find_exact_walk_congr t : nodes_ok t -> find_exact_walk t q = find_exact_walk t q'.
Proof.
  induction t as [|i p v l IHl r IHr]; intros H; [reflexivity|]. destruct H as [Hp [Hl Hr]].
  cbn [Views.find_exact_walk]. kc_walk p Hp l Hl IHl r Hr IHr.
Qed.

Theorem find_lpm_walk_congr t : nodes_ok t -> forall best, find_lpm_walk t q best = find_lpm_walk t q' best.
Proof.
  induction t as [|i p v l IHl r IHr]; intros H best; [reflexivity|]. destruct H as [Hp [Hl Hr]].
  cbn [Views.find_lpm_walk]. kc_walk p Hp l Hl IHl r Hr IHr.
Qed.

Theorem find_walk_m_congr t : nodes_ok t -> find_walk_m t q = find_walk_m t q'.
Proof.
  induction t as [|i p v l IHl r IHr]; intros H; [reflexivity|]. destruct H as [Hp [Hl Hr]].
  cbn [Views.find_walk_m]. kc_walk p Hp l Hl IHl r Hr IHr.
Qed.

Theorem find_exact_walk_m_congr t : nodes_ok t -> find_exact_walk_m t q = find_exact_walk_m t q'.
Proof.
  induction t as [|i p v l IHl r IHr]; intros H; [reflexivity|]. destruct H as [Hp [Hl Hr]].
  cbn [Views.find_exact_walk_m]. kc_walk p Hp l Hl IHl r Hr IHr.
Qed.

Theorem find_lpm_walk_m_congr t :
  nodes_ok t -> forall cur best, find_lpm_walk_m t q cur best = find_lpm_walk_m t q' cur best.
Proof.
  induction t as [|i p v l IHl r IHr]; intros H cur best; [reflexivity|]. destruct H as [Hp [Hl Hr]].
  cbn [Views.find_lpm_walk_m]. kc_walk p Hp l Hl IHl r Hr IHr.
Qed.

(** ** The public lookups, selections and removals built on the walkers *)

Theorem get_congr t : nodes_ok t -> get t q = get t q'.
Proof. intros H. unfold Trie.get. rewrite (get_node_congr t H). reflexivity. Qed.

Theorem get_key_value_congr t : nodes_ok t -> get_key_value t q = get_key_value t q'.
Proof. intros H. unfold Trie.get_key_value. rewrite (get_node_congr t H). reflexivity. Qed.

Theorem contains_key_congr t : nodes_ok t -> contains_key t q = contains_key t q'.
Proof. intros H. unfold Trie.contains_key. rewrite (get_node_congr t H). reflexivity. Qed.

Theorem get_lpm_congr t : nodes_ok t -> get_lpm t q = get_lpm t q'.
Proof. intros H. exact (lpm_walk_congr t H None). Qed.

Theorem get_lpm_prefix_congr t : nodes_ok t -> get_lpm_prefix t q = get_lpm_prefix t q'.
Proof. intros H. exact (lpmp_walk_congr t H None). Qed.

Theorem get_lpm_mut_congr t : nodes_ok t -> get_lpm_mut t q = get_lpm_mut t q'.
Proof. intros H. exact (lpmm_walk_congr t H None). Qed.

Theorem get_spm_congr t : nodes_ok t -> get_spm t q = get_spm t q'.
Proof. intros H. unfold Trie.get_spm. rewrite (spm_walk_congr t H). reflexivity. Qed.

Theorem get_spm_prefix_congr t : nodes_ok t -> get_spm_prefix t q = get_spm_prefix t q'.
Proof. intros H. unfold Trie.get_spm_prefix. rewrite (get_spm_congr t H). reflexivity. Qed.

(** one call of [Cover::next], from every state whose current node lies in a valid tree: same
    item, same successor state *)
Theorem cover_next_congr T st :
  nodes_ok T -> (match st with CStart => True | CAt t => nodes_ok t end) ->
  cover_next T st q = cover_next T st q'.
Proof.
  intros HT Hst. unfold Trie.cover_next. destruct st as [|t].
  - rewrite (cover_loop_congr T HT). reflexivity.
  - rewrite (cover_loop_congr t Hst). reflexivity.
Qed.

(** the node at which [cover_loop] stops is a subtree of the node it started at *)
Lemma cover_loop_nodes_ok t : nodes_ok t -> nodes_ok (snd (cover_loop t q)).
Proof.
  induction t as [|i p v l IHl r IHr]; intros H; [exact I|]. pose proof H as [Hp [Hl Hr]].
  cbn [Trie.cover_loop]. destruct (peq p q); [exact H|].
  destruct (to_right p q).
  - destruct r as [|ci cp cv cl cr]; [exact H|]. destruct (contains cp q); [|exact H].
    destruct cv; [exact Hr | exact (IHr Hr)].
  - destruct l as [|ci cp cv cl cr]; [exact H|]. destruct (contains cp q); [|exact H].
    destruct cv; [exact Hl | exact (IHl Hl)].
Qed.

(** the whole iterator, drained call by call *)
Theorem cover_drain_congr fuel T st :
  nodes_ok T -> (match st with CStart => True | CAt t => nodes_ok t end) ->
  cover_drain fuel T st q = cover_drain fuel T st q'.
Proof.
  revert st. induction fuel as [|f IH]; intros st HT Hst; [reflexivity|].
  cbn [Trie.cover_drain]. rewrite <- (cover_next_congr T st HT Hst).
  assert (Hn : match snd (cover_next T st q) with CStart => True | CAt t => nodes_ok t end).
  { unfold Trie.cover_next. destruct st as [|t].
    - destruct (pv T); [exact HT|]. pose proof (cover_loop_nodes_ok T HT) as K.
      destruct (cover_loop T q) as [o t']. exact K.
    - pose proof (cover_loop_nodes_ok t Hst) as K. destruct (cover_loop t q) as [o t']. exact K. }
  destruct (cover_next T st q) as [[x|] st']; [|reflexivity].
  rewrite (IH st' HT Hn). reflexivity.
Qed.

Theorem children_congr t : nodes_ok t -> children t q = children t q'.
Proof. intros H. unfold Trie.children. rewrite (children_start_congr t H). reflexivity. Qed.

Theorem children_mut_congr t : nodes_ok t -> children_mut t q = children_mut t q'.
Proof. intros H. unfold Trie.children_mut. rewrite (children_start_congr t H). reflexivity. Qed.

Theorem into_children_congr t : nodes_ok t -> into_children t q = into_children t q'.
Proof. intros H. unfold Trie.into_children. rewrite (children_start_congr t H). reflexivity. Qed.

(** removals and in-place updates: the SAME resulting map (tree, free list, arena length,
    counter) and the same returned value *)
Theorem remove_congr (m : pmap pfx V) : nodes_ok (root m) -> remove m q = remove m q'.
Proof. intros H. unfold Trie.remove. rewrite (rem_congr (root m) H). reflexivity. Qed.

Theorem remove_keep_tree_congr (m : pmap pfx V) :
  nodes_ok (root m) -> remove_keep_tree m q = remove_keep_tree m q'.
Proof.
  intros H. unfold Trie.remove_keep_tree. rewrite (get_congr (root m) H), (modify_congr (root m) _ H).
  reflexivity.
Qed.

Theorem occ_remove_congr (m : pmap pfx V) : nodes_ok (root m) -> occ_remove m q = occ_remove m q'.
Proof.
  intros H. unfold Trie.occ_remove. rewrite (get_congr (root m) H), (modify_congr (root m) _ H).
  reflexivity.
Qed.

Theorem update_value_congr (m : pmap pfx V) g :
  nodes_ok (root m) -> update_value m q g = update_value m q' g.
Proof. intros H. unfold Trie.update_value. rewrite (modify_congr (root m) _ H). reflexivity. Qed.

Theorem remove_children_congr (m : pmap pfx V) :
  nodes_ok (root m) -> remove_children m q = remove_children m q'.
Proof.
  intros H. unfold Trie.remove_children. rewrite <- Clen, (rc_congr (root m) H). reflexivity.
Qed.

Theorem entry_get_congr (m : pmap pfx V) :
  nodes_ok (root m) -> h_get m (entry m q) = h_get m (entry m q').
Proof.
  intros H. unfold Trie.h_get, Trie.entry. rewrite <- (get_node_congr (root m) H).
  destruct (get_node (root m) q) as [[[i p] [x|]]|]; cbn; try reflexivity. apply get_congr. exact H.
Qed.

End W.

(* ------------------------------------------------------------------------------------------ *)
(** * Views: the results agree up to the representation stored in a virtual view *)

(** [view_sim v v']: the same location — the same real node (the same subtree), both real or both
    virtual, and in the virtual case two valid representations of one key *)
Inductive view_sim : view -> view -> Prop :=
| VS_node t : view_sim (VNode t) (VNode t)
| VS_virt p p' t : ok p -> ok p' -> bits p = bits p' -> view_sim (VVirt p t) (VVirt p' t).

Definition osim (o o' : option view) : Prop :=
  match o, o' with
  | None, None => True
  | Some v, Some v' => view_sim v v'
  | _, _ => False
  end.

(** a view into a valid tree *)
Definition view_ok (v : view) : Prop :=
  nodes_ok (v_tree v) /\ match v with VNode _ => True | VVirt p _ => ok p end.
Definition oview_ok (o : option view) : Prop :=
  match o with None => True | Some v => view_ok v end.

Lemma view_sim_refl v : view_ok v -> view_sim v v.
Proof. destruct v as [t|p t]; intros [_ H]; constructor; [exact H | exact H | reflexivity]. Qed.

Lemma view_sim_sym v v' : view_sim v v' -> view_sim v' v.
Proof. intros [t|p p' t Hp Hp' E]; constructor; [exact Hp' | exact Hp | symmetry; exact E]. Qed.

Lemma view_sim_trans v1 v2 v3 : view_sim v1 v2 -> view_sim v2 v3 -> view_sim v1 v3.
Proof.
  intros H1 H2. destruct H1 as [t|p p' t Hp Hp' E]; inversion H2; subst; constructor; try assumption.
  congruence.
Qed.

Lemma view_sim_ok v v' : view_sim v v' -> view_ok v -> view_ok v'.
Proof. intros [t|p p' t Hp Hp' E] [H _]; split; try exact H; try exact I; exact Hp'. Qed.

(** what [view_sim] means for every observer of a view: same subtree, same kind, same key and
    length of the prefix, same value, same entry, same iterator *)
Theorem view_sim_observers v v' :
  view_sim v v' ->
  v_tree v = v_tree v' /\ v_is_virtual v = v_is_virtual v' /\
  bits (v_prefix v) = bits (v_prefix v') /\ plen (v_prefix v) = plen (v_prefix v') /\
  v_value v = v_value v' /\ v_prefix_value v = v_prefix_value v' /\ v_iter v = v_iter v'.
Proof.
  intros [t|p p' t Hp Hp' E]; cbn; repeat split; try reflexivity; try exact E.
  exact (plen_congr p p' Hp Hp' E).
Qed.

(** conversely: same subtree, same kind, same key (with valid virtual prefixes) is [view_sim] *)
Lemma view_sim_intro v v' :
  v_tree v = v_tree v' -> v_is_virtual v = v_is_virtual v' -> bits (v_prefix v) = bits (v_prefix v') ->
  view_ok v -> view_ok v' -> view_sim v v'.
Proof.
  destruct v as [t|p t], v' as [t'|p' t']; cbn; intros Et Ev Eb [_ Hp] [_ Hp']; try discriminate; subst t'.
  - constructor.
  - constructor; assumption.
Qed.

Lemma view_sim_node_eq t v' : view_sim (VNode t) v' -> v' = VNode t.
Proof. intros H. inversion H. reflexivity. Qed.

Section WV.
Variables q q' : pfx.
Hypothesis Hq : ok q.
Hypothesis Hq' : ok q'.
Hypothesis E : bits q = bits q'.

Let Cpeq := peq_congr q q' Hq Hq' E.
Let Ccon := contains_congr q q' Hq Hq' E.
Let Cconl := contains_congr_l q q' Hq Hq' E.
Let Ctr := to_right_congr q q' Hq Hq' E.

(** the loop of [TrieView::find] *)
Theorem find_walk_sim t : nodes_ok t -> osim (find_walk t q) (find_walk t q').
Proof.
  induction t as [|i p v l IHl r IHr]; intros H; [exact I|]. destruct H as [Hp [Hl Hr]].
  cbn [Views.find_walk]. rewrite <- (Cpeq p Hp), <- (Ctr p).
  destruct (peq p q); [constructor|].
  assert (Hgo : forall c, nodes_ok c -> (nodes_ok c -> osim (find_walk c q) (find_walk c q')) ->
     osim match c with
          | Leaf => None
          | Node _ cp _ _ _ => if contains cp q then find_walk c q
                               else if contains q cp then Some (VVirt q c) else None
          end
          match c with
          | Leaf => None
          | Node _ cp _ _ _ => if contains cp q' then find_walk c q'
                               else if contains q' cp then Some (VVirt q' c) else None
          end).
  { intros c Hc IH. destruct c as [|ci cp cv cl cr]; [exact I|].
    assert (Hcp : ok cp) by (exact (proj1 Hc)).
    rewrite <- (Ccon cp Hcp), <- (Cconl cp Hcp).
    destruct (contains cp q); [exact (IH Hc)|].
    destruct (contains q cp); [|exact I]. constructor; assumption. }
  destruct (to_right p q); [exact (Hgo r Hr IHr) | exact (Hgo l Hl IHl)].
Qed.

(** [TrieView::find] on two [view_sim] views with two representations of one key *)
Theorem v_find_sim v v' : view_sim v v' -> nodes_ok (v_tree v) -> osim (v_find v q) (v_find v' q').
Proof.
  intros Hs Hn. destruct (view_sim_observers v v' Hs) as [Et _].
  unfold Views.v_find. rewrite <- Et. destruct (v_tree v) as [|i p x l r] eqn:T; [exact I|].
  assert (Hp : ok p) by (exact (proj1 Hn)).
  rewrite <- (Cconl p Hp), <- (Cpeq p Hp).
  destruct (contains q p && negb (peq p q)); [constructor; assumption|].
  apply find_walk_sim. exact Hn.
Qed.

(** [AsView::view_at] *)
Theorem view_at_sim T : nodes_ok T -> osim (view_at T q) (view_at T q').
Proof. intros H. unfold Views.view_at. apply v_find_sim; [constructor | exact H]. Qed.

(** [find_exact] and [find_lpm] only return real nodes: equal results *)
Theorem v_find_exact_congr v v' :
  view_sim v v' -> nodes_ok (v_tree v) -> v_find_exact v q = v_find_exact v' q'.
Proof.
  intros Hs Hn. destruct (view_sim_observers v v' Hs) as [Et _].
  unfold Views.v_find_exact. rewrite <- Et. apply find_exact_walk_congr; assumption.
Qed.

Theorem v_find_lpm_congr v v' :
  view_sim v v' -> nodes_ok (v_tree v) -> v_find_lpm v q = v_find_lpm v' q'.
Proof.
  intros Hs Hn. destruct (view_sim_observers v v' Hs) as [Et _].
  unfold Views.v_find_lpm. rewrite <- Et. destruct (v_tree v) as [|i p x l r] eqn:T; [reflexivity|].
  assert (Hp : ok p) by (exact (proj1 Hn)).
  rewrite <- (Ccon p Hp). destruct (contains p q); [|reflexivity].
  apply find_lpm_walk_congr; assumption.
Qed.

(** the views found lie in the valid tree again (so that the theorems above chain) *)
Lemma find_walk_ok t : nodes_ok t -> oview_ok (find_walk t q).
Proof.
  induction t as [|i p v l IHl r IHr]; intros H; [exact I|]. pose proof H as [Hp [Hl Hr]].
  cbn [Views.find_walk]. destruct (peq p q); [split; [exact H | exact I]|].
  destruct (to_right p q).
  - destruct r as [|ci cp cv cl cr]; [exact I|]. destruct (contains cp q); [exact (IHr Hr)|].
    destruct (contains q cp); [split; [exact Hr | exact Hq] | exact I].
  - destruct l as [|ci cp cv cl cr]; [exact I|]. destruct (contains cp q); [exact (IHl Hl)|].
    destruct (contains q cp); [split; [exact Hl | exact Hq] | exact I].
Qed.

Lemma v_find_ok v : nodes_ok (v_tree v) -> oview_ok (v_find v q).
Proof.
  intros Hn. unfold Views.v_find. destruct (v_tree v) as [|i p x l r] eqn:T; [exact I|].
  destruct (contains q p && negb (peq p q)); [split; [exact Hn | exact Hq]|].
  apply find_walk_ok. exact Hn.
Qed.

End WV.

Lemma find_exact_walk_ok t q : nodes_ok t -> oview_ok (find_exact_walk t q).
Proof.
  induction t as [|i p v l IHl r IHr]; intros H; [exact I|]. pose proof H as [Hp [Hl Hr]].
  cbn [Views.find_exact_walk]. destruct (peq p q); [destruct (is_some v); [split; [exact H | exact I] | exact I]|].
  destruct (to_right p q).
  - destruct r as [|ci cp cv cl cr]; [exact I|]. destruct (contains cp q); [exact (IHr Hr) | exact I].
  - destruct l as [|ci cp cv cl cr]; [exact I|]. destruct (contains cp q); [exact (IHl Hl) | exact I].
Qed.

Lemma find_lpm_walk_ok t q best : nodes_ok t -> oview_ok best -> oview_ok (find_lpm_walk t q best).
Proof.
  revert best. induction t as [|i p v l IHl r IHr]; intros best H Hb; [exact Hb|]. pose proof H as [Hp [Hl Hr]].
  cbn [Views.find_lpm_walk].
  assert (Hb' : oview_ok (if is_some v then Some (VNode (Node i p v l r)) else best)).
  { destruct (is_some v); [split; [exact H | exact I] | exact Hb]. }
  destruct (peq p q); [exact Hb'|].
  destruct (to_right p q).
  - destruct r as [|ci cp cv cl cr]; [exact Hb'|]. destruct (contains cp q); [exact (IHr _ Hr Hb') | exact Hb'].
  - destruct l as [|ci cp cv cl cr]; [exact Hb'|]. destruct (contains cp q); [exact (IHl _ Hl Hb') | exact Hb'].
Qed.

Lemma v_find_exact_ok v q : nodes_ok (v_tree v) -> oview_ok (v_find_exact v q).
Proof. apply find_exact_walk_ok. Qed.

Lemma v_find_lpm_ok v q : nodes_ok (v_tree v) -> oview_ok (v_find_lpm v q).
Proof.
  intros Hn. unfold Views.v_find_lpm. destruct (v_tree v) as [|i p x l r] eqn:T; [exact I|].
  destruct (contains p q); [|exact I]. apply find_lpm_walk_ok; [exact Hn | exact I].
Qed.

(** [left]/[right] of two [view_sim] views: equal (always a real node) *)
Theorem v_left_congr v v' : view_sim v v' -> v_left v = v_left v'.
Proof.
  intros [t|p p' t Hp Hp' E]; [reflexivity|]. cbn [Views.v_left].
  rewrite (to_right_congr_l p p' Hp Hp' E). reflexivity.
Qed.

Theorem v_right_congr v v' : view_sim v v' -> v_right v = v_right v'.
Proof.
  intros [t|p p' t Hp Hp' E]; [reflexivity|]. cbn [Views.v_right].
  rewrite (to_right_congr_l p p' Hp Hp' E). reflexivity.
Qed.

Lemma v_left_ok v : nodes_ok (v_tree v) -> oview_ok (v_left v).
Proof.
  destruct v as [t|p t]; cbn [Views.v_left Views.v_tree]; intros Hn.
  - destruct t as [|i p x l r]; [exact I|]. cbn [tleft]. destruct l; [exact I|].
    split; [exact (proj1 (proj2 Hn)) | exact I].
  - destruct (negb (to_right p (tpfx t))); [split; [exact Hn | exact I] | exact I].
Qed.

Lemma v_right_ok v : nodes_ok (v_tree v) -> oview_ok (v_right v).
Proof.
  destruct v as [t|p t]; cbn [Views.v_right Views.v_tree]; intros Hn.
  - destruct t as [|i p x l r]; [exact I|]. cbn [tright]. destruct r; [exact I|].
    split; [exact (proj2 (proj2 Hn)) | exact I].
  - destruct (to_right p (tpfx t)); [split; [exact Hn | exact I] | exact I].
Qed.

(** ** Whole navigations: any sequence of [find]/[find_exact]/[find_lpm]/[left]/[right] calls *)
Inductive vstep := SFind (q : pfx) | SFindExact (q : pfx) | SFindLpm (q : pfx) | SLeft | SRight.

Definition vstep_run (v : view) (s : vstep) : option view :=
  match s with
  | SFind q => v_find v q
  | SFindExact q => v_find_exact v q
  | SFindLpm q => v_find_lpm v q
  | SLeft => v_left v
  | SRight => v_right v
  end.

Fixpoint vnav (v : view) (ss : list vstep) : option view :=
  match ss with
  | [] => Some v
  | s :: ss' => match vstep_run v s with Some v' => vnav v' ss' | None => None end
  end.

(** the same call, with two valid representations of one key *)
Definition vstep_sim (s s' : vstep) : Prop :=
  match s, s' with
  | SFind q, SFind q' | SFindExact q, SFindExact q' | SFindLpm q, SFindLpm q' =>
    ok q /\ ok q' /\ bits q = bits q'
  | SLeft, SLeft | SRight, SRight => True
  | _, _ => False
  end.

Lemma osim_of_eq o o' : oview_ok o -> o = o' -> osim o o'.
Proof. intros H <-. destruct o as [v|]; [apply view_sim_refl; exact H | exact I]. Qed.

Lemma vstep_run_sim v v' s s' :
  view_ok v -> view_sim v v' -> vstep_sim s s' ->
  osim (vstep_run v s) (vstep_run v' s') /\ oview_ok (vstep_run v s).
Proof.
  intros [Hn Hv] Hs Hss.
  destruct s as [q|q|q| |], s' as [q'|q'|q'| |]; cbn in Hss; try contradiction; cbn [vstep_run].
  - destruct Hss as [Hq [Hq' E]]. split; [apply v_find_sim; assumption | apply v_find_ok; assumption].
  - destruct Hss as [Hq [Hq' E]]. pose proof (v_find_exact_ok v q Hn) as K.
    split; [apply osim_of_eq; [exact K | apply v_find_exact_congr; assumption] | exact K].
  - destruct Hss as [Hq [Hq' E]]. pose proof (v_find_lpm_ok v q Hn) as K.
    split; [apply osim_of_eq; [exact K | apply v_find_lpm_congr; assumption] | exact K].
  - pose proof (v_left_ok v Hn) as K.
    split; [apply osim_of_eq; [exact K | apply v_left_congr; assumption] | exact K].
  - pose proof (v_right_ok v Hn) as K.
    split; [apply osim_of_eq; [exact K | apply v_right_congr; assumption] | exact K].
Qed.

Theorem vnav_sim ss : forall ss' v v',
  view_ok v -> view_sim v v' -> Forall2 vstep_sim ss ss' -> osim (vnav v ss) (vnav v' ss').
Proof.
  induction ss as [|s ss IH]; intros ss' v v' Hv Hs HF; inversion HF as [|? s' ? ss1 Hss HF']; subst.
  - exact Hs.
  - cbn [vnav]. destruct (vstep_run_sim v v' s s' Hv Hs Hss) as [Ho Hk].
    destruct (vstep_run v s) as [w1|], (vstep_run v' s') as [w2|]; cbn in Ho; try contradiction; [|exact I].
    apply IH; assumption.
Qed.

(* ------------------------------------------------------------------------------------------ *)
(** * [TrieViewMut] *)

(** the same location: the same path, both real or both virtual with two valid representations
    of one key *)
Definition vm_sim (m m' : vmut pfx) : Prop :=
  mpath pfx m = mpath pfx m' /\
  match mvirt pfx m, mvirt pfx m' with
  | None, None => True
  | Some p, Some p' => ok p /\ ok p' /\ bits p = bits p'
  | _, _ => False
  end.
Definition ovm_sim (o o' : option (vmut pfx)) : Prop :=
  match o, o' with
  | None, None => True
  | Some m, Some m' => vm_sim m m'
  | _, _ => False
  end.

Lemma vm_sim_real m m' : vm_sim m m' -> mvirt pfx m = None -> m' = m.
Proof.
  destruct m as [pa vi], m' as [pa' vi']. unfold vm_sim. cbn. intros [<- H] ->.
  destruct vi'; [contradiction | reflexivity].
Qed.

(** the read-only views of two [vm_sim] mutable views are [view_sim] *)
Lemma vm_sim_view T m m' : vm_sim m m' -> view_sim (vm_view T m) (vm_view T m').
Proof.
  destruct m as [pa vi], m' as [pa' vi']. unfold vm_sim, Views.vm_view, Views.vm_tree. cbn.
  intros [<- H]. destruct vi as [p|], vi' as [p'|]; try contradiction; [|constructor].
  destruct H as [Hp [Hp' E]]. constructor; assumption.
Qed.

Section WM.
Variables q q' : pfx.
Hypothesis Hq : ok q.
Hypothesis Hq' : ok q'.
Hypothesis E : bits q = bits q'.

Theorem vm_find_sim T m m' :
  nodes_ok T -> vm_sim m m' -> ovm_sim (vm_find T m q) (vm_find T m' q').
Proof.
  intros HT [Ep Hv]. unfold Views.vm_find, Views.vm_tree. rewrite <- Ep.
  pose proof (nodes_ok_subtree T (mpath pfx m) HT) as Hn.
  destruct (subtree T (mpath pfx m)) as [|i p x l r] eqn:S; [exact I|].
  assert (Hp : ok p) by (exact (proj1 Hn)).
  rewrite <- (contains_congr_l q q' Hq Hq' E p Hp), <- (peq_congr q q' Hq Hq' E p Hp).
  destruct (contains q p && negb (peq p q)); [split; [reflexivity | cbn; tauto]|].
  rewrite <- (find_walk_m_congr q q' Hq Hq' E _ Hn).
  destruct (find_walk_m (Node i p x l r) q) as [[pa vi]|]; [|exact I].
  split; [reflexivity|]. cbn. destruct vi; tauto.
Qed.

Theorem vm_find_exact_congr T m m' :
  nodes_ok T -> vm_sim m m' -> vm_find_exact T m q = vm_find_exact T m' q'.
Proof.
  intros HT [Ep Hv]. unfold Views.vm_find_exact, Views.vm_tree. rewrite <- Ep.
  rewrite <- (find_exact_walk_m_congr q q' Hq Hq' E _ (nodes_ok_subtree T (mpath pfx m) HT)). reflexivity.
Qed.

Theorem vm_find_lpm_congr T m m' :
  nodes_ok T -> vm_sim m m' -> vm_find_lpm T m q = vm_find_lpm T m' q'.
Proof.
  intros HT [Ep Hv]. unfold Views.vm_find_lpm, Views.vm_tree. rewrite <- Ep.
  pose proof (nodes_ok_subtree T (mpath pfx m) HT) as Hn.
  destruct (subtree T (mpath pfx m)) as [|i p x l r] eqn:S; [reflexivity|].
  assert (Hp : ok p) by (exact (proj1 Hn)).
  rewrite <- (contains_congr q q' Hq Hq' E p Hp).
  rewrite <- (find_lpm_walk_m_congr q q' Hq Hq' E _ Hn). reflexivity.
Qed.

End WM.

(** every other operation of a mutable view gives equal results on [vm_sim] views *)
Theorem vm_ops_congr (T : tree) m m' :
  vm_sim m m' ->
  vm_tree T m = vm_tree T m' /\
  vm_left T m = vm_left T m' /\ vm_right T m = vm_right T m' /\ vm_split T m = vm_split T m' /\
  vm_has_left T m = vm_has_left T m' /\ vm_has_right T m = vm_has_right T m' /\
  bits (vm_prefix T m) = bits (vm_prefix T m') /\
  vm_value T m = vm_value T m' /\ vm_remove T m = vm_remove T m' /\
  (forall x, vm_set T m x = vm_set T m' x) /\
  (forall g, vm_value_mut T m g = vm_value_mut T m' g) /\
  vm_iter_mut T m = vm_iter_mut T m'.
Proof.
  destruct m as [pa vi], m' as [pa' vi']. unfold vm_sim. cbn [mpath mvirt]. intros [<- H].
  destruct vi as [p|], vi' as [p'|]; try contradiction.
  - destruct H as [Hp [Hp' E]].
    unfold Views.vm_tree, Views.vm_left, Views.vm_right, Views.vm_split, Views.vm_has_left, Views.vm_has_right,
      Views.vm_prefix, Views.vm_value, Views.vm_remove, Views.vm_set, Views.vm_value_mut, Views.vm_iter_mut,
      Views.vm_tree.
    cbn [mpath mvirt]. rewrite !(to_right_congr_l p p' Hp Hp' E). repeat split; try reflexivity. exact E.
  - repeat split; reflexivity.
Qed.

(** ** Whole navigations of a mutable view (over a fixed tree) *)
Definition mstep_run (T : tree) (m : vmut pfx) (s : vstep) : option (vmut pfx) :=
  match s with
  | SFind q => vm_find T m q
  | SFindExact q => vm_find_exact T m q
  | SFindLpm q => vm_find_lpm T m q
  | SLeft => vm_left T m
  | SRight => vm_right T m
  end.

Fixpoint vmnav (T : tree) (m : vmut pfx) (ss : list vstep) : option (vmut pfx) :=
  match ss with
  | [] => Some m
  | s :: ss' => match mstep_run T m s with Some m' => vmnav T m' ss' | None => None end
  end.

Lemma ovm_sim_of_eq_real o o' :
  o = o' -> (forall m, o = Some m -> mvirt pfx m = None) -> ovm_sim o o'.
Proof.
  intros <- H. destruct o as [m|]; [|exact I]. cbn. split; [reflexivity|].
  rewrite (H m eq_refl). exact I.
Qed.

Lemma mstep_run_sim T m m' s s' :
  nodes_ok T -> vm_sim m m' -> vstep_sim s s' -> ovm_sim (mstep_run T m s) (mstep_run T m' s').
Proof.
  intros HT Hs Hss.
  destruct s as [q|q|q| |], s' as [q'|q'|q'| |]; cbn in Hss; try contradiction; cbn [mstep_run].
  - destruct Hss as [Hq [Hq' E]]. apply vm_find_sim; assumption.
  - destruct Hss as [Hq [Hq' E]]. apply ovm_sim_of_eq_real; [apply vm_find_exact_congr; assumption|].
    intros x. unfold Views.vm_find_exact. destruct (find_exact_walk_m (vm_tree T m) q); [|discriminate].
    intros K; inversion K; reflexivity.
  - destruct Hss as [Hq [Hq' E]]. apply ovm_sim_of_eq_real; [apply vm_find_lpm_congr; assumption|].
    intros x. unfold Views.vm_find_lpm. destruct (vm_tree T m) as [|i p y l r]; [discriminate|].
    destruct (contains p q); [|discriminate].
    destruct (find_lpm_walk_m (Node i p y l r) q [] None); [|discriminate].
    intros K; inversion K; reflexivity.
  - apply ovm_sim_of_eq_real; [exact (proj1 (proj2 (vm_ops_congr T m m' Hs)))|].
    intros x. unfold Views.vm_left. destruct (mvirt pfx m).
    + destruct (negb (to_right p (tpfx (vm_tree T m)))); [|discriminate]. intros K; inversion K; reflexivity.
    + destruct (is_node (tleft (vm_tree T m))); [|discriminate]. intros K; inversion K; reflexivity.
  - apply ovm_sim_of_eq_real; [exact (proj1 (proj2 (proj2 (vm_ops_congr T m m' Hs))))|].
    intros x. unfold Views.vm_right. destruct (mvirt pfx m).
    + destruct (to_right p (tpfx (vm_tree T m))); [|discriminate]. intros K; inversion K; reflexivity.
    + destruct (is_node (tright (vm_tree T m))); [|discriminate]. intros K; inversion K; reflexivity.
Qed.

Theorem vmnav_sim T ss : forall ss' m m',
  nodes_ok T -> vm_sim m m' -> Forall2 vstep_sim ss ss' -> ovm_sim (vmnav T m ss) (vmnav T m' ss').
Proof.
  induction ss as [|s ss IH]; intros ss' m m' HT Hs HF; inversion HF as [|? s' ? ss1 Hss HF']; subst.
  - exact Hs.
  - cbn [vmnav]. pose proof (mstep_run_sim T m m' s s' HT Hs Hss) as Ho.
    destruct (mstep_run T m s) as [w1|], (mstep_run T m' s') as [w2|]; cbn in Ho; try contradiction; [|exact I].
    apply IH; assumption.
Qed.

End KC.

Print Assumptions get_node_congr.
Print Assumptions lpm_walk_congr.
Print Assumptions lpmp_walk_congr.
Print Assumptions lpmm_walk_congr.
Print Assumptions spm_walk_congr.
Print Assumptions cover_walk_congr.
Print Assumptions cover_loop_congr.
Print Assumptions children_start_congr.
Print Assumptions modify_congr.
Print Assumptions rem_congr.
Print Assumptions rc_congr.
Print Assumptions find_exact_walk_congr.
Print Assumptions find_lpm_walk_congr.
Print Assumptions find_walk_m_congr.
Print Assumptions find_exact_walk_m_congr.
Print Assumptions find_lpm_walk_m_congr.
Print Assumptions get_congr.
Print Assumptions get_key_value_congr.
Print Assumptions contains_key_congr.
Print Assumptions get_lpm_congr.
Print Assumptions get_lpm_prefix_congr.
Print Assumptions get_lpm_mut_congr.
Print Assumptions get_spm_congr.
Print Assumptions get_spm_prefix_congr.
Print Assumptions cover_next_congr.
Print Assumptions cover_drain_congr.
Print Assumptions children_congr.
Print Assumptions children_mut_congr.
Print Assumptions into_children_congr.
Print Assumptions remove_congr.
Print Assumptions remove_keep_tree_congr.
Print Assumptions occ_remove_congr.
Print Assumptions update_value_congr.
Print Assumptions remove_children_congr.
Print Assumptions entry_get_congr.
Print Assumptions view_sim_observers.
Print Assumptions find_walk_sim.
Print Assumptions v_find_sim.
Print Assumptions view_at_sim.
Print Assumptions v_find_exact_congr.
Print Assumptions v_find_lpm_congr.
Print Assumptions v_left_congr.
Print Assumptions v_right_congr.
Print Assumptions vnav_sim.
Print Assumptions vm_find_sim.
Print Assumptions vm_find_exact_congr.
Print Assumptions vm_find_lpm_congr.
Print Assumptions vm_ops_congr.
Print Assumptions vmnav_sim.
