(** The abstract laws of a prefix type, stated against the bit string [bits p] a prefix denotes.
    The trie layer is proved once over these laws; [PrefixLaws.v] discharges them for [PrefixN]
    at every width [w >= 1] and each of the three flavours, so no hypothesis about prefixes
    survives in the final theorems. *)
From Coq Require Import List NArith Bool.
From PT Require Import Bits.
Import ListNotations.

Section L.
Variable pfx : Type.
Variables (peq contains : pfx -> pfx -> bool) (is_bit_set : pfx -> N -> bool)
          (plen : pfx -> N) (lcp : pfx -> pfx -> pfx) (pzero : pfx)
          (mcmp : pfx -> pfx -> comparison).
(** the key a prefix denotes, and the valid values of the type ([len <= width]) *)
Variable bits : pfx -> list bool.
Variable ok : pfx -> Prop.

Record prefix_laws : Prop := {
  plen_bits : forall p, ok p -> plen p = N.of_nat (length (bits p));
  peq_spec : forall a b, ok a -> ok b -> (peq a b = true <-> bits a = bits b);
  contains_spec : forall a b, ok a -> ok b -> (contains a b = true <-> prefix_of (bits a) (bits b));
  bit_spec : forall p i, ok p -> is_bit_set p i = nth (N.to_nat i) (bits p) false;
  lcp_ok : forall a b, ok a -> ok b -> ok (lcp a b);
  lcp_spec : forall a b, ok a -> ok b -> bits (lcp a b) = common (bits a) (bits b);
  zero_ok : ok pzero;
  zero_spec : bits pzero = [];
  mcmp_spec : forall a b, ok a -> ok b -> mcmp a b = bcmp (bits a) (bits b)
}.
End L.
