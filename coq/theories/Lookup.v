(** The exact-match, longest-prefix, shortest-prefix/cover and children descents, against the
    entry list of the tree.  All statements hold for every well-formed subtree whose root covers
    the query — in particular for a whole map and every query. *)
From Coq Require Import List NArith ZArith Bool Arith Lia Sorted.
From PT Require Import Bits BitsThm Laws Machine Trie TrieWf.
Import ListNotations.

Section LK.
Variables (pfx V : Type).
Variables (peq contains : pfx -> pfx -> bool) (is_bit_set : pfx -> N -> bool)
          (plen : pfx -> N) (lcp : pfx -> pfx -> pfx) (pzero : pfx)
          (mcmp : pfx -> pfx -> comparison).
Variable bits : pfx -> list bool.
Variable ok : pfx -> Prop.
Hypothesis LAWS : prefix_laws pfx peq contains is_bit_set plen lcp pzero mcmp bits ok.

Notation tree := (tree pfx V).
Notation to_right := (to_right pfx is_bit_set plen).
Notation wf_under := (wf_under pfx V bits ok).
Notation key := (key pfx V bits).
Notation get_node := (get_node pfx V peq contains is_bit_set plen).
Notation get := (get pfx V peq contains is_bit_set plen).
Notation get_key_value := (get_key_value pfx V peq contains is_bit_set plen).
Notation contains_key := (contains_key pfx V peq contains is_bit_set plen).
Notation lpm_walk := (lpm_walk pfx V peq contains is_bit_set plen).
Notation lpmp_walk := (lpmp_walk pfx V peq contains is_bit_set plen).
Notation lpmm_walk := (lpmm_walk pfx V peq contains is_bit_set plen).
Notation cover_walk := (cover_walk pfx V peq contains is_bit_set plen).
Notation cover_loop := (cover_loop pfx V peq contains is_bit_set plen).
Notation cover_next := (cover_next pfx V peq contains is_bit_set plen).
Notation cover_drain := (cover_drain pfx V peq contains is_bit_set plen).
Notation spm_walk := (spm_walk pfx V peq contains is_bit_set plen).
Notation get_spm := (get_spm pfx V peq contains is_bit_set plen).
Notation children_start := (children_start pfx V peq contains is_bit_set plen).

(** the root of the (sub)tree covers the query *)
Definition root_covers (t : tree) (q : pfx) : Prop :=
  match t with Leaf => True | Node _ p _ _ _ => prefix_of (bits p) (bits q) end.

Lemma wf_root_covers t q : wf_root pfx V bits ok t -> root_covers t q.
Proof. destruct t as [|i p v l r]; [intros []|]. intros [E _]. cbn. rewrite E. apply prefix_of_nil. Qed.

(** facts available after the tests [peq p q = false], child selected *)
Lemma enter_child b i p v l r q :
  wf_under b (Node i p v l r) -> ok q -> prefix_of (bits p) (bits q) -> peq p q = false ->
  let c := if to_right p q then r else l in
  wf_under (bits p ++ [to_right p q]) c /\
  prefix_of (bits p ++ [to_right p q]) (bits q) /\
  (forall e, In e (entries (if to_right p q then l else r)) ->
             ~ prefix_of (key e) (bits q) /\ ~ prefix_of (bits q) (key e)).
Proof.
  intros Hwf Hq Hc Hne c.
  pose proof (wf_node_inv _ _ _ _ _ _ _ _ _ _ Hwf) as [Hp [_ [Hl Hr]]].
  split; [|split].
  - subst c. destruct (to_right p q); assumption.
  - apply (descent_side pfx peq contains is_bit_set plen lcp pzero mcmp bits ok LAWS); assumption.
  - intros e He.
    apply (other_side_incomparable pfx V peq contains is_bit_set plen lcp pzero mcmp bits ok LAWS b i p v l r q e);
      try assumption.
    unfold child_of. destruct (to_right p q); exact He.
Qed.

Lemma root_covers_child cp ci cv cl cr q :
  ok cp -> ok q -> contains cp q = true -> root_covers (Node ci cp cv cl cr) q.
Proof. intros. cbn. eapply contains_true; eauto. Qed.

(* ---------------------------------------------------------------------------------------- *)
(** * Exact match *)

Lemma get_node_sound t : forall b q i p v,
  wf_under b t -> ok q -> get_node t q = Some (i, p, v) ->
  bits p = bits q /\ (forall x, v = Some x -> In (p, x) (entries t)).
Proof.
  induction t as [|i0 p0 v0 l IHl r IHr]; intros b q i p v Hwf Hq H; cbn [Trie.get_node] in H; [discriminate|].
  pose proof (wf_node_inv _ _ _ _ _ _ _ _ _ _ Hwf) as [Hp [_ [Hl Hr]]].
  destruct (peq p0 q) eqn:E.
  - inversion H; subst. split.
    + eapply peq_true; eauto.
    + intros x ->. cbn. left. reflexivity.
  - destruct (to_right p0 q).
    + destruct r as [|ci cp cv cl cr]; [discriminate|]. destruct (contains cp q); [|discriminate].
      destruct (IHr _ _ _ _ _ Hr Hq H) as [A B]. split; [exact A|].
      intros x Hx. apply in_entries_r. apply B. exact Hx.
    + destruct l as [|ci cp cv cl cr]; [discriminate|]. destruct (contains cp q); [|discriminate].
      destruct (IHl _ _ _ _ _ Hl Hq H) as [A B]. split; [exact A|].
      intros x Hx. apply in_entries_l. apply B. exact Hx.
Qed.

Lemma get_node_complete t : forall b q p x,
  wf_under b t -> ok q -> root_covers t q -> In (p, x) (entries t) -> bits p = bits q ->
  exists i, get_node t q = Some (i, p, Some x).
Proof.
  induction t as [|i0 p0 v0 l IHl r IHr]; intros b q p x Hwf Hq Hrc Hin Hk; [contradiction|].
  pose proof (wf_node_inv _ _ _ _ _ _ _ _ _ _ Hwf) as [Hp [_ [Hl Hr]]].
  cbn [Trie.get_node]. cbn in Hrc.
  destruct (peq p0 q) eqn:E.
  - (* the stored entry with this key is the node's own *)
    exists i0.
    assert (Hp0 : bits p0 = bits q) by (eapply peq_true; eauto).
    cbn [entries] in Hin. rewrite !in_app_iff in Hin. destruct Hin as [Hin|[Hin|Hin]].
    + destruct v0; cbn in Hin; [|contradiction]. destruct Hin as [Hin|[]]. inversion Hin; subst. reflexivity.
    + exfalso. pose proof (entries_under _ _ _ _ _ _ _ Hl Hin) as Hu. cbn in Hu.
      eapply below_neq; [exact Hu|]. unfold TrieWf.key. cbn. congruence.
    + exfalso. pose proof (entries_under _ _ _ _ _ _ _ Hr Hin) as Hu. cbn in Hu.
      eapply below_neq; [exact Hu|]. unfold TrieWf.key. cbn. congruence.
  - destruct (enter_child _ _ _ _ _ _ _ Hwf Hq Hrc E) as [Hc [Hside Hother]].
    cbn [entries] in Hin. rewrite !in_app_iff in Hin.
    assert (Hown : ~ In (p, x) (match v0 with Some x0 => [(p0, x0)] | None => [] end)).
    { intros H. destruct v0; cbn in H; [|contradiction]. destruct H as [H|[]]. inversion H; subst.
      eapply (peq_false pfx peq contains is_bit_set plen lcp pzero mcmp bits ok LAWS p q); eauto. }
    destruct (to_right p0 q) eqn:S.
    + destruct Hin as [Hin|[Hin|Hin]]; [contradiction| |].
      * exfalso. destruct (Hother _ Hin) as [A _]. apply A. unfold TrieWf.key. cbn. rewrite Hk. apply prefix_of_refl.
      * destruct r as [|ci cp cv cl cr]; [contradiction|].
        pose proof (wf_node_inv _ _ _ _ _ _ _ _ _ _ Hr) as [Hcp _].
        assert (Hcq : contains cp q = true).
        { eapply contains_intro; eauto.
          pose proof (entries_under _ _ _ _ _ _ _ (wf_self _ _ _ _ _ _ _ _ _ _ Hr) Hin) as Hu.
          unfold TrieWf.key in Hu. cbn in Hu. rewrite Hk in Hu. exact Hu. }
        rewrite Hcq. eapply IHr; eauto. eapply root_covers_child; eauto.
    + destruct Hin as [Hin|[Hin|Hin]]; [contradiction| |].
      * destruct l as [|ci cp cv cl cr]; [contradiction|].
        pose proof (wf_node_inv _ _ _ _ _ _ _ _ _ _ Hl) as [Hcp _].
        assert (Hcq : contains cp q = true).
        { eapply contains_intro; eauto.
          pose proof (entries_under _ _ _ _ _ _ _ (wf_self _ _ _ _ _ _ _ _ _ _ Hl) Hin) as Hu.
          unfold TrieWf.key in Hu. cbn in Hu. rewrite Hk in Hu. exact Hu. }
        rewrite Hcq. eapply IHl; eauto. eapply root_covers_child; eauto.
      * exfalso. destruct (Hother _ Hin) as [A _]. apply A. unfold TrieWf.key. cbn. rewrite Hk. apply prefix_of_refl.
Qed.

(** [get], [get_key_value], [contains_key]: the stored entry whose key equals the query's *)
Theorem get_key_value_spec b t q p x :
  wf_under b t -> ok q -> root_covers t q ->
  (get_key_value t q = Some (p, x) <-> In (p, x) (entries t) /\ bits p = bits q).
Proof.
  intros Hwf Hq Hrc. unfold Trie.get_key_value. split.
  - destruct (get_node t q) as [[[i p'] [x'|]]|] eqn:G; try discriminate.
    intros H. inversion H; subst.
    destruct (get_node_sound _ _ _ _ _ _ Hwf Hq G) as [A B]. split; [apply B; reflexivity | exact A].
  - intros [Hin Hk]. destruct (get_node_complete _ _ _ _ _ Hwf Hq Hrc Hin Hk) as [i ->]. reflexivity.
Qed.

Theorem get_spec b t q x :
  wf_under b t -> ok q -> root_covers t q ->
  (get t q = Some x <-> exists p, In (p, x) (entries t) /\ bits p = bits q).
Proof.
  intros Hwf Hq Hrc. unfold Trie.get. split.
  - destruct (get_node t q) as [[[i p'] v]|] eqn:G; [|discriminate].
    intros ->. destruct (get_node_sound _ _ _ _ _ _ Hwf Hq G) as [A B]. exists p'. split; [apply B; reflexivity | exact A].
  - intros [p [Hin Hk]]. destruct (get_node_complete _ _ _ _ _ Hwf Hq Hrc Hin Hk) as [i ->]. reflexivity.
Qed.

Theorem contains_key_spec b t q :
  wf_under b t -> ok q -> root_covers t q ->
  (contains_key t q = true <-> exists e, In e (entries t) /\ key e = bits q).
Proof.
  intros Hwf Hq Hrc. unfold Trie.contains_key. split.
  - destruct (get_node t q) as [[[i p'] [x|]]|] eqn:G; try discriminate.
    intros _. destruct (get_node_sound _ _ _ _ _ _ Hwf Hq G) as [A B].
    exists (p', x). split; [apply B; reflexivity | exact A].
  - intros [[p x] [Hin Hk]]. destruct (get_node_complete _ _ _ _ _ Hwf Hq Hrc Hin Hk) as [i ->]. reflexivity.
Qed.

(* ---------------------------------------------------------------------------------------- *)
(** * Longest-prefix match *)

(** [e] is the most specific entry of [es] covering [q] *)
Definition is_lpm (es : list (pfx * V)) (q : pfx) (e : pfx * V) : Prop :=
  In e es /\ prefix_of (key e) (bits q) /\
  forall e', In e' es -> prefix_of (key e') (bits q) -> length (key e') <= length (key e).
Definition no_cover (es : list (pfx * V)) (q : pfx) : Prop :=
  forall e, In e es -> ~ prefix_of (key e) (bits q).

(** result of a walk given the best match found above: either the subtree holds a covering entry
    and the result is its most specific one, or it holds none and the result is the inherited one *)
Definition lpm_result (t : tree) (q : pfx) (best res : option (pfx * V)) : Prop :=
  (exists e, res = Some e /\ is_lpm (entries t) q e) \/ (no_cover (entries t) q /\ res = best).

Lemma lpm_walk_spec t : forall b q best,
  wf_under b t -> ok q -> root_covers t q -> lpm_result t q best (lpm_walk t q best).
Proof.
  induction t as [|i0 p0 v0 l IHl r IHr]; intros b q best Hwf Hq Hrc.
  - right. split; [intros e []|reflexivity].
  - pose proof (wf_node_inv _ _ _ _ _ _ _ _ _ _ Hwf) as [Hp [_ [Hl Hr]]].
    cbn [Trie.lpm_walk]. cbn in Hrc.
    set (best' := match v0 with Some x => Some (p0, x) | None => best end).
    (* what the node itself contributes *)
    assert (Hself : forall e, In e (match v0 with Some x0 => [(p0, x0)] | None => [] end) ->
                              prefix_of (key e) (bits q) /\ length (key e) = length (bits p0)).
    { intros e H. destruct v0; cbn in H; [|contradiction]. destruct H as [<-|[]]. split; [exact Hrc|reflexivity]. }
    (* entries strictly below the node are longer *)
    assert (Hlonger : forall e, In e (entries l ++ entries r) -> length (bits p0) < length (key e)).
    { intros e H. rewrite in_app_iff in H. destruct H as [H|H].
      - pose proof (entries_under _ _ _ _ _ _ _ Hl H) as Hu. apply prefix_of_len in Hu. rewrite app_length in Hu. cbn in Hu. lia.
      - pose proof (entries_under _ _ _ _ _ _ _ Hr H) as Hu. apply prefix_of_len in Hu. rewrite app_length in Hu. cbn in Hu. lia. }
    (* the answer when nothing below covers q *)
    assert (Hstop : no_cover (entries l ++ entries r) q -> lpm_result (Node i0 p0 v0 l r) q best best').
    { intros Hnc. unfold lpm_result. cbn [entries]. subst best'. destruct v0 as [x0|].
      - left. exists (p0, x0). split; [reflexivity|]. split; [left; reflexivity|]. split; [exact Hrc|].
        intros e' [<-|He'] Hc'; [lia|]. exfalso. eapply Hnc; eauto.
      - right. split; [|reflexivity]. intros e He. cbn in He. apply Hnc. exact He. }
    destruct (peq p0 q) eqn:E.
    + apply Hstop. intros e He Hc.
      assert (Hk : bits p0 = bits q) by (eapply peq_true; eauto).
      specialize (Hlonger _ He). apply prefix_of_len in Hc. rewrite <- Hk in Hc. lia.
    + destruct (enter_child _ _ _ _ _ _ _ Hwf Hq Hrc E) as [Hc [Hside Hother]].
      (* generic continuation for the selected child [c] with the other side [o] *)
      assert (Hgo : forall c o, wf_under (bits p0 ++ [to_right p0 q]) c ->
                 (forall e, In e (entries o) -> ~ prefix_of (key e) (bits q)) ->
                 (forall e, In e (entries l ++ entries r) <-> In e (entries c) \/ In e (entries o)) ->
                 (forall best0, lpm_result c q best0 (match c with
                     | Node _ cp _ _ _ => if contains cp q then lpm_walk c q best0 else best0
                     | Leaf => best0 end)) ->
                 lpm_result (Node i0 p0 v0 l r) q best
                   (match c with
                    | Node _ cp _ _ _ => if contains cp q then lpm_walk c q best' else best'
                    | Leaf => best' end)).
      { intros c o Hwc Ho Hsplit Hrec. destruct (Hrec best') as [[e [-> Hl1]]|[Hnc Hres]].
        - left. exists e. split; [reflexivity|]. destruct Hl1 as [Hin [Hcov Hmax]].
          split; [cbn [entries]; rewrite in_app_iff; right; apply Hsplit; left; exact Hin|].
          split; [exact Hcov|]. intros e' He' Hc'. cbn [entries] in He'. rewrite in_app_iff in He'.
          destruct He' as [He'|He'].
          + destruct (Hself _ He') as [_ Hlen]. rewrite Hlen.
            assert (In e (entries l ++ entries r)) by (apply Hsplit; left; exact Hin).
            specialize (Hlonger _ H). lia.
          + apply Hsplit in He'. destruct He' as [He'|He']; [apply Hmax; assumption|].
            exfalso. eapply Ho; eauto.
        - rewrite Hres. apply Hstop. intros e He Hc'. apply Hsplit in He. destruct He as [He|He].
          + eapply Hnc; eauto.
          + eapply Ho; eauto. }
      destruct (to_right p0 q) eqn:S.
      * apply (Hgo r l); [exact Hc | intros e He; apply (Hother e He) | intros e; rewrite in_app_iff; tauto|].
        intros best0. destruct r as [|ci cp cv cl cr]; [right; split; [intros e []|reflexivity]|].
        pose proof (wf_node_inv _ _ _ _ _ _ _ _ _ _ Hr) as [Hcp _].
        destruct (contains cp q) eqn:C.
        -- eapply IHr; eauto. eapply root_covers_child; eauto.
        -- right. split; [|reflexivity]. intros e He.
           eapply (subtree_no_cover pfx V peq contains is_bit_set plen lcp pzero mcmp bits ok LAWS); eauto.
      * apply (Hgo l r); [exact Hc | intros e He; apply (Hother e He) | intros e; rewrite in_app_iff; tauto|].
        intros best0. destruct l as [|ci cp cv cl cr]; [right; split; [intros e []|reflexivity]|].
        pose proof (wf_node_inv _ _ _ _ _ _ _ _ _ _ Hl) as [Hcp _].
        destruct (contains cp q) eqn:C.
        -- eapply IHl; eauto. eapply root_covers_child; eauto.
        -- right. split; [|reflexivity]. intros e He.
           eapply (subtree_no_cover pfx V peq contains is_bit_set plen lcp pzero mcmp bits ok LAWS); eauto.
Qed.

(** [get_lpm]: the stored entry with the greatest prefix length among those covering the query;
    [None] exactly when none covers it *)
Theorem get_lpm_spec b t q :
  wf_under b t -> ok q -> root_covers t q ->
  match Trie.get_lpm pfx V peq contains is_bit_set plen t q with
  | Some e => is_lpm (entries t) q e
  | None => no_cover (entries t) q
  end.
Proof.
  intros Hwf Hq Hrc. unfold Trie.get_lpm.
  destruct (lpm_walk_spec t b q None Hwf Hq Hrc) as [[e [-> H]]|[Hnc ->]]; assumption.
Qed.

(** the most specific covering entry is unique *)
Lemma is_lpm_unique b t q e1 e2 :
  wf_under b t -> is_lpm (entries t) q e1 -> is_lpm (entries t) q e2 -> e1 = e2.
Proof.
  intros Hwf [H1 [C1 M1]] [H2 [C2 M2]].
  eapply (entries_key_inj pfx V bits ok); eauto.
  pose proof (M1 _ H2 C2). pose proof (M2 _ H1 C1).
  destruct (prefix_of_comparable _ _ _ C1 C2) as [Hc|Hc]; [|symmetry]; apply prefix_of_same_len; auto.
Qed.

(** the two other copies of the loop compute projections of the same answer *)
Lemma lpmp_walk_eq t : forall q best bestp,
  bestp = option_map fst best -> lpmp_walk t q bestp = option_map fst (lpm_walk t q best).
Proof.
  induction t as [|i0 p0 v0 l IHl r IHr]; intros q best bestp ->; cbn [Trie.lpmp_walk Trie.lpm_walk]; [reflexivity|].
  set (b1 := match v0 with Some x => Some (p0, x) | None => best end).
  assert (E : match v0 with Some _ => Some p0 | None => option_map fst best end = option_map fst b1)
    by (subst b1; destruct v0; reflexivity).
  rewrite E. destruct (peq p0 q); [reflexivity|].
  destruct (to_right p0 q).
  - destruct r as [|ci cp cv cl cr]; [reflexivity|]. destruct (contains cp q); [apply IHr; reflexivity|reflexivity].
  - destruct l as [|ci cp cv cl cr]; [reflexivity|]. destruct (contains cp q); [apply IHl; reflexivity|reflexivity].
Qed.

Theorem get_lpm_prefix_eq t q :
  Trie.get_lpm_prefix pfx V peq contains is_bit_set plen t q =
  option_map fst (Trie.get_lpm pfx V peq contains is_bit_set plen t q).
Proof. unfold Trie.get_lpm_prefix, Trie.get_lpm. apply lpmp_walk_eq. reflexivity. Qed.

Definition drop_slot (x : N * pfx * V) : pfx * V := let '(_, p, v) := x in (p, v).

Lemma lpmm_walk_eq t : forall q best bestm,
  best = option_map drop_slot bestm -> option_map drop_slot (lpmm_walk t q bestm) = lpm_walk t q best.
Proof.
  induction t as [|i0 p0 v0 l IHl r IHr]; intros q best bestm ->; cbn [Trie.lpmm_walk Trie.lpm_walk]; [reflexivity|].
  set (b1 := match v0 with Some x => Some (i0, p0, x) | None => bestm end).
  assert (E : match v0 with Some x => Some (p0, x) | None => option_map drop_slot bestm end = option_map drop_slot b1)
    by (subst b1; destruct v0; reflexivity).
  rewrite E. destruct (peq p0 q); [reflexivity|].
  destruct (to_right p0 q).
  - destruct r as [|ci cp cv cl cr]; [reflexivity|]. destruct (contains cp q); [apply IHr; reflexivity|reflexivity].
  - destruct l as [|ci cp cv cl cr]; [reflexivity|]. destruct (contains cp q); [apply IHl; reflexivity|reflexivity].
Qed.

(** [get_lpm_mut] designates the same entry as [get_lpm] *)
Theorem get_lpm_mut_eq t q :
  option_map drop_slot (Trie.get_lpm_mut pfx V peq contains is_bit_set plen t q) =
  Trie.get_lpm pfx V peq contains is_bit_set plen t q.
Proof. unfold Trie.get_lpm_mut, Trie.get_lpm. apply lpmm_walk_eq. reflexivity. Qed.

(** ... and the slot it hands out is the slot of that entry *)
Lemma in_entries_id_l i p v l r (e : N * pfx * V) : In e (entries_id l) -> In e (entries_id (Node i p v l r)).
Proof. intros H. cbn [entries_id]. rewrite !in_app_iff. auto. Qed.
Lemma in_entries_id_r i p v l r (e : N * pfx * V) : In e (entries_id r) -> In e (entries_id (Node i p v l r)).
Proof. intros H. cbn [entries_id]. rewrite !in_app_iff. auto. Qed.

Lemma lpmm_walk_slot t : forall q bestm i p x,
  lpmm_walk t q bestm = Some (i, p, x) -> In (i, p, x) (entries_id t) \/ bestm = Some (i, p, x).
Proof.
  induction t as [|i0 p0 v0 l IHl r IHr]; intros q bestm i p x H; cbn [Trie.lpmm_walk] in H; [right; exact H|].
  set (b1 := match v0 with Some x => Some (i0, p0, x) | None => bestm end) in *.
  assert (Hb1 : b1 = Some (i, p, x) -> In (i, p, x) (entries_id (Node i0 p0 v0 l r)) \/ bestm = Some (i, p, x)).
  { subst b1. destruct v0; intros E; [left; inversion E; subst; cbn; left; reflexivity | right; exact E]. }
  destruct (peq p0 q); [apply Hb1; exact H|].
  destruct (to_right p0 q).
  - destruct r as [|ci cp cv cl cr]; [apply Hb1; exact H|]. destruct (contains cp q); [|apply Hb1; exact H].
    destruct (IHr q b1 i p x H) as [Hin|E]; [|apply Hb1; exact E].
    left. apply in_entries_id_r. exact Hin.
  - destruct l as [|ci cp cv cl cr]; [apply Hb1; exact H|]. destruct (contains cp q); [|apply Hb1; exact H].
    destruct (IHl q b1 i p x H) as [Hin|E]; [|apply Hb1; exact E].
    left. apply in_entries_id_l. exact Hin.
Qed.

Theorem get_lpm_mut_slot t q i p x :
  Trie.get_lpm_mut pfx V peq contains is_bit_set plen t q = Some (i, p, x) -> In (i, p, x) (entries_id t).
Proof.
  unfold Trie.get_lpm_mut. intros H.
  destruct (lpmm_walk_slot t q None i p x H) as [Hin|E]; [exact Hin|discriminate].
Qed.

End LK.
