(** Cover / shortest-prefix match, children, and the iterators. *)
From Coq Require Import List NArith ZArith Bool Arith Lia Sorted.
From PT Require Import Bits BitsThm Laws Machine MachineThm Trie TrieWf Lookup.
Import ListNotations.

(* ------------------------------------------------------------------------------------------ *)
(** * Iterators: the stack machine yields the pre-order entry list (no well-formedness needed) *)
Section IT.
Variables (pfx V : Type).
Notation tree := (tree pfx V).

Lemma nodes_of_is_node (ts : list tree) : Forall (fun t => is_node t = true) (nodes_of ts).
Proof. unfold nodes_of. apply Forall_forall. intros t H. apply filter_In in H. tauto. Qed.

Lemma flat_map_nodes_of {A} (f : tree -> list A) (ts : list tree) :
  f Leaf = [] -> flat_map f (nodes_of ts) = flat_map f ts.
Proof.
  intros Hf. induction ts as [|t ts IH]; [reflexivity|]. unfold nodes_of in *. cbn [filter].
  destruct t as [|i p v l r]; cbn [is_node flat_map].
  - rewrite Hf. exact IH.
  - rewrite IH. reflexivity.
Qed.

Lemma msize_nodes_of (ts : list tree) : msize tree tsize (nodes_of ts) = msize tree tsize ts.
Proof.
  induction ts as [|t ts IH]; [reflexivity|]. unfold nodes_of in *. cbn [filter].
  destruct t as [|i p v l r]; cbn [is_node].
  - rewrite msize_cons. cbn [tsize]. exact IH.
  - rewrite !msize_cons, IH. reflexivity.
Qed.

Theorem iter_run_spec (st : list tree) :
  Forall (fun t => is_node t = true) st ->
  iter_run pfx V st = Some (flat_map entries_id st).
Proof.
  intros Hst. unfold iter_run.
  apply (run_spec tree (N * pfx * V) (iter_expand pfx V) tsize (fun t => is_node t = true) entries_id).
  - intros e o cs He Hex. destruct e as [|i p v l r]; [discriminate|].
    unfold iter_expand in Hex. apply pair_equal_spec in Hex. destruct Hex as [<- <-]. rewrite msize_nodes_of. unfold msize. cbn. lia.
  - intros e o cs He Hex. destruct e as [|i p v l r]; [discriminate|].
    unfold iter_expand in Hex. apply pair_equal_spec in Hex. destruct Hex as [<- <-]. split; [apply nodes_of_is_node|].
    assert (Hrev : rev (nodes_of [r; l]) = nodes_of [l; r]).
    { unfold nodes_of. destruct l, r; reflexivity. }
    rewrite Hrev, flat_map_nodes_of by reflexivity. cbn [flat_map entries_id]. rewrite app_nil_r.
    destruct v; reflexivity.
  - exact Hst.
  - unfold msize. lia.
Qed.

(** [IterMut] and [IntoIter] are separate copies of the same loop *)
Lemma iter_mut_expand_eq t : iter_mut_expand pfx V t = iter_expand pfx V t.
Proof. reflexivity. Qed.
Lemma into_iter_expand_eq t : into_iter_expand pfx V t = iter_expand pfx V t.
Proof. reflexivity. Qed.

Theorem iter_items_spec (t : tree) : iter_items pfx V t = entries_id t.
Proof.
  unfold iter_items. rewrite iter_run_spec by apply nodes_of_is_node.
  rewrite flat_map_nodes_of by reflexivity. cbn. apply app_nil_r.
Qed.

Lemma run_ext {E I} (f g : E -> option I * list E) : (forall e, f e = g e) ->
  forall n st, run E I f n st = run E I g n st.
Proof.
  intros H. induction n as [|n IH]; intros st; destruct st as [|e rest]; cbn; try reflexivity.
  rewrite H. destruct (g e) as [o cs]. rewrite IH. reflexivity.
Qed.

Theorem iter_mut_items_spec (t : tree) : iter_mut_items pfx V t = entries_id t.
Proof.
  rewrite <- iter_items_spec. unfold iter_mut_items, iter_items, iter_run.
  rewrite (run_ext _ _ iter_mut_expand_eq).
  replace (S (list_sum (map tsize (nodes_of [t])))) with (S (tsize t)); [reflexivity|].
  destruct t; cbn; lia.
Qed.

Theorem into_iter_items_spec (t : tree) : into_iter_items pfx V t = entries_id t.
Proof.
  rewrite <- iter_items_spec. unfold into_iter_items, iter_items, iter_run.
  rewrite (run_ext _ _ into_iter_expand_eq).
  replace (S (list_sum (map tsize (nodes_of [t])))) with (S (tsize t)); [reflexivity|].
  destruct t; cbn; lia.
Qed.

Definition drop_id (x : N * pfx * V) : pfx * V := let '(_, p, v) := x in (p, v).
Lemma entries_id_entries (t : tree) : map drop_id (entries_id t) = entries t.
Proof.
  induction t as [|i p v l IHl r IHr]; [reflexivity|]. cbn [entries_id entries].
  rewrite !map_app, IHl, IHr. destruct v; reflexivity.
Qed.

(** fused: an exhausted iterator keeps returning [None] *)
Lemma iter_fused fuel : next tree (N * pfx * V) (iter_expand pfx V) fuel [] = Some (None, []).
Proof. destruct fuel; reflexivity. Qed.

(** [next] and [run] agree: draining by repeated [next] yields what [run] yields *)
Lemma run_next {E I} (f : E -> option I * list E) : forall n st out,
  run E I f n st = Some out ->
  match next E I f n st with
  | Some (Some x, st') => exists out', out = x :: out' /\ run E I f n st' = Some out'
  | Some (None, st') => out = [] /\ st' = []
  | None => False
  end.
Proof.
  induction n as [|n IH]; intros st out H.
  - destruct st; [|discriminate]. inversion H. cbn. auto.
  - destruct st as [|e rest]; [inversion H; cbn; auto|].
    cbn [run next] in *. destruct (f e) as [o cs].
    destruct (run E I f n (rev cs ++ rest)) as [out1|] eqn:Hr; [|discriminate].
    destruct o as [x|].
    + inversion H; subst. exists out1. split; [reflexivity|].
      apply (run_fuel_mono E I f n (S n)); [exact Hr | lia].
    + inversion H; subst. specialize (IH _ _ Hr).
      destruct (next E I f n (rev cs ++ rest)) as [[[x|] st']|]; try contradiction.
      * destruct IH as [out' [-> Hr']]. exists out'. split; [reflexivity|].
        apply (run_fuel_mono E I f n (S n)); [exact Hr' | lia].
      * exact IH.
Qed.

End IT.

(* ------------------------------------------------------------------------------------------ *)
Section LK2.
Variables (pfx V : Type).
Variables (peq contains : pfx -> pfx -> bool) (is_bit_set : pfx -> N -> bool)
          (plen : pfx -> N) (lcp : pfx -> pfx -> pfx) (pzero : pfx)
          (mcmp : pfx -> pfx -> comparison).
Variable bits : pfx -> list bool.
Variable ok : pfx -> Prop.
Hypothesis LAWS : prefix_laws pfx peq contains is_bit_set plen lcp pzero mcmp bits ok.

Notation tree := (tree pfx V).
Notation to_right := (to_right pfx is_bit_set plen).
Notation wf_under := (wf_under pfx V bits ok).
Notation key := (key pfx V bits).
Notation root_covers := (root_covers pfx V bits).
Notation cover_walk := (cover_walk pfx V peq contains is_bit_set plen).
Notation cover_loop := (cover_loop pfx V peq contains is_bit_set plen).
Notation cover_next := (cover_next pfx V peq contains is_bit_set plen).
Notation cover_drain := (cover_drain pfx V peq contains is_bit_set plen).
Notation spm_walk := (spm_walk pfx V peq contains is_bit_set plen).
Notation get_spm := (get_spm pfx V peq contains is_bit_set plen).
Notation lpm_walk := (lpm_walk pfx V peq contains is_bit_set plen).
Notation children_start := (children_start pfx V peq contains is_bit_set plen).

Local Notation enter_child := (enter_child pfx V peq contains is_bit_set plen lcp pzero mcmp bits ok LAWS).

Definition own (p : pfx) (v : option V) : list (pfx * V) :=
  match v with Some x => [(p, x)] | None => [] end.

(** the part of the cover strictly below the root *)
Definition cover_rest (t : tree) (q : pfx) : list (pfx * V) :=
  match t with
  | Leaf => []
  | Node _ p _ l r =>
    if peq p q then [] else
    match (if to_right p q then r else l) with
    | Node ci cp cv cl cr => if contains cp q then cover_walk (Node ci cp cv cl cr) q else []
    | Leaf => []
    end
  end.

Lemma cover_walk_unfold t q :
  cover_walk t q = match t with Leaf => [] | Node _ p v _ _ => own p v ++ cover_rest t q end.
Proof.
  destruct t as [|i p v l r]; [reflexivity|]. cbn [Trie.cover_walk cover_rest]. unfold own.
  destruct (peq p q); [rewrite app_nil_r; reflexivity|].
  destruct (to_right p q).
  - destruct r as [|ci cp cv cl cr]; [rewrite app_nil_r; reflexivity|].
    destruct (contains cp q); [reflexivity | rewrite app_nil_r; reflexivity].
  - destruct l as [|ci cp cv cl cr]; [rewrite app_nil_r; reflexivity|].
    destruct (contains cp q); [reflexivity | rewrite app_nil_r; reflexivity].
Qed.

(** membership: exactly the stored entries covering the query *)
Theorem cover_walk_spec t : forall b q,
  wf_under b t -> ok q -> root_covers t q ->
  forall e, In e (cover_walk t q) <-> In e (entries t) /\ prefix_of (key e) (bits q).
Proof.
  induction t as [|i0 p0 v0 l IHl r IHr]; intros b q Hwf Hq Hrc e.
  - cbn. tauto.
  - pose proof (wf_node_inv _ _ _ _ _ _ _ _ _ _ Hwf) as [Hp [_ [Hl Hr]]].
    cbn in Hrc. cbn [Trie.cover_walk].
    assert (Hown : forall e, In e (own p0 v0) <-> (v0 = Some (snd e) /\ fst e = p0)).
    { intros [p x]. unfold own. destruct v0; cbn; split.
      - intros [H|[]]. inversion H; subst. auto.
      - intros [H ->]. inversion H; subst. auto.
      - intros [].
      - intros [H _]. discriminate. }
    assert (Hcov_own : forall e, In e (own p0 v0) -> prefix_of (key e) (bits q)).
    { intros e' H. apply Hown in H. destruct H as [_ H]. unfold TrieWf.key. rewrite H. exact Hrc. }
    assert (Hlonger : forall e, In e (entries l) \/ In e (entries r) -> length (bits p0) < length (key e)).
    { intros e' [H|H].
      - pose proof (entries_under _ _ _ _ _ _ _ Hl H) as Hu. apply prefix_of_len in Hu. rewrite app_length in Hu. cbn in Hu. lia.
      - pose proof (entries_under _ _ _ _ _ _ _ Hr H) as Hu. apply prefix_of_len in Hu. rewrite app_length in Hu. cbn in Hu. lia. }
    change (match v0 with Some x => [(p0, x)] | None => [] end) with (own p0 v0).
    (* when nothing below covers q *)
    assert (Hstop : (forall e, In e (entries l) \/ In e (entries r) -> ~ prefix_of (key e) (bits q)) ->
                    (In e (own p0 v0) <-> In e (entries (Node i0 p0 v0 l r)) /\ prefix_of (key e) (bits q))).
    { intros Hnc. split.
      - intros H. split; [|apply Hcov_own; exact H]. apply Hown in H. destruct H as [H1 H2].
        destruct e as [p x]. cbn [fst snd] in H1, H2. subst. apply in_entries_own.
      - intros [Hin Hc]. apply in_entries_inv in Hin. destruct Hin as [H|H]; [apply Hown; exact H|].
        exfalso. eapply Hnc; eauto. }
    destruct (peq p0 q) eqn:E.
    + apply Hstop. intros e' He' Hc.
      assert (Hk : bits p0 = bits q) by (eapply peq_true; eauto).
      specialize (Hlonger _ He'). apply prefix_of_len in Hc. rewrite <- Hk in Hc. lia.
    + destruct (enter_child _ _ _ _ _ _ _ Hwf Hq Hrc E) as [Hc [Hside Hother]].
      assert (Hgo : forall c o,
                 (forall e, In e (entries o) -> ~ prefix_of (key e) (bits q)) ->
                 (forall e, In e (entries l) \/ In e (entries r) <-> In e (entries c) \/ In e (entries o)) ->
                 (forall e, In e (match c with
                                  | Node _ cp _ _ _ => if contains cp q then cover_walk c q else []
                                  | Leaf => [] end) <-> In e (entries c) /\ prefix_of (key e) (bits q)) ->
                 (In e (match c with
                        | Node _ cp _ _ _ => if contains cp q then own p0 v0 ++ cover_walk c q else own p0 v0
                        | Leaf => own p0 v0 end)
                  <-> In e (entries (Node i0 p0 v0 l r)) /\ prefix_of (key e) (bits q))).
      { intros c o Ho Hsplit Hrec.
        assert (Hm : In e (match c with
                        | Node _ cp _ _ _ => if contains cp q then own p0 v0 ++ cover_walk c q else own p0 v0
                        | Leaf => own p0 v0 end) <->
                     In e (own p0 v0) \/ In e (match c with
                                  | Node _ cp _ _ _ => if contains cp q then cover_walk c q else []
                                  | Leaf => [] end)).
        { destruct c as [|ci cp cv cl cr]; [cbn; tauto|]. destruct (contains cp q); [apply in_app_iff | cbn; tauto]. }
        rewrite Hm, Hrec. split.
        - intros [H|[H1 H2]].
          + split; [|apply Hcov_own; exact H]. apply Hown in H. destruct H as [H1 H2].
            destruct e as [p x]. cbn [fst snd] in H1, H2. subst. apply in_entries_own.
          + split; [|exact H2].
            assert (In e (entries l) \/ In e (entries r)) as [H|H] by (apply Hsplit; left; exact H1);
              [apply in_entries_l | apply in_entries_r]; exact H.
        - intros [Hin Hcv]. apply in_entries_inv in Hin. destruct Hin as [H|H]; [left; apply Hown; exact H|].
          apply Hsplit in H. destruct H as [H|H]; [right; split; assumption|].
          exfalso. eapply Ho; eauto. }
      destruct (to_right p0 q) eqn:S.
      * apply (Hgo r l); [intros e' He'; apply (Hother e' He') | intros e'; tauto|].
        destruct r as [|ci cp cv cl cr]; [cbn; tauto|].
        pose proof (wf_node_inv _ _ _ _ _ _ _ _ _ _ Hr) as [Hcp _].
        destruct (contains cp q) eqn:C.
        -- eapply IHr; eauto. eapply root_covers_child; eauto.
        -- intros e0. split; [intros []|]. intros [Hin Hcv]. exfalso.
           eapply (subtree_no_cover pfx V peq contains is_bit_set plen lcp pzero mcmp bits ok LAWS _ (Node ci cp cv cl cr) q e0); eauto.
      * apply (Hgo l r); [intros e' He'; apply (Hother e' He') | intros e'; tauto|].
        destruct l as [|ci cp cv cl cr]; [cbn; tauto|].
        pose proof (wf_node_inv _ _ _ _ _ _ _ _ _ _ Hl) as [Hcp _].
        destruct (contains cp q) eqn:C.
        -- eapply IHl; eauto. eapply root_covers_child; eauto.
        -- intros e0. split; [intros []|]. intros [Hin Hcv]. exfalso.
           eapply (subtree_no_cover pfx V peq contains is_bit_set plen lcp pzero mcmp bits ok LAWS _ (Node ci cp cv cl cr) q e0); eauto.
Qed.

(** order: strictly increasing prefix length *)
Definition len_lt (e1 e2 : pfx * V) : Prop := length (key e1) < length (key e2).

Lemma cover_walk_under t : forall b q e, wf_under b t -> In e (cover_walk t q) -> In e (entries t).
Proof.
  induction t as [|i0 p0 v0 l IHl r IHr]; intros b q e Hwf H; [contradiction|].
  pose proof (wf_node_inv _ _ _ _ _ _ _ _ _ _ Hwf) as [Hp [_ [Hl Hr]]].
  cbn [Trie.cover_walk] in H.
  assert (Hown : In e (match v0 with Some x => [(p0, x)] | None => [] end) -> In e (entries (Node i0 p0 v0 l r))).
  { intros H'. destruct v0; cbn in H'; [|contradiction]. destruct H' as [<-|[]]. apply in_entries_own. }
  destruct (peq p0 q); [apply Hown; exact H|].
  destruct (to_right p0 q).
  - destruct r as [|ci cp cv cl cr]; [apply Hown; exact H|]. destruct (contains cp q); [|apply Hown; exact H].
    apply in_app_iff in H. destruct H as [H|H]; [apply Hown; exact H|]. apply in_entries_r. eapply IHr; eauto.
  - destruct l as [|ci cp cv cl cr]; [apply Hown; exact H|]. destruct (contains cp q); [|apply Hown; exact H].
    apply in_app_iff in H. destruct H as [H|H]; [apply Hown; exact H|]. apply in_entries_l. eapply IHl; eauto.
Qed.

Theorem cover_walk_sorted t : forall b q, wf_under b t -> StronglySorted len_lt (cover_walk t q).
Proof.
  induction t as [|i0 p0 v0 l IHl r IHr]; intros b q Hwf; [constructor|].
  pose proof (wf_node_inv _ _ _ _ _ _ _ _ _ _ Hwf) as [Hp [_ [Hl Hr]]].
  cbn [Trie.cover_walk].
  assert (Hown : StronglySorted len_lt (match v0 with Some x => [(p0, x)] | None => [] end)).
  { destruct v0; repeat constructor. }
  assert (Hcons : forall c s, wf_under (bits p0 ++ [s]) c ->
             StronglySorted len_lt (cover_walk c q) ->
             StronglySorted len_lt ((match v0 with Some x => [(p0, x)] | None => [] end) ++ cover_walk c q)).
  { intros c s Hc Hs. destruct v0 as [x|]; [|exact Hs]. cbn [app]. constructor; [exact Hs|].
    apply Forall_forall. intros e He. unfold len_lt, TrieWf.key. cbn [fst].
    pose proof (cover_walk_under _ _ _ _ Hc He) as Hin.
    pose proof (entries_under _ _ _ _ _ _ _ Hc Hin) as Hu. apply prefix_of_len in Hu.
    rewrite app_length in Hu. cbn in Hu. unfold TrieWf.key in Hu. lia. }
  destruct (peq p0 q); [exact Hown|].
  destruct (to_right p0 q).
  - destruct r as [|ci cp cv cl cr]; [exact Hown|]. destruct (contains cp q); [|exact Hown].
    eapply Hcons; [exact Hr | eapply IHr; exact Hr].
  - destruct l as [|ci cp cv cl cr]; [exact Hown|]. destruct (contains cp q); [|exact Hown].
    eapply Hcons; [exact Hl | eapply IHl; exact Hl].
Qed.

(** the lazy iterator: one call of the loop of [Cover::next] from a node whose own value has
    already been reported yields the head of the rest and moves to a node whose rest is the tail *)
Lemma cover_loop_spec t : forall q,
  match cover_loop t q with
  | (Some x, t') => exists xs, cover_rest t q = x :: xs /\ cover_rest t' q = xs
  | (None, t') => cover_rest t q = [] /\ cover_rest t' q = []
  end.
Proof.
  induction t as [|i0 p0 v0 l IHl r IHr]; intros q; [cbn; auto|].
  cbn [Trie.cover_loop cover_rest].
  destruct (peq p0 q) eqn:E; [cbn [cover_rest]; rewrite E; auto|].
  destruct (to_right p0 q) eqn:S.
  - destruct r as [|ci cp cv cl cr]; [cbn [cover_rest]; rewrite E, S; auto|].
    destruct (contains cp q) eqn:C; [|cbn [cover_rest]; rewrite E, S, C; auto].
    rewrite cover_walk_unfold. destruct cv as [x|]; cbn [own app].
    + exists (cover_rest (Node ci cp (Some x) cl cr) q). split; reflexivity.
    + specialize (IHr q). destruct (cover_loop (Node ci cp None cl cr) q) as [[x|] t']; exact IHr.
  - destruct l as [|ci cp cv cl cr]; [cbn [cover_rest]; rewrite E, S; auto|].
    destruct (contains cp q) eqn:C; [|cbn [cover_rest]; rewrite E, S, C; auto].
    rewrite cover_walk_unfold. destruct cv as [x|]; cbn [own app].
    + exists (cover_rest (Node ci cp (Some x) cl cr) q). split; reflexivity.
    + specialize (IHl q). destruct (cover_loop (Node ci cp None cl cr) q) as [[x|] t']; exact IHl.
Qed.

(** what remains to be yielded in a given iterator state *)
Definition cover_pending (T : tree) (st : cstate pfx V) (q : pfx) : list (pfx * V) :=
  match st with CStart => cover_walk T q | CAt t => cover_rest t q end.

Theorem cover_next_spec T st q :
  T <> Leaf ->
  match cover_next T st q with
  | (Some x, st') => exists xs, cover_pending T st q = x :: xs /\ cover_pending T st' q = xs
  | (None, st') => cover_pending T st q = [] /\ cover_pending T st' q = []
  end.
Proof.
  intros HT. destruct st as [|t]; cbn [Trie.cover_next cover_pending].
  - destruct T as [|i p v l r]; [contradiction|]. rewrite cover_walk_unfold.
    destruct v as [x|]; cbn [pv own app].
    + exists (cover_rest (Node i p (Some x) l r) q). split; reflexivity.
    + pose proof (cover_loop_spec (Node i p None l r) q) as H.
      destruct (cover_loop (Node i p None l r) q) as [[x|] t']; exact H.
  - pose proof (cover_loop_spec t q) as H. destruct (cover_loop t q) as [[x|] t']; exact H.
Qed.

(** draining the iterator yields the whole cover (with enough calls), and it is fused *)
Theorem cover_drain_spec T q : T <> Leaf ->
  forall fuel st, length (cover_pending T st q) < fuel -> cover_drain fuel T st q = cover_pending T st q.
Proof.
  intros HT. induction fuel as [|fuel IH]; intros st Hlen; [lia|].
  cbn [Trie.cover_drain]. pose proof (cover_next_spec T st q HT) as H.
  destruct (cover_next T st q) as [[x|] st'].
  - destruct H as [xs [E1 E2]]. rewrite E1. f_equal. rewrite <- E2. apply IH. rewrite E2. rewrite E1 in Hlen. cbn in Hlen. lia.
  - destruct H as [E1 _]. symmetry. exact E1.
Qed.

Theorem cover_fused T st q : T <> Leaf ->
  cover_pending T st q = [] ->
  fst (cover_next T st q) = None /\ cover_pending T (snd (cover_next T st q)) q = [].
Proof.
  intros HT Hp. pose proof (cover_next_spec T st q HT) as H.
  destruct (cover_next T st q) as [[x|] st']; cbn.
  - destruct H as [xs [E _]]. rewrite Hp in E. discriminate.
  - destruct H as [_ E]. auto.
Qed.

(** [get_spm] is the head of the cover, [get_lpm] its last element *)
Lemma spm_walk_eq t : forall q,
  match t with Leaf => True | Node _ _ v _ _ => v = None end ->
  spm_walk t q = hd_error (cover_walk t q).
Proof.
  induction t as [|i0 p0 v0 l IHl r IHr]; intros q Hv; [reflexivity|]. subst v0.
  cbn [Trie.spm_walk Trie.cover_walk app].
  destruct (peq p0 q); [reflexivity|].
  destruct (to_right p0 q).
  - destruct r as [|ci cp cv cl cr]; [reflexivity|]. destruct (contains cp q); [|reflexivity].
    destruct cv as [x|].
    + rewrite cover_walk_unfold. reflexivity.
    + apply IHr. reflexivity.
  - destruct l as [|ci cp cv cl cr]; [reflexivity|]. destruct (contains cp q); [|reflexivity].
    destruct cv as [x|].
    + rewrite cover_walk_unfold. reflexivity.
    + apply IHl. reflexivity.
Qed.

Theorem get_spm_spec t q : get_spm t q = hd_error (cover_walk t q).
Proof.
  unfold Trie.get_spm. destruct t as [|i p v l r]; [reflexivity|].
  destruct v as [x|]; cbn [pv].
  - rewrite cover_walk_unfold. reflexivity.
  - apply spm_walk_eq. reflexivity.
Qed.

Lemma lpm_walk_cover t : forall q best,
  lpm_walk t q best = match rev (cover_walk t q) with x :: _ => Some x | [] => best end.
Proof.
  induction t as [|i0 p0 v0 l IHl r IHr]; intros q best; [reflexivity|].
  cbn [Trie.lpm_walk Trie.cover_walk].
  set (b1 := match v0 with Some x => Some (p0, x) | None => best end).
  set (o := match v0 with Some x => [(p0, x)] | None => [] end).
  assert (Ho : match rev o with x :: _ => Some x | [] => best end = b1).
  { subst o b1. destruct v0; reflexivity. }
  assert (Happ : forall c, match rev (o ++ c) with x :: _ => Some x | [] => best end =
                           match rev c with x :: _ => Some x | [] => b1 end).
  { intros c. rewrite rev_app_distr. destruct (rev c) as [|x xs]; [cbn; exact Ho | reflexivity]. }
  destruct (peq p0 q); [symmetry; exact Ho|].
  destruct (to_right p0 q).
  - destruct r as [|ci cp cv cl cr]; [symmetry; exact Ho|]. destruct (contains cp q); [|symmetry; exact Ho].
    rewrite Happ. apply IHr.
  - destruct l as [|ci cp cv cl cr]; [symmetry; exact Ho|]. destruct (contains cp q); [|symmetry; exact Ho].
    rewrite Happ. apply IHl.
Qed.

Theorem get_lpm_last t q :
  Trie.get_lpm pfx V peq contains is_bit_set plen t q = hd_error (rev (cover_walk t q)).
Proof.
  unfold Trie.get_lpm. rewrite lpm_walk_cover. destruct (rev (cover_walk t q)); reflexivity.
Qed.

(* ---------------------------------------------------------------------------------------- *)
(** * children: the initial stack holds exactly the entries covered by the query *)

Theorem children_start_spec t : forall b q,
  wf_under b t -> ok q -> root_covers t q ->
  (forall c, In c (children_start t q) -> is_node c = true /\ exists bc, wf_under bc c) /\
  length (children_start t q) <= 1 /\
  forall e, In e (flat_map entries (children_start t q)) <-> In e (entries t) /\ prefix_of (bits q) (key e).
Proof.
  induction t as [|i0 p0 v0 l IHl r IHr]; intros b q Hwf Hq Hrc.
  - cbn. split; [intros c []|]. split; [lia|]. intros e. tauto.
  - pose proof (wf_node_inv _ _ _ _ _ _ _ _ _ _ Hwf) as [Hp [_ [Hl Hr]]].
    cbn in Hrc. cbn [Trie.children_start].
    destruct (peq p0 q) eqn:E.
    + assert (Hk : bits p0 = bits q) by (eapply peq_true; eauto).
      split; [intros c [<-|[]]; split; [reflexivity | exists b; exact Hwf]|]. split; [cbn; lia|].
      intros e. cbn [flat_map]. rewrite app_nil_r. split; [|tauto].
      intros Hin. split; [exact Hin|]. rewrite <- Hk.
      apply (entries_under _ _ _ _ _ _ _ (wf_self _ _ _ _ _ _ _ _ _ _ Hwf) Hin).
    + destruct (enter_child _ _ _ _ _ _ _ Hwf Hq Hrc E) as [Hc [Hside Hother]].
      assert (Hnown : forall e, In e (entries (Node i0 p0 v0 l r)) -> prefix_of (bits q) (key e) ->
                 In e (entries l) \/ In e (entries r)).
      { intros e Hin Hcv. apply in_entries_inv in Hin. destruct Hin as [[_ H]|H]; [|exact H].
        exfalso. unfold TrieWf.key in Hcv. rewrite H in Hcv.
        eapply (peq_false pfx peq contains is_bit_set plen lcp pzero mcmp bits ok LAWS p0 q); eauto.
        apply prefix_of_antisym; assumption. }
      assert (Hgo : forall c o s, wf_under (bits p0 ++ [s]) c ->
                 (forall e, In e (entries o) -> ~ prefix_of (bits q) (key e)) ->
                 (forall e, In e (entries l) \/ In e (entries r) <-> In e (entries c) \/ In e (entries o)) ->
                 (forall st, st = match c with
                      | Node _ cp _ _ _ => if contains cp q then children_start c q
                                           else if contains q cp then [c] else []
                      | Leaf => [] end ->
                    (forall c', In c' st -> is_node c' = true /\ exists bc, wf_under bc c') /\
                    length st <= 1 /\
                    forall e, In e (flat_map entries st) <-> In e (entries c) /\ prefix_of (bits q) (key e)) ->
                 forall st, st = match c with
                      | Node _ cp _ _ _ => if contains cp q then children_start c q
                                           else if contains q cp then [c] else []
                      | Leaf => [] end ->
                 (forall c', In c' st -> is_node c' = true /\ exists bc, wf_under bc c') /\
                 length st <= 1 /\
                 forall e, In e (flat_map entries st) <-> In e (entries (Node i0 p0 v0 l r)) /\ prefix_of (bits q) (key e)).
      { intros c o s Hwc Ho Hsplit Hrec st Hst. destruct (Hrec st Hst) as [A [B C]].
        split; [exact A|]. split; [exact B|]. intros e. rewrite C. split.
        - intros [Hin Hcv]. split; [|exact Hcv].
          assert (In e (entries l) \/ In e (entries r)) as [H|H] by (apply Hsplit; left; exact Hin);
            [apply in_entries_l | apply in_entries_r]; exact H.
        - intros [Hin Hcv]. split; [|exact Hcv]. pose proof (Hnown _ Hin Hcv) as H.
          apply Hsplit in H. destruct H as [H|H]; [exact H|]. exfalso. eapply Ho; eauto. }
      assert (Hchild : forall c s, wf_under (bits p0 ++ [s]) c ->
                 (forall b' q', wf_under b' c -> ok q' -> root_covers c q' ->
                    (forall c', In c' (children_start c q') -> is_node c' = true /\ exists bc, wf_under bc c') /\
                    length (children_start c q') <= 1 /\
                    forall e, In e (flat_map entries (children_start c q')) <-> In e (entries c) /\ prefix_of (bits q') (key e)) ->
                 forall st, st = match c with
                      | Node _ cp _ _ _ => if contains cp q then children_start c q
                                           else if contains q cp then [c] else []
                      | Leaf => [] end ->
                    (forall c', In c' st -> is_node c' = true /\ exists bc, wf_under bc c') /\
                    length st <= 1 /\
                    forall e, In e (flat_map entries st) <-> In e (entries c) /\ prefix_of (bits q) (key e)).
      { intros c s Hwc IH st ->. destruct c as [|ci cp cv cl cr].
        - split; [intros c' []|]. split; [cbn; lia|]. intros e. cbn. tauto.
        - pose proof (wf_node_inv _ _ _ _ _ _ _ _ _ _ Hwc) as [Hcp _].
          destruct (contains cp q) eqn:C.
          + apply (IH _ _ Hwc Hq). eapply root_covers_child; eauto.
          + destruct (contains q cp) eqn:C2.
            * split; [intros c' [<-|[]]; split; [reflexivity | eexists; exact Hwc]|]. split; [cbn; lia|].
              intros e. cbn [flat_map]. rewrite app_nil_r. split; [|tauto]. intros Hin. split; [exact Hin|].
              eapply prefix_of_trans; [eapply contains_true; eauto|].
              apply (entries_under _ _ _ _ _ _ _ (wf_self _ _ _ _ _ _ _ _ _ _ Hwc) Hin).
            * split; [intros c' []|]. split; [cbn; lia|]. intros e. cbn [flat_map In]. split; [intros []|].
              intros [Hin Hcv]. exfalso.
              pose proof (entries_under _ _ _ _ _ _ _ (wf_self _ _ _ _ _ _ _ _ _ _ Hwc) Hin) as Hu.
              destruct (prefix_of_comparable _ _ _ Hcv Hu) as [H|H].
              -- eapply (contains_false pfx peq contains is_bit_set plen lcp pzero mcmp bits ok LAWS q cp); [exact Hq | exact Hcp | exact C2 | exact H].
              -- eapply (contains_false pfx peq contains is_bit_set plen lcp pzero mcmp bits ok LAWS cp q); [exact Hcp | exact Hq | exact C | exact H]. }
      destruct (to_right p0 q) eqn:S.
      * eapply (Hgo r l true); [exact Hc | intros e He; apply (Hother e He) | intros e; tauto | | reflexivity].
        intros st Hst. eapply (Hchild r true); [exact Hr | | exact Hst]. intros b' q'. apply IHr.
      * eapply (Hgo l r false); [exact Hc | intros e He; apply (Hother e He) | intros e; tauto | | reflexivity].
        intros st Hst. eapply (Hchild l false); [exact Hl | | exact Hst]. intros b' q'. apply IHl.
Qed.

End LK2.
