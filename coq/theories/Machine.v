(** The one generic stack machine behind every traversal of the library
    ("pop an entry, push its children in a fixed order, maybe emit an item").
    [expand e] is one loop iteration of the Rust [next()]: the item it returns (if any) and the
    entries it pushes, in the order of the Rust [Vec::push]/[extend] calls; the head of the
    Coq list is the top of the Rust [Vec], hence [rev cs ++ rest]. *)
From Coq Require Import List Arith.
Import ListNotations.

Section Machine.
Variables (E I : Type) (expand : E -> option I * list E).

Definition opt_cons (o : option I) (l : list I) : list I :=
  match o with Some x => x :: l | None => l end.

(** run to exhaustion; [None] = out of fuel (excluded by the theorems) *)
Fixpoint run (fuel : nat) (st : list E) : option (list I) :=
  match st with
  | [] => Some []
  | e :: rest =>
    match fuel with
    | O => None
    | S f =>
      let '(o, cs) := expand e in
      match run f (rev cs ++ rest) with
      | None => None
      | Some out => Some (opt_cons o out)
      end
    end
  end.

(** one call of the Rust [next()]: loop until an item is emitted or the stack is empty.
    Returns the item and the remaining stack. *)
Fixpoint next (fuel : nat) (st : list E) : option (option I * list E) :=
  match st with
  | [] => Some (None, [])
  | e :: rest =>
    match fuel with
    | O => None
    | S f =>
      let '(o, cs) := expand e in
      match o with
      | Some x => Some (Some x, rev cs ++ rest)
      | None => next f (rev cs ++ rest)
      end
    end
  end.

End Machine.
