(** The one theorem behind every traversal: if each stack entry's expansion is locally correct
    with respect to a relational specification [R] (what the entry contributes to the output) and
    decreases a size measure, then running the machine to exhaustion with enough fuel yields the
    concatenation of the contributions of the initial stack, top first.  *)
From Coq Require Import List Arith Lia.
From PT Require Import Machine.
Import ListNotations.

Section MachineThm.
Variables (E I : Type) (expand : E -> option I * list E) (size : E -> nat).
Notation run := (run E I expand).
Notation opt_cons := (opt_cons I).

Definition msize (st : list E) := list_sum (map size st).

Lemma msize_app a b : msize (a ++ b) = msize a + msize b.
Proof. unfold msize. rewrite map_app, list_sum_app. reflexivity. Qed.
Lemma msize_rev a : msize (rev a) = msize a.
Proof.
  induction a as [|x a IH]; [reflexivity|]. cbn [rev]. rewrite msize_app, IH. unfold msize. simpl. lia.
Qed.
Lemma msize_cons x a : msize (x :: a) = size x + msize a.
Proof. reflexivity. Qed.

Section Rel.
Variable ok : E -> Prop.
Variable R : E -> list I -> Prop.
Hypothesis expand_dec : forall e o cs, ok e -> expand e = (o, cs) -> msize cs < size e.
Hypothesis local : forall e o cs, ok e -> expand e = (o, cs) ->
   Forall ok cs /\ (forall ls, Forall2 R (rev cs) ls -> R e (opt_cons o (concat ls))).

Theorem run_rel : forall n st, Forall ok st -> msize st <= n ->
  exists ls, Forall2 R st ls /\ run n st = Some (concat ls).
Proof.
  induction n as [|n IH]; intros st Hok Hn.
  - destruct st as [|e rest]; [exists []; split; [constructor|reflexivity]|].
    exfalso. inversion Hok as [|? ? He Hr]; subst.
    destruct (expand e) as [o cs] eqn:Hex. pose proof (expand_dec _ _ _ He Hex).
    rewrite msize_cons in Hn. lia.
  - destruct st as [|e rest]; [exists []; split; [constructor|reflexivity]|].
    inversion Hok as [|? ? He Hr]; subst.
    cbn [Machine.run]. destruct (expand e) as [o cs] eqn:Hex.
    destruct (local _ _ _ He Hex) as [Hcs Hloc].
    pose proof (expand_dec _ _ _ He Hex) as Hdec.
    destruct (IH (rev cs ++ rest)) as [ls [HF Hrun]].
    + apply Forall_app; split; [apply Forall_rev; exact Hcs | exact Hr].
    + rewrite msize_app, msize_rev. rewrite msize_cons in Hn. lia.
    + apply Forall2_app_inv_l in HF. destruct HF as [l1 [l2 [H1 [H2 ->]]]].
      exists (opt_cons o (concat l1) :: l2). split.
      * constructor; [apply Hloc; exact H1 | exact H2].
      * rewrite Hrun. rewrite concat_app. cbn [concat]. destruct o; reflexivity.
Qed.
End Rel.

(** functional form: the contribution of an entry is a function [Spec] *)
Section Fun.
Variable ok : E -> Prop.
Variable Spec : E -> list I.
Hypothesis expand_dec : forall e o cs, ok e -> expand e = (o, cs) -> msize cs < size e.
Hypothesis local : forall e o cs, ok e -> expand e = (o, cs) ->
   Forall ok cs /\ opt_cons o (flat_map Spec (rev cs)) = Spec e.

Theorem run_spec : forall n st, Forall ok st -> msize st <= n -> run n st = Some (flat_map Spec st).
Proof.
  intros n st Hok Hn.
  destruct (run_rel ok (fun e out => out = Spec e) expand_dec) with (n := n) (st := st) as [ls [HF Hrun]];
    try assumption.
  - intros e o cs He Hex. destruct (local _ _ _ He Hex) as [Hcs Heq]. split; [exact Hcs|].
    intros ls HF. rewrite <- Heq. f_equal.
    clear - HF. induction HF as [|x y l l' Hxy HF IH]; [reflexivity|]. cbn. rewrite Hxy, IH. reflexivity.
  - rewrite Hrun. f_equal.
    clear - HF. induction HF as [|x y l l' Hxy HF IH]; [reflexivity|]. cbn. rewrite Hxy, IH. reflexivity.
Qed.
End Fun.

(** the machine never yields more items than entries are popped, and it terminates *)
Lemma run_fuel_mono : forall n m st out, run n st = Some out -> n <= m -> run m st = Some out.
Proof.
  induction n as [|n IH]; intros m st out H Hle.
  - destruct st; [|discriminate]. destruct m; exact H.
  - destruct st as [|e rest]; [destruct m; exact H|].
    destruct m as [|m]; [lia|]. cbn [Machine.run] in *.
    destruct (expand e) as [o cs]. destruct (run n (rev cs ++ rest)) as [out'|] eqn:Hr; [|discriminate].
    rewrite (IH m _ _ Hr) by lia. exact H.
Qed.

End MachineThm.
