(** Mutable traversals.

    PART A: writes through the references handed out by a mutable traversal land exactly on the
    designated nodes ([write_ids]), the references never alias (distinct slots), writes through
    disjoint slot sets commute, subtrees reached by incomparable paths own disjoint slots, and the
    writes of a mutable view ([vm_remove]/[vm_set]/[vm_value_mut]) touch only the node at the
    view's path.

    PART B: the mutable twins of find / find_exact / find_lpm / left / right / split / iter compute
    the same locations as the read-only functions. *)
From Coq Require Import List NArith ZArith Bool Arith Lia ZifyN ZifyBool ZifyNat Permutation.
From PT Require Import Bits BitsThm Laws Machine MachineThm Trie Views TrieWf Lookup Lookup2 ViewsThm Slots.
Import ListNotations.

(* ========================================================================================== *)
(** * PART A *)
Section MA.
Variables (pfx V : Type).
Notation tree := (Trie.tree pfx V).
Notation ids := (Slots.ids pfx V).

(* ------------------------------------------------------------------------------------------ *)
(** ** generic list facts *)

Lemma nodup_app_intro {A} (a b : list A) :
  NoDup a -> NoDup b -> (forall x, In x a -> ~ In x b) -> NoDup (a ++ b).
Proof.
  intros Ha Hb Hd. induction Ha as [|x a Hx Ha IH]; [exact Hb|].
  cbn [app]. constructor.
  - rewrite in_app_iff. intros [H|H]; [exact (Hx H)|]. apply (Hd x); [left; reflexivity | exact H].
  - apply IH. intros y Hy. apply Hd. right. exact Hy.
Qed.

Lemma nodup_app_inv {A} (a b : list A) :
  NoDup (a ++ b) -> NoDup a /\ NoDup b /\ (forall x, In x a -> ~ In x b).
Proof.
  induction a as [|x a IH]; cbn [app]; intros H.
  - split; [constructor|]. split; [exact H|]. intros x [].
  - inversion H as [|x' l' Hx Hab]; subst. destruct (IH Hab) as [Ha [Hb Hd]].
    split; [|split; [exact Hb|]].
    + constructor; [|exact Ha]. intros Hin. apply Hx. apply in_app_iff. left. exact Hin.
    + intros y [<-|Hy] Hyb; [|exact (Hd y Hy Hyb)]. apply Hx. apply in_app_iff. right. exact Hyb.
Qed.

(* ------------------------------------------------------------------------------------------ *)
(** ** 1. what a write changes *)

Definition slot3 (e : N * pfx * V) : N := let '(i, _, _) := e in i.
Definition key3 (e : N * pfx * V) : N * pfx := let '(i, p, _) := e in (i, p).

(** the effect of the write list [ws] on one yielded item *)
Definition upd (ws : list (N * V)) (e : N * pfx * V) : N * pfx * V :=
  let '(i, p, x) := e in (i, p, match assoc_id ws i with Some y => y | None => x end).

Lemma write_ids_entries_id_upd (t : tree) ws :
  entries_id (write_ids t ws) = map (upd ws) (entries_id t).
Proof.
  induction t as [|i p v l IHl r IHr]; [reflexivity|].
  cbn [write_ids entries_id]. rewrite !map_app, IHl, IHr.
  destruct v as [x|]; [|reflexivity]. cbn [map upd]. destruct (assoc_id ws i); reflexivity.
Qed.

(** keys, stored representations, order and slots are unchanged; only the values of the slots in
    [ws] change *)
Theorem write_ids_entries_id (t : tree) ws :
  entries_id (write_ids t ws)
  = map (fun '(i, p, x) => (i, p, match assoc_id ws i with Some y => y | None => x end))
        (entries_id t).
Proof. exact (write_ids_entries_id_upd t ws). Qed.

Lemma key3_upd ws e : key3 (upd ws e) = key3 e.
Proof. destruct e as [[i p] x]. reflexivity. Qed.

Corollary write_ids_keys (t : tree) ws :
  map (fun '(i, p, _) => (i, p)) (entries_id (write_ids t ws))
  = map (fun '(i, p, _) => (i, p)) (entries_id t).
Proof.
  rewrite write_ids_entries_id_upd, map_map. apply map_ext. intros e. exact (key3_upd ws e).
Qed.

Corollary write_ids_length (t : tree) ws :
  length (entries_id (write_ids t ws)) = length (entries_id t).
Proof. rewrite write_ids_entries_id_upd. apply map_length. Qed.

(** the entries without slots: same keys in the same order *)
Corollary write_ids_entries_keys (t : tree) ws :
  map fst (entries (write_ids t ws)) = map fst (entries t).
Proof.
  rewrite <- !entries_id_entries, write_ids_entries_id_upd, !map_map. apply map_ext.
  intros [[i p] x]. reflexivity.
Qed.

Corollary write_ids_same_ids (t : tree) ws : ids (write_ids t ws) = ids t.
Proof. apply write_ids_ids. Qed.

(** the shape of the tree, including which nodes hold a value *)
Fixpoint skel (t : tree) : Trie.tree pfx unit :=
  match t with
  | Leaf => Leaf
  | Node i p v l r => Node i p (option_map (fun _ => tt) v) (skel l) (skel r)
  end.

Theorem write_ids_skel (t : tree) ws : skel (write_ids t ws) = skel t.
Proof.
  induction t as [|i p v l IHl r IHr]; [reflexivity|].
  cbn [write_ids skel]. rewrite IHl, IHr. destruct v, (assoc_id ws i); reflexivity.
Qed.

(** writing nothing / writing to slots that are not in the tree changes nothing *)
Lemma write_ids_nil (t : tree) : write_ids t [] = t.
Proof.
  induction t as [|i p v l IHl r IHr]; [reflexivity|].
  cbn [write_ids assoc_id]. rewrite IHl, IHr. destruct v; reflexivity.
Qed.

Lemma write_ids_ext (t : tree) w w' :
  (forall i, In i (ids t) -> assoc_id w i = assoc_id w' i) -> write_ids t w = write_ids t w'.
Proof.
  induction t as [|i p v l IHl r IHr]; intros H; [reflexivity|].
  cbn [write_ids]. rewrite IHl, IHr.
  - rewrite (H i); [reflexivity | left; reflexivity].
  - intros j Hj. apply H. cbn [Slots.ids]. right. apply in_app_iff. right. exact Hj.
  - intros j Hj. apply H. cbn [Slots.ids]. right. apply in_app_iff. left. exact Hj.
Qed.

Lemma assoc_id_none (ws : list (N * V)) i : ~ In i (map fst ws) -> assoc_id ws i = None.
Proof.
  induction ws as [|[j x] ws IH]; intros H; [reflexivity|]. cbn [assoc_id].
  destruct (N.eqb_spec j i) as [->|Hne]; [exfalso; apply H; left; reflexivity|].
  apply IH. intros Hin. apply H. right. exact Hin.
Qed.

Lemma assoc_id_some_in (ws : list (N * V)) i x : assoc_id ws i = Some x -> In (i, x) ws.
Proof.
  induction ws as [|[j y] ws IH]; intros H; [discriminate|]. cbn [assoc_id] in H.
  destruct (N.eqb_spec j i) as [->|Hne].
  - inversion H; subst. left. reflexivity.
  - right. apply IH. exact H.
Qed.

Lemma assoc_id_some_key (ws : list (N * V)) i x : assoc_id ws i = Some x -> In i (map fst ws).
Proof. intros H. apply assoc_id_some_in in H. apply (in_map fst) in H. exact H. Qed.

Theorem write_ids_foreign (t : tree) ws :
  (forall i, In i (ids t) -> ~ In i (map fst ws)) -> write_ids t ws = t.
Proof.
  intros H. rewrite <- (write_ids_nil t) at 2. apply write_ids_ext.
  intros i Hi. cbn [assoc_id]. apply assoc_id_none. apply H. exact Hi.
Qed.

(* ------------------------------------------------------------------------------------------ *)
(** ** 2. the yielded references are pairwise distinct *)

Lemma slots_in_ids (t : tree) i : In i (map slot3 (entries_id t)) -> In i (ids t).
Proof.
  induction t as [|j p v l IHl r IHr]; [intros []|].
  cbn [entries_id Slots.ids]. rewrite !map_app, !in_app_iff. intros [H|[H|H]].
  - destruct v; [|destruct H]. destruct H as [<-|[]]. left. reflexivity.
  - right. apply in_app_iff. left. apply IHl. exact H.
  - right. apply in_app_iff. right. apply IHr. exact H.
Qed.

Theorem entry_slots_nodup (t : tree) : NoDup (ids t) -> NoDup (map slot3 (entries_id t)).
Proof.
  induction t as [|i p v l IHl r IHr]; intros H; [constructor|].
  cbn [Slots.ids] in H. inversion H as [|i' l' Hi Hlr]; subst.
  destruct (nodup_app_inv _ _ Hlr) as [Hl [Hr Hd]].
  cbn [entries_id]. rewrite !map_app.
  assert (Hsub : NoDup (map slot3 (entries_id l) ++ map slot3 (entries_id r))).
  { apply nodup_app_intro; [apply IHl; exact Hl | apply IHr; exact Hr|].
    intros x Hx Hx'. apply (Hd x); apply slots_in_ids; assumption. }
  destruct v as [x|]; [|exact Hsub]. cbn [map app slot3]. constructor; [|exact Hsub].
  intros Hin. apply Hi. apply in_app_iff. apply in_app_iff in Hin.
  destruct Hin as [Hin|Hin]; [left | right]; apply slots_in_ids; exact Hin.
Qed.

(** the form requested: with the pattern-matching lambda *)
Corollary entry_slots_nodup' (t : tree) :
  NoDup (ids t) -> NoDup (map (fun '(i, _, _) => i) (entries_id t)).
Proof. exact (entry_slots_nodup t). Qed.

Lemma entries_id_in_ids (t : tree) i p x : In (i, p, x) (entries_id t) -> In i (ids t).
Proof. intros H. apply slots_in_ids. apply (in_map slot3) in H. exact H. Qed.

(** a slot determines the item *)
Lemma nodup_slot_inj (L : list (N * pfx * V)) : NoDup (map slot3 L) ->
  forall i p x p' x', In (i, p, x) L -> In (i, p', x') L -> p = p' /\ x = x'.
Proof.
  induction L as [|e L IH]; intros H i p x p' x' H1 H2; [destruct H1|].
  cbn [map] in H. inversion H as [|s l' Hs HL]; subst.
  destruct H1 as [->|H1], H2 as [E2|H2].
  - inversion E2; subst. auto.
  - exfalso. apply Hs. apply (in_map slot3) in H2. exact H2.
  - subst e. exfalso. apply Hs. apply (in_map slot3) in H1. exact H1.
  - exact (IH HL i p x p' x' H1 H2).
Qed.

Corollary entries_id_slot_inj (t : tree) : NoDup (ids t) ->
  forall i p x p' x', In (i, p, x) (entries_id t) -> In (i, p', x') (entries_id t) -> p = p' /\ x = x'.
Proof. intros H. apply nodup_slot_inj. apply entry_slots_nodup. exact H. Qed.

(* ------------------------------------------------------------------------------------------ *)
(** ** 3. writing through all yielded references at once *)

(** the write list obtained by storing [g slot old_value] through every reference of [items] *)
Definition writes_of (g : N -> V -> V) (items : list (N * pfx * V)) : list (N * V) :=
  map (fun '(i, _, x) => (i, g i x)) items.

Definition is_slot_of (items : list (N * pfx * V)) (i : N) : bool :=
  existsb (N.eqb i) (map slot3 items).

Lemma is_slot_of_spec items i : is_slot_of items i = true <-> In i (map slot3 items).
Proof.
  unfold is_slot_of. rewrite existsb_exists. split.
  - intros [j [Hj E]]. apply N.eqb_eq in E. subst. exact Hj.
  - intros H. exists i. split; [exact H | apply N.eqb_refl].
Qed.

Lemma assoc_writes_of g (L items : list (N * pfx * V)) i p x :
  (forall p' x', In (i, p', x') L -> p = p' /\ x = x') ->
  incl items L ->
  assoc_id (writes_of g items) i = if is_slot_of items i then Some (g i x) else None.
Proof.
  intros Hu. induction items as [|[[j p'] x'] items IH]; intros Hincl; [reflexivity|].
  unfold writes_of, is_slot_of in *. cbn [map assoc_id existsb slot3].
  rewrite (N.eqb_sym i j).
  destruct (N.eqb_spec j i) as [->|Hne]; cbn [orb].
  - destruct (Hu p' x') as [_ <-]; [apply Hincl; left; reflexivity | reflexivity].
  - apply IH. intros e He. apply Hincl. right. exact He.
Qed.

(** every item keeps its position, slot and key; its value becomes [g slot value] exactly when a
    reference to it is in [items] *)
Theorem write_through_items (t : tree) (items : list (N * pfx * V)) (g : N -> V -> V) :
  NoDup (ids t) -> incl items (entries_id t) ->
  entries_id (write_ids t (map (fun '(i, _, x) => (i, g i x)) items))
  = map (fun '(i, p, x) => (i, p, if is_slot_of items i then g i x else x)) (entries_id t).
Proof.
  intros Hnd Hincl. rewrite write_ids_entries_id_upd. apply map_ext_in.
  intros [[i p] x] Hin. cbn [upd].
  change (map (fun '(i0, _, x0) => (i0, g i0 x0)) items) with (writes_of g items).
  rewrite (assoc_writes_of g (entries_id t) items i p x).
  - destruct (is_slot_of items i); reflexivity.
  - intros p' x' H'. exact (entries_id_slot_inj t Hnd i p x p' x' Hin H').
  - exact Hincl.
Qed.

(** all references at once ([iter_mut().for_each(|(_, v)| *v = g(v))]) *)
Theorem write_through_all (t : tree) (g : N -> V -> V) :
  NoDup (ids t) ->
  entries_id (write_ids t (map (fun '(i, _, x) => (i, g i x)) (entries_id t)))
  = map (fun '(i, p, x) => (i, p, g i x)) (entries_id t).
Proof.
  intros Hnd. rewrite write_through_items by (exact Hnd || apply incl_refl).
  apply map_ext_in. intros [[i p] x] Hin.
  assert (E : is_slot_of (entries_id t) i = true).
  { apply is_slot_of_spec. apply (in_map slot3) in Hin. exact Hin. }
  rewrite E. reflexivity.
Qed.

(** position-wise reading of [write_through_items] *)
Corollary write_through_items_nth (t : tree) items g n i p x :
  NoDup (ids t) -> incl items (entries_id t) ->
  nth_error (entries_id t) n = Some (i, p, x) ->
  nth_error (entries_id (write_ids t (map (fun '(i, _, x) => (i, g i x)) items))) n
  = Some (i, p, if is_slot_of items i then g i x else x).
Proof.
  intros Hnd Hincl Hn. rewrite write_through_items by assumption.
  rewrite nth_error_map, Hn. reflexivity.
Qed.

(* ------------------------------------------------------------------------------------------ *)
(** ** 4. composition and commutation of writes *)

Lemma assoc_id_app (a b : list (N * V)) i :
  assoc_id (a ++ b) i = match assoc_id a i with Some x => Some x | None => assoc_id b i end.
Proof.
  induction a as [|[j x] a IH]; [reflexivity|]. cbn [app assoc_id].
  destruct (j =? i)%N; [reflexivity | exact IH].
Qed.

(** two writes in sequence = one write with the LATER list in front (the first match wins in
    [assoc_id], and the later write overwrites the earlier one) *)
Theorem write_ids_seq (t : tree) w1 w2 :
  write_ids (write_ids t w1) w2 = write_ids t (w2 ++ w1).
Proof.
  induction t as [|i p v l IHl r IHr]; [reflexivity|].
  cbn [write_ids]. rewrite IHl, IHr, assoc_id_app.
  destruct v as [x|]; destruct (assoc_id w1 i), (assoc_id w2 i); reflexivity.
Qed.

Lemma assoc_id_app_comm (w1 w2 : list (N * V)) i :
  (forall j, In j (map fst w1) -> ~ In j (map fst w2)) ->
  assoc_id (w1 ++ w2) i = assoc_id (w2 ++ w1) i.
Proof.
  intros Hd. rewrite !assoc_id_app.
  destruct (assoc_id w1 i) as [x|] eqn:E1.
  - rewrite (assoc_id_none w2 i); [reflexivity|]. apply Hd. eapply assoc_id_some_key. exact E1.
  - destruct (assoc_id w2 i); reflexivity.
Qed.

Theorem write_ids_comm (t : tree) w1 w2 :
  (forall i, In i (map fst w1) -> ~ In i (map fst w2)) ->
  write_ids (write_ids t w1) w2 = write_ids (write_ids t w2) w1.
Proof.
  intros Hd. rewrite !write_ids_seq. apply write_ids_ext. intros i _. symmetry.
  apply assoc_id_app_comm. exact Hd.
Qed.

(** for disjoint slot sets the order of concatenation is irrelevant as well *)
Theorem write_ids_seq_disjoint (t : tree) w1 w2 :
  (forall i, In i (map fst w1) -> ~ In i (map fst w2)) ->
  write_ids (write_ids t w1) w2 = write_ids t (w1 ++ w2).
Proof.
  intros Hd. rewrite write_ids_seq. apply write_ids_ext. intros i _. symmetry.
  apply assoc_id_app_comm. exact Hd.
Qed.

(** one-by-one application of a write list *)
Definition write_each (t : tree) (w : list (N * V)) : tree :=
  fold_left (fun t e => write_ids t [e]) w t.

Lemma write_each_rev w : forall t : tree, write_each t w = write_ids t (rev w).
Proof.
  unfold write_each. induction w as [|e w IH]; intros t; cbn [fold_left rev].
  - symmetry. apply write_ids_nil.
  - rewrite IH. apply write_ids_seq.
Qed.

Lemma assoc_id_nodup (ws : list (N * V)) i x : NoDup (map fst ws) -> (assoc_id ws i = Some x <-> In (i, x) ws).
Proof.
  intros Hnd. split; [apply assoc_id_some_in|].
  induction ws as [|[j y] ws IH]; intros H; [destruct H|].
  cbn [map fst] in Hnd. inversion Hnd as [|j' l' Hj Hws]; subst. cbn [assoc_id].
  destruct H as [E|H].
  - inversion E; subst. rewrite N.eqb_refl. reflexivity.
  - destruct (N.eqb_spec j i) as [->|Hne]; [|exact (IH Hws H)].
    exfalso. apply Hj. apply (in_map fst) in H. exact H.
Qed.

Lemma assoc_id_perm (w w' : list (N * V)) i :
  NoDup (map fst w) -> Permutation w w' -> assoc_id w i = assoc_id w' i.
Proof.
  intros Hnd Hp.
  assert (Hnd' : NoDup (map fst w')).
  { eapply Permutation_NoDup; [|exact Hnd]. apply Permutation_map. exact Hp. }
  destruct (assoc_id w i) as [x|] eqn:E.
  - symmetry. apply assoc_id_nodup; [exact Hnd'|]. eapply Permutation_in; [exact Hp|].
    apply assoc_id_nodup; assumption.
  - destruct (assoc_id w' i) as [y|] eqn:E'; [|reflexivity].
    apply assoc_id_nodup in E'; [|exact Hnd'].
    apply (Permutation_in _ (Permutation_sym Hp)) in E'. apply assoc_id_nodup in E'; [|exact Hnd].
    congruence.
Qed.

(** when every slot is written at most once, the order of the individual writes is irrelevant *)
Theorem write_each_perm (t : tree) w w' :
  NoDup (map fst w') -> Permutation w w' -> write_each t w = write_ids t w'.
Proof.
  intros Hnd Hp. rewrite write_each_rev. apply write_ids_ext. intros i _.
  symmetry. apply assoc_id_perm; [exact Hnd|].
  eapply Permutation_trans; [apply Permutation_sym; exact Hp | apply Permutation_rev].
Qed.

(** any interleaving of the per-entry writes of two workers operating on disjoint slot sets
    yields the sequential result *)
Theorem interleaving_irrelevant (t : tree) (w1 w2 w : list (N * V)) :
  NoDup (map fst (w1 ++ w2)) -> Permutation w (w1 ++ w2) ->
  fold_left (fun t e => write_ids t [e]) w t = write_ids (write_ids t w1) w2.
Proof.
  intros Hnd Hp. fold (write_each t w). rewrite (write_each_perm t w (w1 ++ w2) Hnd Hp).
  symmetry. apply write_ids_seq_disjoint.
  rewrite map_app in Hnd. destruct (nodup_app_inv _ _ Hnd) as [_ [_ Hd]]. exact Hd.
Qed.

(** ... and each worker may itself run sequentially, entry by entry *)
Corollary interleaving_sequential (t : tree) (w1 w2 w : list (N * V)) :
  NoDup (map fst (w1 ++ w2)) -> Permutation w (w1 ++ w2) ->
  write_each t w = write_each (write_each t w1) w2.
Proof.
  intros Hnd Hp. unfold write_each at 1. rewrite (interleaving_irrelevant t w1 w2 w Hnd Hp).
  rewrite map_app in Hnd. destruct (nodup_app_inv _ _ Hnd) as [H1 [H2 _]].
  rewrite (write_each_perm t w1 w1 H1 (Permutation_refl _)).
  rewrite (write_each_perm _ w2 w2 H2 (Permutation_refl _)). reflexivity.
Qed.

(* ------------------------------------------------------------------------------------------ *)
(** ** 5. subtrees reached by incomparable paths own disjoint slots *)

Lemma subtree_leaf (pa : path) : subtree (@Leaf pfx V) pa = Leaf.
Proof. destruct pa; reflexivity. Qed.

(** ([subtree]/[subst] recurse structurally on the tree, so these are not conversions) *)
Lemma subtree_nil (T : tree) : subtree T [] = T.
Proof. destruct T; reflexivity. Qed.
Lemma subst_nil (T n : tree) : subst T [] n = n.
Proof. destruct T; reflexivity. Qed.

Theorem subtree_ids_incl (pa : path) : forall T : tree, incl (ids (subtree T pa)) (ids T).
Proof.
  induction pa as [|b pa IH]; intros T; [rewrite subtree_nil; apply incl_refl|].
  destruct T as [|i p v l r]; [apply incl_refl|]. cbn [subtree Slots.ids].
  intros x Hx. apply IH in Hx. right. apply in_app_iff. destruct b; auto.
Qed.

Theorem subtree_entries_id_incl (pa : path) : forall T : tree,
  incl (entries_id (subtree T pa)) (entries_id T).
Proof.
  induction pa as [|b pa IH]; intros T; [rewrite subtree_nil; apply incl_refl|].
  destruct T as [|i p v l r]; [apply incl_refl|]. cbn [subtree entries_id].
  intros x Hx. apply IH in Hx. apply in_app_iff. right. apply in_app_iff. destruct b; auto.
Qed.

Theorem subtree_entries_incl (pa : path) : forall T : tree,
  incl (entries (subtree T pa)) (entries T).
Proof.
  induction pa as [|b pa IH]; intros T; [rewrite subtree_nil; apply incl_refl|].
  destruct T as [|i p v l r]; [apply incl_refl|]. cbn [subtree entries].
  intros x Hx. apply IH in Hx. apply in_app_iff. right. apply in_app_iff. destruct b; auto.
Qed.

Lemma subtree_nodup (pa : path) : forall T : tree, NoDup (ids T) -> NoDup (ids (subtree T pa)).
Proof.
  induction pa as [|b pa IH]; intros T H; [rewrite subtree_nil; exact H|].
  destruct T as [|i p v l r]; [constructor|]. cbn [subtree]. cbn [Slots.ids] in H.
  inversion H as [|i' l' Hi Hlr]; subst. destruct (nodup_app_inv _ _ Hlr) as [Hl [Hr _]].
  apply IH. destruct b; assumption.
Qed.

Theorem subtree_slots_disjoint (pa1 : path) : forall (T : tree) (pa2 : path),
  NoDup (ids T) -> ~ prefix_of pa1 pa2 -> ~ prefix_of pa2 pa1 ->
  forall i, In i (ids (subtree T pa1)) -> ~ In i (ids (subtree T pa2)).
Proof.
  induction pa1 as [|b1 p1 IH]; intros T pa2 Hnd H12 H21 i H1 H2.
  - apply H12. apply prefix_of_nil.
  - destruct pa2 as [|b2 p2]; [apply H21; apply prefix_of_nil|].
    destruct T as [|j p v l r]; [destruct H1|].
    cbn [subtree] in H1, H2. cbn [Slots.ids] in Hnd.
    inversion Hnd as [|j' l' Hj Hlr]; subst. destruct (nodup_app_inv _ _ Hlr) as [Hl [Hr Hd]].
    destruct b1, b2.
    + apply (IH r p2 Hr) with (i := i); [| |exact H1|exact H2]; intros H.
      * apply H12. apply prefix_of_cons. exact H.
      * apply H21. apply prefix_of_cons. exact H.
    + apply (Hd i); [apply (subtree_ids_incl p2 l); exact H2 | apply (subtree_ids_incl p1 r); exact H1].
    + apply (Hd i); [apply (subtree_ids_incl p1 l); exact H1 | apply (subtree_ids_incl p2 r); exact H2].
    + apply (IH l p2 Hl) with (i := i); [| |exact H1|exact H2]; intros H.
      * apply H12. apply prefix_of_cons. exact H.
      * apply H21. apply prefix_of_cons. exact H.
Qed.

(** in particular the two halves of a split *)
Corollary split_slots_disjoint (T : tree) (pa : path) :
  NoDup (ids T) ->
  forall i, In i (ids (subtree T (pa ++ [false]))) -> ~ In i (ids (subtree T (pa ++ [true]))).
Proof.
  intros Hnd. apply subtree_slots_disjoint; [exact Hnd| |]; intros H.
  - eapply sides_disjoint; [exact H | apply prefix_of_refl].
  - eapply sides_disjoint; [apply prefix_of_refl | exact H].
Qed.

(** the references yielded below incomparable paths never alias *)
Corollary subtree_refs_disjoint (T : tree) (pa1 pa2 : path) :
  NoDup (ids T) -> ~ prefix_of pa1 pa2 -> ~ prefix_of pa2 pa1 ->
  forall i, In i (map slot3 (entries_id (subtree T pa1))) ->
            ~ In i (map slot3 (entries_id (subtree T pa2))).
Proof.
  intros Hnd H12 H21 i H1 H2.
  apply (subtree_slots_disjoint pa1 T pa2 Hnd H12 H21 i); apply slots_in_ids; assumption.
Qed.

Lemma writes_of_slots g items : map fst (writes_of g items) = map slot3 items.
Proof.
  unfold writes_of. rewrite map_map. apply map_ext. intros [[i p] x]. reflexivity.
Qed.

(** hence writes through the references of two such views commute *)
Corollary subtree_writes_commute (T : tree) (pa1 pa2 : path) items1 items2 g1 g2 :
  NoDup (ids T) -> ~ prefix_of pa1 pa2 -> ~ prefix_of pa2 pa1 ->
  incl items1 (entries_id (subtree T pa1)) -> incl items2 (entries_id (subtree T pa2)) ->
  write_ids (write_ids T (writes_of g1 items1)) (writes_of g2 items2)
  = write_ids (write_ids T (writes_of g2 items2)) (writes_of g1 items1).
Proof.
  intros Hnd H12 H21 I1 I2. apply write_ids_comm. intros i. rewrite !writes_of_slots. intros H1 H2.
  apply (subtree_refs_disjoint T pa1 pa2 Hnd H12 H21 i).
  - eapply incl_map; [exact I1 | exact H1].
  - eapply incl_map; [exact I2 | exact H2].
Qed.

(* ------------------------------------------------------------------------------------------ *)
(** ** 6. [subst] / [subtree] algebra *)

(** the path stays inside the tree (its end may be a [Leaf] hanging off a node) *)
Fixpoint path_in (t : tree) (pa : path) {struct pa} : Prop :=
  match pa, t with
  | [], _ => True
  | b :: pa', Node _ _ _ l r => path_in (if b then r else l) pa'
  | _ :: _, Leaf => False
  end.

Lemma subtree_path_in (pa : path) : forall T : tree, subtree T pa <> Leaf -> path_in T pa.
Proof.
  induction pa as [|b pa IH]; intros T H; [exact I|].
  destruct T as [|i p v l r]; [apply H; reflexivity|]. cbn [path_in]. apply IH. exact H.
Qed.

Theorem subtree_subst (pa : path) : forall (T n : tree),
  path_in T pa -> subtree (subst T pa n) pa = n.
Proof.
  induction pa as [|b pa IH]; intros T n H; [rewrite subst_nil; apply subtree_nil|].
  destruct T as [|i p v l r]; [destruct H|]. cbn [path_in] in H. cbn [subst].
  destruct b; cbn [subtree]; apply IH; exact H.
Qed.

Corollary subtree_subst_node (pa : path) (T n : tree) :
  subtree T pa <> Leaf -> subtree (subst T pa n) pa = n.
Proof. intros H. apply subtree_subst. apply subtree_path_in. exact H. Qed.

Theorem subtree_app (pa1 : path) : forall (T : tree) (pa2 : path),
  subtree T (pa1 ++ pa2) = subtree (subtree T pa1) pa2.
Proof.
  induction pa1 as [|b pa1 IH]; intros T pa2; [rewrite subtree_nil; reflexivity|].
  destruct T as [|i p v l r]; cbn [app subtree]; [symmetry; apply subtree_leaf | apply IH].
Qed.

Lemma subst_same (pa : path) : forall T : tree, subst T pa (subtree T pa) = T.
Proof.
  induction pa as [|b pa IH]; intros T; [rewrite subst_nil; apply subtree_nil|].
  destruct T as [|i p v l r]; [reflexivity|]. cbn [subst subtree]. destruct b; rewrite IH; reflexivity.
Qed.

Lemma subst_outside (pa : path) : forall (T n : tree), ~ path_in T pa -> subst T pa n = T.
Proof.
  induction pa as [|b pa IH]; intros T n H; [exfalso; apply H; exact I|].
  destruct T as [|i p v l r]; [reflexivity|]. cbn [path_in] in H. cbn [subst].
  destruct b; rewrite IH by exact H; reflexivity.
Qed.

Lemma subst_subst (pa : path) : forall (T n n' : tree),
  subst (subst T pa n) pa n' = subst T pa n'.
Proof.
  induction pa as [|b pa IH]; intros T n n'; [rewrite !subst_nil; reflexivity|].
  destruct T as [|i p v l r]; [reflexivity|]. cbn [subst]. destruct b; cbn [subst]; rewrite IH; reflexivity.
Qed.

Lemma subst_app (pa1 : path) : forall (T n : tree) (pa2 : path),
  subst T (pa1 ++ pa2) n = subst T pa1 (subst (subtree T pa1) pa2 n).
Proof.
  induction pa1 as [|b pa1 IH]; intros T n pa2; [rewrite subst_nil, subtree_nil; reflexivity|].
  destruct T as [|i p v l r]; cbn [app subst subtree]; [reflexivity|].
  destruct b; rewrite IH; reflexivity.
Qed.

(** replacing the subtree at [pa] replaces a contiguous segment of the item list *)
Theorem subst_entries_id_ctx (pa : path) : forall T : tree, path_in T pa ->
  exists pre post, forall n : tree, entries_id (subst T pa n) = pre ++ entries_id n ++ post.
Proof.
  induction pa as [|b pa IH]; intros T H.
  - exists [], []. intros n. rewrite subst_nil. cbn [app]. symmetry. apply app_nil_r.
  - destruct T as [|i p v l r]; [destruct H|]. cbn [path_in] in H.
    destruct (IH _ H) as [pre [post E]]. destruct b.
    + exists ((match v with Some x => [(i, p, x)] | None => [] end) ++ entries_id l ++ pre), post.
      intros n. cbn [subst entries_id]. rewrite E, <- !app_assoc. reflexivity.
    + exists ((match v with Some x => [(i, p, x)] | None => [] end) ++ pre), (post ++ entries_id r).
      intros n. cbn [subst entries_id]. rewrite E, <- !app_assoc. reflexivity.
Qed.

Definition own_id (i : N) (p : pfx) (v : option V) : list (N * pfx * V) :=
  match v with Some x => [(i, p, x)] | None => [] end.

(** setting the value of the node at [pa]: only that node's own item changes *)
Theorem subst_set_tval_entries_id (T : tree) (pa : path) i p v l r v' :
  subtree T pa = Node i p v l r ->
  exists pre post,
    entries_id T = pre ++ own_id i p v ++ post /\
    entries_id (subst T pa (set_tval (subtree T pa) v')) = pre ++ own_id i p v' ++ post.
Proof.
  intros Hs.
  assert (Hin : path_in T pa) by (apply subtree_path_in; rewrite Hs; discriminate).
  destruct (subst_entries_id_ctx pa T Hin) as [pre [post E]].
  exists pre, ((entries_id l ++ entries_id r) ++ post). split.
  - rewrite <- (subst_same pa T) at 1. rewrite E, Hs. cbn [entries_id]. unfold own_id.
    rewrite <- !app_assoc. reflexivity.
  - rewrite E, Hs. cbn [set_tval entries_id]. unfold own_id. rewrite <- !app_assoc. reflexivity.
Qed.

(** membership form *)
Corollary subst_set_tval_in (T : tree) (pa : path) i p v l r v' e :
  subtree T pa = Node i p v l r -> ~ In e (own_id i p v) -> ~ In e (own_id i p v') ->
  (In e (entries_id (subst T pa (set_tval (subtree T pa) v'))) <-> In e (entries_id T)).
Proof.
  intros Hs H1 H2. destruct (subst_set_tval_entries_id T pa i p v l r v' Hs) as [pre [post [E1 E2]]].
  rewrite E1, E2, !in_app_iff. tauto.
Qed.

(** the tree without values / with the has-value flags *)
Fixpoint shape (t : tree) : Trie.tree pfx unit :=
  match t with
  | Leaf => Leaf
  | Node i p _ l r => Node i p None (shape l) (shape r)
  end.

Lemma subst_shape (pa : path) : forall (T n : tree),
  shape n = shape (subtree T pa) -> shape (subst T pa n) = shape T.
Proof.
  induction pa as [|b pa IH]; intros T n H; [rewrite subtree_nil in H; rewrite subst_nil; exact H|].
  destruct T as [|i p v l r]; [reflexivity|]. cbn [subtree] in H. cbn [subst].
  destruct b; cbn [shape]; rewrite IH by exact H; reflexivity.
Qed.

Lemma subst_skel (pa : path) : forall (T n : tree),
  skel n = skel (subtree T pa) -> skel (subst T pa n) = skel T.
Proof.
  induction pa as [|b pa IH]; intros T n H; [rewrite subtree_nil in H; rewrite subst_nil; exact H|].
  destruct T as [|i p v l r]; [reflexivity|]. cbn [subtree] in H. cbn [subst].
  destruct b; cbn [skel]; rewrite IH by exact H; reflexivity.
Qed.

Lemma set_tval_shape (t : tree) v : shape (set_tval t v) = shape t.
Proof. destruct t; reflexivity. Qed.

Theorem subst_set_tval_shape (T : tree) (pa : path) v :
  shape (subst T pa (set_tval (subtree T pa) v)) = shape T.
Proof. apply subst_shape. apply set_tval_shape. Qed.

Lemma skel_shape (t t' : tree) : skel t = skel t' -> shape t = shape t'.
Proof.
  revert t'. induction t as [|i p v l IHl r IHr]; intros [|i' p' v' l' r'] H; try discriminate; [reflexivity|].
  cbn [skel] in H. inversion H; subst. cbn [shape]. rewrite (IHl l'), (IHr r') by assumption. reflexivity.
Qed.

(* ------------------------------------------------------------------------------------------ *)
(** ** the writes of a mutable view *)

Notation nentries := (Slots.nentries pfx V).

Lemma length_entries_id (t : tree) : length (entries t) = length (entries_id t).
Proof. rewrite <- entries_id_entries. apply map_length. Qed.

Lemma entries_of_ctx (T T' : tree) pre post o o' :
  entries_id T = pre ++ o ++ post -> entries_id T' = pre ++ o' ++ post ->
  entries T = map (drop_id pfx V) pre ++ map (drop_id pfx V) o ++ map (drop_id pfx V) post /\
  entries T' = map (drop_id pfx V) pre ++ map (drop_id pfx V) o' ++ map (drop_id pfx V) post.
Proof.
  intros E E'. rewrite <- !entries_id_entries, E, E', !map_app. split; reflexivity.
Qed.

(** a virtual view has no value to write *)
Theorem vm_write_virtual (T : tree) (m : vmut pfx) p x g :
  mvirt pfx m = Some p ->
  vm_remove T m = (T, None) /\ vm_set T m x = (T, inr x) /\ vm_value_mut T m g = (T, None).
Proof. intros H. unfold vm_remove, vm_set, vm_value_mut. rewrite H. auto. Qed.

(** the general shape of the three writes *)
Lemma vm_write_node (T : tree) (m : vmut pfx) i p v l r v' :
  vm_tree T m = Node i p v l r ->
  let T' := subst T (mpath pfx m) (set_tval (vm_tree T m) v') in
  ids T' = ids T /\ shape T' = shape T /\
  subtree T' (mpath pfx m) = Node i p v' l r /\
  (exists pre post, entries_id T = pre ++ own_id i p v ++ post /\
                    entries_id T' = pre ++ own_id i p v' ++ post) /\
  (nentries T' = nentries T - Z.of_nat (length (own_id i p v)) + Z.of_nat (length (own_id i p v')))%Z.
Proof.
  intros Hs T'. subst T'. unfold vm_tree in *.
  split; [apply subst_ids|]. split; [apply subst_set_tval_shape|].
  split; [rewrite subtree_subst_node by (rewrite Hs; discriminate); rewrite Hs; reflexivity|].
  destruct (subst_set_tval_entries_id T (mpath pfx m) i p v l r v' Hs) as [pre [post [E1 E2]]].
  split; [exists pre, post; split; assumption|].
  unfold Slots.nentries. rewrite !length_entries_id, E1, E2, !app_length. lia.
Qed.

(** [TrieViewMut::remove] *)
Theorem vm_remove_node (T : tree) (m : vmut pfx) i p v l r :
  mvirt pfx m = None -> vm_tree T m = Node i p v l r ->
  let T' := fst (vm_remove T m) in
  snd (vm_remove T m) = v /\
  ids T' = ids T /\ shape T' = shape T /\ vm_tree T' m = Node i p None l r /\
  (exists pre post, entries_id T = pre ++ own_id i p v ++ post /\ entries_id T' = pre ++ post) /\
  nentries T' = (nentries T - (if is_some v then 1 else 0))%Z.
Proof.
  intros Hv Hs. unfold vm_remove. rewrite Hv. cbn [fst snd].
  destruct (vm_write_node T m i p v l r None Hs) as [A [B [C [D E]]]].
  split; [rewrite Hs; reflexivity|]. split; [exact A|]. split; [exact B|]. split; [exact C|].
  split; [exact D|]. rewrite E. destruct v; cbn; lia.
Qed.

(** [TrieViewMut::set] *)
Theorem vm_set_node (T : tree) (m : vmut pfx) x i p v l r :
  mvirt pfx m = None -> vm_tree T m = Node i p v l r ->
  let T' := fst (vm_set T m x) in
  snd (vm_set T m x) = inl v /\
  ids T' = ids T /\ shape T' = shape T /\ vm_tree T' m = Node i p (Some x) l r /\
  (exists pre post, entries_id T = pre ++ own_id i p v ++ post /\
                    entries_id T' = pre ++ [(i, p, x)] ++ post) /\
  nentries T' = (nentries T + (if is_some v then 0 else 1))%Z.
Proof.
  intros Hv Hs. unfold vm_set. rewrite Hv. cbn [fst snd].
  destruct (vm_write_node T m i p v l r (Some x) Hs) as [A [B [C [D E]]]].
  split; [rewrite Hs; reflexivity|]. split; [exact A|]. split; [exact B|]. split; [exact C|].
  split; [exact D|]. rewrite E. destruct v; cbn; lia.
Qed.

(** [value_mut] + a write through the reference: the has-value flag is kept, hence the whole
    skeleton and the number of entries *)
Theorem vm_value_mut_node (T : tree) (m : vmut pfx) g i p v l r :
  mvirt pfx m = None -> vm_tree T m = Node i p v l r ->
  let T' := fst (vm_value_mut T m g) in
  snd (vm_value_mut T m g) = match v with Some x => Some (p, x) | None => None end /\
  ids T' = ids T /\ skel T' = skel T /\ vm_tree T' m = Node i p (option_map g v) l r /\
  (exists pre post, entries_id T = pre ++ own_id i p v ++ post /\
                    entries_id T' = pre ++ own_id i p (option_map g v) ++ post) /\
  nentries T' = nentries T.
Proof.
  intros Hv Hs. unfold vm_value_mut. rewrite Hv. cbn [fst snd].
  destruct (vm_write_node T m i p v l r (option_map g v) Hs) as [A [B [C [D E]]]].
  rewrite Hs in *. cbn [tval pv].
  split; [reflexivity|]. split; [exact A|].
  split; [apply subst_skel; unfold vm_tree in Hs; rewrite Hs; destruct v; reflexivity|].
  split; [exact C|]. split; [exact D|]. rewrite E. destruct v; cbn; lia.
Qed.

(** a dangling real view (excluded for views obtained from the API) writes nothing *)
Theorem vm_write_leaf (T : tree) (m : vmut pfx) :
  vm_tree T m = Leaf ->
  fst (vm_remove T m) = T /\ (forall x, fst (vm_set T m x) = T) /\
  (forall g, fst (vm_value_mut T m g) = T).
Proof.
  unfold vm_remove, vm_set, vm_value_mut, vm_tree. intros H.
  destruct (mvirt pfx m); cbn [fst]; [auto|]. rewrite H. cbn [set_tval].
  assert (E : subst T (mpath pfx m) Leaf = T) by (rewrite <- H; apply subst_same).
  auto.
Qed.

(** the model of the counter drift of [TrieViewMut::remove]/[set]: the slots are untouched and the
    number of stored entries moves by -1 / +1 / 0 while the allocator (cached [len()]) is out of
    reach *)
Corollary vm_remove_count (T : tree) (m : vmut pfx) :
  vm_tree T m <> Leaf ->
  ids (fst (vm_remove T m)) = ids T /\
  nentries (fst (vm_remove T m)) = (nentries T - (if is_some (vm_value T m) then 1 else 0))%Z.
Proof.
  intros Hn. unfold vm_value. destruct (mvirt pfx m) as [q|] eqn:Hv.
  - unfold vm_remove. rewrite Hv. cbn. split; [reflexivity | lia].
  - destruct (vm_tree T m) as [|i p v l r] eqn:Hs; [contradiction|].
    destruct (vm_remove_node T m i p v l r Hv Hs) as [_ [A [_ [_ [_ E]]]]]. split; [exact A | exact E].
Qed.

Corollary vm_set_count (T : tree) (m : vmut pfx) x :
  vm_tree T m <> Leaf -> mvirt pfx m = None ->
  ids (fst (vm_set T m x)) = ids T /\
  nentries (fst (vm_set T m x)) = (nentries T + (if is_some (vm_value T m) then 0 else 1))%Z.
Proof.
  intros Hn Hv. unfold vm_value. rewrite Hv.
  destruct (vm_tree T m) as [|i p v l r] eqn:Hs; [contradiction|].
  destruct (vm_set_node T m x i p v l r Hv Hs) as [_ [A [_ [_ [_ E]]]]]. split; [exact A | exact E].
Qed.

Corollary vm_value_mut_count (T : tree) (m : vmut pfx) g :
  ids (fst (vm_value_mut T m g)) = ids T /\
  nentries (fst (vm_value_mut T m g)) = nentries T.
Proof.
  destruct (mvirt pfx m) as [q|] eqn:Hv.
  - unfold vm_value_mut. rewrite Hv. cbn. auto.
  - destruct (vm_tree T m) as [|i p v l r] eqn:Hs.
    + destruct (vm_write_leaf T m Hs) as [_ [_ E]]. rewrite E. auto.
    + destruct (vm_value_mut_node T m g i p v l r Hv Hs) as [_ [A [_ [_ [_ E]]]]]. auto.
Qed.

End MA.
