(** Mutable traversals.

    PART A: writes through the references handed out by a mutable traversal land exactly on the
    designated nodes ([write_ids]), the references never alias (distinct slots), writes through
    disjoint slot sets commute, subtrees reached by incomparable paths own disjoint slots, and the
    writes of a mutable view ([vm_remove]/[vm_set]/[vm_value_mut]) touch only the node at the
    view's path.

    PART B: the mutable twins of find / find_exact / find_lpm / left / right / split / iter compute
    the same locations as the read-only functions. *)
From Coq Require Import List NArith ZArith Bool Arith Lia ZifyN ZifyBool ZifyNat Permutation.
From PT Require Import Bits BitsThm Laws Machine MachineThm Trie Views TrieWf Lookup Lookup2 ViewsThm Slots.
Import ListNotations.

(* ========================================================================================== *)
(** * PART A *)
Section MA.
Variables (pfx V : Type).
Notation tree := (Trie.tree pfx V).
Notation ids := (Slots.ids pfx V).

(* ------------------------------------------------------------------------------------------ *)
(** ** generic list facts *)

Lemma nodup_app_intro {A} (a b : list A) :
  NoDup a -> NoDup b -> (forall x, In x a -> ~ In x b) -> NoDup (a ++ b).
Proof.
  intros Ha Hb Hd. induction Ha as [|x a Hx Ha IH]; [exact Hb|].
  cbn [app]. constructor.
  - rewrite in_app_iff. intros [H|H]; [exact (Hx H)|]. apply (Hd x); [left; reflexivity | exact H].
  - apply IH. intros y Hy. apply Hd. right. exact Hy.
Qed.

Lemma nodup_app_inv {A} (a b : list A) :
  NoDup (a ++ b) -> NoDup a /\ NoDup b /\ (forall x, In x a -> ~ In x b).
Proof.
  induction a as [|x a IH]; cbn [app]; intros H.
  - split; [constructor|]. split; [exact H|]. intros x [].
  - inversion H as [|x' l' Hx Hab]; subst. destruct (IH Hab) as [Ha [Hb Hd]].
    split; [|split; [exact Hb|]].
    + constructor; [|exact Ha]. intros Hin. apply Hx. apply in_app_iff. left. exact Hin.
    + intros y [<-|Hy] Hyb; [|exact (Hd y Hy Hyb)]. apply Hx. apply in_app_iff. right. exact Hyb.
Qed.

(* ------------------------------------------------------------------------------------------ *)
(** ** 1. what a write changes *)

Definition slot3 (e : N * pfx * V) : N := let '(i, _, _) := e in i.
Definition key3 (e : N * pfx * V) : N * pfx := let '(i, p, _) := e in (i, p).

(** the effect of the write list [ws] on one yielded item *)
Definition upd (ws : list (N * V)) (e : N * pfx * V) : N * pfx * V :=
  let '(i, p, x) := e in (i, p, match assoc_id ws i with Some y => y | None => x end).

Lemma write_ids_entries_id_upd (t : tree) ws :
  entries_id (write_ids t ws) = map (upd ws) (entries_id t).
Proof.
  induction t as [|i p v l IHl r IHr]; [reflexivity|].
  cbn [write_ids entries_id]. rewrite !map_app, IHl, IHr.
  destruct v as [x|]; [|reflexivity]. cbn [map upd]. destruct (assoc_id ws i); reflexivity.
Qed.

(** keys, stored representations, order and slots are unchanged; only the values of the slots in
    [ws] change *)
Theorem write_ids_entries_id (t : tree) ws :
  entries_id (write_ids t ws)
  = map (fun '(i, p, x) => (i, p, match assoc_id ws i with Some y => y | None => x end))
        (entries_id t).
Proof. exact (write_ids_entries_id_upd t ws). Qed.

Lemma key3_upd ws e : key3 (upd ws e) = key3 e.
Proof. destruct e as [[i p] x]. reflexivity. Qed.

Corollary write_ids_keys (t : tree) ws :
  map (fun '(i, p, _) => (i, p)) (entries_id (write_ids t ws))
  = map (fun '(i, p, _) => (i, p)) (entries_id t).
Proof.
  rewrite write_ids_entries_id_upd, map_map. apply map_ext. intros e. exact (key3_upd ws e).
Qed.

Corollary write_ids_length (t : tree) ws :
  length (entries_id (write_ids t ws)) = length (entries_id t).
Proof. rewrite write_ids_entries_id_upd. apply map_length. Qed.

(** the entries without slots: same keys in the same order *)
Corollary write_ids_entries_keys (t : tree) ws :
  map fst (entries (write_ids t ws)) = map fst (entries t).
Proof.
  rewrite <- !entries_id_entries, write_ids_entries_id_upd, !map_map. apply map_ext.
  intros [[i p] x]. reflexivity.
Qed.

Corollary write_ids_same_ids (t : tree) ws : ids (write_ids t ws) = ids t.
Proof. apply write_ids_ids. Qed.

(** the shape of the tree, including which nodes hold a value *)
Fixpoint skel (t : tree) : Trie.tree pfx unit :=
  match t with
  | Leaf => Leaf
  | Node i p v l r => Node i p (option_map (fun _ => tt) v) (skel l) (skel r)
  end.

Theorem write_ids_skel (t : tree) ws : skel (write_ids t ws) = skel t.
Proof.
  induction t as [|i p v l IHl r IHr]; [reflexivity|].
  cbn [write_ids skel]. rewrite IHl, IHr. destruct v, (assoc_id ws i); reflexivity.
Qed.

(** writing nothing / writing to slots that are not in the tree changes nothing *)
Lemma write_ids_nil (t : tree) : write_ids t [] = t.
Proof.
  induction t as [|i p v l IHl r IHr]; [reflexivity|].
  cbn [write_ids assoc_id]. rewrite IHl, IHr. destruct v; reflexivity.
Qed.

Lemma write_ids_ext (t : tree) w w' :
  (forall i, In i (ids t) -> assoc_id w i = assoc_id w' i) -> write_ids t w = write_ids t w'.
Proof.
  induction t as [|i p v l IHl r IHr]; intros H; [reflexivity|].
  cbn [write_ids]. rewrite IHl, IHr.
  - rewrite (H i); [reflexivity | left; reflexivity].
  - intros j Hj. apply H. cbn [Slots.ids]. right. apply in_app_iff. right. exact Hj.
  - intros j Hj. apply H. cbn [Slots.ids]. right. apply in_app_iff. left. exact Hj.
Qed.

Lemma assoc_id_none (ws : list (N * V)) i : ~ In i (map fst ws) -> assoc_id ws i = None.
Proof.
  induction ws as [|[j x] ws IH]; intros H; [reflexivity|]. cbn [assoc_id].
  destruct (N.eqb_spec j i) as [->|Hne]; [exfalso; apply H; left; reflexivity|].
  apply IH. intros Hin. apply H. right. exact Hin.
Qed.

Lemma assoc_id_some_in (ws : list (N * V)) i x : assoc_id ws i = Some x -> In (i, x) ws.
Proof.
  induction ws as [|[j y] ws IH]; intros H; [discriminate|]. cbn [assoc_id] in H.
  destruct (N.eqb_spec j i) as [->|Hne].
  - inversion H; subst. left. reflexivity.
  - right. apply IH. exact H.
Qed.

Lemma assoc_id_some_key (ws : list (N * V)) i x : assoc_id ws i = Some x -> In i (map fst ws).
Proof. intros H. apply assoc_id_some_in in H. apply (in_map fst) in H. exact H. Qed.

Theorem write_ids_foreign (t : tree) ws :
  (forall i, In i (ids t) -> ~ In i (map fst ws)) -> write_ids t ws = t.
Proof.
  intros H. rewrite <- (write_ids_nil t) at 2. apply write_ids_ext.
  intros i Hi. cbn [assoc_id]. apply assoc_id_none. apply H. exact Hi.
Qed.

(* ------------------------------------------------------------------------------------------ *)
(** ** 2. the yielded references are pairwise distinct *)

Lemma slots_in_ids (t : tree) i : In i (map slot3 (entries_id t)) -> In i (ids t).
Proof.
  induction t as [|j p v l IHl r IHr]; [intros []|].
  cbn [entries_id Slots.ids]. rewrite !map_app, !in_app_iff. intros [H|[H|H]].
  - destruct v; [|destruct H]. destruct H as [<-|[]]. left. reflexivity.
  - right. apply in_app_iff. left. apply IHl. exact H.
  - right. apply in_app_iff. right. apply IHr. exact H.
Qed.

Theorem entry_slots_nodup (t : tree) : NoDup (ids t) -> NoDup (map slot3 (entries_id t)).
Proof.
  induction t as [|i p v l IHl r IHr]; intros H; [constructor|].
  cbn [Slots.ids] in H. inversion H as [|i' l' Hi Hlr]; subst.
  destruct (nodup_app_inv _ _ Hlr) as [Hl [Hr Hd]].
  cbn [entries_id]. rewrite !map_app.
  assert (Hsub : NoDup (map slot3 (entries_id l) ++ map slot3 (entries_id r))).
  { apply nodup_app_intro; [apply IHl; exact Hl | apply IHr; exact Hr|].
    intros x Hx Hx'. apply (Hd x); apply slots_in_ids; assumption. }
  destruct v as [x|]; [|exact Hsub]. cbn [map app slot3]. constructor; [|exact Hsub].
  intros Hin. apply Hi. apply in_app_iff. apply in_app_iff in Hin.
  destruct Hin as [Hin|Hin]; [left | right]; apply slots_in_ids; exact Hin.
Qed.

(** the form requested: with the pattern-matching lambda *)
Corollary entry_slots_nodup' (t : tree) :
  NoDup (ids t) -> NoDup (map (fun '(i, _, _) => i) (entries_id t)).
Proof. exact (entry_slots_nodup t). Qed.

Lemma entries_id_in_ids (t : tree) i p x : In (i, p, x) (entries_id t) -> In i (ids t).
Proof. intros H. apply slots_in_ids. apply (in_map slot3) in H. exact H. Qed.

(** a slot determines the item *)
Lemma nodup_slot_inj (L : list (N * pfx * V)) : NoDup (map slot3 L) ->
  forall i p x p' x', In (i, p, x) L -> In (i, p', x') L -> p = p' /\ x = x'.
Proof.
  induction L as [|e L IH]; intros H i p x p' x' H1 H2; [destruct H1|].
  cbn [map] in H. inversion H as [|s l' Hs HL]; subst.
  destruct H1 as [->|H1], H2 as [E2|H2].
  - inversion E2; subst. auto.
  - exfalso. apply Hs. apply (in_map slot3) in H2. exact H2.
  - subst e. exfalso. apply Hs. apply (in_map slot3) in H1. exact H1.
  - exact (IH HL i p x p' x' H1 H2).
Qed.

Corollary entries_id_slot_inj (t : tree) : NoDup (ids t) ->
  forall i p x p' x', In (i, p, x) (entries_id t) -> In (i, p', x') (entries_id t) -> p = p' /\ x = x'.
Proof. intros H. apply nodup_slot_inj. apply entry_slots_nodup. exact H. Qed.

(* ------------------------------------------------------------------------------------------ *)
(** ** 3. writing through all yielded references at once *)

(** the write list obtained by storing [g slot old_value] through every reference of [items] *)
Definition writes_of (g : N -> V -> V) (items : list (N * pfx * V)) : list (N * V) :=
  map (fun '(i, _, x) => (i, g i x)) items.

Definition is_slot_of (items : list (N * pfx * V)) (i : N) : bool :=
  existsb (N.eqb i) (map slot3 items).

Lemma is_slot_of_spec items i : is_slot_of items i = true <-> In i (map slot3 items).
Proof.
  unfold is_slot_of. rewrite existsb_exists. split.
  - intros [j [Hj E]]. apply N.eqb_eq in E. subst. exact Hj.
  - intros H. exists i. split; [exact H | apply N.eqb_refl].
Qed.

Lemma assoc_writes_of g (L items : list (N * pfx * V)) i p x :
  (forall p' x', In (i, p', x') L -> p = p' /\ x = x') ->
  incl items L ->
  assoc_id (writes_of g items) i = if is_slot_of items i then Some (g i x) else None.
Proof.
  intros Hu. induction items as [|[[j p'] x'] items IH]; intros Hincl; [reflexivity|].
  unfold writes_of, is_slot_of in *. cbn [map assoc_id existsb slot3].
  rewrite (N.eqb_sym i j).
  destruct (N.eqb_spec j i) as [->|Hne]; cbn [orb].
  - destruct (Hu p' x') as [_ <-]; [apply Hincl; left; reflexivity | reflexivity].
  - apply IH. intros e He. apply Hincl. right. exact He.
Qed.

(** every item keeps its position, slot and key; its value becomes [g slot value] exactly when a
    reference to it is in [items] *)
Theorem write_through_items (t : tree) (items : list (N * pfx * V)) (g : N -> V -> V) :
  NoDup (ids t) -> incl items (entries_id t) ->
  entries_id (write_ids t (map (fun '(i, _, x) => (i, g i x)) items))
  = map (fun '(i, p, x) => (i, p, if is_slot_of items i then g i x else x)) (entries_id t).
Proof.
  intros Hnd Hincl. rewrite write_ids_entries_id_upd. apply map_ext_in.
  intros [[i p] x] Hin. cbn [upd].
  change (map (fun '(i0, _, x0) => (i0, g i0 x0)) items) with (writes_of g items).
  rewrite (assoc_writes_of g (entries_id t) items i p x).
  - destruct (is_slot_of items i); reflexivity.
  - intros p' x' H'. exact (entries_id_slot_inj t Hnd i p x p' x' Hin H').
  - exact Hincl.
Qed.

(** all references at once ([iter_mut().for_each(|(_, v)| *v = g(v))]) *)
Theorem write_through_all (t : tree) (g : N -> V -> V) :
  NoDup (ids t) ->
  entries_id (write_ids t (map (fun '(i, _, x) => (i, g i x)) (entries_id t)))
  = map (fun '(i, p, x) => (i, p, g i x)) (entries_id t).
Proof.
  intros Hnd. rewrite write_through_items by (exact Hnd || apply incl_refl).
  apply map_ext_in. intros [[i p] x] Hin.
  assert (E : is_slot_of (entries_id t) i = true).
  { apply is_slot_of_spec. apply (in_map slot3) in Hin. exact Hin. }
  rewrite E. reflexivity.
Qed.

(** position-wise reading of [write_through_items] *)
Corollary write_through_items_nth (t : tree) items g n i p x :
  NoDup (ids t) -> incl items (entries_id t) ->
  nth_error (entries_id t) n = Some (i, p, x) ->
  nth_error (entries_id (write_ids t (map (fun '(i, _, x) => (i, g i x)) items))) n
  = Some (i, p, if is_slot_of items i then g i x else x).
Proof.
  intros Hnd Hincl Hn. rewrite write_through_items by assumption.
  rewrite nth_error_map, Hn. reflexivity.
Qed.

(* ------------------------------------------------------------------------------------------ *)
(** ** 4. composition and commutation of writes *)

Lemma assoc_id_app (a b : list (N * V)) i :
  assoc_id (a ++ b) i = match assoc_id a i with Some x => Some x | None => assoc_id b i end.
Proof.
  induction a as [|[j x] a IH]; [reflexivity|]. cbn [app assoc_id].
  destruct (j =? i)%N; [reflexivity | exact IH].
Qed.

(** two writes in sequence = one write with the LATER list in front (the first match wins in
    [assoc_id], and the later write overwrites the earlier one) *)
Theorem write_ids_seq (t : tree) w1 w2 :
  write_ids (write_ids t w1) w2 = write_ids t (w2 ++ w1).
Proof.
  induction t as [|i p v l IHl r IHr]; [reflexivity|].
  cbn [write_ids]. rewrite IHl, IHr, assoc_id_app.
  destruct v as [x|]; destruct (assoc_id w1 i), (assoc_id w2 i); reflexivity.
Qed.

Lemma assoc_id_app_comm (w1 w2 : list (N * V)) i :
  (forall j, In j (map fst w1) -> ~ In j (map fst w2)) ->
  assoc_id (w1 ++ w2) i = assoc_id (w2 ++ w1) i.
Proof.
  intros Hd. rewrite !assoc_id_app.
  destruct (assoc_id w1 i) as [x|] eqn:E1.
  - rewrite (assoc_id_none w2 i); [reflexivity|]. apply Hd. eapply assoc_id_some_key. exact E1.
  - destruct (assoc_id w2 i); reflexivity.
Qed.

Theorem write_ids_comm (t : tree) w1 w2 :
  (forall i, In i (map fst w1) -> ~ In i (map fst w2)) ->
  write_ids (write_ids t w1) w2 = write_ids (write_ids t w2) w1.
Proof.
  intros Hd. rewrite !write_ids_seq. apply write_ids_ext. intros i _. symmetry.
  apply assoc_id_app_comm. exact Hd.
Qed.

(** for disjoint slot sets the order of concatenation is irrelevant as well *)
Theorem write_ids_seq_disjoint (t : tree) w1 w2 :
  (forall i, In i (map fst w1) -> ~ In i (map fst w2)) ->
  write_ids (write_ids t w1) w2 = write_ids t (w1 ++ w2).
Proof.
  intros Hd. rewrite write_ids_seq. apply write_ids_ext. intros i _. symmetry.
  apply assoc_id_app_comm. exact Hd.
Qed.

(** one-by-one application of a write list *)
Definition write_each (t : tree) (w : list (N * V)) : tree :=
  fold_left (fun t e => write_ids t [e]) w t.

Lemma write_each_rev w : forall t : tree, write_each t w = write_ids t (rev w).
Proof.
  unfold write_each. induction w as [|e w IH]; intros t; cbn [fold_left rev].
  - symmetry. apply write_ids_nil.
  - rewrite IH. apply write_ids_seq.
Qed.

Lemma assoc_id_nodup (ws : list (N * V)) i x : NoDup (map fst ws) -> (assoc_id ws i = Some x <-> In (i, x) ws).
Proof.
  intros Hnd. split; [apply assoc_id_some_in|].
  induction ws as [|[j y] ws IH]; intros H; [destruct H|].
  cbn [map fst] in Hnd. inversion Hnd as [|j' l' Hj Hws]; subst. cbn [assoc_id].
  destruct H as [E|H].
  - inversion E; subst. rewrite N.eqb_refl. reflexivity.
  - destruct (N.eqb_spec j i) as [->|Hne]; [|exact (IH Hws H)].
    exfalso. apply Hj. apply (in_map fst) in H. exact H.
Qed.

Lemma assoc_id_perm (w w' : list (N * V)) i :
  NoDup (map fst w) -> Permutation w w' -> assoc_id w i = assoc_id w' i.
Proof.
  intros Hnd Hp.
  assert (Hnd' : NoDup (map fst w')).
  { eapply Permutation_NoDup; [|exact Hnd]. apply Permutation_map. exact Hp. }
  destruct (assoc_id w i) as [x|] eqn:E.
  - symmetry. apply assoc_id_nodup; [exact Hnd'|]. eapply Permutation_in; [exact Hp|].
    apply assoc_id_nodup; assumption.
  - destruct (assoc_id w' i) as [y|] eqn:E'; [|reflexivity].
    apply assoc_id_nodup in E'; [|exact Hnd'].
    apply (Permutation_in _ (Permutation_sym Hp)) in E'. apply assoc_id_nodup in E'; [|exact Hnd].
    congruence.
Qed.

(** when every slot is written at most once, the order of the individual writes is irrelevant *)
Theorem write_each_perm (t : tree) w w' :
  NoDup (map fst w') -> Permutation w w' -> write_each t w = write_ids t w'.
Proof.
  intros Hnd Hp. rewrite write_each_rev. apply write_ids_ext. intros i _.
  symmetry. apply assoc_id_perm; [exact Hnd|].
  eapply Permutation_trans; [apply Permutation_sym; exact Hp | apply Permutation_rev].
Qed.

(** any interleaving of the per-entry writes of two workers operating on disjoint slot sets
    yields the sequential result *)
Theorem interleaving_irrelevant (t : tree) (w1 w2 w : list (N * V)) :
  NoDup (map fst (w1 ++ w2)) -> Permutation w (w1 ++ w2) ->
  fold_left (fun t e => write_ids t [e]) w t = write_ids (write_ids t w1) w2.
Proof.
  intros Hnd Hp. fold (write_each t w). rewrite (write_each_perm t w (w1 ++ w2) Hnd Hp).
  symmetry. apply write_ids_seq_disjoint.
  rewrite map_app in Hnd. destruct (nodup_app_inv _ _ Hnd) as [_ [_ Hd]]. exact Hd.
Qed.

(** ... and each worker may itself run sequentially, entry by entry *)
Corollary interleaving_sequential (t : tree) (w1 w2 w : list (N * V)) :
  NoDup (map fst (w1 ++ w2)) -> Permutation w (w1 ++ w2) ->
  write_each t w = write_each (write_each t w1) w2.
Proof.
  intros Hnd Hp. unfold write_each at 1. rewrite (interleaving_irrelevant t w1 w2 w Hnd Hp).
  rewrite map_app in Hnd. destruct (nodup_app_inv _ _ Hnd) as [H1 [H2 _]].
  rewrite (write_each_perm t w1 w1 H1 (Permutation_refl _)).
  rewrite (write_each_perm _ w2 w2 H2 (Permutation_refl _)). reflexivity.
Qed.

(* ------------------------------------------------------------------------------------------ *)
(** ** 5. subtrees reached by incomparable paths own disjoint slots *)

Lemma subtree_leaf (pa : path) : subtree (@Leaf pfx V) pa = Leaf.
Proof. destruct pa; reflexivity. Qed.

(** ([subtree]/[subst] recurse structurally on the tree, so these are not conversions) *)
Lemma subtree_nil (T : tree) : subtree T [] = T.
Proof. destruct T; reflexivity. Qed.
Lemma subst_nil (T n : tree) : subst T [] n = n.
Proof. destruct T; reflexivity. Qed.

Theorem subtree_ids_incl (pa : path) : forall T : tree, incl (ids (subtree T pa)) (ids T).
Proof.
  induction pa as [|b pa IH]; intros T; [rewrite subtree_nil; apply incl_refl|].
  destruct T as [|i p v l r]; [apply incl_refl|]. cbn [subtree Slots.ids].
  intros x Hx. apply IH in Hx. right. apply in_app_iff. destruct b; auto.
Qed.

Theorem subtree_entries_id_incl (pa : path) : forall T : tree,
  incl (entries_id (subtree T pa)) (entries_id T).
Proof.
  induction pa as [|b pa IH]; intros T; [rewrite subtree_nil; apply incl_refl|].
  destruct T as [|i p v l r]; [apply incl_refl|]. cbn [subtree entries_id].
  intros x Hx. apply IH in Hx. apply in_app_iff. right. apply in_app_iff. destruct b; auto.
Qed.

Theorem subtree_entries_incl (pa : path) : forall T : tree,
  incl (entries (subtree T pa)) (entries T).
Proof.
  induction pa as [|b pa IH]; intros T; [rewrite subtree_nil; apply incl_refl|].
  destruct T as [|i p v l r]; [apply incl_refl|]. cbn [subtree entries].
  intros x Hx. apply IH in Hx. apply in_app_iff. right. apply in_app_iff. destruct b; auto.
Qed.

Lemma subtree_nodup (pa : path) : forall T : tree, NoDup (ids T) -> NoDup (ids (subtree T pa)).
Proof.
  induction pa as [|b pa IH]; intros T H; [rewrite subtree_nil; exact H|].
  destruct T as [|i p v l r]; [constructor|]. cbn [subtree]. cbn [Slots.ids] in H.
  inversion H as [|i' l' Hi Hlr]; subst. destruct (nodup_app_inv _ _ Hlr) as [Hl [Hr _]].
  apply IH. destruct b; assumption.
Qed.

Theorem subtree_slots_disjoint (pa1 : path) : forall (T : tree) (pa2 : path),
  NoDup (ids T) -> ~ prefix_of pa1 pa2 -> ~ prefix_of pa2 pa1 ->
  forall i, In i (ids (subtree T pa1)) -> ~ In i (ids (subtree T pa2)).
Proof.
  induction pa1 as [|b1 p1 IH]; intros T pa2 Hnd H12 H21 i H1 H2.
  - apply H12. apply prefix_of_nil.
  - destruct pa2 as [|b2 p2]; [apply H21; apply prefix_of_nil|].
    destruct T as [|j p v l r]; [destruct H1|].
    cbn [subtree] in H1, H2. cbn [Slots.ids] in Hnd.
    inversion Hnd as [|j' l' Hj Hlr]; subst. destruct (nodup_app_inv _ _ Hlr) as [Hl [Hr Hd]].
    destruct b1, b2.
    + apply (IH r p2 Hr) with (i := i); [| |exact H1|exact H2]; intros H.
      * apply H12. apply prefix_of_cons. exact H.
      * apply H21. apply prefix_of_cons. exact H.
    + apply (Hd i); [apply (subtree_ids_incl p2 l); exact H2 | apply (subtree_ids_incl p1 r); exact H1].
    + apply (Hd i); [apply (subtree_ids_incl p1 l); exact H1 | apply (subtree_ids_incl p2 r); exact H2].
    + apply (IH l p2 Hl) with (i := i); [| |exact H1|exact H2]; intros H.
      * apply H12. apply prefix_of_cons. exact H.
      * apply H21. apply prefix_of_cons. exact H.
Qed.

(** in particular the two halves of a split *)
Corollary split_slots_disjoint (T : tree) (pa : path) :
  NoDup (ids T) ->
  forall i, In i (ids (subtree T (pa ++ [false]))) -> ~ In i (ids (subtree T (pa ++ [true]))).
Proof.
  intros Hnd. apply subtree_slots_disjoint; [exact Hnd| |]; intros H.
  - eapply sides_disjoint; [exact H | apply prefix_of_refl].
  - eapply sides_disjoint; [apply prefix_of_refl | exact H].
Qed.

(** the references yielded below incomparable paths never alias *)
Corollary subtree_refs_disjoint (T : tree) (pa1 pa2 : path) :
  NoDup (ids T) -> ~ prefix_of pa1 pa2 -> ~ prefix_of pa2 pa1 ->
  forall i, In i (map slot3 (entries_id (subtree T pa1))) ->
            ~ In i (map slot3 (entries_id (subtree T pa2))).
Proof.
  intros Hnd H12 H21 i H1 H2.
  apply (subtree_slots_disjoint pa1 T pa2 Hnd H12 H21 i); apply slots_in_ids; assumption.
Qed.

Lemma writes_of_slots g items : map fst (writes_of g items) = map slot3 items.
Proof.
  unfold writes_of. rewrite map_map. apply map_ext. intros [[i p] x]. reflexivity.
Qed.

(** hence writes through the references of two such views commute *)
Corollary subtree_writes_commute (T : tree) (pa1 pa2 : path) items1 items2 g1 g2 :
  NoDup (ids T) -> ~ prefix_of pa1 pa2 -> ~ prefix_of pa2 pa1 ->
  incl items1 (entries_id (subtree T pa1)) -> incl items2 (entries_id (subtree T pa2)) ->
  write_ids (write_ids T (writes_of g1 items1)) (writes_of g2 items2)
  = write_ids (write_ids T (writes_of g2 items2)) (writes_of g1 items1).
Proof.
  intros Hnd H12 H21 I1 I2. apply write_ids_comm. intros i. rewrite !writes_of_slots. intros H1 H2.
  apply (subtree_refs_disjoint T pa1 pa2 Hnd H12 H21 i).
  - eapply incl_map; [exact I1 | exact H1].
  - eapply incl_map; [exact I2 | exact H2].
Qed.

(* ------------------------------------------------------------------------------------------ *)
(** ** 6. [subst] / [subtree] algebra *)

(** the path stays inside the tree (its end may be a [Leaf] hanging off a node) *)
Fixpoint path_in (t : tree) (pa : path) {struct pa} : Prop :=
  match pa, t with
  | [], _ => True
  | b :: pa', Node _ _ _ l r => path_in (if b then r else l) pa'
  | _ :: _, Leaf => False
  end.

Lemma subtree_path_in (pa : path) : forall T : tree, subtree T pa <> Leaf -> path_in T pa.
Proof.
  induction pa as [|b pa IH]; intros T H; [exact I|].
  destruct T as [|i p v l r]; [apply H; reflexivity|]. cbn [path_in]. apply IH. exact H.
Qed.

Theorem subtree_subst (pa : path) : forall (T n : tree),
  path_in T pa -> subtree (subst T pa n) pa = n.
Proof.
  induction pa as [|b pa IH]; intros T n H; [rewrite subst_nil; apply subtree_nil|].
  destruct T as [|i p v l r]; [destruct H|]. cbn [path_in] in H. cbn [subst].
  destruct b; cbn [subtree]; apply IH; exact H.
Qed.

Corollary subtree_subst_node (pa : path) (T n : tree) :
  subtree T pa <> Leaf -> subtree (subst T pa n) pa = n.
Proof. intros H. apply subtree_subst. apply subtree_path_in. exact H. Qed.

Theorem subtree_app (pa1 : path) : forall (T : tree) (pa2 : path),
  subtree T (pa1 ++ pa2) = subtree (subtree T pa1) pa2.
Proof.
  induction pa1 as [|b pa1 IH]; intros T pa2; [rewrite subtree_nil; reflexivity|].
  destruct T as [|i p v l r]; cbn [app subtree]; [symmetry; apply subtree_leaf | apply IH].
Qed.

Lemma subst_same (pa : path) : forall T : tree, subst T pa (subtree T pa) = T.
Proof.
  induction pa as [|b pa IH]; intros T; [rewrite subst_nil; apply subtree_nil|].
  destruct T as [|i p v l r]; [reflexivity|]. cbn [subst subtree]. destruct b; rewrite IH; reflexivity.
Qed.

Lemma subst_outside (pa : path) : forall (T n : tree), ~ path_in T pa -> subst T pa n = T.
Proof.
  induction pa as [|b pa IH]; intros T n H; [exfalso; apply H; exact I|].
  destruct T as [|i p v l r]; [reflexivity|]. cbn [path_in] in H. cbn [subst].
  destruct b; rewrite IH by exact H; reflexivity.
Qed.

Lemma subst_subst (pa : path) : forall (T n n' : tree),
  subst (subst T pa n) pa n' = subst T pa n'.
Proof.
  induction pa as [|b pa IH]; intros T n n'; [rewrite !subst_nil; reflexivity|].
  destruct T as [|i p v l r]; [reflexivity|]. cbn [subst]. destruct b; cbn [subst]; rewrite IH; reflexivity.
Qed.

Lemma subst_app (pa1 : path) : forall (T n : tree) (pa2 : path),
  subst T (pa1 ++ pa2) n = subst T pa1 (subst (subtree T pa1) pa2 n).
Proof.
  induction pa1 as [|b pa1 IH]; intros T n pa2; [rewrite subst_nil, subtree_nil; reflexivity|].
  destruct T as [|i p v l r]; cbn [app subst subtree]; [reflexivity|].
  destruct b; rewrite IH; reflexivity.
Qed.

(** replacing the subtree at [pa] replaces a contiguous segment of the item list *)
Theorem subst_entries_id_ctx (pa : path) : forall T : tree, path_in T pa ->
  exists pre post, forall n : tree, entries_id (subst T pa n) = pre ++ entries_id n ++ post.
Proof.
  induction pa as [|b pa IH]; intros T H.
  - exists [], []. intros n. rewrite subst_nil. cbn [app]. symmetry. apply app_nil_r.
  - destruct T as [|i p v l r]; [destruct H|]. cbn [path_in] in H.
    destruct (IH _ H) as [pre [post E]]. destruct b.
    + exists ((match v with Some x => [(i, p, x)] | None => [] end) ++ entries_id l ++ pre), post.
      intros n. cbn [subst entries_id]. rewrite E, <- !app_assoc. reflexivity.
    + exists ((match v with Some x => [(i, p, x)] | None => [] end) ++ pre), (post ++ entries_id r).
      intros n. cbn [subst entries_id]. rewrite E, <- !app_assoc. reflexivity.
Qed.

Definition own_id (i : N) (p : pfx) (v : option V) : list (N * pfx * V) :=
  match v with Some x => [(i, p, x)] | None => [] end.

(** setting the value of the node at [pa]: only that node's own item changes *)
Theorem subst_set_tval_entries_id (T : tree) (pa : path) i p v l r v' :
  subtree T pa = Node i p v l r ->
  exists pre post,
    entries_id T = pre ++ own_id i p v ++ post /\
    entries_id (subst T pa (set_tval (subtree T pa) v')) = pre ++ own_id i p v' ++ post.
Proof.
  intros Hs.
  assert (Hin : path_in T pa) by (apply subtree_path_in; rewrite Hs; discriminate).
  destruct (subst_entries_id_ctx pa T Hin) as [pre [post E]].
  exists pre, ((entries_id l ++ entries_id r) ++ post). split.
  - rewrite <- (subst_same pa T) at 1. rewrite E, Hs. cbn [entries_id]. unfold own_id.
    rewrite <- !app_assoc. reflexivity.
  - rewrite E, Hs. cbn [set_tval entries_id]. unfold own_id. rewrite <- !app_assoc. reflexivity.
Qed.

(** membership form *)
Corollary subst_set_tval_in (T : tree) (pa : path) i p v l r v' e :
  subtree T pa = Node i p v l r -> ~ In e (own_id i p v) -> ~ In e (own_id i p v') ->
  (In e (entries_id (subst T pa (set_tval (subtree T pa) v'))) <-> In e (entries_id T)).
Proof.
  intros Hs H1 H2. destruct (subst_set_tval_entries_id T pa i p v l r v' Hs) as [pre [post [E1 E2]]].
  rewrite E1, E2, !in_app_iff. tauto.
Qed.

(** the tree without values / with the has-value flags *)
Fixpoint shape (t : tree) : Trie.tree pfx unit :=
  match t with
  | Leaf => Leaf
  | Node i p _ l r => Node i p None (shape l) (shape r)
  end.

Lemma subst_shape (pa : path) : forall (T n : tree),
  shape n = shape (subtree T pa) -> shape (subst T pa n) = shape T.
Proof.
  induction pa as [|b pa IH]; intros T n H; [rewrite subtree_nil in H; rewrite subst_nil; exact H|].
  destruct T as [|i p v l r]; [reflexivity|]. cbn [subtree] in H. cbn [subst].
  destruct b; cbn [shape]; rewrite IH by exact H; reflexivity.
Qed.

Lemma subst_skel (pa : path) : forall (T n : tree),
  skel n = skel (subtree T pa) -> skel (subst T pa n) = skel T.
Proof.
  induction pa as [|b pa IH]; intros T n H; [rewrite subtree_nil in H; rewrite subst_nil; exact H|].
  destruct T as [|i p v l r]; [reflexivity|]. cbn [subtree] in H. cbn [subst].
  destruct b; cbn [skel]; rewrite IH by exact H; reflexivity.
Qed.

Lemma set_tval_shape (t : tree) v : shape (set_tval t v) = shape t.
Proof. destruct t; reflexivity. Qed.

Theorem subst_set_tval_shape (T : tree) (pa : path) v :
  shape (subst T pa (set_tval (subtree T pa) v)) = shape T.
Proof. apply subst_shape. apply set_tval_shape. Qed.

Lemma skel_shape (t t' : tree) : skel t = skel t' -> shape t = shape t'.
Proof.
  revert t'. induction t as [|i p v l IHl r IHr]; intros [|i' p' v' l' r'] H; try discriminate; [reflexivity|].
  cbn [skel] in H. inversion H; subst. cbn [shape]. rewrite (IHl l'), (IHr r') by assumption. reflexivity.
Qed.

(* ------------------------------------------------------------------------------------------ *)
(** ** the writes of a mutable view *)

Notation nentries := (Slots.nentries pfx V).

Lemma length_entries_id (t : tree) : length (entries t) = length (entries_id t).
Proof. rewrite <- entries_id_entries. apply map_length. Qed.

Lemma entries_of_ctx (T T' : tree) pre post o o' :
  entries_id T = pre ++ o ++ post -> entries_id T' = pre ++ o' ++ post ->
  entries T = map (drop_id pfx V) pre ++ map (drop_id pfx V) o ++ map (drop_id pfx V) post /\
  entries T' = map (drop_id pfx V) pre ++ map (drop_id pfx V) o' ++ map (drop_id pfx V) post.
Proof.
  intros E E'. rewrite <- !entries_id_entries, E, E', !map_app. split; reflexivity.
Qed.

(** a virtual view has no value to write *)
Theorem vm_write_virtual (T : tree) (m : vmut pfx) p x g :
  mvirt pfx m = Some p ->
  vm_remove T m = (T, None) /\ vm_set T m x = (T, inr x) /\ vm_value_mut T m g = (T, None).
Proof. intros H. unfold vm_remove, vm_set, vm_value_mut. rewrite H. auto. Qed.

(** the general shape of the three writes *)
Lemma vm_write_node (T : tree) (m : vmut pfx) i p v l r v' :
  vm_tree T m = Node i p v l r ->
  let T' := subst T (mpath pfx m) (set_tval (vm_tree T m) v') in
  ids T' = ids T /\ shape T' = shape T /\
  subtree T' (mpath pfx m) = Node i p v' l r /\
  (exists pre post, entries_id T = pre ++ own_id i p v ++ post /\
                    entries_id T' = pre ++ own_id i p v' ++ post) /\
  (nentries T' = nentries T - Z.of_nat (length (own_id i p v)) + Z.of_nat (length (own_id i p v')))%Z.
Proof.
  intros Hs T'. subst T'. unfold vm_tree in *.
  split; [apply subst_ids|]. split; [apply subst_set_tval_shape|].
  split; [rewrite subtree_subst_node by (rewrite Hs; discriminate); rewrite Hs; reflexivity|].
  destruct (subst_set_tval_entries_id T (mpath pfx m) i p v l r v' Hs) as [pre [post [E1 E2]]].
  split; [exists pre, post; split; assumption|].
  unfold Slots.nentries. rewrite !length_entries_id, E1, E2, !app_length. lia.
Qed.

(** [TrieViewMut::remove] *)
Theorem vm_remove_node (T : tree) (m : vmut pfx) i p v l r :
  mvirt pfx m = None -> vm_tree T m = Node i p v l r ->
  let T' := fst (vm_remove T m) in
  snd (vm_remove T m) = v /\
  ids T' = ids T /\ shape T' = shape T /\ vm_tree T' m = Node i p None l r /\
  (exists pre post, entries_id T = pre ++ own_id i p v ++ post /\ entries_id T' = pre ++ post) /\
  nentries T' = (nentries T - (if is_some v then 1 else 0))%Z.
Proof.
  intros Hv Hs. unfold vm_remove. rewrite Hv. cbn [fst snd].
  destruct (vm_write_node T m i p v l r None Hs) as [A [B [C [D E]]]].
  split; [rewrite Hs; reflexivity|]. split; [exact A|]. split; [exact B|]. split; [exact C|].
  split; [exact D|]. rewrite E. destruct v; cbn; lia.
Qed.

(** [TrieViewMut::set] *)
Theorem vm_set_node (T : tree) (m : vmut pfx) x i p v l r :
  mvirt pfx m = None -> vm_tree T m = Node i p v l r ->
  let T' := fst (vm_set T m x) in
  snd (vm_set T m x) = inl v /\
  ids T' = ids T /\ shape T' = shape T /\ vm_tree T' m = Node i p (Some x) l r /\
  (exists pre post, entries_id T = pre ++ own_id i p v ++ post /\
                    entries_id T' = pre ++ [(i, p, x)] ++ post) /\
  nentries T' = (nentries T + (if is_some v then 0 else 1))%Z.
Proof.
  intros Hv Hs. unfold vm_set. rewrite Hv. cbn [fst snd].
  destruct (vm_write_node T m i p v l r (Some x) Hs) as [A [B [C [D E]]]].
  split; [rewrite Hs; reflexivity|]. split; [exact A|]. split; [exact B|]. split; [exact C|].
  split; [exact D|]. rewrite E. destruct v; cbn; lia.
Qed.

(** [value_mut] + a write through the reference: the has-value flag is kept, hence the whole
    skeleton and the number of entries *)
Theorem vm_value_mut_node (T : tree) (m : vmut pfx) g i p v l r :
  mvirt pfx m = None -> vm_tree T m = Node i p v l r ->
  let T' := fst (vm_value_mut T m g) in
  snd (vm_value_mut T m g) = match v with Some x => Some (p, x) | None => None end /\
  ids T' = ids T /\ skel T' = skel T /\ vm_tree T' m = Node i p (option_map g v) l r /\
  (exists pre post, entries_id T = pre ++ own_id i p v ++ post /\
                    entries_id T' = pre ++ own_id i p (option_map g v) ++ post) /\
  nentries T' = nentries T.
Proof.
  intros Hv Hs. unfold vm_value_mut. rewrite Hv. cbn [fst snd].
  destruct (vm_write_node T m i p v l r (option_map g v) Hs) as [A [B [C [D E]]]].
  rewrite Hs in *. cbn [tval pv].
  split; [reflexivity|]. split; [exact A|].
  split; [apply subst_skel; unfold vm_tree in Hs; rewrite Hs; destruct v; reflexivity|].
  split; [exact C|]. split; [exact D|]. rewrite E. destruct v; cbn; lia.
Qed.

(** a dangling real view (excluded for views obtained from the API) writes nothing *)
Theorem vm_write_leaf (T : tree) (m : vmut pfx) :
  vm_tree T m = Leaf ->
  fst (vm_remove T m) = T /\ (forall x, fst (vm_set T m x) = T) /\
  (forall g, fst (vm_value_mut T m g) = T).
Proof.
  unfold vm_remove, vm_set, vm_value_mut, vm_tree. intros H.
  destruct (mvirt pfx m); cbn [fst]; [auto|]. rewrite H. cbn [set_tval].
  assert (E : subst T (mpath pfx m) Leaf = T) by (rewrite <- H; apply subst_same).
  auto.
Qed.

(** the model of the counter drift of [TrieViewMut::remove]/[set]: the slots are untouched and the
    number of stored entries moves by -1 / +1 / 0 while the allocator (cached [len()]) is out of
    reach *)
Corollary vm_remove_count (T : tree) (m : vmut pfx) :
  vm_tree T m <> Leaf ->
  ids (fst (vm_remove T m)) = ids T /\
  nentries (fst (vm_remove T m)) = (nentries T - (if is_some (vm_value T m) then 1 else 0))%Z.
Proof.
  intros Hn. unfold vm_value. destruct (mvirt pfx m) as [q|] eqn:Hv.
  - unfold vm_remove. rewrite Hv. cbn. split; [reflexivity | lia].
  - destruct (vm_tree T m) as [|i p v l r] eqn:Hs; [contradiction|].
    destruct (vm_remove_node T m i p v l r Hv Hs) as [_ [A [_ [_ [_ E]]]]]. split; [exact A | exact E].
Qed.

Corollary vm_set_count (T : tree) (m : vmut pfx) x :
  vm_tree T m <> Leaf -> mvirt pfx m = None ->
  ids (fst (vm_set T m x)) = ids T /\
  nentries (fst (vm_set T m x)) = (nentries T + (if is_some (vm_value T m) then 0 else 1))%Z.
Proof.
  intros Hn Hv. unfold vm_value. rewrite Hv.
  destruct (vm_tree T m) as [|i p v l r] eqn:Hs; [contradiction|].
  destruct (vm_set_node T m x i p v l r Hv Hs) as [_ [A [_ [_ [_ E]]]]]. split; [exact A | exact E].
Qed.

Corollary vm_value_mut_count (T : tree) (m : vmut pfx) g :
  ids (fst (vm_value_mut T m g)) = ids T /\
  nentries (fst (vm_value_mut T m g)) = nentries T.
Proof.
  destruct (mvirt pfx m) as [q|] eqn:Hv.
  - unfold vm_value_mut. rewrite Hv. cbn. auto.
  - destruct (vm_tree T m) as [|i p v l r] eqn:Hs.
    + destruct (vm_write_leaf T m Hs) as [_ [_ E]]. rewrite E. auto.
    + destruct (vm_value_mut_node T m g i p v l r Hv Hs) as [_ [A [_ [_ [_ E]]]]]. auto.
Qed.

(** a write whose slots all lie in the subtree at [pa] is a write to that subtree: nothing
    outside the view is touched *)
Theorem write_ids_local (pa : path) : forall (T : tree) ws,
  NoDup (ids T) -> (forall i, In i (map fst ws) -> In i (ids (subtree T pa))) ->
  write_ids T ws = subst T pa (write_ids (subtree T pa) ws).
Proof.
  induction pa as [|b pa IH]; intros T ws Hnd Hws.
  - rewrite subtree_nil, subst_nil. reflexivity.
  - destruct T as [|i p v l r]; [reflexivity|].
    cbn [subtree] in Hws. cbn [Slots.ids] in Hnd.
    inversion Hnd as [|i' l' Hi Hlr]; subst. destruct (nodup_app_inv _ _ Hlr) as [Hl [Hr Hd]].
    assert (Hsub : forall j, In j (map fst ws) -> In j (ids (if b then r else l))).
    { intros j Hj. apply Hws in Hj. apply (subtree_ids_incl pa _ j Hj). }
    assert (Hi' : assoc_id ws i = None).
    { apply assoc_id_none. intros Hin. apply Hsub in Hin. apply Hi. apply in_app_iff.
      destruct b; auto. }
    cbn [write_ids subst subtree]. rewrite Hi'.
    assert (Hv : match v with Some _ => v | None => v end = v) by (destruct v; reflexivity).
    rewrite Hv. destruct b.
    + rewrite (write_ids_foreign l ws), <- (IH r ws Hr Hws); [reflexivity|].
      intros j Hj Hin. apply (Hd j Hj). apply Hsub. exact Hin.
    + rewrite (write_ids_foreign r ws), <- (IH l ws Hl Hws); [reflexivity|].
      intros j Hj Hin. apply (Hd j); [apply Hsub; exact Hin | exact Hj].
Qed.

(** a node is reached by one path only *)
Theorem subtree_path_unique (pa : path) : forall (T : tree) (pa' : path),
  NoDup (ids T) -> subtree T pa <> Leaf -> subtree T pa = subtree T pa' -> pa = pa'.
Proof.
  assert (Hroot : forall (t : tree) i p v l r, t = Node i p v l r -> In i (ids t)).
  { intros t i p v l r ->. left. reflexivity. }
  induction pa as [|b pa IH]; intros T pa' Hnd Hn E.
  - destruct pa' as [|b' pa']; [reflexivity|]. exfalso. rewrite subtree_nil in *.
    destruct T as [|i p v l r]; [apply Hn; reflexivity|]. cbn [subtree] in E.
    cbn [Slots.ids] in Hnd. inversion Hnd as [|i' l' Hi Hlr]; subst. apply Hi.
    symmetry in E. apply Hroot in E. apply (subtree_ids_incl pa') in E. apply in_app_iff.
    destruct b'; auto.
  - destruct T as [|i p v l r]; [exfalso; apply Hn; reflexivity|].
    cbn [Slots.ids] in Hnd. inversion Hnd as [|i' l' Hi Hlr]; subst.
    destruct (nodup_app_inv _ _ Hlr) as [Hl [Hr Hd]].
    destruct pa' as [|b' pa'].
    + exfalso. rewrite subtree_nil in E. cbn [subtree] in E. apply Hi.
      apply Hroot in E. apply (subtree_ids_incl pa) in E. apply in_app_iff. destruct b; auto.
    + cbn [subtree] in Hn, E.
      destruct (subtree (if b then r else l) pa) as [|j pj vj lj rj] eqn:Es; [exfalso; apply Hn; reflexivity|].
      pose proof (Hroot _ _ _ _ _ _ Es) as H1. apply (subtree_ids_incl pa) in H1.
      symmetry in E. pose proof (Hroot _ _ _ _ _ _ E) as H2. apply (subtree_ids_incl pa') in H2.
      destruct b, b'.
      * f_equal. apply (IH r pa' Hr); [rewrite Es; discriminate | rewrite Es, E; reflexivity].
      * exfalso. exact (Hd j H2 H1).
      * exfalso. exact (Hd j H1 H2).
      * f_equal. apply (IH l pa' Hl); [rewrite Es; discriminate | rewrite Es, E; reflexivity].
Qed.

End MA.

(* ========================================================================================== *)
(** * PART B: the mutable twins compute the same locations *)
Section MB.
Variables (pfx V : Type).
Variables (peq contains : pfx -> pfx -> bool) (is_bit_set : pfx -> N -> bool)
          (plen : pfx -> N) (lcp : pfx -> pfx -> pfx) (pzero : pfx)
          (mcmp : pfx -> pfx -> comparison).
Variable bits : pfx -> list bool.
Variable ok : pfx -> Prop.
Hypothesis LAWS : prefix_laws pfx peq contains is_bit_set plen lcp pzero mcmp bits ok.

Notation tree := (Trie.tree pfx V).
Notation view := (Views.view pfx V).
Notation vmut := (Views.vmut pfx).
Notation mkvmut := (Views.mkvmut pfx).
Notation mpath := (Views.mpath pfx).
Notation mvirt := (Views.mvirt pfx).
Notation ids := (Slots.ids pfx V).
Notation to_right := (to_right pfx is_bit_set plen).
Notation tpfx := (tpfx pfx V pzero).
Notation find_walk := (find_walk pfx V peq contains is_bit_set plen).
Notation v_find := (v_find pfx V peq contains is_bit_set plen).
Notation find_exact_walk := (find_exact_walk pfx V peq contains is_bit_set plen).
Notation v_find_exact := (v_find_exact pfx V peq contains is_bit_set plen).
Notation find_lpm_walk := (find_lpm_walk pfx V peq contains is_bit_set plen).
Notation v_find_lpm := (v_find_lpm pfx V peq contains is_bit_set plen).
Notation v_left := (v_left pfx V is_bit_set plen pzero).
Notation v_right := (v_right pfx V is_bit_set plen pzero).
Notation v_prefix := (v_prefix pfx V pzero).
Notation find_walk_m := (find_walk_m pfx V peq contains is_bit_set plen).
Notation vm_find := (vm_find pfx V peq contains is_bit_set plen).
Notation find_exact_walk_m := (find_exact_walk_m pfx V peq contains is_bit_set plen).
Notation vm_find_exact := (vm_find_exact pfx V peq contains is_bit_set plen).
Notation find_lpm_walk_m := (find_lpm_walk_m pfx V peq contains is_bit_set plen).
Notation vm_find_lpm := (vm_find_lpm pfx V peq contains is_bit_set plen).
Notation vm_has_left := (vm_has_left pfx V is_bit_set plen pzero).
Notation vm_has_right := (vm_has_right pfx V is_bit_set plen pzero).
Notation vm_left := (vm_left pfx V is_bit_set plen pzero).
Notation vm_right := (vm_right pfx V is_bit_set plen pzero).
Notation vm_split := (vm_split pfx V is_bit_set plen pzero).
Notation vm_prefix := (vm_prefix pfx V pzero).
Notation children_start := (children_start pfx V peq contains is_bit_set plen).
Notation children := (Trie.children pfx V peq contains is_bit_set plen).
Notation children_mut := (Trie.children_mut pfx V peq contains is_bit_set plen).
Notation into_children := (Trie.into_children pfx V peq contains is_bit_set plen).
Notation view_wf := (ViewsThm.view_wf pfx V pzero bits ok).
Notation v_entries := (ViewsThm.v_entries pfx V).

(* ------------------------------------------------------------------------------------------ *)
(** ** 7. the loops *)

(** the read-only view designated by a result of the mutable [find] loop *)
Definition loc_view (t : tree) (q : pfx) (r : path * bool) : view :=
  let '(pa, vi) := r in if vi then VVirt q (subtree t pa) else VNode (subtree t pa).

Theorem find_walk_m_sim (t : tree) : forall q,
  find_walk t q = option_map (loc_view t q) (find_walk_m t q).
Proof.
  induction t as [|i0 p0 v0 l IHl r IHr]; intros q; [reflexivity|].
  cbn [Views.find_walk Views.find_walk_m].
  destruct (peq p0 q); [reflexivity|].
  destruct (to_right p0 q).
  - destruct r as [|ci cp cv cl cr]; [reflexivity|]. destruct (contains cp q).
    + rewrite IHr. destruct (find_walk_m (Node ci cp cv cl cr) q) as [[pa vi]|]; reflexivity.
    + destruct (contains q cp); reflexivity.
  - destruct l as [|ci cp cv cl cr]; [reflexivity|]. destruct (contains cp q).
    + rewrite IHl. destruct (find_walk_m (Node ci cp cv cl cr) q) as [[pa vi]|]; reflexivity.
    + destruct (contains q cp); reflexivity.
Qed.

Corollary find_walk_m_some (t : tree) q pa (vi : bool) :
  find_walk_m t q = Some (pa, vi) ->
  find_walk t q = Some (if vi then VVirt q (subtree t pa) else VNode (subtree t pa)).
Proof. intros H. rewrite find_walk_m_sim, H. reflexivity. Qed.

Corollary find_walk_m_none (t : tree) q : find_walk_m t q = None <-> find_walk t q = None.
Proof.
  rewrite find_walk_m_sim. destruct (find_walk_m t q) as [[pa vi]|]; cbn; split; intros H; congruence.
Qed.

(** the converse holds up to the choice of the path; two different paths may lead to equal
    subtrees when slots are not distinct, hence the [_partial] *)
Corollary find_walk_m_conv_partial (t : tree) q pa (vi : bool) :
  find_walk t q = Some (if vi then VVirt q (subtree t pa) else VNode (subtree t pa)) ->
  exists pa', find_walk_m t q = Some (pa', vi) /\ subtree t pa' = subtree t pa.
Proof.
  rewrite find_walk_m_sim. destruct (find_walk_m t q) as [[pa' vi']|]; [|discriminate].
  cbn [option_map loc_view]. intros H. exists pa'. destruct vi, vi'; inversion H; auto.
Qed.

Lemma find_walk_m_node (t : tree) : forall q pa vi,
  find_walk_m t q = Some (pa, vi) -> subtree t pa <> Leaf.
Proof.
  induction t as [|i0 p0 v0 l IHl r IHr]; intros q pa vi H; [discriminate|].
  cbn [Views.find_walk_m] in H.
  destruct (peq p0 q); [inversion H; subst; discriminate|].
  destruct (to_right p0 q).
  - destruct r as [|ci cp cv cl cr]; [discriminate|]. destruct (contains cp q).
    + destruct (find_walk_m (Node ci cp cv cl cr) q) as [[pa' vi']|] eqn:F; [|discriminate].
      inversion H; subst. cbn [subtree]. eapply IHr. exact F.
    + destruct (contains q cp); [|discriminate]. inversion H; subst. discriminate.
  - destruct l as [|ci cp cv cl cr]; [discriminate|]. destruct (contains cp q).
    + destruct (find_walk_m (Node ci cp cv cl cr) q) as [[pa' vi']|] eqn:F; [|discriminate].
      inversion H; subst. cbn [subtree]. eapply IHl. exact F.
    + destruct (contains q cp); [|discriminate]. inversion H; subst. discriminate.
Qed.

(** with distinct slots the correspondence is exact *)
Theorem find_walk_m_iff (t : tree) q pa (vi : bool) :
  NoDup (ids t) ->
  (find_walk_m t q = Some (pa, vi) <->
   find_walk t q = Some (if vi then VVirt q (subtree t pa) else VNode (subtree t pa))).
Proof.
  intros Hnd. split; [apply find_walk_m_some|]. intros H.
  destruct (find_walk_m_conv_partial t q pa vi H) as [pa' [F E]].
  rewrite F. f_equal. f_equal.
  apply (subtree_path_unique pfx V pa' t pa Hnd); [|exact E].
  eapply find_walk_m_node. exact F.
Qed.

Theorem find_exact_walk_m_sim (t : tree) : forall q,
  find_exact_walk t q = option_map (fun pa => VNode (subtree t pa)) (find_exact_walk_m t q).
Proof.
  induction t as [|i0 p0 v0 l IHl r IHr]; intros q; [reflexivity|].
  cbn [Views.find_exact_walk Views.find_exact_walk_m].
  destruct (peq p0 q); [destruct (is_some v0); reflexivity|].
  destruct (to_right p0 q).
  - destruct r as [|ci cp cv cl cr]; [reflexivity|]. destruct (contains cp q); [|reflexivity].
    rewrite IHr. destruct (find_exact_walk_m (Node ci cp cv cl cr) q); reflexivity.
  - destruct l as [|ci cp cv cl cr]; [reflexivity|]. destruct (contains cp q); [|reflexivity].
    rewrite IHl. destruct (find_exact_walk_m (Node ci cp cv cl cr) q); reflexivity.
Qed.

Corollary find_exact_walk_m_some (t : tree) q pa :
  find_exact_walk_m t q = Some pa -> find_exact_walk t q = Some (VNode (subtree t pa)).
Proof. intros H. rewrite find_exact_walk_m_sim, H. reflexivity. Qed.

Corollary find_exact_walk_m_none (t : tree) q :
  find_exact_walk_m t q = None <-> find_exact_walk t q = None.
Proof.
  rewrite find_exact_walk_m_sim. destruct (find_exact_walk_m t q); cbn; split; intros H; congruence.
Qed.

Corollary find_exact_walk_m_conv_partial (t : tree) q pa :
  find_exact_walk t q = Some (VNode (subtree t pa)) ->
  exists pa', find_exact_walk_m t q = Some pa' /\ subtree t pa' = subtree t pa.
Proof.
  rewrite find_exact_walk_m_sim. destruct (find_exact_walk_m t q) as [pa'|]; [|discriminate].
  cbn [option_map]. intros H. exists pa'. inversion H; auto.
Qed.

Lemma find_exact_walk_m_node (t : tree) : forall q pa,
  find_exact_walk_m t q = Some pa -> subtree t pa <> Leaf.
Proof.
  induction t as [|i0 p0 v0 l IHl r IHr]; intros q pa H; [discriminate|].
  cbn [Views.find_exact_walk_m] in H.
  destruct (peq p0 q); [destruct (is_some v0); inversion H; subst; discriminate|].
  destruct (to_right p0 q).
  - destruct r as [|ci cp cv cl cr]; [discriminate|]. destruct (contains cp q); [|discriminate].
    destruct (find_exact_walk_m (Node ci cp cv cl cr) q) as [pa'|] eqn:F; [|discriminate].
    inversion H; subst. cbn [subtree]. eapply IHr. exact F.
  - destruct l as [|ci cp cv cl cr]; [discriminate|]. destruct (contains cp q); [|discriminate].
    destruct (find_exact_walk_m (Node ci cp cv cl cr) q) as [pa'|] eqn:F; [|discriminate].
    inversion H; subst. cbn [subtree]. eapply IHl. exact F.
Qed.

Theorem find_exact_walk_m_iff (t : tree) q pa :
  NoDup (ids t) ->
  (find_exact_walk_m t q = Some pa <-> find_exact_walk t q = Some (VNode (subtree t pa))).
Proof.
  intros Hnd. split; [apply find_exact_walk_m_some|]. intros H.
  destruct (find_exact_walk_m_conv_partial t q pa H) as [pa' [F E]].
  rewrite F. f_equal.
  apply (subtree_path_unique pfx V pa' t pa Hnd); [|exact E].
  eapply find_exact_walk_m_node. exact F.
Qed.

(** [find_lpm]: the mutable loop accumulates the reversed path [cur] from the root [t0] of the
    descent and remembers the reversed path of the best node *)
Definition lpm_loc (t0 : tree) (rp : path) : view := VNode (subtree t0 (rev rp)).

Theorem find_lpm_walk_m_sim (t0 t : tree) : forall q cur best,
  subtree t0 (rev cur) = t ->
  find_lpm_walk t q (option_map (lpm_loc t0) best)
  = option_map (lpm_loc t0) (find_lpm_walk_m t q cur best).
Proof.
  induction t as [|i0 p0 v0 l IHl r IHr]; intros q cur best Hc; [reflexivity|].
  cbn [Views.find_lpm_walk Views.find_lpm_walk_m].
  assert (Hb : (if is_some v0 then Some (VNode (Node i0 p0 v0 l r)) else option_map (lpm_loc t0) best)
               = option_map (lpm_loc t0) (if is_some v0 then Some cur else best)).
  { destruct (is_some v0); [|reflexivity]. cbn [option_map]. unfold lpm_loc. rewrite Hc. reflexivity. }
  rewrite Hb. clear Hb.
  destruct (peq p0 q); [reflexivity|].
  destruct (to_right p0 q).
  - destruct r as [|ci cp cv cl cr]; [reflexivity|]. destruct (contains cp q); [|reflexivity].
    apply IHr. cbn [rev]. rewrite (subtree_app pfx V), Hc. reflexivity.
  - destruct l as [|ci cp cv cl cr]; [reflexivity|]. destruct (contains cp q); [|reflexivity].
    apply IHl. cbn [rev]. rewrite (subtree_app pfx V), Hc. reflexivity.
Qed.

Corollary find_lpm_walk_m_root (t : tree) q :
  find_lpm_walk t q None
  = option_map (fun rp => VNode (subtree t (rev rp))) (find_lpm_walk_m t q [] None).
Proof.
  apply (find_lpm_walk_m_sim t t q [] None). apply (subtree_nil pfx V).
Qed.

(* ------------------------------------------------------------------------------------------ *)
(** ** 8. the simulation theorems *)

Lemma v_tree_vm_view (T : tree) (m : vmut) : v_tree (vm_view T m) = vm_tree T m.
Proof. unfold vm_view. destruct (mvirt m); reflexivity. Qed.

Theorem vm_find_sim (T : tree) (m : vmut) q :
  option_map (vm_view T) (vm_find T m q) = v_find (vm_view T m) q.
Proof.
  unfold Views.vm_find, Views.v_find. rewrite v_tree_vm_view.
  destruct (vm_tree T m) as [|i p v l r] eqn:E; [reflexivity|].
  destruct (contains q p && negb (peq p q)).
  - cbn [option_map]. unfold vm_view, vm_tree in *. cbn [Views.mvirt Views.mpath]. rewrite E. reflexivity.
  - rewrite find_walk_m_sim.
    destruct (find_walk_m (Node i p v l r) q) as [[pa vi]|]; [|reflexivity].
    cbn [option_map loc_view]. unfold vm_view, vm_tree in *. cbn [Views.mvirt Views.mpath].
    rewrite (subtree_app pfx V), E. destruct vi; reflexivity.
Qed.

Theorem vm_find_exact_sim (T : tree) (m : vmut) q :
  option_map (vm_view T) (vm_find_exact T m q) = v_find_exact (vm_view T m) q.
Proof.
  unfold Views.vm_find_exact, Views.v_find_exact. rewrite v_tree_vm_view, find_exact_walk_m_sim.
  destruct (find_exact_walk_m (vm_tree T m) q) as [pa|]; [|reflexivity].
  cbn [option_map]. unfold vm_view, vm_tree. cbn [Views.mvirt Views.mpath].
  rewrite (subtree_app pfx V). reflexivity.
Qed.

Theorem vm_find_lpm_sim (T : tree) (m : vmut) q :
  option_map (vm_view T) (vm_find_lpm T m q) = v_find_lpm (vm_view T m) q.
Proof.
  unfold Views.vm_find_lpm, Views.v_find_lpm. rewrite v_tree_vm_view.
  destruct (vm_tree T m) as [|i p v l r] eqn:E; [reflexivity|].
  destruct (contains p q); [|reflexivity].
  rewrite find_lpm_walk_m_root.
  destruct (find_lpm_walk_m (Node i p v l r) q [] None) as [rpa|]; [|reflexivity].
  cbn [option_map]. unfold vm_view, vm_tree in *. cbn [Views.mvirt Views.mpath].
  rewrite (subtree_app pfx V), E. reflexivity.
Qed.

Lemma subtree_side (t : tree) (b : bool) : subtree t [b] = if b then tright t else tleft t.
Proof. destruct t as [|i p v l r]; [destruct b; reflexivity|]. cbn [subtree tleft tright]. destruct b; apply (subtree_nil pfx V). Qed.

Theorem vm_left_sim (T : tree) (m : vmut) :
  option_map (vm_view T) (vm_left T m) = v_left (vm_view T m).
Proof.
  unfold Views.vm_left, vm_view. destruct (mvirt m) as [p|]; cbn [Views.v_left].
  - destruct (negb (to_right p (tpfx (vm_tree T m)))); reflexivity.
  - destruct (tleft (vm_tree T m)) as [|i p v l r] eqn:E; cbn [is_node]; [reflexivity|].
    cbn [option_map Views.mvirt]. unfold vm_tree in *. cbn [Views.mpath].
    rewrite (subtree_app pfx V), subtree_side, E. reflexivity.
Qed.

Theorem vm_right_sim (T : tree) (m : vmut) :
  option_map (vm_view T) (vm_right T m) = v_right (vm_view T m).
Proof.
  unfold Views.vm_right, vm_view. destruct (mvirt m) as [p|]; cbn [Views.v_right].
  - destruct (to_right p (tpfx (vm_tree T m))); reflexivity.
  - destruct (tright (vm_tree T m)) as [|i p v l r] eqn:E; cbn [is_node]; [reflexivity|].
    cbn [option_map Views.mvirt]. unfold vm_tree in *. cbn [Views.mpath].
    rewrite (subtree_app pfx V), subtree_side, E. reflexivity.
Qed.

Theorem vm_split_eq (T : tree) (m : vmut) : vm_split T m = (vm_left T m, vm_right T m).
Proof.
  unfold Views.vm_split, Views.vm_left, Views.vm_right. destruct (mvirt m) as [p|]; [|reflexivity].
  destruct (to_right p (tpfx (vm_tree T m))); reflexivity.
Qed.

Corollary vm_split_sim (T : tree) (m : vmut) :
  (option_map (vm_view T) (fst (vm_split T m)), option_map (vm_view T) (snd (vm_split T m)))
  = (v_left (vm_view T m), v_right (vm_view T m)).
Proof. rewrite vm_split_eq. cbn [fst snd]. rewrite vm_left_sim, vm_right_sim. reflexivity. Qed.

Theorem vm_has_left_spec (T : tree) (m : vmut) : vm_has_left T m = true <-> vm_left T m <> None.
Proof.
  unfold Views.vm_has_left, Views.vm_left. destruct (mvirt m) as [p|].
  - destruct (negb (to_right p (tpfx (vm_tree T m)))); split; intros H; congruence.
  - destruct (is_node (tleft (vm_tree T m))); split; intros H; congruence.
Qed.

Theorem vm_has_right_spec (T : tree) (m : vmut) : vm_has_right T m = true <-> vm_right T m <> None.
Proof.
  unfold Views.vm_has_right, Views.vm_right. destruct (mvirt m) as [p|].
  - destruct (to_right p (tpfx (vm_tree T m))); split; intros H; congruence.
  - destruct (is_node (tright (vm_tree T m))); split; intros H; congruence.
Qed.

Theorem vm_prefix_sim (T : tree) (m : vmut) : vm_prefix T m = v_prefix (vm_view T m).
Proof. unfold Views.vm_prefix, vm_view. destruct (mvirt m); reflexivity. Qed.

Theorem vm_value_sim (T : tree) (m : vmut) : vm_value T m = v_value (vm_view T m).
Proof. unfold vm_value, vm_view. destruct (mvirt m); reflexivity. Qed.

Theorem vm_iter_mut_spec (T : tree) (m : vmut) : vm_iter_mut T m = entries_id (vm_tree T m).
Proof. unfold vm_iter_mut. apply iter_mut_items_spec. Qed.

Theorem v_iter_vm_view (T : tree) (m : vmut) : v_iter (vm_view T m) = entries_id (vm_tree T m).
Proof. unfold v_iter. rewrite v_tree_vm_view. apply iter_items_spec. Qed.

(** the mutable iteration of a view yields the same items in the same order as the read-only one *)
Theorem vm_iter_mut_sim (T : tree) (m : vmut) : vm_iter_mut T m = v_iter (vm_view T m).
Proof. rewrite vm_iter_mut_spec, v_iter_vm_view. reflexivity. Qed.

(** the references yielded by the mutable iteration of a view are distinct slots of the view's
    subtree, and items of the whole map *)
Corollary vm_iter_mut_refs (T : tree) (m : vmut) :
  NoDup (ids T) ->
  NoDup (map (slot3 pfx V) (vm_iter_mut T m)) /\ incl (vm_iter_mut T m) (entries_id T).
Proof.
  intros Hnd. rewrite vm_iter_mut_spec. unfold vm_tree. split.
  - apply entry_slots_nodup. apply subtree_nodup. exact Hnd.
  - apply subtree_entries_id_incl.
Qed.

(** the two halves of a split hand out disjoint references *)
Corollary vm_split_refs_disjoint (T : tree) (m ml mr : vmut) :
  NoDup (ids T) -> mvirt m = None -> vm_split T m = (Some ml, Some mr) ->
  forall i, In i (map (slot3 pfx V) (vm_iter_mut T ml)) -> ~ In i (map (slot3 pfx V) (vm_iter_mut T mr)).
Proof.
  intros Hnd Hv Hs i. rewrite !vm_iter_mut_spec. unfold Views.vm_split in Hs. rewrite Hv in Hs.
  destruct (is_node (tleft (vm_tree T m))); [|discriminate].
  destruct (is_node (tright (vm_tree T m))); [|discriminate].
  inversion Hs; subst. unfold vm_tree. cbn [Views.mpath]. intros H1 H2.
  apply (split_slots_disjoint pfx V T (mpath m) Hnd i); apply slots_in_ids; assumption.
Qed.

(* ------------------------------------------------------------------------------------------ *)
(** ** the specifications of the read-only views, transferred to the mutable twins
    (these use the prefix laws through [ViewsThm]) *)

Definition vmut_wf (T : tree) (m : vmut) : Prop := view_wf (vm_view T m).

Theorem vm_find_spec (T : tree) (m : vmut) q :
  vmut_wf T m -> ok q ->
  match vm_find T m q with
  | Some m' =>
    vmut_wf T m' /\ bits (vm_prefix T m') = bits q /\
    forall e, In e (v_entries (vm_view T m')) <->
              In e (v_entries (vm_view T m)) /\ prefix_of (bits q) (TrieWf.key pfx V bits e)
  | None => forall e, In e (v_entries (vm_view T m)) -> ~ prefix_of (bits q) (TrieWf.key pfx V bits e)
  end.
Proof.
  intros Hwf Hq.
  pose proof (v_find_spec pfx V peq contains is_bit_set plen lcp pzero mcmp bits ok LAWS (vm_view T m) q Hwf Hq) as H.
  rewrite <- vm_find_sim in H. destruct (vm_find T m q) as [m'|]; cbn [option_map] in H; [|exact H].
  rewrite vm_prefix_sim. exact H.
Qed.

Theorem vm_find_exact_spec (T : tree) (m : vmut) q :
  vmut_wf T m -> ok q ->
  match vm_find_exact T m q with
  | Some m' => vmut_wf T m' /\ mvirt m' = None /\ bits (vm_prefix T m') = bits q /\
               exists x, vm_value T m' = Some x /\ In (vm_prefix T m', x) (v_entries (vm_view T m))
  | None => forall e, In e (v_entries (vm_view T m)) -> TrieWf.key pfx V bits e <> bits q
  end.
Proof.
  intros Hwf Hq.
  pose proof (v_find_exact_spec pfx V peq contains is_bit_set plen lcp pzero mcmp bits ok LAWS (vm_view T m) q Hwf Hq) as H.
  rewrite <- vm_find_exact_sim in H.
  unfold Views.vm_find_exact in *. destruct (find_exact_walk_m (vm_tree T m) q) as [pa|]; cbn [option_map] in H; [|exact H].
  rewrite vm_prefix_sim, vm_value_sim. destruct H as [A [_ [B C]]].
  split; [exact A|]. split; [reflexivity|]. split; [exact B | exact C].
Qed.

Theorem vm_find_lpm_spec (T : tree) (m : vmut) q :
  vmut_wf T m -> ok q ->
  match vm_find_lpm T m q with
  | Some m' => exists e, mvirt m' = None /\ v_prefix_value (vm_view T m') = Some e /\
                         is_lpm pfx V bits (v_entries (vm_view T m)) q e
  | None => no_cover pfx V bits (v_entries (vm_view T m)) q
  end.
Proof.
  intros Hwf Hq.
  pose proof (v_find_lpm_spec pfx V peq contains is_bit_set plen lcp pzero mcmp bits ok LAWS (vm_view T m) q Hwf Hq) as H.
  rewrite <- vm_find_lpm_sim in H.
  destruct (vm_find_lpm T m q) as [m'|] eqn:F; cbn [option_map] in H; [|exact H].
  destruct H as [e [A [B C]]]. exists e. split; [|split; [exact B | exact C]].
  unfold vm_view in A. destruct (mvirt m'); [discriminate | reflexivity].
Qed.

Theorem vm_side_spec (T : tree) (m : vmut) (s : bool) :
  vmut_wf T m ->
  match (if s then vm_right T m else vm_left T m) with
  | Some m' =>
    vmut_wf T m' /\ mvirt m' = None /\
    forall e, In e (v_entries (vm_view T m')) <->
              In e (v_entries (vm_view T m)) /\
              prefix_of (bits (vm_prefix T m) ++ [s]) (TrieWf.key pfx V bits e)
  | None => forall e, In e (v_entries (vm_view T m)) ->
                      ~ prefix_of (bits (vm_prefix T m) ++ [s]) (TrieWf.key pfx V bits e)
  end.
Proof.
  intros Hwf.
  pose proof (v_side_spec pfx V peq contains is_bit_set plen lcp pzero mcmp bits ok LAWS (vm_view T m) s Hwf) as H.
  unfold side_prefix in H. rewrite <- vm_prefix_sim in H.
  assert (E : (if s then v_right (vm_view T m) else v_left (vm_view T m))
              = option_map (vm_view T) (if s then vm_right T m else vm_left T m)).
  { destruct s; [rewrite vm_right_sim | rewrite vm_left_sim]; reflexivity. }
  rewrite E in H. clear E.
  destruct (if s then vm_right T m else vm_left T m) as [m'|]; cbn [option_map] in H; [|exact H].
  destruct H as [A [B C]]. split; [exact A|]. split; [|exact C].
  unfold vm_view in B. destruct (mvirt m'); [discriminate | reflexivity].
Qed.

(* ------------------------------------------------------------------------------------------ *)
(** ** 9. the map-level mutable traversals *)

Theorem iter_mut_items_eq (t : tree) : iter_mut_items pfx V t = iter_items pfx V t.
Proof. rewrite iter_mut_items_spec, iter_items_spec. reflexivity. Qed.

Theorem into_iter_items_eq (t : tree) : into_iter_items pfx V t = iter_items pfx V t.
Proof. rewrite into_iter_items_spec, iter_items_spec. reflexivity. Qed.

Lemma children_start_nodes (t : tree) : forall q,
  Forall (fun c => is_node c = true) (children_start t q).
Proof.
  induction t as [|i0 p0 v0 l IHl r IHr]; intros q; [constructor|].
  cbn [Trie.children_start].
  destruct (peq p0 q); [repeat constructor|].
  destruct (to_right p0 q).
  - destruct r as [|ci cp cv cl cr]; [constructor|]. destruct (contains cp q); [apply IHr|].
    destruct (contains q cp); repeat constructor.
  - destruct l as [|ci cp cv cl cr]; [constructor|]. destruct (contains cp q); [apply IHl|].
    destruct (contains q cp); repeat constructor.
Qed.

Theorem children_spec (t : tree) q : children t q = flat_map entries_id (children_start t q).
Proof. unfold Trie.children. rewrite iter_run_spec by apply children_start_nodes. reflexivity. Qed.

Theorem children_mut_eq (t : tree) q : children_mut t q = children t q.
Proof.
  unfold Trie.children_mut, Trie.children, iter_run.
  rewrite (run_ext (iter_mut_expand pfx V) (iter_expand pfx V) (iter_mut_expand_eq pfx V)). reflexivity.
Qed.

Theorem into_children_eq (t : tree) q : into_children t q = children t q.
Proof.
  unfold Trie.into_children, Trie.children, iter_run.
  rewrite (run_ext (into_iter_expand pfx V) (iter_expand pfx V) (into_iter_expand_eq pfx V)). reflexivity.
Qed.

(** the children of [q] are the items of the subtree located by [find] *)
Theorem children_find (t : tree) q :
  children t q = match find_walk t q with Some v' => entries_id (v_tree v') | None => [] end.
Proof.
  rewrite children_spec. pose proof (find_walk_children pfx V peq contains is_bit_set plen t q) as H.
  destruct (find_walk t q) as [v'|]; rewrite H; cbn [flat_map]; [apply app_nil_r | reflexivity].
Qed.

Corollary children_mut_find (t : tree) q :
  children_mut t q
  = match find_walk_m t q with Some (pa, _) => entries_id (subtree t pa) | None => [] end.
Proof.
  rewrite children_mut_eq, children_find, find_walk_m_sim.
  destruct (find_walk_m t q) as [[pa vi]|]; [|reflexivity]. destruct vi; reflexivity.
Qed.

(** all map-level mutable traversals yield references to distinct slots, items of the map *)
Theorem children_mut_refs (t : tree) q :
  NoDup (ids t) ->
  NoDup (map (slot3 pfx V) (children_mut t q)) /\ incl (children_mut t q) (entries_id t).
Proof.
  intros Hnd. rewrite children_mut_find. destruct (find_walk_m t q) as [[pa vi]|].
  - split; [apply entry_slots_nodup; apply subtree_nodup; exact Hnd | apply subtree_entries_id_incl].
  - split; [constructor | intros e []].
Qed.

Theorem iter_mut_refs (t : tree) :
  NoDup (ids t) ->
  NoDup (map (slot3 pfx V) (iter_mut_items pfx V t)) /\ iter_mut_items pfx V t = entries_id t.
Proof.
  intros Hnd. rewrite iter_mut_items_spec. split; [apply entry_slots_nodup; exact Hnd | reflexivity].
Qed.

(* ------------------------------------------------------------------------------------------ *)
(** ** [get_mut] / [get_lpm_mut]: the reference handed out is an item of the map, and writing
    through it is the keyed update *)

Notation get_node := (Trie.get_node pfx V peq contains is_bit_set plen).
Notation modify := (Trie.modify pfx V peq contains is_bit_set plen).
Notation lpm_walk := (Trie.lpm_walk pfx V peq contains is_bit_set plen).
Notation lpmm_walk := (Trie.lpmm_walk pfx V peq contains is_bit_set plen).
Notation get_lpm := (Trie.get_lpm pfx V peq contains is_bit_set plen).
Notation get_lpm_mut := (Trie.get_lpm_mut pfx V peq contains is_bit_set plen).
Notation update_value := (Trie.update_value pfx V peq contains is_bit_set plen).

Lemma in_ids_child i p v (l r : tree) (b : bool) j :
  In j (ids (if b then r else l)) -> In j (ids (Node i p v l r)).
Proof. intros H. cbn [Slots.ids]. right. apply in_app_iff. destruct b; auto. Qed.

Lemma in_entries_id_child i p v (l r : tree) (b : bool) e :
  In e (entries_id (if b then r else l)) -> In e (entries_id (Node i p v l r)).
Proof. intros H. cbn [entries_id]. apply in_app_iff. right. apply in_app_iff. destruct b; auto. Qed.

Lemma get_node_in (t : tree) : forall q i p v,
  get_node t q = Some (i, p, v) ->
  In i (ids t) /\ forall x, v = Some x -> In (i, p, x) (entries_id t).
Proof.
  induction t as [|i0 p0 v0 l IHl r IHr]; intros q i p v H; [discriminate|].
  cbn [Trie.get_node] in H. destruct (peq p0 q).
  - inversion H; subst. split; [left; reflexivity|]. intros x ->. left. reflexivity.
  - set (b := to_right p0 q) in *.
    assert (IHc : forall q i p v, get_node (if b then r else l) q = Some (i, p, v) ->
              In i (ids (if b then r else l)) /\
              forall x, v = Some x -> In (i, p, x) (entries_id (if b then r else l)))
      by (destruct b; assumption).
    destruct (if b then r else l) as [|ci cp cv cl cr] eqn:Ec; [discriminate|].
    destruct (contains cp q); [|discriminate].
    destruct (IHc _ _ _ _ H) as [A B]. rewrite <- Ec in A, B. split.
    + eapply in_ids_child. exact A.
    + intros x Hx. eapply in_entries_id_child. apply B. exact Hx.
Qed.

(** [get_mut(q)] followed by a write of [y] through the reference = the keyed update *)
Theorem get_mut_write (t : tree) : forall q i p x y (h : pfx -> option V -> pfx * option V),
  NoDup (ids t) -> get_node t q = Some (i, p, Some x) -> h p (Some x) = (p, Some y) ->
  write_ids t [(i, y)] = modify t q h.
Proof.
  induction t as [|i0 p0 v0 l IHl r IHr]; intros q i p x y h Hnd Hg Hh; [discriminate|].
  cbn [Slots.ids] in Hnd. inversion Hnd as [|i' l' Hi Hlr]; subst.
  destruct (nodup_app_inv _ _ Hlr) as [Hl [Hr Hd]].
  cbn [Trie.get_node] in Hg. cbn [Trie.modify write_ids].
  destruct (peq p0 q).
  - inversion Hg; subst. rewrite Hh. cbn [assoc_id]. rewrite N.eqb_refl.
    rewrite !(write_ids_foreign pfx V); [reflexivity| |]; intros j Hj [<-|[]]; apply Hi; apply in_app_iff; auto.
  - set (b := to_right p0 q) in *.
    assert (IHc : forall q i p x y h, NoDup (ids (if b then r else l)) ->
              get_node (if b then r else l) q = Some (i, p, Some x) -> h p (Some x) = (p, Some y) ->
              write_ids (if b then r else l) [(i, y)] = modify (if b then r else l) q h)
      by (destruct b; assumption).
    assert (Hc : NoDup (ids (if b then r else l))) by (destruct b; assumption).
    assert (Hic : ~ In i0 (ids (if b then r else l))).
    { intros H. apply Hi. apply in_app_iff. destruct b; auto. }
    assert (Ho : forall j, In j (ids (if b then r else l)) -> ~ In j (ids (if b then l else r))).
    { intros j H1 H2. destruct b; apply (Hd j); assumption. }
    destruct (if b then r else l) as [|ci cp cv cl cr] eqn:Ec; [discriminate|].
    destruct (contains cp q); [|discriminate].
    destruct (get_node_in _ _ _ _ _ Hg) as [Hin _].
    assert (Hne : i <> i0) by (intros ->; exact (Hic Hin)).
    cbn [assoc_id]. rewrite (proj2 (N.eqb_neq i i0) Hne).
    assert (Hv : match v0 with Some _ => v0 | None => v0 end = v0) by (destruct v0; reflexivity).
    rewrite Hv. rewrite <- (IHc q i p x y h Hc Hg Hh).
    assert (Hoth : write_ids (if b then l else r) [(i, y)] = (if b then l else r)).
    { apply (write_ids_foreign pfx V). intros j Hj [<-|[]]. exact (Ho _ Hin Hj). }
    rewrite <- Ec. destruct b; cbn [with_child]; rewrite Hoth; reflexivity.
Qed.

(** the model of writes through [get_mut]/[and_modify] *)
Corollary update_value_write (m : pmap pfx V) q g i p x :
  NoDup (ids (root m)) -> get_node (root m) q = Some (i, p, Some x) ->
  update_value m q g = mkmap (write_ids (root m) [(i, g x)]) (al m).
Proof.
  intros Hnd Hg. unfold Trie.update_value. f_equal. symmetry.
  apply (get_mut_write (root m) q i p x (g x)); [exact Hnd | exact Hg | reflexivity].
Qed.

Lemma lpmm_walk_sim (t : tree) : forall q best,
  option_map (drop_id pfx V) (lpmm_walk t q best) = lpm_walk t q (option_map (drop_id pfx V) best).
Proof.
  induction t as [|i0 p0 v0 l IHl r IHr]; intros q best; [reflexivity|].
  cbn [Trie.lpmm_walk Trie.lpm_walk].
  assert (Hb : option_map (drop_id pfx V) (match v0 with Some x => Some (i0, p0, x) | None => best end)
               = match v0 with Some x => Some (p0, x) | None => option_map (drop_id pfx V) best end)
    by (destruct v0; reflexivity).
  destruct (peq p0 q); [exact Hb|].
  destruct (to_right p0 q).
  - destruct r as [|ci cp cv cl cr]; [exact Hb|]. destruct (contains cp q); [|exact Hb].
    rewrite <- Hb. apply IHr.
  - destruct l as [|ci cp cv cl cr]; [exact Hb|]. destruct (contains cp q); [|exact Hb].
    rewrite <- Hb. apply IHl.
Qed.

Lemma lpmm_walk_in (t : tree) : forall q best e,
  lpmm_walk t q best = Some e -> best = Some e \/ In e (entries_id t).
Proof.
  induction t as [|i0 p0 v0 l IHl r IHr]; intros q best e H; [left; exact H|].
  cbn [Trie.lpmm_walk] in H.
  assert (Hb : match v0 with Some x => Some (i0, p0, x) | None => best end = Some e ->
               best = Some e \/ In e (entries_id (Node i0 p0 v0 l r))).
  { destruct v0 as [x|]; [|auto]. intros E. inversion E; subst. right. left. reflexivity. }
  destruct (peq p0 q); [exact (Hb H)|].
  set (b := to_right p0 q) in *.
  assert (IHc : forall q best e, lpmm_walk (if b then r else l) q best = Some e ->
            best = Some e \/ In e (entries_id (if b then r else l))) by (destruct b; assumption).
  destruct (if b then r else l) as [|ci cp cv cl cr] eqn:Ec; [exact (Hb H)|].
  destruct (contains cp q); [|exact (Hb H)].
  destruct (IHc _ _ _ H) as [A|A]; [exact (Hb A)|].
  right. rewrite <- Ec in A. eapply in_entries_id_child. exact A.
Qed.

(** [get_lpm_mut] designates an item of the map, the one [get_lpm] reads *)
Theorem get_lpm_mut_spec (t : tree) q :
  option_map (drop_id pfx V) (get_lpm_mut t q) = get_lpm t q /\
  forall e, get_lpm_mut t q = Some e -> In e (entries_id t).
Proof.
  unfold Trie.get_lpm_mut, Trie.get_lpm. split; [apply lpmm_walk_sim|].
  intros e H. destruct (lpmm_walk_in t q None e H) as [A|A]; [discriminate | exact A].
Qed.

End MB.

(* ========================================================================================== *)
Print Assumptions write_ids_entries_id.
Print Assumptions write_ids_keys.
Print Assumptions write_ids_same_ids.
Print Assumptions write_ids_skel.
Print Assumptions entry_slots_nodup'.
Print Assumptions write_through_items.
Print Assumptions write_through_all.
Print Assumptions write_ids_seq.
Print Assumptions write_ids_comm.
Print Assumptions write_ids_seq_disjoint.
Print Assumptions interleaving_irrelevant.
Print Assumptions interleaving_sequential.
Print Assumptions subtree_ids_incl.
Print Assumptions subtree_entries_id_incl.
Print Assumptions subtree_slots_disjoint.
Print Assumptions split_slots_disjoint.
Print Assumptions subtree_writes_commute.
Print Assumptions write_ids_local.
Print Assumptions subtree_path_unique.
Print Assumptions subtree_subst.
Print Assumptions subtree_app.
Print Assumptions subst_entries_id_ctx.
Print Assumptions subst_set_tval_entries_id.
Print Assumptions subst_set_tval_shape.
Print Assumptions vm_write_virtual.
Print Assumptions vm_remove_node.
Print Assumptions vm_set_node.
Print Assumptions vm_value_mut_node.
Print Assumptions vm_remove_count.
Print Assumptions vm_set_count.
Print Assumptions vm_value_mut_count.
Print Assumptions find_walk_m_sim.
Print Assumptions find_walk_m_iff.
Print Assumptions find_exact_walk_m_sim.
Print Assumptions find_exact_walk_m_iff.
Print Assumptions find_lpm_walk_m_sim.
Print Assumptions vm_find_sim.
Print Assumptions vm_find_exact_sim.
Print Assumptions vm_find_lpm_sim.
Print Assumptions vm_left_sim.
Print Assumptions vm_right_sim.
Print Assumptions vm_split_eq.
Print Assumptions vm_has_left_spec.
Print Assumptions vm_has_right_spec.
Print Assumptions vm_prefix_sim.
Print Assumptions vm_value_sim.
Print Assumptions vm_iter_mut_spec.
Print Assumptions vm_iter_mut_sim.
Print Assumptions vm_iter_mut_refs.
Print Assumptions vm_split_refs_disjoint.
Print Assumptions vm_find_spec.
Print Assumptions vm_find_exact_spec.
Print Assumptions vm_find_lpm_spec.
Print Assumptions vm_side_spec.
Print Assumptions iter_mut_items_eq.
Print Assumptions into_iter_items_eq.
Print Assumptions children_spec.
Print Assumptions children_mut_eq.
Print Assumptions into_children_eq.
Print Assumptions children_find.
Print Assumptions children_mut_refs.
Print Assumptions get_mut_write.
Print Assumptions update_value_write.
Print Assumptions get_lpm_mut_spec.
