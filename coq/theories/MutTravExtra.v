(** Mutable traversals, continued (supplement to [MutTrav.v], used by Properties/C13 and C14).

    PART A (no prefix law): pointwise readings of [write_ids]; [value_mut] as a [write_ids];
      order-preserving interleavings of two workers' writes; the mutable views derived from one
      view by [find*]/[left]/[right] stay inside its slot set; the structural writes of two
      disjoint mutable views ([set]/[remove]/[value_mut]) commute.
    PART B (prefix laws): reads after a write; every reachable state has pairwise distinct slots;
      sub-views are well formed; the references yielded by the four [*_mut] set operations are
      items of their operands, pairwise distinct on either side, and — over two disjoint
      sub-views of one map — disjoint between the two sides. *)
From Coq Require Import List NArith ZArith Bool Arith Lia Sorted Permutation Relations.
From PT Require Import Bits BitsThm Laws Machine MachineThm Trie Views SetOps TrieWf Lookup Lookup2
                       ViewsThm Slots MutTrav UnionThm InterDiffThm History.
Import ListNotations.

(* ========================================================================================== *)
(** * PART A *)
Section XA.
Variables (pfx V : Type).
Notation tree := (Trie.tree pfx V).
Notation ids := (Slots.ids pfx V).
Notation slot3 := (MutTrav.slot3 pfx V).
Notation vmut := (Views.vmut pfx).
Notation mpath := (Views.mpath pfx).
Notation mvirt := (Views.mvirt pfx).
Notation mkvmut := (Views.mkvmut pfx).

(* ------------------------------------------------------------------------------------------ *)
(** ** 1. pointwise readings of a write *)

(** the value an item holds after the write list [ws] was applied *)
Definition newval (ws : list (N * V)) (i : N) (x : V) : V :=
  match assoc_id ws i with Some y => y | None => x end.

Theorem write_ids_entries_id_newval (t : tree) ws :
  entries_id (write_ids t ws) = map (fun '(i, p, x) => (i, p, newval ws i x)) (entries_id t).
Proof. exact (write_ids_entries_id pfx V t ws). Qed.

(** the entry list without slots *)
Corollary write_ids_entries_newval (t : tree) ws :
  entries (write_ids t ws) = map (fun '(i, p, x) => (p, newval ws i x)) (entries_id t).
Proof.
  rewrite <- (entries_id_entries pfx V), write_ids_entries_id_newval, map_map. apply map_ext.
  intros [[i p] x]. reflexivity.
Qed.

(** the entry at a written slot holds the written value *)
Theorem write_ids_written (t : tree) ws i p x y :
  In (i, p, x) (entries_id t) -> assoc_id ws i = Some y -> In (i, p, y) (entries_id (write_ids t ws)).
Proof.
  intros Hin Ha. rewrite write_ids_entries_id_newval. apply in_map_iff. exists (i, p, x).
  split; [unfold newval; rewrite Ha; reflexivity | exact Hin].
Qed.

(** every other entry keeps its value *)
Theorem write_ids_untouched (t : tree) ws i p x :
  In (i, p, x) (entries_id t) -> ~ In i (map fst ws) -> In (i, p, x) (entries_id (write_ids t ws)).
Proof.
  intros Hin Hn. rewrite write_ids_entries_id_newval. apply in_map_iff. exists (i, p, x).
  split; [unfold newval; rewrite (assoc_id_none V ws i Hn); reflexivity | exact Hin].
Qed.

(** nothing else appears *)
Theorem write_ids_in_inv (t : tree) ws i p y :
  In (i, p, y) (entries_id (write_ids t ws)) ->
  exists x, In (i, p, x) (entries_id t) /\ y = newval ws i x.
Proof.
  rewrite write_ids_entries_id_newval. intros H. apply in_map_iff in H.
  destruct H as [[[i' p'] x] [E Hin]]. inversion E; subst. exists x. split; [exact Hin | reflexivity].
Qed.

(** with pairwise distinct references, "the value written through the reference to slot [i]" is
    unambiguous *)
Corollary write_ids_written_nodup (t : tree) ws i p x y :
  NoDup (map fst ws) -> In (i, y) ws -> In (i, p, x) (entries_id t) ->
  In (i, p, y) (entries_id (write_ids t ws)).
Proof.
  intros Hnd Hw Hin. apply (write_ids_written t ws i p x y Hin).
  apply (assoc_id_nodup V ws i y Hnd). exact Hw.
Qed.

(** position-wise: the n-th yielded item stays the n-th item, with its slot and stored prefix *)
Corollary write_ids_nth (t : tree) ws n i p x :
  nth_error (entries_id t) n = Some (i, p, x) ->
  nth_error (entries_id (write_ids t ws)) n = Some (i, p, newval ws i x).
Proof. intros H. rewrite write_ids_entries_id_newval, nth_error_map, H. reflexivity. Qed.

(* ------------------------------------------------------------------------------------------ *)
(** ** 2. [value_mut] / [prefix_value_mut] of a view is a write through one reference *)

Lemma write_ids_root_only i p x (l r : tree) y :
  NoDup (ids (Node i p (Some x) l r)) ->
  write_ids (Node i p (Some x) l r) [(i, y)] = Node i p (Some y) l r.
Proof.
  intros Hnd. cbn [Slots.ids] in Hnd. inversion Hnd as [|i' l' Hi Hlr]; subst.
  cbn [write_ids assoc_id]. rewrite N.eqb_refl.
  rewrite !(write_ids_foreign pfx V); [reflexivity| |];
    intros j Hj [<-|[]]; apply Hi; apply in_app_iff; auto.
Qed.

Theorem vm_value_mut_write (T : tree) (m : vmut) g i p x l r :
  NoDup (ids T) -> mvirt m = None -> vm_tree T m = Node i p (Some x) l r ->
  fst (vm_value_mut T m g) = write_ids T [(i, g x)].
Proof.
  intros Hnd Hv Hs. unfold vm_value_mut. rewrite Hv. cbn [fst]. rewrite Hs. cbn [tval option_map set_tval].
  unfold vm_tree in Hs.
  rewrite (write_ids_local pfx V (mpath m) T [(i, g x)] Hnd).
  - rewrite Hs. rewrite write_ids_root_only; [reflexivity|].
    rewrite <- Hs. apply subtree_nodup. exact Hnd.
  - intros j [<-|[]]. rewrite Hs. left. reflexivity.
Qed.

(** a node without value hands out no reference *)
Theorem vm_value_mut_none (T : tree) (m : vmut) g i p l r :
  mvirt m = None -> vm_tree T m = Node i p None l r ->
  vm_value_mut T m g = (T, None).
Proof.
  intros Hv Hs. unfold vm_value_mut. rewrite Hv, Hs. cbn [tval option_map set_tval pv].
  f_equal. unfold vm_tree in Hs. rewrite <- Hs. apply subst_same.
Qed.

(** the reference [value_mut]/[prefix_value_mut] hands out reads what the read-only accessor reads *)
Theorem vm_value_mut_sim (T : tree) (m : vmut) g :
  snd (vm_value_mut T m g) = v_prefix_value (vm_view T m).
Proof. unfold vm_value_mut, vm_view. destruct (mvirt m); reflexivity. Qed.

(* ------------------------------------------------------------------------------------------ *)
(** ** 3. interleavings *)

(** [w] is an order-preserving merge of [w1] and [w2] (a schedule of two sequential workers) *)
Inductive interleave {A} : list A -> list A -> list A -> Prop :=
| il_nil : interleave [] [] []
| il_left e w1 w2 w : interleave w1 w2 w -> interleave (e :: w1) w2 (e :: w)
| il_right e w1 w2 w : interleave w1 w2 w -> interleave w1 (e :: w2) (e :: w).

Lemma interleave_perm {A} (w1 w2 w : list A) : interleave w1 w2 w -> Permutation w (w1 ++ w2).
Proof.
  induction 1 as [|e w1 w2 w H IH|e w1 w2 w H IH]; cbn [app].
  - constructor.
  - constructor. exact IH.
  - eapply Permutation_trans; [apply perm_skip; exact IH | apply Permutation_middle].
Qed.

Lemma interleave_l {A} (w1 : list A) : interleave w1 [] w1.
Proof. induction w1; constructor; assumption. Qed.
Lemma interleave_r {A} (w2 : list A) : interleave [] w2 w2.
Proof. induction w2; constructor; assumption. Qed.
Lemma interleave_app {A} (w1 w2 : list A) : interleave w1 w2 (w1 ++ w2).
Proof. induction w1; cbn [app]; [apply interleave_r | constructor; assumption]. Qed.
Lemma interleave_app_rev {A} (w1 w2 : list A) : interleave w1 w2 (w2 ++ w1).
Proof. induction w2; cbn [app]; [apply interleave_l | constructor; assumption]. Qed.

Lemma write_each_cons (t : tree) e w : write_each pfx V t (e :: w) = write_each pfx V (write_ids t [e]) w.
Proof. reflexivity. Qed.

Lemma write_each_app (t : tree) w w' :
  write_each pfx V t (w ++ w') = write_each pfx V (write_each pfx V t w) w'.
Proof. unfold write_each. apply fold_left_app. Qed.

(** a single write commutes with the whole run of a worker that never touches that slot *)
Lemma write_each_comm1 (t : tree) (e : N * V) w :
  ~ In (fst e) (map fst w) ->
  write_each pfx V (write_ids t [e]) w = write_ids (write_each pfx V t w) [e].
Proof.
  intros Hn. rewrite !(write_each_rev pfx V). apply (write_ids_comm pfx V).
  intros i [<-|[]]. rewrite map_rev, <- in_rev. exact Hn.
Qed.

(** any schedule of two workers whose slot sets are disjoint yields the result of running the
    first worker to completion and then the second — each worker may write a slot any number of
    times *)
Theorem interleave_sequential (w1 w2 w : list (N * V)) :
  interleave w1 w2 w -> (forall i, In i (map fst w1) -> ~ In i (map fst w2)) ->
  forall t : tree, write_each pfx V t w = write_each pfx V (write_each pfx V t w1) w2.
Proof.
  induction 1 as [|e w1 w2 w H IH|e w1 w2 w H IH]; intros Hd t.
  - reflexivity.
  - rewrite !write_each_cons. apply IH. intros i Hi. apply Hd. right. exact Hi.
  - rewrite !write_each_cons. rewrite IH.
    + rewrite write_each_comm1; [reflexivity|]. intros Hin. apply (Hd _ Hin). left. reflexivity.
    + intros i Hi Hi2. apply (Hd i Hi). right. exact Hi2.
Qed.

(** ... and of running them in the other order *)
Corollary interleave_sequential_sym (w1 w2 w : list (N * V)) :
  interleave w1 w2 w -> (forall i, In i (map fst w1) -> ~ In i (map fst w2)) ->
  forall t : tree, write_each pfx V t w = write_each pfx V (write_each pfx V t w2) w1.
Proof.
  intros H Hd t. rewrite (interleave_sequential w1 w2 w H Hd t).
  rewrite <- !write_each_app.
  rewrite (interleave_sequential w1 w2 (w2 ++ w1) (interleave_app_rev w1 w2) Hd t).
  rewrite <- write_each_app. reflexivity.
Qed.

(* ------------------------------------------------------------------------------------------ *)
(** ** 4. views derived from a view stay inside it *)

Definition vm_slots (T : tree) (m : vmut) : list N := ids (vm_tree T m).

Lemma vm_below_slots (T : tree) (m m' : vmut) :
  prefix_of (mpath m) (mpath m') -> incl (vm_slots T m') (vm_slots T m).
Proof.
  intros [pa E]. unfold vm_slots, vm_tree. rewrite E, (subtree_app pfx V). apply subtree_ids_incl.
Qed.

(** the references a view's [iter_mut] hands out are slots of the view *)
Lemma vm_iter_mut_slots (T : tree) (m : vmut) :
  incl (map slot3 (vm_iter_mut T m)) (vm_slots T m).
Proof.
  intros i Hi. unfold vm_iter_mut in Hi. rewrite (iter_mut_items_spec pfx V) in Hi.
  apply slots_in_ids. exact Hi.
Qed.

(** a write commutes with taking a sub-view ... *)
Lemma subtree_write_ids (pa : path) : forall (T : tree) ws,
  subtree (write_ids T ws) pa = write_ids (subtree T pa) ws.
Proof.
  induction pa as [|b pa IH]; intros T ws; [rewrite !(subtree_nil pfx V); reflexivity|].
  destruct T as [|i p v l r]; [reflexivity|]. cbn [write_ids subtree]. destruct b; apply IH.
Qed.

(** ... hence a view none of whose slots is written sees nothing change (frame property: what a
    read-only or mutable view over other entries observes is unaffected) *)
Theorem vm_tree_frame (T : tree) (m : vmut) ws :
  (forall i, In i (vm_slots T m) -> ~ In i (map fst ws)) -> vm_tree (write_ids T ws) m = vm_tree T m.
Proof.
  intros H. unfold vm_tree. rewrite subtree_write_ids. apply (write_ids_foreign pfx V). exact H.
Qed.

End XA.

Arguments interleave {A}.

(* ========================================================================================== *)
(** * PART A', with the prefix operations (no law is used) *)
Section XV.
Variables (pfx V : Type).
Variables (peq contains : pfx -> pfx -> bool) (is_bit_set : pfx -> N -> bool)
          (plen : pfx -> N) (pzero : pfx).
Notation tree := (Trie.tree pfx V).
Notation ids := (Slots.ids pfx V).
Notation slot3 := (MutTrav.slot3 pfx V).
Notation vmut := (Views.vmut pfx).
Notation mpath := (Views.mpath pfx).
Notation mvirt := (Views.mvirt pfx).
Notation vm_find := (Views.vm_find pfx V peq contains is_bit_set plen).
Notation vm_find_exact := (Views.vm_find_exact pfx V peq contains is_bit_set plen).
Notation vm_find_lpm := (Views.vm_find_lpm pfx V peq contains is_bit_set plen).
Notation vm_left := (Views.vm_left pfx V is_bit_set plen pzero).
Notation vm_right := (Views.vm_right pfx V is_bit_set plen pzero).
Notation vm_split := (Views.vm_split pfx V is_bit_set plen pzero).
Notation vm_slots := (vm_slots pfx V).

(** one consuming step [find] / [find_exact] / [find_lpm] / [left] / [right] of [TrieViewMut] *)
Inductive vm_step (T : tree) (m m' : vmut) : Prop :=
| vs_find q : vm_find T m q = Some m' -> vm_step T m m'
| vs_find_exact q : vm_find_exact T m q = Some m' -> vm_step T m m'
| vs_find_lpm q : vm_find_lpm T m q = Some m' -> vm_step T m m'
| vs_left : vm_left T m = Some m' -> vm_step T m m'
| vs_right : vm_right T m = Some m' -> vm_step T m m'.

(** any number of such steps *)
Definition vm_derived (T : tree) : vmut -> vmut -> Prop := clos_refl_trans vmut (vm_step T).

Lemma vm_step_below (T : tree) (m m' : vmut) : vm_step T m m' -> prefix_of (mpath m) (mpath m').
Proof.
  intros [q H|q H|q H|H|H].
  - unfold Views.vm_find in H. destruct (vm_tree T m) as [|i p v l r]; [discriminate|].
    destruct (contains q p && negb (peq p q)).
    + inversion H; subst. apply prefix_of_refl.
    + destruct (find_walk_m pfx V peq contains is_bit_set plen (Node i p v l r) q) as [[pa vi]|]; [|discriminate].
      inversion H; subst. apply prefix_of_app.
  - unfold Views.vm_find_exact in H.
    destruct (find_exact_walk_m pfx V peq contains is_bit_set plen (vm_tree T m) q) as [pa|]; [|discriminate].
    inversion H; subst. apply prefix_of_app.
  - unfold Views.vm_find_lpm in H. destruct (vm_tree T m) as [|i p v l r]; [discriminate|].
    destruct (contains p q); [|discriminate].
    destruct (find_lpm_walk_m pfx V peq contains is_bit_set plen (Node i p v l r) q [] None) as [rpa|]; [|discriminate].
    inversion H; subst. apply prefix_of_app.
  - unfold Views.vm_left in H. destruct (mvirt m).
    + destruct (negb _); [|discriminate]. inversion H; subst. apply prefix_of_refl.
    + destruct (is_node _); [|discriminate]. inversion H; subst. apply prefix_of_app.
  - unfold Views.vm_right in H. destruct (mvirt m).
    + destruct (Trie.to_right _ _ _ _ _); [|discriminate]. inversion H; subst. apply prefix_of_refl.
    + destruct (is_node _); [|discriminate]. inversion H; subst. apply prefix_of_app.
Qed.

Lemma vm_derived_below (T : tree) (m m' : vmut) : vm_derived T m m' -> prefix_of (mpath m) (mpath m').
Proof.
  induction 1 as [m m' H|m|m m1 m2 _ IH1 _ IH2].
  - apply (vm_step_below T). exact H.
  - apply prefix_of_refl.
  - eapply prefix_of_trans; eassumption.
Qed.

(** every view derived from [m] addresses a subset of the slots of [m] *)
Theorem vm_derived_slots (T : tree) (m m' : vmut) :
  vm_derived T m m' -> incl (vm_slots T m') (vm_slots T m).
Proof. intros H. apply vm_below_slots. apply (vm_derived_below T). exact H. Qed.

(** [split] = ([left], [right]); both halves exist only below a real node *)
Lemma vm_split_both (T : tree) (m ml mr : vmut) :
  vm_split T m = (Some ml, Some mr) ->
  mvirt m = None /\ ml = Views.mkvmut pfx (mpath m ++ [false]) None /\
  mr = Views.mkvmut pfx (mpath m ++ [true]) None.
Proof.
  unfold Views.vm_split. destruct (mvirt m) as [p|].
  - destruct (Trie.to_right _ _ _ _ _); discriminate.
  - destruct (is_node (tleft _)); [|discriminate]. destruct (is_node (tright _)); [|discriminate].
    intros H. inversion H; subst. auto.
Qed.

Lemma vm_left_right_split (T : tree) (m ml mr : vmut) :
  vm_left T m = Some ml -> vm_right T m = Some mr -> vm_split T m = (Some ml, Some mr).
Proof.
  intros Hl Hr. unfold Views.vm_split, Views.vm_left, Views.vm_right in *. destruct (mvirt m) as [p|].
  - destruct (Trie.to_right _ _ _ _ _); cbn [negb] in *; discriminate.
  - rewrite Hl, Hr. reflexivity.
Qed.

(** the two halves of a split own disjoint slot sets *)
Theorem vm_split_slots_disjoint (T : tree) (m ml mr : vmut) :
  NoDup (ids T) -> vm_split T m = (Some ml, Some mr) ->
  forall i, In i (vm_slots T ml) -> ~ In i (vm_slots T mr).
Proof.
  intros Hnd Hs. destruct (vm_split_both T m ml mr Hs) as [_ [-> ->]].
  unfold MutTravExtra.vm_slots, vm_tree. cbn [Views.mpath].
  apply (split_slots_disjoint pfx V T (mpath m) Hnd).
Qed.

(** ... and so do all views derived from the one and from the other half *)
Theorem vm_split_derived_disjoint (T : tree) (m ml mr m1 m2 : vmut) :
  NoDup (ids T) -> vm_split T m = (Some ml, Some mr) ->
  vm_derived T ml m1 -> vm_derived T mr m2 ->
  forall i, In i (vm_slots T m1) -> ~ In i (vm_slots T m2).
Proof.
  intros Hnd Hs D1 D2 i H1 H2.
  apply (vm_split_slots_disjoint T m ml mr Hnd Hs i).
  - apply (vm_derived_slots T ml m1 D1). exact H1.
  - apply (vm_derived_slots T mr m2 D2). exact H2.
Qed.

End XV.

(* ========================================================================================== *)
(** * PART A'': structural writes of disjoint views commute *)
Section XS.
Variables (pfx V : Type).
Notation tree := (Trie.tree pfx V).
Notation vmut := (Views.vmut pfx).
Notation mpath := (Views.mpath pfx).
Notation mvirt := (Views.mvirt pfx).

(** replacing the subtree at [pa1] is invisible below an incomparable path *)
Lemma subtree_subst_other (pa1 : path) : forall (T n : tree) (pa2 : path),
  ~ prefix_of pa1 pa2 -> ~ prefix_of pa2 pa1 -> subtree (subst T pa1 n) pa2 = subtree T pa2.
Proof.
  induction pa1 as [|b1 p1 IH]; intros T n pa2 H12 H21.
  - exfalso. apply H12. apply prefix_of_nil.
  - destruct pa2 as [|b2 p2]; [exfalso; apply H21; apply prefix_of_nil|].
    destruct T as [|i p v l r]; [reflexivity|]. cbn [subst].
    destruct b1, b2; cbn [subtree]; try reflexivity; apply IH; intros H.
    + apply H12. apply prefix_of_cons. exact H.
    + apply H21. apply prefix_of_cons. exact H.
    + apply H12. apply prefix_of_cons. exact H.
    + apply H21. apply prefix_of_cons. exact H.
Qed.

(** substitutions at incomparable paths commute *)
Lemma subst_comm (pa1 : path) : forall (T n1 n2 : tree) (pa2 : path),
  ~ prefix_of pa1 pa2 -> ~ prefix_of pa2 pa1 ->
  subst (subst T pa1 n1) pa2 n2 = subst (subst T pa2 n2) pa1 n1.
Proof.
  induction pa1 as [|b1 p1 IH]; intros T n1 n2 pa2 H12 H21.
  - exfalso. apply H12. apply prefix_of_nil.
  - destruct pa2 as [|b2 p2]; [exfalso; apply H21; apply prefix_of_nil|].
    destruct T as [|i p v l r]; [reflexivity|].
    destruct b1, b2; cbn [subst]; try reflexivity; f_equal; apply IH; intros H.
    + apply H12. apply prefix_of_cons. exact H.
    + apply H21. apply prefix_of_cons. exact H.
    + apply H12. apply prefix_of_cons. exact H.
    + apply H21. apply prefix_of_cons. exact H.
Qed.

(** a structural write of a mutable view: [remove] (take the value out), [set x], or a write of
    [g old] through [value_mut] *)
Inductive vwrite := WRemove | WSet (x : V) | WValueMut (g : V -> V).

Definition vm_apply (T : tree) (m : vmut) (o : vwrite) : tree :=
  match o with
  | WRemove => fst (vm_remove T m)
  | WSet x => fst (vm_set T m x)
  | WValueMut g => fst (vm_value_mut T m g)
  end.

Definition wval (o : vwrite) (v : option V) : option V :=
  match o with WRemove => None | WSet x => Some x | WValueMut g => option_map g v end.

Lemma vm_apply_eq (T : tree) (m : vmut) o :
  vm_apply T m o =
  match mvirt m with
  | Some _ => T
  | None => subst T (mpath m) (set_tval (vm_tree T m) (wval o (tval (vm_tree T m))))
  end.
Proof.
  destruct o; cbn [vm_apply wval]; unfold vm_remove, vm_set, vm_value_mut; destruct (mvirt m); reflexivity.
Qed.

(** the writes of two views at incomparable paths commute *)
Theorem vm_apply_comm (T : tree) (m1 m2 : vmut) o1 o2 :
  ~ prefix_of (mpath m1) (mpath m2) -> ~ prefix_of (mpath m2) (mpath m1) ->
  vm_apply (vm_apply T m1 o1) m2 o2 = vm_apply (vm_apply T m2 o2) m1 o1.
Proof.
  intros H12 H21. rewrite !vm_apply_eq.
  destruct (mvirt m1) as [q1|], (mvirt m2) as [q2|]; try reflexivity.
  unfold vm_tree. rewrite !subtree_subst_other by assumption. apply subst_comm; assumption.
Qed.

(** ... and neither disturbs what the other view sees *)
Theorem vm_apply_other (T : tree) (m1 m2 : vmut) o1 :
  ~ prefix_of (mpath m1) (mpath m2) -> ~ prefix_of (mpath m2) (mpath m1) ->
  vm_tree (vm_apply T m1 o1) m2 = vm_tree T m2.
Proof.
  intros H12 H21. rewrite vm_apply_eq. destruct (mvirt m1); [reflexivity|].
  unfold vm_tree. apply subtree_subst_other; assumption.
Qed.

(** views below the two sides of a split are at incomparable paths *)
Lemma sides_below_incomparable (pa p1 p2 : path) :
  prefix_of (pa ++ [false]) p1 -> prefix_of (pa ++ [true]) p2 ->
  ~ prefix_of p1 p2 /\ ~ prefix_of p2 p1.
Proof.
  intros H1 H2. split; intros H.
  - eapply sides_disjoint; [eapply prefix_of_trans; [exact H1 | exact H] | exact H2].
  - eapply sides_disjoint; [exact H1 | eapply prefix_of_trans; [exact H2 | exact H]].
Qed.

End XS.


(* ========================================================================================== *)
(** * PART A3: the keyed reads after a write (structural; no law, no well-formedness) *)
Section XR.
Variables (pfx V : Type).
Variables (peq contains : pfx -> pfx -> bool) (is_bit_set : pfx -> N -> bool) (plen : pfx -> N).
Notation tree := (Trie.tree pfx V).
Notation get_node := (Trie.get_node pfx V peq contains is_bit_set plen).
Notation get := (Trie.get pfx V peq contains is_bit_set plen).
Notation get_key_value := (Trie.get_key_value pfx V peq contains is_bit_set plen).
Notation lpm_walk := (Trie.lpm_walk pfx V peq contains is_bit_set plen).
Notation lpmm_walk := (Trie.lpmm_walk pfx V peq contains is_bit_set plen).
Notation get_lpm := (Trie.get_lpm pfx V peq contains is_bit_set plen).
Notation get_lpm_mut := (Trie.get_lpm_mut pfx V peq contains is_bit_set plen).
Notation to_right := (Trie.to_right pfx is_bit_set plen).

(** the exact-match descent reaches the same node, whose value is the written one *)
Theorem get_node_write_ids (t : tree) ws : forall q,
  get_node (write_ids t ws) q
  = option_map (fun '(i, p, v) => (i, p, option_map (newval V ws i) v)) (get_node t q).
Proof.
  induction t as [|i p v l IHl r IHr]; intros q; [reflexivity|].
  cbn [write_ids]. cbn [Trie.get_node].
  destruct (peq p q).
  - cbn [option_map]. unfold newval. destruct v, (assoc_id ws i); reflexivity.
  - destruct (to_right p q).
    + destruct r as [|ci cp cv cl cr]; [reflexivity|]. cbn [write_ids] in *.
      destruct (contains cp q); [apply IHr | reflexivity].
    + destruct l as [|ci cp cv cl cr]; [reflexivity|]. cbn [write_ids] in *.
      destruct (contains cp q); [apply IHl | reflexivity].
Qed.

(** [get] after a write: the value written through the reference to the entry's slot, if any *)
Corollary get_write_ids (t : tree) ws q :
  get (write_ids t ws) q
  = match get_node t q with Some (i, _, v) => option_map (newval V ws i) v | None => None end.
Proof.
  unfold Trie.get. rewrite get_node_write_ids. destruct (get_node t q) as [[[i p] v]|]; reflexivity.
Qed.

Corollary get_key_value_write_ids (t : tree) ws q :
  get_key_value (write_ids t ws) q
  = match get_node t q with Some (i, p, Some x) => Some (p, newval V ws i x) | _ => None end.
Proof.
  unfold Trie.get_key_value. rewrite get_node_write_ids.
  destruct (get_node t q) as [[[i p] [x|]]|]; reflexivity.
Qed.

(** the longest-prefix match designates the same entry, with the written value *)
Lemma lpm_walk_write_ids (t : tree) ws : forall q best,
  lpm_walk (write_ids t ws) q (option_map (fun '(i, p, x) => (p, newval V ws i x)) best)
  = option_map (fun '(i, p, x) => (p, newval V ws i x)) (lpmm_walk t q best).
Proof.
  induction t as [|i p v l IHl r IHr]; intros q best; [reflexivity|].
  cbn [write_ids]. cbn [Trie.lpm_walk Trie.lpmm_walk].
  set (f := fun '(i0, p0, x0) => (p0, newval V ws i0 x0)).
  assert (Hb : match match v, assoc_id ws i with Some _, Some x => Some x | _, _ => v end with
               | Some x => Some (p, x) | None => option_map f best end
               = option_map f (match v with Some x => Some (i, p, x) | None => best end)).
  { subst f. unfold newval. destruct v as [x|]; [|reflexivity]. cbn. destruct (assoc_id ws i); reflexivity. }
  rewrite Hb. clear Hb.
  destruct (peq p q); [reflexivity|].
  destruct (to_right p q).
  - destruct r as [|ci cp cv cl cr]; [reflexivity|]. cbn [write_ids] in *.
    destruct (contains cp q); [apply IHr | reflexivity].
  - destruct l as [|ci cp cv cl cr]; [reflexivity|]. cbn [write_ids] in *.
    destruct (contains cp q); [apply IHl | reflexivity].
Qed.

Theorem get_lpm_write_ids (t : tree) ws q :
  get_lpm (write_ids t ws) q
  = option_map (fun '(i, p, x) => (p, newval V ws i x)) (get_lpm_mut t q).
Proof. unfold Trie.get_lpm, Trie.get_lpm_mut. apply (lpm_walk_write_ids t ws q None). Qed.

(** [get_mut] on a key that is not stored hands out no reference: the keyed update is the identity *)
Theorem update_value_absent (m : pmap pfx V) q g :
  get (root m) q = None -> Trie.update_value pfx V peq contains is_bit_set plen m q g = m.
Proof.
  intros H. unfold Trie.update_value. destruct m as [t a]. cbn [root al] in *. f_equal.
  unfold Trie.get in H. revert q H.
  induction t as [|i p v l IHl r IHr]; intros q H; [reflexivity|].
  cbn [Trie.get_node] in H. cbn [Trie.modify].
  destruct (peq p q); [subst v; reflexivity|].
  destruct (to_right p q).
  - destruct r as [|ci cp cv cl cr]; [reflexivity|].
    destruct (contains cp q); [|reflexivity]. cbn [Trie.with_child]. rewrite (IHr q H). reflexivity.
  - destruct l as [|ci cp cv cl cr]; [reflexivity|].
    destruct (contains cp q); [|reflexivity]. cbn [Trie.with_child]. rewrite (IHl q H). reflexivity.
Qed.

End XR.

(* ========================================================================================== *)
(** * PART B: with the prefix laws *)

(** generic list facts *)
Lemma SS_map {A B} (f : A -> B) (Rl : B -> B -> Prop) (l : list A) :
  StronglySorted (fun a b => Rl (f a) (f b)) l -> StronglySorted Rl (map f l).
Proof.
  induction 1 as [|a l Hs IH Hf]; cbn [map]; constructor; [exact IH|].
  apply Forall_map. exact Hf.
Qed.

Definition olist {A} (o : option A) : list A := match o with Some a => [a] | None => [] end.

(** the references selected by [s] from a list of yielded items *)
Definition refs_by {I E} (s : I -> option E) (out : list I) : list E :=
  flat_map (fun it => olist (s it)) out.

Lemma refs_by_total {I E} (s : I -> option E) (f : I -> E) (out : list I) :
  (forall it, s it = Some (f it)) -> refs_by s out = map f out.
Proof.
  intros H. unfold refs_by. induction out as [|it out IH]; [reflexivity|].
  cbn [flat_map map]. rewrite H, IH. reflexivity.
Qed.

Lemma in_refs_by {I E} (s : I -> option E) (out : list I) e :
  In e (refs_by s out) <-> exists it, In it out /\ s it = Some e.
Proof.
  unfold refs_by. rewrite in_flat_map. split; intros [it [Hin H]]; exists it; (split; [exact Hin|]).
  - destruct (s it) as [e'|]; [destruct H as [<-|[]]; reflexivity | destruct H].
  - rewrite H. left. reflexivity.
Qed.

Section KS.
Variables (pfx T I : Type) (bits : pfx -> list bool).
Variables (k : I -> list bool) (s : I -> option (N * pfx * T)).

(** items with strictly ascending keys, each of whose references designates (up to the denoted
    key) an item of a tree with distinct slots, carry pairwise distinct slots *)
Lemma keyed_slots_nodup (t : Trie.tree pfx T) (out : list I) :
  NoDup (Slots.ids pfx T t) -> StronglySorted lex_lt (map k out) ->
  (forall it i p x, In it out -> s it = Some (i, p, x) ->
     exists pr, In (i, pr, x) (entries_id t) /\ bits pr = k it) ->
  NoDup (map (slot3 pfx T) (refs_by s out)).
Proof.
  intros Hnd. induction out as [|it out IH]; intros Hs Hin; [constructor|].
  cbn [map] in Hs. inversion Hs as [|a l Hs' Hf]; subst.
  unfold refs_by. cbn [flat_map]. rewrite map_app. apply nodup_app_intro.
  - destruct (s it) as [[[i p] x]|]; cbn [olist map]; [constructor; [intros []|constructor] | constructor].
  - apply IH; [exact Hs'|]. intros it' i p x Hit. apply Hin. right. exact Hit.
  - intros j Hj Hj'. destruct (s it) as [[[i p] x]|] eqn:E; cbn [olist map] in Hj; [|destruct Hj].
    destruct Hj as [<-|[]]. cbn [slot3] in Hj'.
    apply in_map_iff in Hj'. destruct Hj' as [[[i' p'] x'] [Ei He]]. cbn [slot3] in Ei. subst i'.
    apply in_refs_by in He. destruct He as [it' [Hit' E']].
    destruct (Hin it i p x (or_introl eq_refl) E) as [pr [H1 K1]].
    destruct (Hin it' i p' x' (or_intror Hit') E') as [pr' [H2 K2]].
    destruct (entries_id_slot_inj pfx T t Hnd i pr x pr' x' H1 H2) as [<- _].
    rewrite Forall_forall in Hf. specialize (Hf (k it') (in_map k _ _ Hit')).
    rewrite <- K2, K1 in Hf. exact (lex_lt_irrefl _ Hf).
Qed.
End KS.

(* ------------------------------------------------------------------------------------------ *)
Section XB.
Variables (pfx V : Type).
Variables (peq contains : pfx -> pfx -> bool) (is_bit_set : pfx -> N -> bool)
          (plen : pfx -> N) (lcp : pfx -> pfx -> pfx) (pzero : pfx)
          (mcmp : pfx -> pfx -> comparison).
Variable bits : pfx -> list bool.
Variable ok : pfx -> Prop.
Hypothesis LAWS : prefix_laws pfx peq contains is_bit_set plen lcp pzero mcmp bits ok.

Notation tree := (Trie.tree pfx V).
Notation ids := (Slots.ids pfx V).
Notation wf_under := (TrieWf.wf_under pfx V bits ok).
Notation wf_root := (TrieWf.wf_root pfx V bits ok).
Notation get := (Trie.get pfx V peq contains is_bit_set plen).
Notation get_node := (Trie.get_node pfx V peq contains is_bit_set plen).

(** ** reads after a write: [get] of any key sees the (possibly new) value of its entry *)
Theorem write_ids_get (t : tree) ws i p x q :
  wf_root t -> ok q -> In (i, p, x) (entries_id t) -> bits q = bits p ->
  get (write_ids t ws) q = Some (newval V ws i x).
Proof.
  intros Hwf Hq Hin Hk.
  pose proof (write_ids_wf_root pfx V bits ok ws t Hwf) as Hwf'.
  assert (Hu : wf_under [] (write_ids t ws)).
  { destruct (write_ids t ws) as [|i0 p0 v0 l0 r0]; [destruct Hwf' | exact (proj2 Hwf')]. }
  apply (get_spec pfx V peq contains is_bit_set plen lcp pzero mcmp bits ok LAWS [] _ q _ Hu Hq
           (wf_root_covers pfx V bits ok _ q Hwf')).
  exists p. split; [|symmetry; exact Hk].
  rewrite write_ids_entries_newval. apply in_map_iff. exists (i, p, x). split; [reflexivity | exact Hin].
Qed.

(** the node [get_mut] reaches is an item of the map *)
Theorem get_node_item (t : tree) q i p x :
  get_node t q = Some (i, p, Some x) -> In (i, p, x) (entries_id t).
Proof.
  intros H. destruct (get_node_in pfx V peq contains is_bit_set plen t q i p (Some x) H) as [_ B].
  apply B. reflexivity.
Qed.

(** ** every reachable state has pairwise distinct slots *)
Theorem reachable_nodup (ops : list (History.op pfx V)) :
  Forall (History.op_ok pfx V ok) ops ->
  NoDup (ids (root (History.run pfx V peq contains is_bit_set plen lcp pzero ops))).
Proof.
  intros H.
  destruct (reachable_wf pfx V peq contains is_bit_set plen lcp pzero mcmp bits ok LAWS ops H) as [_ Hm].
  exact (slots_nodup pfx V peq contains is_bit_set plen lcp pzero _ _ Hm).
Qed.

(** ** sub-views of a well-formed tree are well-formed *)
Lemma subtree_wf (pa : path) : forall b (T : tree),
  wf_under b T -> exists b', wf_under b' (subtree T pa).
Proof.
  induction pa as [|s pa IH]; intros b T H; [exists b; rewrite (subtree_nil pfx V); exact H|].
  destruct T as [|i p v l r]; [exists b; exact I|]. cbn [subtree].
  destruct H as [_ [_ [Hl Hr]]]. destruct s; [exact (IH _ _ Hr) | exact (IH _ _ Hl)].
Qed.

End XB.

(* ------------------------------------------------------------------------------------------ *)
(** ** the references yielded by the [*_mut] set operations *)
Section XSO.
Variables (pfx L R : Type).
Variables (peq contains : pfx -> pfx -> bool) (is_bit_set : pfx -> N -> bool)
          (plen : pfx -> N) (lcp : pfx -> pfx -> pfx) (pzero : pfx)
          (mcmp : pfx -> pfx -> comparison).
Variable bits : pfx -> list bool.
Variable ok : pfx -> Prop.
Hypothesis LAWS : prefix_laws pfx peq contains is_bit_set plen lcp pzero mcmp bits ok.

Notation treeL := (Trie.tree pfx L).
Notation treeR := (Trie.tree pfx R).
Notation wfL := (TrieWf.wf_under pfx L bits ok).
Notation wfR := (TrieWf.wf_under pfx R bits ok).
Notation idsL := (Slots.ids pfx L).
Notation idsR := (Slots.ids pfx R).
Notation umitem := (SetOps.umitem pfx L R).
Notation imitem := (SetOps.imitem pfx L R).
Notation dmitem := (SetOps.dmitem pfx L R).
Notation union := (SetOps.union pfx L R contains is_bit_set plen pzero mcmp).
Notation union_mut := (SetOps.union_mut pfx L R contains is_bit_set plen pzero mcmp).
Notation intersection_mut := (SetOps.intersection_mut pfx L R contains is_bit_set plen pzero mcmp).
Notation difference_mut := (SetOps.difference_mut pfx L R contains is_bit_set plen pzero mcmp).
Notation covering_difference_mut := (SetOps.covering_difference_mut pfx L R contains is_bit_set plen pzero mcmp).

(** the references into the left / right operand carried by the items of [union_mut]
    (slot, reported prefix, current value) *)
Definition um_lref (it : umitem) : option (N * pfx * L) :=
  let '(p, l, _) := it in match l with Some (i, x) => Some (i, p, x) | None => None end.
Definition um_rref (it : umitem) : option (N * pfx * R) :=
  let '(p, _, r) := it in match r with Some (i, y) => Some (i, p, y) | None => None end.
Definition um_lrefs (out : list umitem) : list (N * pfx * L) := refs_by um_lref out.
Definition um_rrefs (out : list umitem) : list (N * pfx * R) := refs_by um_rref out.
(** [intersection_mut] *)
Definition im_lrefs (out : list imitem) : list (N * pfx * L) := map (fun '(p, (i, l), _) => (i, p, l)) out.
Definition im_rrefs (out : list imitem) : list (N * pfx * R) := map (fun '(p, _, (j, r)) => (j, p, r)) out.
(** [difference_mut], [covering_difference_mut]: only the left operand is borrowed mutably *)
Definition dm_refs (out : list dmitem) : list (N * pfx * L) := map (fun '(p, (i, l), _) => (i, p, l)) out.
Definition cdm_refs (out : list (pfx * (N * L))) : list (N * pfx * L) := map (fun '(p, (i, l)) => (i, p, l)) out.

Definition umkey (it : umitem) : list bool := bits (fst (fst it)).

Lemma union_mut_keys_sorted ba bb (ta : treeL) (tb : treeR) outm :
  wfL ba ta -> wfR bb tb -> union_mut ta tb = Some outm -> StronglySorted lex_lt (map umkey outm).
Proof.
  intros Ha Hb Hm.
  destruct (union_correct pfx L R peq contains is_bit_set plen lcp pzero mcmp bits ok LAWS ba bb ta tb Ha Hb)
    as [out [Hu Hspec]]. destruct Hspec as [Hs _].
  destruct (union_mut_mirrors pfx L R peq contains is_bit_set plen lcp pzero mcmp bits ok LAWS ba bb ta tb Ha Hb)
    as [out' [outm' [Hu' [Hm' E]]]].
  rewrite Hu in Hu'. inversion Hu'; subst out'. rewrite Hm in Hm'. inversion Hm'; subst outm'.
  apply (SS_map (UnionThm.ikey pfx L R bits)) in Hs.
  apply (f_equal (map (fun t : pfx * option L * option R => bits (fst (fst t))))) in E.
  rewrite !map_map in E.
  assert (E1 : map (UnionThm.ikey pfx L R bits) out = map umkey outm).
  { etransitivity; [|etransitivity; [exact E|]]; apply map_ext.
    - intros [p l a|p a r|p l r]; reflexivity.
    - intros [[p l] r]. reflexivity. }
  rewrite <- E1. exact Hs.
Qed.

(** [union_mut]: the left references are items of the left operand; the right references are
    items of the right operand up to the reported prefix (an item with both sides reports the
    left node's stored prefix, which denotes the same key); on either side the slots are
    pairwise distinct *)
Theorem union_mut_refs ba bb (ta : treeL) (tb : treeR) outm :
  wfL ba ta -> wfR bb tb -> union_mut ta tb = Some outm ->
  incl (um_lrefs outm) (entries_id ta) /\
  (forall i p y, In (i, p, y) (um_rrefs outm) ->
     exists pr, In (i, pr, y) (entries_id tb) /\ bits pr = bits p) /\
  (NoDup (idsL ta) -> NoDup (map (slot3 pfx L) (um_lrefs outm))) /\
  (NoDup (idsR tb) -> NoDup (map (slot3 pfx R) (um_rrefs outm))).
Proof.
  intros Ha Hb Hm.
  pose proof (union_mut_slots pfx L R peq contains is_bit_set plen lcp pzero mcmp bits ok LAWS
                ba bb ta tb outm Ha Hb Hm) as Hsl.
  pose proof (union_mut_keys_sorted ba bb ta tb outm Ha Hb Hm) as Hso.
  assert (HL : forall it i p x, In it outm -> um_lref it = Some (i, p, x) -> In (i, p, x) (entries_id ta)).
  { intros [[p0 l] r] i p x Hin E. cbn [um_lref] in E. destruct l as [[i0 x0]|]; [|discriminate].
    inversion E; subst. apply (proj1 (Hsl _ _ _ Hin) i x). reflexivity. }
  assert (HR : forall it i p y, In it outm -> um_rref it = Some (i, p, y) ->
                 exists pr, In (i, pr, y) (entries_id tb) /\ bits pr = umkey it).
  { intros [[p0 l] r] i p y Hin E. cbn [um_rref] in E. destruct r as [[i0 y0]|]; [|discriminate].
    inversion E; subst. exact (proj2 (proj2 (Hsl _ _ _ Hin) i y eq_refl)). }
  split; [|split; [|split]].
  - intros [[i p] x] He. apply in_refs_by in He. destruct He as [it [Hin E]]. exact (HL it i p x Hin E).
  - intros i p y He. apply in_refs_by in He. destruct He as [it [Hin E]].
    destruct (HR it i p y Hin E) as [pr [H1 H2]]. exists pr. split; [exact H1|].
    rewrite H2. destruct it as [[p0 l] r]. cbn [um_rref] in E. destruct r as [[i0 y0]|]; [|discriminate].
    inversion E; subst. reflexivity.
  - intros Hnd. apply (keyed_slots_nodup pfx L umitem bits umkey um_lref ta outm Hnd Hso).
    intros it i p x Hin E. exists p. split; [exact (HL it i p x Hin E)|].
    destruct it as [[p0 l] r]. cbn [um_lref] in E. destruct l as [[i0 x0]|]; [|discriminate].
    inversion E; subst. reflexivity.
  - intros Hnd. apply (keyed_slots_nodup pfx R umitem bits umkey um_rref tb outm Hnd Hso).
    exact HR.
Qed.

(** [intersection_mut] *)
Theorem intersection_mut_refs ba bb (ta : treeL) (tb : treeR) outm :
  wfL ba ta -> wfR bb tb -> intersection_mut ta tb = Some outm ->
  incl (im_lrefs outm) (entries_id ta) /\
  (forall j p y, In (j, p, y) (im_rrefs outm) ->
     exists pr, In (j, pr, y) (entries_id tb) /\ bits pr = bits p) /\
  (NoDup (idsL ta) -> NoDup (map (slot3 pfx L) (im_lrefs outm))) /\
  (NoDup (idsR tb) -> NoDup (map (slot3 pfx R) (im_rrefs outm))).
Proof.
  intros Ha Hb Hm.
  destruct (intersection_correct pfx L R peq contains is_bit_set plen lcp pzero mcmp bits ok LAWS ba bb ta tb Ha Hb)
    as [out [Hu Hspec]]. destruct Hspec as [Hs _].
  destruct (intersection_mut_mirrors pfx L R peq contains is_bit_set plen lcp pzero mcmp bits ok LAWS ba bb ta tb Ha Hb)
    as [out' [outm' [Hu' [Hm' [E Hsl]]]]].
  rewrite Hu in Hu'. injection Hu' as <-. rewrite Hm in Hm'. injection Hm' as <-.
  set (ki := fun it : imitem => bits (fst (fst it))).
  assert (Hso : StronglySorted lex_lt (map ki outm)).
  { apply (SS_map (fun i : pfx * L * R => bits (fst (fst i)))) in Hs. rewrite E, map_map in Hs.
    erewrite map_ext; [exact Hs|]. intros [[p [i l]] [j r]]. reflexivity. }
  set (sl := fun it : imitem => let '(p, (i, l), _) := it in Some (i, p, l)).
  set (sr := fun it : imitem => let '(p, _, (j, r)) := it in Some (j, p, r)).
  assert (EL : im_lrefs outm = refs_by sl outm).
  { symmetry. apply refs_by_total. intros [[p [i l]] [j r]]. reflexivity. }
  assert (ER : im_rrefs outm = refs_by sr outm).
  { symmetry. apply refs_by_total. intros [[p [i l]] [j r]]. reflexivity. }
  split; [|split; [|split]].
  - intros [[i p] x] He. unfold im_lrefs in He. apply in_map_iff in He.
    destruct He as [[[p0 [i0 l0]] [j0 r0]] [E0 Hin]]. inversion E0; subst.
    exact (proj1 (Hsl _ _ _ _ _ Hin)).
  - intros j p y He. unfold im_rrefs in He. apply in_map_iff in He.
    destruct He as [[[p0 [i0 l0]] [j0 r0]] [E0 Hin]]. inversion E0; subst.
    exact (proj2 (Hsl _ _ _ _ _ Hin)).
  - intros Hnd. rewrite EL. apply (keyed_slots_nodup pfx L imitem bits ki sl ta outm Hnd Hso).
    intros [[p0 [i0 l0]] [j0 r0]] i p x Hin E0. inversion E0; subst. exists p.
    split; [exact (proj1 (Hsl _ _ _ _ _ Hin)) | reflexivity].
  - intros Hnd. rewrite ER. apply (keyed_slots_nodup pfx R imitem bits ki sr tb outm Hnd Hso).
    intros [[p0 [i0 l0]] [j0 r0]] i p x Hin E0. inversion E0; subst.
    exact (proj2 (Hsl _ _ _ _ _ Hin)).
Qed.

(** [difference_mut] *)
Theorem difference_mut_refs ba bb (ta : treeL) (tb : treeR) outm :
  wfL ba ta -> wfR bb tb -> difference_mut ta tb = Some outm ->
  incl (dm_refs outm) (entries_id ta) /\
  (NoDup (idsL ta) -> NoDup (map (slot3 pfx L) (dm_refs outm))).
Proof.
  intros Ha Hb Hm.
  destruct (difference_correct pfx L R peq contains is_bit_set plen lcp pzero mcmp bits ok LAWS ba bb ta tb Ha Hb)
    as [out [Hu Hspec]]. destruct Hspec as [Hs _].
  destruct (difference_mut_mirrors pfx L R peq contains is_bit_set plen lcp pzero mcmp bits ok LAWS ba bb ta tb Ha Hb)
    as [out' [outm' [Hu' [Hm' [E Hsl]]]]].
  rewrite Hu in Hu'. injection Hu' as <-. rewrite Hm in Hm'. injection Hm' as <-.
  set (ki := fun it : dmitem => bits (fst (fst it))).
  assert (Hso : StronglySorted lex_lt (map ki outm)).
  { apply (SS_map (fun i : pfx * L * option (pfx * R) => bits (fst (fst i)))) in Hs. rewrite E, map_map in Hs.
    erewrite map_ext; [exact Hs|]. intros [[p [i l]] a]. reflexivity. }
  set (sl := fun it : dmitem => let '(p, (i, l), _) := it in Some (i, p, l)).
  assert (EL : dm_refs outm = refs_by sl outm).
  { symmetry. apply refs_by_total. intros [[p [i l]] a]. reflexivity. }
  split.
  - intros [[i p] x] He. unfold dm_refs in He. apply in_map_iff in He.
    destruct He as [[[p0 [i0 l0]] a0] [E0 Hin]]. inversion E0; subst. exact (Hsl _ _ _ _ Hin).
  - intros Hnd. rewrite EL. apply (keyed_slots_nodup pfx L dmitem bits ki sl ta outm Hnd Hso).
    intros [[p0 [i0 l0]] a0] i p x Hin E0. inversion E0; subst. exists p.
    split; [exact (Hsl _ _ _ _ Hin) | reflexivity].
Qed.

(** [covering_difference_mut] *)
Theorem covering_difference_mut_refs ba bb (ta : treeL) (tb : treeR) outm :
  wfL ba ta -> wfR bb tb -> covering_difference_mut ta tb = Some outm ->
  incl (cdm_refs outm) (entries_id ta) /\
  (NoDup (idsL ta) -> NoDup (map (slot3 pfx L) (cdm_refs outm))).
Proof.
  intros Ha Hb Hm.
  destruct (covering_difference_correct pfx L R peq contains is_bit_set plen lcp pzero mcmp bits ok LAWS ba bb ta tb Ha Hb)
    as [out [Hu Hspec]]. destruct Hspec as [Hs _].
  destruct (covering_difference_mut_mirrors pfx L R peq contains is_bit_set plen lcp pzero mcmp bits ok LAWS ba bb ta tb Ha Hb)
    as [out' [outm' [Hu' [Hm' [E Hsl]]]]].
  rewrite Hu in Hu'. injection Hu' as <-. rewrite Hm in Hm'. injection Hm' as <-.
  set (ki := fun it : pfx * (N * L) => bits (fst it)).
  assert (Hso : StronglySorted lex_lt (map ki outm)).
  { apply (SS_map (fun i : pfx * L => bits (fst i))) in Hs. rewrite E, map_map in Hs.
    erewrite map_ext; [exact Hs|]. intros [p [i l]]. reflexivity. }
  set (sl := fun it : pfx * (N * L) => let '(p, (i, l)) := it in Some (i, p, l)).
  assert (EL : cdm_refs outm = refs_by sl outm).
  { symmetry. apply refs_by_total. intros [p [i l]]. reflexivity. }
  split.
  - intros [[i p] x] He. unfold cdm_refs in He. apply in_map_iff in He.
    destruct He as [[p0 [i0 l0]] [E0 Hin]]. inversion E0; subst. exact (Hsl _ _ _ Hin).
  - intros Hnd. rewrite EL. apply (keyed_slots_nodup pfx L (pfx * (N * L))%type bits ki sl ta outm Hnd Hso).
    intros [p0 [i0 l0]] i p x Hin E0. inversion E0; subst. exists p.
    split; [exact (Hsl _ _ _ Hin) | reflexivity].
Qed.

End XSO.

(* ------------------------------------------------------------------------------------------ *)
(** ** [*_mut] set operations over two disjoint sub-views of ONE map *)
Section XD.
Variables (pfx V : Type).
Variables (peq contains : pfx -> pfx -> bool) (is_bit_set : pfx -> N -> bool)
          (plen : pfx -> N) (lcp : pfx -> pfx -> pfx) (pzero : pfx)
          (mcmp : pfx -> pfx -> comparison).
Variable bits : pfx -> list bool.
Variable ok : pfx -> Prop.
Hypothesis LAWS : prefix_laws pfx peq contains is_bit_set plen lcp pzero mcmp bits ok.

Notation tree := (Trie.tree pfx V).
Notation ids := (Slots.ids pfx V).
Notation slot3 := (MutTrav.slot3 pfx V).
Notation wf_under := (TrieWf.wf_under pfx V bits ok).
Notation union_mut := (SetOps.union_mut pfx V V contains is_bit_set plen pzero mcmp).
Notation intersection_mut := (SetOps.intersection_mut pfx V V contains is_bit_set plen pzero mcmp).
Notation difference_mut := (SetOps.difference_mut pfx V V contains is_bit_set plen pzero mcmp).
Notation covering_difference_mut := (SetOps.covering_difference_mut pfx V V contains is_bit_set plen pzero mcmp).

Lemma refs_slots_in_ids (t : tree) (items : list (N * pfx * V)) :
  incl items (entries_id t) -> incl (map slot3 items) (ids t).
Proof.
  intros H i Hi. apply slots_in_ids. eapply incl_map; [exact H | exact Hi].
Qed.

Lemma keyed_refs_in_ids (t : tree) (items : list (N * pfx * V)) :
  (forall i p y, In (i, p, y) items -> exists pr, In (i, pr, y) (entries_id t) /\ bits pr = bits p) ->
  incl (map slot3 items) (ids t).
Proof.
  intros H i Hi. apply in_map_iff in Hi. destruct Hi as [[[j p] y] [<- Hin]].
  destruct (H j p y Hin) as [pr [Hpr _]]. exact (entries_id_in_ids pfx V t j pr y Hpr).
Qed.

Section Two.
Variables (b : list bool) (T : tree) (pa1 pa2 : path).
Hypothesis Hwf : wf_under b T.
Hypothesis Hnd : NoDup (ids T).
Hypothesis H12 : ~ prefix_of pa1 pa2.
Hypothesis H21 : ~ prefix_of pa2 pa1.

Let Hdis := subtree_slots_disjoint pfx V pa1 T pa2 Hnd H12 H21.

(** all references handed out by [union_mut] over the two views — on both sides together — are
    pairwise distinct, the left ones inside the first view, the right ones inside the second *)
Theorem union_mut_views_disjoint outm :
  union_mut (subtree T pa1) (subtree T pa2) = Some outm ->
  incl (map slot3 (um_lrefs pfx V V outm)) (ids (subtree T pa1)) /\
  incl (map slot3 (um_rrefs pfx V V outm)) (ids (subtree T pa2)) /\
  NoDup (map slot3 (um_lrefs pfx V V outm) ++ map slot3 (um_rrefs pfx V V outm)).
Proof.
  intros Hm.
  destruct (subtree_wf pfx V bits ok pa1 b T Hwf) as [b1 W1].
  destruct (subtree_wf pfx V bits ok pa2 b T Hwf) as [b2 W2].
  destruct (union_mut_refs pfx V V peq contains is_bit_set plen lcp pzero mcmp bits ok LAWS
              b1 b2 _ _ outm W1 W2 Hm) as [A [B [C D]]].
  pose proof (refs_slots_in_ids _ _ A) as IA. pose proof (keyed_refs_in_ids _ _ B) as IB.
  split; [exact IA|]. split; [exact IB|].
  apply nodup_app_intro.
  - apply C. apply subtree_nodup. exact Hnd.
  - apply D. apply subtree_nodup. exact Hnd.
  - intros i H1 H2. exact (Hdis i (IA i H1) (IB i H2)).
Qed.

Theorem intersection_mut_views_disjoint outm :
  intersection_mut (subtree T pa1) (subtree T pa2) = Some outm ->
  incl (map slot3 (im_lrefs pfx V V outm)) (ids (subtree T pa1)) /\
  incl (map slot3 (im_rrefs pfx V V outm)) (ids (subtree T pa2)) /\
  NoDup (map slot3 (im_lrefs pfx V V outm) ++ map slot3 (im_rrefs pfx V V outm)).
Proof.
  intros Hm.
  destruct (subtree_wf pfx V bits ok pa1 b T Hwf) as [b1 W1].
  destruct (subtree_wf pfx V bits ok pa2 b T Hwf) as [b2 W2].
  destruct (intersection_mut_refs pfx V V peq contains is_bit_set plen lcp pzero mcmp bits ok LAWS
              b1 b2 _ _ outm W1 W2 Hm) as [A [B [C D]]].
  pose proof (refs_slots_in_ids _ _ A) as IA. pose proof (keyed_refs_in_ids _ _ B) as IB.
  split; [exact IA|]. split; [exact IB|].
  apply nodup_app_intro.
  - apply C. apply subtree_nodup. exact Hnd.
  - apply D. apply subtree_nodup. exact Hnd.
  - intros i H1 H2. exact (Hdis i (IA i H1) (IB i H2)).
Qed.

(** [difference_mut] / [covering_difference_mut] borrow only the left view mutably: the
    references are pairwise distinct slots of the left view, none of which belongs to the
    (read-only) right view *)
Theorem difference_mut_views_disjoint outm :
  difference_mut (subtree T pa1) (subtree T pa2) = Some outm ->
  incl (map slot3 (dm_refs pfx V V outm)) (ids (subtree T pa1)) /\
  NoDup (map slot3 (dm_refs pfx V V outm)) /\
  (forall i, In i (map slot3 (dm_refs pfx V V outm)) -> ~ In i (ids (subtree T pa2))).
Proof.
  intros Hm.
  destruct (subtree_wf pfx V bits ok pa1 b T Hwf) as [b1 W1].
  destruct (subtree_wf pfx V bits ok pa2 b T Hwf) as [b2 W2].
  destruct (difference_mut_refs pfx V V peq contains is_bit_set plen lcp pzero mcmp bits ok LAWS
              b1 b2 _ _ outm W1 W2 Hm) as [A C].
  pose proof (refs_slots_in_ids _ _ A) as IA.
  split; [exact IA|]. split; [apply C; apply subtree_nodup; exact Hnd|].
  intros i H1. exact (Hdis i (IA i H1)).
Qed.

Theorem covering_difference_mut_views_disjoint outm :
  covering_difference_mut (subtree T pa1) (subtree T pa2) = Some outm ->
  incl (map slot3 (cdm_refs pfx V outm)) (ids (subtree T pa1)) /\
  NoDup (map slot3 (cdm_refs pfx V outm)) /\
  (forall i, In i (map slot3 (cdm_refs pfx V outm)) -> ~ In i (ids (subtree T pa2))).
Proof.
  intros Hm.
  destruct (subtree_wf pfx V bits ok pa1 b T Hwf) as [b1 W1].
  destruct (subtree_wf pfx V bits ok pa2 b T Hwf) as [b2 W2].
  destruct (covering_difference_mut_refs pfx V V peq contains is_bit_set plen lcp pzero mcmp bits ok LAWS
              b1 b2 _ _ outm W1 W2 Hm) as [A C].
  pose proof (refs_slots_in_ids _ _ A) as IA.
  split; [exact IA|]. split; [apply C; apply subtree_nodup; exact Hnd|].
  intros i H1. exact (Hdis i (IA i H1)).
Qed.

End Two.
End XD.

(* ========================================================================================== *)
Print Assumptions write_ids_entries_id_newval.
Print Assumptions write_ids_entries_newval.
Print Assumptions write_ids_written.
Print Assumptions write_ids_untouched.
Print Assumptions write_ids_in_inv.
Print Assumptions write_ids_written_nodup.
Print Assumptions write_ids_nth.
Print Assumptions vm_value_mut_write.
Print Assumptions vm_value_mut_none.
Print Assumptions vm_value_mut_sim.
Print Assumptions interleave_perm.
Print Assumptions interleave_sequential.
Print Assumptions interleave_sequential_sym.
Print Assumptions vm_derived_slots.
Print Assumptions vm_tree_frame.
Print Assumptions vm_split_slots_disjoint.
Print Assumptions vm_split_derived_disjoint.
Print Assumptions vm_apply_comm.
Print Assumptions vm_apply_other.
Print Assumptions get_node_write_ids.
Print Assumptions get_write_ids.
Print Assumptions get_key_value_write_ids.
Print Assumptions get_lpm_write_ids.
Print Assumptions update_value_absent.
Print Assumptions write_ids_get.
Print Assumptions get_node_item.
Print Assumptions reachable_nodup.
Print Assumptions subtree_wf.
Print Assumptions union_mut_refs.
Print Assumptions intersection_mut_refs.
Print Assumptions difference_mut_refs.
Print Assumptions covering_difference_mut_refs.
Print Assumptions union_mut_views_disjoint.
Print Assumptions intersection_mut_views_disjoint.
Print Assumptions difference_mut_views_disjoint.
Print Assumptions covering_difference_mut_views_disjoint.
