(** The single-key mutators refine an abstract map keyed by [bits]: they preserve
    well-formedness and change the entry list exactly as the abstract map operation does. *)
From Coq Require Import List NArith ZArith Bool Arith Lia Sorted.
From PT Require Import Bits BitsThm Laws Machine Trie TrieWf Lookup.
Import ListNotations.

Section MU.
Variables (pfx V : Type).
Variables (peq contains : pfx -> pfx -> bool) (is_bit_set : pfx -> N -> bool)
          (plen : pfx -> N) (lcp : pfx -> pfx -> pfx) (pzero : pfx)
          (mcmp : pfx -> pfx -> comparison).
Variable bits : pfx -> list bool.
Variable ok : pfx -> Prop.
Hypothesis LAWS : prefix_laws pfx peq contains is_bit_set plen lcp pzero mcmp bits ok.

Notation tree := (Trie.tree pfx V).
Notation pmap := (Trie.pmap pfx V).
Notation to_right := (Trie.to_right pfx is_bit_set plen).
Notation wf_under := (TrieWf.wf_under pfx V bits ok).
Notation wf_root := (TrieWf.wf_root pfx V bits ok).
Notation key := (TrieWf.key pfx V bits).
Notation key_lt := (TrieWf.key_lt pfx V bits).
Notation child_of := (TrieWf.child_of pfx V).
Notation root_covers := (Lookup.root_covers pfx V bits).
Notation get_node := (Trie.get_node pfx V peq contains is_bit_set plen).
Notation get := (Trie.get pfx V peq contains is_bit_set plen).
Notation with_child := (Trie.with_child pfx V).
Notation tpfx := (Trie.tpfx pfx V pzero).
Notation ins := (Trie.ins pfx V peq contains is_bit_set plen lcp).
Notation vins := (Trie.vins pfx V peq contains is_bit_set plen lcp).
Notation modify := (Trie.modify pfx V peq contains is_bit_set plen).
Notation remove_self := (Trie.remove_self pfx V).
Notation absorb := (Trie.absorb pfx V).
Notation rem := (Trie.rem pfx V peq contains is_bit_set plen).
Notation rc := (Trie.rc pfx V peq contains is_bit_set plen).
Notation insert := (Trie.insert pfx V peq contains is_bit_set plen lcp).
Notation remove := (Trie.remove pfx V peq contains is_bit_set plen).
Notation remove_keep_tree := (Trie.remove_keep_tree pfx V peq contains is_bit_set plen).
Notation remove_children := (Trie.remove_children pfx V peq contains is_bit_set plen pzero).
Notation clear := (Trie.clear pfx V pzero).
Notation empty := (Trie.empty pfx V pzero).
Notation vacant_insert := (Trie.vacant_insert pfx V peq contains is_bit_set plen lcp).
Notation occ_insert := (Trie.occ_insert pfx V peq contains is_bit_set plen).
Notation occ_remove := (Trie.occ_remove pfx V peq contains is_bit_set plen).
Notation update_value := (Trie.update_value pfx V peq contains is_bit_set plen).
Notation from_list := (Trie.from_list pfx V peq contains is_bit_set plen lcp pzero).

Local Notation peq_true := (TrieWf.peq_true pfx peq contains is_bit_set plen lcp pzero mcmp bits ok LAWS).
Local Notation peq_false := (TrieWf.peq_false pfx peq contains is_bit_set plen lcp pzero mcmp bits ok LAWS).
Local Notation peq_refl_bits := (TrieWf.peq_refl_bits pfx peq contains is_bit_set plen lcp pzero mcmp bits ok LAWS).
Local Notation contains_true := (TrieWf.contains_true pfx peq contains is_bit_set plen lcp pzero mcmp bits ok LAWS).
Local Notation contains_false := (TrieWf.contains_false pfx peq contains is_bit_set plen lcp pzero mcmp bits ok LAWS).
Local Notation contains_intro := (TrieWf.contains_intro pfx peq contains is_bit_set plen lcp pzero mcmp bits ok LAWS).
Local Notation to_right_spec := (TrieWf.to_right_spec pfx peq contains is_bit_set plen lcp pzero mcmp bits ok LAWS).
Local Notation descent_side := (TrieWf.descent_side pfx peq contains is_bit_set plen lcp pzero mcmp bits ok LAWS).
Local Notation subtree_no_cover := (TrieWf.subtree_no_cover pfx V peq contains is_bit_set plen lcp pzero mcmp bits ok LAWS).
Local Notation other_side_incomparable :=
  (TrieWf.other_side_incomparable pfx V peq contains is_bit_set plen lcp pzero mcmp bits ok LAWS).
Local Notation wf_node_inv := (TrieWf.wf_node_inv pfx V bits ok).
Local Notation wf_weaken := (TrieWf.wf_weaken pfx V bits ok).
Local Notation wf_self := (TrieWf.wf_self pfx V bits ok).
Local Notation wf_child := (TrieWf.wf_child pfx V bits ok).
Local Notation entries_under := (TrieWf.entries_under pfx V bits ok).
Local Notation entries_ok := (TrieWf.entries_ok pfx V bits ok).
Local Notation entries_sorted := (TrieWf.entries_sorted pfx V bits ok).
Local Notation get_node_sound := (Lookup.get_node_sound pfx V peq contains is_bit_set plen lcp pzero mcmp bits ok LAWS).
Local Notation get_node_complete := (Lookup.get_node_complete pfx V peq contains is_bit_set plen lcp pzero mcmp bits ok LAWS).
Local Notation get_spec := (Lookup.get_spec pfx V peq contains is_bit_set plen lcp pzero mcmp bits ok LAWS).

(* ---------------------------------------------------------------------------------------- *)
(** * Generic facts about one step of a descent *)

Lemma child_of_with_child_id i p v l r s : with_child i p v l r s (child_of l r s) = Node i p v l r.
Proof. destruct s; reflexivity. Qed.

Lemma with_child_root i p v l r s c' :
  exists l' r', with_child i p v l r s c' = Node i p v l' r'.
Proof. destruct s; cbn; eauto. Qed.

Lemma with_child_wf b i p v l r s c' :
  wf_under b (Node i p v l r) -> wf_under (bits p ++ [s]) c' -> wf_under b (with_child i p v l r s c').
Proof. intros [H0 [H1 [H2 H3]]] Hc. destruct s; cbn; auto. Qed.

Lemma in_with_child i p v l r s c' (e : pfx * V) :
  In e (entries (with_child i p v l r s c')) <->
  (v = Some (snd e) /\ fst e = p) \/ In e (entries c') \/ In e (entries (child_of l r (negb s))).
Proof.
  destruct s; cbn [Trie.with_child negb TrieWf.child_of].
  - rewrite (in_entries_node pfx V i p v l c' true e). cbn [TrieWf.child_of negb]. reflexivity.
  - rewrite (in_entries_node pfx V i p v c' r false e). cbn [TrieWf.child_of negb]. reflexivity.
Qed.

(** replacing the selected child by [c'], whose entries are [A] plus the kept ([K]) entries of the
    old child, when the node's own entry and the other side are kept *)
Lemma with_child_spec b i p v l r s c' (A K : pfx * V -> Prop) :
  wf_under b (Node i p v l r) ->
  (forall x, v = Some x -> K (p, x)) ->
  (forall e, In e (entries (child_of l r (negb s))) -> K e) ->
  wf_under (bits p ++ [s]) c' ->
  (forall e, In e (entries c') <-> A e \/ (In e (entries (child_of l r s)) /\ K e)) ->
  wf_under b (with_child i p v l r s c') /\
  forall e, In e (entries (with_child i p v l r s c')) <-> A e \/ (In e (entries (Node i p v l r)) /\ K e).
Proof.
  intros Hwf Hown Hoth Hwc Hc'. split; [apply with_child_wf; assumption|].
  intros e. rewrite in_with_child, (in_entries_node pfx V i p v l r s e), Hc'.
  assert (Ho : v = Some (snd e) /\ fst e = p -> K e).
  { intros [Hv Hp]. destruct e as [p0 x0]. cbn in Hv, Hp. subst p0. apply Hown. exact Hv. }
  specialize (Hoth e). tauto.
Qed.

(** a node can be re-hung under any bound its own key extends *)
Lemma wf_rebound b b' i p v l r :
  wf_under b (Node i p v l r) -> prefix_of b' (bits p) -> wf_under b' (Node i p v l r).
Proof. intros [H0 [H1 H2]] H. cbn. auto. Qed.

(** what is known at a node that is not the target of the descent *)
Lemma step_ctx b i p v l r q :
  wf_under b (Node i p v l r) -> ok q -> prefix_of (bits p) (bits q) -> peq p q = false ->
  ok p /\ bits p <> bits q /\
  wf_under (bits p ++ [to_right p q]) (child_of l r (to_right p q)) /\
  prefix_of (bits p ++ [to_right p q]) (bits q) /\
  (forall e, In e (entries (child_of l r (negb (to_right p q)))) ->
             ~ prefix_of (key e) (bits q) /\ ~ prefix_of (bits q) (key e)).
Proof.
  intros Hwf Hq Hc Hne.
  pose proof (wf_node_inv _ _ _ _ _ _ Hwf) as [Hp _].
  split; [exact Hp|]. split; [apply peq_false; assumption|].
  split; [eapply wf_child; exact Hwf|].
  split; [apply descent_side; assumption|].
  intros e He. eapply other_side_incomparable; eassumption.
Qed.

Lemma not_cover_neq (k q : list bool) : ~ prefix_of k q -> k <> q.
Proof. intros H E. apply H. rewrite E. apply prefix_of_refl. Qed.

(** entries strictly below a node differ from the node's key *)
Lemma below_key_neq bnd s t (e : pfx * V) :
  wf_under (bnd ++ [s]) t -> In e (entries t) -> key e <> bnd.
Proof.
  intros Hwf Hin E. eapply below_neq; [|exact E]. eapply entries_under; eassumption.
Qed.

(* ---------------------------------------------------------------------------------------- *)
(** * [ins] *)

Lemma ins_node i p v l r q x a :
  ins (Node i p v l r) q x a =
  if peq p q then (Node i q (Some x) l r, v, inc_if_none v a) else
  let s := to_right p q in
  let c := child_of l r s in
  match c with
  | Leaf => let '(n, a1) := new_node a true in
            (with_child i p v l r s (Node n q (Some x) Leaf Leaf), None, a1)
  | Node _ cp _ _ _ =>
    if contains cp q then let '(c', o, a') := ins c q x a in (with_child i p v l r s c', o, a')
    else if contains q cp then
      let '(n, a1) := new_node a true in
      let nn := if to_right q cp then Node n q (Some x) Leaf c else Node n q (Some x) c Leaf in
      (with_child i p v l r s nn, None, a1)
    else
      let bp := lcp q cp in
      let '(b, a1) := new_node a false in
      let '(n, a2) := new_node a1 true in
      let nn := Node n q (Some x) Leaf Leaf in
      let bn := if to_right bp q then Node b bp None c nn else Node b bp None nn c in
      (with_child i p v l r s bn, None, a2)
  end.
Proof. reflexivity. Qed.

(** NewChild: the new node is placed between the parent and the old child *)
Lemma new_child_spec bnd ci cp cv cl cr q x n :
  let c := Node ci cp cv cl cr in
  wf_under bnd c -> ok q -> prefix_of bnd (bits q) ->
  contains cp q = false -> contains q cp = true ->
  let nn := if to_right q cp then Node n q (Some x) Leaf c else Node n q (Some x) c Leaf in
  wf_under bnd nn /\ forall e, In e (entries nn) <-> e = (q, x) \/ In e (entries c).
Proof.
  intros c Hwf Hq Hb C1 C2 nn.
  pose proof (wf_node_inv _ _ _ _ _ _ Hwf) as [Hcp _].
  assert (Hcov : prefix_of (bits q) (bits cp)) by (apply contains_true; assumption).
  assert (Hne : peq q cp = false).
  { destruct (peq q cp) eqn:E; [|reflexivity]. exfalso.
    eapply contains_false; [exact Hcp | exact Hq | exact C1|].
    rewrite (peq_true q cp Hq Hcp E). apply prefix_of_refl. }
  pose proof (descent_side q cp Hq Hcp Hcov Hne) as Hside.
  assert (Hc' : wf_under (bits q ++ [to_right q cp]) c) by (eapply wf_rebound; eassumption).
  subst nn. destruct (to_right q cp); split.
  - cbn [TrieWf.wf_under]. auto.
  - intros e. cbn [entries]. cbn [app In]. intuition.
  - cbn [TrieWf.wf_under]. auto.
  - intros e. fold c. cbn [entries]. rewrite app_nil_r. cbn [app In]. intuition.
Qed.

(** NewBranch: a value-less branch node at the common prefix *)
Lemma new_branch_spec bnd ci cp cv cl cr q x n b0 :
  let c := Node ci cp cv cl cr in
  wf_under bnd c -> ok q -> prefix_of bnd (bits q) ->
  contains cp q = false -> contains q cp = false ->
  let bp := lcp q cp in
  let nn := Node n q (Some x) Leaf Leaf in
  let bn := if to_right bp q then Node b0 bp None c nn else Node b0 bp None nn c in
  wf_under bnd bn /\ forall e, In e (entries bn) <-> e = (q, x) \/ In e (entries c).
Proof.
  intros c Hwf Hq Hb C1 C2 bp nn bn.
  pose proof (wf_node_inv _ _ _ _ _ _ Hwf) as [Hcp [Hbcp _]].
  assert (Hbp : ok bp) by (apply (lcp_ok _ _ _ _ _ _ _ _ _ _ LAWS); assumption).
  assert (Ebp : bits bp = common (bits q) (bits cp)) by (apply (lcp_spec _ _ _ _ _ _ _ _ _ _ LAWS); assumption).
  pose proof (contains_false cp q Hcp Hq C1) as N1.
  pose proof (contains_false q cp Hq Hcp C2) as N2.
  destruct (common_split (bits q) (bits cp) N2 N1) as [s [S1 S2]]. rewrite <- Ebp in S1, S2.
  assert (Es : to_right bp q = s).
  { rewrite to_right_spec by assumption. apply ext_bit. exact S1. }
  assert (Hbb : prefix_of bnd (bits bp)) by (rewrite Ebp; apply common_greatest; assumption).
  assert (Hc' : wf_under (bits bp ++ [negb s]) c) by (eapply wf_rebound; eassumption).
  assert (Hnn : wf_under (bits bp ++ [s]) nn) by (cbn; auto).
  subst bn. rewrite Es. destruct s; cbn [negb] in *; split.
  - cbn [TrieWf.wf_under]. auto.
  - intros e. unfold nn. cbn [entries]. cbn [app In]. rewrite in_app_iff. cbn [In]. intuition.
  - cbn [TrieWf.wf_under]. auto.
  - intros e. unfold nn. cbn [entries]. cbn [app In]. intuition.
Qed.

(** the previous value is what [get] finds (purely syntactic) *)
Lemma ins_ret t : forall q x a, snd (fst (ins t q x a)) = get t q.
Proof.
  induction t as [|i p v l IHl r IHr]; intros q x a; [reflexivity|].
  unfold Trie.get. cbn [Trie.ins Trie.get_node].
  destruct (peq p q); [reflexivity|].
  destruct (to_right p q).
  - destruct r as [|ci cp cv cl cr].
    + destruct (new_node a true); reflexivity.
    + destruct (contains cp q).
      * specialize (IHr q x a). unfold Trie.get in IHr.
        destruct (ins (Node ci cp cv cl cr) q x a) as [[c' o] a']. exact IHr.
      * destruct (contains q cp).
        -- destruct (new_node a true); reflexivity.
        -- destruct (new_node a false) as [b0 a1]. destruct (new_node a1 true). reflexivity.
  - destruct l as [|ci cp cv cl cr].
    + destruct (new_node a true); reflexivity.
    + destruct (contains cp q).
      * specialize (IHl q x a). unfold Trie.get in IHl.
        destruct (ins (Node ci cp cv cl cr) q x a) as [[c' o] a']. exact IHl.
      * destruct (contains q cp).
        -- destruct (new_node a true); reflexivity.
        -- destruct (new_node a false) as [b0 a1]. destruct (new_node a1 true). reflexivity.
Qed.

Definition ins_post (b : list bool) (t : tree) (q : pfx) (x : V) (t' : tree) : Prop :=
  wf_under b t' /\ t' <> Leaf /\ bits (tpfx t') = bits (tpfx t) /\ tid t' = tid t /\
  (forall e, In e (entries t') <-> e = (q, x) \/ (In e (entries t) /\ key e <> bits q)).

Lemma ins_tree_spec t : forall b q x a,
  wf_under b t -> ok q -> root_covers t q -> t <> Leaf ->
  ins_post b t q x (fst (fst (ins t q x a))).
Proof.
  induction t as [|i p v l IHl r IHr]; intros b q x a Hwf Hq Hrc Hnl; [congruence|].
  pose proof (wf_node_inv _ _ _ _ _ _ Hwf) as [Hp [Hbp [Hl Hr]]].
  cbn in Hrc. rewrite ins_node.
  destruct (peq p q) eqn:E.
  - (* Reached *)
    cbn [fst]. pose proof (peq_true p q Hp Hq E) as Hk.
    unfold ins_post. cbn [Trie.tpfx Trie.tid].
    split; [cbn [TrieWf.wf_under]; rewrite <- Hk; auto|].
    split; [discriminate|]. split; [symmetry; exact Hk|]. split; [reflexivity|].
    intros e.
    rewrite (in_entries_node pfx V i q (Some x) l r true e), (in_entries_node pfx V i p v l r true e).
    cbn [TrieWf.child_of negb].
    assert (Hl' : In e (entries l) -> key e <> bits q) by (rewrite <- Hk; eapply below_key_neq; exact Hl).
    assert (Hr' : In e (entries r) -> key e <> bits q) by (rewrite <- Hk; eapply below_key_neq; exact Hr).
    assert (Hown : fst e = p -> key e = bits q) by (intros <-; exact Hk).
    assert (Hnew : Some x = Some (snd e) /\ fst e = q <-> e = (q, x)).
    { destruct e as [p0 x0]. cbn. split; [intros [A B]; congruence | intros A; inversion A; auto]. }
    tauto.
  - destruct (step_ctx _ _ _ _ _ _ _ Hwf Hq Hrc E) as [_ [Hne [Hc [Hside Hoth]]]].
    cbv zeta. set (s := to_right p q) in *.
    assert (IHc : forall b q x a, wf_under b (child_of l r s) -> ok q -> root_covers (child_of l r s) q ->
                    child_of l r s <> Leaf -> ins_post b (child_of l r s) q x (fst (fst (ins (child_of l r s) q x a))))
      by (destruct s; assumption).
    (* it suffices to exhibit the new child *)
    assert (Hfin : forall c' (o : option V) (a' : alloc),
               wf_under (bits p ++ [s]) c' ->
               (forall e, In e (entries c') <-> e = (q, x) \/ (In e (entries (child_of l r s)) /\ key e <> bits q)) ->
               ins_post b (Node i p v l r) q x (fst (fst (with_child i p v l r s c', o, a')))).
    { intros c' o a' Hwc Hec. cbn [fst].
      destruct (with_child_spec b i p v l r s c' (fun e => e = (q, x)) (fun e => key e <> bits q)) as [W1 W2];
        try assumption.
      - intros x0 _. exact Hne.
      - intros e He. apply not_cover_neq. apply (Hoth e He).
      - destruct (with_child_root i p v l r s c') as [l' [r' Ew]].
        unfold ins_post. rewrite Ew in *. cbn [Trie.tpfx Trie.tid].
        split; [exact W1|]. split; [discriminate|]. split; [reflexivity|]. split; [reflexivity|]. exact W2. }
    (* entries of a child whose root does not cover [q] *)
    assert (Hnc : forall cp, match child_of l r s with Leaf => True | Node _ cp' _ _ _ => cp' = cp end ->
                    contains cp q = false ->
                    forall e, In e (entries (child_of l r s)) -> key e <> bits q).
    { intros cp Hm C e He. apply not_cover_neq. eapply subtree_no_cover; [exact Hc | exact Hq | | exact He].
      destruct (child_of l r s); [exact I | subst; exact C]. }
    remember (child_of l r s) as c eqn:Ec.
    destruct c as [|ci cp cv cl cr].
    + (* NewLeaf *)
      destruct (new_node a true) as [n a1]. apply Hfin.
      * cbn. auto.
      * intros e. cbn. split; [intros [<-|[]]; left; reflexivity | intros [->|[[] _]]; left; reflexivity].
    + pose proof (wf_node_inv _ _ _ _ _ _ Hc) as [Hcp _].
      destruct (contains cp q) eqn:C1.
      * (* Enter *)
        specialize (IHc (bits p ++ [s]) q x a Hc Hq).
        destruct (ins (Node ci cp cv cl cr) q x a) as [[c' o] a']. cbn [fst] in IHc.
        destruct IHc as [W1 [_ [_ [_ W2]]]]; [apply contains_true; assumption | discriminate|].
        apply Hfin; assumption.
      * specialize (Hnc cp eq_refl C1).
        destruct (contains q cp) eqn:C2.
        -- (* NewChild *)
           destruct (new_node a true) as [n a1].
           destruct (new_child_spec _ ci cp cv cl cr q x n Hc Hq Hside C1 C2) as [W1 W2].
           apply Hfin; [exact W1|]. intros e. rewrite W2. specialize (Hnc e). tauto.
        -- (* NewBranch *)
           destruct (new_node a false) as [b0 a1]. destruct (new_node a1 true) as [n a2].
           destruct (new_branch_spec _ ci cp cv cl cr q x n b0 Hc Hq Hside C1 C2) as [W1 W2].
           apply Hfin; [exact W1|]. intros e. rewrite W2. specialize (Hnc e). tauto.
Qed.

(** ** Main theorem for [ins] *)
Theorem ins_spec b t q x a t' o a' :
  wf_under b t -> ok q -> root_covers t q -> t <> Leaf ->
  ins t q x a = (t', o, a') ->
  wf_under b t' /\ t' <> Leaf /\ bits (tpfx t') = bits (tpfx t) /\ tid t' = tid t /\
  (forall e, In e (entries t') <-> e = (q, x) \/ (In e (entries t) /\ key e <> bits q)) /\
  o = get t q.
Proof.
  intros Hwf Hq Hrc Hnl H.
  pose proof (ins_tree_spec t b q x a Hwf Hq Hrc Hnl) as P. pose proof (ins_ret t q x a) as R.
  rewrite H in P, R. cbn [fst snd] in P, R. destruct P as [P1 [P2 [P3 [P4 P5]]]].
  repeat split; try assumption; apply P5.
Qed.

Lemma ins_wf_root t q x a t' o a' :
  wf_root t -> ok q -> ins t q x a = (t', o, a') -> wf_root t'.
Proof.
  intros Hr Hq H. destruct t as [|i p v l r]; [contradiction|]. destruct Hr as [Eb Hwf].
  destruct (ins_spec [] _ q x a t' o a' Hwf Hq) as [P1 [P2 [P3 _]]]; [cbn; rewrite Eb; apply prefix_of_nil | discriminate | exact H|].
  destruct t' as [|i' p' v' l' r']; [congruence|]. cbn in P3. split; [congruence | exact P1].
Qed.

(* ---------------------------------------------------------------------------------------- *)
(** * [vins]: the same tree as [ins] *)

Lemma vins_tree t : forall q x a, fst (vins t q x a) = fst (fst (ins t q x a)).
Proof.
  induction t as [|i p v l IHl r IHr]; intros q x a; [reflexivity|].
  cbn [Trie.ins Trie.vins].
  destruct (peq p q); [reflexivity|].
  destruct (to_right p q).
  - destruct r as [|ci cp cv cl cr].
    + destruct (new_node a true); reflexivity.
    + destruct (contains cp q).
      * specialize (IHr q x a).
        destruct (ins (Node ci cp cv cl cr) q x a) as [[c' o] a'].
        destruct (vins (Node ci cp cv cl cr) q x a) as [c'' a'']. cbn [fst] in *. subst. reflexivity.
      * destruct (contains q cp).
        -- destruct (new_node a true); reflexivity.
        -- destruct (new_node a false) as [b0 a1]. destruct (new_node a1 true). reflexivity.
  - destruct l as [|ci cp cv cl cr].
    + destruct (new_node a true); reflexivity.
    + destruct (contains cp q).
      * specialize (IHl q x a).
        destruct (ins (Node ci cp cv cl cr) q x a) as [[c' o] a'].
        destruct (vins (Node ci cp cv cl cr) q x a) as [c'' a'']. cbn [fst] in *. subst. reflexivity.
      * destruct (contains q cp).
        -- destruct (new_node a true); reflexivity.
        -- destruct (new_node a false) as [b0 a1]. destruct (new_node a1 true). reflexivity.
Qed.

(** ** Main theorem for [vins] *)
Theorem vins_spec b t q x a t' a' :
  wf_under b t -> ok q -> root_covers t q -> t <> Leaf ->
  vins t q x a = (t', a') ->
  wf_under b t' /\ t' <> Leaf /\ bits (tpfx t') = bits (tpfx t) /\ tid t' = tid t /\
  (forall e, In e (entries t') <-> e = (q, x) \/ (In e (entries t) /\ key e <> bits q)).
Proof.
  intros Hwf Hq Hrc Hnl H.
  pose proof (ins_tree_spec t b q x a Hwf Hq Hrc Hnl) as P. rewrite <- vins_tree, H in P. exact P.
Qed.

Lemma vins_wf_root t q x a t' a' :
  wf_root t -> ok q -> vins t q x a = (t', a') -> wf_root t'.
Proof.
  intros Hr Hq H. destruct t as [|i p v l r]; [contradiction|]. destruct Hr as [Eb Hwf].
  destruct (vins_spec [] _ q x a t' a' Hwf Hq) as [P1 [P2 [P3 _]]]; [cbn; rewrite Eb; apply prefix_of_nil | discriminate | exact H|].
  destruct t' as [|i' p' v' l' r']; [congruence|]. cbn in P3. split; [congruence | exact P1].
Qed.

(* ---------------------------------------------------------------------------------------- *)
(** * [rem] *)

Lemma in_entries_valueless i (p : pfx) (l r : tree) (e : pfx * V) :
  In e (entries (Node i p None l r)) <-> In e (entries l) \/ In e (entries r).
Proof. cbn [entries app]. apply in_app_iff. Qed.

Lemma is_node_false (t : tree) : is_node t = false -> t = Leaf.
Proof. destruct t; [reflexivity | discriminate]. Qed.

Lemma wf_bound_child b (p : pfx) s : prefix_of b (bits p) -> prefix_of b (bits p ++ [s]).
Proof. intros H. eapply prefix_of_trans; [exact H | apply prefix_of_app]. Qed.

(** [_remove_node] at the node itself *)
Lemma remove_self_spec b hp i p v l r a t' fl a' :
  wf_under b (Node i p v l r) ->
  remove_self hp i p v l r a = (t', fl, a') ->
  wf_under b t' /\
  (forall e, In e (entries t') <-> In e (entries l) \/ In e (entries r)) /\
  (fl = true -> t' = Leaf) /\
  (hp = false -> t' = Node i p None l r).
Proof.
  intros Hwf H. pose proof (wf_node_inv _ _ _ _ _ _ Hwf) as [Hp [Hbp [Hl Hr]]].
  assert (Hkeep : wf_under b (Node i p None l r) /\
                  (forall e, In e (entries (Node i p None l r)) <-> In e (entries l) \/ In e (entries r)) /\
                  (false = true -> Node i p None l r = Leaf) /\
                  (hp = false -> Node i p None l r = Node i p None l r)).
  { split; [exact Hwf|]. split; [intros e; apply in_entries_valueless|]. split; [discriminate | reflexivity]. }
  unfold Trie.remove_self in H.
  destruct (is_node l) eqn:Nl; destruct (is_node r) eqn:Nr.
  - inversion H; subst. exact Hkeep.
  - destruct hp; [|inversion H; subst; exact Hkeep].
    inversion H; subst. apply is_node_false in Nr. subst r.
    split; [eapply wf_weaken; [|exact Hl]; apply wf_bound_child; exact Hbp|].
    split; [intros e; cbn [entries In]; tauto|]. split; [discriminate | discriminate].
  - destruct hp; [|inversion H; subst; exact Hkeep].
    inversion H; subst. apply is_node_false in Nl. subst l.
    split; [eapply wf_weaken; [|exact Hr]; apply wf_bound_child; exact Hbp|].
    split; [intros e; cbn [entries In]; tauto|]. split; [discriminate | discriminate].
  - destruct hp; [|inversion H; subst; exact Hkeep].
    inversion H; subst. apply is_node_false in Nl, Nr. subst l r.
    split; [exact I|]. split; [intros e; cbn [entries In]; tauto|]. split; [reflexivity | discriminate].
Qed.

(** the parent after its child on side [s] was unlinked as a leaf *)
Lemma absorb_spec b hp i p v l r s a t' a'' :
  wf_under b (Node i p v l r) ->
  absorb hp i p v l r s a = (t', a'') ->
  wf_under b t' /\
  (forall e, In e (entries t') <-> In e (entries (with_child i p v l r s Leaf))) /\
  (hp = false -> t' = with_child i p v l r s Leaf).
Proof.
  intros Hwf H. pose proof (wf_node_inv _ _ _ _ _ _ Hwf) as [Hp [Hbp [Hl Hr]]].
  unfold Trie.absorb in H. destruct (hp && is_none v) eqn:C.
  - apply andb_true_iff in C. destruct C as [-> Hv]. destruct v; [discriminate|].
    inversion H; subst. clear H.
    assert (E : (if s then l else r) = child_of l r (negb s)) by (destruct s; reflexivity).
    rewrite E. split; [|split; [|discriminate]].
    + eapply wf_weaken; [|eapply wf_child; exact Hwf]. apply wf_bound_child; exact Hbp.
    + intros e. rewrite in_with_child. cbn [entries In].
      split; [tauto | intros [[A _]|[[]|A]]; [discriminate | exact A]].
  - inversion H; subst. split; [|split; [tauto | reflexivity]].
    apply with_child_wf; [exact Hwf | exact I].
Qed.

Lemma rem_node hp i p v l r q a :
  rem hp (Node i p v l r) q a =
  if peq p q then let '(t', fl, a') := remove_self hp i p v l r a in (t', fl, v, a') else
  let s := to_right p q in
  let c := child_of l r s in
  match c with
  | Leaf => (Node i p v l r, false, None, a)
  | Node _ cp _ _ _ =>
    if contains cp q then
      let '(c', fl, o, a') := rem true c q a in
      if fl then let '(t', a'') := absorb hp i p v l r s a' in (t', false, o, a'')
      else (with_child i p v l r s c', false, o, a')
    else (Node i p v l r, false, None, a)
  end.
Proof. reflexivity. Qed.

Lemma rem_ret t : forall hp q a, snd (fst (rem hp t q a)) = get t q.
Proof.
  induction t as [|i p v l IHl r IHr]; intros hp q a; [reflexivity|].
  unfold Trie.get. cbn [Trie.rem Trie.get_node].
  destruct (peq p q).
  - destruct (remove_self hp i p v l r a) as [[t' fl] a']. reflexivity.
  - destruct (to_right p q).
    + destruct r as [|ci cp cv cl cr]; [reflexivity|].
      destruct (contains cp q); [|reflexivity].
      specialize (IHr true q a). unfold Trie.get in IHr.
      destruct (rem true (Node ci cp cv cl cr) q a) as [[[c' fl] o] a']. cbn [fst snd] in IHr.
      destruct fl; [destruct (absorb hp i p v l (Node ci cp cv cl cr) true a')|]; exact IHr.
    + destruct l as [|ci cp cv cl cr]; [reflexivity|].
      destruct (contains cp q); [|reflexivity].
      specialize (IHl true q a). unfold Trie.get in IHl.
      destruct (rem true (Node ci cp cv cl cr) q a) as [[[c' fl] o] a']. cbn [fst snd] in IHl.
      destruct fl; [destruct (absorb hp i p v (Node ci cp cv cl cr) r false a')|]; exact IHl.
Qed.

Definition rem_post (b : list bool) (hp : bool) (t : tree) (q : pfx) (t' : tree) (fl : bool) : Prop :=
  wf_under b t' /\
  (forall e, In e (entries t') <-> In e (entries t) /\ key e <> bits q) /\
  (fl = true -> t' = Leaf) /\
  (hp = false -> t <> Leaf -> exists v' l' r', t' = Node (tid t) (tpfx t) v' l' r').

Lemma rem_tree_spec t : forall hp b q a,
  wf_under b t -> ok q -> root_covers t q ->
  rem_post b hp t q (fst (fst (fst (rem hp t q a)))) (snd (fst (fst (rem hp t q a)))).
Proof.
  induction t as [|i p v l IHl r IHr]; intros hp b q a Hwf Hq Hrc.
  - cbn. split; [exact I|]. split; [intros e; cbn; tauto|]. split; [discriminate | congruence].
  - pose proof (wf_node_inv _ _ _ _ _ _ Hwf) as [Hp [Hbp [Hl Hr]]].
    cbn in Hrc. rewrite rem_node.
    destruct (peq p q) eqn:E.
    + (* Reached *)
      pose proof (peq_true p q Hp Hq E) as Hk.
      destruct (remove_self hp i p v l r a) as [[t' fl] a'] eqn:RS. cbn [fst snd].
      destruct (remove_self_spec b hp i p v l r a t' fl a' Hwf RS) as [W1 [W2 [W3 W4]]].
      split; [exact W1|]. split; [|split; [exact W3|]].
      * intros e. rewrite W2, (in_entries_node pfx V i p v l r true e). cbn [TrieWf.child_of negb].
        assert (Hl' : In e (entries l) -> key e <> bits q) by (rewrite <- Hk; eapply below_key_neq; exact Hl).
        assert (Hr' : In e (entries r) -> key e <> bits q) by (rewrite <- Hk; eapply below_key_neq; exact Hr).
        assert (Hown : fst e = p -> key e = bits q) by (intros <-; exact Hk).
        tauto.
      * intros Hhp _. rewrite (W4 Hhp). cbn [Trie.tid Trie.tpfx]. eauto.
    + destruct (step_ctx _ _ _ _ _ _ _ Hwf Hq Hrc E) as [_ [Hne [Hc [Hside Hoth]]]].
      cbv zeta. set (s := to_right p q) in *.
      assert (IHc : forall hp b q a, wf_under b (child_of l r s) -> ok q -> root_covers (child_of l r s) q ->
                      rem_post b hp (child_of l r s) q (fst (fst (fst (rem hp (child_of l r s) q a))))
                               (snd (fst (fst (rem hp (child_of l r s) q a)))))
        by (destruct s; assumption).
      assert (Hfin : forall c',
                 wf_under (bits p ++ [s]) c' ->
                 (forall e, In e (entries c') <-> In e (entries (child_of l r s)) /\ key e <> bits q) ->
                 wf_under b (with_child i p v l r s c') /\
                 forall e, In e (entries (with_child i p v l r s c')) <->
                           In e (entries (Node i p v l r)) /\ key e <> bits q).
      { intros c' Hwc Hec.
        destruct (with_child_spec b i p v l r s c' (fun _ => False) (fun e => key e <> bits q)) as [W1 W2];
          try assumption.
        - intros x0 _. exact Hne.
        - intros e He. apply not_cover_neq. apply (Hoth e He).
        - intros e. rewrite Hec. tauto.
        - split; [exact W1|]. intros e. rewrite W2. tauto. }
      assert (Hsame : (forall e, In e (entries (child_of l r s)) -> key e <> bits q) ->
                      rem_post b hp (Node i p v l r) q (Node i p v l r) false).
      { intros Hno. destruct (Hfin (child_of l r s) Hc) as [W1 W2].
        - intros e. specialize (Hno e). tauto.
        - rewrite child_of_with_child_id in W1, W2.
          split; [exact W1|]. split; [exact W2|]. split; [discriminate|]. intros _ _. cbn. eauto. }
      remember (child_of l r s) as c eqn:Ec.
      destruct c as [|ci cp cv cl cr].
      * cbn [fst snd]. apply Hsame. intros e [].
      * pose proof (wf_node_inv _ _ _ _ _ _ Hc) as [Hcp _].
        destruct (contains cp q) eqn:C1.
        -- specialize (IHc true (bits p ++ [s]) q a Hc Hq (contains_true cp q Hcp Hq C1)).
           destruct (rem true (Node ci cp cv cl cr) q a) as [[[c' fl] o] a']. cbn [fst snd] in IHc.
           destruct IHc as [W1 [W2 [W3 _]]].
           destruct (Hfin c' W1 W2) as [F1 F2].
           destruct fl.
           ++ rewrite (W3 eq_refl) in *.
              destruct (absorb hp i p v l r s a') as [t' a''] eqn:AB. cbn [fst snd].
              destruct (absorb_spec b hp i p v l r s a' t' a'' Hwf AB) as [A1 [A2 A3]].
              split; [exact A1|]. split; [intros e; rewrite A2; apply F2|]. split; [discriminate|].
              intros Hhp _. rewrite (A3 Hhp). destruct (with_child_root i p v l r s Leaf) as [l' [r' ->]].
              cbn. eauto.
           ++ cbn [fst snd]. split; [exact F1|]. split; [exact F2|]. split; [discriminate|].
              intros _ _. destruct (with_child_root i p v l r s c') as [l' [r' ->]]. cbn. eauto.
        -- cbn [fst snd]. apply Hsame. intros e He. apply not_cover_neq.
           eapply subtree_no_cover; [exact Hc | exact Hq | exact C1 | exact He].
Qed.

(** ** Main theorem for [rem] *)
Theorem rem_spec b hp t q a t' fl o a' :
  wf_under b t -> ok q -> root_covers t q ->
  rem hp t q a = (t', fl, o, a') ->
  wf_under b t' /\
  (forall e, In e (entries t') <-> In e (entries t) /\ key e <> bits q) /\
  o = get t q /\
  (fl = true -> t' = Leaf) /\
  (hp = false -> t <> Leaf -> exists v' l' r', t' = Node (tid t) (tpfx t) v' l' r').
Proof.
  intros Hwf Hq Hrc H.
  pose proof (rem_tree_spec t hp b q a Hwf Hq Hrc) as P. pose proof (rem_ret t hp q a) as R.
  rewrite H in P, R. cbn [fst snd] in P, R. destruct P as [P1 [P2 [P3 P4]]].
  split; [exact P1|]. split; [exact P2|]. split; [exact R|]. split; assumption.
Qed.

Lemma rem_wf_root t q a t' fl o a' :
  wf_root t -> ok q -> rem false t q a = (t', fl, o, a') -> wf_root t'.
Proof.
  intros Hr Hq H. destruct t as [|i p v l r]; [contradiction|]. destruct Hr as [Eb Hwf].
  destruct (rem_spec [] false _ q a t' fl o a' Hwf Hq) as [P1 [_ [_ [_ P4]]]];
    [cbn; rewrite Eb; apply prefix_of_nil | exact H|].
  destruct (P4 eq_refl) as [v' [l' [r' ->]]]; [discriminate|]. cbn [Trie.tpfx Trie.tid] in *.
  split; [exact Eb | exact P1].
Qed.

(* ---------------------------------------------------------------------------------------- *)
(** * [modify] *)

Lemma get_node_node i p v l r q :
  get_node (Node i p v l r) q =
  if peq p q then Some (i, p, v) else
  let c := child_of l r (to_right p q) in
  match c with
  | Node _ cp _ _ _ => if contains cp q then get_node c q else None
  | Leaf => None
  end.
Proof. reflexivity. Qed.

Lemma modify_node i p v l r q h :
  modify (Node i p v l r) q h =
  if peq p q then let '(p', v') := h p v in Node i p' v' l r else
  let s := to_right p q in
  let c := child_of l r s in
  match c with
  | Node _ cp _ _ _ => if contains cp q then with_child i p v l r s (modify c q h) else Node i p v l r
  | Leaf => Node i p v l r
  end.
Proof. reflexivity. Qed.

(** [h] may change the representation of the reached prefix, not its key *)
Definition keeps_key (q : pfx) (h : pfx -> option V -> pfx * option V) : Prop :=
  forall p v p' v', ok p -> bits p = bits q -> h p v = (p', v') -> ok p' /\ bits p' = bits p.

(** the entry produced at the reached node *)
Definition mod_new (t : tree) (q : pfx) (h : pfx -> option V -> pfx * option V) (e : pfx * V) : Prop :=
  exists i p v, get_node t q = Some (i, p, v) /\ h p v = (fst e, Some (snd e)).

Definition mod_post (b : list bool) (t : tree) (q : pfx) h (t' : tree) : Prop :=
  wf_under b t' /\
  (forall e, In e (entries t') <-> mod_new t q h e \/ (In e (entries t) /\ key e <> bits q)) /\
  (forall i p v l r, t = Node i p v l r ->
     exists p' v' l' r', t' = Node i p' v' l' r' /\ bits p' = bits p).

(** no entry with the query's key when the exact-match descent fails *)
Lemma get_node_none b t q :
  wf_under b t -> ok q -> root_covers t q -> get_node t q = None ->
  forall e, In e (entries t) -> key e <> bits q.
Proof.
  intros Hwf Hq Hrc G [p x] Hin Hk.
  destruct (get_node_complete t b q p x Hwf Hq Hrc Hin Hk) as [i Hi]. congruence.
Qed.

(** ** Main theorem for [modify] *)
Theorem modify_spec t : forall b q h,
  wf_under b t -> ok q -> root_covers t q -> keeps_key q h ->
  mod_post b t q h (modify t q h).
Proof.
  induction t as [|i p v l IHl r IHr]; intros b q h Hwf Hq Hrc Hh.
  - cbn. split; [exact I|]. split; [|intros; discriminate].
    intros e. cbn. split; [intros [] | intros [[i [p [v [G _]]]]|[[] _]]; discriminate].
  - pose proof (wf_node_inv _ _ _ _ _ _ Hwf) as [Hp [Hbp [Hl Hr]]].
    (* an unchanged tree satisfies the specification when the descent finds no node *)
    assert (Hsame : get_node (Node i p v l r) q = None -> mod_post b (Node i p v l r) q h (Node i p v l r)).
    { intros G. split; [exact Hwf|]. split.
      - intros e. pose proof (get_node_none b _ q Hwf Hq Hrc G e) as Hno. unfold mod_new. rewrite G.
        split; [intros He; right; auto | intros [[i0 [p0 [v0 [A _]]]]|[He _]]; [discriminate | exact He]].
      - intros i0 p0 v0 l0 r0 E0. inversion E0; subst. eauto 6. }
    cbn in Hrc. revert Hsame. unfold mod_post, mod_new. rewrite modify_node, get_node_node.
    destruct (peq p q) eqn:E.
    + (* Reached *)
      intros _. pose proof (peq_true p q Hp Hq E) as Hk.
      destruct (h p v) as [p' v'] eqn:Eh.
      destruct (Hh p v p' v' Hp Hk Eh) as [Hp' Hk'].
      split; [cbn [TrieWf.wf_under]; rewrite Hk'; auto|]. split.
      * intros e.
        rewrite (in_entries_node pfx V i p' v' l r true e), (in_entries_node pfx V i p v l r true e).
        cbn [TrieWf.child_of negb].
        assert (Hl' : In e (entries l) -> key e <> bits q) by (rewrite <- Hk; eapply below_key_neq; exact Hl).
        assert (Hr' : In e (entries r) -> key e <> bits q) by (rewrite <- Hk; eapply below_key_neq; exact Hr).
        assert (Hown : fst e = p -> key e = bits q) by (intros <-; exact Hk).
        assert (Hnew : v' = Some (snd e) /\ fst e = p' <->
                       exists i0 p0 v0, Some (i, p, v) = Some (i0, p0, v0) /\ h p0 v0 = (fst e, Some (snd e))).
        { split.
          - intros [-> <-]. exists i, p, v. split; [reflexivity | exact Eh].
          - intros [i0 [p0 [v0 [A B]]]]. inversion A; subst. rewrite Eh in B. inversion B; subst. auto. }
        tauto.
      * intros i0 p0 v0 l0 r0 E0. inversion E0; subst. eauto 6.
    + destruct (step_ctx _ _ _ _ _ _ _ Hwf Hq Hrc E) as [_ [Hne [Hc [Hside Hoth]]]].
      cbv zeta. set (s := to_right p q) in *.
      assert (IHc : forall b q h, wf_under b (child_of l r s) -> ok q -> root_covers (child_of l r s) q ->
                      keeps_key q h -> mod_post b (child_of l r s) q h (modify (child_of l r s) q h))
        by (destruct s; assumption).
      remember (child_of l r s) as c eqn:Ec.
      destruct c as [|ci cp cv cl cr]; [intros Hsame; apply Hsame; reflexivity|].
      pose proof (wf_node_inv _ _ _ _ _ _ Hc) as [Hcp _].
      destruct (contains cp q) eqn:C1; [intros _ | intros Hsame; apply Hsame; reflexivity].
      specialize (IHc (bits p ++ [s]) q h Hc Hq (contains_true cp q Hcp Hq C1) Hh).
      destruct IHc as [W1 [W2 _]].
      destruct (with_child_spec b i p v l r s (modify (Node ci cp cv cl cr) q h)
                  (mod_new (Node ci cp cv cl cr) q h) (fun e => key e <> bits q)) as [F1 F2];
        try assumption.
      * intros x0 _. exact Hne.
      * intros e He. apply not_cover_neq. apply (Hoth e He).
      * rewrite <- Ec. exact W2.
      * split; [exact F1|]. split; [exact F2|].
        intros i0 p0 v0 l0 r0 E0. inversion E0; subst.
        destruct (with_child_root i0 p0 v0 l0 r0 s (modify (Node ci cp cv cl cr) q h)) as [l' [r' ->]]. eauto 6.
Qed.

(** well-formedness alone needs neither [ok q] nor coverage when [h] always keeps the key *)
Lemma modify_wf t : forall b q h,
  (forall p v, ok p -> ok (fst (h p v)) /\ bits (fst (h p v)) = bits p) ->
  wf_under b t -> wf_under b (modify t q h).
Proof.
  induction t as [|i p v l IHl r IHr]; intros b q h Hh Hwf; [exact I|].
  pose proof (wf_node_inv _ _ _ _ _ _ Hwf) as [Hp [Hbp [Hl Hr]]].
  rewrite modify_node. destruct (peq p q).
  - destruct (Hh p v Hp) as [A B]. destruct (h p v) as [p' v']. cbn [fst] in A, B.
    cbn [TrieWf.wf_under]. rewrite B. auto.
  - cbv zeta. destruct (to_right p q); cbn [TrieWf.child_of].
    + destruct r as [|ci cp cv cl cr]; [exact Hwf|]. destruct (contains cp q); [|exact Hwf].
      apply with_child_wf; [exact Hwf|]. apply IHr; assumption.
    + destruct l as [|ci cp cv cl cr]; [exact Hwf|]. destruct (contains cp q); [|exact Hwf].
      apply with_child_wf; [exact Hwf|]. apply IHl; assumption.
Qed.

Lemma modify_wf_root t q h : wf_root t -> ok q -> keeps_key q h -> wf_root (modify t q h).
Proof.
  intros Hr Hq Hh. destruct t as [|i p v l r]; [contradiction|]. destruct Hr as [Eb Hwf].
  destruct (modify_spec _ [] q h Hwf Hq) as [P1 [_ P3]]; [cbn; rewrite Eb; apply prefix_of_nil | exact Hh|].
  destruct (P3 _ _ _ _ _ eq_refl) as [p' [v' [l' [r' [E Ek]]]]]. rewrite E in *.
  split; [congruence | exact P1].
Qed.

(** the shape of the tree: slots and stored prefixes, values forgotten *)
Fixpoint skel (t : tree) : Trie.tree pfx unit :=
  match t with
  | Leaf => Leaf
  | Node i p _ l r => Node i p None (skel l) (skel r)
  end.

(** the shape with every prefix replaced by its key *)
Fixpoint skelb (t : tree) : Trie.tree (list bool) unit :=
  match t with
  | Leaf => Leaf
  | Node i p _ l r => Node i (bits p) None (skelb l) (skelb r)
  end.

Lemma skel_skelb t1 t2 : skel t1 = skel t2 -> skelb t1 = skelb t2.
Proof.
  revert t2. induction t1 as [|i p v l IHl r IHr]; intros [|i2 p2 v2 l2 r2] H; cbn in *; try congruence.
  inversion H; subst. f_equal; auto.
Qed.

Lemma skel_modify t : forall q h, (forall p v, fst (h p v) = p) -> skel (modify t q h) = skel t.
Proof.
  induction t as [|i p v l IHl r IHr]; intros q h Hh; [reflexivity|].
  rewrite modify_node. destruct (peq p q).
  - specialize (Hh p v). destruct (h p v) as [p' v']. cbn in Hh. subst p'. reflexivity.
  - cbv zeta. destruct (to_right p q); cbn [TrieWf.child_of].
    + destruct r as [|ci cp cv cl cr]; [reflexivity|]. destruct (contains cp q); [|reflexivity].
      cbn [Trie.with_child skel]. rewrite IHr by exact Hh. reflexivity.
    + destruct l as [|ci cp cv cl cr]; [reflexivity|]. destruct (contains cp q); [|reflexivity].
      cbn [Trie.with_child skel]. rewrite IHl by exact Hh. reflexivity.
Qed.

Lemma skelb_modify t : forall b q h, wf_under b t -> ok q -> keeps_key q h -> skelb (modify t q h) = skelb t.
Proof.
  induction t as [|i p v l IHl r IHr]; intros b q h Hwf Hq Hh; [reflexivity|].
  pose proof (wf_node_inv _ _ _ _ _ _ Hwf) as [Hp [Hbp [Hl Hr]]].
  rewrite modify_node. destruct (peq p q) eqn:E.
  - pose proof (peq_true p q Hp Hq E) as Hk. destruct (h p v) as [p' v'] eqn:Eh.
    destruct (Hh p v p' v' Hp Hk Eh) as [_ B]. cbn [skelb]. rewrite B. reflexivity.
  - cbv zeta. destruct (to_right p q); cbn [TrieWf.child_of].
    + destruct r as [|ci cp cv cl cr]; [reflexivity|]. destruct (contains cp q); [|reflexivity].
      cbn [Trie.with_child skelb]. rewrite (IHr _ q h Hr Hq Hh). reflexivity.
    + destruct l as [|ci cp cv cl cr]; [reflexivity|]. destruct (contains cp q); [|reflexivity].
      cbn [Trie.with_child skelb]. rewrite (IHl _ q h Hl Hq Hh). reflexivity.
Qed.

(* ---------------------------------------------------------------------------------------- *)
(** * [rc] ([remove_children] below a node that properly covers the query) *)

Lemma rc_node i p v l r q a :
  rc (Node i p v l r) q a =
  if peq p q then (Node i p v l r, a) else
  let s := to_right p q in
  let c := child_of l r s in
  match c with
  | Leaf => (Node i p v l r, a)
  | Node _ cp _ _ _ =>
    if contains cp q then
      if peq cp q then (with_child i p v l r s Leaf, free_all pfx V c a)
      else let '(c', a') := rc c q a in (with_child i p v l r s c', a')
    else if contains q cp then (with_child i p v l r s Leaf, free_all pfx V c a)
    else (Node i p v l r, a)
  end.
Proof. reflexivity. Qed.

(** the root of the subtree is not the query itself.  [rc] returns the tree unchanged when it is
    ([remove_children] diverts that case to [clear]), so the specification needs this. *)
Definition root_strict (t : tree) (q : pfx) : Prop :=
  match t with Leaf => True | Node _ p _ _ _ => bits p <> bits q end.

Definition rc_post (b : list bool) (t : tree) (q : pfx) (t' : tree) : Prop :=
  wf_under b t' /\
  (forall e, In e (entries t') <-> In e (entries t) /\ ~ prefix_of (bits q) (key e)) /\
  (forall i p v l r, t = Node i p v l r -> exists l' r', t' = Node i p v l' r').

Lemma rc_tree_spec t : forall b q a,
  wf_under b t -> ok q -> root_covers t q -> root_strict t q ->
  rc_post b t q (fst (rc t q a)).
Proof.
  induction t as [|i p v l IHl r IHr]; intros b q a Hwf Hq Hrc Hrs.
  - cbn. split; [exact I|]. split; [intros e; cbn; tauto | intros; discriminate].
  - pose proof (wf_node_inv _ _ _ _ _ _ Hwf) as [Hp [Hbp [Hl Hr]]].
    cbn in Hrc, Hrs. rewrite rc_node.
    destruct (peq p q) eqn:E; [exfalso; apply Hrs; apply peq_true; assumption|].
    destruct (step_ctx _ _ _ _ _ _ _ Hwf Hq Hrc E) as [_ [Hne [Hc [Hside Hoth]]]].
    cbv zeta. set (s := to_right p q) in *.
    assert (IHc : forall b q a, wf_under b (child_of l r s) -> ok q -> root_covers (child_of l r s) q ->
                    root_strict (child_of l r s) q -> rc_post b (child_of l r s) q (fst (rc (child_of l r s) q a)))
      by (destruct s; assumption).
    assert (Hfin : forall c',
               wf_under (bits p ++ [s]) c' ->
               (forall e, In e (entries c') <-> In e (entries (child_of l r s)) /\ ~ prefix_of (bits q) (key e)) ->
               rc_post b (Node i p v l r) q (with_child i p v l r s c')).
    { intros c' Hwc Hec.
      destruct (with_child_spec b i p v l r s c' (fun _ => False) (fun e => ~ prefix_of (bits q) (key e)))
        as [W1 W2]; try assumption.
      - intros x0 _ H. apply Hne. apply prefix_of_antisym; assumption.
      - intros e He. apply (Hoth e He).
      - intros e. rewrite Hec. tauto.
      - split; [exact W1|]. split; [intros e; rewrite W2; tauto|].
        intros i0 p0 v0 l0 r0 E0. inversion E0; subst. apply with_child_root. }
    assert (Hsame : (forall e, In e (entries (child_of l r s)) -> ~ prefix_of (bits q) (key e)) ->
                    rc_post b (Node i p v l r) q (Node i p v l r)).
    { intros Hno. rewrite <- (child_of_with_child_id i p v l r s) at 2. apply Hfin; [exact Hc|].
      intros e. specialize (Hno e). tauto. }
    assert (Hdrop : (forall e, In e (entries (child_of l r s)) -> prefix_of (bits q) (key e)) ->
                    rc_post b (Node i p v l r) q (with_child i p v l r s Leaf)).
    { intros Hall. apply Hfin; [exact I|]. intros e. specialize (Hall e). cbn [entries In]. tauto. }
    remember (child_of l r s) as c eqn:Ec.
    destruct c as [|ci cp cv cl cr]; [cbn [fst]; apply Hsame; intros e []|].
    pose proof (wf_node_inv _ _ _ _ _ _ Hc) as [Hcp _].
    assert (Hund : forall e, In e (entries (Node ci cp cv cl cr)) -> prefix_of (bits cp) (key e)).
    { intros e He. eapply entries_under; [eapply wf_self; exact Hc | exact He]. }
    destruct (contains cp q) eqn:C1.
    + destruct (peq cp q) eqn:E2.
      * cbn [fst]. apply Hdrop. intros e He. rewrite <- (peq_true cp q Hcp Hq E2). apply Hund. exact He.
      * specialize (IHc (bits p ++ [s]) q a Hc Hq (contains_true cp q Hcp Hq C1) (peq_false cp q Hcp Hq E2)).
        destruct (rc (Node ci cp cv cl cr) q a) as [c' a']. cbn [fst] in *.
        destruct IHc as [W1 [W2 _]]. apply Hfin; assumption.
    + destruct (contains q cp) eqn:C2; cbn [fst].
      * apply Hdrop. intros e He. eapply prefix_of_trans; [apply contains_true; eassumption | apply Hund; exact He].
      * apply Hsame. intros e He Hcov.
        destruct (prefix_of_comparable _ _ _ Hcov (Hund e He)) as [A|A].
        -- eapply contains_false; [exact Hq | exact Hcp | exact C2 | exact A].
        -- eapply contains_false; [exact Hcp | exact Hq | exact C1 | exact A].
Qed.

(** ** Main theorem for [rc] *)
Theorem rc_spec b t q a t' a' :
  wf_under b t -> ok q -> root_covers t q -> root_strict t q ->
  rc t q a = (t', a') ->
  wf_under b t' /\
  (forall e, In e (entries t') <-> In e (entries t) /\ ~ prefix_of (bits q) (key e)) /\
  (forall i p v l r, t = Node i p v l r -> exists l' r', t' = Node i p v l' r').
Proof.
  intros Hwf Hq Hrc Hrs H. pose proof (rc_tree_spec t b q a Hwf Hq Hrc Hrs) as P.
  rewrite H in P. exact P.
Qed.

(** why [root_strict] is needed: at a node whose key IS the query, [rc] changes nothing, so a
    value stored there survives although the query covers it *)
Lemma rc_reached_unchanged i p x l r q a :
  ok p -> ok q -> bits p = bits q ->
  rc (Node i p (Some x) l r) q a = (Node i p (Some x) l r, a) /\
  In (p, x) (entries (fst (rc (Node i p (Some x) l r) q a))) /\ prefix_of (bits q) (key (p, x)).
Proof.
  intros Hp Hq Hk. rewrite rc_node, (peq_refl_bits p q Hp Hq Hk). cbn [fst].
  split; [reflexivity|]. split; [apply (in_entries_own pfx V) | unfold TrieWf.key; cbn [fst]; rewrite Hk; apply prefix_of_refl].
Qed.

(* ---------------------------------------------------------------------------------------- *)
(** * Map level *)

Lemma wf_root_inv t q : wf_root t -> wf_under [] t /\ root_covers t q /\ t <> Leaf /\ bits (tpfx t) = [].
Proof.
  destruct t as [|i p v l r]; [intros []|]. intros [Eb Hwf].
  split; [exact Hwf|]. split; [cbn; rewrite Eb; apply prefix_of_nil|]. split; [discriminate | exact Eb].
Qed.

Lemma wf_root_intro t : wf_under [] t -> t <> Leaf -> bits (tpfx t) = [] -> wf_root t.
Proof. destruct t; [congruence|]. cbn. auto. Qed.

Theorem empty_spec : wf_root (root empty) /\ entries (root empty) = [].
Proof.
  split; [|reflexivity]. cbn.
  pose proof (zero_spec _ _ _ _ _ _ _ _ _ _ LAWS) as Z. pose proof (zero_ok _ _ _ _ _ _ _ _ _ _ LAWS) as K.
  rewrite Z. repeat split; try exact K; try apply prefix_of_nil.
Qed.

Theorem clear_spec m : wf_root (root (clear m)) /\ entries (root (clear m)) = [].
Proof. exact empty_spec. Qed.

Theorem insert_spec m q x m' o :
  wf_root (root m) -> ok q -> insert m q x = (m', o) ->
  wf_root (root m') /\
  (forall e, In e (entries (root m')) <-> e = (q, x) \/ (In e (entries (root m)) /\ key e <> bits q)) /\
  o = get (root m) q.
Proof.
  intros Hr Hq H. unfold Trie.insert in H.
  destruct (ins (root m) q x (al m)) as [[t' o'] a'] eqn:I. inversion H; subst. cbn [root].
  destruct (wf_root_inv _ q Hr) as [Hwf [Hrc [Hnl Hb]]].
  destruct (ins_spec [] _ q x _ _ _ _ Hwf Hq Hrc Hnl I) as [P1 [P2 [P3 [_ [P5 P6]]]]].
  split; [apply wf_root_intro; congruence|]. split; assumption.
Qed.

Theorem vacant_insert_spec m q x :
  wf_root (root m) -> ok q ->
  wf_root (root (vacant_insert m q x)) /\
  (forall e, In e (entries (root (vacant_insert m q x))) <->
             e = (q, x) \/ (In e (entries (root m)) /\ key e <> bits q)).
Proof.
  intros Hr Hq. unfold Trie.vacant_insert.
  destruct (vins (root m) q x (al m)) as [t' a'] eqn:I. cbn [root].
  destruct (wf_root_inv _ q Hr) as [Hwf [Hrc [Hnl Hb]]].
  destruct (vins_spec [] _ q x _ _ _ Hwf Hq Hrc Hnl I) as [P1 [P2 [P3 [_ P5]]]].
  split; [apply wf_root_intro; congruence | exact P5].
Qed.

Theorem remove_spec m q m' o :
  wf_root (root m) -> ok q -> remove m q = (m', o) ->
  wf_root (root m') /\
  (forall e, In e (entries (root m')) <-> In e (entries (root m)) /\ key e <> bits q) /\
  o = get (root m) q.
Proof.
  intros Hr Hq H. unfold Trie.remove in H.
  destruct (rem false (root m) q (al m)) as [[[t' fl] o'] a'] eqn:R. inversion H; subst. cbn [root].
  destruct (wf_root_inv _ q Hr) as [Hwf [Hrc [Hnl Hb]]].
  destruct (rem_spec [] false _ q _ _ _ _ _ Hwf Hq Hrc R) as [P1 [P2 [P3 _]]].
  split; [eapply rem_wf_root; eassumption|]. split; assumption.
Qed.

(** the hooks of the three [modify]-based operations keep the key *)
Lemma keeps_key_take q : keeps_key q (fun p _ => (p, None)).
Proof. intros p v p' v' Hp _ H. inversion H; subst. auto. Qed.
Lemma keeps_key_put q x : ok q -> keeps_key q (fun _ _ => (q, Some x)).
Proof. intros Hq p v p' v' Hp Hk H. inversion H; subst. auto. Qed.
Lemma keeps_key_map q (g : V -> V) : keeps_key q (fun p v => (p, option_map g v)).
Proof. intros p v p' v' Hp _ H. inversion H; subst. auto. Qed.

Lemma take_entries t q :
  wf_root t -> ok q ->
  forall e, In e (entries (modify t q (fun p _ => (p, None)))) <-> In e (entries t) /\ key e <> bits q.
Proof.
  intros Hr Hq e. destruct (wf_root_inv _ q Hr) as [Hwf [Hrc _]].
  destruct (modify_spec t [] q _ Hwf Hq Hrc (keeps_key_take q)) as [_ [P2 _]].
  rewrite P2. split; [intros [[i [p [v [_ A]]]]|A]; [discriminate | exact A] | auto].
Qed.

Theorem remove_keep_tree_spec m q m' o :
  wf_root (root m) -> ok q -> remove_keep_tree m q = (m', o) ->
  wf_root (root m') /\
  (forall e, In e (entries (root m')) <-> In e (entries (root m)) /\ key e <> bits q) /\
  o = get (root m) q /\
  skel (root m') = skel (root m).
Proof.
  intros Hr Hq H. unfold Trie.remove_keep_tree in H. inversion H; subst. cbn [root].
  split; [apply modify_wf_root; [exact Hr | exact Hq | apply keeps_key_take]|].
  split; [apply take_entries; assumption|]. split; [reflexivity|].
  apply skel_modify. reflexivity.
Qed.

Theorem occ_remove_spec m q m' o :
  wf_root (root m) -> ok q -> occ_remove m q = (m', o) ->
  wf_root (root m') /\
  (forall e, In e (entries (root m')) <-> In e (entries (root m)) /\ key e <> bits q) /\
  o = get (root m) q /\
  skel (root m') = skel (root m).
Proof. exact (remove_keep_tree_spec m q m' o). Qed.

Theorem occ_insert_spec m q x y m' o :
  wf_root (root m) -> ok q -> get (root m) q = Some y -> occ_insert m q x = (m', o) ->
  wf_root (root m') /\
  (forall e, In e (entries (root m')) <-> e = (q, x) \/ (In e (entries (root m)) /\ key e <> bits q)) /\
  o = Some y /\
  skelb (root m') = skelb (root m).
Proof.
  intros Hr Hq G H. unfold Trie.occ_insert in H. inversion H; subst. cbn [root].
  destruct (wf_root_inv _ q Hr) as [Hwf [Hrc _]].
  split; [apply modify_wf_root; [exact Hr | exact Hq | apply keeps_key_put; exact Hq]|].
  split; [|split; [exact G | eapply skelb_modify; [exact Hwf | exact Hq | apply keeps_key_put; exact Hq]]].
  intros e. destruct (modify_spec (root m) [] q _ Hwf Hq Hrc (keeps_key_put q x Hq)) as [_ [P2 _]].
  rewrite P2. unfold mod_new.
  assert (A : (exists i p v, get_node (root m) q = Some (i, p, v) /\ (q, Some x) = (fst e, Some (snd e))) <-> e = (q, x)).
  { split.
    - intros [i [p [v [_ B]]]]. destruct e. cbn in B. congruence.
    - intros ->. unfold Trie.get in G. destruct (get_node (root m) q) as [[[i p] v]|]; [|discriminate].
      exists i, p, v. split; reflexivity. }
  tauto.
Qed.

Theorem update_value_spec m q g :
  wf_root (root m) -> ok q ->
  wf_root (root (update_value m q g)) /\
  (forall e, In e (entries (root (update_value m q g))) <->
             (In e (entries (root m)) /\ key e <> bits q) \/
             (exists y, In (fst e, y) (entries (root m)) /\ key e = bits q /\ snd e = g y)) /\
  skel (root (update_value m q g)) = skel (root m).
Proof.
  intros Hr Hq. unfold Trie.update_value. cbn [root].
  destruct (wf_root_inv _ q Hr) as [Hwf [Hrc _]].
  split; [apply modify_wf_root; [exact Hr | exact Hq | apply keeps_key_map]|].
  split; [|apply skel_modify; reflexivity].
  intros e. destruct (modify_spec (root m) [] q _ Hwf Hq Hrc (keeps_key_map q g)) as [_ [P2 _]].
  rewrite P2. unfold mod_new.
  assert (A : (exists i p v, get_node (root m) q = Some (i, p, v) /\ (p, option_map g v) = (fst e, Some (snd e))) <->
              (exists y, In (fst e, y) (entries (root m)) /\ key e = bits q /\ snd e = g y)).
  { split.
    - intros [i [p [v [G B]]]]. inversion B; subst. destruct v as [y|]; [|discriminate].
      destruct (get_node_sound _ _ _ _ _ _ Hwf Hq G) as [S1 S2]. exists y.
      split; [apply S2; reflexivity|]. split; [exact S1 | cbn in *; congruence].
    - intros [y [Hin [Hk Hs]]].
      destruct (get_node_complete _ _ _ _ _ Hwf Hq Hrc Hin Hk) as [i G].
      exists i, (fst e), (Some y). split; [exact G|]. cbn. rewrite Hs. reflexivity. }
  tauto.
Qed.

Theorem remove_children_spec m q :
  wf_root (root m) -> ok q ->
  wf_root (root (remove_children m q)) /\
  (forall e, In e (entries (root (remove_children m q))) <->
             In e (entries (root m)) /\ ~ prefix_of (bits q) (key e)).
Proof.
  intros Hr Hq. unfold Trie.remove_children.
  pose proof (plen_bits _ _ _ _ _ _ _ _ _ _ LAWS q Hq) as Hlen.
  destruct (plen q =? 0)%N eqn:Z.
  - apply N.eqb_eq in Z. assert (Eq : bits q = []) by (destruct (bits q); [reflexivity | cbn in Hlen; lia]).
    destruct (clear_spec m) as [C1 C2]. split; [exact C1|]. intros e. rewrite C2, Eq.
    split; [intros [] | intros [_ A]; apply A; apply prefix_of_nil].
  - apply N.eqb_neq in Z. destruct (rc (root m) q (al m)) as [t' a'] eqn:R. cbn [root].
    destruct (wf_root_inv _ q Hr) as [Hwf [Hrc [Hnl Hb]]].
    assert (Hrs : root_strict (root m) q).
    { destruct (root m) as [|i p v l r]; [exact I|]. cbn in *. rewrite Hb. intros E. rewrite <- E in Hlen. cbn in Hlen. lia. }
    destruct (rc_spec [] _ q _ _ _ Hwf Hq Hrc Hrs R) as [P1 [P2 P3]].
    split; [|exact P2].
    destruct (root m) as [|i p v l r]; [congruence|]. destruct (P3 _ _ _ _ _ eq_refl) as [l' [r' ->]].
    cbn in Hb. split; [exact Hb | exact P1].
Qed.

(* ---------------------------------------------------------------------------------------- *)
(** * [from_list]: the last element with a given key wins *)

Lemma fold_insert_spec l : forall m,
  wf_root (root m) -> (forall e, In e l -> ok (fst e)) ->
  wf_root (root (fold_left (fun m e => fst (insert m (fst e) (snd e))) l m)) /\
  forall e, In e (entries (root (fold_left (fun m e => fst (insert m (fst e) (snd e))) l m))) <->
    (exists l1 l2, l = l1 ++ e :: l2 /\ forall e', In e' l2 -> key e' <> key e) \/
    (In e (entries (root m)) /\ forall e', In e' l -> key e' <> key e).
Proof.
  induction l as [|a l IH]; intros m Hr Hok.
  - cbn [fold_left]. split; [exact Hr|]. intros e. split.
    + intros He. right. split; [exact He | intros e' []].
    + intros [[l1 [l2 [E _]]]|[He _]]; [|exact He]. exfalso. eapply app_cons_not_nil; exact E.
  - cbn [fold_left].
    destruct (insert m (fst a) (snd a)) as [m1 o] eqn:I. cbn [fst].
    assert (Ha : ok (fst a)) by (apply Hok; left; reflexivity).
    destruct (insert_spec m (fst a) (snd a) m1 o Hr Ha I) as [R1 [R2 _]].
    destruct (IH m1 R1) as [W1 W2]; [intros e He; apply Hok; right; exact He|].
    split; [exact W1|]. intros e. rewrite W2, R2. rewrite <- (surjective_pairing a).
    change (bits (fst a)) with (key a). split.
    + intros [[l1 [l2 [E H2]]]|[[E|[He Hne]] Hall]].
      * left. exists (a :: l1), l2. split; [rewrite E; reflexivity | exact H2].
      * left. exists [], l. split; [rewrite E; reflexivity | exact Hall].
      * right. split; [exact He|]. intros e' [<-|He']; [congruence | apply Hall; exact He'].
    + intros [[l1 [l2 [E H2]]]|[He Hall]].
      * destruct l1 as [|a1 l1]; cbn [app] in E; inversion E; subst.
        -- right. split; [left; reflexivity | exact H2].
        -- left. exists l1, l2. split; [reflexivity | exact H2].
      * right. split; [|intros e' He'; apply Hall; right; exact He'].
        right. split; [exact He|]. intros E. apply (Hall a); [left; reflexivity | symmetry; exact E].
Qed.

Theorem from_list_spec l :
  (forall e, In e l -> ok (fst e)) ->
  wf_root (root (from_list l)) /\
  forall e, In e (entries (root (from_list l))) <->
            exists l1 l2, l = l1 ++ e :: l2 /\ forall e', In e' l2 -> key e' <> key e.
Proof.
  intros Hok. unfold Trie.from_list.
  destruct (fold_insert_spec l empty (proj1 empty_spec) Hok) as [W1 W2].
  split; [exact W1|]. intros e. rewrite W2. split; [intros [A|[[] _]]; exact A | auto].
Qed.

(* ---------------------------------------------------------------------------------------- *)
(** * List-level refinement: the operations on the strictly sorted association list *)

Lemma beq_spec (a b : list bool) : beq a b = true <-> a = b.
Proof.
  unfold beq. rewrite andb_true_iff, !is_prefix_spec. split.
  - intros [A B]. apply prefix_of_antisym; assumption.
  - intros ->. split; apply prefix_of_refl.
Qed.

Lemma nbeq_spec (a b : list bool) : negb (beq a b) = true <-> a <> b.
Proof.
  rewrite negb_true_iff. split.
  - intros H E. apply beq_spec in E. congruence.
  - intros H. destruct (beq a b) eqn:E; [|reflexivity]. apply beq_spec in E. contradiction.
Qed.

Lemma nprefix_spec (a b : list bool) : negb (is_prefix a b) = true <-> ~ prefix_of a b.
Proof.
  rewrite negb_true_iff. split.
  - intros H E. apply is_prefix_spec in E. congruence.
  - intros H. destruct (is_prefix a b) eqn:E; [|reflexivity]. apply is_prefix_spec in E. contradiction.
Qed.

Lemma sorted_filter (f : pfx * V -> bool) (l : list (pfx * V)) :
  StronglySorted key_lt l -> StronglySorted key_lt (filter f l).
Proof.
  induction l as [|x l IH]; intros H; cbn [filter]; [constructor|].
  inversion H as [|? ? Hs Hf]; subst. destruct (f x); [|apply IH; exact Hs].
  constructor; [apply IH; exact Hs|]. rewrite Forall_forall in *. intros e He.
  apply filter_In in He. apply Hf. apply He.
Qed.

(** the abstract operations *)
Definition a_remove (A : list (pfx * V)) (q : pfx) : list (pfx * V) :=
  filter (fun e => negb (beq (key e) (bits q))) A.
Definition a_remove_children (A : list (pfx * V)) (q : pfx) : list (pfx * V) :=
  filter (fun e => negb (is_prefix (bits q) (key e))) A.

Lemma in_a_remove A q e : In e (a_remove A q) <-> In e A /\ key e <> bits q.
Proof. unfold a_remove. rewrite filter_In, nbeq_spec. reflexivity. Qed.
Lemma in_a_remove_children A q e : In e (a_remove_children A q) <-> In e A /\ ~ prefix_of (bits q) (key e).
Proof. unfold a_remove_children. rewrite filter_In, nprefix_spec. reflexivity. Qed.

Lemma wf_root_sorted t : wf_root t -> StronglySorted key_lt (entries t).
Proof. intros Hr. destruct (wf_root_inv t pzero Hr) as [Hwf _]. eapply entries_sorted; exact Hwf. Qed.

(** two well-formed maps with the same members have the same entry list *)
Lemma entries_ext t (A : list (pfx * V)) :
  wf_root t -> StronglySorted key_lt A -> (forall e, In e (entries t) <-> In e A) -> entries t = A.
Proof. intros Hr HA H. apply (sorted_ext pfx V bits); [apply wf_root_sorted; exact Hr | exact HA | exact H]. Qed.

Theorem remove_refines m q :
  wf_root (root m) -> ok q ->
  entries (root (fst (remove m q))) = a_remove (entries (root m)) q.
Proof.
  intros Hr Hq. destruct (remove m q) as [m' o] eqn:R. cbn [fst].
  destruct (remove_spec m q m' o Hr Hq R) as [P1 [P2 _]].
  apply entries_ext; [exact P1 | apply sorted_filter; apply wf_root_sorted; exact Hr|].
  intros e. rewrite P2, in_a_remove. reflexivity.
Qed.

Theorem remove_keep_tree_refines m q :
  wf_root (root m) -> ok q ->
  entries (root (fst (remove_keep_tree m q))) = a_remove (entries (root m)) q.
Proof.
  intros Hr Hq. destruct (remove_keep_tree m q) as [m' o] eqn:R. cbn [fst].
  destruct (remove_keep_tree_spec m q m' o Hr Hq R) as [P1 [P2 _]].
  apply entries_ext; [exact P1 | apply sorted_filter; apply wf_root_sorted; exact Hr|].
  intros e. rewrite P2, in_a_remove. reflexivity.
Qed.

Theorem occ_remove_refines m q :
  wf_root (root m) -> ok q ->
  entries (root (fst (occ_remove m q))) = a_remove (entries (root m)) q.
Proof. exact (remove_keep_tree_refines m q). Qed.

Theorem remove_children_refines m q :
  wf_root (root m) -> ok q ->
  entries (root (remove_children m q)) = a_remove_children (entries (root m)) q.
Proof.
  intros Hr Hq. destruct (remove_children_spec m q Hr Hq) as [P1 P2].
  apply entries_ext; [exact P1 | apply sorted_filter; apply wf_root_sorted; exact Hr|].
  intros e. rewrite P2, in_a_remove_children. reflexivity.
Qed.

Theorem clear_refines m : entries (root (clear m)) = [].
Proof. reflexivity. Qed.

(** [remove] and [remove_keep_tree] are observationally the same on the entry list *)
Corollary remove_keep_tree_same_entries m q :
  wf_root (root m) -> ok q ->
  entries (root (fst (remove_keep_tree m q))) = entries (root (fst (remove m q))).
Proof. intros Hr Hq. rewrite remove_refines, remove_keep_tree_refines by assumption. reflexivity. Qed.

End MU.

Print Assumptions ins_spec.
Print Assumptions vins_spec.
Print Assumptions rem_spec.
Print Assumptions modify_spec.
Print Assumptions rc_spec.
Print Assumptions empty_spec.
Print Assumptions clear_spec.
Print Assumptions insert_spec.
Print Assumptions vacant_insert_spec.
Print Assumptions remove_spec.
Print Assumptions remove_keep_tree_spec.
Print Assumptions occ_remove_spec.
Print Assumptions occ_insert_spec.
Print Assumptions update_value_spec.
Print Assumptions remove_children_spec.
Print Assumptions from_list_spec.
Print Assumptions remove_refines.
Print Assumptions remove_keep_tree_refines.
Print Assumptions occ_remove_refines.
Print Assumptions remove_children_refines.
Print Assumptions clear_refines.
