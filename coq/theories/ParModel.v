(** The model side of the two C14 script operations [alias] and [par] (exclusivity of mutable
    access; concurrent mutation of disjoint sub-views), as Coq functions over [Views.v] /
    [SetOps.v], with their correctness theorems.

    PART 1 (definitions; executable, extractable):
      [own_slot], [split_slots] (+ the structural twin [tree_slots]), [alias_report],
      [par_jobs], [par_writes], [par_result].
    PART 2 (theorems):
      [split_slots_spec]           the recursive split reaches every entry exactly once;
      [alias_report_true]          the report of a well-formed tree with distinct slots is
                                   [(number of entries, true, true, true, true)];
      [par_schedule_independent]   the splitter's and the workers' slot sets are pairwise disjoint,
                                   every schedule of the workers yields [par_result], which is also
                                   the sequential, worker-by-worker result;
      [par_result_frame], [par_result_values]   [par_result] changes values only, and each entry's
                                   new value is [sf x] (own entry of a split node) or [wf n x]
                                   (entry of job [n]);
      [par_jobs_cover]             every entry is the own entry of a split node or belongs to
                                   exactly one job. *)
From Coq Require Import List NArith ZArith Bool Arith Lia ZifyN ZifyBool ZifyNat Permutation.
From PT Require Import Bits BitsThm Laws Machine MachineThm Trie Views SetOps TrieWf Lookup Lookup2
                       ViewsThm Slots MutTrav UnionThm InterDiffThm History MutTravExtra.
Import ListNotations.

(* ========================================================================================== *)
(** * PART 1: definitions *)

(** decidable list predicates over slots *)
Definition memb (i : N) (l : list N) : bool := existsb (N.eqb i) l.
Fixpoint nodupb (l : list N) : bool :=
  match l with [] => true | x :: r => negb (memb x r) && nodupb r end.
Definition subb (a b : list N) : bool := forallb (fun x => memb x b) a.
Definition same_setb (a b : list N) : bool := subb a b && subb b a.

Section Defs.
Variables (pfx V : Type).
Variables (peq contains : pfx -> pfx -> bool) (is_bit_set : pfx -> N -> bool)
          (plen : pfx -> N) (pzero : pfx) (mcmp : pfx -> pfx -> comparison).
(** worker index -> old value -> new value; the splitter's function *)
Variables (wf : nat -> V -> V) (sf : V -> V).

Notation tree := (Trie.tree pfx V).
Notation vmut := (Views.vmut pfx).
Notation mkvmut := (Views.mkvmut pfx).
Notation mpath := (Views.mpath pfx).
Notation mvirt := (Views.mvirt pfx).
Notation vm_root := (Views.vm_root pfx).
Notation vm_split := (Views.vm_split pfx V is_bit_set plen pzero).
Notation slot3 := (MutTrav.slot3 pfx V).
Notation union_mut := (SetOps.union_mut pfx V V contains is_bit_set plen pzero mcmp).
Notation intersection_mut := (SetOps.intersection_mut pfx V V contains is_bit_set plen pzero mcmp).
Notation difference_mut := (SetOps.difference_mut pfx V V contains is_bit_set plen pzero mcmp).
Notation covering_difference_mut := (SetOps.covering_difference_mut pfx V V contains is_bit_set plen pzero mcmp).

(** the slot [value_mut] of the view designates: none for a virtual view or a value-less node *)
Definition own_slot (T : tree) (m : vmut) : option N :=
  match mvirt m with
  | Some _ => None
  | None => match vm_tree T m with
            | Node i _ (Some _) _ _ => Some i
            | _ => None
            end
  end.

(** [split_addrs] of the harness: the own slot, then everything below the left half, then
    everything below the right half of [split()] *)
Fixpoint split_slots (fuel : nat) (T : tree) (m : vmut) : list N :=
  match fuel with
  | O => []
  | S f =>
    let s := vm_split T m in
    olist (own_slot T m)
    ++ (match fst s with Some ml => split_slots f T ml | None => [] end)
    ++ (match snd s with Some mr => split_slots f T mr | None => [] end)
  end.

(** the fuel-free structural twin *)
Fixpoint tree_slots (t : tree) : list N :=
  match t with
  | Leaf => []
  | Node i _ v l r => (match v with Some _ => [i] | None => [] end) ++ tree_slots l ++ tree_slots r
  end.

(** the slots of all references carried by the items of the four [*_mut] set operations, in the
    order in which the harness collects them *)
Definition um_slots (out : list (SetOps.umitem pfx V V)) : list N :=
  flat_map (fun it : SetOps.umitem pfx V V =>
              let '(_, l, r) := it in
              (match l with Some (i, _) => [i] | None => [] end)
              ++ (match r with Some (j, _) => [j] | None => [] end)) out.
Definition im_slots (out : list (SetOps.imitem pfx V V)) : list N :=
  flat_map (fun it : SetOps.imitem pfx V V => let '(_, (i, _), (j, _)) := it in [i; j]) out.
Definition dm_slots (out : list (SetOps.dmitem pfx V V)) : list N :=
  map (fun it : SetOps.dmitem pfx V V => let '(_, (i, _), _) := it in i) out.
Definition cdm_slots (out : list (pfx * (N * V))) : list N :=
  map (fun it : pfx * (N * V) => let '(_, (i, _)) := it in i) out.

(** the set-operation clause of [alias]: over the two halves [(a, b)] of the root split (if both
    exist) the references of [union_mut] / [intersection_mut] (both sides together) /
    [difference_mut] / [covering_difference_mut] are pairwise distinct and lie among the
    [iter_mut] slots of the map; those of [difference_mut] avoid the slots of [b].
    A set operation that runs out of fuel makes the clause false. *)
Definition sets_clause (T : tree) : bool :=
  match vm_split T vm_root with
  | (Some vl, Some vr) =>
    let a := vm_tree T vl in
    let b := vm_tree T vr in
    let it := map slot3 (iter_mut_items pfx V T) in
    let inb := map slot3 (iter_mut_items pfx V b) in
    match union_mut a b, intersection_mut a b, difference_mut a b, covering_difference_mut a b with
    | Some ou, Some oi, Some od, Some oc =>
      let u := um_slots ou in
      let i2 := im_slots oi in
      let d := dm_slots od in
      let cd := cdm_slots oc in
      nodupb u && subb u it && nodupb i2 && subb i2 it && nodupb d && subb d it
      && forallb (fun x => negb (memb x inb)) d && nodupb cd && subb cd it
    | _, _, _, _ => false
    end
  | _ => true
  end.

(** [alias]: (n, iter, split, cover, sets) *)
Definition alias_report (T : tree) : nat * bool * bool * bool * bool :=
  let it := map slot3 (iter_mut_items pfx V T) in
  let sp := split_slots (S (tsize T)) T vm_root in
  (length it, nodupb it, nodupb sp, same_setb sp it, sets_clause T).

(** [par_jobs] of the harness: split [k] levels deep; a node that is split gets its own value
    rewritten by [sf]; the remaining sub-views are the jobs, in left-to-right order *)
Fixpoint par_go (k : nat) (T : tree) (m : vmut) : list vmut * list (N * V) :=
  match k with
  | O => ([m], [])
  | S k' =>
    let own := match own_slot T m, vm_value T m with
               | Some i, Some x => [(i, sf x)]
               | _, _ => []
               end in
    let s := vm_split T m in
    let L := match fst s with Some ml => par_go k' T ml | None => ([], []) end in
    let R := match snd s with Some mr => par_go k' T mr | None => ([], []) end in
    (fst L ++ fst R, own ++ snd L ++ snd R)
  end.

Definition par_jobs (k : nat) (T : tree) : list vmut * list (N * V) := par_go k T vm_root.

(** the writes of worker [i] on its job *)
Definition job_writes (T : tree) (i : nat) (m : vmut) : list (N * V) :=
  map (fun e : N * pfx * V => let '(s, _, x) := e in (s, wf i x)) (vm_iter_mut T m).

(** one write list per worker, workers numbered from [i] *)
Fixpoint workers_writes (T : tree) (i : nat) (jobs : list vmut) : list (list (N * V)) :=
  match jobs with
  | [] => []
  | m :: js => job_writes T i m :: workers_writes T (S i) js
  end.

Definition par_workers (k : nat) (T : tree) : list (list (N * V)) :=
  workers_writes T 0 (fst (par_jobs k T)).

(** the splitter's writes followed by the workers' writes, workers in order *)
Definition par_writes (k : nat) (T : tree) : list (N * V) :=
  snd (par_jobs k T) ++ concat (par_workers k T).

Definition par_result (k : nat) (T : tree) : tree := write_ids T (par_writes k T).

End Defs.

(* ========================================================================================== *)
(** * generic list facts *)

Lemma memb_spec i l : memb i l = true <-> In i l.
Proof.
  unfold memb. rewrite existsb_exists. split.
  - intros [j [Hj E]]. apply N.eqb_eq in E. subst. exact Hj.
  - intros H. exists i. split; [exact H | apply N.eqb_refl].
Qed.

Lemma memb_false i l : memb i l = false <-> ~ In i l.
Proof.
  rewrite <- memb_spec. destruct (memb i l); split; intros H; congruence.
Qed.

Lemma nodupb_spec l : nodupb l = true <-> NoDup l.
Proof.
  induction l as [|x l IH]; cbn [nodupb].
  - split; [constructor | reflexivity].
  - rewrite andb_true_iff, negb_true_iff, memb_false, IH. split.
    + intros [A B]. constructor; assumption.
    + intros H. inversion H; subst. split; assumption.
Qed.

Lemma subb_spec a b : subb a b = true <-> incl a b.
Proof.
  unfold subb. rewrite forallb_forall. split.
  - intros H x Hx. apply memb_spec. apply H. exact Hx.
  - intros H x Hx. apply memb_spec. apply H. exact Hx.
Qed.

Lemma same_setb_refl a : same_setb a a = true.
Proof.
  unfold same_setb. assert (E : subb a a = true) by (apply subb_spec; apply incl_refl).
  rewrite E. reflexivity.
Qed.

Lemma same_setb_spec a b : same_setb a b = true <-> (forall x, In x a <-> In x b).
Proof.
  unfold same_setb. rewrite andb_true_iff, !subb_spec. split.
  - intros [A B] x. split; [apply A | apply B].
  - intros H. split; intros x Hx; apply H; exact Hx.
Qed.

Lemma perm_shuffle {A} (o a b c d : list A) :
  Permutation ((o ++ a ++ b) ++ (c ++ d)) (o ++ (a ++ c) ++ (b ++ d)).
Proof.
  rewrite <- !app_assoc. apply Permutation_app_head. apply Permutation_app_head.
  rewrite !app_assoc. apply Permutation_app_tail. apply Permutation_app_comm.
Qed.

Lemma concat_all_nil {A} (ws : list (list A)) : Forall (fun w => w = []) ws -> concat ws = [].
Proof.
  induction 1 as [|w ws Hw _ IH]; [reflexivity|]. cbn [concat]. rewrite Hw, IH. reflexivity.
Qed.

(** the members of a duplicate-free concatenation are pairwise disjoint *)
Lemma nodup_concat_disjoint {A} (L : list (list A)) :
  NoDup (concat L) ->
  forall n n' a b, n <> n' -> nth_error L n = Some a -> nth_error L n' = Some b ->
  forall x, In x a -> ~ In x b.
Proof.
  induction L as [|w L IH]; intros Hnd n n' a b Hne Ha Hb x Hxa Hxb.
  - destruct n; discriminate.
  - cbn [concat] in Hnd. destruct (nodup_app_inv _ _ Hnd) as [_ [HL Hd]].
    destruct n as [|n], n' as [|n']; cbn [nth_error] in Ha, Hb.
    + apply Hne. reflexivity.
    + inversion Ha; subst. apply (Hd x Hxa). apply in_concat. exists b. split; [|exact Hxb].
      eapply nth_error_In. exact Hb.
    + inversion Hb; subst. apply (Hd x Hxb). apply in_concat. exists a. split; [|exact Hxa].
      eapply nth_error_In. exact Ha.
    + refine (IH HL n n' a b _ Ha Hb x Hxa Hxb). intros ->. apply Hne. reflexivity.
Qed.

Lemma nodup_concat_each {A} (L : list (list A)) :
  NoDup (concat L) -> forall w, In w L -> NoDup w.
Proof.
  induction L as [|w0 L IH]; intros Hnd w Hw; [destruct Hw|].
  cbn [concat] in Hnd. destruct (nodup_app_inv _ _ Hnd) as [H0 [HL _]].
  destruct Hw as [<-|Hw]; [exact H0 | exact (IH HL w Hw)].
Qed.

Lemma map_fst_concat {A B} (L : list (list (A * B))) : map fst (concat L) = concat (map (map fst) L).
Proof. apply concat_map. Qed.

(* ------------------------------------------------------------------------------------------ *)
(** ** schedules of any number of sequential workers *)

(** [s] is an order-preserving merge of the lists [ws] (a schedule of [length ws] sequential
    workers); generalises [MutTravExtra.interleave] *)
Inductive interleaveN {A} : list (list A) -> list A -> Prop :=
| iln_done ws : Forall (fun w => w = []) ws -> interleaveN ws []
| iln_step pre e w post s :
    interleaveN (pre ++ w :: post) s -> interleaveN (pre ++ (e :: w) :: post) (e :: s).

Lemma interleaveN_perm {A} (ws : list (list A)) s : interleaveN ws s -> Permutation s (concat ws).
Proof.
  induction 1 as [ws H|pre e w post s _ IH].
  - rewrite (concat_all_nil ws H). constructor.
  - rewrite concat_app in *. cbn [concat app] in *. apply Permutation_cons_app. exact IH.
Qed.

(** two workers: exactly [interleave] *)
Lemma interleave_interleaveN {A} (w1 w2 w : list A) : interleave w1 w2 w -> interleaveN [w1; w2] w.
Proof.
  induction 1 as [|e w1 w2 w _ IH|e w1 w2 w _ IH].
  - apply iln_done. repeat constructor.
  - exact (iln_step [] e w1 [w2] w IH).
  - exact (iln_step [w1] e w2 [] w IH).
Qed.

(** running the workers one after the other is a schedule *)
Lemma interleaveN_concat_gen {A} (ws : list (list A)) : forall pre,
  Forall (fun w => w = []) pre -> interleaveN (pre ++ ws) (concat ws).
Proof.
  induction ws as [|w ws IH]; intros pre Hpre.
  - rewrite app_nil_r. apply iln_done. exact Hpre.
  - induction w as [|e w IHw]; cbn [concat app].
    + replace (pre ++ [] :: ws) with ((pre ++ [[]]) ++ ws) by (rewrite <- app_assoc; reflexivity).
      apply IH. apply Forall_app. split; [exact Hpre | repeat constructor].
    + apply iln_step. exact IHw.
Qed.

Corollary interleaveN_concat {A} (ws : list (list A)) : interleaveN ws (concat ws).
Proof. exact (interleaveN_concat_gen ws [] (Forall_nil _)). Qed.

(* ========================================================================================== *)
(** * PART 2a: facts that need no prefix law *)
Section Thm.
Variables (pfx V : Type).
Variables (peq contains : pfx -> pfx -> bool) (is_bit_set : pfx -> N -> bool)
          (plen : pfx -> N) (lcp : pfx -> pfx -> pfx) (pzero : pfx)
          (mcmp : pfx -> pfx -> comparison).
Variable bits : pfx -> list bool.
Variable ok : pfx -> Prop.
Hypothesis LAWS : prefix_laws pfx peq contains is_bit_set plen lcp pzero mcmp bits ok.

Notation tree := (Trie.tree pfx V).
Notation ids := (Slots.ids pfx V).
Notation vmut := (Views.vmut pfx).
Notation mkvmut := (Views.mkvmut pfx).
Notation mpath := (Views.mpath pfx).
Notation mvirt := (Views.mvirt pfx).
Notation vm_root := (Views.vm_root pfx).
Notation vm_split := (Views.vm_split pfx V is_bit_set plen pzero).
Notation slot3 := (MutTrav.slot3 pfx V).
Notation skel := (MutTrav.skel pfx V).
Notation write_each := (MutTrav.write_each pfx V).
Notation wf_under := (TrieWf.wf_under pfx V bits ok).
Notation wf_root := (TrieWf.wf_root pfx V bits ok).
Notation union_mut := (SetOps.union_mut pfx V V contains is_bit_set plen pzero mcmp).
Notation intersection_mut := (SetOps.intersection_mut pfx V V contains is_bit_set plen pzero mcmp).
Notation difference_mut := (SetOps.difference_mut pfx V V contains is_bit_set plen pzero mcmp).
Notation covering_difference_mut := (SetOps.covering_difference_mut pfx V V contains is_bit_set plen pzero mcmp).
Notation own_slot := (own_slot pfx V).
Notation split_slots := (split_slots pfx V is_bit_set plen pzero).
Notation tree_slots := (tree_slots pfx V).
Notation um_slots := (um_slots pfx V).
Notation im_slots := (im_slots pfx V).
Notation dm_slots := (dm_slots pfx V).
Notation cdm_slots := (cdm_slots pfx V).
Notation sets_clause := (sets_clause pfx V contains is_bit_set plen pzero mcmp).
Notation alias_report := (alias_report pfx V contains is_bit_set plen pzero mcmp).

(* ------------------------------------------------------------------------------------------ *)
(** ** 0. [own_slot] is the slot [value_mut] designates *)

Theorem own_slot_some (T : tree) (m : vmut) i :
  own_slot T m = Some i ->
  exists p x l r,
    mvirt m = None /\ vm_tree T m = Node i p (Some x) l r /\ vm_value T m = Some x /\
    In (i, p, x) (entries_id T) /\
    (NoDup (ids T) -> forall g, vm_value_mut T m g = (write_ids T [(i, g x)], Some (p, x))).
Proof.
  unfold ParModel.own_slot, vm_value. destruct (mvirt m) as [q|] eqn:Hv; [discriminate|].
  destruct (vm_tree T m) as [|j p [x|] l r] eqn:E; try discriminate.
  intros H. inversion H; subst j. exists p, x, l, r.
  split; [reflexivity|]. split; [reflexivity|]. split; [reflexivity|]. split.
  - apply (subtree_entries_id_incl pfx V (mpath m) T). unfold vm_tree in E. rewrite E. left. reflexivity.
  - intros Hnd g. rewrite (surjective_pairing (vm_value_mut T m g)).
    rewrite (vm_value_mut_write pfx V T m g i p x l r Hnd Hv E). f_equal.
    unfold vm_value_mut. rewrite Hv. cbn [snd]. rewrite E. reflexivity.
Qed.

Theorem own_slot_none (T : tree) (m : vmut) :
  own_slot T m = None -> vm_value T m = None /\ forall g, vm_value_mut T m g = (T, None).
Proof.
  unfold ParModel.own_slot, vm_value. destruct (mvirt m) as [q|] eqn:Hv.
  - intros _. split; [reflexivity|]. intros g. unfold vm_value_mut. rewrite Hv. reflexivity.
  - destruct (vm_tree T m) as [|j p [x|] l r] eqn:E; try discriminate; intros _.
    + split; [reflexivity|]. intros g. rewrite (surjective_pairing (vm_value_mut T m g)).
      destruct (vm_write_leaf pfx V T m E) as [_ [_ F]]. rewrite F. f_equal.
      unfold vm_value_mut. rewrite Hv. cbn [snd]. rewrite E. reflexivity.
    + split; [reflexivity|]. intros g. exact (vm_value_mut_none pfx V T m g j p l r Hv E).
Qed.

(* ------------------------------------------------------------------------------------------ *)
(** ** 1. [split_slots] *)

Lemma tree_slots_spec (t : tree) : tree_slots t = map slot3 (entries_id t).
Proof.
  induction t as [|i p v l IHl r IHr]; [reflexivity|].
  cbn [ParModel.tree_slots entries_id]. rewrite !map_app, IHl, IHr. destruct v; reflexivity.
Qed.

Lemma subtree_snoc (T : tree) (pa : path) i p v l r (s : bool) :
  subtree T pa = Node i p v l r -> subtree T (pa ++ [s]) = if s then r else l.
Proof.
  intros E. rewrite (subtree_app pfx V), E, (subtree_side pfx V). destruct s; reflexivity.
Qed.

(** a real view: the recursion follows the subtree *)
Lemma split_slots_subtree (T : tree) : forall fuel pa,
  tsize (subtree T pa) < fuel ->
  split_slots fuel T (mkvmut pa None) = tree_slots (subtree T pa).
Proof.
  induction fuel as [|f IH]; intros pa Hf; [lia|].
  cbn [ParModel.split_slots]. unfold ParModel.own_slot, Views.vm_split, vm_tree.
  cbn [Views.mvirt Views.mpath fst snd].
  destruct (subtree T pa) as [|i p v l r] eqn:E; [reflexivity|].
  cbn [tleft tright ParModel.tree_slots]. cbn [tsize] in Hf.
  assert (Hside : forall (s : bool) (c : tree), c = (if s then r else l) ->
            match (if is_node c then Some (mkvmut (pa ++ [s]) None) else None) with
            | Some m' => split_slots f T m'
            | None => []
            end = tree_slots c).
  { intros s c Ec. destruct c as [|ci cp cv cl cr] eqn:Dc; [reflexivity|]. cbn [is_node].
    rewrite IH; rewrite (subtree_snoc T pa i p v l r s E), <- Ec; [reflexivity|].
    destruct s; subst; cbn [tsize] in *; lia. }
  rewrite (Hside false l eq_refl), (Hside true r eq_refl).
  destruct v; reflexivity.
Qed.

(** any view, virtual or not *)
Lemma split_slots_view (T : tree) (m : vmut) fuel :
  tsize (vm_tree T m) + 1 < fuel -> split_slots fuel T m = tree_slots (vm_tree T m).
Proof.
  intros Hf. destruct m as [pa [q|]].
  - destruct fuel as [|f]; [lia|]. cbn [ParModel.split_slots].
    unfold ParModel.own_slot, Views.vm_split, vm_tree in *. cbn [Views.mvirt Views.mpath] in *.
    destruct (Trie.to_right pfx is_bit_set plen q (Trie.tpfx pfx V pzero (subtree T pa)));
      cbn [fst snd olist app]; rewrite split_slots_subtree by lia; [reflexivity | apply app_nil_r].
  - unfold vm_tree in *. cbn [Views.mpath] in *. apply split_slots_subtree. lia.
Qed.

(** THEOREM 1: with enough fuel the recursive split of the root view lists exactly the slots of the
    entries, in iteration order: it reaches every entry exactly once *)
Theorem split_slots_spec (T : tree) fuel :
  tsize T < fuel -> split_slots fuel T vm_root = map slot3 (entries_id T).
Proof.
  intros Hf. unfold Views.vm_root. rewrite split_slots_subtree; rewrite (subtree_nil pfx V); [|exact Hf].
  apply tree_slots_spec.
Qed.

Corollary split_slots_exact (T : tree) fuel :
  NoDup (ids T) -> tsize T < fuel ->
  NoDup (split_slots fuel T vm_root) /\
  (forall i, In i (split_slots fuel T vm_root) <-> exists p x, In (i, p, x) (entries_id T)) /\
  length (split_slots fuel T vm_root) = length (entries T).
Proof.
  intros Hnd Hf. rewrite (split_slots_spec T fuel Hf). split; [|split].
  - apply entry_slots_nodup. exact Hnd.
  - intros i. rewrite in_map_iff. split.
    + intros [[[j p] x] [<- Hin]]. exists p, x. exact Hin.
    + intros [p [x Hin]]. exists (i, p, x). split; [reflexivity | exact Hin].
  - rewrite map_length. symmetry. apply length_entries_id.
Qed.

(* ------------------------------------------------------------------------------------------ *)
(** ** 2. [alias_report] *)

Lemma um_slots_perm (out : list (SetOps.umitem pfx V V)) :
  Permutation (um_slots out)
              (map slot3 (um_lrefs pfx V V out) ++ map slot3 (um_rrefs pfx V V out)).
Proof.
  induction out as [|[[p l] r] out IH]; [constructor|].
  unfold ParModel.um_slots, um_lrefs, um_rrefs, refs_by in *. cbn [flat_map].
  rewrite !map_app. cbn [um_lref um_rref].
  destruct l as [[i x]|], r as [[j y]|]; cbn [olist map MutTrav.slot3 app].
  - constructor. apply Permutation_cons_app. exact IH.
  - constructor. exact IH.
  - apply Permutation_cons_app. exact IH.
  - exact IH.
Qed.

Lemma im_slots_perm (out : list (SetOps.imitem pfx V V)) :
  Permutation (im_slots out)
              (map slot3 (im_lrefs pfx V V out) ++ map slot3 (im_rrefs pfx V V out)).
Proof.
  induction out as [|[[p [i x]] [j y]] out IH]; [constructor|].
  unfold ParModel.im_slots, im_lrefs, im_rrefs in *. cbn [flat_map map MutTrav.slot3 app].
  constructor. apply Permutation_cons_app. exact IH.
Qed.

Lemma dm_slots_eq (out : list (SetOps.dmitem pfx V V)) :
  dm_slots out = map slot3 (dm_refs pfx V V out).
Proof.
  unfold ParModel.dm_slots, dm_refs. rewrite map_map. apply map_ext. intros [[p [i x]] a]. reflexivity.
Qed.

Lemma cdm_slots_eq (out : list (pfx * (N * V))) :
  cdm_slots out = map slot3 (cdm_refs pfx V out).
Proof.
  unfold ParModel.cdm_slots, cdm_refs. rewrite map_map. apply map_ext. intros [p [i x]]. reflexivity.
Qed.

Lemma keyed_refs_in_entries (T t : tree) (items : list (N * pfx * V)) :
  incl (entries_id t) (entries_id T) ->
  (forall i p y, In (i, p, y) items -> exists pr, In (i, pr, y) (entries_id t) /\ bits pr = bits p) ->
  incl (map slot3 items) (map slot3 (entries_id T)).
Proof.
  intros Hsub H i Hi. apply in_map_iff in Hi. destruct Hi as [[[j p] y] [<- Hin]].
  destruct (H j p y Hin) as [pr [Hpr _]]. apply in_map_iff. exists (j, pr, y).
  split; [reflexivity | apply Hsub; exact Hpr].
Qed.

Lemma refs_in_entries (T t : tree) (items : list (N * pfx * V)) :
  incl (entries_id t) (entries_id T) -> incl items (entries_id t) ->
  incl (map slot3 items) (map slot3 (entries_id T)).
Proof.
  intros Hsub H. apply incl_map. intros e He. apply Hsub. apply H. exact He.
Qed.

Lemma sets_clause_true b (T : tree) : wf_under b T -> NoDup (ids T) -> sets_clause T = true.
Proof.
  intros Hwf Hnd. unfold ParModel.sets_clause.
  destruct (vm_split T vm_root) as [[vl|] [vr|]] eqn:Hs; try reflexivity.
  destruct (vm_split_both pfx V is_bit_set plen pzero T vm_root vl vr Hs) as [_ [-> ->]].
  unfold vm_tree. cbn [Views.mpath Views.vm_root app].
  rewrite !(iter_mut_items_spec pfx V).
  set (a := subtree T [false]). set (b' := subtree T [true]).
  destruct (subtree_wf pfx V bits ok [false] b T Hwf) as [ba Wa].
  destruct (subtree_wf pfx V bits ok [true] b T Hwf) as [bb Wb].
  fold a in Wa. fold b' in Wb.
  assert (H12 : ~ prefix_of [false] [true]).
  { intros H. apply (sides_disjoint [] [true]); [exact H | apply prefix_of_refl]. }
  assert (H21 : ~ prefix_of [true] [false]).
  { intros H. apply (sides_disjoint [] [false]); [apply prefix_of_refl | exact H]. }
  assert (Sa : incl (entries_id a) (entries_id T)) by apply subtree_entries_id_incl.
  assert (Sb : incl (entries_id b') (entries_id T)) by apply subtree_entries_id_incl.
  destruct (union_mut_mirrors pfx V V peq contains is_bit_set plen lcp pzero mcmp bits ok LAWS ba bb a b' Wa Wb)
    as [o1 [ou [_ [Eu _]]]].
  destruct (intersection_mut_mirrors pfx V V peq contains is_bit_set plen lcp pzero mcmp bits ok LAWS ba bb a b' Wa Wb)
    as [o2 [oi [_ [Ei _]]]].
  destruct (difference_mut_mirrors pfx V V peq contains is_bit_set plen lcp pzero mcmp bits ok LAWS ba bb a b' Wa Wb)
    as [o3 [od [_ [Ed _]]]].
  destruct (covering_difference_mut_mirrors pfx V V peq contains is_bit_set plen lcp pzero mcmp bits ok LAWS ba bb a b' Wa Wb)
    as [o4 [oc [_ [Ec _]]]].
  rewrite Eu, Ei, Ed, Ec.
  (* union_mut *)
  destruct (union_mut_views_disjoint pfx V peq contains is_bit_set plen lcp pzero mcmp bits ok LAWS
              b T [false] [true] Hwf Hnd H12 H21 ou Eu) as [_ [_ Nu]].
  destruct (union_mut_refs pfx V V peq contains is_bit_set plen lcp pzero mcmp bits ok LAWS
              ba bb a b' ou Wa Wb Eu) as [Lu [Ru _]].
  assert (U1 : nodupb (um_slots ou) = true).
  { apply nodupb_spec. eapply Permutation_NoDup; [apply Permutation_sym; apply um_slots_perm | exact Nu]. }
  assert (U2 : subb (um_slots ou) (map slot3 (entries_id T)) = true).
  { apply subb_spec. intros i Hi. apply (Permutation_in _ (um_slots_perm ou)) in Hi.
    apply in_app_or in Hi. destruct Hi as [Hi|Hi].
    - exact (refs_in_entries T a _ Sa Lu i Hi).
    - exact (keyed_refs_in_entries T b' _ Sb Ru i Hi). }
  (* intersection_mut *)
  destruct (intersection_mut_views_disjoint pfx V peq contains is_bit_set plen lcp pzero mcmp bits ok LAWS
              b T [false] [true] Hwf Hnd H12 H21 oi Ei) as [_ [_ Ni]].
  destruct (intersection_mut_refs pfx V V peq contains is_bit_set plen lcp pzero mcmp bits ok LAWS
              ba bb a b' oi Wa Wb Ei) as [Li [Ri _]].
  assert (I1 : nodupb (im_slots oi) = true).
  { apply nodupb_spec. eapply Permutation_NoDup; [apply Permutation_sym; apply im_slots_perm | exact Ni]. }
  assert (I2 : subb (im_slots oi) (map slot3 (entries_id T)) = true).
  { apply subb_spec. intros i Hi. apply (Permutation_in _ (im_slots_perm oi)) in Hi.
    apply in_app_or in Hi. destruct Hi as [Hi|Hi].
    - exact (refs_in_entries T a _ Sa Li i Hi).
    - exact (keyed_refs_in_entries T b' _ Sb Ri i Hi). }
  (* difference_mut *)
  destruct (difference_mut_views_disjoint pfx V peq contains is_bit_set plen lcp pzero mcmp bits ok LAWS
              b T [false] [true] Hwf Hnd H12 H21 od Ed) as [_ [Nd Ad]].
  destruct (difference_mut_refs pfx V V peq contains is_bit_set plen lcp pzero mcmp bits ok LAWS
              ba bb a b' od Wa Wb Ed) as [Ld _].
  assert (D1 : nodupb (dm_slots od) = true) by (apply nodupb_spec; rewrite dm_slots_eq; exact Nd).
  assert (D2 : subb (dm_slots od) (map slot3 (entries_id T)) = true).
  { apply subb_spec. rewrite dm_slots_eq. exact (refs_in_entries T a _ Sa Ld). }
  assert (D3 : forallb (fun x => negb (memb x (map slot3 (entries_id b')))) (dm_slots od) = true).
  { apply forallb_forall. intros x Hx. apply negb_true_iff. apply memb_false. intros Hb.
    rewrite dm_slots_eq in Hx. apply (Ad x Hx). apply slots_in_ids. exact Hb. }
  (* covering_difference_mut *)
  destruct (covering_difference_mut_views_disjoint pfx V peq contains is_bit_set plen lcp pzero mcmp bits ok LAWS
              b T [false] [true] Hwf Hnd H12 H21 oc Ec) as [_ [Nc _]].
  destruct (covering_difference_mut_refs pfx V V peq contains is_bit_set plen lcp pzero mcmp bits ok LAWS
              ba bb a b' oc Wa Wb Ec) as [Lc _].
  assert (C1 : nodupb (cdm_slots oc) = true) by (apply nodupb_spec; rewrite cdm_slots_eq; exact Nc).
  assert (C2 : subb (cdm_slots oc) (map slot3 (entries_id T)) = true).
  { apply subb_spec. rewrite cdm_slots_eq. exact (refs_in_entries T a _ Sa Lc). }
  rewrite U1, U2, I1, I2, D1, D2, D3, C1, C2. reflexivity.
Qed.

(** THEOREM 2 *)
Theorem alias_report_true b (T : tree) :
  wf_under b T -> NoDup (ids T) ->
  alias_report T = (length (entries T), true, true, true, true).
Proof.
  intros Hwf Hnd. unfold ParModel.alias_report.
  rewrite (split_slots_spec T (S (tsize T))) by lia.
  rewrite (iter_mut_items_spec pfx V).
  assert (E1 : nodupb (map slot3 (entries_id T)) = true).
  { apply nodupb_spec. apply entry_slots_nodup. exact Hnd. }
  rewrite E1, same_setb_refl, (sets_clause_true b T Hwf Hnd), map_length, <- length_entries_id.
  reflexivity.
Qed.

Corollary alias_report_true_root (T : tree) :
  wf_root T -> NoDup (ids T) ->
  alias_report T = (length (entries T), true, true, true, true).
Proof.
  intros Hwf. destruct T as [|i p v l r]; [destruct Hwf|]. destruct Hwf as [_ Hu].
  exact (alias_report_true [] _ Hu).
Qed.

(* ------------------------------------------------------------------------------------------ *)
(** ** 3./4. [par] *)
Section ParSf.
Variable sf : V -> V.
Notation par_go := (par_go pfx V is_bit_set plen pzero sf).
Notation par_jobs := (par_jobs pfx V is_bit_set plen pzero sf).

(** the slots of the references worker [j]'s [iter_mut] yields *)
Definition job_slots (T : tree) (j : vmut) : list N := map slot3 (vm_iter_mut T j).

Lemma job_slots_tree (T : tree) (j : vmut) : job_slots T j = tree_slots (vm_tree T j).
Proof. unfold job_slots. rewrite (vm_iter_mut_spec pfx V), tree_slots_spec. reflexivity. Qed.

(** the invariant of [par_go] at a real view [pa] *)
Lemma par_go_spec (T : tree) : forall k pa,
  Permutation (map fst (snd (par_go k T (mkvmut pa None)))
               ++ concat (map (job_slots T) (fst (par_go k T (mkvmut pa None)))))
              (tree_slots (subtree T pa)) /\
  Forall (fun j => mvirt j = None /\ prefix_of pa (mpath j) /\ length (mpath j) <= length pa + k)
         (fst (par_go k T (mkvmut pa None))) /\
  (forall i y, In (i, y) (snd (par_go k T (mkvmut pa None))) ->
     exists p x, In (i, p, x) (entries_id (subtree T pa)) /\ y = sf x).
Proof.
  induction k as [|k IH]; intros pa.
  - cbn [ParModel.par_go fst snd map concat app]. split; [|split].
    + rewrite app_nil_r, job_slots_tree. unfold vm_tree. cbn [Views.mpath]. apply Permutation_refl.
    + constructor; [|constructor]. cbn [Views.mvirt Views.mpath].
      split; [reflexivity|]. split; [apply prefix_of_refl | lia].
    + intros i y [].
  - cbn [ParModel.par_go]. unfold ParModel.own_slot, vm_value, Views.vm_split, vm_tree.
    cbn [Views.mvirt Views.mpath fst snd].
    destruct (subtree T pa) as [|i p v l r] eqn:E.
    { cbn [tleft tright is_node tval fst snd app map concat ParModel.tree_slots].
      split; [constructor|]. split; [constructor|]. intros i y []. }
    cbn [tleft tright tval].
    (* one side *)
    assert (Hside : forall (s : bool) (c : tree), c = (if s then r else l) ->
              let R := match (if is_node c then Some (mkvmut (pa ++ [s]) None) else None) with
                       | Some m' => par_go k T m'
                       | None => ([], [])
                       end in
              Permutation (map fst (snd R) ++ concat (map (job_slots T) (fst R))) (tree_slots c) /\
              Forall (fun j => mvirt j = None /\ prefix_of pa (mpath j) /\ length (mpath j) <= length pa + S k) (fst R) /\
              (forall i y, In (i, y) (snd R) -> exists p x, In (i, p, x) (entries_id c) /\ y = sf x)).
    { intros s c Ec. destruct c as [|ci cp cv cl cr] eqn:Dc.
      - cbn [is_node fst snd map concat app ParModel.tree_slots].
        split; [constructor|]. split; [constructor|]. intros i' y [].
      - cbn [is_node]. destruct (IH (pa ++ [s])) as [A [B C]].
        rewrite (subtree_snoc T pa i p v l r s E), <- Ec in A, C.
        cbv zeta. split; [exact A|]. split; [|exact C].
        eapply Forall_impl; [|exact B]. cbv beta. intros j [J1 [J2 J3]].
        split; [exact J1|]. split.
        + eapply prefix_of_trans; [apply prefix_of_app | exact J2].
        + rewrite app_length in J3. cbn [length] in J3. lia. }
    destruct (Hside false l eq_refl) as [Al [Bl Cl]].
    destruct (Hside true r eq_refl) as [Ar [Br Cr]].
    cbv zeta in Al, Bl, Cl, Ar, Br, Cr.
    set (RL := match (if is_node l then Some (mkvmut (pa ++ [false]) None) else None) with
               | Some m' => par_go k T m' | None => ([], []) end) in *.
    set (RR := match (if is_node r then Some (mkvmut (pa ++ [true]) None) else None) with
               | Some m' => par_go k T m' | None => ([], []) end) in *.
    split; [|split].
    + rewrite !map_app, concat_app. cbn [ParModel.tree_slots].
      eapply Permutation_trans; [apply perm_shuffle|].
      apply Permutation_app; [|apply Permutation_app; assumption].
      destruct v; apply Permutation_refl.
    + apply Forall_app. split; assumption.
    + intros i' y Hin. cbn [entries_id]. apply in_app_or in Hin. destruct Hin as [Hin|Hin].
      * destruct v as [x|]; [|destruct Hin]. destruct Hin as [Ei|[]]. inversion Ei; subst.
        exists p, x. split; [left; reflexivity | reflexivity].
      * apply in_app_or in Hin. destruct Hin as [Hin|Hin].
        -- destruct (Cl i' y Hin) as [p' [x' [H1 H2]]]. exists p', x'. split; [|exact H2].
           apply in_app_iff. right. apply in_app_iff. left. exact H1.
        -- destruct (Cr i' y Hin) as [p' [x' [H1 H2]]]. exists p', x'. split; [|exact H2].
           apply in_app_iff. right. apply in_app_iff. right. exact H1.
Qed.

(** the splitter's slots together with the jobs' slots are exactly the slots of the entries *)
Theorem par_cover_perm (k : nat) (T : tree) :
  Permutation (map fst (snd (par_jobs k T)) ++ concat (map (job_slots T) (fst (par_jobs k T))))
              (map slot3 (entries_id T)).
Proof.
  unfold ParModel.par_jobs, Views.vm_root. destruct (par_go_spec T k []) as [A _].
  rewrite (subtree_nil pfx V), tree_slots_spec in A. exact A.
Qed.

(** the jobs are real sub-views at most [k] levels below the root *)
Theorem par_jobs_views (k : nat) (T : tree) :
  Forall (fun j => mvirt j = None /\ length (mpath j) <= k) (fst (par_jobs k T)).
Proof.
  unfold ParModel.par_jobs, Views.vm_root. destruct (par_go_spec T k []) as [_ [B _]].
  eapply Forall_impl; [|exact B]. cbv beta. intros j [J1 [_ J3]]. cbn [length] in J3. split; [exact J1 | lia].
Qed.

(** the splitter writes [sf old] to entries of the map *)
Theorem par_splitter_writes (k : nat) (T : tree) i y :
  In (i, y) (snd (par_jobs k T)) -> exists p x, In (i, p, x) (entries_id T) /\ y = sf x.
Proof.
  unfold ParModel.par_jobs, Views.vm_root. destruct (par_go_spec T k []) as [_ [_ C]].
  rewrite (subtree_nil pfx V) in C. apply C.
Qed.

(** THEOREM 4: every entry is either the own entry of a split node (written by [sf], in no job)
    or belongs to exactly one job (and is not written by the splitter) *)
Theorem par_jobs_cover (k : nat) (T : tree) :
  NoDup (ids T) ->
  let jobs := fst (par_jobs k T) in
  let ws := snd (par_jobs k T) in
  forall i p x, In (i, p, x) (entries_id T) ->
    (In (i, sf x) ws /\ forall j, In j jobs -> ~ In i (job_slots T j))
    \/
    (~ In i (map fst ws) /\
     exists n j, nth_error jobs n = Some j /\ In (i, p, x) (vm_iter_mut T j) /\
       forall n' j', nth_error jobs n' = Some j' -> In i (job_slots T j') -> n' = n).
Proof.
  intros Hnd jobs ws i p x Hin.
  pose proof (par_cover_perm k T) as Hp. fold jobs in Hp. fold ws in Hp.
  assert (Hall : NoDup (map fst ws ++ concat (map (job_slots T) jobs))).
  { eapply Permutation_NoDup; [apply Permutation_sym; exact Hp|]. apply entry_slots_nodup. exact Hnd. }
  destruct (nodup_app_inv _ _ Hall) as [_ [HJ Hd]].
  assert (Hi : In i (map fst ws ++ concat (map (job_slots T) jobs))).
  { apply (Permutation_in _ (Permutation_sym Hp)). apply (in_map slot3) in Hin. exact Hin. }
  apply in_app_or in Hi. destruct Hi as [Hi|Hi].
  - left. split.
    + apply in_map_iff in Hi. destruct Hi as [[i' y] [Ei Hy]]. cbn [fst] in Ei. subst i'.
      destruct (par_splitter_writes k T i y Hy) as [p' [x' [H1 ->]]].
      destruct (entries_id_slot_inj pfx V T Hnd i p x p' x' Hin H1) as [_ <-]. exact Hy.
    + intros j Hj Hij. apply (Hd i Hi). apply in_concat. exists (job_slots T j).
      split; [apply in_map; exact Hj | exact Hij].
  - right. split; [intros Hi'; exact (Hd i Hi' Hi)|].
    apply in_concat in Hi. destruct Hi as [sl [Hsl Hisl]].
    apply In_nth_error in Hsl. destruct Hsl as [n Hn]. rewrite nth_error_map in Hn.
    destruct (nth_error jobs n) as [j|] eqn:Ej; [|discriminate]. cbn [option_map] in Hn.
    inversion Hn; subst sl. exists n, j. split; [exact Ej|]. split.
    + unfold job_slots in Hisl. apply in_map_iff in Hisl. destruct Hisl as [[[i' p'] x'] [Ei He]].
      cbn [MutTrav.slot3] in Ei. subst i'.
      destruct (vm_iter_mut_refs pfx V T j Hnd) as [_ Hincl].
      destruct (entries_id_slot_inj pfx V T Hnd i p x p' x' Hin (Hincl _ He)) as [<- <-]. exact He.
    + intros n' j' Hn' Hij'. destruct (Nat.eq_dec n' n) as [E|Hne]; [exact E|]. exfalso.
      refine (nodup_concat_disjoint (map (job_slots T) jobs) HJ n n' (job_slots T j) (job_slots T j')
                _ _ _ i Hisl Hij'); [intros ->; apply Hne; reflexivity | |].
      * rewrite nth_error_map, Ej. reflexivity.
      * rewrite nth_error_map, Hn'. reflexivity.
Qed.

Section ParWf.
Variable wf : nat -> V -> V.
Notation job_writes := (job_writes pfx V wf).
Notation workers_writes := (workers_writes pfx V wf).
Notation par_workers := (par_workers pfx V is_bit_set plen pzero wf sf).
Notation par_writes := (par_writes pfx V is_bit_set plen pzero wf sf).
Notation par_result := (par_result pfx V is_bit_set plen pzero wf sf).

Lemma job_writes_slots (T : tree) n j : map fst (job_writes T n j) = job_slots T j.
Proof.
  unfold ParModel.job_writes, job_slots. rewrite map_map. apply map_ext. intros [[i p] x]. reflexivity.
Qed.

Lemma workers_writes_slots (T : tree) jobs : forall n,
  map (map fst) (workers_writes T n jobs) = map (job_slots T) jobs.
Proof.
  induction jobs as [|j jobs IH]; intros n; [reflexivity|].
  cbn [ParModel.workers_writes map]. rewrite job_writes_slots, IH. reflexivity.
Qed.

Lemma workers_writes_nth (T : tree) jobs : forall n0 n j,
  nth_error jobs n = Some j -> nth_error (workers_writes T n0 jobs) n = Some (job_writes T (n0 + n) j).
Proof.
  induction jobs as [|j0 jobs IH]; intros n0 n j H; [destruct n; discriminate|].
  destruct n as [|n]; cbn [nth_error ParModel.workers_writes] in *.
  - inversion H; subst. rewrite Nat.add_0_r. reflexivity.
  - rewrite (IH (S n0) n j H). f_equal. f_equal. lia.
Qed.

Lemma workers_writes_length (T : tree) jobs : forall n, length (workers_writes T n jobs) = length jobs.
Proof.
  induction jobs as [|j jobs IH]; intros n; [reflexivity|]. cbn [ParModel.workers_writes length].
  rewrite IH. reflexivity.
Qed.

Lemma par_writes_slots (k : nat) (T : tree) :
  map fst (par_writes k T)
  = map fst (snd (par_jobs k T)) ++ concat (map (job_slots T) (fst (par_jobs k T))).
Proof.
  unfold ParModel.par_writes, ParModel.par_workers. rewrite map_app, map_fst_concat, workers_writes_slots.
  reflexivity.
Qed.

(** every entry's slot is written exactly once by [par] *)
Theorem par_writes_perm (k : nat) (T : tree) :
  Permutation (map fst (par_writes k T)) (map slot3 (entries_id T)).
Proof. rewrite par_writes_slots. apply par_cover_perm. Qed.

Theorem par_writes_nodup (k : nat) (T : tree) : NoDup (ids T) -> NoDup (map fst (par_writes k T)).
Proof.
  intros Hnd. eapply Permutation_NoDup; [apply Permutation_sym; apply par_writes_perm|].
  apply entry_slots_nodup. exact Hnd.
Qed.

(** sequential composition of any number of write lists over pairwise disjoint slot sets *)
Lemma write_ids_concat (W : list (list (N * V))) : forall t : tree,
  NoDup (map fst (concat W)) -> fold_left (fun t w => write_ids t w) W t = write_ids t (concat W).
Proof.
  induction W as [|w W IH]; intros t Hnd; cbn [fold_left concat].
  - symmetry. apply write_ids_nil.
  - cbn [concat] in Hnd. rewrite map_app in Hnd. destruct (nodup_app_inv _ _ Hnd) as [_ [HW Hd]].
    rewrite (IH _ HW). apply write_ids_seq_disjoint. exact Hd.
Qed.

(** THEOREM 3 *)
Theorem par_schedule_independent (k : nat) (T : tree) :
  NoDup (ids T) ->
  let ws := snd (par_jobs k T) in
  let W := par_workers k T in
  (* the slot sets of the splitter and of the workers: all writes go to distinct slots ... *)
  NoDup (map fst ws ++ concat (map (map fst) W)) /\
  (* ... in particular no worker touches a slot of the splitter ... *)
  (forall n w, nth_error W n = Some w -> forall i, In i (map fst w) -> ~ In i (map fst ws)) /\
  (* ... and two different workers touch disjoint slot sets *)
  (forall n n' w w', n <> n' -> nth_error W n = Some w -> nth_error W n' = Some w' ->
     forall i, In i (map fst w) -> ~ In i (map fst w')) /\
  (* any schedule of the workers' individual writes after the split phase ... *)
  (forall s, interleaveN W s -> write_each T (ws ++ s) = par_result k T) /\
  (* ... indeed any order at all of all individual writes ... *)
  (forall s, Permutation s (par_writes k T) -> write_each T s = par_result k T) /\
  (* ... yields the result of running splitter and workers one after the other *)
  fold_left (fun t w => write_ids t w) W (write_ids T ws) = par_result k T.
Proof.
  intros Hnd ws W.
  pose proof (par_writes_nodup k T Hnd) as Hw.
  assert (Hw' : NoDup (map fst ws ++ concat (map (map fst) W))).
  { unfold ParModel.par_writes in Hw. rewrite map_app, map_fst_concat in Hw. exact Hw. }
  destruct (nodup_app_inv _ _ Hw') as [_ [HW Hd]].
  split; [exact Hw'|]. split; [|split; [|split; [|split]]].
  - intros n w Hn i Hi Hi'. apply (Hd i Hi'). apply in_concat. exists (map fst w). split; [|exact Hi].
    apply in_map. eapply nth_error_In. exact Hn.
  - intros n n' w w' Hne Hn Hn'. apply (nodup_concat_disjoint (map (map fst) W) HW n n'); [exact Hne| |].
    + rewrite nth_error_map, Hn. reflexivity.
    + rewrite nth_error_map, Hn'. reflexivity.
  - intros s Hs. unfold ParModel.par_result. apply write_each_perm; [exact Hw|].
    unfold ParModel.par_writes. apply Permutation_app_head. apply interleaveN_perm. exact Hs.
  - intros s Hs. unfold ParModel.par_result. apply write_each_perm; [exact Hw | exact Hs].
  - rewrite write_ids_concat by (rewrite map_fst_concat; exact HW).
    unfold ParModel.par_result, ParModel.par_writes. apply write_ids_seq_disjoint.
    intros i Hi. rewrite map_fst_concat. apply Hd. exact Hi.
Qed.

(** the write list built by the OCaml driver (latest write in front) gives the same tree *)
Corollary par_result_rev (k : nat) (T : tree) :
  NoDup (ids T) -> write_ids T (rev (par_writes k T)) = par_result k T.
Proof.
  intros Hnd. unfold ParModel.par_result. apply write_ids_ext. intros i _. symmetry.
  apply assoc_id_perm; [apply par_writes_nodup; exact Hnd | apply Permutation_rev].
Qed.

(** [par_result] changes values only *)
Theorem par_result_frame (k : nat) (T : tree) :
  map fst (entries (par_result k T)) = map fst (entries T) /\
  ids (par_result k T) = ids T /\
  skel (par_result k T) = skel T /\
  map (fun '(i, p, _) => (i, p)) (entries_id (par_result k T))
  = map (fun '(i, p, _) => (i, p)) (entries_id T).
Proof.
  unfold ParModel.par_result. split; [apply write_ids_entries_keys|].
  split; [apply write_ids_same_ids|]. split; [apply write_ids_skel | apply write_ids_keys].
Qed.

(** the value every entry holds after [par]: [sf x] for the own entry of a split node, [wf n x]
    for an entry of job [n]; slot, stored prefix and position are unchanged *)
Theorem par_result_values (k : nat) (T : tree) :
  NoDup (ids T) ->
  let jobs := fst (par_jobs k T) in
  let ws := snd (par_jobs k T) in
  entries_id (par_result k T)
  = map (fun '(i, p, x) => (i, p, newval V (par_writes k T) i x)) (entries_id T) /\
  forall i p x, In (i, p, x) (entries_id T) ->
    (In i (map fst ws) -> newval V (par_writes k T) i x = sf x) /\
    (forall n j, nth_error jobs n = Some j -> In (i, p, x) (vm_iter_mut T j) ->
       newval V (par_writes k T) i x = wf n x) /\
    (newval V (par_writes k T) i x = sf x \/
     exists n j, nth_error jobs n = Some j /\ In (i, p, x) (vm_iter_mut T j) /\
                 newval V (par_writes k T) i x = wf n x).
Proof.
  intros Hnd jobs ws. split; [apply write_ids_entries_id_newval|].
  intros i p x Hin.
  pose proof (par_writes_nodup k T Hnd) as Hw.
  assert (Hsf : In i (map fst ws) -> newval V (par_writes k T) i x = sf x).
  { intros Hi. apply in_map_iff in Hi. destruct Hi as [[i' y] [Ei Hy]]. cbn [fst] in Ei. subst i'.
    destruct (par_splitter_writes k T i y Hy) as [p' [x' [H1 ->]]].
    destruct (entries_id_slot_inj pfx V T Hnd i p x p' x' Hin H1) as [_ <-].
    unfold newval. rewrite (proj2 (assoc_id_nodup V (par_writes k T) i (sf x) Hw)); [reflexivity|].
    unfold ParModel.par_writes. apply in_app_iff. left. exact Hy. }
  assert (Hwf : forall n j, nth_error jobs n = Some j -> In (i, p, x) (vm_iter_mut T j) ->
                  newval V (par_writes k T) i x = wf n x).
  { intros n j Hn He.
    unfold newval. rewrite (proj2 (assoc_id_nodup V (par_writes k T) i (wf n x) Hw)); [reflexivity|].
    unfold ParModel.par_writes. apply in_app_iff. right. apply in_concat.
    exists (job_writes T n j). split.
    - unfold ParModel.par_workers. fold jobs. eapply nth_error_In.
      rewrite (workers_writes_nth T jobs 0 n j Hn). reflexivity.
    - unfold ParModel.job_writes. apply in_map_iff. exists (i, p, x). split; [reflexivity | exact He]. }
  split; [exact Hsf|]. split; [exact Hwf|].
  destruct (par_jobs_cover k T Hnd i p x Hin) as [[Hy _]|[_ [n [j [Hn [He _]]]]]].
  - left. apply Hsf. apply (in_map fst) in Hy. exact Hy.
  - right. exists n, j. split; [exact Hn|]. split; [exact He|]. exact (Hwf n j Hn He).
Qed.

(** the entry list (without slots) after [par] *)
Corollary par_result_entries (k : nat) (T : tree) :
  entries (par_result k T) = map (fun '(i, p, x) => (p, newval V (par_writes k T) i x)) (entries_id T).
Proof. unfold ParModel.par_result. apply write_ids_entries_newval. Qed.

End ParWf.
End ParSf.
End Thm.

(* ========================================================================================== *)
Print Assumptions own_slot_some.
Print Assumptions own_slot_none.
Print Assumptions split_slots_view.
Print Assumptions split_slots_spec.
Print Assumptions split_slots_exact.
Print Assumptions alias_report_true.
Print Assumptions alias_report_true_root.
Print Assumptions par_cover_perm.
Print Assumptions par_jobs_views.
Print Assumptions par_writes_perm.
Print Assumptions par_schedule_independent.
Print Assumptions par_result_rev.
Print Assumptions par_result_frame.
Print Assumptions par_result_values.
Print Assumptions par_jobs_cover.
Print Assumptions interleaveN_perm.
Print Assumptions interleave_interleaveN.
Print Assumptions interleaveN_concat.

(* ========================================================================================== *)
(** * Example: width 8, flavour [Generic], values [nat]
    The map {16/4 -> 10, 24/5 -> 60, 32/4 -> 20, 128/1 -> 30, 160/3 -> 50, 192/2 -> 40}: the root
    0/0 holds no value, and 0/2 is a value-less branching node above 16/4 and 32/4. *)
From PT Require Import PrefixN Inst.

Definition ex_ins (m : pmap PrefixN.pfx nat) (r l : N) (x : nat) : pmap PrefixN.pfx nat :=
  fst (t_insert 8%N Generic nat m (mkpfx r l) x).

Definition ex_map : pmap PrefixN.pfx nat :=
  ex_ins (ex_ins (ex_ins (ex_ins (ex_ins (ex_ins (t_empty nat)
    16%N 4%N 10%nat) 32%N 4%N 20%nat) 128%N 1%N 30%nat) 192%N 2%N 40%nat) 160%N 3%N 50%nat)
    24%N 5%N 60%nat.

Definition ex_alias_report :=
  alias_report PrefixN.pfx nat (PrefixN.contains 8%N Generic) (PrefixN.is_bit_set 8%N)
               PrefixN.plen PrefixN.pzero (PrefixN.mcmp 8%N).
(** the harness' functions: worker [i] stores [3x+i], the splitter [3x+7] *)
Definition ex_wf (i x : nat) : nat := (3 * x + i)%nat.
Definition ex_sf (x : nat) : nat := (3 * x + 7)%nat.
Definition ex_par_jobs :=
  par_jobs PrefixN.pfx nat (PrefixN.is_bit_set 8%N) PrefixN.plen PrefixN.pzero ex_sf.
Definition ex_par_writes :=
  par_writes PrefixN.pfx nat (PrefixN.is_bit_set 8%N) PrefixN.plen PrefixN.pzero ex_wf ex_sf.
Definition ex_par_result :=
  par_result PrefixN.pfx nat (PrefixN.is_bit_set 8%N) PrefixN.plen PrefixN.pzero ex_wf ex_sf.

Example ex_map_tree :
  root ex_map
  = Node 0%N (mkpfx 0%N 0%N) None
      (Node 2%N (mkpfx 0%N 2%N) None
         (Node 1%N (mkpfx 16%N 4%N) (Some 10%nat) Leaf
            (Node 7%N (mkpfx 24%N 5%N) (Some 60%nat) Leaf Leaf))
         (Node 3%N (mkpfx 32%N 4%N) (Some 20%nat) Leaf Leaf))
      (Node 4%N (mkpfx 128%N 1%N) (Some 30%nat)
         (Node 6%N (mkpfx 160%N 3%N) (Some 50%nat) Leaf Leaf)
         (Node 5%N (mkpfx 192%N 2%N) (Some 40%nat) Leaf Leaf)).
Proof. vm_compute. reflexivity. Qed.

Example ex_split_slots :
  split_slots PrefixN.pfx nat (PrefixN.is_bit_set 8%N) PrefixN.plen PrefixN.pzero
              (S (tsize (root ex_map))) (root ex_map) (vm_root PrefixN.pfx)
  = [1%N; 7%N; 3%N; 4%N; 6%N; 5%N].
Proof. vm_compute. reflexivity. Qed.

Example ex_alias : ex_alias_report (root ex_map) = (6%nat, true, true, true, true).
Proof. vm_compute. reflexivity. Qed.

(** the report is not trivially true: a (non-reachable) tree in which two nodes share slot 0 *)
Example ex_alias_detects :
  ex_alias_report (Node 0%N (mkpfx 0%N 0%N) (Some 1%nat)
                     (Node 0%N (mkpfx 0%N 1%N) (Some 2%nat) Leaf Leaf)
                     (Node 1%N (mkpfx 128%N 1%N) (Some 3%nat) Leaf Leaf))
  = (3%nat, false, false, true, true).
Proof. vm_compute. reflexivity. Qed.

(** [par A 2]: the root and 0/2 hold no value, 128/1 is rewritten by the splitter; four jobs *)
Example ex_par_jobs_2 :
  ex_par_jobs 2%nat (root ex_map)
  = ([mkvmut PrefixN.pfx [false; false] None; mkvmut PrefixN.pfx [false; true] None;
      mkvmut PrefixN.pfx [true; false] None; mkvmut PrefixN.pfx [true; true] None],
     [(4%N, 97%nat)]).
Proof. vm_compute. reflexivity. Qed.

Example ex_par_writes_2 :
  ex_par_writes 2%nat (root ex_map)
  = [(4%N, 97%nat); (1%N, 30%nat); (7%N, 180%nat); (3%N, 61%nat); (6%N, 152%nat); (5%N, 123%nat)].
Proof. vm_compute. reflexivity. Qed.

Example ex_par_result_2 :
  entries (ex_par_result 2%nat (root ex_map))
  = [(mkpfx 16%N 4%N, 30%nat); (mkpfx 24%N 5%N, 180%nat); (mkpfx 32%N 4%N, 61%nat);
     (mkpfx 128%N 1%N, 97%nat); (mkpfx 160%N 3%N, 152%nat); (mkpfx 192%N 2%N, 123%nat)].
Proof. vm_compute. reflexivity. Qed.

(** [par A 0]: one job, the whole map; [par A 6]: every node is split, no job is left *)
Example ex_par_result_0 :
  entries (ex_par_result 0%nat (root ex_map))
  = [(mkpfx 16%N 4%N, 30%nat); (mkpfx 24%N 5%N, 180%nat); (mkpfx 32%N 4%N, 60%nat);
     (mkpfx 128%N 1%N, 90%nat); (mkpfx 160%N 3%N, 150%nat); (mkpfx 192%N 2%N, 120%nat)].
Proof. vm_compute. reflexivity. Qed.

Example ex_par_result_6 :
  fst (ex_par_jobs 6%nat (root ex_map)) = [] /\
  entries (ex_par_result 6%nat (root ex_map))
  = [(mkpfx 16%N 4%N, 37%nat); (mkpfx 24%N 5%N, 187%nat); (mkpfx 32%N 4%N, 67%nat);
     (mkpfx 128%N 1%N, 97%nat); (mkpfx 160%N 3%N, 157%nat); (mkpfx 192%N 2%N, 127%nat)].
Proof. vm_compute. split; reflexivity. Qed.


(** the hypotheses of the theorems hold for the example (they are not vacuous) *)
From PT Require Import PrefixLaws Mutate.

Definition ex_laws := pn_laws 8%N Generic ltac:(vm_compute; discriminate).
Notation ex_wf_root := (TrieWf.wf_root PrefixN.pfx nat (pbits 8%N) (fun p => valid 8%N p = true)).

Lemma ex_ins_wf (m : pmap PrefixN.pfx nat) r l x :
  ex_wf_root (root m) -> valid 8%N (mkpfx r l) = true -> ex_wf_root (root (ex_ins m r l x)).
Proof.
  intros Hwf Hok. unfold ex_ins, t_insert.
  destruct (insert _ _ _ _ _ _ _ m (mkpfx r l) x) as [m' o] eqn:E. cbn [fst].
  exact (proj1 (Mutate.insert_spec _ _ _ _ _ _ _ _ _ _ _ ex_laws m (mkpfx r l) x m' o Hwf Hok E)).
Qed.

Lemma ex_map_wf : ex_wf_root (root ex_map).
Proof.
  unfold ex_map. repeat (apply ex_ins_wf; [|vm_compute; reflexivity]).
  exact (proj1 (Mutate.empty_spec _ nat _ _ _ _ _ _ _ _ _ ex_laws)).
Qed.

Lemma ex_map_nodup : NoDup (Slots.ids PrefixN.pfx nat (root ex_map)).
Proof. apply nodupb_spec. vm_compute. reflexivity. Qed.

(** [alias_report_true] instantiated (agrees with the computation [ex_alias]) *)
Example ex_alias_by_theorem :
  ex_alias_report (root ex_map) = (length (entries (root ex_map)), true, true, true, true).
Proof.
  exact (alias_report_true_root PrefixN.pfx nat _ _ _ _ _ _ _ _ _ ex_laws (root ex_map) ex_map_wf ex_map_nodup).
Qed.

(** [par_schedule_independent] instantiated: e.g. the reverse of all individual writes *)
Example ex_par_any_order :
  write_each PrefixN.pfx nat (root ex_map) (rev (ex_par_writes 2%nat (root ex_map)))
  = ex_par_result 2%nat (root ex_map).
Proof.
  destruct (par_schedule_independent PrefixN.pfx nat (PrefixN.is_bit_set 8%N) PrefixN.plen PrefixN.pzero
              ex_sf ex_wf 2%nat (root ex_map) ex_map_nodup) as [_ [_ [_ [_ [H _]]]]].
  apply H. apply Permutation_sym. apply Permutation_rev.
Qed.

Print Assumptions ex_alias_by_theorem.
Print Assumptions ex_par_any_order.
