(** The concrete prefix operations of [PrefixN] satisfy the abstract laws of [Laws], at every
    width [w >= 1] and for each of the three flavours.  No axioms. *)
From Coq Require Import List NArith Bool Lia ZifyN ZifyBool ZifyNat.
From PT Require Import Bits PrefixN Laws.
Import ListNotations.
Open Scope N_scope.

Local Arguments N.add : simpl never.
Local Arguments N.sub : simpl never.
Local Arguments N.mul : simpl never.
Local Arguments N.shiftr : simpl never.
Local Arguments N.shiftl : simpl never.
Local Arguments N.land : simpl never.
Local Arguments N.lor : simpl never.
Local Arguments N.lxor : simpl never.
Local Arguments N.ones : simpl never.
Local Arguments N.pow : simpl never.
Local Arguments N.testbit : simpl never.
Local Arguments N.of_nat : simpl never.
Local Arguments N.to_nat : simpl never.

(** * Lists of bits *)

Lemma list_eq_nth (a b : list bool) :
  a = b <-> (length a = length b /\ forall i, (i < length a)%nat -> nth i a false = nth i b false).
Proof.
  split.
  - intros ->. split; auto.
  - intros [Hl Hn]. apply (nth_ext a b false false Hl). exact Hn.
Qed.

Lemma prefix_of_nth (a b : list bool) :
  prefix_of a b <->
  ((length a <= length b)%nat /\ forall i, (i < length a)%nat -> nth i a false = nth i b false).
Proof.
  split.
  - intros [r ->]. split.
    + rewrite app_length. lia.
    + intros i Hi. rewrite app_nth1 by exact Hi. reflexivity.
  - revert b. induction a as [|x a IH]; intros b [Hl Hn].
    + exists b. reflexivity.
    + destruct b as [|y b]; [cbn in Hl; lia|].
      assert (Hxy : x = y) by (apply (Hn 0%nat); cbn; lia).
      destruct (IH b) as [r Hr].
      * split; [cbn in Hl; lia|]. intros i Hi. apply (Hn (S i)). cbn. lia.
      * exists r. subst. reflexivity.
Qed.

(** a common prefix that is maximal is the longest common prefix *)
Lemma common_char (l a b : list bool) :
  prefix_of l a -> prefix_of l b ->
  (length l = length a \/ length l = length b \/
   nth (length l) a false <> nth (length l) b false) ->
  l = common a b.
Proof.
  revert a b. induction l as [|x l IH]; intros a b [ra ->] [rb ->] H.
  - cbn in *. destruct ra as [|u ra]; [reflexivity|].
    destruct rb as [|v rb]; [reflexivity|]. cbn.
    destruct H as [H|[H|H]]; try discriminate H.
    destruct u, v; cbn in *; try reflexivity; exfalso; apply H; reflexivity.
  - cbn. rewrite Bool.eqb_reflx. f_equal. apply IH.
    + exists ra. reflexivity.
    + exists rb. reflexivity.
    + cbn in H. destruct H as [H|[H|H]]; [left|right;left|right;right]; first [lia | exact H].
Qed.

Lemma existsb_id_false (l : list bool) :
  (forall i, nth i l false = false) -> existsb (fun x => x) l = false.
Proof.
  induction l as [|x l IH]; intros H; [reflexivity|].
  cbn. rewrite (H 0%nat : x = false). cbn. apply IH. intros i. apply (H (S i)).
Qed.

Lemma existsb_id_true (l : list bool) i :
  nth i l false = true -> existsb (fun x => x) l = true.
Proof.
  revert i. induction l as [|x l IH]; intros i H.
  - destruct i; discriminate.
  - destruct i as [|i]; cbn in *.
    + rewrite H. reflexivity.
    + rewrite (IH i H). apply orb_true_r.
Qed.

Lemma bcmp_eq (a b : list bool) :
  (forall i, nth i a false = nth i b false) -> bcmp a b = Eq.
Proof.
  revert b. induction a as [|x a IH]; intros b H.
  - cbn. rewrite existsb_id_false; [reflexivity|].
    intros i. rewrite <- H. destruct i; reflexivity.
  - destruct b as [|y b].
    + cbn [bcmp]. rewrite existsb_id_false; [reflexivity|].
      intros i. rewrite H. destruct i; reflexivity.
    + cbn [bcmp]. pose proof (H 0%nat) as H0. cbn in H0. subst y.
      assert (bcmp a b = Eq) as -> by (apply IH; intros i; apply (H (S i))).
      destruct x; reflexivity.
Qed.

Lemma bcmp_lt (a b : list bool) i :
  (forall j, (j < i)%nat -> nth j a false = nth j b false) ->
  nth i a false = false -> nth i b false = true -> bcmp a b = Lt.
Proof.
  revert b i. induction a as [|x a IH]; intros b i H Ha Hb.
  - cbn. rewrite (existsb_id_true b i Hb). reflexivity.
  - destruct b as [|y b]; [destruct i; discriminate|].
    cbn [bcmp]. destruct i as [|i]; cbn in Ha, Hb.
    + subst. reflexivity.
    + pose proof (H 0%nat ltac:(lia)) as H0. cbn in H0. subst y.
      assert (bcmp a b = Lt) as ->.
      { apply (IH b i); auto. intros j Hj. apply (H (S j)). lia. }
      destruct x; reflexivity.
Qed.

Lemma bcmp_gt (a b : list bool) i :
  (forall j, (j < i)%nat -> nth j a false = nth j b false) ->
  nth i a false = true -> nth i b false = false -> bcmp a b = Gt.
Proof.
  revert b i. induction a as [|x a IH]; intros b i H Ha Hb.
  - destruct i; discriminate.
  - destruct b as [|y b].
    + cbn [bcmp]. rewrite (existsb_id_true (x :: a) i Ha). reflexivity.
    + cbn [bcmp]. destruct i as [|i]; cbn in Ha, Hb.
      * subst. reflexivity.
      * pose proof (H 0%nat ltac:(lia)) as H0. cbn in H0. subst y.
        assert (bcmp a b = Gt) as ->.
        { apply (IH b i); auto. intros j Hj. apply (H (S j)). lia. }
        destruct x; reflexivity.
Qed.

(** * Words *)

Lemma pow2_pos n : 0 < 2 ^ n.
Proof. apply N.neq_0_lt_0. apply N.pow_nonzero. lia. Qed.

Lemma pow2_nz n : 2 ^ n <> 0.
Proof. apply N.pow_nonzero. lia. Qed.

Lemma low_lt n x : (forall i, n <= i -> N.testbit x i = false) -> x < 2 ^ n.
Proof.
  intros H. destruct (N.eq_dec x 0) as [->|Hx]; [apply pow2_pos|].
  apply N.log2_lt_pow2; [lia|].
  destruct (N.lt_ge_cases (N.log2 x) n) as [Hl|Hl]; [exact Hl|].
  pose proof (N.bit_log2 x Hx) as Hb. rewrite (H _ Hl) in Hb. discriminate.
Qed.

Lemma lt_high n x i : x < 2 ^ n -> n <= i -> N.testbit x i = false.
Proof.
  intros Hx Hi. destruct (N.eq_dec x 0) as [->|Hx0]; [apply N.bits_0|].
  apply N.bits_above_log2. apply N.log2_lt_pow2 in Hx; lia.
Qed.

(** the highest differing bit decides the comparison *)
Lemma lt_by_bit x y k :
  (forall j, k < j -> N.testbit x j = N.testbit y j) ->
  N.testbit x k = false -> N.testbit y k = true -> x < y.
Proof.
  intros H Hx Hy.
  apply N.testbit_false in Hx. apply N.testbit_true in Hy.
  assert (E : x / 2 ^ k / 2 = y / 2 ^ k / 2).
  { rewrite !N.div_div by (try apply pow2_nz; lia).
    replace (2 ^ k * 2) with (2 ^ (k + 1)) by (rewrite N.pow_add_r, N.pow_1_r; reflexivity).
    apply N.bits_inj. intros i. rewrite !N.div_pow2_bits. apply H. lia. }
  destruct (N.lt_ge_cases x y) as [|Hge]; [assumption|exfalso].
  apply (N.div_le_mono _ _ (2 ^ k)) in Hge; [|apply pow2_nz].
  pose proof (N.div_mod (x / 2 ^ k) 2 ltac:(lia)).
  pose proof (N.div_mod (y / 2 ^ k) 2 ltac:(lia)). lia.
Qed.

Section W.
Variable w : N.
Notation mask := (mask_from_len w).

Lemma mask_bits len i :
  len <= w -> N.testbit (mask len) i = ((w - len <=? i) && (i <? w))%bool.
Proof.
  intros H. unfold mask_from_len, wnot, ones.
  destruct (N.eqb_spec len w) as [->|Hne].
  - rewrite N.sub_diag. destruct (N.ltb_spec i w).
    + rewrite N.ones_spec_low by lia. destruct (N.leb_spec 0 i); [reflexivity|lia].
    + rewrite N.ones_spec_high by lia. rewrite andb_false_r. reflexivity.
  - destruct (N.eqb_spec len 0) as [->|Hz].
    + rewrite N.bits_0, N.sub_0_r.
      destruct (N.leb_spec w i); destruct (N.ltb_spec i w); try reflexivity; lia.
    + rewrite N.lxor_spec, N.shiftr_spec by lia.
      destruct (N.ltb_spec i w).
      * rewrite (N.ones_spec_low w i) by lia.
        destruct (N.leb_spec (w - len) i).
        -- rewrite N.ones_spec_high by lia. reflexivity.
        -- rewrite N.ones_spec_low by lia. reflexivity.
      * rewrite !N.ones_spec_high by lia. rewrite andb_false_r. reflexivity.
Qed.

Lemma valid_iff p : valid w p = true <-> plen p <= w /\ repr p < 2 ^ w.
Proof. unfold valid. rewrite andb_true_iff, N.leb_le, N.ltb_lt. reflexivity. Qed.

Lemma pmask_bits p i : plen p <= w ->
  N.testbit (pmask w p) i =
  (N.testbit (repr p) i && ((w - plen p <=? i) && (i <? w)))%bool.
Proof. intros H. unfold pmask. rewrite N.land_spec, mask_bits by exact H. reflexivity. Qed.

Lemma land_mask_lt x len : len <= w -> N.land x (mask len) < 2 ^ w.
Proof.
  intros H. apply low_lt. intros i Hi. rewrite N.land_spec, mask_bits by exact H.
  replace (i <? w) with false by lia. rewrite !andb_false_r. reflexivity.
Qed.

(** [a] and [b] have the same [n] leading bits *)
Definition agree (n a b : N) :=
  forall i, w - n <= i -> i < w -> N.testbit a i = N.testbit b i.

Lemma land_mask_eq n a b :
  n <= w -> (N.land a (mask n) = N.land b (mask n) <-> agree n a b).
Proof.
  intros Hn. split.
  - intros H i H1 H2. apply (f_equal (fun x => N.testbit x i)) in H.
    rewrite !N.land_spec, mask_bits in H by exact Hn.
    replace (w - n <=? i) with true in H by lia. replace (i <? w) with true in H by lia.
    rewrite !andb_true_r in H. exact H.
  - intros H. apply N.bits_inj. intros i. rewrite !N.land_spec, mask_bits by exact Hn.
    destruct (N.leb_spec (w - n) i); destruct (N.ltb_spec i w); cbn [andb];
      rewrite ?andb_false_r; try reflexivity.
    rewrite !andb_true_r. apply H; assumption.
Qed.

Lemma agree_land_mask n x : n <= w -> agree n (N.land x (mask n)) x.
Proof.
  intros Hn i H1 H2. rewrite N.land_spec, mask_bits by exact Hn.
  replace (w - n <=? i) with true by lia. replace (i <? w) with true by lia.
  apply andb_true_r.
Qed.

Lemma agree_le n m a b : n <= m -> agree m a b -> agree n a b.
Proof. intros H Ha i H1 H2. apply Ha; lia. Qed.

Lemma agree_sym n a b : agree n a b -> agree n b a.
Proof. intros H i H1 H2. symmetry. apply H; assumption. Qed.

Lemma agree_trans n a b c : agree n a b -> agree n b c -> agree n a c.
Proof. intros H1 H2 i Hi Hj. rewrite H1, H2 by assumption. reflexivity. Qed.

Lemma lz_spec a b : a < 2 ^ w -> b < 2 ^ w ->
  let k := lz w (N.lxor a b) in
  k <= w /\ agree k a b /\
  (k < w -> N.testbit a (w - 1 - k) <> N.testbit b (w - 1 - k)).
Proof.
  intros Ha Hb. cbv zeta. unfold lz.
  destruct (N.eq_dec (N.lxor a b) 0) as [E|E].
  - rewrite E. apply N.lxor_eq in E. subst b. change (N.size 0) with 0.
    split; [lia|]. split; [intros i _ _; reflexivity|lia].
  - rewrite N.size_log2 by exact E.
    set (L := N.log2 (N.lxor a b)).
    assert (HL : L < w).
    { apply N.log2_lt_pow2; [lia|]. apply low_lt. intros i Hi.
      rewrite N.lxor_spec, (lt_high w a i), (lt_high w b i) by assumption. reflexivity. }
    split; [lia|]. split.
    + intros i H1 H2. apply Bool.xorb_eq. rewrite <- N.lxor_spec.
      apply N.bits_above_log2. fold L. lia.
    + intros _. replace (w - 1 - (w - N.succ L)) with L by lia.
      pose proof (N.bit_log2 _ E) as Hb'. fold L in Hb'. rewrite N.lxor_spec in Hb'.
      intros Heq. rewrite Heq, xorb_nilpotent in Hb'. discriminate.
Qed.

(** ** The bit string of a prefix *)

Lemma length_pbits p : length (pbits w p) = N.to_nat (plen p).
Proof. unfold pbits. rewrite map_length, seq_length. reflexivity. Qed.

Lemma nth_pbits p i :
  nth i (pbits w p) false =
  ((N.of_nat i <? plen p) && N.testbit (repr p) (w - 1 - N.of_nat i))%bool.
Proof.
  unfold pbits.
  set (f := fun i0 : nat => N.testbit (repr p) (w - 1 - N.of_nat i0)).
  destruct (N.ltb_spec (N.of_nat i) (plen p)) as [Hi|Hi]; cbn [andb].
  - rewrite (nth_indep _ false (f 0%nat)) by (rewrite map_length, seq_length; lia).
    rewrite map_nth, seq_nth by lia. reflexivity.
  - apply nth_overflow. rewrite map_length, seq_length. lia.
Qed.

Lemma agree_nat n a b : n <= w ->
  (agree n a b <->
   forall i, (i < N.to_nat n)%nat ->
     N.testbit a (w - 1 - N.of_nat i) = N.testbit b (w - 1 - N.of_nat i)).
Proof.
  intros Hn. split.
  - intros H i Hi. apply H; lia.
  - intros H i H1 H2. specialize (H (N.to_nat (w - 1 - i))).
    replace (w - 1 - N.of_nat (N.to_nat (w - 1 - i))) with i in H by lia.
    apply H. lia.
Qed.

Lemma pbits_eq_iff a b : plen a <= w -> plen b <= w ->
  (pbits w a = pbits w b <-> plen a = plen b /\ agree (plen a) (repr a) (repr b)).
Proof.
  intros Ha Hb. rewrite list_eq_nth, !length_pbits, agree_nat by exact Ha.
  split; intros [H1 H2]; (split; [lia|]); intros i Hi; specialize (H2 i Hi);
    rewrite !nth_pbits in *;
    replace (N.of_nat i <? plen a) with true in * by lia;
    replace (N.of_nat i <? plen b) with true in * by lia; exact H2.
Qed.

Lemma pbits_prefix_iff a b : plen a <= w -> plen b <= w ->
  (prefix_of (pbits w a) (pbits w b) <->
   plen a <= plen b /\ agree (plen a) (repr a) (repr b)).
Proof.
  intros Ha Hb. rewrite prefix_of_nth, !length_pbits, agree_nat by exact Ha.
  split; intros [H1 H2]; (split; [lia|]); intros i Hi; specialize (H2 i Hi);
    rewrite !nth_pbits in *;
    replace (N.of_nat i <? plen a) with true in * by lia;
    replace (N.of_nat i <? plen b) with true in * by lia; exact H2.
Qed.

(** ** Numeric reading of masks (for ipnet's interval inclusion) *)

Lemma land_mask_div x len : len <= w -> x < 2 ^ w ->
  N.land x (mask len) = x / 2 ^ (w - len) * 2 ^ (w - len).
Proof.
  intros Hl Hx. apply N.bits_inj; intros i. rewrite N.land_spec, mask_bits by assumption.
  destruct (N.leb_spec (w - len) i); cbn [andb].
  - rewrite N.mul_pow2_bits_high by assumption. rewrite N.div_pow2_bits.
    replace (i - (w - len) + (w - len)) with i by lia.
    destruct (N.ltb_spec i w); [apply andb_true_r|].
    rewrite (lt_high w x i) by assumption. reflexivity.
  - rewrite N.mul_pow2_bits_low by assumption. apply andb_false_r.
Qed.

Lemma ones_bits n i : N.testbit (N.ones n) i = (i <? n).
Proof.
  destruct (N.ltb_spec i n); [apply N.ones_spec_low|apply N.ones_spec_high]; assumption.
Qed.

Lemma wnot_mask len : len <= w -> wnot w (mask len) = N.ones (w - len).
Proof.
  intros Hl. apply N.bits_inj; intros i. unfold wnot, ones.
  rewrite N.lxor_spec, mask_bits, !ones_bits by assumption.
  destruct (N.leb_spec (w - len) i); destruct (N.ltb_spec i w);
    destruct (N.ltb_spec i (w - len)); try reflexivity; lia.
Qed.

Lemma bcast_eq p : plen p <= w -> repr p < 2 ^ w ->
  bcast w p = pmask w p + N.ones (w - plen p).
Proof.
  intros Hl Hr. unfold bcast. rewrite wnot_mask by assumption.
  assert (Z : N.land (pmask w p) (N.ones (w - plen p)) = 0).
  { apply N.bits_inj; intros i.
    rewrite N.land_spec, pmask_bits, ones_bits, N.bits_0 by assumption.
    destruct (N.leb_spec (w - plen p) i); destruct (N.ltb_spec i (w - plen p));
      cbn [andb]; rewrite ?andb_false_r; try reflexivity; lia. }
  rewrite (N.add_nocarry_lxor _ _ Z), (N.lxor_lor _ _ Z).
  apply N.bits_inj; intros i. rewrite !N.lor_spec, pmask_bits, ones_bits by assumption.
  destruct (N.ltb_spec i (w - plen p)).
  - rewrite !orb_true_r. reflexivity.
  - rewrite !orb_false_r. replace (w - plen p <=? i) with true by lia.
    destruct (N.ltb_spec i w); cbn [andb]; [rewrite andb_true_r; reflexivity|].
    rewrite (lt_high w _ i) by assumption. reflexivity.
Qed.

Lemma agree_div n a b : n <= w -> a < 2 ^ w -> b < 2 ^ w ->
  (agree n a b <-> a / 2 ^ (w - n) = b / 2 ^ (w - n)).
Proof.
  intros Hn Ha Hb. split.
  - intros Hg. apply N.bits_inj; intros i. rewrite !N.div_pow2_bits.
    destruct (N.ltb_spec (i + (w - n)) w).
    + apply Hg; lia.
    + rewrite (lt_high w a), (lt_high w b) by assumption. reflexivity.
  - intros E i H1 H2. apply (f_equal (fun x => N.testbit x (i - (w - n)))) in E.
    rewrite !N.div_pow2_bits in E.
    replace (i - (w - n) + (w - n)) with i in E by lia. exact E.
Qed.

End W.

(** aligned blocks: inclusion of [ [A*2^ha, A*2^ha + 2^ha - 1] ] *)
Lemma block_incl_iff ha hb ra rb :
  (ra / 2 ^ ha * 2 ^ ha <= rb / 2 ^ hb * 2 ^ hb /\
   rb / 2 ^ hb * 2 ^ hb + N.ones hb <= ra / 2 ^ ha * 2 ^ ha + N.ones ha) <->
  (hb <= ha /\ ra / 2 ^ ha = rb / 2 ^ ha).
Proof.
  rewrite !N.ones_equiv.
  pose proof (pow2_pos ha) as Pa0. pose proof (pow2_pos hb) as Pb0.
  pose proof (N.div_mod ra (2 ^ ha) ltac:(lia)) as Da.
  pose proof (N.mod_lt ra (2 ^ ha) ltac:(lia)) as Ma.
  pose proof (N.div_mod rb (2 ^ hb) ltac:(lia)) as Db.
  pose proof (N.mod_lt rb (2 ^ hb) ltac:(lia)) as Mb.
  set (Pa := 2 ^ ha) in *. set (Pb := 2 ^ hb) in *.
  set (A := ra / Pa) in *. set (B := rb / Pb) in *.
  split.
  - intros [H1 H2]. assert (Hp : Pb <= Pa) by lia. split.
    + apply (N.pow_le_mono_r_iff 2); [lia|exact Hp].
    + apply (N.div_unique rb Pa A (rb - Pa * A)); lia.
  - intros [Hh E].
    assert (HP : Pa = Pb * 2 ^ (ha - hb)).
    { unfold Pa, Pb. rewrite <- N.pow_add_r. f_equal. lia. }
    pose proof (pow2_pos (ha - hb)) as D0. set (D := 2 ^ (ha - hb)) in *.
    pose proof (N.div_mod rb Pa ltac:(lia)) as Dc.
    pose proof (N.mod_lt rb Pa ltac:(lia)) as Mc. rewrite <- E in Dc.
    assert (L1 : A * D <= B).
    { apply N.div_le_lower_bound; [lia|]. rewrite HP in Dc. lia. }
    assert (L2 : B < (A + 1) * D).
    { apply N.div_lt_upper_bound; [lia|]. rewrite HP in Dc, Mc. lia. }
    split; nia.
Qed.
