(** The concrete prefix operations of [PrefixN] satisfy the abstract laws of [Laws], at every
    width [w >= 1] and for each of the three flavours.  No axioms. *)
From Coq Require Import List NArith Bool Lia ZifyN ZifyBool ZifyNat.
From PT Require Import Bits PrefixN Laws.
Import ListNotations.
Local Open Scope N_scope.

Local Arguments N.add : simpl never.
Local Arguments N.sub : simpl never.
Local Arguments N.mul : simpl never.
Local Arguments N.shiftr : simpl never.
Local Arguments N.shiftl : simpl never.
Local Arguments N.land : simpl never.
Local Arguments N.lor : simpl never.
Local Arguments N.lxor : simpl never.
Local Arguments N.ones : simpl never.
Local Arguments N.pow : simpl never.
Local Arguments N.testbit : simpl never.
Local Arguments N.of_nat : simpl never.
Local Arguments N.to_nat : simpl never.

(** * Lists of bits *)

Lemma list_eq_nth (a b : list bool) :
  a = b <-> (length a = length b /\ forall i, (i < length a)%nat -> nth i a false = nth i b false).
Proof.
  split.
  - intros ->. split; auto.
  - intros [Hl Hn]. apply (nth_ext a b false false Hl). exact Hn.
Qed.

Lemma prefix_of_nth (a b : list bool) :
  prefix_of a b <->
  ((length a <= length b)%nat /\ forall i, (i < length a)%nat -> nth i a false = nth i b false).
Proof.
  split.
  - intros [r ->]. split.
    + rewrite app_length. lia.
    + intros i Hi. rewrite app_nth1 by exact Hi. reflexivity.
  - revert b. induction a as [|x a IH]; intros b [Hl Hn].
    + exists b. reflexivity.
    + destruct b as [|y b]; [cbn in Hl; lia|].
      assert (Hxy : x = y) by (apply (Hn 0%nat); cbn; lia).
      destruct (IH b) as [r Hr].
      * split; [cbn in Hl; lia|]. intros i Hi. apply (Hn (S i)). cbn. lia.
      * exists r. subst. reflexivity.
Qed.

(** a common prefix that is maximal is the longest common prefix *)
Lemma common_char (l a b : list bool) :
  prefix_of l a -> prefix_of l b ->
  (length l = length a \/ length l = length b \/
   nth (length l) a false <> nth (length l) b false) ->
  l = common a b.
Proof.
  revert a b. induction l as [|x l IH]; intros a b [ra ->] [rb ->] H.
  - cbn in *. destruct ra as [|u ra]; [reflexivity|].
    destruct rb as [|v rb]; [reflexivity|]. cbn.
    destruct H as [H|[H|H]]; try discriminate H.
    destruct u, v; cbn in *; try reflexivity; exfalso; apply H; reflexivity.
  - cbn. rewrite Bool.eqb_reflx. f_equal. apply IH.
    + exists ra. reflexivity.
    + exists rb. reflexivity.
    + cbn in H. destruct H as [H|[H|H]]; [left|right;left|right;right]; first [lia | exact H].
Qed.

Lemma existsb_id_false (l : list bool) :
  (forall i, nth i l false = false) -> existsb (fun x => x) l = false.
Proof.
  induction l as [|x l IH]; intros H; [reflexivity|].
  cbn. rewrite (H 0%nat : x = false). cbn. apply IH. intros i. apply (H (S i)).
Qed.

Lemma existsb_id_true (l : list bool) i :
  nth i l false = true -> existsb (fun x => x) l = true.
Proof.
  revert i. induction l as [|x l IH]; intros i H.
  - destruct i; discriminate.
  - destruct i as [|i]; cbn in *.
    + rewrite H. reflexivity.
    + rewrite (IH i H). apply orb_true_r.
Qed.

Lemma bcmp_eq (a b : list bool) :
  (forall i, nth i a false = nth i b false) -> bcmp a b = Eq.
Proof.
  revert b. induction a as [|x a IH]; intros b H.
  - cbn. rewrite existsb_id_false; [reflexivity|].
    intros i. rewrite <- H. destruct i; reflexivity.
  - destruct b as [|y b].
    + cbn [bcmp]. rewrite existsb_id_false; [reflexivity|].
      intros i. rewrite H. destruct i; reflexivity.
    + cbn [bcmp]. pose proof (H 0%nat) as H0. cbn in H0. subst y.
      assert (bcmp a b = Eq) as -> by (apply IH; intros i; apply (H (S i))).
      destruct x; reflexivity.
Qed.

Lemma bcmp_lt (a b : list bool) i :
  (forall j, (j < i)%nat -> nth j a false = nth j b false) ->
  nth i a false = false -> nth i b false = true -> bcmp a b = Lt.
Proof.
  revert b i. induction a as [|x a IH]; intros b i H Ha Hb.
  - cbn. rewrite (existsb_id_true b i Hb). reflexivity.
  - destruct b as [|y b]; [destruct i; discriminate|].
    cbn [bcmp]. destruct i as [|i]; cbn in Ha, Hb.
    + subst. reflexivity.
    + pose proof (H 0%nat ltac:(lia)) as H0. cbn in H0. subst y.
      assert (bcmp a b = Lt) as ->.
      { apply (IH b i); auto. intros j Hj. apply (H (S j)). lia. }
      destruct x; reflexivity.
Qed.

Lemma bcmp_gt (a b : list bool) i :
  (forall j, (j < i)%nat -> nth j a false = nth j b false) ->
  nth i a false = true -> nth i b false = false -> bcmp a b = Gt.
Proof.
  revert b i. induction a as [|x a IH]; intros b i H Ha Hb.
  - destruct i; discriminate.
  - destruct b as [|y b].
    + cbn [bcmp]. rewrite (existsb_id_true (x :: a) i Ha). reflexivity.
    + cbn [bcmp]. destruct i as [|i]; cbn in Ha, Hb.
      * subst. reflexivity.
      * pose proof (H 0%nat ltac:(lia)) as H0. cbn in H0. subst y.
        assert (bcmp a b = Gt) as ->.
        { apply (IH b i); auto. intros j Hj. apply (H (S j)). lia. }
        destruct x; reflexivity.
Qed.

(** * Words *)

Lemma pow2_pos n : 0 < 2 ^ n.
Proof. apply N.neq_0_lt_0. apply N.pow_nonzero. lia. Qed.

Lemma pow2_nz n : 2 ^ n <> 0.
Proof. apply N.pow_nonzero. lia. Qed.

Lemma low_lt n x : (forall i, n <= i -> N.testbit x i = false) -> x < 2 ^ n.
Proof.
  intros H. destruct (N.eq_dec x 0) as [->|Hx]; [apply pow2_pos|].
  apply N.log2_lt_pow2; [lia|].
  destruct (N.lt_ge_cases (N.log2 x) n) as [Hl|Hl]; [exact Hl|].
  pose proof (N.bit_log2 x Hx) as Hb. rewrite (H _ Hl) in Hb. discriminate.
Qed.

Lemma lt_high n x i : x < 2 ^ n -> n <= i -> N.testbit x i = false.
Proof.
  intros Hx Hi. destruct (N.eq_dec x 0) as [->|Hx0]; [apply N.bits_0|].
  apply N.bits_above_log2. apply N.log2_lt_pow2 in Hx; lia.
Qed.

(** the highest differing bit decides the comparison *)
Lemma lt_by_bit x y k :
  (forall j, k < j -> N.testbit x j = N.testbit y j) ->
  N.testbit x k = false -> N.testbit y k = true -> x < y.
Proof.
  intros H Hx Hy.
  apply N.testbit_false in Hx. apply N.testbit_true in Hy.
  assert (E : x / 2 ^ k / 2 = y / 2 ^ k / 2).
  { rewrite !N.div_div by (try apply pow2_nz; lia).
    replace (2 ^ k * 2) with (2 ^ (k + 1)) by (rewrite N.pow_add_r, N.pow_1_r; reflexivity).
    apply N.bits_inj. intros i. rewrite !N.div_pow2_bits. apply H. lia. }
  destruct (N.lt_ge_cases x y) as [|Hge]; [assumption|exfalso].
  apply (N.div_le_mono _ _ (2 ^ k)) in Hge; [|apply pow2_nz].
  pose proof (N.div_mod (x / 2 ^ k) 2 ltac:(lia)).
  pose proof (N.div_mod (y / 2 ^ k) 2 ltac:(lia)). lia.
Qed.

Section W.
Variable w : N.
Notation mask := (mask_from_len w).

Lemma mask_bits len i :
  len <= w -> N.testbit (mask len) i = ((w - len <=? i) && (i <? w))%bool.
Proof.
  intros H. unfold mask_from_len, wnot, ones.
  destruct (N.eqb_spec len w) as [->|Hne].
  - rewrite N.sub_diag. destruct (N.ltb_spec i w).
    + rewrite N.ones_spec_low by lia. destruct (N.leb_spec 0 i); [reflexivity|lia].
    + rewrite N.ones_spec_high by lia. rewrite andb_false_r. reflexivity.
  - destruct (N.eqb_spec len 0) as [->|Hz].
    + rewrite N.bits_0, N.sub_0_r.
      destruct (N.leb_spec w i); destruct (N.ltb_spec i w); try reflexivity; lia.
    + rewrite N.lxor_spec, N.shiftr_spec by lia.
      destruct (N.ltb_spec i w).
      * rewrite (N.ones_spec_low w i) by lia.
        destruct (N.leb_spec (w - len) i).
        -- rewrite N.ones_spec_high by lia. reflexivity.
        -- rewrite N.ones_spec_low by lia. reflexivity.
      * rewrite !N.ones_spec_high by lia. rewrite andb_false_r. reflexivity.
Qed.

Lemma valid_iff p : valid w p = true <-> plen p <= w /\ repr p < 2 ^ w.
Proof. unfold valid. rewrite andb_true_iff, N.leb_le, N.ltb_lt. reflexivity. Qed.

Lemma pmask_bits p i : plen p <= w ->
  N.testbit (pmask w p) i =
  (N.testbit (repr p) i && ((w - plen p <=? i) && (i <? w)))%bool.
Proof. intros H. unfold pmask. rewrite N.land_spec, mask_bits by exact H. reflexivity. Qed.

Lemma land_mask_lt x len : len <= w -> N.land x (mask len) < 2 ^ w.
Proof.
  intros H. apply low_lt. intros i Hi. rewrite N.land_spec, mask_bits by exact H.
  replace (i <? w) with false by lia. rewrite !andb_false_r. reflexivity.
Qed.

(** [a] and [b] have the same [n] leading bits *)
Definition agree (n a b : N) :=
  forall i, w - n <= i -> i < w -> N.testbit a i = N.testbit b i.

Lemma land_mask_eq n a b :
  n <= w -> (N.land a (mask n) = N.land b (mask n) <-> agree n a b).
Proof.
  intros Hn. split.
  - intros H i H1 H2. apply (f_equal (fun x => N.testbit x i)) in H.
    rewrite !N.land_spec, mask_bits in H by exact Hn.
    replace (w - n <=? i) with true in H by lia. replace (i <? w) with true in H by lia.
    rewrite !andb_true_r in H. exact H.
  - intros H. apply N.bits_inj. intros i. rewrite !N.land_spec, mask_bits by exact Hn.
    destruct (N.leb_spec (w - n) i); destruct (N.ltb_spec i w); cbn [andb];
      rewrite ?andb_false_r; try reflexivity.
    rewrite !andb_true_r. apply H; assumption.
Qed.

Lemma agree_land_mask n x : n <= w -> agree n (N.land x (mask n)) x.
Proof.
  intros Hn i H1 H2. rewrite N.land_spec, mask_bits by exact Hn.
  replace (w - n <=? i) with true by lia. replace (i <? w) with true by lia.
  apply andb_true_r.
Qed.

Lemma agree_le n m a b : n <= m -> agree m a b -> agree n a b.
Proof. intros H Ha i H1 H2. apply Ha; lia. Qed.

Lemma agree_sym n a b : agree n a b -> agree n b a.
Proof. intros H i H1 H2. symmetry. apply H; assumption. Qed.

Lemma agree_trans n a b c : agree n a b -> agree n b c -> agree n a c.
Proof. intros H1 H2 i Hi Hj. rewrite H1, H2 by assumption. reflexivity. Qed.

Lemma lz_spec a b : a < 2 ^ w -> b < 2 ^ w ->
  let k := lz w (N.lxor a b) in
  k <= w /\ agree k a b /\
  (k < w -> N.testbit a (w - 1 - k) <> N.testbit b (w - 1 - k)).
Proof.
  intros Ha Hb. cbv zeta. unfold lz.
  destruct (N.eq_dec (N.lxor a b) 0) as [E|E].
  - rewrite E. apply N.lxor_eq in E. subst b. change (N.size 0) with 0.
    split; [lia|]. split; [intros i _ _; reflexivity|lia].
  - rewrite N.size_log2 by exact E.
    set (L := N.log2 (N.lxor a b)).
    assert (HL : L < w).
    { apply N.log2_lt_pow2; [lia|]. apply low_lt. intros i Hi.
      rewrite N.lxor_spec, (lt_high w a i), (lt_high w b i) by assumption. reflexivity. }
    split; [lia|]. split.
    + intros i H1 H2. apply Bool.xorb_eq. rewrite <- N.lxor_spec.
      apply N.bits_above_log2. fold L. lia.
    + intros _. replace (w - 1 - (w - N.succ L)) with L by lia.
      pose proof (N.bit_log2 _ E) as Hb'. fold L in Hb'. rewrite N.lxor_spec in Hb'.
      intros Heq. rewrite Heq, xorb_nilpotent in Hb'. discriminate.
Qed.

(** ** The bit string of a prefix *)

Lemma length_pbits p : length (pbits w p) = N.to_nat (plen p).
Proof. unfold pbits. rewrite map_length, seq_length. reflexivity. Qed.

Lemma nth_pbits p i :
  nth i (pbits w p) false =
  ((N.of_nat i <? plen p) && N.testbit (repr p) (w - 1 - N.of_nat i))%bool.
Proof.
  unfold pbits.
  set (f := fun i0 : nat => N.testbit (repr p) (w - 1 - N.of_nat i0)).
  destruct (N.ltb_spec (N.of_nat i) (plen p)) as [Hi|Hi]; cbn [andb].
  - rewrite (nth_indep _ false (f 0%nat)) by (rewrite map_length, seq_length; lia).
    rewrite map_nth, seq_nth by lia. reflexivity.
  - apply nth_overflow. rewrite map_length, seq_length. lia.
Qed.

Lemma agree_nat n a b : n <= w ->
  (agree n a b <->
   forall i, (i < N.to_nat n)%nat ->
     N.testbit a (w - 1 - N.of_nat i) = N.testbit b (w - 1 - N.of_nat i)).
Proof.
  intros Hn. split.
  - intros H i Hi. apply H; lia.
  - intros H i H1 H2. specialize (H (N.to_nat (w - 1 - i))).
    replace (w - 1 - N.of_nat (N.to_nat (w - 1 - i))) with i in H by lia.
    apply H. lia.
Qed.

Lemma pbits_eq_iff a b : plen a <= w -> plen b <= w ->
  (pbits w a = pbits w b <-> plen a = plen b /\ agree (plen a) (repr a) (repr b)).
Proof.
  intros Ha Hb. rewrite list_eq_nth, !length_pbits, agree_nat by exact Ha.
  split; intros [H1 H2]; (split; [lia|]); intros i Hi; specialize (H2 i Hi);
    rewrite !nth_pbits in *;
    replace (N.of_nat i <? plen a) with true in * by lia;
    replace (N.of_nat i <? plen b) with true in * by lia; exact H2.
Qed.

Lemma pbits_prefix_iff a b : plen a <= w -> plen b <= w ->
  (prefix_of (pbits w a) (pbits w b) <->
   plen a <= plen b /\ agree (plen a) (repr a) (repr b)).
Proof.
  intros Ha Hb. rewrite prefix_of_nth, !length_pbits, agree_nat by exact Ha.
  split; intros [H1 H2]; (split; [lia|]); intros i Hi; specialize (H2 i Hi);
    rewrite !nth_pbits in *;
    replace (N.of_nat i <? plen a) with true in * by lia;
    replace (N.of_nat i <? plen b) with true in * by lia; exact H2.
Qed.

(** ** Numeric reading of masks (for ipnet's interval inclusion) *)

Lemma land_mask_div x len : len <= w -> x < 2 ^ w ->
  N.land x (mask len) = x / 2 ^ (w - len) * 2 ^ (w - len).
Proof.
  intros Hl Hx. apply N.bits_inj; intros i. rewrite N.land_spec, mask_bits by assumption.
  destruct (N.leb_spec (w - len) i); cbn [andb].
  - rewrite N.mul_pow2_bits_high by assumption. rewrite N.div_pow2_bits.
    replace (i - (w - len) + (w - len)) with i by lia.
    destruct (N.ltb_spec i w); [apply andb_true_r|].
    rewrite (lt_high w x i) by assumption. reflexivity.
  - rewrite N.mul_pow2_bits_low by assumption. apply andb_false_r.
Qed.

Lemma ones_bits n i : N.testbit (N.ones n) i = (i <? n).
Proof.
  destruct (N.ltb_spec i n); [apply N.ones_spec_low|apply N.ones_spec_high]; assumption.
Qed.

Lemma wnot_mask len : len <= w -> wnot w (mask len) = N.ones (w - len).
Proof.
  intros Hl. apply N.bits_inj; intros i. unfold wnot, ones.
  rewrite N.lxor_spec, mask_bits, !ones_bits by assumption.
  destruct (N.leb_spec (w - len) i); destruct (N.ltb_spec i w);
    destruct (N.ltb_spec i (w - len)); try reflexivity; lia.
Qed.

Lemma bcast_eq p : plen p <= w -> repr p < 2 ^ w ->
  bcast w p = pmask w p + N.ones (w - plen p).
Proof.
  intros Hl Hr. unfold bcast. rewrite wnot_mask by assumption.
  assert (Z : N.land (pmask w p) (N.ones (w - plen p)) = 0).
  { apply N.bits_inj; intros i.
    rewrite N.land_spec, pmask_bits, ones_bits, N.bits_0 by assumption.
    destruct (N.leb_spec (w - plen p) i); destruct (N.ltb_spec i (w - plen p));
      cbn [andb]; rewrite ?andb_false_r; try reflexivity; lia. }
  rewrite (N.add_nocarry_lxor _ _ Z), (N.lxor_lor _ _ Z).
  apply N.bits_inj; intros i. rewrite !N.lor_spec, pmask_bits, ones_bits by assumption.
  destruct (N.ltb_spec i (w - plen p)).
  - rewrite !orb_true_r. reflexivity.
  - rewrite !orb_false_r. replace (w - plen p <=? i) with true by lia.
    destruct (N.ltb_spec i w); cbn [andb]; [rewrite andb_true_r; reflexivity|].
    rewrite (lt_high w _ i) by assumption. reflexivity.
Qed.

Lemma agree_div n a b : n <= w -> a < 2 ^ w -> b < 2 ^ w ->
  (agree n a b <-> a / 2 ^ (w - n) = b / 2 ^ (w - n)).
Proof.
  intros Hn Ha Hb. split.
  - intros Hg. apply N.bits_inj; intros i. rewrite !N.div_pow2_bits.
    destruct (N.ltb_spec (i + (w - n)) w).
    + apply Hg; lia.
    + rewrite (lt_high w a), (lt_high w b) by assumption. reflexivity.
  - intros E i H1 H2. apply (f_equal (fun x => N.testbit x (i - (w - n)))) in E.
    rewrite !N.div_pow2_bits in E.
    replace (i - (w - n) + (w - n)) with i in E by lia. exact E.
Qed.

End W.

(** aligned blocks: inclusion of [ [A*2^ha, A*2^ha + 2^ha - 1] ] *)
Lemma block_incl_iff ha hb ra rb :
  (ra / 2 ^ ha * 2 ^ ha <= rb / 2 ^ hb * 2 ^ hb /\
   rb / 2 ^ hb * 2 ^ hb + N.ones hb <= ra / 2 ^ ha * 2 ^ ha + N.ones ha) <->
  (hb <= ha /\ ra / 2 ^ ha = rb / 2 ^ ha).
Proof.
  rewrite !N.ones_equiv.
  pose proof (pow2_pos ha) as Pa0. pose proof (pow2_pos hb) as Pb0.
  pose proof (N.div_mod ra (2 ^ ha) ltac:(lia)) as Da.
  pose proof (N.mod_lt ra (2 ^ ha) ltac:(lia)) as Ma.
  pose proof (N.div_mod rb (2 ^ hb) ltac:(lia)) as Db.
  pose proof (N.mod_lt rb (2 ^ hb) ltac:(lia)) as Mb.
  set (Pa := 2 ^ ha) in *. set (Pb := 2 ^ hb) in *.
  set (A := ra / Pa) in *. set (B := rb / Pb) in *.
  split.
  - intros [H1 H2]. assert (Hp : Pb <= Pa) by lia. split.
    + apply (N.pow_le_mono_r_iff 2); [lia|exact Hp].
    + apply (N.div_unique rb Pa A (rb - Pa * A)); lia.
  - intros [Hh E].
    assert (HP : Pa = Pb * 2 ^ (ha - hb)).
    { unfold Pa, Pb. rewrite <- N.pow_add_r. f_equal. lia. }
    pose proof (pow2_pos (ha - hb)) as D0. set (D := 2 ^ (ha - hb)) in *.
    pose proof (N.div_mod rb Pa ltac:(lia)) as Dc.
    pose proof (N.mod_lt rb Pa ltac:(lia)) as Mc. rewrite <- E in Dc.
    assert (L1 : A * D <= B).
    { apply N.div_le_lower_bound; [lia|]. rewrite HP in Dc. lia. }
    assert (L2 : B < (A + 1) * D).
    { apply N.div_lt_upper_bound; [lia|]. rewrite HP in Dc, Mc. lia. }
    assert (M1 : A * D * Pb <= B * Pb) by (apply N.mul_le_mono_r; exact L1).
    assert (M2 : (B + 1) * Pb <= (A + 1) * D * Pb) by (apply N.mul_le_mono_r; lia).
    rewrite HP. split; lia.
Qed.

Lemma diff_bit x y : x <> y ->
  exists L, (forall j, L < j -> N.testbit x j = N.testbit y j) /\
            N.testbit x L <> N.testbit y L.
Proof.
  intros Hne. assert (E : N.lxor x y <> 0) by (intros E; apply N.lxor_eq in E; auto).
  exists (N.log2 (N.lxor x y)). split.
  - intros j Hj. apply Bool.xorb_eq. rewrite <- N.lxor_spec.
    apply N.bits_above_log2. exact Hj.
  - pose proof (N.bit_log2 _ E) as Hb. rewrite N.lxor_spec in Hb.
    intros Heq. rewrite Heq, xorb_nilpotent in Hb. discriminate.
Qed.

(** * The laws *)
Section Laws.
Variable w : N.
Notation mask := (mask_from_len w).

Ltac inv_valid :=
  repeat match goal with
         | H : valid w _ = true |- _ => apply valid_iff in H; destruct H as [? ?]
         end.

Lemma plen_bits_w p : plen p = N.of_nat (length (pbits w p)).
Proof. rewrite length_pbits, N2Nat.id. reflexivity. Qed.

Lemma peq_spec_w a b : valid w a = true -> valid w b = true ->
  (peq w a b = true <-> pbits w a = pbits w b).
Proof.
  intros Va Vb. inv_valid.
  rewrite pbits_eq_iff by assumption. unfold peq, pmask.
  rewrite andb_true_iff, !N.eqb_eq. split.
  - intros [K1 K2]. split; [exact K2|]. rewrite <- K2 in K1.
    apply land_mask_eq in K1; assumption.
  - intros [K1 K2]. split; [|exact K1]. rewrite <- K1. apply land_mask_eq; assumption.
Qed.

Lemma contains_generic_spec a b : valid w a = true -> valid w b = true ->
  (contains_generic w a b = true <-> prefix_of (pbits w a) (pbits w b)).
Proof.
  intros Va Vb. inv_valid.
  rewrite pbits_prefix_iff by assumption. unfold contains_generic, pmask.
  destruct (N.ltb_spec (plen b) (plen a)).
  - split; [discriminate|intros [? _]; lia].
  - rewrite N.eqb_eq, land_mask_eq by assumption. split.
    + intros K1. split; [lia|apply agree_sym; exact K1].
    + intros [_ K1]. apply agree_sym; exact K1.
Qed.

Lemma contains_ipnet_spec a b : valid w a = true -> valid w b = true ->
  (contains_ipnet w a b = true <-> prefix_of (pbits w a) (pbits w b)).
Proof.
  intros Va Vb. inv_valid.
  rewrite pbits_prefix_iff by assumption. unfold contains_ipnet.
  rewrite !bcast_eq by assumption. unfold pmask. rewrite !land_mask_div by assumption.
  rewrite andb_true_iff, !N.leb_le, block_incl_iff, agree_div by assumption.
  split; intros [K1 K2]; (split; [lia|exact K2]).
Qed.

Lemma contains_spec_w fl a b : valid w a = true -> valid w b = true ->
  (contains w fl a b = true <-> prefix_of (pbits w a) (pbits w b)).
Proof.
  destruct fl; cbn [contains];
    [apply contains_generic_spec|apply contains_ipnet_spec|apply contains_generic_spec].
Qed.

Lemma contains_ipnet_generic a b : 1 <= w -> valid w a = true -> valid w b = true ->
  contains_ipnet w a b = contains_generic w a b.
Proof.
  intros _ Va Vb.
  pose proof (contains_ipnet_spec a b Va Vb) as H1.
  pose proof (contains_generic_spec a b Va Vb) as H2.
  destruct (contains_ipnet w a b), (contains_generic w a b); try reflexivity.
  - symmetry. apply H2, H1. reflexivity.
  - apply H1, H2. reflexivity.
Qed.

(** ** is_bit_set *)

Lemma bitmask_bits i j : i < w ->
  N.testbit (N.lxor (cshr w (ones w) i) (cshr w (ones w) (i + 1))) j = (j =? w - 1 - i).
Proof.
  intros Hi. unfold cshr, ones. replace (i <? w) with true by lia.
  rewrite N.lxor_spec, N.shiftr_spec', ones_bits.
  destruct (N.ltb_spec (i + 1) w).
  - rewrite N.shiftr_spec', ones_bits.
    destruct (N.ltb_spec (j + i) w); destruct (N.ltb_spec (j + (i + 1)) w);
      destruct (N.eqb_spec j (w - 1 - i)); try reflexivity; lia.
  - rewrite N.bits_0.
    destruct (N.ltb_spec (j + i) w); destruct (N.eqb_spec j (w - 1 - i)); try reflexivity; lia.
Qed.

Lemma is_bit_set_pmask p i :
  is_bit_set w p i = ((i <? w) && N.testbit (pmask w p) (w - 1 - i))%bool.
Proof.
  unfold is_bit_set. cbv zeta.
  destruct (N.ltb_spec i w) as [Hi|Hi]; cbn [andb].
  - set (m := N.lxor _ _).
    assert (Hm : forall j, N.testbit m j = (j =? w - 1 - i))
      by (intros j; apply bitmask_bits; assumption).
    destruct (N.eqb_spec (N.land m (pmask w p)) 0) as [Z|Z]; cbn [negb].
    + apply (f_equal (fun x => N.testbit x (w - 1 - i))) in Z.
      rewrite N.land_spec, Hm, N.eqb_refl, N.bits_0 in Z. symmetry. exact Z.
    + destruct (N.testbit (pmask w p) (w - 1 - i)) eqn:E; [reflexivity|].
      exfalso. apply Z. apply N.bits_inj; intros j. rewrite N.land_spec, Hm, N.bits_0.
      destruct (N.eqb_spec j (w - 1 - i)); [subst j; rewrite E|]; reflexivity.
  - unfold cshr. replace (i <? w) with false by lia. replace (i + 1 <? w) with false by lia.
    reflexivity.
Qed.

Lemma bit_spec_w p i : valid w p = true ->
  is_bit_set w p i = nth (N.to_nat i) (pbits w p) false.
Proof.
  intros V. inv_valid.
  rewrite is_bit_set_pmask, nth_pbits, N2Nat.id, pmask_bits by assumption.
  destruct (N.ltb_spec i w); destruct (N.ltb_spec i (plen p));
    destruct (N.leb_spec (w - plen p) (w - 1 - i)); destruct (N.ltb_spec (w - 1 - i) w);
    cbn [andb]; rewrite ?andb_true_r, ?andb_false_r; try reflexivity; lia.
Qed.

Lemma is_bit_set_high p i : 1 <= w -> valid w p = true -> plen p <= i ->
  is_bit_set w p i = false.
Proof.
  intros _ V Hi. rewrite bit_spec_w by exact V. apply nth_overflow.
  rewrite length_pbits. lia.
Qed.

(** ** longest common prefix *)

Lemma lcp_common_gen a b x y p :
  plen a <= w -> plen b <= w -> x < 2 ^ w -> y < 2 ^ w ->
  agree w (plen a) x (repr a) -> agree w (plen b) y (repr b) ->
  plen p = N.min (N.min (lz w (N.lxor x y)) (plen a)) (plen b) ->
  agree w (plen p) (repr p) x ->
  pbits w p = common (pbits w a) (pbits w b).
Proof.
  intros La Lb Hx Hy Ax Ay Hp Ap.
  destruct (lz_spec w x y Hx Hy) as (Hk & Hag & Hdiff).
  set (k := lz w (N.lxor x y)) in *.
  assert (Apa : agree w (plen p) (repr p) (repr a)).
  { eapply agree_trans; [exact Ap|]. eapply agree_le; [|exact Ax]. lia. }
  assert (Apb : agree w (plen p) (repr p) (repr b)).
  { eapply agree_trans; [exact Ap|]. eapply agree_trans.
    - eapply agree_le; [|exact Hag]. lia.
    - eapply agree_le; [|exact Ay]. lia. }
  apply common_char.
  - apply pbits_prefix_iff; try lia. split; [lia|exact Apa].
  - apply pbits_prefix_iff; try lia. split; [lia|exact Apb].
  - rewrite !length_pbits.
    destruct (N.eq_dec (plen p) (plen a)) as [E1|E1]; [left; lia|].
    destruct (N.eq_dec (plen p) (plen b)) as [E2|E2]; [right; left; lia|].
    right; right. assert (Ek : plen p = k) by lia.
    rewrite !nth_pbits, N2Nat.id.
    replace (plen p <? plen a) with true by lia. replace (plen p <? plen b) with true by lia.
    cbn [andb]. rewrite Ek. rewrite <- Ax, <- Ay by lia. apply Hdiff. lia.
Qed.

Lemma lcp_len_le fl a b : plen (lcp w fl a b) <= plen a.
Proof. destruct fl; cbn; lia. Qed.

Lemma lcp_ok_w fl a b : valid w a = true -> valid w b = true -> valid w (lcp w fl a b) = true.
Proof.
  intros Va Vb. inv_valid. apply valid_iff. split.
  - pose proof (lcp_len_le fl a b). lia.
  - destruct fl; cbn [lcp lcp_generic lcp_ipnet from_repr_len repr]; apply land_mask_lt; lia.
Qed.

Lemma lcp_spec_w fl a b : valid w a = true -> valid w b = true ->
  pbits w (lcp w fl a b) = common (pbits w a) (pbits w b).
Proof.
  intros Va Vb. inv_valid.
  assert (Hma : pmask w a < 2 ^ w) by (apply land_mask_lt; assumption).
  assert (Hmb : pmask w b < 2 ^ w) by (apply land_mask_lt; assumption).
  assert (Aa : agree w (plen a) (pmask w a) (repr a)) by (apply agree_land_mask; assumption).
  assert (Ab : agree w (plen b) (pmask w b) (repr b)) by (apply agree_land_mask; assumption).
  destruct fl; cbn [lcp lcp_generic lcp_ipnet from_repr_len].
  - apply (lcp_common_gen a b (pmask w a) (pmask w b)); try assumption; cbn [plen repr].
    + reflexivity.
    + apply agree_land_mask. lia.
  - apply (lcp_common_gen a b (repr a) (repr b)); try assumption; cbn [plen repr].
    + intros i _ _; reflexivity.
    + intros i _ _; reflexivity.
    + reflexivity.
    + apply agree_land_mask. lia.
  - apply (lcp_common_gen a b (pmask w a) (pmask w b)); try assumption; cbn [plen repr].
    + reflexivity.
    + eapply agree_trans; apply agree_land_mask; lia.
Qed.

Lemma lcp_ipnet_generic_bits a b : 1 <= w -> valid w a = true -> valid w b = true ->
  pbits w (lcp_ipnet w a b) = pbits w (lcp_generic w Generic a b).
Proof.
  intros _ Va Vb.
  rewrite (lcp_spec_w Ipnet a b Va Vb : pbits w (lcp_ipnet w a b) = _).
  rewrite (lcp_spec_w Generic a b Va Vb : pbits w (lcp_generic w Generic a b) = _).
  reflexivity.
Qed.

Lemma pmask_host_zero p : valid w p = true ->
  forall i, i < w - plen p -> N.testbit (pmask w p) i = false.
Proof.
  intros V i Hi. inv_valid. rewrite pmask_bits by assumption.
  replace (w - plen p <=? i) with false by lia. cbn [andb]. apply andb_false_r.
Qed.

Lemma land_mask_idem x len : N.land (N.land x (mask len)) (mask len) = N.land x (mask len).
Proof. rewrite <- N.land_assoc, N.land_diag. reflexivity. Qed.

Lemma lcp_repr_masked fl a b : 1 <= w -> valid w a = true -> valid w b = true ->
  repr (lcp w fl a b) = pmask w (lcp w fl a b).
Proof.
  intros _ _ _. unfold pmask.
  destruct fl; cbn [lcp lcp_generic lcp_ipnet from_repr_len plen repr];
    rewrite ?land_mask_idem; reflexivity.
Qed.

(** ** the comparison used by the iteration order *)

Lemma nth_pbits_pmask p i : plen p <= w ->
  nth i (pbits w p) false =
  ((N.of_nat i <? w) && N.testbit (pmask w p) (w - 1 - N.of_nat i))%bool.
Proof.
  intros Hl. rewrite nth_pbits, pmask_bits by assumption.
  destruct (N.ltb_spec (N.of_nat i) w); destruct (N.ltb_spec (N.of_nat i) (plen p));
    destruct (N.leb_spec (w - plen p) (w - 1 - N.of_nat i));
    destruct (N.ltb_spec (w - 1 - N.of_nat i) w);
    cbn [andb]; rewrite ?andb_true_r, ?andb_false_r; try reflexivity; lia.
Qed.

Lemma mcmp_spec_w a b : valid w a = true -> valid w b = true ->
  mcmp w a b = bcmp (pbits w a) (pbits w b).
Proof.
  intros Va Vb. inv_valid. unfold mcmp.
  assert (Hx : pmask w a < 2 ^ w) by (apply land_mask_lt; assumption).
  assert (Hy : pmask w b < 2 ^ w) by (apply land_mask_lt; assumption).
  destruct (N.eq_dec (pmask w a) (pmask w b)) as [E|E].
  - rewrite E, N.compare_refl. symmetry. apply bcmp_eq. intros i.
    rewrite !nth_pbits_pmask, E by assumption. reflexivity.
  - destruct (diff_bit _ _ E) as (L & Habove & HL).
    assert (HLw : L < w).
    { destruct (N.lt_ge_cases L w) as [|Hge]; [assumption|]. exfalso. apply HL.
      rewrite (lt_high w _ L Hx Hge), (lt_high w _ L Hy Hge). reflexivity. }
    assert (Hpre : forall j, (j < N.to_nat (w - 1 - L))%nat ->
                     nth j (pbits w a) false = nth j (pbits w b) false).
    { intros j Hj. rewrite !nth_pbits_pmask by assumption. rewrite Habove by lia. reflexivity. }
    assert (Hia : nth (N.to_nat (w - 1 - L)) (pbits w a) false = N.testbit (pmask w a) L).
    { rewrite nth_pbits_pmask, N2Nat.id by assumption.
      replace (w - 1 - (w - 1 - L)) with L by lia. replace (w - 1 - L <? w) with true by lia.
      reflexivity. }
    assert (Hib : nth (N.to_nat (w - 1 - L)) (pbits w b) false = N.testbit (pmask w b) L).
    { rewrite nth_pbits_pmask, N2Nat.id by assumption.
      replace (w - 1 - (w - 1 - L)) with L by lia. replace (w - 1 - L <? w) with true by lia.
      reflexivity. }
    destruct (N.testbit (pmask w a) L) eqn:Ba; destruct (N.testbit (pmask w b) L) eqn:Bb;
      try (exfalso; apply HL; reflexivity).
    + rewrite (bcmp_gt _ _ _ Hpre Hia Hib). apply N.compare_gt_iff.
      apply (lt_by_bit _ _ L); auto. intros j Hj. symmetry. apply Habove. exact Hj.
    + rewrite (bcmp_lt _ _ _ Hpre Hia Hib). apply N.compare_lt_iff.
      apply (lt_by_bit _ _ L); auto.
Qed.

(** ** construction *)

Lemma mask_chk_total len : len <= w -> mask_from_len_chk w len = Some (mask len).
Proof.
  intros H. unfold mask_from_len_chk, mask_from_len.
  destruct (N.eqb_spec len w); [reflexivity|].
  destruct (N.eqb_spec len 0); [reflexivity|].
  replace (len <? w) with true by lia. reflexivity.
Qed.

Lemma from_repr_len_spec fl r l : 1 <= w -> l <= w -> r < 2 ^ w ->
  let p := from_repr_len w fl r l in
  valid w p = true /\ plen p = l /\ pbits w p = pbits w (mkpfx r l).
Proof.
  intros _ Hl Hr. cbv zeta.
  destruct fl; cbn [from_repr_len].
  - split; [apply valid_iff; cbn; auto|]. split; reflexivity.
  - split; [apply valid_iff; cbn; auto|]. split; reflexivity.
  - split; [apply valid_iff; cbn [plen repr]; split; [exact Hl|apply land_mask_lt; exact Hl]|].
    split; [reflexivity|].
    apply pbits_eq_iff; cbn [plen repr]; try assumption.
    split; [reflexivity|]. apply agree_land_mask. exact Hl.
Qed.

Lemma from_repr_len_masking_repr r l :
  repr (from_repr_len w Masking r l) = N.land r (mask l).
Proof. reflexivity. Qed.

Theorem pn_laws_w (fl : flavour) : 1 <= w ->
  prefix_laws pfx (peq w) (contains w fl) (is_bit_set w) plen (lcp w fl) pzero (mcmp w)
              (pbits w) (fun p => valid w p = true).
Proof.
  intros Hw. constructor.
  - intros p _. apply plen_bits_w.
  - apply peq_spec_w.
  - apply contains_spec_w.
  - intros p i V. apply bit_spec_w. exact V.
  - apply lcp_ok_w.
  - apply lcp_spec_w.
  - apply valid_iff. cbn [pzero plen repr]. split; [lia|apply pow2_pos].
  - reflexivity.
  - apply mcmp_spec_w.
Qed.

End Laws.

Theorem pn_laws (w : N) (fl : flavour) : (1 <= w)%N ->
  prefix_laws pfx (peq w) (contains w fl) (is_bit_set w) plen (lcp w fl) pzero (mcmp w)
              (pbits w) (fun p => valid w p = true).
Proof. apply pn_laws_w. Qed.

Print Assumptions pn_laws.
