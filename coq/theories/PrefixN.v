(** Model of [src/prefix.rs]: the [Prefix] trait over an unsigned integer of width [w],
    for the three flavours of shipped implementations.

    - [Generic]  : the trait's default methods ((R,u8) tuples; ipnetwork::*; cidr::*Inet, whose
                   [mask()] overrides compute the same masked address by other means)
    - [Ipnet]    : ipnet::{Ipv4Net,Ipv6Net}: [contains] is ipnet's own
                   [network() <= other.network() && other.broadcast() <= broadcast()],
                   [longest_common_prefix] works on the *unmasked* addresses
    - [Masking]  : cidr::{Ipv4Cidr,Ipv6Cidr}: [from_repr_len] masks the host bits away

    All values are unbounded [N]; a [w]-bit machine word is an [N] below [2^w].  Shifts that
    would overflow in Rust are made explicit by the [_chk] variants (None = panic). *)
From Coq Require Import NArith Bool List.
Import ListNotations.
Open Scope N_scope.

Record pfx := mkpfx { repr : N; plen : N }.

Inductive flavour := Generic | Ipnet | Masking.

Section W.
Variable w : N.

Definition ones : N := N.ones w.
(** bitwise not on a [w]-bit word *)
Definition wnot (x : N) : N := N.lxor x ones.

(** [mask_from_prefix_len]; [!((!0) >> len)] panics for [len >= w] in debug builds, hence the
    checked variant. *)
Definition mask_from_len (len : N) : N :=
  if len =? w then ones
  else if len =? 0 then 0
  else wnot (N.shiftr ones len).

Definition mask_from_len_chk (len : N) : option N :=
  if len =? w then Some ones
  else if len =? 0 then Some 0
  else if len <? w then Some (wnot (N.shiftr ones len)) else None.

Definition pmask (p : pfx) : N := N.land (repr p) (mask_from_len (plen p)).

Definition peq (a b : pfx) : bool := (pmask a =? pmask b) && (plen a =? plen b).

Definition contains_generic (a b : pfx) : bool :=
  if plen b <? plen a then false
  else N.land (repr b) (mask_from_len (plen a)) =? pmask a.

(** ipnet: broadcast = addr | hostmask *)
Definition bcast (p : pfx) : N := N.lor (repr p) (wnot (mask_from_len (plen p))).
Definition contains_ipnet (a b : pfx) : bool :=
  (pmask a <=? pmask b) && (bcast b <=? bcast a).

(** [checked_shr]: None when the shift amount is >= the width *)
Definition cshr (x n : N) : N := if n <? w then N.shiftr x n else 0.

Definition is_bit_set (p : pfx) (bit : N) : bool :=
  let m := N.lxor (cshr ones bit) (cshr ones (bit + 1)) in
  negb (N.land m (pmask p) =? 0).

(** [leading_zeros] of a [w]-bit word *)
Definition lz (x : N) : N := w - N.size x.

Definition from_repr_len (fl : flavour) (r len : N) : pfx :=
  match fl with
  | Masking => mkpfx (N.land r (mask_from_len len)) len
  | _ => mkpfx r len
  end.

Definition lcp_generic (fl : flavour) (a b : pfx) : pfx :=
  let ma := pmask a in let mb := pmask b in
  let len := N.min (N.min (lz (N.lxor ma mb)) (plen a)) (plen b) in
  from_repr_len fl (N.land ma (mask_from_len len)) len.

Definition lcp_ipnet (a b : pfx) : pfx :=
  let ra := repr a in let rb := repr b in
  let len := N.min (N.min (lz (N.lxor ra rb)) (plen a)) (plen b) in
  mkpfx (N.land ra (mask_from_len len)) len.

Definition contains (fl : flavour) (a b : pfx) : bool :=
  match fl with Ipnet => contains_ipnet a b | _ => contains_generic a b end.

Definition lcp (fl : flavour) (a b : pfx) : pfx :=
  match fl with Ipnet => lcp_ipnet a b | _ => lcp_generic fl a b end.

Definition pzero : pfx := mkpfx 0 0.

Definition mcmp (a b : pfx) : comparison := N.compare (pmask a) (pmask b).

(** valid values of the type *)
Definition valid (p : pfx) : bool := (plen p <=? w) && (repr p <? 2 ^ w).

(** the leading [plen p] bits of the address, most significant first *)
Definition pbits (p : pfx) : list bool :=
  map (fun i => N.testbit (repr p) (w - 1 - N.of_nat i)) (seq 0 (N.to_nat (plen p))).

End W.
