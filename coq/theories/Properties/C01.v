(** C01 — Map/set contents match an abstract map after any operation history.

    The abstract ordered map is an association list [amap = list (pfx * V)], strictly sorted by the
    key [kbits w p] (the [len] leading bits = (network address, prefix length)), with the operations
    of [Refine.v]: [a_get], [a_insert], [a_without], [a_update], [a_remove_children], [a_retain],
    and the key-addressed write [a_write] of [Refine2.v].  One call of the mutator alphabet
    [History.op] (insert; Entry::insert; or_insert*/VacantEntry::insert*; OccupiedEntry::remove;
    get_mut/and_modify; remove; remove_keep_tree; remove_children; retain; clear; collect;
    writes through the references of any mutable traversal; TrieViewMut::set / ::remove) acts on the
    abstract map by [x_step A (resolve m o)], where [resolve] replaces the slot numbers / the node
    path by which the last three calls designate their target by the KEY of the designated entry /
    node in the state [m] in which the call is made (a reference or a view has no other meaning in
    an abstract map).  The theorems say, for every width [w >= 1], flavour and value type:

      - after ANY finite history the entry list of the map IS the abstract map to which the same
        calls were applied ([C01_contents]), after every step ([C01_every_step]);
      - every mutating call returns what the abstract map returns ([C01_returns]);
      - every exact-match observer returns the abstract map's answer for every valid query prefix,
        stored or not, whatever its host bits ([C01_observers], [C01_observers_wf]);
      - the abstract map is a map: strictly sorted, one entry per key ([C01_abstract_is_map]).
    The set is the instance [V = unit] (its twins are stated at the end). *)
From Coq Require Import List NArith Bool Sorted.
From PT Require Import Refine Refine2 EntryApi InstEntry Arena ArenaProps Arena2 ArenaRefine ArenaOuts.
From PT.Properties Require Import Common.
Import ListNotations.

Section C01.
Variables (w : N) (fl : flavour) (V : Type).
Hypothesis Hw : (1 <= w)%N.

Notation amap := (list (pfx * V)).
Notation a_get := (Refine.a_get pfx V (kbits w)).
Notation a_insert := (Refine.a_insert pfx V (kbits w)).
Notation a_without := (Refine.a_without pfx V (kbits w)).
Notation a_write := (Refine2.a_write pfx V (kbits w)).
Notation a_step := (Refine.a_step pfx V (kbits w)).
Notation a_run := (Refine.a_run pfx V (kbits w)).
Notation hit A q := (find (fun e : pfx * V => beq (ekey w V e) (kbits w q)) A).
Notation key_lt := (TrieWf.key_lt pfx V (kbits w)).
Notation step := (History.step pfx V (peq w) (contains w fl) (is_bit_set w) plen (lcp w fl) pzero).
Notation xop := (Refine2.xop pfx V).
Notation resolve := (Refine2.resolve pfx V).
Notation elab := (Refine2.elab pfx V (peq w) (contains w fl) (is_bit_set w) plen (lcp w fl) pzero).
Notation x_step := (Refine2.x_step pfx V (kbits w)).
Notation x_run := (Refine2.x_run pfx V (kbits w)).
Notation x_outs := (Refine2.x_outs pfx V (kbits w)).
Notation c_out := (Refine2.c_out_full pfx V (peq w) (contains w fl) (is_bit_set w) plen (lcp w fl)).
Notation c_outs := (Refine2.c_outs_full pfx V (peq w) (contains w fl) (is_bit_set w) plen (lcp w fl) pzero).
Notation key_writes := (Refine2.key_writes pfx V).
Notation own := (Refine2.own pfx V).
Notation L := (laws w fl Hw).

(** the complete alphabet: the arguments are valid prefixes, [collect] really permutes
    ([hop_ok]), and the closure passed to [retain] is pure and total (its verdict does not depend on
    the number of earlier invocations and it does not panic).  No other restriction: histories of
    any length, keys with arbitrary host bits, the zero-length and the full-length prefixes. *)
Definition adm (o : hop V) : Prop := Refine2.admissible pfx V (okp w) o.

Lemma adm_hop_ok ops : Forall adm ops -> Forall (hop_ok w V) ops.
Proof. apply Forall_impl. intros o [H _]. exact H. Qed.

(** the abstract history of [ops]: the same calls, designators resolved *)
Definition abstract_history (ops : list (hop V)) : list xop := elab (t_empty V) ops.

(** CONTENTS.  After any finite sequence of public mutating calls the map holds exactly the
    entries of the abstract ordered map to which the same calls were applied (same entries, same
    stored prefixes, same values, same order). *)
Theorem C01_contents (ops : list (hop V)) :
  Forall adm ops -> entries (root (hrun w fl V ops)) = x_run (abstract_history ops).
Proof. exact (Refine2.run_refines_full pfx V _ _ _ _ _ _ _ _ _ L ops). Qed.

(** RETURN VALUES.  Every call of the history returned what the abstract map returns: the previous
    value (insert, Entry::insert / OccupiedEntry::insert, get_mut's target, TrieViewMut::set), the
    removed value (remove, remove_keep_tree, OccupiedEntry::remove, TrieViewMut::remove), the
    resident value ([or_insert*]: the value the returned reference points to). *)
Theorem C01_returns (ops : list (hop V)) :
  Forall adm ops -> c_outs (t_empty V) ops = x_outs [] (abstract_history ops).
Proof. exact (Refine2.outs_refine_full pfx V _ _ _ _ _ _ _ _ _ L ops). Qed.

(** AFTER EVERY STEP.  The state after any prefix [ops] of a history is well-formed, its contents
    are the abstract map's, and the next call [o] transforms the contents as the abstract call
    transforms the abstract map and returns the abstract answer. *)
Theorem C01_every_step (ops : list (hop V)) (o : hop V) :
  Forall adm ops -> adm o ->
  wfm w V (root (hrun w fl V ops)) /\
  entries (root (hrun w fl V ops)) = x_run (abstract_history ops) /\
  entries (root (hrun w fl V (ops ++ [o])))
  = fst (x_step (x_run (abstract_history ops)) (resolve (hrun w fl V ops) o)) /\
  c_out (hrun w fl V ops) o = snd (x_step (x_run (abstract_history ops)) (resolve (hrun w fl V ops) o)).
Proof. exact (Refine2.reachable_step_refines_full pfx V _ _ _ _ _ _ _ _ _ L ops o). Qed.

(** the same for one call on ANY well-formed state (every reachable state is one) *)
Theorem C01_step (m : pmap pfx V) (o : hop V) :
  wfm w V (root m) -> adm o ->
  entries (root (step m o)) = fst (x_step (entries (root m)) (resolve m o)) /\
  c_out m o = snd (x_step (entries (root m)) (resolve m o)).
Proof. exact (Refine2.step_refines_full pfx V _ _ _ _ _ _ _ _ _ L m o). Qed.

(** OBSERVERS.  After any history, for EVERY valid query prefix [q] (stored or not, any host bits):
    [get] (and [get_mut]'s target) is the abstract map's value at the key of [q]; [get_key_value]
    is the abstract map's entry at that key (the STORED prefix with its value); [contains_key]
    says whether the abstract map has the key; [Entry::get] and [Entry::key] of [entry(q)] are the
    abstract value and the stored prefix (the query's own prefix for a vacant entry). *)
Theorem C01_observers (ops : list (hop V)) (q : pfx) :
  Forall adm ops -> okp w q ->
  let m := hrun w fl V ops in
  let A := x_run (abstract_history ops) in
  t_get w fl V (root m) q = a_get A q /\
  t_get_key_value w fl V (root m) q = hit A q /\
  t_contains_key w fl V (root m) q = is_some (a_get A q) /\
  t_h_get w fl V m (t_entry w fl V m q) = a_get A q /\
  t_h_key w fl V m (t_entry w fl V m q) = match hit A q with Some e => fst e | None => q end.
Proof. exact (Refine2.observers_run_full pfx V _ _ _ _ _ _ _ _ _ L ops q). Qed.

(** ... and on any well-formed state against its own entry list *)
Theorem C01_observers_wf (m : pmap pfx V) (q : pfx) :
  wfm w V (root m) -> okp w q ->
  let A := entries (root m) in
  t_get w fl V (root m) q = a_get A q /\
  t_get_key_value w fl V (root m) q = hit A q /\
  t_contains_key w fl V (root m) q = is_some (a_get A q) /\
  t_h_get w fl V m (t_entry w fl V m q) = a_get A q /\
  t_h_key w fl V m (t_entry w fl V m q) = match hit A q with Some e => fst e | None => q end.
Proof. exact (Refine2.observers_refine pfx V _ _ _ _ _ _ _ _ _ L m q). Qed.

(** THE ABSTRACT MAP IS A MAP keyed by (network address, prefix length): it is strictly sorted by
    key, holds every key at most once, and its lookups are lookups by key: [a_get A q = Some x] iff
    some entry [(p, x)] with the key of [q] is in [A]; [hit A q = Some e] iff [e] is that entry. *)
Theorem C01_abstract_is_map (ops : list (hop V)) :
  let A := x_run (abstract_history ops) in
  StronglySorted key_lt A /\ NoDup (map (ekey w V) A) /\
  (forall q x, a_get A q = Some x <-> exists p, In (p, x) A /\ kbits w p = kbits w q) /\
  (forall q, a_get A q = None <-> forall e, In e A -> ekey w V e <> kbits w q) /\
  (forall q e, hit A q = Some e <-> In e A /\ ekey w V e = kbits w q).
Proof.
  intros A. pose proof (Refine2.x_run_sorted pfx V (kbits w) (abstract_history ops)) as Hs.
  split; [exact Hs|]. split; [exact (Refine2.x_run_keys_NoDup pfx V (kbits w) (abstract_history ops))|].
  split; [intros q x; exact (Refine.a_get_spec pfx V (kbits w) A q x Hs)|].
  split; [intros q; exact (Refine.a_get_none pfx V (kbits w) A q)|].
  intros q e. exact (Refine2.hit_spec pfx V (kbits w) A q e Hs).
Qed.

(** on histories without reference/view writes nothing has to be resolved: the abstract map is
    [Refine.a_run], a function of the calls alone *)
Theorem C01_key_addressed_histories (ops : list (hop V)) :
  Forall (Refine.refinable pfx V (okp w)) ops ->
  x_run (abstract_history ops) = a_run ops /\ entries (root (hrun w fl V ops)) = a_run ops.
Proof.
  intros H. split; [exact (Refine2.x_run_refinable pfx V _ _ _ _ _ _ (kbits w) (okp w) ops H)|].
  exact (Refine.run_refines pfx V _ _ _ _ _ _ _ _ _ L ops H).
Qed.

(* ---------------------------------------------------------------------------------------- *)
(** the individual calls with a return value, on the functions that are extracted and run
    against the implementation *)

(** [insert q x]: the map becomes [a_insert A q x] ([(q, x)] at the position of its key, any
    entry under the same key replaced, all others untouched); returns the previous value *)
Theorem C01_insert (m : pmap pfx V) (q : pfx) (x : V) :
  wfm w V (root m) -> okp w q ->
  entries (root (fst (t_insert w fl V m q x))) = a_insert (entries (root m)) q x /\
  snd (t_insert w fl V m q x) = a_get (entries (root m)) q.
Proof. exact (Refine.insert_refines pfx V _ _ _ _ _ _ _ _ _ L m q x). Qed.

(** [remove q] / [remove_keep_tree q]: the map loses the entry under the key of [q] (if any), all
    others untouched; returns the removed value *)
Theorem C01_remove (m : pmap pfx V) (q : pfx) :
  wfm w V (root m) -> okp w q ->
  entries (root (fst (t_remove w fl V m q))) = a_without (entries (root m)) q /\
  snd (t_remove w fl V m q) = a_get (entries (root m)) q.
Proof. exact (Refine.remove_refines2 pfx V _ _ _ _ _ _ _ _ _ L m q). Qed.

Theorem C01_remove_keep_tree (m : pmap pfx V) (q : pfx) :
  wfm w V (root m) -> okp w q ->
  entries (root (fst (t_remove_keep_tree w fl V m q))) = a_without (entries (root m)) q /\
  snd (t_remove_keep_tree w fl V m q) = a_get (entries (root m)) q.
Proof. exact (Refine.remove_keep_tree_refines2 pfx V _ _ _ _ _ _ _ _ _ L m q). Qed.

(** the effect of the abstract operations, as membership (what must and what must NOT change) *)
Theorem C01_abstract_effects (A : amap) (q : pfx) (x : V) (e : pfx * V) :
  (In e (a_insert A q x) <-> e = (q, x) \/ (In e A /\ ekey w V e <> kbits w q)) /\
  (In e (a_without A q) <-> In e A /\ ekey w V e <> kbits w q).
Proof.
  split; [exact (Refine.in_a_insert pfx V (kbits w) A q x e) | exact (Refine.in_a_without pfx V (kbits w) A q e)].
Qed.

(* ---------------------------------------------------------------------------------------- *)
(** the three designator-addressed calls, per step *)

(** writes through the references handed out by a mutable lookup / iterator / view traversal
    ([ws] = slot number |-> new value): every entry keeps its position and stored prefix; its value
    is replaced exactly when its slot is in [ws].  In key form: the abstract map receives the write
    [a_write] of the new values at the keys of the designated entries. *)
Theorem C01_write (m : pmap pfx V) (ws : list (N * V)) :
  entries (root (step m (OWrite pfx V ws)))
  = map (fun e : N * pfx * V => let '(i, p, x) := e in
                                (p, match assoc_id ws i with Some y => y | None => x end))
        (entries_id (root m)) /\
  (wfm w V (root m) ->
   entries (root (step m (OWrite pfx V ws))) = a_write (entries (root m)) (key_writes (root m) ws)).
Proof.
  split; [exact (Refine2.write_step_entries pfx V _ _ _ _ _ _ m ws)|].
  exact (Refine2.write_step_refines pfx V _ _ _ _ _ _ _ _ m ws).
Qed.

Theorem C01_a_write (A kw : amap) (e : pfx * V) :
  In e (a_write A kw) <->
  exists e0, In e0 A /\ fst e = fst e0 /\
             snd e = match a_get kw (fst e0) with Some y => y | None => snd e0 end.
Proof. exact (Refine2.in_a_write pfx V (kbits w) A kw e). Qed.

(** [TrieViewMut::set x] at the node reached by [pa], holding prefix [p] and value [v]: acts as
    [insert p x] on the abstract map — the entry list [P ++ own p v ++ Q] becomes [P ++ (p, x) :: Q]
    — and returns [v], the abstract map's value at [p].  A path into a [Leaf] designates nothing. *)
Theorem C01_view_set (m : pmap pfx V) (pa : path) (x : V) :
  wfm w V (root m) ->
  match subtree (root m) pa with
  | Leaf => step m (OViewSet pfx V pa x) = m
  | Node _ p v _ _ =>
    entries (root (step m (OViewSet pfx V pa x))) = a_insert (entries (root m)) p x /\
    c_out m (OViewSet pfx V pa x) = v /\
    a_get (entries (root m)) p = v /\
    exists P Q, entries (root m) = P ++ own p v ++ Q /\
                entries (root (step m (OViewSet pfx V pa x))) = P ++ (p, x) :: Q
  end.
Proof.
  intros Hr. destruct (subtree (root m) pa) as [|i p v l r] eqn:Hs.
  - exact (proj1 (Refine2.view_step_leaf pfx V _ _ _ _ _ _ m pa Hs) x).
  - exact (Refine2.view_set_step pfx V _ _ _ _ _ _ _ _ m pa x i p v l r Hr Hs).
Qed.

(** [TrieViewMut::remove] at that node: the node's own entry (if any) leaves the list, all other
    entries are unchanged; returns [v]; when the node holds a value this is [remove_keep_tree p]
    on the abstract map. *)
Theorem C01_view_remove (m : pmap pfx V) (pa : path) :
  wfm w V (root m) ->
  match subtree (root m) pa with
  | Leaf => step m (OViewRemove pfx V pa) = m
  | Node _ p v _ _ =>
    c_out m (OViewRemove pfx V pa) = v /\
    (exists P Q, entries (root m) = P ++ own p v ++ Q /\
                 entries (root (step m (OViewRemove pfx V pa))) = P ++ Q) /\
    (forall y, v = Some y ->
       entries (root (step m (OViewRemove pfx V pa))) = a_without (entries (root m)) p /\
       a_get (entries (root m)) p = Some y)
  end.
Proof.
  intros Hr. destruct (subtree (root m) pa) as [|i p v l r] eqn:Hs.
  - exact (proj2 (Refine2.view_step_leaf pfx V _ _ _ _ _ _ m pa Hs)).
  - destruct (Refine2.view_remove_step pfx V (peq w) (contains w fl) (is_bit_set w) plen (lcp w fl) pzero (kbits w) (okp w)
                m pa i p v l r Hr Hs) as [A [B [C _]]]. auto.
Qed.

(** Every Entry-API path, handle by handle.  [t_entry_chain m q acts] is the state machine of one
    entry handle (EntryApi.v: creation by [entry(q)], then ANY sequence of [Entry] /
    [OccupiedEntry] / [VacantEntry] method calls, incl. wrongly matched variants, consuming
    calls, panicking closures and the known class) — the function the extracted driver runs for
    [entry] lines.  Its tokens (values seen through returned references, old values, keys, [ok],
    wrong-variant, panic) are those of the reference machine [crun] that runs on the ABSTRACT cell
    [a_get A q] alone; afterwards the abstract map holds at [q] what that machine says, and every
    entry under another key is untouched. *)
Theorem C01_entry_chain (m : pmap pfx V) (q : pfx) (acts : list (eact V)) :
  wfm w V (root m) -> okp w q ->
  let A := entries (root m) in
  let A' := entries (root (fst (t_entry_chain w fl V m q acts))) in
  let r := crun pfx V (is_some (a_get A q)) (t_h_key w fl V m (t_entry w fl V m q)) q (a_get A q) (fl0) acts in
  snd (t_entry_chain w fl V m q acts) = snd r /\
  a_get A' q = fst r /\
  (forall e, ekey w V e <> kbits w q -> (In e A' <-> In e A)).
Proof. exact (entry_chain_refines_abstract pfx V _ _ _ _ _ _ _ _ _ (laws w fl Hw) m q acts). Qed.

(** single calls, spelled out: [entry(q).insert(x)] returns the previous value and stores [x];
    [or_insert(x)] / [or_insert_with(|| x)] / [or_default()] return (a reference to) the resident
    value if there is one, else store and return [x] *)
Theorem C01_entry_insert (m : pmap pfx V) (q : pfx) (x : V) :
  wfm w V (root m) -> okp w q ->
  snd (t_entry_chain w fl V m q [EInsert x]) = [TVal (t_get w fl V (root m) q)] /\
  t_get w fl V (root (fst (t_entry_chain w fl V m q [EInsert x]))) q = Some x.
Proof. exact (entry_insert_content pfx V _ _ _ _ _ _ _ _ _ (laws w fl Hw) m q x). Qed.

Theorem C01_entry_or_insert (m : pmap pfx V) (q : pfx) (x : V) (a : eact V) :
  a = EOrInsert x \/ a = EOrInsertWith (Some x) \/ a = EOrDefault x ->
  wfm w V (root m) -> okp w q ->
  let v := match t_get w fl V (root m) q with Some y => y | None => x end in
  snd (t_entry_chain w fl V m q [a]) = [TVal (Some v)] /\
  t_get w fl V (root (fst (t_entry_chain w fl V m q [a]))) q = Some v.
Proof. exact (entry_or_insert_content pfx V _ _ _ _ _ _ _ _ _ (laws w fl Hw) m q x a). Qed.

(** * The same statement about the ARENA-level transcription of the code (Arena*.v; ArenaProps.v
      composes the refinement [Rep] with the tree-level theorem).  [areach am]: [am] is reached from
      the empty arena by a history of arena-level mutator calls with valid prefixes. *)
Theorem C01_arena (am : Arena.amap pfx V) :
  areach pfx V (peq w) (contains w fl) (is_bit_set w) plen (lcp w fl) pzero (okp w) am ->
  exists es, a_entries pfx V am = Ok es /\ StronglySorted key_lt es /\
             NoDup (map (ekey w V) es) /\ (forall e, In e es -> okp w (fst e)).
Proof. exact (arena_C01_entries pfx V _ _ _ _ _ _ _ _ _ (laws w fl Hw) am). Qed.

Theorem C01_arena_get (am : Arena.amap pfx V) (es : list (pfx * V)) (q : pfx) :
  areach pfx V (peq w) (contains w fl) (is_bit_set w) plen (lcp w fl) pzero (okp w) am -> okp w q -> a_entries pfx V am = Ok es ->
  Arena.a_get pfx V (peq w) (contains w fl) (is_bit_set w) plen am q = Ok (a_get es q) /\
  Arena3.a_get_key_value pfx V (peq w) (contains w fl) (is_bit_set w) plen am q = Ok (hit es q) /\
  Arena3.a_contains_key pfx V (peq w) (contains w fl) (is_bit_set w) plen am q = Ok (match a_get es q with Some _ => true | None => false end).
Proof. exact (arena_C01_get pfx V _ _ _ _ _ _ _ _ _ (laws w fl Hw) am es q). Qed.

(** REFINEMENT at the arena level (ArenaRefine.v): every step of the arena-level code other than the
    two [TrieViewMut] writes, on a reachable arena, returns [Ok] of a reachable arena whose iteration is
    EXACTLY the abstract operation ([Refine.a_step] on the sorted association list) applied to the
    iteration before the step; hence after any such history the arena iterates the abstract map. *)
Theorem C01_arena_step_refines (am : Arena.amap pfx V) es (o : Arena2.aop2 pfx V) :
  areach pfx V (peq w) (contains w fl) (is_bit_set w) plen (lcp w fl) pzero (okp w) am -> aop2_ok pfx V (okp w) o -> nonview pfx V o = true ->
  Refine.refinable pfx V (okp w) (to_hop pfx V o) -> a_entries pfx V am = Ok es ->
  exists am', Arena2.a_step2 pfx V (peq w) (contains w fl) (is_bit_set w) plen (lcp w fl) pzero o am = Ok am' /\
              areach pfx V (peq w) (contains w fl) (is_bit_set w) plen (lcp w fl) pzero (okp w) am' /\
              a_entries pfx V am' = Ok (fst (Refine.a_step pfx V (kbits w) es (to_hop pfx V o))).
Proof. exact (arena_C01_step_refines pfx V _ _ _ _ _ _ _ _ _ (laws w fl Hw) am es o). Qed.

Theorem C01_arena_run_refines (ops : list (Arena2.aop2 pfx V)) :
  Forall (aop2_ok pfx V (okp w)) ops -> forallb (nonview pfx V) ops = true ->
  Forall (Refine.refinable pfx V (okp w)) (map (to_hop pfx V) ops) ->
  exists am, Arena2.a_run2 pfx V (peq w) (contains w fl) (is_bit_set w) plen (lcp w fl) pzero ops = Ok am /\
             areach pfx V (peq w) (contains w fl) (is_bit_set w) plen (lcp w fl) pzero (okp w) am /\
             a_entries pfx V am = Ok (Refine.a_run pfx V (kbits w) (map (to_hop pfx V) ops)).
Proof. exact (arena_C01_run_refines pfx V _ _ _ _ _ _ _ _ _ (laws w fl Hw) ops). Qed.

(** RETURN VALUES at the arena level (ArenaOuts.v): the arena-level [insert] / [remove] /
    [remove_keep_tree] return the value stored under the key of [q] before the call ([a_get es q] on the
    iteration [es] before the call) and leave an arena that iterates the abstract result. *)
Theorem C01_arena_insert_returns (am : Arena.amap pfx V) es q x :
  areach pfx V (peq w) (contains w fl) (is_bit_set w) plen (lcp w fl) pzero (okp w) am -> okp w q -> a_entries pfx V am = Ok es ->
  exists am', Arena.a_insert pfx V (peq w) (contains w fl) (is_bit_set w) plen (lcp w fl) am q x = Ok (am', a_get es q) /\
              a_entries pfx V am' = Ok (Refine.a_insert pfx V (kbits w) es q x).
Proof. exact (arena_C01_insert_returns pfx V _ _ _ _ _ _ _ _ _ (laws w fl Hw) am es q x). Qed.

Theorem C01_arena_remove_returns (am : Arena.amap pfx V) es q :
  areach pfx V (peq w) (contains w fl) (is_bit_set w) plen (lcp w fl) pzero (okp w) am -> okp w q -> a_entries pfx V am = Ok es ->
  (exists am', Arena.a_remove pfx V (peq w) (contains w fl) (is_bit_set w) plen am q = Ok (am', a_get es q) /\
               a_entries pfx V am' = Ok (Refine.a_without pfx V (kbits w) es q)) /\
  (exists am', Arena.a_remove_keep_tree pfx V (peq w) (contains w fl) (is_bit_set w) plen am q = Ok (am', a_get es q) /\
               a_entries pfx V am' = Ok (Refine.a_without pfx V (kbits w) es q)).
Proof. exact (arena_C01_remove_returns pfx V _ _ _ _ _ _ _ _ _ (laws w fl Hw) am es q). Qed.

Theorem C01_arena_entry_returns (am : Arena.amap pfx V) es q x :
  areach pfx V (peq w) (contains w fl) (is_bit_set w) plen (lcp w fl) pzero (okp w) am -> okp w q -> a_entries pfx V am = Ok es ->
  (exists am', Arena2.a_entry_insert pfx V (peq w) (contains w fl) (is_bit_set w) plen (lcp w fl) am q x = Ok (am', a_get es q) /\
               a_entries pfx V am' = Ok (Refine.a_insert pfx V (kbits w) es q x)) /\
  (exists am', Arena2.a_entry_remove pfx V (peq w) (contains w fl) (is_bit_set w) plen (lcp w fl) am q = Ok (am', a_get es q) /\
               a_entries pfx V am' = Ok (Refine.a_without pfx V (kbits w) es q)).
Proof. exact (arena_C01_entry_returns pfx V _ _ _ _ _ _ _ _ _ (laws w fl Hw) am es q x). Qed.

End C01.

(* ---------------------------------------------------------------------------------------- *)
(** * The set ([PrefixSet<P>] wraps [PrefixMap<P, ()>]): the instance [V = unit] *)
Section C01_set.
Variables (w : N) (fl : flavour).
Hypothesis Hw : (1 <= w)%N.
Notation a_get := (Refine.a_get pfx unit (kbits w)).
Notation a_insert := (Refine.a_insert pfx unit (kbits w)).
Notation a_without := (Refine.a_without pfx unit (kbits w)).

(** [set.insert(q)] = [map.insert(q, ()).is_none()]: the newly-inserted flag says that the abstract
    set did not have the key; the contents become those of the abstract set with [q] inserted *)
Corollary C01_set_insert (m : pmap pfx unit) (q : pfx) :
  wfm w unit (root m) -> okp w q ->
  is_none (snd (t_insert w fl unit m q tt)) = negb (t_contains_key w fl unit (root m) q) /\
  is_none (snd (t_insert w fl unit m q tt)) = is_none (a_get (entries (root m)) q) /\
  entries (root (fst (t_insert w fl unit m q tt))) = a_insert (entries (root m)) q tt.
Proof.
  intros Hr Hq. destruct (C01_insert w fl unit Hw m q tt Hr Hq) as [E1 E2].
  destruct (C01_observers_wf w fl unit Hw m q Hr Hq) as [_ [_ [C _]]]. cbv zeta in C.
  rewrite E2, C. split; [|split; [reflexivity | exact E1]].
  unfold is_some. rewrite negb_involutive. reflexivity.
Qed.

(** [set.remove(q)] = [map.remove(q).is_some()], [set.remove_keep_tree] likewise: the flag says
    that the abstract set had the key *)
Corollary C01_set_remove (m : pmap pfx unit) (q : pfx) :
  wfm w unit (root m) -> okp w q ->
  is_some (snd (t_remove w fl unit m q)) = t_contains_key w fl unit (root m) q /\
  entries (root (fst (t_remove w fl unit m q))) = a_without (entries (root m)) q /\
  is_some (snd (t_remove_keep_tree w fl unit m q)) = t_contains_key w fl unit (root m) q /\
  entries (root (fst (t_remove_keep_tree w fl unit m q))) = a_without (entries (root m)) q.
Proof.
  intros Hr Hq. destruct (C01_remove w fl unit Hw m q Hr Hq) as [E1 E2].
  destruct (C01_remove_keep_tree w fl unit Hw m q Hr Hq) as [F1 F2].
  destruct (C01_observers_wf w fl unit Hw m q Hr Hq) as [_ [_ [C _]]]. cbv zeta in C.
  rewrite E2, F2, C. auto.
Qed.

(** [set.contains(q)] = [map.contains_key(q)], [set.get(q)] = the stored prefix of
    [map.get_key_value(q)]: the abstract set's membership / stored member, after any history *)
Corollary C01_set_observers (ops : list (hop unit)) (q : pfx) :
  Forall (adm w unit) ops -> okp w q ->
  let m := hrun w fl unit ops in
  let A := Refine2.x_run pfx unit (kbits w) (abstract_history w fl unit ops) in
  t_contains_key w fl unit (root m) q = is_some (a_get A q) /\
  option_map fst (t_get_key_value w fl unit (root m) q)
  = option_map fst (find (fun e : pfx * unit => beq (ekey w unit e) (kbits w q)) A).
Proof.
  intros Hall Hq. destruct (C01_observers w fl unit Hw ops q Hall Hq) as [_ [K [C _]]]. cbv zeta in *.
  rewrite K, C. auto.
Qed.

End C01_set.

(** non-vacuity: a history over the complete alphabet at [w = 8] — four insertions (one key with
    host bits set), a removal, a write through a reference (slot 1 holds [1000_0000/1]), a
    [TrieViewMut::set] on the value-less root node (creates the entry [0/0] with the root's own
    prefix), a [TrieViewMut::remove] at the left child of the root, an [or_insert] on an occupied
    key given with other host bits, a [retain].  The history is admissible, the final contents are
    the abstract map's, the return values agree, and both are the lists shown. *)
Definition C01_ops : list (hop nat) :=
  [ OInsert pfx nat (mkpfx 0x80 1) 1%nat;
    OInsert pfx nat (mkpfx 0xc0 2) 2%nat;
    OInsert pfx nat (mkpfx 0x47 2) 3%nat;
    OInsert pfx nat (mkpfx 0x00 1) 4%nat;
    ORemove pfx nat (mkpfx 0xff 2);
    OWrite pfx nat [(1%N, 50%nat)];
    OViewSet pfx nat [] 7%nat;
    OViewRemove pfx nat [false];
    OOrInsert pfx nat (mkpfx 0x7f 2) 9%nat;
    OInsert pfx nat (mkpfx 0xe0 3) 5%nat;
    ORetain pfx nat (fun _ _ x => Some (negb (Nat.eqb x 5))) ].

Example C01_example :
  let m := hrun 8 Generic nat C01_ops in
  let xs := abstract_history 8 Generic nat C01_ops in
  entries (root m) = [(pzero, 7%nat); (mkpfx 0x47 2, 3%nat); (mkpfx 0x80 1, 50%nat)] /\
  Refine2.x_run pfx nat (kbits 8) xs = entries (root m) /\
  Refine2.c_outs_full pfx nat (peq 8) (contains 8 Generic) (is_bit_set 8) plen (lcp 8 Generic) pzero
    (t_empty nat) C01_ops
  = [None; None; None; None; Some 2%nat; None; None; Some 4%nat; Some 3%nat; None; None] /\
  Refine2.x_outs pfx nat (kbits 8) [] xs
  = [None; None; None; None; Some 2%nat; None; None; Some 4%nat; Some 3%nat; None; None] /\
  t_get 8 Generic nat (root m) (mkpfx 0x55 2) = Some 3%nat /\
  t_get_key_value 8 Generic nat (root m) (mkpfx 0x55 2) = Some (mkpfx 0x47 2, 3%nat) /\
  t_get 8 Generic nat (root m) (mkpfx 0x00 1) = None.
Proof. vm_compute. repeat split; reflexivity. Qed.

(** ... and the history meets the hypothesis of the theorems *)
Example C01_example_admissible : Forall (adm 8 nat) C01_ops.
Proof.
  unfold C01_ops.
  repeat (apply Forall_cons; [split; [try (vm_compute; reflexivity); try exact I | try exact I] |]).
  - intros _ _ x. split; [reflexivity | discriminate].
  - constructor.
Qed.

Print Assumptions C01_contents.
Print Assumptions C01_returns.
Print Assumptions C01_every_step.
Print Assumptions C01_step.
Print Assumptions C01_observers.
Print Assumptions C01_observers_wf.
Print Assumptions C01_abstract_is_map.
Print Assumptions C01_key_addressed_histories.
Print Assumptions C01_insert.
Print Assumptions C01_remove.
Print Assumptions C01_remove_keep_tree.
Print Assumptions C01_abstract_effects.
Print Assumptions C01_write.
Print Assumptions C01_a_write.
Print Assumptions C01_view_set.
Print Assumptions C01_view_remove.
Print Assumptions C01_set_insert.
Print Assumptions C01_set_remove.
Print Assumptions C01_set_observers.
Print Assumptions adm_hop_ok.
Print Assumptions C01_entry_chain.
Print Assumptions C01_entry_insert.
Print Assumptions C01_entry_or_insert.
Print Assumptions C01_arena.
Print Assumptions C01_arena_get.
Print Assumptions C01_arena_step_refines.
Print Assumptions C01_arena_run_refines.
Print Assumptions C01_arena_insert_returns.
Print Assumptions C01_arena_remove_returns.
Print Assumptions C01_arena_entry_returns.
