(** C02 — longest-prefix match returns the most specific covering entry.
    This file contains only statements, closed by [exact], and their [Print Assumptions]. *)
From Coq Require Import List NArith.
From PT Require Import Bits PrefixN Laws PrefixLaws Trie TrieWf Lookup Inst.
Import ListNotations.

Section C02.
Variables (w : N) (fl : flavour) (V : Type).
Hypothesis Hw : (1 <= w)%N.
Notation okp := (fun p : pfx => valid w p = true).
Notation wf := (wf_root pfx V (pbits w) okp).
Notation is_lpm := (is_lpm pfx V (pbits w)).
Notation no_cover := (no_cover pfx V (pbits w)).

(** For every well-formed map state (every reachable state is: C15) and every valid query [q]:
    [get_lpm] returns a stored entry that covers [q] and whose prefix length is the greatest
    among all stored entries covering [q]; it returns [None] exactly when no stored entry covers
    [q].  The statement mentions only the entry list, not the shape. *)
Theorem C02_get_lpm (t : tree pfx V) (q : pfx) :
  wf t -> valid w q = true ->
  match t_get_lpm w fl V t q with
  | Some e => is_lpm (entries t) q e
  | None => no_cover (entries t) q
  end.
Proof.
  intros Hwf Hq. destruct t as [|i p v l r]; [destruct Hwf|].
  exact (get_lpm_spec pfx V _ _ _ _ _ _ _ _ _ (pn_laws w fl Hw) [] _ q (proj2 Hwf) Hq
           (wf_root_covers pfx V (pbits w) okp _ q Hwf)).
Qed.

(** the answer is determined by the stored entries alone: two well-formed trees with the same
    entries give the same answer, whatever their shapes *)
Theorem C02_shape_independent (t1 t2 : tree pfx V) (q : pfx) :
  wf t1 -> wf t2 -> valid w q = true -> entries t1 = entries t2 ->
  t_get_lpm w fl V t1 q = t_get_lpm w fl V t2 q.
Proof.
  intros H1 H2 Hq E.
  pose proof (C02_get_lpm t1 q H1 Hq) as A. pose proof (C02_get_lpm t2 q H2 Hq) as B.
  destruct t1 as [|i1 p1 v1 l1 r1]; [destruct H1|]. destruct t2 as [|i2 p2 v2 l2 r2]; [destruct H2|].
  destruct (t_get_lpm w fl V (Node i1 p1 v1 l1 r1) q) as [e1|], (t_get_lpm w fl V (Node i2 p2 v2 l2 r2) q) as [e2|].
  - f_equal. rewrite E in A.
    eapply is_lpm_unique; [exact (proj2 H2) | exact A | exact B].
  - exfalso. destruct A as [Hin [Hc _]]. rewrite E in Hin. exact (B _ Hin Hc).
  - exfalso. destruct B as [Hin [Hc _]]. rewrite <- E in Hin. exact (A _ Hin Hc).
  - reflexivity.
Qed.

(** [get_lpm_prefix] and [get_lpm_mut] (separate loops in the code) designate the same entry *)
Theorem C02_get_lpm_prefix (t : tree pfx V) (q : pfx) :
  t_get_lpm_prefix w fl V t q = option_map fst (t_get_lpm w fl V t q).
Proof. exact (get_lpm_prefix_eq pfx V _ _ _ _ t q). Qed.

Theorem C02_get_lpm_mut (t : tree pfx V) (q : pfx) :
  option_map (drop_slot pfx V) (t_get_lpm_mut w fl V t q) = t_get_lpm w fl V t q.
Proof. exact (get_lpm_mut_eq pfx V _ _ _ _ t q). Qed.

End C02.

Print Assumptions C02_get_lpm.
Print Assumptions C02_shape_independent.
Print Assumptions C02_get_lpm_prefix.
Print Assumptions C02_get_lpm_mut.
