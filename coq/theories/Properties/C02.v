(** C02 — longest-prefix match returns the most specific covering entry.
    Statements only; proofs are in Lookup.v. *)
From Coq Require Import List NArith.
From PT Require Import Lookup Arena Arena3 ArenaProps.
From PT.Properties Require Import Common.
Import ListNotations.

Section C02.
Variables (w : N) (fl : flavour) (V : Type).
Hypothesis Hw : (1 <= w)%N.
Notation is_lpm := (is_lpm pfx V (kbits w)).
Notation no_cover := (no_cover pfx V (kbits w)).

(** For every well-formed map state — every reachable state is one ([Common.reachable_wfm]) —
    and every valid query [q]: [get_lpm] returns a stored entry that covers [q] and whose prefix
    length is the greatest among all stored entries covering [q]; it returns [None] exactly when no
    stored entry covers [q].  The statement mentions the entry list only, never the shape. *)
Theorem C02_get_lpm (t : tree pfx V) (q : pfx) :
  wfm w V t -> okp w q ->
  match t_get_lpm w fl V t q with
  | Some e => is_lpm (entries t) q e
  | None => no_cover (entries t) q
  end.
Proof.
  intros Hwf Hq. destruct t as [|i p v l r]; [destruct Hwf|].
  exact (get_lpm_spec pfx V _ _ _ _ _ _ _ _ _ (laws w fl Hw) [] _ q (proj2 Hwf) Hq
           (wf_root_covers pfx V (kbits w) (okp w) _ q Hwf)).
Qed.

(** ... in particular in every state reachable by a history of public mutating calls *)
Theorem C02_reachable (ops : list (hop V)) (q : pfx) :
  Forall (hop_ok w V) ops -> okp w q ->
  match t_get_lpm w fl V (root (hrun w fl V ops)) q with
  | Some e => is_lpm (entries (root (hrun w fl V ops))) q e
  | None => no_cover (entries (root (hrun w fl V ops))) q
  end.
Proof. intros Hops Hq. apply C02_get_lpm; [apply (reachable_wfm w fl V Hw); exact Hops | exact Hq]. Qed.

(** the answer is determined by the stored entries alone: two well-formed trees with the same
    entries give the same answer, whatever shapes earlier removals left behind *)
Theorem C02_shape_independent (t1 t2 : tree pfx V) (q : pfx) :
  wfm w V t1 -> wfm w V t2 -> okp w q -> entries t1 = entries t2 ->
  t_get_lpm w fl V t1 q = t_get_lpm w fl V t2 q.
Proof.
  intros H1 H2 Hq E.
  pose proof (C02_get_lpm t1 q H1 Hq) as A. pose proof (C02_get_lpm t2 q H2 Hq) as B.
  destruct t1 as [|i1 p1 v1 l1 r1]; [destruct H1|]. destruct t2 as [|i2 p2 v2 l2 r2]; [destruct H2|].
  destruct (t_get_lpm w fl V (Node i1 p1 v1 l1 r1) q) as [e1|], (t_get_lpm w fl V (Node i2 p2 v2 l2 r2) q) as [e2|].
  - f_equal. rewrite E in A. eapply is_lpm_unique; [exact (proj2 H2) | exact A | exact B].
  - exfalso. destruct A as [Hin [Hc _]]. rewrite E in Hin. exact (B _ Hin Hc).
  - exfalso. destruct B as [Hin [Hc _]]. rewrite <- E in Hin. exact (A _ Hin Hc).
  - reflexivity.
Qed.

(** [get_lpm_prefix] and [get_lpm_mut] (separate loops in the code) designate the same entry;
    the set's [get_lpm] is [get_lpm] of the underlying map projected to the prefix *)
Theorem C02_get_lpm_prefix (t : tree pfx V) (q : pfx) :
  t_get_lpm_prefix w fl V t q = option_map fst (t_get_lpm w fl V t q).
Proof. exact (get_lpm_prefix_eq pfx V _ _ _ _ t q). Qed.

Theorem C02_get_lpm_mut (t : tree pfx V) (q : pfx) :
  option_map (drop_slot pfx V) (t_get_lpm_mut w fl V t q) = t_get_lpm w fl V t q.
Proof. exact (get_lpm_mut_eq pfx V _ _ _ _ t q). Qed.

(** * The same statement about the ARENA-level transcription of the code (Arena*.v; ArenaProps.v
      composes the refinement [Rep] with the tree-level theorem).  [areach am]: [am] is reached from
      the empty arena by a history of arena-level mutator calls with valid prefixes. *)
Theorem C02_arena (am : amap pfx V) (es : list (pfx * V)) (q : pfx) :
  areach pfx V (peq w) (contains w fl) (is_bit_set w) plen (lcp w fl) pzero (okp w) am -> okp w q -> a_entries pfx V am = Ok es ->
  exists o, Arena.a_get_lpm pfx V (peq w) (contains w fl) (is_bit_set w) plen am q = Ok o /\
    match o with Some e => is_lpm es q e | None => no_cover es q end /\
    Arena3.a_get_lpm_prefix pfx V (peq w) (contains w fl) (is_bit_set w) plen am q = Ok (option_map fst o) /\
    exists om, Arena3.a_get_lpm_mut pfx V (peq w) (contains w fl) (is_bit_set w) plen am q = Ok om /\ option_map (drop_slot pfx V) om = o.
Proof. exact (arena_C02_get_lpm pfx V _ _ _ _ _ _ _ _ _ (laws w fl Hw) am es q). Qed.

End C02.

(** non-vacuity: a well-formed tree with a value-less leftover on the query path *)
Example C02_example :
  let m0 := fst (t_insert 8 Generic nat (t_empty nat) (mkpfx 0x80 1) 1%nat) in
  let m1 := fst (t_insert 8 Generic nat m0 (mkpfx 0xc0 2) 2%nat) in
  let m := fst (t_remove_keep_tree 8 Generic nat m1 (mkpfx 0xc0 2)) in
  t_get_lpm 8 Generic nat (root m) (mkpfx 0xc5 8) = Some (mkpfx 0x80 1, 1%nat).
Proof. vm_compute. reflexivity. Qed.

Print Assumptions C02_get_lpm.
Print Assumptions C02_reachable.
Print Assumptions C02_shape_independent.
Print Assumptions C02_get_lpm_prefix.
Print Assumptions C02_get_lpm_mut.
Print Assumptions C02_arena.
