(** C03 — every iterator yields each entry exactly once in lexicographic prefix order.

    All full traversals of the crate ([Iter], [IterMut], [IntoIter]; [keys]/[values]/[values_mut]/
    [into_keys]/[into_values] and the set iterators are projections of these) are the one
    explicit-stack loop [iter_expand] (three textual copies in the code: [iter_expand],
    [iter_mut_expand], [into_iter_expand]) run by [Machine.next] / [Machine.run].  The theorems say:
    - for EVERY tree (well-formed or not) the three traversals yield exactly the pre-order list of
      stored entries [entries t] — call by call ([next()] returns the items one at a time) — and
      after the last item every further call returns [None] (fused);
    - in every well-formed tree — hence in every reachable state, whatever insertions, removals
      ([remove], [remove_keep_tree], [remove_children], [retain] ...) produced its shape — that list
      holds no key twice, holds exactly the pairs the exact-match lookup finds, and is strictly
      ascending in the lexicographic order of the keys, which for the concrete prefix type is
      "ascending by masked network address, then by prefix length"; a prefix precedes everything it
      covers and the 0-branch precedes the 1-branch;
    - the sequence is a function of the set of stored pairs alone (shape independence), and a
      function of the iterator's stack value alone (a clone yields the same remaining items).
    Proofs: Lookup2.v (machine = [entries_id]), TrieWf.v (order), IterExtra.v (glue). *)
From Coq Require Import List NArith Sorted.
From PT Require Import Lookup Lookup2 MutTrav IterExtra Arena Arena3 ArenaProps ArenaViews.
From PT.Properties Require Import Common.
Import ListNotations.
Local Open Scope nat_scope.

Section C03.
Variables (w : N) (fl : flavour) (V : Type).
Hypothesis Hw : (1 <= w)%N.
Notation item := (N * pfx * V)%type.
Notation drop := (Inst.drop_id V).
(** the iteration order on entries: lexicographic order of the keys *)
Definition lex_order (e1 e2 : pfx * V) : Prop := lex_lt (ekey w V e1) (ekey w V e2).
(** the same order in the words of the property: masked network address, then prefix length *)
Definition addr_len_order (e1 e2 : pfx * V) : Prop :=
  (pmask w (fst e1) < pmask w (fst e2))%N \/
  (pmask w (fst e1) = pmask w (fst e2) /\ (plen (fst e1) < plen (fst e2))%N).

(** a whole well-formed map is a well-formed subtree under the empty bound *)
Lemma C03_wfm_under (t : tree pfx V) : wfm w V t -> wfu w V [] t.
Proof. destruct t as [|i p v l r]; [intros [] | intros H; exact (proj2 H)]. Qed.

(** ** What the traversals yield *)

(** [iter] (also iteration of [&map], [&set], [set.iter()]) run to exhaustion yields exactly the
    stored entries, pre-order; this holds for every tree, no well-formedness needed.  Items carry
    the arena slot (used by [IterMut]); [drop_id] forgets it. *)
Theorem C03_iter (t : tree pfx V) : map drop (t_iter_items V t) = entries t.
Proof. unfold t_iter_items. rewrite iter_items_spec. exact (entries_id_entries pfx V t). Qed.

(** [iter_mut] / [values_mut] and [into_iter] / [into_keys] / [into_values] (separate copies of
    the loop) yield the same items, slots included *)
Theorem C03_iter_mut (t : tree pfx V) : t_iter_mut_items V t = t_iter_items V t.
Proof. exact (iter_mut_items_eq pfx V t). Qed.

Theorem C03_into_iter (t : tree pfx V) : t_into_iter_items V t = t_iter_items V t.
Proof. exact (into_iter_items_eq pfx V t). Qed.

(** [keys] / [into_keys] / the set iterators and [values] / [values_mut] / [into_values] are the
    projections of the items *)
Theorem C03_keys_values (t : tree pfx V) :
  map (fun x => fst (drop x)) (t_iter_items V t) = map fst (entries t) /\
  map (fun x => snd (drop x)) (t_iter_items V t) = map snd (entries t).
Proof. rewrite <- C03_iter, !map_map. split; reflexivity. Qed.

(** call by call: starting from the initial stack (the root), [length (entries t)] successive
    calls of [next()] return the items one by one, and each of the [k] further calls — for every
    [k] — returns [None].  ([n] is the fuel of the inner loop of one [next()] call; any [n] above
    the number of nodes suffices.) *)
Theorem C03_next_sequence (t : tree pfx V) (n k : nat) :
  tsize t < n ->
  pull (tree pfx V) item (iter_expand pfx V) (length (entries t) + k) n (nodes_of [t])
  = map Some (t_iter_items V t) ++ repeat None k.
Proof.
  intros Hn. unfold t_iter_items. rewrite iter_items_spec.
  replace (length (entries t)) with (length (entries_id t))
    by (rewrite <- (entries_id_entries pfx V t), map_length; reflexivity).
  apply drains_pull. apply iter_drains. exact Hn.
Qed.

(** the same for the other two copies of the loop *)
Theorem C03_next_sequence_mut (t : tree pfx V) (n k : nat) :
  tsize t < n ->
  pull (tree pfx V) item (iter_mut_expand pfx V) (length (entries t) + k) n (nodes_of [t])
  = map Some (t_iter_mut_items V t) ++ repeat None k.
Proof. rewrite C03_iter_mut. exact (C03_next_sequence t n k). Qed.

Theorem C03_next_sequence_into (t : tree pfx V) (n k : nat) :
  tsize t < n ->
  pull (tree pfx V) item (into_iter_expand pfx V) (length (entries t) + k) n (nodes_of [t])
  = map Some (t_into_iter_items V t) ++ repeat None k.
Proof. rewrite C03_into_iter. exact (C03_next_sequence t n k). Qed.

(** fused: [next()] on the exhausted iterator (empty stack) returns [None] and leaves it exhausted *)
Theorem C03_fused (n : nat) : t_iter_next V n [] = Some (None, []).
Proof. exact (next_nil (tree pfx V) item (iter_expand pfx V) n). Qed.

(** a clone of an iterator is a copy of its stack; the remaining items are a function of the stack
    value, so the clone and the original yield the same sequence, at any point of the traversal *)
Theorem C03_clone (n : nat) (st : list (tree pfx V)) (o1 o2 : list item) :
  drains (tree pfx V) item (iter_expand pfx V) n st o1 ->
  drains (tree pfx V) item (iter_expand pfx V) n st o2 -> o1 = o2.
Proof. exact (drains_fun (tree pfx V) item (iter_expand pfx V) n st o1 o2). Qed.

(** ** Every stored entry exactly once and nothing else *)

(** the yielded list holds exactly the pairs found by the exact-match lookup (with the stored
    representation of the prefix) ... *)
Theorem C03_stored_iff_lookup (t : tree pfx V) (p : pfx) (x : V) :
  wfm w V t ->
  (In (p, x) (entries t) <-> okp w p /\ t_get_key_value w fl V t p = Some (p, x)).
Proof.
  intros Hwf. pose proof (C03_wfm_under t Hwf) as Hu.
  pose proof (fun Hp => get_key_value_spec pfx V _ _ _ _ _ _ _ _ _ (laws w fl Hw) [] t p p x Hu Hp
                          (wf_root_covers pfx V (kbits w) (okp w) t p Hwf)) as G.
  split.
  - intros Hin. assert (Hp : okp w p) by exact (entries_ok pfx V (kbits w) (okp w) [] t (p, x) Hu Hin).
    split; [exact Hp|]. apply (G Hp). split; [exact Hin | reflexivity].
  - intros [Hp H]. apply (G Hp). exact H.
Qed.

(** ... and no key — hence no entry — twice *)
Theorem C03_exactly_once (t : tree pfx V) :
  wfm w V t -> NoDup (map (ekey w V) (entries t)) /\ NoDup (entries t).
Proof.
  intros Hwf. pose proof (entries_sorted pfx V (kbits w) (okp w) [] t (C03_wfm_under t Hwf)) as Hs. split.
  - exact (sorted_nodup_keys pfx V (kbits w) _ Hs).
  - exact (sorted_nodup pfx V (kbits w) _ Hs).
Qed.

(** ** The order *)

(** strictly ascending in the lexicographic order of the keys *)
Theorem C03_sorted_lex (t : tree pfx V) : wfm w V t -> StronglySorted lex_order (entries t).
Proof. intros Hwf. exact (entries_sorted pfx V (kbits w) (okp w) [] t (C03_wfm_under t Hwf)). Qed.

(** the lexicographic order IS "ascending by network address, then by prefix length", for all
    valid prefixes of the concrete type (addresses compared after masking the host bits) *)
Theorem C03_lex_is_addr_len (a b : pfx) :
  okp w a -> okp w b ->
  (lex_lt (kbits w a) (kbits w b) <->
   (pmask w a < pmask w b)%N \/ (pmask w a = pmask w b /\ (plen a < plen b)%N)).
Proof. exact (lex_lt_numeric w a b). Qed.

(** hence: strictly ascending by network address and, for equal addresses, by prefix length *)
Theorem C03_sorted_addr_len (t : tree pfx V) : wfm w V t -> StronglySorted addr_len_order (entries t).
Proof.
  intros Hwf. pose proof (C03_wfm_under t Hwf) as Hu.
  apply (StronglySorted_impl_in _ lex_order); [|apply C03_sorted_lex; exact Hwf].
  intros a b Ha Hb H. unfold addr_len_order. apply C03_lex_is_addr_len; [| |exact H].
  - exact (entries_ok pfx V (kbits w) (okp w) [] t a Hu Ha).
  - exact (entries_ok pfx V (kbits w) (okp w) [] t b Hu Hb).
Qed.

(** a prefix precedes everything it covers; the 0-branch precedes the 1-branch *)
Theorem C03_prefix_precedes (a b : list bool) : prefix_of a b -> a <> b -> lex_lt a b.
Proof. exact (lex_lt_prefix a b). Qed.

Theorem C03_zero_branch_precedes (k a b : list bool) :
  prefix_of (k ++ [false]) a -> prefix_of (k ++ [true]) b -> lex_lt a b.
Proof. exact (lex_lt_branches k a b). Qed.

(** "precedes" is about positions in the yielded sequence: of two stored entries the
    lexicographically smaller one is yielded first *)
Theorem C03_yielded_before (t : tree pfx V) (e1 e2 : pfx * V) :
  wfm w V t -> In e1 (entries t) -> In e2 (entries t) -> lex_order e1 e2 ->
  exists l1 l2 l3, entries t = l1 ++ e1 :: l2 ++ e2 :: l3.
Proof.
  intros Hwf H1 H2 H. apply (sorted_before _ lex_order); try assumption.
  - intros x. apply lex_lt_irrefl.
  - intros x y z. apply lex_lt_trans.
  - apply C03_sorted_lex. exact Hwf.
Qed.

(** ... in particular a stored prefix is yielded before every stored entry it (properly) covers *)
Theorem C03_cover_yielded_first (t : tree pfx V) (e1 e2 : pfx * V) :
  wfm w V t -> In e1 (entries t) -> In e2 (entries t) ->
  prefix_of (ekey w V e1) (ekey w V e2) -> ekey w V e1 <> ekey w V e2 ->
  exists l1 l2 l3, entries t = l1 ++ e1 :: l2 ++ e2 :: l3.
Proof.
  intros Hwf H1 H2 Hc Hne. apply C03_yielded_before; try assumption.
  apply lex_lt_prefix; assumption.
Qed.

(** ** Independence of insertion order, removals and tree shape *)

(** two well-formed trees storing the same set of (prefix, value) pairs yield the same sequence,
    whatever their shapes (value-less leftovers, branching nodes, slot numbers) *)
Theorem C03_shape_independent (t1 t2 : tree pfx V) :
  wfm w V t1 -> wfm w V t2 ->
  (forall e, In e (entries t1) <-> In e (entries t2)) ->
  map drop (t_iter_items V t1) = map drop (t_iter_items V t2).
Proof.
  intros H1 H2 H. rewrite !C03_iter.
  apply (sorted_ext pfx V (kbits w)); [apply C03_sorted_lex; exact H1 | apply C03_sorted_lex; exact H2 | exact H].
Qed.

(** all of the above in every state reachable by a history of public mutating calls *)
Theorem C03_reachable (ops : list (hop V)) :
  Forall (hop_ok w V) ops ->
  let t := root (hrun w fl V ops) in
  map drop (t_iter_items V t) = entries t /\
  t_iter_mut_items V t = t_iter_items V t /\ t_into_iter_items V t = t_iter_items V t /\
  NoDup (map (ekey w V) (entries t)) /\
  StronglySorted lex_order (entries t) /\ StronglySorted addr_len_order (entries t).
Proof.
  intros Hops t. pose proof (reachable_wfm w fl V Hw ops Hops) as Hwf. fold t in Hwf.
  split; [apply C03_iter|]. split; [apply C03_iter_mut|]. split; [apply C03_into_iter|].
  split; [exact (proj1 (C03_exactly_once t Hwf))|].
  split; [apply C03_sorted_lex; exact Hwf | apply C03_sorted_addr_len; exact Hwf].
Qed.

(* ---------------------------------------------------------------------------------------- *)
(** * The same statement about the ARENA-level transcription of the code (Arena*.v): [Iter] over the
      table of any arena reachable from the empty arena by a history over the whole mutator alphabet,
      started at the root ([PrefixMap::iter]) or at any location reachable by view navigation
      ([TrieView::iter], [TrieViewMut::iter_mut]; ArenaViews.v), returns [Ok] (no panic; the fuel
      [S (length table)] suffices) of a list that is strictly ascending in the lexicographic order of
      the keys and contains no key twice. *)
Theorem C03_arena (am : Arena.amap pfx V) :
  areach pfx V (peq w) (contains w fl) (is_bit_set w) plen (lcp w fl) pzero (okp w) am ->
  exists es, Arena.a_entries pfx V am = Arena.Ok es /\ StronglySorted (TrieWf.key_lt pfx V (kbits w)) es /\
             NoDup (map (ekey w V) es).
Proof.
  intros H. destruct (arena_C01_entries pfx V _ _ _ _ _ _ _ _ _ (laws w fl Hw) am H) as (es & E & S & N & _).
  exists es. auto.
Qed.

Theorem C03_arena_views (am : Arena.amap pfx V) l :
  areach pfx V (peq w) (contains w fl) (is_bit_set w) plen (lcp w fl) pzero (okp w) am ->
  a_vreach pfx V (peq w) (contains w fl) (is_bit_set w) plen (lcp w fl) (okp w) (Arena.tbl am) l ->
  exists es, a_v_iter pfx V (Arena.tbl am) l = Arena.Ok es /\ StronglySorted (TrieWf.key_lt pfx V (kbits w)) es /\
             NoDup (map (ekey w V) es).
Proof. exact (arena_C03_view_iter pfx V _ _ _ _ _ _ _ _ _ (laws w fl Hw) am l). Qed.

End C03.

(** non-vacuity: a reachable state with a value-less leftover (128/1 after [remove_keep_tree]),
    a value-less branching node (0/1 above 32/3 and 71/2), the zero-length prefix and host bits
    (71/2); the iterator yields the five stored entries in lexicographic order and then keeps
    returning [None] *)
Example C03_example :
  let ins m p x := fst (t_insert 8 Generic nat m p x) in
  let m1 := ins (ins (ins (ins (ins (ins (t_empty nat) (mkpfx 0xc0 2) 2) (mkpfx 0x80 1) 1)
                  (mkpfx 0x47 2) 3) (mkpfx 0 0) 0) (mkpfx 0xe0 3) 4) (mkpfx 0x20 3) 5 in
  let m := fst (t_remove_keep_tree 8 Generic nat m1 (mkpfx 0x80 1)) in
  map (Inst.drop_id nat) (t_iter_items nat (root m))
    = [(mkpfx 0 0, 0); (mkpfx 0x20 3, 5); (mkpfx 0x47 2, 3); (mkpfx 0xc0 2, 2); (mkpfx 0xe0 3, 4)] /\
  map (option_map (Inst.drop_id nat))
      (pull _ _ (iter_expand pfx nat) 7 (S (tsize (root m))) (nodes_of [root m]))
    = [Some (mkpfx 0 0, 0); Some (mkpfx 0x20 3, 5); Some (mkpfx 0x47 2, 3); Some (mkpfx 0xc0 2, 2);
       Some (mkpfx 0xe0 3, 4); None; None] /\
  t_get 8 Generic nat (root m) (mkpfx 0x80 1) = None /\
  tsize (root m) = 7.
Proof. vm_compute. repeat split; reflexivity. Qed.

Print Assumptions C03_wfm_under.
Print Assumptions C03_iter.
Print Assumptions C03_iter_mut.
Print Assumptions C03_into_iter.
Print Assumptions C03_keys_values.
Print Assumptions C03_next_sequence.
Print Assumptions C03_next_sequence_mut.
Print Assumptions C03_next_sequence_into.
Print Assumptions C03_fused.
Print Assumptions C03_clone.
Print Assumptions C03_stored_iff_lookup.
Print Assumptions C03_exactly_once.
Print Assumptions C03_sorted_lex.
Print Assumptions C03_lex_is_addr_len.
Print Assumptions C03_sorted_addr_len.
Print Assumptions C03_prefix_precedes.
Print Assumptions C03_zero_branch_precedes.
Print Assumptions C03_yielded_before.
Print Assumptions C03_cover_yielded_first.
Print Assumptions C03_shape_independent.
Print Assumptions C03_reachable.
Print Assumptions C03_arena.
Print Assumptions C03_arena_views.
