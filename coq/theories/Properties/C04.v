(** C04 — len() and is_empty() always agree with the number of stored entries.

    [len m] / [is_empty m] read the cached counter of the model ([Trie.len], [Trie.is_empty]); the
    number of entries yielded by iteration is [length (entries (root m))] ([C04_iteration_count]:
    every iterator yields exactly that list).  A history is a list of operations of the complete
    mutator alphabet [History.op] (insert on new / existing / value-less nodes, every Entry-API path
    incl. OccupiedEntry::remove, remove, remove_keep_tree, remove_children, retain with any closure
    incl. a panicking one, clear, collect, writes through mutable traversals, TrieViewMut::set and
    ::remove); [clone] is the identity on the model.  "After every step" = for the state after every
    prefix [firstn k ops] of the history.  None of the theorems needs any hypothesis on the arguments
    of the operations (no validity of prefixes, no well-formedness): the accounting is structural.

    RESULT.  The property as stated is FALSE for the two mutable-view operations (known finding
    F-view-counter: [TrieViewMut::set] on a value-less node and [TrieViewMut::remove] on a stored
    entry hold only an arena reference and cannot reach the counter): [C04_view_refuted].  What
    holds is
    - [C04_len_every_step], [C04_is_empty_every_step]: the property, after every step of every
      history over the alphabet minus those two operations;
    - [C04_drift]: over the FULL alphabet, [len = #entries + drift] where the drift is exactly
      (number of view removals that took a value out) - (number of view insertions that filled a
      value-less node) since the last clear / remove_children(zero-length prefix) / collect
      ([C04_drift_step], [C04_drift_reset], [C04_clear_resyncs]). *)
From Coq Require Import List NArith ZArith Bool Lia.
From PT Require Import Slots Lookup2 History HistoryExtra EntryApi InstEntry Arena ArenaProps.
From PT.Properties Require Import Common.
Import ListNotations.

Section C04.
Variables (w : N) (fl : flavour) (V : Type).

Notation hrun := (hrun w fl V).
Notation hop := (hop V).
Notation counts := (History.counts pfx V).
Notation nent m := (Z.of_nat (length (entries (root m)))).
Notation step := (History.step pfx V (peq w) (contains w fl) (is_bit_set w) plen (lcp w fl) pzero).
Notation drift := (HistoryExtra.drift pfx V (peq w) (contains w fl) (is_bit_set w) plen (lcp w fl) pzero).
Notation drift_step := (HistoryExtra.drift_step pfx V plen).
Notation is_reset := (HistoryExtra.is_reset pfx V plen).
Notation empty := (Trie.empty pfx V pzero).

(** what iteration yields: [iter], [iter_mut] and [into_iter] all yield the pre-order entry list,
    so "the number of entries yielded by iteration" is [length (entries t)] *)
Theorem C04_iteration_count (t : tree pfx V) :
  map (Inst.drop_id V) (t_iter_items V t) = entries t /\
  length (t_iter_items V t) = length (entries t) /\
  length (t_iter_mut_items V t) = length (entries t) /\
  length (t_into_iter_items V t) = length (entries t).
Proof.
  unfold t_iter_items, t_iter_mut_items, t_into_iter_items.
  rewrite iter_items_spec, iter_mut_items_spec, into_iter_items_spec.
  pose proof (entries_id_entries pfx V t) as E. split; [exact E|].
  assert (L : length (entries_id t) = length (entries t)) by (rewrite <- E, map_length; reflexivity).
  auto.
Qed.

(** THE PROPERTY, on the alphabet minus OViewSet / OViewRemove: after every step of every history,
    [len()] is the number of stored entries *)
Theorem C04_len_every_step (ops : list hop) (k : nat) :
  forallb counts ops = true ->
  len (hrun (firstn k ops)) = nent (hrun (firstn k ops)).
Proof.
  intros H. apply (cinv_len pfx V).
  apply (reachable_count pfx V). apply forallb_firstn. exact H.
Qed.

(** ... and [is_empty()] is true exactly when that number is zero *)
Theorem C04_is_empty_every_step (ops : list hop) (k : nat) :
  forallb counts ops = true ->
  (is_empty (hrun (firstn k ops)) = true <-> entries (root (hrun (firstn k ops))) = []) /\
  (is_empty (hrun (firstn k ops)) = true <-> length (entries (root (hrun (firstn k ops)))) = 0%nat).
Proof.
  intros H.
  assert (A : is_empty (hrun (firstn k ops)) = true <-> entries (root (hrun (firstn k ops))) = []).
  { apply (cinv_is_empty pfx V). apply (reachable_count pfx V). apply forallb_firstn. exact H. }
  split; [exact A|]. rewrite A. split; [intros ->; reflexivity | apply length_zero_iff_nil].
Qed.

(** the same for the final state (the instance [k = length ops]) *)
Corollary C04_len (ops : list hop) :
  forallb counts ops = true -> len (hrun ops) = nent (hrun ops).
Proof. intros H. pose proof (C04_len_every_step ops (length ops) H) as E. rewrite firstn_all in E. exact E. Qed.

Corollary C04_is_empty (ops : list hop) :
  forallb counts ops = true -> (is_empty (hrun ops) = true <-> entries (root (hrun ops)) = []).
Proof.
  intros H. pose proof (proj1 (C04_is_empty_every_step ops (length ops) H)) as E.
  rewrite firstn_all in E. exact E.
Qed.

(** OVER THE FULL ALPHABET (views included), after every step: the counter is off by exactly the
    accumulated drift *)
Theorem C04_drift (ops : list hop) (k : nat) :
  len (hrun (firstn k ops)) = (nent (hrun (firstn k ops)) + drift (firstn k ops) empty 0)%Z.
Proof. exact (reachable_drift pfx V _ _ _ _ _ _ (firstn k ops)). Qed.

(** what one operation does to [len - #entries], from ANY state:
    - TrieViewMut::set on an existing value-less node: -1 (an entry appears, the counter stays);
    - TrieViewMut::remove on a node holding a value: +1 (an entry disappears, the counter stays);
    - clear, remove_children of the zero-length prefix, collect: reset to 0;
    - every other operation (and the two above in their harmless cases): unchanged. *)
Theorem C04_drift_step (m : pmap pfx V) (o : hop) :
  (len (step m o) - nent (step m o) =
   match o with
   | OViewSet _ _ pa _ =>
     let n := subtree (root m) pa in
     if is_node n && is_none (tval n) then len m - nent m - 1 else len m - nent m
   | OViewRemove _ _ pa =>
     if is_some (tval (subtree (root m) pa)) then len m - nent m + 1 else len m - nent m
   | _ => if is_reset o then 0 else len m - nent m
   end)%Z.
Proof.
  pose proof (step_gap pfx V (peq w) (contains w fl) (is_bit_set w) plen (lcp w fl) pzero m o) as G.
  unfold gap, Slots.nentries in G. unfold len. rewrite G.
  destruct o; cbn [HistoryExtra.drift_step]; try reflexivity.
Qed.

(** a resetting operation forgets all earlier drift *)
Theorem C04_drift_reset (ops1 : list hop) (o : hop) (ops2 : list hop) :
  is_reset o = true ->
  drift (ops1 ++ o :: ops2) empty 0 = drift ops2 (hrun (ops1 ++ [o])) 0.
Proof. exact (drift_reset pfx V _ _ _ _ _ _ ops1 o ops2). Qed.

(** [clear] (= remove_children of the zero-length prefix) re-synchronises whatever happened before *)
Theorem C04_clear_resyncs (m : pmap pfx V) :
  len (t_clear V m) = nent (t_clear V m) /\ is_empty (t_clear V m) = true.
Proof. split; reflexivity. Qed.

(** histories without the two view operations have no drift ([C04_len] is the instance) *)
Theorem C04_no_drift (ops : list hop) (m : pmap pfx V) :
  forallb counts ops = true -> drift ops m 0 = 0%Z.
Proof. intros H. exact (drift_counts pfx V _ _ _ _ _ _ ops H m). Qed.

(** The Entry API handle by handle: ANY sequence of method calls on one entry handle
    ([get], [get_mut], [key], [insert], [or_insert*], [and_modify], the [OccupiedEntry] and
    [VacantEntry] methods incl. [OccupiedEntry::remove], user closures that panic) keeps
    [len() = number of entries] — except in the recorded known class [occupied_reuse]: another
    accessor after [OccupiedEntry::remove] on the SAME handle ([C04_entry_reuse_refuted]). *)
Theorem C04_entry_chain (Hw : (1 <= w)%N) (m : pmap pfx V) (q : pfx) (acts : list (eact V)) :
  wfm w V (root m) -> okp w q -> len m = nent m -> occupied_reuse V acts = false ->
  let m' := fst (t_entry_chain w fl V m q acts) in
  len m' = nent m' /\ (is_empty m' = true <-> entries (root m') = []).
Proof.
  intros Hwf Hq Hc Hr m'.
  assert (Hc' : Slots.cinv pfx V m') by
    exact (entry_chain_cinv pfx V _ _ _ _ _ _ _ _ _ (laws w fl Hw) m q acts Hc Hwf Hq Hr).
  split; [exact (cinv_len pfx V _ Hc') | exact (cinv_is_empty pfx V _ Hc')].
Qed.

(** * The same statement about the ARENA-level transcription of the code (Arena*.v; ArenaProps.v
      composes the refinement [Rep] with the tree-level theorem). *)
Theorem C04_arena (Hw : (1 <= w)%N) (am : Arena.amap pfx V) (es : list (pfx * V)) :
  areach_in pfx V (peq w) (contains w fl) (is_bit_set w) plen (lcp w fl) pzero (okp w) (counts2 pfx V) am -> Arena.a_entries pfx V am = Arena.Ok es ->
  Arena.acount am = Z.of_nat (length es).
Proof. exact (arena_C04_count pfx V _ _ _ _ _ _ _ _ _ (laws w fl Hw) am es). Qed.

End C04.

Theorem C04_entry_reuse_refuted :
  exists (m : pmap pfx nat) (q : pfx) (acts : list (eact nat)),
    wfm 8 nat (root m) /\ okp 8 q /\ len m = Z.of_nat (length (entries (root m))) /\
    let m' := fst (t_entry_chain 8 Generic nat m q acts) in
    len m' <> Z.of_nat (length (entries (root m'))).
Proof.
  exists wm, wq, [OccRemove; OccInsert 7%nat].
  destruct entry_chain_refuted as (Hwf & Hq & Hc & _ & _ & _ & _ & He & Hn & _).
  split; [exact Hwf|]. split; [exact Hq|]. split; [exact Hc|].
  cbv zeta. unfold t_entry_chain. fold (w_chain wm wq [OccRemove; OccInsert 7%nat]).
  unfold len. rewrite Hn, He. discriminate.
Qed.

(** sets: [PrefixSet<P>] is [PrefixMap<P, ()>]; [len]/[is_empty] of the set are those of the map *)
Corollary C04_sets (w : N) (fl : flavour) (ops : list (hop unit)) (k : nat) :
  forallb (History.counts pfx unit) ops = true ->
  len (hrun w fl unit (firstn k ops)) = Z.of_nat (length (entries (root (hrun w fl unit (firstn k ops))))) /\
  (is_empty (hrun w fl unit (firstn k ops)) = true <-> entries (root (hrun w fl unit (firstn k ops))) = []).
Proof.
  intros H. split; [apply C04_len_every_step; exact H | apply C04_is_empty_every_step; exact H].
Qed.

(** REFUTED as stated (full alphabet): a valid history after which [len()] differs from the number
    of entries, and one after which [is_empty()] is true on a non-empty map.
    First witness: insert 1000_0000/1, then [remove] through the mutable view at path [true] (the
    right child of the root, i.e. that entry): 0 entries, len() = 1.  Second witness: [set] through
    the mutable view of the value-less root of a new map: 1 entry, len() = 0, is_empty() = true. *)
Theorem C04_view_refuted :
  (exists ops : list (hop nat), Forall (hop_ok 8 nat) ops /\
     len (hrun 8 Generic nat ops) <> Z.of_nat (length (entries (root (hrun 8 Generic nat ops))))) /\
  (exists ops : list (hop nat), Forall (hop_ok 8 nat) ops /\
     is_empty (hrun 8 Generic nat ops) = true /\ entries (root (hrun 8 Generic nat ops)) <> []).
Proof.
  split.
  - exists [OInsert pfx nat (mkpfx 0x80 1) 1%nat; OViewRemove pfx nat [true]].
    split; [repeat constructor|]. vm_compute. discriminate.
  - exists [OViewSet pfx nat [] 7%nat].
    split; [repeat constructor|]. split; [vm_compute; reflexivity | vm_compute; discriminate].
Qed.

(** non-vacuity: a history through every kind of counted operation (insert new / existing /
    value-less leftover, Entry API, OccupiedEntry::remove, remove, remove_keep_tree, retain,
    remove_children), its counter and its entries; and the drift of a history with view operations *)
Example C04_example :
  let ops : list (hop nat) :=
    [OInsert pfx nat (mkpfx 0x80 1) 1%nat; OInsert pfx nat (mkpfx 0xc0 2) 2%nat;
     OInsert pfx nat (mkpfx 0x00 1) 3%nat; ORemoveKeepTree pfx nat (mkpfx 0x80 1);
     OInsert pfx nat (mkpfx 0x80 1) 4%nat; OEntryInsert pfx nat (mkpfx 0xc0 2) 5%nat;
     OOrInsert pfx nat (mkpfx 0x40 2) 6%nat; OOccRemove pfx nat (mkpfx 0x00 1);
     ORemove pfx nat (mkpfx 0xc0 2);
     ORetain pfx nat (fun _ p _ => Some (negb (plen p =? 2)%N));
     OInsert pfx nat (mkpfx 0xa0 3) 7%nat; ORemoveChildren pfx nat (mkpfx 0xa0 3)] in
  forallb (History.counts pfx nat) ops = true /\
  map (fun k => len (hrun 8 Generic nat (firstn k ops))) (seq 0%nat 13%nat) =
    [0; 1; 2; 3; 2; 3; 3; 4; 3; 2; 1; 2; 1]%Z /\
  map (fun k => length (entries (root (hrun 8 Generic nat (firstn k ops))))) (seq 0%nat 13%nat) =
    [0; 1; 2; 3; 2; 3; 3; 4; 3; 2; 1; 2; 1]%nat /\
  let vops : list (hop nat) :=
    [OInsert pfx nat (mkpfx 0x80 1) 1%nat; OViewRemove pfx nat [true]; OViewRemove pfx nat [true];
     OViewSet pfx nat [] 9%nat; OViewSet pfx nat [] 8%nat; OViewSet pfx nat [true] 8%nat] in
  map (fun k => HistoryExtra.drift pfx nat (peq 8) (contains 8 Generic) (is_bit_set 8) plen (lcp 8 Generic) pzero
                  (firstn k vops) (Trie.empty pfx nat pzero) 0) (seq 0%nat 7%nat) = [0; 0; 1; 1; 0; 0; -1]%Z.
Proof. vm_compute. repeat split; reflexivity. Qed.

Print Assumptions C04_iteration_count.
Print Assumptions C04_len_every_step.
Print Assumptions C04_is_empty_every_step.
Print Assumptions C04_len.
Print Assumptions C04_is_empty.
Print Assumptions C04_drift.
Print Assumptions C04_drift_step.
Print Assumptions C04_drift_reset.
Print Assumptions C04_clear_resyncs.
Print Assumptions C04_no_drift.
Print Assumptions C04_sets.
Print Assumptions C04_view_refuted.
Print Assumptions C04_entry_chain.
Print Assumptions C04_entry_reuse_refuted.
Print Assumptions C04_arena.
