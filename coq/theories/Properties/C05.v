(** C05 — Union yields each prefix of either operand once, in order, correctly tagged.

    The operands of the model's [union] / [union_mut] are two SUBTREES [ta : tree pfx L] and
    [tb : tree pfx R]: a view denotes the subtree at its real node ([Views.v_tree]; a virtual root
    addresses the same entries as the node below it).  The theorems quantify over every subtree
    [ta] that is well-formed under SOME bound [ba] and every [tb] well-formed under SOME bound
    [bb], with no relation whatsoever between [ba] and [bb] and between the two trees: equal,
    nested or disjoint roots; stored, value-less branching or virtual roots; the same or two
    different maps; arbitrary shapes (value-less leftover nodes included); two value types.
    ([C05_union_views] restates the main theorem for well-formed views.)

    For every such pair: [union] terminates (the fuel [1 + |ta| + |tb|] suffices) and its output
    has strictly ascending keys (hence every key once); a key occurs iff it is stored in [ta] or
    in [tb]; an item has a left (right) value iff its key is stored in [ta] ([tb]) — i.e. it is
    [Both] iff stored in both, [Left] / [Right] otherwise; it carries the values stored under that
    key, and reports the stored representation of the left entry if there is one, else of the
    right entry.  [union_mut] terminates and yields, item by item, the same prefix with the same
    presence pattern and the same values, together with the slots of exactly those entries.
    (The [right]/[left] annotations of one-sided items are the subject of C08.)
    Proofs: UnionThm.v ([union_correct], [union_mut_mirrors], [union_mut_slots]), SetOpsExtra.v. *)
From Coq Require Import List NArith Sorted.
From PT Require Import Lookup ViewsThm UnionThm SetOpsExtra Arena Arena3 ArenaProps ArenaViews ArenaSetViews.
From PT.Properties Require Import Common.
Import ListNotations.

#[local] Arguments SetOps.ILeft {pfx L R}.
#[local] Arguments SetOps.IRight {pfx L R}.
#[local] Arguments SetOps.IBoth {pfx L R}.

Section C05.
Variables (w : N) (fl : flavour) (L R : Type).
Hypothesis Hw : (1 <= w)%N.
Notation wfL := (wf_under pfx L (kbits w) (okp w)).
Notation wfR := (wf_under pfx R (kbits w) (okp w)).
Notation keyL := (ekey w L).
Notation keyR := (ekey w R).
Notation uitem := (uitem pfx L R).
(** the key of an item: the [len] leading bits of the prefix it reports *)
Notation ikey := (UnionThm.ikey pfx L R (kbits w)).
(** the reported prefix / the left value / the right value of an item
    ([Left p l _ ↦ p, Some l, None], [Right p _ r ↦ p, None, Some r], [Both p l r ↦ p, Some l, Some r]) *)
Notation iprefix := (iprefix pfx L R).
Notation ilval := (ilval pfx L R).
Notation irval := (irval pfx L R).

(** [union] terminates on every pair of well-formed operands. *)
Theorem C05_union_terminates ba bb (ta : tree pfx L) (tb : tree pfx R) :
  wfL ba ta -> wfR bb tb -> exists out, t_union w fl L R ta tb = Some out.
Proof.
  intros Ha Hb. destruct (union_correct pfx L R _ _ _ _ _ _ _ _ _ (laws w fl Hw) ba bb ta tb Ha Hb) as [out [E _]].
  exists out. exact E.
Qed.

(** MAIN STATEMENT.  The output is strictly ascending in the lexicographic order of keys; every
    item is [Both] with the left entry [(p, l)] and a right entry of the same key and value [r],
    or [Left] with an entry of [ta] whose key is not stored in [tb], or [Right] with an entry of
    [tb] whose key is not stored in [ta]; every entry of either operand is represented. *)
Theorem C05_union ba bb (ta : tree pfx L) (tb : tree pfx R) out :
  wfL ba ta -> wfR bb tb -> t_union w fl L R ta tb = Some out ->
  StronglySorted (fun i j => lex_lt (ikey i) (ikey j)) out /\
  (forall it, In it out ->
     match it with
     | IBoth p l r => In (p, l) (entries ta) /\ exists pr, In (pr, r) (entries tb) /\ kbits w pr = kbits w p
     | ILeft p l _ => In (p, l) (entries ta) /\ forall e, In e (entries tb) -> keyR e <> kbits w p
     | IRight p _ r => In (p, r) (entries tb) /\ forall e, In e (entries ta) -> keyL e <> kbits w p
     end) /\
  (forall e, In e (entries ta) -> exists it, In it out /\ ikey it = keyL e) /\
  (forall e, In e (entries tb) -> exists it, In it out /\ ikey it = keyR e).
Proof.
  intros Ha Hb E.
  destruct (union_some pfx L R _ _ _ _ _ _ _ _ _ (laws w fl Hw) ba bb ta tb out Ha Hb E) as (Hs & Hi & Hca & Hcb).
  split; [exact Hs|]. split; [|split; assumption].
  intros it Hit. specialize (Hi it Hit). destruct it as [p l ann|p ann r|p l r].
  - exact (conj (proj1 Hi) (proj1 (proj2 Hi))).
  - exact (conj (proj1 Hi) (proj1 (proj2 Hi))).
  - exact Hi.
Qed.

(** One item per stored key, in order: the key list of the output is strictly ascending, has no
    repetition, and contains exactly the keys stored in at least one operand. *)
Theorem C05_union_keys ba bb (ta : tree pfx L) (tb : tree pfx R) out :
  wfL ba ta -> wfR bb tb -> t_union w fl L R ta tb = Some out ->
  StronglySorted lex_lt (map ikey out) /\ NoDup (map ikey out) /\
  forall k, In k (map ikey out) <-> In k (map keyL (entries ta)) \/ In k (map keyR (entries tb)).
Proof.
  intros Ha Hb E.
  pose proof (union_some pfx L R _ _ _ _ _ _ _ _ _ (laws w fl Hw) ba bb ta tb out Ha Hb E) as U.
  split; [exact (union_keys_sorted pfx L R _ _ _ _ U)|].
  split; [exact (union_keys_nodup pfx L R _ _ _ _ U) | exact (union_keys_iff pfx L R _ _ _ _ U)].
Qed.

(** each key once (named separately: it is [C05_union_keys]'s second clause) *)
Theorem C05_union_once ba bb (ta : tree pfx L) (tb : tree pfx R) out :
  wfL ba ta -> wfR bb tb -> t_union w fl L R ta tb = Some out -> NoDup (map ikey out).
Proof. intros Ha Hb E. exact (proj1 (proj2 (C05_union_keys ba bb ta tb out Ha Hb E))). Qed.

(** The tag: an item carries a left value exactly when its key is stored in [ta], and a right
    value exactly when its key is stored in [tb].  Hence it is [Both] iff the key is stored in
    both operands, [Left] iff in [ta] only, [Right] iff in [tb] only. *)
Theorem C05_union_presence ba bb (ta : tree pfx L) (tb : tree pfx R) out it :
  wfL ba ta -> wfR bb tb -> t_union w fl L R ta tb = Some out -> In it out ->
  (ilval it <> None <-> In (ikey it) (map keyL (entries ta))) /\
  (irval it <> None <-> In (ikey it) (map keyR (entries tb))).
Proof.
  intros Ha Hb E.
  exact (union_presence pfx L R _ _ _ _ (union_some pfx L R _ _ _ _ _ _ _ _ _ (laws w fl Hw) ba bb ta tb out Ha Hb E) it).
Qed.

(** The values: every entry [(p, l)] of [ta] is carried by an item that reports the prefix [p]
    itself and the left value [l]; every entry [(pr, r)] of [tb] is carried by an item of key
    [pr] with right value [r], which reports [pr] itself unless it also has a left value.  (By
    [C05_union_keys] the item of a key is unique, so these are THE items of those keys.) *)
Theorem C05_union_left_entry ba bb (ta : tree pfx L) (tb : tree pfx R) out p l :
  wfL ba ta -> wfR bb tb -> t_union w fl L R ta tb = Some out -> In (p, l) (entries ta) ->
  exists it, In it out /\ iprefix it = p /\ ilval it = Some l.
Proof.
  intros Ha Hb E.
  exact (union_item_left pfx L R _ _ ba ta _ out p l Ha
           (union_some pfx L R _ _ _ _ _ _ _ _ _ (laws w fl Hw) ba bb ta tb out Ha Hb E)).
Qed.

Theorem C05_union_right_entry ba bb (ta : tree pfx L) (tb : tree pfx R) out pr r :
  wfL ba ta -> wfR bb tb -> t_union w fl L R ta tb = Some out -> In (pr, r) (entries tb) ->
  exists it, In it out /\ ikey it = kbits w pr /\ irval it = Some r /\ (ilval it = None -> iprefix it = pr).
Proof.
  intros Ha Hb E.
  exact (union_item_right pfx L R _ _ bb _ tb out pr r Hb
           (union_some pfx L R _ _ _ _ _ _ _ _ _ (laws w fl Hw) ba bb ta tb out Ha Hb E)).
Qed.

(** ... and an item carries nothing else: its left value is stored in [ta] under the reported
    prefix, its right value is stored in [tb] under a prefix of the same key (under the reported
    prefix itself if the item has no left value). *)
Theorem C05_union_item_values ba bb (ta : tree pfx L) (tb : tree pfx R) out it :
  wfL ba ta -> wfR bb tb -> t_union w fl L R ta tb = Some out -> In it out ->
  (forall l, ilval it = Some l -> In (iprefix it, l) (entries ta)) /\
  (forall r, irval it = Some r -> exists pr, In (pr, r) (entries tb) /\ kbits w pr = ikey it) /\
  (forall r, ilval it = None -> irval it = Some r -> In (iprefix it, r) (entries tb)).
Proof.
  intros Ha Hb E.
  exact (union_item_sound pfx L R _ _ _ _ (union_some pfx L R _ _ _ _ _ _ _ _ _ (laws w fl Hw) ba bb ta tb out Ha Hb E) it).
Qed.

(** [union_mut] terminates too and yields, position by position, the same prefix with the same
    presence pattern and the same values as [union] (so everything above holds for it). *)
Theorem C05_union_mut ba bb (ta : tree pfx L) (tb : tree pfx R) :
  wfL ba ta -> wfR bb tb ->
  exists out outm, t_union w fl L R ta tb = Some out /\ t_union_mut w fl L R ta tb = Some outm /\
    map (fun '(p, l, r) => (p, option_map snd l, option_map snd r)) outm =
    map (fun it => (iprefix it, ilval it, irval it)) out.
Proof.
  intros Ha Hb.
  destruct (union_mut_some pfx L R _ _ _ _ _ _ _ _ _ (laws w fl Hw) ba bb ta tb Ha Hb) as (out & outm & E1 & E2 & M).
  exists out, outm. split; [exact E1|]. split; [exact E2|].
  etransitivity; [exact M|]. apply map_ext. intros it. apply projU_parts.
Qed.

(** in particular the same keys in the same order *)
Theorem C05_union_mut_keys ba bb (ta : tree pfx L) (tb : tree pfx R) :
  wfL ba ta -> wfR bb tb ->
  exists out outm, t_union w fl L R ta tb = Some out /\ t_union_mut w fl L R ta tb = Some outm /\
    map (fun it : umitem pfx L R => kbits w (fst (fst it))) outm = map ikey out.
Proof.
  intros Ha Hb.
  destruct (union_mut_some pfx L R _ _ _ _ _ _ _ _ _ (laws w fl Hw) ba bb ta tb Ha Hb) as (out & outm & E1 & E2 & M).
  exists out, outm. split; [exact E1|]. split; [exact E2|]. exact (union_mut_keys pfx L R _ out outm M).
Qed.

(** the mutable references [union_mut] hands out are the slots of exactly those entries
    ([entries_id] lists (slot, prefix, value)); an item with both sides reports the LEFT entry's
    stored prefix, so the right clause is then up to the denoted key *)
Theorem C05_union_mut_slots ba bb (ta : tree pfx L) (tb : tree pfx R) outm :
  wfL ba ta -> wfR bb tb -> t_union_mut w fl L R ta tb = Some outm ->
  forall p l r, In (p, l, r) outm ->
    (forall i x, l = Some (i, x) -> In (i, p, x) (entries_id ta)) /\
    (forall i y, r = Some (i, y) ->
       (l = None -> In (i, p, y) (entries_id tb)) /\
       exists pr, In (i, pr, y) (entries_id tb) /\ kbits w pr = kbits w p).
Proof. exact (union_mut_slots pfx L R _ _ _ _ _ _ _ _ _ (laws w fl Hw) ba bb ta tb outm). Qed.

(** Views.  A well-formed view ([ViewsThm.view_wf]: what [view()], [view_at()], [find()], [left()],
    [right()], [split()] produce from a well-formed map, with a stored, branching or virtual root)
    is an admissible operand: the operand is [v_tree v], its entries are [v_entries v]. *)
Theorem C05_union_views (va : view pfx L) (vb : view pfx R) :
  view_wf pfx L pzero (kbits w) (okp w) va -> view_wf pfx R pzero (kbits w) (okp w) vb ->
  exists out, t_union w fl L R (v_tree va) (v_tree vb) = Some out /\
              union_spec pfx L R (kbits w) (v_entries pfx L va) (v_entries pfx R vb) out.
Proof.
  intros Ha Hb. destruct (view_operand_wf pfx pzero (kbits w) (okp w) va Ha) as [ba Wa].
  destruct (view_operand_wf pfx pzero (kbits w) (okp w) vb Hb) as [bb Wb].
  exact (union_correct pfx L R _ _ _ _ _ _ _ _ _ (laws w fl Hw) ba bb _ _ Wa Wb).
Qed.

(** Reachable states.  For any two histories of public mutating calls (over [L] resp. [R]; running
    the same history twice gives two views of one map) and any two valid [view_at] positions, the
    resulting views are well-formed operands — every reachable state is well-formed (C15,
    [Common.reachable_wfm]) and [view_at] yields well-formed views ([SetOpsExtra.view_at_wf]).
    Views derived from them by [find] / [left] / [right] / [split] are well-formed again
    ([ViewsThm.v_find_spec], [v_side_spec]; C11), so the [view_wf] premise above is always met. *)
Theorem C05_reachable (opsA : list (hop L)) (opsB : list (hop R)) qa qb va vb :
  Forall (hop_ok w L) opsA -> Forall (hop_ok w R) opsB -> okp w qa -> okp w qb ->
  t_view_at w fl L (root (hrun w fl L opsA)) qa = Some va ->
  t_view_at w fl R (root (hrun w fl R opsB)) qb = Some vb ->
  exists out, t_union w fl L R (v_tree va) (v_tree vb) = Some out /\
              union_spec pfx L R (kbits w) (v_entries pfx L va) (v_entries pfx R vb) out.
Proof.
  intros HA HB Hqa Hqb Ea Eb. apply C05_union_views.
  - exact (view_at_wf pfx _ _ _ _ _ _ _ _ _ (laws w fl Hw) _ qa va (reachable_wfm w fl L Hw opsA HA) Hqa Ea).
  - exact (view_at_wf pfx _ _ _ _ _ _ _ _ _ (laws w fl Hw) _ qb vb (reachable_wfm w fl R Hw opsB HB) Hqb Eb).
Qed.

(** * The same statement about the ARENA-level transcription of the code (Arena*.v; ArenaProps.v
      composes the refinement [Rep] with the tree-level theorem). *)
Theorem C05_arena (amL : Arena.amap pfx L) (amR : Arena.amap pfx R) esL esR :
  areach pfx L (peq w) (contains w fl) (is_bit_set w) plen (lcp w fl) pzero (okp w) amL -> areach pfx R (peq w) (contains w fl) (is_bit_set w) plen (lcp w fl) pzero (okp w) amR ->
  Arena.a_entries pfx L amL = Arena.Ok esL -> Arena.a_entries pfx R amR = Arena.Ok esR ->
  exists out outm,
    Arena3.a_union pfx L R (contains w fl) (is_bit_set w) plen (mcmp w) (Arena.tbl amL) (Arena.tbl amR) 0 0 = Arena.Ok out /\
    UnionThm.union_spec pfx L R (kbits w) esL esR out /\
    Arena3.a_union_mut pfx L R (contains w fl) (is_bit_set w) plen (mcmp w) (Arena.tbl amL) (Arena.tbl amR) 0 0 = Arena.Ok outm /\
    map (fun it => (iprefix it, ilval it, irval it)) out
    = map (fun '(p, l, r) => (p, option_map snd l, option_map snd r)) outm.
Proof.
  intros HL HR EL ER.
  destruct (arena_C05_C08_union pfx L R _ _ _ _ _ _ _ _ _ (laws w fl Hw) amL amR esL esR HL HR EL ER)
    as (out & outm & E1 & S & E2 & M).
  exists out, outm. split; [exact E1|]. split; [exact S|]. split; [exact E2|].
  etransitivity; [|exact M]. apply map_ext. intros [p l a|p a r|p l r]; reflexivity.
Qed.

(** * ... and at ANY pair of view locations (ArenaSetViews.v): [lL], [lR] are obtained by any sequence
      of navigation calls (stored, branching and VIRTUAL roots; equal, nested, disjoint positions) on
      two reachable arenas; [esL], [esR] are what the two views' own iterations yield; the arena
      iterators run at the two slots, exactly as the Rust constructors do. *)
Theorem C05_arena_views (amL : Arena.amap pfx L) (amR : Arena.amap pfx R) lL lR esL esR :
  areach pfx L (peq w) (contains w fl) (is_bit_set w) plen (lcp w fl) pzero (okp w) amL -> areach pfx R (peq w) (contains w fl) (is_bit_set w) plen (lcp w fl) pzero (okp w) amR ->
  a_vreach pfx L (peq w) (contains w fl) (is_bit_set w) plen (lcp w fl) (okp w) (Arena.tbl amL) lL ->
  a_vreach pfx R (peq w) (contains w fl) (is_bit_set w) plen (lcp w fl) (okp w) (Arena.tbl amR) lR ->
  a_v_iter pfx L (Arena.tbl amL) lL = Arena.Ok esL -> a_v_iter pfx R (Arena.tbl amR) lR = Arena.Ok esR ->
  exists out outm,
    Arena3.a_union pfx L R (contains w fl) (is_bit_set w) plen (mcmp w) (Arena.tbl amL) (Arena.tbl amR) (Arena3.loc_idx lL) (Arena3.loc_idx lR) = Arena.Ok out /\
    UnionThm.union_spec pfx L R (kbits w) esL esR out /\
    Arena3.a_union_mut pfx L R (contains w fl) (is_bit_set w) plen (mcmp w) (Arena.tbl amL) (Arena.tbl amR) (Arena3.loc_idx lL) (Arena3.loc_idx lR) = Arena.Ok outm /\
    map (fun it => (iprefix it, ilval it, irval it)) out
    = map (fun '(p, l, r) => (p, option_map snd l, option_map snd r)) outm.
Proof.
  intros HL HR VL VR EL ER.
  destruct (arena_views_union pfx L R _ _ _ _ _ _ _ _ _ (laws w fl Hw) amL amR lL lR esL esR HL HR VL VR EL ER)
    as (out & outm & E1 & S & E2 & M).
  exists out, outm. split; [exact E1|]. split; [exact S|]. split; [exact E2|].
  etransitivity; [|exact M]. apply map_ext. intros [p l a|p a r|p l r]; reflexivity.
Qed.

End C05.

(** Non-vacuity (w = 8).  Map A = {00/2 ↦ 1, 01/2 ↦ 2, 1/1 ↦ 3, 110/3 ↦ 4} over [nat] (its node
    0/1 is a value-less branching node), map B = {0/1 ↦ true, 01/2 ↦ false, 11/2 ↦ true,
    111/3 ↦ false} over [bool].  Left operand: the view of A at 0/1 (branching root, entries 00/2
    and 01/2); right operand: the whole map B (root = zero-length prefix): different roots,
    different maps, different value types.  All three tags occur; [union_mut] agrees.
    Second: the VIRTUAL view of A at 11/2 (real node 110/3) against the view of B at 11/2. *)
Definition C05_ins {V} (m : pmap pfx V) (r l : N) (v : V) : pmap pfx V :=
  fst (t_insert 8 Generic V m (mkpfx r l) v).
Definition C05_A : tree pfx nat :=
  root (C05_ins (C05_ins (C05_ins (C05_ins (t_empty nat) 0x00 2 1%nat) 0x40 2 2%nat) 0x80 1 3%nat) 0xC0 3 4%nat).
Definition C05_B : tree pfx bool :=
  root (C05_ins (C05_ins (C05_ins (C05_ins (t_empty bool) 0x00 1 true) 0x40 2 false) 0xC0 2 true) 0xE0 3 false).

Example C05_example :
  t_view_at 8 Generic nat C05_A (mkpfx 0x00 1) =
    Some (VNode (Node 2 (mkpfx 0 1) None (Node 1 (mkpfx 0 2) (Some 1%nat) Leaf Leaf)
                                          (Node 3 (mkpfx 0x40 2) (Some 2%nat) Leaf Leaf))) /\
  (forall va, t_view_at 8 Generic nat C05_A (mkpfx 0x00 1) = Some va ->
     t_union 8 Generic nat bool (v_tree va) C05_B =
       Some [IRight (mkpfx 0x00 1) None true;
             ILeft (mkpfx 0x00 2) 1%nat (Some (mkpfx 0x00 1, true));
             IBoth (mkpfx 0x40 2) 2%nat false;
             IRight (mkpfx 0xC0 2) None true;
             IRight (mkpfx 0xE0 3) None false] /\
     t_union_mut 8 Generic nat bool (v_tree va) C05_B =
       Some [(mkpfx 0x00 1, None, Some (1%N, true));
             (mkpfx 0x00 2, Some (1%N, 1%nat), None);
             (mkpfx 0x40 2, Some (3%N, 2%nat), Some (2%N, false));
             (mkpfx 0xC0 2, None, Some (3%N, true));
             (mkpfx 0xE0 3, None, Some (4%N, false))]) /\
  t_view_at 8 Generic nat C05_A (mkpfx 0xC0 2) =
    Some (VVirt (mkpfx 0xC0 2) (Node 5 (mkpfx 0xC0 3) (Some 4%nat) Leaf Leaf)) /\
  (forall va vb, t_view_at 8 Generic nat C05_A (mkpfx 0xC0 2) = Some va ->
                 t_view_at 8 Generic bool C05_B (mkpfx 0xC0 2) = Some vb ->
     t_union 8 Generic nat bool (v_tree va) (v_tree vb) =
       Some [IRight (mkpfx 0xC0 2) None true;
             ILeft (mkpfx 0xC0 3) 4%nat (Some (mkpfx 0xC0 2, true));
             IRight (mkpfx 0xE0 3) None false]).
Proof.
  split; [vm_compute; reflexivity|]. split.
  { intros va E. vm_compute in E. injection E as <-. split; vm_compute; reflexivity. }
  split; [vm_compute; reflexivity|].
  intros va vb Ea Eb. vm_compute in Ea, Eb. injection Ea as <-. injection Eb as <-. vm_compute. reflexivity.
Qed.

Print Assumptions C05_union_terminates.
Print Assumptions C05_union.
Print Assumptions C05_union_keys.
Print Assumptions C05_union_once.
Print Assumptions C05_union_presence.
Print Assumptions C05_union_left_entry.
Print Assumptions C05_union_right_entry.
Print Assumptions C05_union_item_values.
Print Assumptions C05_union_mut.
Print Assumptions C05_union_mut_keys.
Print Assumptions C05_union_mut_slots.
Print Assumptions C05_union_views.
Print Assumptions C05_reachable.
Print Assumptions C05_arena.
Print Assumptions C05_arena_views.
