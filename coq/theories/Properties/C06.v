(** C06 — Intersection traversal yields exactly the prefixes stored in both operands.

    Operands as in C05: any subtree [ta : tree pfx L] well-formed under SOME bound [ba], any
    subtree [tb : tree pfx R] well-formed under SOME bound [bb], no relation between the two
    (equal / nested / disjoint roots; stored, value-less branching or virtual roots — a view
    denotes the subtree at its real node —; same or different maps; arbitrary shapes incl.
    value-less leftover nodes; two value types).

    For every such pair [intersection] terminates and yields exactly the keys stored in both
    operands, each once, in strictly ascending lexicographic order, each with the value stored
    under that key in [ta] and the value stored under it in [tb] (the reported prefix is the
    representation stored in [ta]).  [intersection_mut] terminates and yields the same triples,
    with the slots of exactly those two entries.  Operands whose bounds (views whose prefixes)
    are ⊑-incomparable — disjoint sub-views — have an empty intersection.
    Proofs: InterDiffThm.v ([intersection_correct], [intersection_disjoint],
    [intersection_mut_mirrors]), SetOpsExtra.v. *)
From Coq Require Import List NArith Sorted.
From PT Require Import Lookup ViewsThm InterDiffThm SetOpsExtra Arena Arena3 ArenaProps ArenaViews ArenaSetViews.
From PT.Properties Require Import Common.
Import ListNotations.

Section C06.
Variables (w : N) (fl : flavour) (L R : Type).
Hypothesis Hw : (1 <= w)%N.
Notation wfL := (wf_under pfx L (kbits w) (okp w)).
Notation wfR := (wf_under pfx R (kbits w) (okp w)).
Notation keyL := (ekey w L).
Notation keyR := (ekey w R).
(** the key of an item [(p, l, r)] *)
Notation ikey := (fun it : pfx * L * R => kbits w (fst (fst it))).

(** [intersection] terminates on every pair of well-formed operands. *)
Theorem C06_intersection_terminates ba bb (ta : tree pfx L) (tb : tree pfx R) :
  wfL ba ta -> wfR bb tb -> exists out, t_intersection w fl L R ta tb = Some out.
Proof.
  intros Ha Hb.
  destruct (intersection_correct pfx L R _ _ _ _ _ _ _ _ _ (laws w fl Hw) ba bb ta tb Ha Hb) as [out [E _]].
  exists out. exact E.
Qed.

(** MAIN STATEMENT.  The output is strictly ascending; every item [(p, l, r)] is the entry
    [(p, l)] of [ta] together with the value [r] stored in [tb] under the same key; and for every
    pair of entries with the same key, the item (left prefix, left value, right value) is yielded. *)
Theorem C06_intersection ba bb (ta : tree pfx L) (tb : tree pfx R) out :
  wfL ba ta -> wfR bb tb -> t_intersection w fl L R ta tb = Some out ->
  StronglySorted (fun i j => lex_lt (ikey i) (ikey j)) out /\
  (forall p l r, In (p, l, r) out ->
     In (p, l) (entries ta) /\ exists pr, In (pr, r) (entries tb) /\ kbits w pr = kbits w p) /\
  (forall ea eb, In ea (entries ta) -> In eb (entries tb) -> keyL ea = keyR eb ->
     In (fst ea, snd ea, snd eb) out).
Proof.
  intros Ha Hb E. exact (inter_some pfx L R _ _ _ _ _ _ _ _ _ (laws w fl Hw) ba bb ta tb out Ha Hb E).
Qed.

(** Each common key once, in order: the key list of the output is strictly ascending, has no
    repetition, and contains exactly the keys stored in both operands. *)
Theorem C06_intersection_keys ba bb (ta : tree pfx L) (tb : tree pfx R) out :
  wfL ba ta -> wfR bb tb -> t_intersection w fl L R ta tb = Some out ->
  StronglySorted lex_lt (map ikey out) /\ NoDup (map ikey out) /\
  forall k, In k (map ikey out) <-> In k (map keyL (entries ta)) /\ In k (map keyR (entries tb)).
Proof.
  intros Ha Hb E.
  pose proof (inter_some pfx L R _ _ _ _ _ _ _ _ _ (laws w fl Hw) ba bb ta tb out Ha Hb E) as I.
  split; [exact (inter_keys_sorted pfx L R _ _ _ _ I)|].
  split; [exact (inter_keys_nodup pfx L R _ _ _ _ I) | exact (inter_keys_iff pfx L R _ _ _ _ I)].
Qed.

(** [intersection_mut] terminates and yields the same (prefix, left value, right value) triples in
    the same order; the references it hands out are the slots of exactly those entries
    ([entries_id] lists (slot, prefix, value); the right one up to the denoted key, since the left
    entry's stored prefix is reported). *)
Theorem C06_intersection_mut ba bb (ta : tree pfx L) (tb : tree pfx R) :
  wfL ba ta -> wfR bb tb ->
  exists out outm, t_intersection w fl L R ta tb = Some out /\ t_intersection_mut w fl L R ta tb = Some outm /\
    map (fun '(p, (_, l), (_, r)) => (p, l, r)) outm = out /\
    (forall p i l j r, In (p, (i, l), (j, r)) outm ->
       In (i, p, l) (entries_id ta) /\ exists pr, In (j, pr, r) (entries_id tb) /\ kbits w pr = kbits w p).
Proof. exact (intersection_mut_some pfx L R _ _ _ _ _ _ _ _ _ (laws w fl Hw) ba bb ta tb). Qed.

(** Disjoint operands: if neither bound covers the other, nothing is yielded. *)
Theorem C06_disjoint ba bb (ta : tree pfx L) (tb : tree pfx R) :
  wfL ba ta -> wfR bb tb -> ~ prefix_of ba bb -> ~ prefix_of bb ba ->
  t_intersection w fl L R ta tb = Some [].
Proof. exact (intersection_disjoint pfx L R _ _ _ _ _ _ _ _ _ (laws w fl Hw) ba bb ta tb). Qed.

(** ... in the words of the property: two well-formed views (of the same map or not) whose
    prefixes are ⊑-incomparable have an empty [intersection] and an empty [intersection_mut]. *)
Theorem C06_disjoint_views (va : view pfx L) (vb : view pfx R) :
  view_wf pfx L pzero (kbits w) (okp w) va -> view_wf pfx R pzero (kbits w) (okp w) vb ->
  ~ prefix_of (kbits w (v_prefix pfx L pzero va)) (kbits w (v_prefix pfx R pzero vb)) ->
  ~ prefix_of (kbits w (v_prefix pfx R pzero vb)) (kbits w (v_prefix pfx L pzero va)) ->
  t_intersection w fl L R (v_tree va) (v_tree vb) = Some [] /\
  t_intersection_mut w fl L R (v_tree va) (v_tree vb) = Some [].
Proof.
  intros Ha Hb N1 N2.
  pose proof (intersection_disjoint_views pfx L R _ _ _ _ _ _ _ _ _ (laws w fl Hw) va vb Ha Hb N1 N2) as E.
  split; [exact E|].
  destruct (view_operand_wf pfx pzero (kbits w) (okp w) va Ha) as [ba Wa].
  destruct (view_operand_wf pfx pzero (kbits w) (okp w) vb Hb) as [bb Wb].
  destruct (intersection_mut_some pfx L R _ _ _ _ _ _ _ _ _ (laws w fl Hw) ba bb _ _ Wa Wb)
    as (out & outm & E1 & E2 & M & _).
  unfold t_intersection in E. rewrite E in E1. injection E1 as <-.
  destruct outm as [|x outm]; [exact E2 | discriminate M].
Qed.

(** Views as operands (cf. [C05_union_views]). *)
Theorem C06_intersection_views (va : view pfx L) (vb : view pfx R) :
  view_wf pfx L pzero (kbits w) (okp w) va -> view_wf pfx R pzero (kbits w) (okp w) vb ->
  exists out, t_intersection w fl L R (v_tree va) (v_tree vb) = Some out /\
              inter_spec pfx L R (kbits w) (v_entries pfx L va) (v_entries pfx R vb) out.
Proof.
  intros Ha Hb. destruct (view_operand_wf pfx pzero (kbits w) (okp w) va Ha) as [ba Wa].
  destruct (view_operand_wf pfx pzero (kbits w) (okp w) vb Hb) as [bb Wb].
  exact (intersection_correct pfx L R _ _ _ _ _ _ _ _ _ (laws w fl Hw) ba bb _ _ Wa Wb).
Qed.

(** Reachable states.  For any two histories of public mutating calls (over [L] resp. [R]; running
    the same history twice gives two views of one map) and any two valid [view_at] positions, the
    resulting views are well-formed operands — every reachable state is well-formed (C15,
    [Common.reachable_wfm]) and [view_at] yields well-formed views ([SetOpsExtra.view_at_wf]).
    Views derived from them by [find] / [left] / [right] / [split] are well-formed again
    ([ViewsThm.v_find_spec], [v_side_spec]; C11), so the [view_wf] premise above is always met. *)
Theorem C06_reachable (opsA : list (hop L)) (opsB : list (hop R)) qa qb va vb :
  Forall (hop_ok w L) opsA -> Forall (hop_ok w R) opsB -> okp w qa -> okp w qb ->
  t_view_at w fl L (root (hrun w fl L opsA)) qa = Some va ->
  t_view_at w fl R (root (hrun w fl R opsB)) qb = Some vb ->
  exists out, t_intersection w fl L R (v_tree va) (v_tree vb) = Some out /\
              inter_spec pfx L R (kbits w) (v_entries pfx L va) (v_entries pfx R vb) out.
Proof.
  intros HA HB Hqa Hqb Ea Eb. apply C06_intersection_views.
  - exact (view_at_wf pfx _ _ _ _ _ _ _ _ _ (laws w fl Hw) _ qa va (reachable_wfm w fl L Hw opsA HA) Hqa Ea).
  - exact (view_at_wf pfx _ _ _ _ _ _ _ _ _ (laws w fl Hw) _ qb vb (reachable_wfm w fl R Hw opsB HB) Hqb Eb).
Qed.

(** * The same statement about the ARENA-level transcription of the code (Arena*.v; ArenaProps.v
      composes the refinement [Rep] with the tree-level theorem): both operands are arenas reachable
      from the empty arena by any history over the whole alphabet; the iterators run at the two roots. *)
Theorem C06_arena (amL : Arena.amap pfx L) (amR : Arena.amap pfx R) esL esR :
  areach pfx L (peq w) (contains w fl) (is_bit_set w) plen (lcp w fl) pzero (okp w) amL -> areach pfx R (peq w) (contains w fl) (is_bit_set w) plen (lcp w fl) pzero (okp w) amR ->
  Arena.a_entries pfx L amL = Arena.Ok esL -> Arena.a_entries pfx R amR = Arena.Ok esR ->
  exists out outm,
    Arena3.a_intersection pfx L R (contains w fl) (is_bit_set w) plen (mcmp w) (Arena.tbl amL) (Arena.tbl amR) 0 0 = Arena.Ok out /\
    InterDiffThm.inter_spec pfx L R (kbits w) esL esR out /\
    Arena3.a_intersection_mut pfx L R (contains w fl) (is_bit_set w) plen (mcmp w) (Arena.tbl amL) (Arena.tbl amR) 0 0 = Arena.Ok outm /\
    out = map (fun '(p, (_, l), (_, r)) => (p, l, r)) outm.
Proof.
  intros HL HR EL ER.
  exact (arena_C06_intersection pfx L R _ _ _ _ _ _ _ _ _ (laws w fl Hw) amL amR esL esR HL HR EL ER).
Qed.

(** * ... and at ANY pair of view locations (ArenaSetViews.v): [lL], [lR] are obtained by any sequence
      of navigation calls (stored, branching and VIRTUAL roots; equal, nested, disjoint positions) on
      two reachable arenas; [esL], [esR] are what the two views' own iterations yield; the arena
      iterators run at the two slots, exactly as the Rust constructors do. *)
Theorem C06_arena_views (amL : Arena.amap pfx L) (amR : Arena.amap pfx R) lL lR esL esR :
  areach pfx L (peq w) (contains w fl) (is_bit_set w) plen (lcp w fl) pzero (okp w) amL -> areach pfx R (peq w) (contains w fl) (is_bit_set w) plen (lcp w fl) pzero (okp w) amR ->
  a_vreach pfx L (peq w) (contains w fl) (is_bit_set w) plen (lcp w fl) (okp w) (Arena.tbl amL) lL ->
  a_vreach pfx R (peq w) (contains w fl) (is_bit_set w) plen (lcp w fl) (okp w) (Arena.tbl amR) lR ->
  a_v_iter pfx L (Arena.tbl amL) lL = Arena.Ok esL -> a_v_iter pfx R (Arena.tbl amR) lR = Arena.Ok esR ->
  exists out outm,
    Arena3.a_intersection pfx L R (contains w fl) (is_bit_set w) plen (mcmp w) (Arena.tbl amL) (Arena.tbl amR) (Arena3.loc_idx lL) (Arena3.loc_idx lR) = Arena.Ok out /\
    InterDiffThm.inter_spec pfx L R (kbits w) esL esR out /\
    Arena3.a_intersection_mut pfx L R (contains w fl) (is_bit_set w) plen (mcmp w) (Arena.tbl amL) (Arena.tbl amR) (Arena3.loc_idx lL) (Arena3.loc_idx lR) = Arena.Ok outm /\
    out = map (fun '(p, (_, l), (_, r)) => (p, l, r)) outm.
Proof. exact (arena_views_intersection pfx L R _ _ _ _ _ _ _ _ _ (laws w fl Hw) amL amR lL lR esL esR). Qed.

End C06.

(** Non-vacuity (w = 8).  Map A = {00/2 ↦ 1, 01/2 ↦ 2, 1/1 ↦ 3, 110/3 ↦ 4} over [nat] (node 0/1
    is a value-less branching node), map B = {0/1 ↦ true, 01/2 ↦ false, 11/2 ↦ true, 111/3 ↦ false}
    over [bool].  The view of A at 0/1 (branching root) against the whole map B: the only common key
    is 01/2.  The whole map A against the view of B at 11/2 (stored root below A's 1/1, above A's
    110/3): no common key although the roots are nested.  The view of A at 0/1 against the view of
    B at 11/2: disjoint roots. *)
Definition C06_ins {V} (m : pmap pfx V) (r l : N) (v : V) : pmap pfx V :=
  fst (t_insert 8 Generic V m (mkpfx r l) v).
Definition C06_A : tree pfx nat :=
  root (C06_ins (C06_ins (C06_ins (C06_ins (t_empty nat) 0x00 2 1%nat) 0x40 2 2%nat) 0x80 1 3%nat) 0xC0 3 4%nat).
Definition C06_B : tree pfx bool :=
  root (C06_ins (C06_ins (C06_ins (C06_ins (t_empty bool) 0x00 1 true) 0x40 2 false) 0xC0 2 true) 0xE0 3 false).

Example C06_example :
  match t_view_at 8 Generic nat C06_A (mkpfx 0x00 1), t_view_at 8 Generic bool C06_B (mkpfx 0xC0 2) with
  | Some va, Some vb =>
    v_tree va = Node 2 (mkpfx 0 1) None (Node 1 (mkpfx 0 2) (Some 1%nat) Leaf Leaf)
                                        (Node 3 (mkpfx 0x40 2) (Some 2%nat) Leaf Leaf) /\
    t_intersection 8 Generic nat bool (v_tree va) C06_B = Some [(mkpfx 0x40 2, 2%nat, false)] /\
    t_intersection_mut 8 Generic nat bool (v_tree va) C06_B =
      Some [(mkpfx 0x40 2, (3%N, 2%nat), (2%N, false))] /\
    t_intersection 8 Generic nat bool C06_A C06_B = Some [(mkpfx 0x40 2, 2%nat, false)] /\
    t_intersection 8 Generic nat bool C06_A (v_tree vb) = Some [] /\
    t_intersection 8 Generic nat bool (v_tree va) (v_tree vb) = Some []
  | _, _ => False
  end.
Proof. vm_compute. repeat split; reflexivity. Qed.

Print Assumptions C06_intersection_terminates.
Print Assumptions C06_intersection.
Print Assumptions C06_intersection_keys.
Print Assumptions C06_intersection_mut.
Print Assumptions C06_disjoint.
Print Assumptions C06_disjoint_views.
Print Assumptions C06_intersection_views.
Print Assumptions C06_reachable.
Print Assumptions C06_arena.
Print Assumptions C06_arena_views.
