(** C07 — Difference and covering difference select exactly the specified left entries.

    Operands as in C05/C06: any subtree [ta : tree pfx L] well-formed under SOME bound [ba] and any
    subtree [tb : tree pfx R] well-formed under SOME bound [bb]; no relation between them is
    assumed ([tb]'s root may lie above, strictly below or beside [ta]'s root, be stored,
    value-less or the node under a virtual view root; [tb] may hold no entry at all, or the
    zero-length prefix; arbitrary shapes incl. value-less leftover nodes; two value types).

    For every such pair:
    - [difference ta tb] terminates and yields exactly the entries of [ta] whose key is not stored
      in [tb] — as a list: [filter (key not stored in tb) (entries ta)], i.e. each selected entry
      once, with [ta]'s stored prefix and value, in ascending lexicographic order;
    - [covering_difference ta tb] terminates and yields exactly
      [filter (no key of tb covers the key; an equal key covers) (entries ta)];
    - [difference_mut] / [covering_difference_mut] terminate and select the same entries (same list
      after dropping the slot), and the slots they hand out are those entries' slots;
    - edge cases: [tb] without entries gives every entry of [ta] (both operations); [tb] storing the
      zero-length prefix gives an empty covering difference; the covering difference is always
      contained in the difference.
    (The [right] annotation of difference items is the subject of C08.)
    Proofs: InterDiffThm.v ([difference_correct], [difference_filter],
    [covering_difference_correct], [*_mut_mirrors]), SetOpsExtra.v. *)
From Coq Require Import List NArith Sorted Bool.
From PT Require Import Lookup ViewsThm InterDiffThm SetOpsExtra Arena Arena3 ArenaProps ArenaViews ArenaSetViews.
From PT.Properties Require Import Common.
Import ListNotations.

Section C07.
Variables (w : N) (fl : flavour) (L R : Type).
Hypothesis Hw : (1 <= w)%N.
Notation wfL := (wf_under pfx L (kbits w) (okp w)).
Notation wfR := (wf_under pfx R (kbits w) (okp w)).
Notation keyL := (ekey w L).
Notation keyR := (ekey w R).
(** [key_absent B e = true] iff no entry of [B] has the key of [e];
    [uncovered B e = true] iff no entry of [B] has a key that is a prefix of (or equal to) the key of [e] *)
Notation key_absent := (key_absent pfx L R (kbits w)).
Notation uncovered := (uncovered pfx L R (kbits w)).

Theorem C07_key_absent_spec (B : list (pfx * R)) (e : pfx * L) :
  key_absent B e = true <-> forall e', In e' B -> keyR e' <> keyL e.
Proof. exact (key_absent_spec pfx L R (kbits w) B e). Qed.

Theorem C07_uncovered_spec (B : list (pfx * R)) (e : pfx * L) :
  uncovered B e = true <-> forall e', In e' B -> ~ prefix_of (keyR e') (keyL e).
Proof. exact (uncovered_spec pfx L R (kbits w) B e). Qed.

(** ** difference *)

Theorem C07_difference_terminates ba bb (ta : tree pfx L) (tb : tree pfx R) :
  wfL ba ta -> wfR bb tb -> exists out, t_difference w fl L R ta tb = Some out.
Proof.
  intros Ha Hb.
  destruct (difference_correct pfx L R _ _ _ _ _ _ _ _ _ (laws w fl Hw) ba bb ta tb Ha Hb) as [out [E _]].
  exists out. exact E.
Qed.

(** MAIN STATEMENT (difference): the (prefix, value) pairs yielded are, in this order, the entries
    of [ta] whose key is not stored in [tb].  [entries ta] is strictly ascending and repetition-free
    ([TrieWf.entries_sorted]), hence so is the output. *)
Theorem C07_difference ba bb (ta : tree pfx L) (tb : tree pfx R) out :
  wfL ba ta -> wfR bb tb -> t_difference w fl L R ta tb = Some out ->
  map fst out = filter (key_absent (entries tb)) (entries ta).
Proof. exact (diff_filter pfx L R _ _ _ _ _ _ _ _ _ (laws w fl Hw) ba bb ta tb out). Qed.

(** the same as membership + order: an entry is yielded iff it is an entry of [ta] whose key is
    not stored in [tb]; keys strictly ascending, none twice *)
Theorem C07_difference_members ba bb (ta : tree pfx L) (tb : tree pfx R) out :
  wfL ba ta -> wfR bb tb -> t_difference w fl L R ta tb = Some out ->
  (forall e, In e (map fst out) <-> In e (entries ta) /\ forall e', In e' (entries tb) -> keyR e' <> keyL e) /\
  StronglySorted lex_lt (map (fun it : ditem pfx L R => kbits w (fst (fst it))) out) /\
  NoDup (map (fun it : ditem pfx L R => kbits w (fst (fst it))) out).
Proof.
  intros Ha Hb E.
  pose proof (diff_some pfx L R _ _ _ _ _ _ _ _ _ (laws w fl Hw) ba bb ta tb out Ha Hb E) as D.
  split; [exact (diff_in_iff pfx L R _ _ _ _ D)|].
  split; [exact (diff_keys_sorted pfx L R _ _ _ _ D) | exact (diff_keys_nodup pfx L R _ _ _ _ D)].
Qed.

(** [difference_mut] terminates and yields the same (prefix, value, match) triples in the same
    order; the references are the slots of exactly those entries of [ta] *)
Theorem C07_difference_mut ba bb (ta : tree pfx L) (tb : tree pfx R) :
  wfL ba ta -> wfR bb tb ->
  exists out outm, t_difference w fl L R ta tb = Some out /\ t_difference_mut w fl L R ta tb = Some outm /\
    map (fun '(p, (_, l), ann) => (p, l, ann)) outm = out /\
    (forall p i l ann, In (p, (i, l), ann) outm -> In (i, p, l) (entries_id ta)).
Proof. exact (difference_mut_some pfx L R _ _ _ _ _ _ _ _ _ (laws w fl Hw) ba bb ta tb). Qed.

(** ** covering difference *)

Theorem C07_covering_difference_terminates ba bb (ta : tree pfx L) (tb : tree pfx R) :
  wfL ba ta -> wfR bb tb -> exists out, t_covering_difference w fl L R ta tb = Some out.
Proof.
  intros Ha Hb.
  destruct (covering_difference_correct pfx L R _ _ _ _ _ _ _ _ _ (laws w fl Hw) ba bb ta tb Ha Hb) as [out [E _]].
  exists out. exact E.
Qed.

(** MAIN STATEMENT (covering difference): the output is, in this order, the entries of [ta] whose
    key is not covered by any key stored in [tb] (an equal key covers). *)
Theorem C07_covering_difference ba bb (ta : tree pfx L) (tb : tree pfx R) out :
  wfL ba ta -> wfR bb tb -> t_covering_difference w fl L R ta tb = Some out ->
  out = filter (uncovered (entries tb)) (entries ta).
Proof.
  intros Ha Hb E.
  exact (cdiff_filter pfx L R _ _ ba ta _ out Ha
           (cdiff_some pfx L R _ _ _ _ _ _ _ _ _ (laws w fl Hw) ba bb ta tb out Ha Hb E)).
Qed.

Theorem C07_covering_difference_members ba bb (ta : tree pfx L) (tb : tree pfx R) out :
  wfL ba ta -> wfR bb tb -> t_covering_difference w fl L R ta tb = Some out ->
  (forall e, In e out <->
             In e (entries ta) /\ forall e', In e' (entries tb) -> ~ prefix_of (keyR e') (keyL e)) /\
  StronglySorted (fun i j => lex_lt (keyL i) (keyL j)) out /\ NoDup (map keyL out).
Proof.
  intros Ha Hb E.
  pose proof (cdiff_some pfx L R _ _ _ _ _ _ _ _ _ (laws w fl Hw) ba bb ta tb out Ha Hb E) as C.
  split; [exact (proj2 C)|]. split; [exact (proj1 C) | exact (cdiff_keys_nodup pfx L R _ _ _ _ C)].
Qed.

Theorem C07_covering_difference_mut ba bb (ta : tree pfx L) (tb : tree pfx R) :
  wfL ba ta -> wfR bb tb ->
  exists out outm, t_covering_difference w fl L R ta tb = Some out /\
    t_covering_difference_mut w fl L R ta tb = Some outm /\
    map (fun '(p, (_, l)) => (p, l)) outm = out /\
    (forall p i l, In (p, (i, l)) outm -> In (i, p, l) (entries_id ta)).
Proof. exact (covering_difference_mut_some pfx L R _ _ _ _ _ _ _ _ _ (laws w fl Hw) ba bb ta tb). Qed.

(** ** edge cases named by the property *)

(** [b] empty (no stored entry — e.g. a fresh map, or a sub-view made of value-less nodes only):
    both operations yield every entry of [a]; all [right] annotations are [None] *)
Theorem C07_right_empty ba bb (ta : tree pfx L) (tb : tree pfx R) outd outc :
  wfL ba ta -> wfR bb tb -> entries tb = [] ->
  t_difference w fl L R ta tb = Some outd -> t_covering_difference w fl L R ta tb = Some outc ->
  map fst outd = entries ta /\ (forall it, In it outd -> snd it = None) /\ outc = entries ta.
Proof.
  intros Ha Hb Eb Ed Ec.
  destruct (diff_right_empty pfx L R _ _ _ _ _ _ _ _ _ (laws w fl Hw) ba bb ta tb outd Ha Hb Eb Ed) as [H1 H2].
  split; [exact H1|]. split; [exact H2|].
  pose proof (cdiff_some pfx L R _ _ _ _ _ _ _ _ _ (laws w fl Hw) ba bb ta tb outc Ha Hb Ec) as C.
  rewrite Eb in C. exact (cdiff_right_empty pfx L R _ _ ba ta outc Ha C).
Qed.

(** [b] holding the zero-length prefix: it covers everything, the covering difference is empty *)
Theorem C07_right_zero ba bb (ta : tree pfx L) (tb : tree pfx R) out :
  wfL ba ta -> wfR bb tb -> (exists e, In e (entries tb) /\ keyR e = []) ->
  t_covering_difference w fl L R ta tb = Some out -> out = [].
Proof.
  intros Ha Hb Hz E.
  exact (cdiff_right_zero pfx L R _ _ _ _
           (cdiff_some pfx L R _ _ _ _ _ _ _ _ _ (laws w fl Hw) ba bb ta tb out Ha Hb E) Hz).
Qed.

(** every entry of the covering difference is an entry of the difference *)
Theorem C07_covering_sub_difference ba bb (ta : tree pfx L) (tb : tree pfx R) outd outc e :
  wfL ba ta -> wfR bb tb ->
  t_difference w fl L R ta tb = Some outd -> t_covering_difference w fl L R ta tb = Some outc ->
  In e outc -> In e (map fst outd).
Proof.
  intros Ha Hb Ed Ec.
  exact (cdiff_sub_diff pfx L R _ _ _ _ _ e
           (cdiff_some pfx L R _ _ _ _ _ _ _ _ _ (laws w fl Hw) ba bb ta tb outc Ha Hb Ec)
           (diff_some pfx L R _ _ _ _ _ _ _ _ _ (laws w fl Hw) ba bb ta tb outd Ha Hb Ed)).
Qed.

(** Views as operands (cf. [C05_union_views]). *)
Theorem C07_views (va : view pfx L) (vb : view pfx R) :
  view_wf pfx L pzero (kbits w) (okp w) va -> view_wf pfx R pzero (kbits w) (okp w) vb ->
  exists outd outc,
    t_difference w fl L R (v_tree va) (v_tree vb) = Some outd /\
    map fst outd = filter (key_absent (v_entries pfx R vb)) (v_entries pfx L va) /\
    t_covering_difference w fl L R (v_tree va) (v_tree vb) = Some outc /\
    outc = filter (uncovered (v_entries pfx R vb)) (v_entries pfx L va).
Proof.
  intros Ha Hb. destruct (view_operand_wf pfx pzero (kbits w) (okp w) va Ha) as [ba Wa].
  destruct (view_operand_wf pfx pzero (kbits w) (okp w) vb Hb) as [bb Wb].
  destruct (C07_difference_terminates ba bb _ _ Wa Wb) as [outd Ed].
  destruct (C07_covering_difference_terminates ba bb _ _ Wa Wb) as [outc Ec].
  exists outd, outc. split; [exact Ed|]. split; [exact (C07_difference ba bb _ _ outd Wa Wb Ed)|].
  split; [exact Ec | exact (C07_covering_difference ba bb _ _ outc Wa Wb Ec)].
Qed.

(** Reachable states.  For any two histories of public mutating calls (over [L] resp. [R]; running
    the same history twice gives two views of one map) and any two valid [view_at] positions, the
    resulting views are well-formed operands — every reachable state is well-formed (C15,
    [Common.reachable_wfm]) and [view_at] yields well-formed views ([SetOpsExtra.view_at_wf]).
    Views derived from them by [find] / [left] / [right] / [split] are well-formed again
    ([ViewsThm.v_find_spec], [v_side_spec]; C11), so the [view_wf] premise above is always met. *)
Theorem C07_reachable (opsA : list (hop L)) (opsB : list (hop R)) qa qb va vb :
  Forall (hop_ok w L) opsA -> Forall (hop_ok w R) opsB -> okp w qa -> okp w qb ->
  t_view_at w fl L (root (hrun w fl L opsA)) qa = Some va ->
  t_view_at w fl R (root (hrun w fl R opsB)) qb = Some vb ->
  exists outd outc,
    t_difference w fl L R (v_tree va) (v_tree vb) = Some outd /\
    map fst outd = filter (key_absent (v_entries pfx R vb)) (v_entries pfx L va) /\
    t_covering_difference w fl L R (v_tree va) (v_tree vb) = Some outc /\
    outc = filter (uncovered (v_entries pfx R vb)) (v_entries pfx L va).
Proof.
  intros HA HB Hqa Hqb Ea Eb. apply C07_views.
  - exact (view_at_wf pfx _ _ _ _ _ _ _ _ _ (laws w fl Hw) _ qa va (reachable_wfm w fl L Hw opsA HA) Hqa Ea).
  - exact (view_at_wf pfx _ _ _ _ _ _ _ _ _ (laws w fl Hw) _ qb vb (reachable_wfm w fl R Hw opsB HB) Hqb Eb).
Qed.

(** * The same statement about the ARENA-level transcription of the code (Arena*.v; ArenaProps.v
      composes the refinement [Rep] with the tree-level theorem): both operands are arenas reachable
      from the empty arena by any history over the whole alphabet; the iterators run at the two roots. *)
Theorem C07_arena_difference (amL : Arena.amap pfx L) (amR : Arena.amap pfx R) esL esR :
  areach pfx L (peq w) (contains w fl) (is_bit_set w) plen (lcp w fl) pzero (okp w) amL -> areach pfx R (peq w) (contains w fl) (is_bit_set w) plen (lcp w fl) pzero (okp w) amR ->
  Arena.a_entries pfx L amL = Arena.Ok esL -> Arena.a_entries pfx R amR = Arena.Ok esR ->
  exists out outm,
    Arena3.a_difference pfx L R (contains w fl) (is_bit_set w) plen (mcmp w) (Arena.tbl amL) (Arena.tbl amR) 0 0 = Arena.Ok out /\
    InterDiffThm.diff_spec pfx L R (kbits w) esL esR out /\
    map fst out = filter (fun e => negb (existsb (fun e' => Bits.beq (kbits w (fst e')) (kbits w (fst e))) esR)) esL /\
    Arena3.a_difference_mut pfx L R (contains w fl) (is_bit_set w) plen (mcmp w) (Arena.tbl amL) (Arena.tbl amR) 0 0 = Arena.Ok outm /\
    out = map (fun '(p, (_, l), ann) => (p, l, ann)) outm.
Proof.
  intros HL HR EL ER.
  exact (arena_C07_C08_difference pfx L R _ _ _ _ _ _ _ _ _ (laws w fl Hw) amL amR esL esR HL HR EL ER).
Qed.

Theorem C07_arena_covering_difference (amL : Arena.amap pfx L) (amR : Arena.amap pfx R) esL esR :
  areach pfx L (peq w) (contains w fl) (is_bit_set w) plen (lcp w fl) pzero (okp w) amL -> areach pfx R (peq w) (contains w fl) (is_bit_set w) plen (lcp w fl) pzero (okp w) amR ->
  Arena.a_entries pfx L amL = Arena.Ok esL -> Arena.a_entries pfx R amR = Arena.Ok esR ->
  exists out outm,
    Arena3.a_covering_difference pfx L R (contains w fl) (is_bit_set w) plen (mcmp w) (Arena.tbl amL) (Arena.tbl amR) 0 0 = Arena.Ok out /\
    InterDiffThm.cdiff_spec pfx L R (kbits w) esL esR out /\
    Arena3.a_covering_difference_mut pfx L R (contains w fl) (is_bit_set w) plen (mcmp w) (Arena.tbl amL) (Arena.tbl amR) 0 0 = Arena.Ok outm /\
    out = map (fun '(p, (_, l)) => (p, l)) outm.
Proof.
  intros HL HR EL ER.
  exact (arena_C07_covering_difference pfx L R _ _ _ _ _ _ _ _ _ (laws w fl Hw) amL amR esL esR HL HR EL ER).
Qed.

(** * ... and at ANY pair of view locations (ArenaSetViews.v): [lL], [lR] are obtained by any sequence
      of navigation calls (stored, branching and VIRTUAL roots; equal, nested, disjoint positions) on
      two reachable arenas; [esL], [esR] are what the two views' own iterations yield; the arena
      iterators run at the two slots, exactly as the Rust constructors do. *)
Theorem C07_arena_views_difference (amL : Arena.amap pfx L) (amR : Arena.amap pfx R) lL lR esL esR :
  areach pfx L (peq w) (contains w fl) (is_bit_set w) plen (lcp w fl) pzero (okp w) amL -> areach pfx R (peq w) (contains w fl) (is_bit_set w) plen (lcp w fl) pzero (okp w) amR ->
  a_vreach pfx L (peq w) (contains w fl) (is_bit_set w) plen (lcp w fl) (okp w) (Arena.tbl amL) lL ->
  a_vreach pfx R (peq w) (contains w fl) (is_bit_set w) plen (lcp w fl) (okp w) (Arena.tbl amR) lR ->
  a_v_iter pfx L (Arena.tbl amL) lL = Arena.Ok esL -> a_v_iter pfx R (Arena.tbl amR) lR = Arena.Ok esR ->
  exists out outm,
    Arena3.a_difference pfx L R (contains w fl) (is_bit_set w) plen (mcmp w) (Arena.tbl amL) (Arena.tbl amR) (Arena3.loc_idx lL) (Arena3.loc_idx lR) = Arena.Ok out /\
    InterDiffThm.diff_spec pfx L R (kbits w) esL esR out /\
    map fst out = filter (fun e => negb (existsb (fun e' => Bits.beq (kbits w (fst e')) (kbits w (fst e))) esR)) esL /\
    Arena3.a_difference_mut pfx L R (contains w fl) (is_bit_set w) plen (mcmp w) (Arena.tbl amL) (Arena.tbl amR) (Arena3.loc_idx lL) (Arena3.loc_idx lR) = Arena.Ok outm /\
    out = map (fun '(p, (_, l), ann) => (p, l, ann)) outm.
Proof. exact (arena_views_difference pfx L R _ _ _ _ _ _ _ _ _ (laws w fl Hw) amL amR lL lR esL esR). Qed.

Theorem C07_arena_views_covering_difference (amL : Arena.amap pfx L) (amR : Arena.amap pfx R) lL lR esL esR :
  areach pfx L (peq w) (contains w fl) (is_bit_set w) plen (lcp w fl) pzero (okp w) amL -> areach pfx R (peq w) (contains w fl) (is_bit_set w) plen (lcp w fl) pzero (okp w) amR ->
  a_vreach pfx L (peq w) (contains w fl) (is_bit_set w) plen (lcp w fl) (okp w) (Arena.tbl amL) lL ->
  a_vreach pfx R (peq w) (contains w fl) (is_bit_set w) plen (lcp w fl) (okp w) (Arena.tbl amR) lR ->
  a_v_iter pfx L (Arena.tbl amL) lL = Arena.Ok esL -> a_v_iter pfx R (Arena.tbl amR) lR = Arena.Ok esR ->
  exists out outm,
    Arena3.a_covering_difference pfx L R (contains w fl) (is_bit_set w) plen (mcmp w) (Arena.tbl amL) (Arena.tbl amR) (Arena3.loc_idx lL) (Arena3.loc_idx lR) = Arena.Ok out /\
    InterDiffThm.cdiff_spec pfx L R (kbits w) esL esR out /\
    Arena3.a_covering_difference_mut pfx L R (contains w fl) (is_bit_set w) plen (mcmp w) (Arena.tbl amL) (Arena.tbl amR) (Arena3.loc_idx lL) (Arena3.loc_idx lR) = Arena.Ok outm /\
    out = map (fun '(p, (_, l)) => (p, l)) outm.
Proof. exact (arena_views_covering_difference pfx L R _ _ _ _ _ _ _ _ _ (laws w fl Hw) amL amR lL lR esL esR). Qed.

End C07.

(** Non-vacuity (w = 8).  Map A = {00/2 ↦ 1, 01/2 ↦ 2, 1/1 ↦ 3, 110/3 ↦ 4} over [nat] (node 0/1
    is a value-less branching node), map B = {0/1 ↦ true, 01/2 ↦ false, 11/2 ↦ true, 111/3 ↦ false}
    over [bool].
    (1) whole A minus the view of B at 11/2 (b's root strictly below a's root, beside a's 0-side):
        difference keeps all four entries (110/3 annotated with its match 11/2); the covering
        difference drops 110/3, which 11/2 covers.
    (2) the view of A at 0/1 (value-less branching root) minus whole B (b's root above a's):
        01/2 is stored in B, 00/2 is covered by B's 0/1.
    (3) b empty; (4) b holding the zero-length prefix. *)
Definition C07_ins {V} (m : pmap pfx V) (r l : N) (v : V) : pmap pfx V :=
  fst (t_insert 8 Generic V m (mkpfx r l) v).
Definition C07_A : tree pfx nat :=
  root (C07_ins (C07_ins (C07_ins (C07_ins (t_empty nat) 0x00 2 1%nat) 0x40 2 2%nat) 0x80 1 3%nat) 0xC0 3 4%nat).
Definition C07_B : tree pfx bool :=
  root (C07_ins (C07_ins (C07_ins (C07_ins (t_empty bool) 0x00 1 true) 0x40 2 false) 0xC0 2 true) 0xE0 3 false).

Example C07_example :
  match t_view_at 8 Generic nat C07_A (mkpfx 0x00 1), t_view_at 8 Generic bool C07_B (mkpfx 0xC0 2) with
  | Some va, Some vb =>
    v_tree vb = Node 3 (mkpfx 0xC0 2) (Some true) Leaf (Node 4 (mkpfx 0xE0 3) (Some false) Leaf Leaf) /\
    t_difference 8 Generic nat bool C07_A (v_tree vb) =
      Some [(mkpfx 0x00 2, 1%nat, None); (mkpfx 0x40 2, 2%nat, None); (mkpfx 0x80 1, 3%nat, None);
            (mkpfx 0xC0 3, 4%nat, Some (mkpfx 0xC0 2, true))] /\
    t_covering_difference 8 Generic nat bool C07_A (v_tree vb) =
      Some [(mkpfx 0x00 2, 1%nat); (mkpfx 0x40 2, 2%nat); (mkpfx 0x80 1, 3%nat)] /\
    t_covering_difference_mut 8 Generic nat bool C07_A (v_tree vb) =
      Some [(mkpfx 0x00 2, (1%N, 1%nat)); (mkpfx 0x40 2, (3%N, 2%nat)); (mkpfx 0x80 1, (4%N, 3%nat))] /\
    t_difference 8 Generic nat bool (v_tree va) C07_B =
      Some [(mkpfx 0x00 2, 1%nat, Some (mkpfx 0x00 1, true))] /\
    t_difference_mut 8 Generic nat bool (v_tree va) C07_B =
      Some [(mkpfx 0x00 2, (1%N, 1%nat), Some (mkpfx 0x00 1, true))] /\
    t_covering_difference 8 Generic nat bool (v_tree va) C07_B = Some [] /\
    t_covering_difference 8 Generic nat bool C07_A (root (t_empty bool)) = Some (entries C07_A) /\
    t_covering_difference 8 Generic nat bool C07_A (root (C07_ins (t_empty bool) 0 0 true)) = Some []
  | _, _ => False
  end.
Proof. vm_compute. repeat split; reflexivity. Qed.

Print Assumptions C07_key_absent_spec.
Print Assumptions C07_uncovered_spec.
Print Assumptions C07_difference_terminates.
Print Assumptions C07_difference.
Print Assumptions C07_difference_members.
Print Assumptions C07_difference_mut.
Print Assumptions C07_covering_difference_terminates.
Print Assumptions C07_covering_difference.
Print Assumptions C07_covering_difference_members.
Print Assumptions C07_covering_difference_mut.
Print Assumptions C07_right_empty.
Print Assumptions C07_right_zero.
Print Assumptions C07_covering_sub_difference.
Print Assumptions C07_views.
Print Assumptions C07_reachable.
Print Assumptions C07_arena_difference.
Print Assumptions C07_arena_covering_difference.
Print Assumptions C07_arena_views_difference.
Print Assumptions C07_arena_views_covering_difference.
