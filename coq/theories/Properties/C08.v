(** C08 — LPM annotations of union / difference items are true LPMs in the other view.

    Operands as in C05–C07: any subtree [ta : tree pfx L] well-formed under SOME bound [ba], any
    subtree [tb : tree pfx R] well-formed under SOME bound [bb], NO relation assumed between the
    two roots (equal, nested, disjoint; stored, value-less branching, or the node under a virtual
    view root; same or different maps; arbitrary shapes).  "The other view's entries" are
    [entries tb] (resp. [entries ta]) — the entries of THAT VIEW, not of the map it was cut from.

    - every [Left p l ann] item of [union ta tb] has [ann] = the longest-prefix match of [p] among
      [entries tb], with its value: [Some e] means [e] is an entry of [tb] whose key covers the key
      of [p] and no entry of [tb] covering it has a longer key; [None] means no entry of [tb] covers;
      symmetrically for the [left] field of [Right] items against [entries ta];
    - the same for the [right] field of EVERY [difference] and [difference_mut] item;
    - hence: [None] exactly when the other view stores no covering prefix; a reported match is a
      stored entry of the other view and covers the item's key; the annotation is uniquely
      determined by the other view's entries, and equals [get_lpm T p] on every well-formed whole map
      [T] whose entry list is the other view's entry list (a direct longest-prefix query).
    Proofs: UnionThm.v ([union_correct]), InterDiffThm.v ([difference_correct],
    [difference_mut_mirrors]), Lookup.v ([get_lpm_spec], [is_lpm_unique]), SetOpsExtra.v. *)
From Coq Require Import List NArith Sorted.
From PT Require Import Lookup ViewsThm UnionThm InterDiffThm SetOpsExtra Arena Arena3 ArenaProps ArenaViews ArenaSetViews.
From PT.Properties Require Import Common.
Import ListNotations.

#[local] Arguments SetOps.ILeft {pfx L R}.
#[local] Arguments SetOps.IRight {pfx L R}.
#[local] Arguments SetOps.IBoth {pfx L R}.

Section C08.
Variables (w : N) (fl : flavour) (L R : Type).
Hypothesis Hw : (1 <= w)%N.
Notation wfL := (wf_under pfx L (kbits w) (okp w)).
Notation wfR := (wf_under pfx R (kbits w) (okp w)).

(** [is_lpm es q e]: [e ∈ es], the key of [e] covers the key of [q], and every [e' ∈ es] whose key
    covers the key of [q] has a key no longer than that of [e].
    [no_cover es q]: no [e ∈ es] has a key covering the key of [q].  (Lookup.v; the same
    predicates specify [get_lpm] in C02.) *)
Notation is_lpm T := (Lookup.is_lpm pfx T (kbits w)).
Notation no_cover T := (Lookup.no_cover pfx T (kbits w)).
(** "[ann] is the longest-prefix match of [p] among [es]" *)
Definition lpm_of {T} (es : list (pfx * T)) (p : pfx) (ann : option (pfx * T)) : Prop :=
  match ann with
  | Some e => is_lpm T es p e
  | None => no_cover T es p
  end.

(** ** union *)

(** a [Left] item reports the longest-prefix match of its prefix among the entries of the right
    operand *)
Theorem C08_union_left ba bb (ta : tree pfx L) (tb : tree pfx R) out p l ann :
  wfL ba ta -> wfR bb tb -> t_union w fl L R ta tb = Some out -> In (ILeft p l ann) out ->
  lpm_of (entries tb) p ann.
Proof.
  intros Ha Hb E.
  exact (union_ann_left pfx L R _ _ _ out p l ann
           (union_some pfx L R _ _ _ _ _ _ _ _ _ (laws w fl Hw) ba bb ta tb out Ha Hb E)).
Qed.

(** a [Right] item reports the longest-prefix match of its prefix among the entries of the left
    operand *)
Theorem C08_union_right ba bb (ta : tree pfx L) (tb : tree pfx R) out p ann r :
  wfL ba ta -> wfR bb tb -> t_union w fl L R ta tb = Some out -> In (IRight p ann r) out ->
  lpm_of (entries ta) p ann.
Proof.
  intros Ha Hb E.
  exact (union_ann_right pfx L R _ _ _ out p ann r
           (union_some pfx L R _ _ _ _ _ _ _ _ _ (laws w fl Hw) ba bb ta tb out Ha Hb E)).
Qed.

(** ** difference and difference_mut *)

Theorem C08_difference ba bb (ta : tree pfx L) (tb : tree pfx R) out p l ann :
  wfL ba ta -> wfR bb tb -> t_difference w fl L R ta tb = Some out -> In (p, l, ann) out ->
  lpm_of (entries tb) p ann.
Proof.
  intros Ha Hb E.
  exact (diff_ann pfx L R _ _ _ _
           (diff_some pfx L R _ _ _ _ _ _ _ _ _ (laws w fl Hw) ba bb ta tb out Ha Hb E) p l ann).
Qed.

Theorem C08_difference_mut ba bb (ta : tree pfx L) (tb : tree pfx R) outm p i l ann :
  wfL ba ta -> wfR bb tb -> t_difference_mut w fl L R ta tb = Some outm -> In (p, (i, l), ann) outm ->
  lpm_of (entries tb) p ann.
Proof.
  intros Ha Hb E Hit.
  exact (proj2 (proj2 (difference_mut_ann pfx L R _ _ _ _ _ _ _ _ _ (laws w fl Hw) ba bb ta tb outm p i l ann Ha Hb E Hit))).
Qed.

(** ** what "longest-prefix match" entails (for any entry list [es] of a well-formed subtree) *)

(** [None] exactly when the other view stores no covering prefix *)
Theorem C08_none_iff {T} (es : list (pfx * T)) p ann :
  lpm_of es p ann -> (ann = None <-> forall e, In e es -> ~ prefix_of (kbits w (fst e)) (kbits w p)).
Proof. exact (lpm_ann_none_iff pfx (kbits w) T es p ann). Qed.

(** a reported match is an entry of the other view (prefix AND value), covers the item's key, and
    is the longest such *)
Theorem C08_some_covers {T} (es : list (pfx * T)) p e :
  lpm_of es p (Some e) ->
  In e es /\ prefix_of (kbits w (fst e)) (kbits w p) /\
  forall e', In e' es -> prefix_of (kbits w (fst e')) (kbits w p) ->
             (length (kbits w (fst e')) <= length (kbits w (fst e)))%nat.
Proof. exact (lpm_ann_some pfx (kbits w) T es p e). Qed.

(** the annotation is determined by the other view's entries *)
Theorem C08_unique {T} b (t : tree pfx T) p a1 a2 :
  wf_under pfx T (kbits w) (okp w) b t -> lpm_of (entries t) p a1 -> lpm_of (entries t) p a2 -> a1 = a2.
Proof. exact (lpm_ann_unique pfx (kbits w) (okp w) T b t p a1 a2). Qed.

(** ** agreement with a direct longest-prefix query *)

(** For every well-formed whole map [T] whose entry list is exactly the other view's entry list,
    the annotation is literally what [get_lpm T] answers for the item's prefix. *)
Theorem C08_union_left_get_lpm ba bb (ta : tree pfx L) (tb : tree pfx R) out p l ann (T : tree pfx R) :
  wfL ba ta -> wfR bb tb -> t_union w fl L R ta tb = Some out -> In (ILeft p l ann) out ->
  wfm w R T -> entries T = entries tb -> t_get_lpm w fl R T p = ann.
Proof.
  intros Ha Hb E Hit HT ET.
  pose proof (union_some pfx L R _ _ _ _ _ _ _ _ _ (laws w fl Hw) ba bb ta tb out Ha Hb E) as U.
  exact (lpm_ann_get_lpm pfx _ _ _ _ _ _ _ _ _ (laws w fl Hw) R T _ p ann HT ET
           (union_left_ok pfx L R _ _ ba ta _ out p l ann Ha U Hit)
           (union_ann_left pfx L R _ _ _ out p l ann U Hit)).
Qed.

Theorem C08_union_right_get_lpm ba bb (ta : tree pfx L) (tb : tree pfx R) out p ann r (T : tree pfx L) :
  wfL ba ta -> wfR bb tb -> t_union w fl L R ta tb = Some out -> In (IRight p ann r) out ->
  wfm w L T -> entries T = entries ta -> t_get_lpm w fl L T p = ann.
Proof.
  intros Ha Hb E Hit HT ET.
  pose proof (union_some pfx L R _ _ _ _ _ _ _ _ _ (laws w fl Hw) ba bb ta tb out Ha Hb E) as U.
  exact (lpm_ann_get_lpm pfx _ _ _ _ _ _ _ _ _ (laws w fl Hw) L T _ p ann HT ET
           (union_right_ok pfx L R _ _ bb _ tb out p ann r Hb U Hit)
           (union_ann_right pfx L R _ _ _ out p ann r U Hit)).
Qed.

Theorem C08_difference_get_lpm ba bb (ta : tree pfx L) (tb : tree pfx R) out p l ann (T : tree pfx R) :
  wfL ba ta -> wfR bb tb -> t_difference w fl L R ta tb = Some out -> In (p, l, ann) out ->
  wfm w R T -> entries T = entries tb -> t_get_lpm w fl R T p = ann.
Proof.
  intros Ha Hb E Hit HT ET.
  pose proof (diff_some pfx L R _ _ _ _ _ _ _ _ _ (laws w fl Hw) ba bb ta tb out Ha Hb E) as D.
  exact (lpm_ann_get_lpm pfx _ _ _ _ _ _ _ _ _ (laws w fl Hw) R T _ p ann HT ET
           (diff_item_ok pfx L R _ _ ba ta _ out p l ann Ha D Hit)
           (diff_ann pfx L R _ _ _ _ D p l ann Hit)).
Qed.

Theorem C08_difference_mut_get_lpm ba bb (ta : tree pfx L) (tb : tree pfx R) outm p i l ann (T : tree pfx R) :
  wfL ba ta -> wfR bb tb -> t_difference_mut w fl L R ta tb = Some outm -> In (p, (i, l), ann) outm ->
  wfm w R T -> entries T = entries tb -> t_get_lpm w fl R T p = ann.
Proof.
  intros Ha Hb E Hit HT ET.
  destruct (difference_mut_ann pfx L R _ _ _ _ _ _ _ _ _ (laws w fl Hw) ba bb ta tb outm p i l ann Ha Hb E Hit)
    as (Hin & _ & Hann).
  exact (lpm_ann_get_lpm pfx _ _ _ _ _ _ _ _ _ (laws w fl Hw) R T _ p ann HT ET
           (entries_ok pfx L (kbits w) (okp w) ba ta (p, l) Ha Hin) Hann).
Qed.

(** in particular, when the other operand IS a whole map (its view at the root), the annotation
    is [get_lpm] of that map *)
Theorem C08_difference_whole_map ba (ta : tree pfx L) (tb : tree pfx R) out p l ann :
  wfL ba ta -> wfm w R tb -> t_difference w fl L R ta tb = Some out -> In (p, l, ann) out ->
  t_get_lpm w fl R tb p = ann.
Proof.
  intros Ha Hb E Hit.
  assert (Wb : wfR [] tb) by (destruct tb as [|i q v l0 r0]; [destruct Hb | exact (proj2 Hb)]).
  exact (C08_difference_get_lpm ba [] ta tb out p l ann tb Ha Wb E Hit Hb eq_refl).
Qed.

Theorem C08_union_whole_map (ta : tree pfx L) (tb : tree pfx R) out :
  wfm w L ta -> wfm w R tb -> t_union w fl L R ta tb = Some out ->
  (forall p l ann, In (ILeft p l ann) out -> t_get_lpm w fl R tb p = ann) /\
  (forall p ann r, In (IRight p ann r) out -> t_get_lpm w fl L ta p = ann).
Proof.
  intros Ha Hb E.
  assert (Wa : wfL [] ta) by (destruct ta as [|i q v l0 r0]; [destruct Ha | exact (proj2 Ha)]).
  assert (Wb : wfR [] tb) by (destruct tb as [|i q v l0 r0]; [destruct Hb | exact (proj2 Hb)]).
  split.
  - intros p l ann Hit. exact (C08_union_left_get_lpm [] [] ta tb out p l ann tb Wa Wb E Hit Hb eq_refl).
  - intros p ann r Hit. exact (C08_union_right_get_lpm [] [] ta tb out p ann r ta Wa Wb E Hit Ha eq_refl).
Qed.

(** Views as operands: the annotations refer to the entries the OTHER VIEW addresses
    ([v_entries]), whatever lies above the view's root in its map. *)
Theorem C08_views (va : view pfx L) (vb : view pfx R) :
  view_wf pfx L pzero (kbits w) (okp w) va -> view_wf pfx R pzero (kbits w) (okp w) vb ->
  exists outu outd outm,
    t_union w fl L R (v_tree va) (v_tree vb) = Some outu /\
    t_difference w fl L R (v_tree va) (v_tree vb) = Some outd /\
    t_difference_mut w fl L R (v_tree va) (v_tree vb) = Some outm /\
    (forall p l ann, In (ILeft p l ann) outu -> lpm_of (v_entries pfx R vb) p ann) /\
    (forall p ann r, In (IRight p ann r) outu -> lpm_of (v_entries pfx L va) p ann) /\
    (forall p l ann, In (p, l, ann) outd -> lpm_of (v_entries pfx R vb) p ann) /\
    (forall p i l ann, In (p, (i, l), ann) outm -> lpm_of (v_entries pfx R vb) p ann).
Proof.
  intros Ha Hb. destruct (view_operand_wf pfx pzero (kbits w) (okp w) va Ha) as [ba Wa].
  destruct (view_operand_wf pfx pzero (kbits w) (okp w) vb Hb) as [bb Wb].
  destruct (union_correct pfx L R _ _ _ _ _ _ _ _ _ (laws w fl Hw) ba bb _ _ Wa Wb) as [outu [Eu _]].
  destruct (difference_mut_some pfx L R _ _ _ _ _ _ _ _ _ (laws w fl Hw) ba bb _ _ Wa Wb)
    as (outd & outm & Ed & Em & _).
  exists outu, outd, outm. split; [exact Eu|]. split; [exact Ed|]. split; [exact Em|].
  split; [|split; [|split]].
  - intros p l ann. exact (C08_union_left ba bb _ _ outu p l ann Wa Wb Eu).
  - intros p ann r. exact (C08_union_right ba bb _ _ outu p ann r Wa Wb Eu).
  - intros p l ann. exact (C08_difference ba bb _ _ outd p l ann Wa Wb Ed).
  - intros p i l ann. exact (C08_difference_mut ba bb _ _ outm p i l ann Wa Wb Em).
Qed.

(** Reachable states.  For any two histories of public mutating calls (over [L] resp. [R]; running
    the same history twice gives two views of one map) and any two valid [view_at] positions, the
    resulting views are well-formed operands — every reachable state is well-formed (C15,
    [Common.reachable_wfm]) and [view_at] yields well-formed views ([SetOpsExtra.view_at_wf]).
    Views derived from them by [find] / [left] / [right] / [split] are well-formed again
    ([ViewsThm.v_find_spec], [v_side_spec]; C11), so the [view_wf] premise above is always met. *)
Theorem C08_reachable (opsA : list (hop L)) (opsB : list (hop R)) qa qb va vb :
  Forall (hop_ok w L) opsA -> Forall (hop_ok w R) opsB -> okp w qa -> okp w qb ->
  t_view_at w fl L (root (hrun w fl L opsA)) qa = Some va ->
  t_view_at w fl R (root (hrun w fl R opsB)) qb = Some vb ->
  exists outu outd outm,
    t_union w fl L R (v_tree va) (v_tree vb) = Some outu /\
    t_difference w fl L R (v_tree va) (v_tree vb) = Some outd /\
    t_difference_mut w fl L R (v_tree va) (v_tree vb) = Some outm /\
    (forall p l ann, In (ILeft p l ann) outu -> lpm_of (v_entries pfx R vb) p ann) /\
    (forall p ann r, In (IRight p ann r) outu -> lpm_of (v_entries pfx L va) p ann) /\
    (forall p l ann, In (p, l, ann) outd -> lpm_of (v_entries pfx R vb) p ann) /\
    (forall p i l ann, In (p, (i, l), ann) outm -> lpm_of (v_entries pfx R vb) p ann).
Proof.
  intros HA HB Hqa Hqb Ea Eb. apply C08_views.
  - exact (view_at_wf pfx _ _ _ _ _ _ _ _ _ (laws w fl Hw) _ qa va (reachable_wfm w fl L Hw opsA HA) Hqa Ea).
  - exact (view_at_wf pfx _ _ _ _ _ _ _ _ _ (laws w fl Hw) _ qb vb (reachable_wfm w fl R Hw opsB HB) Hqb Eb).
Qed.

(** * The same statement about the ARENA-level transcription of the code (Arena*.v; ArenaProps.v
      composes the refinement [Rep] with the tree-level theorem): both operands are arenas reachable
      from the empty arena by any history over the whole alphabet; the iterators run at the two roots. *)
(** [union_spec] and [diff_spec] contain the annotation clauses: every [ILeft]/[IRight] item of the union
    and every item of the difference carries the true longest-prefix match of its key in the other
    operand's entry list ([lpm_ann]). *)
Theorem C08_arena (amL : Arena.amap pfx L) (amR : Arena.amap pfx R) esL esR :
  areach pfx L (peq w) (contains w fl) (is_bit_set w) plen (lcp w fl) pzero (okp w) amL -> areach pfx R (peq w) (contains w fl) (is_bit_set w) plen (lcp w fl) pzero (okp w) amR ->
  Arena.a_entries pfx L amL = Arena.Ok esL -> Arena.a_entries pfx R amR = Arena.Ok esR ->
  exists outu outd,
    Arena3.a_union pfx L R (contains w fl) (is_bit_set w) plen (mcmp w) (Arena.tbl amL) (Arena.tbl amR) 0 0 = Arena.Ok outu /\
    UnionThm.union_spec pfx L R (kbits w) esL esR outu /\
    Arena3.a_difference pfx L R (contains w fl) (is_bit_set w) plen (mcmp w) (Arena.tbl amL) (Arena.tbl amR) 0 0 = Arena.Ok outd /\
    InterDiffThm.diff_spec pfx L R (kbits w) esL esR outd.
Proof.
  intros HL HR EL ER.
  destruct (arena_C05_C08_union pfx L R _ _ _ _ _ _ _ _ _ (laws w fl Hw) amL amR esL esR HL HR EL ER)
    as (outu & _ & E1 & S1 & _).
  destruct (arena_C07_C08_difference pfx L R _ _ _ _ _ _ _ _ _ (laws w fl Hw) amL amR esL esR HL HR EL ER)
    as (outd & _ & E2 & S2 & _).
  exists outu, outd. auto.
Qed.

(** * ... and at ANY pair of view locations (ArenaSetViews.v): [lL], [lR] are obtained by any sequence
      of navigation calls (stored, branching and VIRTUAL roots; equal, nested, disjoint positions) on
      two reachable arenas; [esL], [esR] are what the two views' own iterations yield; the arena
      iterators run at the two slots, exactly as the Rust constructors do. *)
Theorem C08_arena_views (amL : Arena.amap pfx L) (amR : Arena.amap pfx R) lL lR esL esR :
  areach pfx L (peq w) (contains w fl) (is_bit_set w) plen (lcp w fl) pzero (okp w) amL -> areach pfx R (peq w) (contains w fl) (is_bit_set w) plen (lcp w fl) pzero (okp w) amR ->
  a_vreach pfx L (peq w) (contains w fl) (is_bit_set w) plen (lcp w fl) (okp w) (Arena.tbl amL) lL ->
  a_vreach pfx R (peq w) (contains w fl) (is_bit_set w) plen (lcp w fl) (okp w) (Arena.tbl amR) lR ->
  a_v_iter pfx L (Arena.tbl amL) lL = Arena.Ok esL -> a_v_iter pfx R (Arena.tbl amR) lR = Arena.Ok esR ->
  exists outu outd,
    Arena3.a_union pfx L R (contains w fl) (is_bit_set w) plen (mcmp w) (Arena.tbl amL) (Arena.tbl amR) (Arena3.loc_idx lL) (Arena3.loc_idx lR) = Arena.Ok outu /\
    UnionThm.union_spec pfx L R (kbits w) esL esR outu /\
    Arena3.a_difference pfx L R (contains w fl) (is_bit_set w) plen (mcmp w) (Arena.tbl amL) (Arena.tbl amR) (Arena3.loc_idx lL) (Arena3.loc_idx lR) = Arena.Ok outd /\
    InterDiffThm.diff_spec pfx L R (kbits w) esL esR outd.
Proof.
  intros HL HR VL VR EL ER.
  destruct (arena_views_union pfx L R _ _ _ _ _ _ _ _ _ (laws w fl Hw) amL amR lL lR esL esR HL HR VL VR EL ER)
    as (outu & _ & E1 & S1 & _).
  destruct (arena_views_difference pfx L R _ _ _ _ _ _ _ _ _ (laws w fl Hw) amL amR lL lR esL esR HL HR VL VR EL ER)
    as (outd & _ & E2 & S2 & _).
  exists outu, outd. auto.
Qed.

End C08.

(** Non-vacuity (w = 8).  Map A = {00/2 ↦ 1, 01/2 ↦ 2, 1/1 ↦ 3, 110/3 ↦ 4} over [nat] (node 0/1
    is a value-less branching node), map B = {0/1 ↦ true, 01/2 ↦ false, 11/2 ↦ true, 111/3 ↦ false}
    over [bool].
    (1) whole A against the view of B at 11/2 (roots nested: B's view root lies below A's 1/1 and
        above A's 110/3): [Right 11/2] and [Right 111/3] report A's 1/1 ↦ 3 — an entry stored ABOVE
        the other view's root in A, seeded although the traversal of the right side starts
        deeper —; [Left 110/3] reports 11/2 ↦ true; the 0-side items report [None].
        [get_lpm] on A gives the same answers.
    (2) the view of A at 0/1 (value-less branching root) against whole B: [Left 00/2] reports
        B's 0/1 ↦ true; [Right 0/1] reports [None] — nothing in the VIEW covers 0/1.
    (3) the VIRTUAL view of A at 11/2 (real node 110/3) against the view of B at 11/2. *)
Definition C08_ins {V} (m : pmap pfx V) (r l : N) (v : V) : pmap pfx V :=
  fst (t_insert 8 Generic V m (mkpfx r l) v).
Definition C08_A : tree pfx nat :=
  root (C08_ins (C08_ins (C08_ins (C08_ins (t_empty nat) 0x00 2 1%nat) 0x40 2 2%nat) 0x80 1 3%nat) 0xC0 3 4%nat).
Definition C08_B : tree pfx bool :=
  root (C08_ins (C08_ins (C08_ins (C08_ins (t_empty bool) 0x00 1 true) 0x40 2 false) 0xC0 2 true) 0xE0 3 false).

Example C08_example :
  match t_view_at 8 Generic nat C08_A (mkpfx 0x00 1), t_view_at 8 Generic nat C08_A (mkpfx 0xC0 2),
        t_view_at 8 Generic bool C08_B (mkpfx 0xC0 2) with
  | Some va, Some va', Some vb =>
    va' = VVirt (mkpfx 0xC0 2) (Node 5 (mkpfx 0xC0 3) (Some 4%nat) Leaf Leaf) /\
    t_union 8 Generic nat bool C08_A (v_tree vb) =
      Some [ILeft (mkpfx 0x00 2) 1%nat None; ILeft (mkpfx 0x40 2) 2%nat None; ILeft (mkpfx 0x80 1) 3%nat None;
            IRight (mkpfx 0xC0 2) (Some (mkpfx 0x80 1, 3%nat)) true;
            ILeft (mkpfx 0xC0 3) 4%nat (Some (mkpfx 0xC0 2, true));
            IRight (mkpfx 0xE0 3) (Some (mkpfx 0x80 1, 3%nat)) false] /\
    t_get_lpm 8 Generic nat C08_A (mkpfx 0xC0 2) = Some (mkpfx 0x80 1, 3%nat) /\
    t_get_lpm 8 Generic nat C08_A (mkpfx 0xE0 3) = Some (mkpfx 0x80 1, 3%nat) /\
    t_difference 8 Generic nat bool C08_A (v_tree vb) =
      Some [(mkpfx 0x00 2, 1%nat, None); (mkpfx 0x40 2, 2%nat, None); (mkpfx 0x80 1, 3%nat, None);
            (mkpfx 0xC0 3, 4%nat, Some (mkpfx 0xC0 2, true))] /\
    t_difference_mut 8 Generic nat bool C08_A (v_tree vb) =
      Some [(mkpfx 0x00 2, (1%N, 1%nat), None); (mkpfx 0x40 2, (3%N, 2%nat), None);
            (mkpfx 0x80 1, (4%N, 3%nat), None);
            (mkpfx 0xC0 3, (5%N, 4%nat), Some (mkpfx 0xC0 2, true))] /\
    t_union 8 Generic nat bool (v_tree va) C08_B =
      Some [IRight (mkpfx 0x00 1) None true;
            ILeft (mkpfx 0x00 2) 1%nat (Some (mkpfx 0x00 1, true));
            IBoth (mkpfx 0x40 2) 2%nat false;
            IRight (mkpfx 0xC0 2) None true; IRight (mkpfx 0xE0 3) None false] /\
    t_get_lpm 8 Generic bool C08_B (mkpfx 0x00 2) = Some (mkpfx 0x00 1, true) /\
    t_union 8 Generic nat bool (v_tree va') (v_tree vb) =
      Some [IRight (mkpfx 0xC0 2) None true;
            ILeft (mkpfx 0xC0 3) 4%nat (Some (mkpfx 0xC0 2, true));
            IRight (mkpfx 0xE0 3) None false]
  | _, _, _ => False
  end.
Proof. vm_compute. repeat split; reflexivity. Qed.

Print Assumptions C08_union_left.
Print Assumptions C08_union_right.
Print Assumptions C08_difference.
Print Assumptions C08_difference_mut.
Print Assumptions C08_none_iff.
Print Assumptions C08_some_covers.
Print Assumptions C08_unique.
Print Assumptions C08_union_left_get_lpm.
Print Assumptions C08_union_right_get_lpm.
Print Assumptions C08_difference_get_lpm.
Print Assumptions C08_difference_mut_get_lpm.
Print Assumptions C08_difference_whole_map.
Print Assumptions C08_union_whole_map.
Print Assumptions C08_views.
Print Assumptions C08_reachable.
Print Assumptions C08_arena.
Print Assumptions C08_arena_views.
