(** C09 — shortest-prefix match and cover list exactly the covering entries, in order.

    [cover] / [cover_keys] / [cover_values] (and the set's [cover], which is the key projection of
    the map's at [V = unit]) are the lazy iterator [Cover]: [t_cover_next] is one call of its
    [next()], [t_cover_drain] repeated calls until the first [None], and [t_cover_walk] the whole
    sequence as a direct recursion.  For every well-formed map (hence every reachable state, with
    any value-less leftovers on the path) and every valid query [q]:
    - the sequence is exactly the sub-list of the stored entries whose key covers [q] — [q] itself
      and the zero-length prefix included when stored — each once, in strictly increasing prefix
      length; the lazy iterator returns it item by item and is fused;
    - [get_spm] is its first element ([None] iff it is empty), i.e. the shortest stored prefix
      covering [q]; [get_spm_prefix] is the prefix of that; [get_lpm] is its last element.
    Proofs: Lookup2.v, IterExtra.v. *)
From Coq Require Import List NArith Sorted Lia.
From PT Require Import Lookup Lookup2 IterExtra Arena Arena3 ArenaProps.
From PT.Properties Require Import Common.
Import ListNotations.
Local Open Scope nat_scope.

Section C09.
Variables (w : N) (fl : flavour) (V : Type).
Hypothesis Hw : (1 <= w)%N.
(** [e]'s key covers [q] (boolean, for [filter]) *)
Notation covering := (IterExtra.covering pfx V (kbits w)).
(** what a [Cover] iterator in state [st] still has to yield ([CStart]: nothing yielded yet) *)
Notation pending := (cover_pending pfx V (peq w) (contains w fl) (is_bit_set w) plen).
(** strictly increasing prefix length *)
Definition plen_order (e1 e2 : pfx * V) : Prop := (plen (fst e1) < plen (fst e2))%N.

(** a whole well-formed map is a well-formed subtree under the empty bound, and is not [Leaf] *)
Lemma C09_wfm_under (t : tree pfx V) : wfm w V t -> wfu w V [] t /\ t <> Leaf.
Proof. destruct t as [|i p v l r]; [intros [] | intros H; split; [exact (proj2 H) | discriminate]]. Qed.

(** ** The sequence *)

(** exactly the stored entries covering [q], in the order in which the full iteration yields them *)
Theorem C09_cover_is_filter (t : tree pfx V) (q : pfx) :
  wfm w V t -> okp w q ->
  t_cover_walk w fl V t q = filter (covering q) (entries t).
Proof.
  intros Hwf Hq.
  exact (cover_walk_filter pfx V _ _ _ _ _ _ _ _ _ (laws w fl Hw) [] t q (proj1 (C09_wfm_under t Hwf)) Hq
           (wf_root_covers pfx V (kbits w) (okp w) t q Hwf)).
Qed.

(** membership: a pair is yielded iff it is stored and its key covers [q] *)
Theorem C09_cover_members (t : tree pfx V) (q : pfx) (e : pfx * V) :
  wfm w V t -> okp w q ->
  (In e (t_cover_walk w fl V t q) <-> In e (entries t) /\ prefix_of (ekey w V e) (kbits w q)).
Proof.
  intros Hwf Hq.
  exact (cover_walk_spec pfx V _ _ _ _ _ _ _ _ _ (laws w fl Hw) t [] q (proj1 (C09_wfm_under t Hwf)) Hq
           (wf_root_covers pfx V (kbits w) (okp w) t q Hwf) e).
Qed.

(** [q] itself is included when stored (under any representation with the same key) ... *)
Theorem C09_cover_includes_query (t : tree pfx V) (q : pfx) (e : pfx * V) :
  wfm w V t -> okp w q -> In e (entries t) -> ekey w V e = kbits w q -> In e (t_cover_walk w fl V t q).
Proof.
  intros Hwf Hq Hin E. apply C09_cover_members; try assumption. split; [exact Hin|]. rewrite E. apply prefix_of_refl.
Qed.

(** ... and so is the zero-length prefix, for every query *)
Theorem C09_cover_includes_zero (t : tree pfx V) (q : pfx) (e : pfx * V) :
  wfm w V t -> okp w q -> In e (entries t) -> plen (fst e) = 0%N -> In e (t_cover_walk w fl V t q).
Proof.
  intros Hwf Hq Hin E. apply C09_cover_members; try assumption. split; [exact Hin|].
  pose proof (entries_ok pfx V (kbits w) (okp w) [] t e (proj1 (C09_wfm_under t Hwf)) Hin) as Hok.
  pose proof (plen_bits _ _ _ _ _ _ _ _ _ _ (laws w fl Hw) (fst e) Hok) as Hl.
  unfold ekey. destruct (kbits w (fst e)); [apply prefix_of_nil | cbn in Hl; lia].
Qed.

(** each once, in strictly increasing prefix length *)
Theorem C09_cover_order (t : tree pfx V) (q : pfx) :
  wfm w V t -> okp w q ->
  StronglySorted plen_order (t_cover_walk w fl V t q) /\ NoDup (t_cover_walk w fl V t q).
Proof.
  intros Hwf Hq. destruct (C09_wfm_under t Hwf) as [Hu _].
  pose proof (cover_walk_sorted pfx V (peq w) (contains w fl) (is_bit_set w) plen (kbits w) (okp w) t [] q Hu) as Hs.
  split.
  - apply (StronglySorted_impl_in _ (len_lt pfx V (kbits w))); [|exact Hs].
    intros a b Ha Hb H. unfold plen_order. unfold len_lt, TrieWf.key in H.
    apply C09_cover_members in Ha; [|assumption..]. apply C09_cover_members in Hb; [|assumption..].
    rewrite (plen_bits _ _ _ _ _ _ _ _ _ _ (laws w fl Hw) (fst a))
      by exact (entries_ok pfx V (kbits w) (okp w) [] t a Hu (proj1 Ha)).
    rewrite (plen_bits _ _ _ _ _ _ _ _ _ _ (laws w fl Hw) (fst b))
      by exact (entries_ok pfx V (kbits w) (okp w) [] t b Hu (proj1 Hb)).
    lia.
  - rewrite C09_cover_is_filter by assumption. apply NoDup_filter.
    apply (sorted_nodup pfx V (kbits w)). exact (entries_sorted pfx V (kbits w) (okp w) [] t Hu).
Qed.

(** ** The lazy iterator *)

(** nothing yielded yet: the whole sequence is pending *)
Theorem C09_pending_start (t : tree pfx V) (q : pfx) : pending t CStart q = t_cover_walk w fl V t q.
Proof. reflexivity. Qed.

(** one call of [next()]: it returns the head of the pending sequence and the tail stays pending;
    it returns [None] iff nothing is pending *)
Theorem C09_cover_next (t : tree pfx V) (st : cstate pfx V) (q : pfx) :
  wfm w V t ->
  match t_cover_next w fl V t st q with
  | (Some x, st') => exists xs, pending t st q = x :: xs /\ pending t st' q = xs
  | (None, st') => pending t st q = [] /\ pending t st' q = []
  end.
Proof.
  intros Hwf. exact (cover_next_spec pfx V _ _ _ _ t st q (proj2 (C09_wfm_under t Hwf))).
Qed.

(** collecting the iterator ([fuel] bounds the number of calls) gives the whole sequence *)
Theorem C09_cover_drain (t : tree pfx V) (q : pfx) (fuel : nat) :
  wfm w V t -> length (t_cover_walk w fl V t q) < fuel ->
  t_cover_drain w fl V fuel t CStart q = t_cover_walk w fl V t q.
Proof.
  intros Hwf Hf.
  exact (cover_drain_spec pfx V _ _ _ _ t q (proj2 (C09_wfm_under t Hwf)) fuel CStart Hf).
Qed.

(** fused: once nothing is pending, every further call — any number [k] of them — returns [None] *)
Theorem C09_cover_fused (t : tree pfx V) (st : cstate pfx V) (q : pfx) (k : nat) :
  wfm w V t -> pending t st q = [] ->
  fst (t_cover_next w fl V t (Nat.iter k (fun s => snd (t_cover_next w fl V t s q)) st) q) = None.
Proof.
  intros Hwf Hp. pose proof (proj2 (C09_wfm_under t Hwf)) as Hn.
  assert (Hk : pending t (Nat.iter k (fun s => snd (t_cover_next w fl V t s q)) st) q = []).
  { induction k as [|k IH]; [exact Hp|]. cbn [Nat.iter].
    exact (proj2 (cover_fused pfx V _ _ _ _ t _ q Hn IH)). }
  exact (proj1 (cover_fused pfx V _ _ _ _ t _ q Hn Hk)).
Qed.

(** ** Shortest- and longest-prefix match *)

(** [get_spm] returns the first element of the sequence, [None] when it is empty *)
Theorem C09_get_spm_first (t : tree pfx V) (q : pfx) :
  t_get_spm w fl V t q = hd_error (t_cover_walk w fl V t q).
Proof. exact (get_spm_spec pfx V _ _ _ _ t q). Qed.

(** [get_spm_prefix] (and the set's [get_spm]) returns the prefix of that element *)
Theorem C09_get_spm_prefix (t : tree pfx V) (q : pfx) :
  t_get_spm_prefix w fl V t q = option_map fst (hd_error (t_cover_walk w fl V t q)).
Proof. unfold t_get_spm_prefix, get_spm_prefix. rewrite get_spm_spec. reflexivity. Qed.

(** longest-prefix match returns the last element *)
Theorem C09_get_lpm_last (t : tree pfx V) (q : pfx) :
  t_get_lpm w fl V t q = hd_error (rev (t_cover_walk w fl V t q)).
Proof. exact (get_lpm_last pfx V _ _ _ _ t q). Qed.

(** in terms of the stored entries only: [get_spm] returns a stored entry covering [q] of least
    prefix length, and [None] exactly when no stored entry covers [q] *)
Theorem C09_get_spm (t : tree pfx V) (q : pfx) :
  wfm w V t -> okp w q ->
  match t_get_spm w fl V t q with
  | Some e => In e (entries t) /\ prefix_of (ekey w V e) (kbits w q) /\
              forall e', In e' (entries t) -> prefix_of (ekey w V e') (kbits w q) ->
                         length (ekey w V e) <= length (ekey w V e')
  | None => forall e, In e (entries t) -> ~ prefix_of (ekey w V e) (kbits w q)
  end.
Proof.
  intros Hwf Hq. rewrite C09_get_spm_first. destruct (C09_wfm_under t Hwf) as [Hu _].
  pose proof (cover_walk_sorted pfx V (peq w) (contains w fl) (is_bit_set w) plen (kbits w) (okp w) t [] q Hu) as Hs.
  destruct (hd_error (t_cover_walk w fl V t q)) as [e|] eqn:Hh.
  - destruct (len_sorted_hd pfx V (kbits w) _ e Hs Hh) as [Hin Hmin].
    apply C09_cover_members in Hin; [|assumption..]. destruct Hin as [Hin Hc].
    split; [exact Hin|]. split; [exact Hc|]. intros e' He' Hc'. apply Hmin.
    apply C09_cover_members; try assumption. split; assumption.
  - intros e He Hc. assert (Hin : In e (t_cover_walk w fl V t q)) by (apply C09_cover_members; try assumption; split; assumption).
    destruct (t_cover_walk w fl V t q); [contradiction | discriminate].
Qed.

(** the answers depend on the stored entries alone, not on the shape left by earlier removals *)
Theorem C09_shape_independent (t1 t2 : tree pfx V) (q : pfx) :
  wfm w V t1 -> wfm w V t2 -> okp w q -> entries t1 = entries t2 ->
  t_cover_walk w fl V t1 q = t_cover_walk w fl V t2 q /\
  t_get_spm w fl V t1 q = t_get_spm w fl V t2 q /\
  t_get_spm_prefix w fl V t1 q = t_get_spm_prefix w fl V t2 q.
Proof.
  intros H1 H2 Hq E.
  assert (Ec : t_cover_walk w fl V t1 q = t_cover_walk w fl V t2 q)
    by (rewrite !C09_cover_is_filter by assumption; rewrite E; reflexivity).
  split; [exact Ec|]. rewrite !C09_get_spm_prefix, !C09_get_spm_first, Ec. split; reflexivity.
Qed.

(** ... all of it in every state reachable by a history of public mutating calls *)
Theorem C09_reachable (ops : list (hop V)) (q : pfx) :
  Forall (hop_ok w V) ops -> okp w q ->
  let t := root (hrun w fl V ops) in
  let c := filter (covering q) (entries t) in
  (forall fuel, length c < fuel -> t_cover_drain w fl V fuel t CStart q = c) /\
  StronglySorted plen_order c /\ NoDup c /\
  t_get_spm w fl V t q = hd_error c /\
  t_get_spm_prefix w fl V t q = option_map fst (hd_error c) /\
  t_get_lpm w fl V t q = hd_error (rev c).
Proof.
  intros Hops Hq t c. pose proof (reachable_wfm w fl V Hw ops Hops) as Hwf. fold t in Hwf.
  pose proof (C09_cover_is_filter t q Hwf Hq) as Ec. fold c in Ec.
  destruct (C09_cover_order t q Hwf Hq) as [Hs Hn]. rewrite Ec in Hs, Hn.
  split; [intros fuel Hf; rewrite <- Ec in *; apply C09_cover_drain; assumption|].
  split; [exact Hs|]. split; [exact Hn|]. rewrite <- Ec.
  split; [apply C09_get_spm_first|]. split; [apply C09_get_spm_prefix | apply C09_get_lpm_last].
Qed.

(** * The same statement about the ARENA-level transcription of the code (Arena*.v; ArenaProps.v
      composes the refinement [Rep] with the tree-level theorem).  [areach am]: [am] is reached from
      the empty arena by a history of arena-level mutator calls with valid prefixes. *)
Theorem C09_arena (am : amap pfx V) (es : list (pfx * V)) (q : pfx) :
  areach pfx V (peq w) (contains w fl) (is_bit_set w) plen (lcp w fl) pzero (okp w) am -> okp w q -> a_entries pfx V am = Ok es ->
  Arena3.a_cover pfx V (peq w) (contains w fl) (is_bit_set w) plen am q = Ok (filter (IterExtra.covering pfx V (kbits w) q) es) /\
  StronglySorted (Lookup2.len_lt pfx V (kbits w)) (filter (IterExtra.covering pfx V (kbits w) q) es) /\
  Arena3.a_get_spm pfx V (peq w) (contains w fl) (is_bit_set w) plen am q = Ok (hd_error (filter (IterExtra.covering pfx V (kbits w) q) es)) /\
  Arena3.a_get_spm_prefix pfx V (peq w) (contains w fl) (is_bit_set w) plen am q
  = Ok (option_map fst (hd_error (filter (IterExtra.covering pfx V (kbits w) q) es))).
Proof. exact (arena_C09_cover pfx V _ _ _ _ _ _ _ _ _ (laws w fl Hw) am es q). Qed.

End C09.

(** non-vacuity: a reachable state with a value-less leftover ON the path to the query (128/1
    after [remove_keep_tree]), an entry off the path (71/2, host bits), an entry equal to the
    query (229/8).  In [m2] the root is populated: the cover of 229/8 starts with the zero-length
    prefix, skips the leftover, and ends with the query itself; [get_spm] is the zero-length
    prefix, [get_lpm] the query.  In [m1] the root is value-less: [get_spm] passes the root and the
    leftover and returns 192/2.  The query 144/4 is covered by the leftover only: empty cover. *)
Example C09_example :
  let ins m p x := fst (t_insert 8 Generic nat m p x) in
  let m0 := ins (ins (ins (ins (ins (t_empty nat) (mkpfx 0xc0 2) 2) (mkpfx 0x80 1) 1)
                  (mkpfx 0x47 2) 3) (mkpfx 0xe0 3) 4) (mkpfx 0xe5 8) 5 in
  let m1 := fst (t_remove_keep_tree 8 Generic nat m0 (mkpfx 0x80 1)) in
  let m2 := ins m1 (mkpfx 0 0) 0 in
  let q := mkpfx 0xe5 8 in
  t_cover_drain 8 Generic nat 9 (root m2) CStart q
    = [(mkpfx 0 0, 0); (mkpfx 0xc0 2, 2); (mkpfx 0xe0 3, 4); (mkpfx 0xe5 8, 5)] /\
  t_get_spm 8 Generic nat (root m2) q = Some (mkpfx 0 0, 0) /\
  t_get_lpm 8 Generic nat (root m2) q = Some (mkpfx 0xe5 8, 5) /\
  t_cover_drain 8 Generic nat 9 (root m1) CStart q = [(mkpfx 0xc0 2, 2); (mkpfx 0xe0 3, 4); (mkpfx 0xe5 8, 5)] /\
  t_get_spm 8 Generic nat (root m1) q = Some (mkpfx 0xc0 2, 2) /\
  t_get_spm_prefix 8 Generic nat (root m1) (mkpfx 0x90 4) = None /\
  t_cover_drain 8 Generic nat 9 (root m1) CStart (mkpfx 0x90 4) = [].
Proof. vm_compute. repeat split; reflexivity. Qed.

Print Assumptions C09_wfm_under.
Print Assumptions C09_cover_is_filter.
Print Assumptions C09_cover_members.
Print Assumptions C09_cover_includes_query.
Print Assumptions C09_cover_includes_zero.
Print Assumptions C09_cover_order.
Print Assumptions C09_pending_start.
Print Assumptions C09_cover_next.
Print Assumptions C09_cover_drain.
Print Assumptions C09_cover_fused.
Print Assumptions C09_get_spm_first.
Print Assumptions C09_get_spm_prefix.
Print Assumptions C09_get_lpm_last.
Print Assumptions C09_get_spm.
Print Assumptions C09_shape_independent.
Print Assumptions C09_reachable.
Print Assumptions C09_arena.
