(** C10 — sub-tree selection and bulk removal act on exactly the covered entries.

    For every well-formed map (hence every reachable state, including shapes with value-less
    leftovers and freed slots) and every valid selector [q] — stored, branching, lying on an edge,
    absent, zero-length, full-length, with host bits: the statements only mention the key
    [kbits q] —
    - [children] / [children_mut] / [into_children] (the set's [children] is the key projection at
      [V = unit]) yield exactly the sub-list of the stored entries whose key is covered by [q]
      ([q] itself included), in lexicographic order;
    - [remove_children] removes exactly those entries and leaves every other entry in place with
      its value and stored prefix representation; a zero-length selector empties the map;
    - [retain] invokes its predicate exactly once per stored entry (the call log is a duplicate-free
      permutation of the entry list; the [k]-th invocation is made with invocation count [k]) and
      the result holds exactly the entries for which it returned [true].
    [retain]'s predicate is modelled as [f : nat -> pfx -> V -> option bool] (argument = number of
    earlier invocations, so the closure may be stateful in its invocation count; [None] = the
    closure panics).  [C10_retain_all_predicates] is for EVERY such [f], no hypothesis;
    [C10_retain_total] specialises it to closures that never panic, [C10_retain] to pure total
    ones (verdict = a function of the entry), [C10_retain_any_outcome] to verdicts independent of
    the count, panicking or not.
    Proofs: Lookup2.v, MutTrav.v, Mutate.v, Retain.v, IterExtra.v. *)
From Coq Require Import List NArith Sorted Permutation Lia Bool.
From PT Require Import Lookup Lookup2 MutTrav Mutate Retain Refine IterExtra Arena Arena2 Arena3 ArenaProps.
From PT.Properties Require Import Common.
Import ListNotations.
Local Open Scope nat_scope.

Section C10.
Variables (w : N) (fl : flavour) (V : Type).
Hypothesis Hw : (1 <= w)%N.
Notation drop := (Inst.drop_id V).
(** [e]'s key is covered by [q] (boolean, for [filter]): [is_prefix (kbits q) (ekey e)] *)
Notation covered_by := (IterExtra.covered_by pfx V (kbits w)).
Definition lex_order (e1 e2 : pfx * V) : Prop := lex_lt (ekey w V e1) (ekey w V e2).

Lemma C10_wfm_under (t : tree pfx V) : wfm w V t -> wfu w V [] t.
Proof. destruct t as [|i p v l r]; [intros [] | intros H; exact (proj2 H)]. Qed.

Lemma C10_covered_by_spec (q : pfx) (e : pfx * V) :
  covered_by q e = true <-> prefix_of (kbits w q) (ekey w V e).
Proof. unfold IterExtra.covered_by. apply is_prefix_spec. Qed.

(** ** children *)

(** [children] yields exactly the stored entries covered by [q], in the order of the full iteration *)
Theorem C10_children_is_filter (t : tree pfx V) (q : pfx) :
  wfm w V t -> okp w q ->
  map drop (t_children w fl V t q) = filter (covered_by q) (entries t).
Proof.
  intros Hwf Hq.
  exact (children_filter pfx V _ _ _ _ _ _ _ _ _ (laws w fl Hw) [] t q (C10_wfm_under t Hwf) Hq
           (wf_root_covers pfx V (kbits w) (okp w) t q Hwf)).
Qed.

(** [children_mut] and [into_children] (separate copies of the loop) yield the same items, slots
    included *)
Theorem C10_children_mut (t : tree pfx V) (q : pfx) : t_children_mut w fl V t q = t_children w fl V t q.
Proof. exact (children_mut_eq pfx V _ _ _ _ t q). Qed.

Theorem C10_into_children (t : tree pfx V) (q : pfx) : t_into_children w fl V t q = t_children w fl V t q.
Proof. exact (into_children_eq pfx V _ _ _ _ t q). Qed.

(** spelled out: membership, [q] itself included, lexicographic order, each once *)
Theorem C10_children_members (t : tree pfx V) (q : pfx) (e : pfx * V) :
  wfm w V t -> okp w q ->
  (In e (map drop (t_children w fl V t q)) <-> In e (entries t) /\ prefix_of (kbits w q) (ekey w V e)).
Proof.
  intros Hwf Hq. rewrite C10_children_is_filter, filter_In, C10_covered_by_spec by assumption. reflexivity.
Qed.

Theorem C10_children_includes_self (t : tree pfx V) (q : pfx) (e : pfx * V) :
  wfm w V t -> okp w q -> In e (entries t) -> ekey w V e = kbits w q ->
  In e (map drop (t_children w fl V t q)).
Proof.
  intros Hwf Hq Hin E. apply C10_children_members; try assumption. split; [exact Hin|]. rewrite E. apply prefix_of_refl.
Qed.

Theorem C10_children_order (t : tree pfx V) (q : pfx) :
  wfm w V t -> okp w q ->
  StronglySorted lex_order (map drop (t_children w fl V t q)) /\ NoDup (map drop (t_children w fl V t q)).
Proof.
  intros Hwf Hq. rewrite C10_children_is_filter by assumption.
  pose proof (entries_sorted pfx V (kbits w) (okp w) [] t (C10_wfm_under t Hwf)) as Hs.
  split; [exact (IterExtra.sorted_filter pfx V (kbits w) _ _ Hs)|].
  apply NoDup_filter. exact (sorted_nodup pfx V (kbits w) _ Hs).
Qed.

(** ** remove_children *)

(** the result is a well-formed map holding exactly the entries NOT covered by [q]: every other
    entry stays, with its value and its stored prefix (entries are (prefix, value) pairs), in the
    same relative order *)
Theorem C10_remove_children (m : pmap pfx V) (q : pfx) :
  wfm w V (root m) -> okp w q ->
  let m' := t_remove_children w fl V m q in
  wfm w V (root m') /\
  entries (root m') = filter (fun e => negb (covered_by q e)) (entries (root m)) /\
  (forall e, In e (entries (root m')) <-> In e (entries (root m)) /\ ~ prefix_of (kbits w q) (ekey w V e)).
Proof.
  intros Hwf Hq m'.
  destruct (remove_children_spec pfx V _ _ _ _ _ _ _ _ _ (laws w fl Hw) m q Hwf Hq) as [P1 P2].
  split; [exact P1|]. split; [|exact P2].
  exact (remove_children_refines pfx V _ _ _ _ _ _ _ _ _ (laws w fl Hw) m q Hwf Hq).
Qed.

(** "exactly those": the entries that disappear are the ones [children] lists for the same selector *)
Theorem C10_remove_children_removes_children (m : pmap pfx V) (q : pfx) (e : pfx * V) :
  wfm w V (root m) -> okp w q ->
  (In e (entries (root (t_remove_children w fl V m q))) <->
   In e (entries (root m)) /\ ~ In e (map drop (t_children w fl V (root m) q))).
Proof.
  intros Hwf Hq. destruct (C10_remove_children m q Hwf Hq) as [_ [_ P]]. rewrite (P e).
  rewrite C10_children_members by assumption. tauto.
Qed.

(** a zero-length selector empties the map (it becomes the empty map: fresh arena, counter 0) *)
Theorem C10_remove_children_zero (m : pmap pfx V) (q : pfx) :
  plen q = 0%N ->
  t_remove_children w fl V m q = t_empty V /\ entries (root (t_remove_children w fl V m q)) = [].
Proof.
  intros E. unfold t_remove_children, remove_children. rewrite E. cbn [N.eqb]. split; reflexivity.
Qed.

(** ** retain *)

(** the verdict of a pure predicate *)
Notation verdict := (Refine.verdict pfx V).

(** every pure, total predicate: the closure never panics; it is invoked exactly once per stored
    entry — the call log [calls] (in call order) is a duplicate-free permutation of the entry
    list, and its [k]-th element was passed to the [k]-th invocation — and the resulting map is
    well-formed and holds exactly the entries for which the predicate returned [true], unchanged *)
Theorem C10_retain (f : nat -> pfx -> V -> option bool) (m m' : pmap pfx V) (panicked : bool)
        (calls : list (pfx * V)) :
  wfm w V (root m) ->
  (forall n p x, f n p x = f 0 p x /\ f n p x <> None) ->
  t_retain V f m = (m', panicked, calls) ->
  panicked = false /\ wfm w V (root m') /\
  Permutation calls (entries (root m)) /\ NoDup calls /\
  (forall k e, nth_error calls k = Some e -> f k (fst e) (snd e) = Some (verdict f (fst e) (snd e))) /\
  entries (root m') = filter (fun e => verdict f (fst e) (snd e)) (entries (root m)) /\
  (forall e, In e (entries (root m')) <-> In e (entries (root m)) /\ f 0 (fst e) (snd e) = Some true).
Proof.
  intros Hwf Hpure E.
  assert (Hf : forall n p x c, f n p x = Some c -> c = verdict f p x).
  { intros n p x c H. unfold Refine.verdict. rewrite <- (proj1 (Hpure n p x)), H. destruct c; reflexivity. }
  destruct (retain_spec pfx V (kbits w) (okp w) f (verdict f) Hf m m' panicked calls Hwf E)
    as [W [Pans [_ [Pnd [_ [Pdone Ppan]]]]]].
  assert (Hp : panicked = false).
  { destruct panicked; [|reflexivity]. exfalso. destruct (Ppan eq_refl) as [e [_ [_ N]]].
    exact (proj2 (Hpure (length calls) (fst e) (snd e)) N). }
  destruct (Pdone Hp) as [A [B C]].
  split; [exact Hp|]. split; [exact W|]. split; [exact B|]. split; [exact Pnd|].
  split; [exact (answered_nth pfx V f (verdict f) 0 calls Pans)|]. split; [exact A|].
  intros e. rewrite (C e). unfold Refine.verdict.
  destruct (f 0 (fst e) (snd e)) as [[|]|]; split; intros [H1 H2]; split; try assumption; try reflexivity; discriminate.
Qed.

(** every predicate whose verdict does not depend on the invocation count ([g] is the verdict),
    whether or not it panics at some invocation: each invocation that returned is logged once, on a
    distinct stored entry; exactly the logged entries that were rejected are gone and all other
    entries are unchanged; if no invocation panicked the log is a permutation of the entry list and
    the result is the [filter]; if one panicked, it panicked on a stored entry not yet logged *)
Theorem C10_retain_any_outcome (f : nat -> pfx -> V -> option bool) (g : pfx -> V -> bool)
        (m m' : pmap pfx V) (panicked : bool) (calls : list (pfx * V)) :
  wfm w V (root m) ->
  (forall n p x c, f n p x = Some c -> c = g p x) ->
  t_retain V f m = (m', panicked, calls) ->
  wfm w V (root m') /\
  (forall k e, nth_error calls k = Some e -> f k (fst e) (snd e) = Some (g (fst e) (snd e))) /\
  incl calls (entries (root m)) /\ NoDup calls /\
  (forall e, In e (entries (root m')) <->
             In e (entries (root m)) /\ ~ (In e calls /\ g (fst e) (snd e) = false)) /\
  (panicked = false ->
     entries (root m') = filter (fun e => g (fst e) (snd e)) (entries (root m)) /\
     Permutation calls (entries (root m))) /\
  (panicked = true ->
     exists e, In e (entries (root m)) /\ ~ In e calls /\ f (length calls) (fst e) (snd e) = None).
Proof.
  intros Hwf Hf E.
  destruct (retain_spec pfx V (kbits w) (okp w) f g Hf m m' panicked calls Hwf E)
    as [W [Pans [Pincl [Pnd [Pkept [Pdone Ppan]]]]]].
  split; [exact W|]. split; [exact (answered_nth pfx V f g 0 calls Pans)|].
  split; [exact Pincl|]. split; [exact Pnd|]. split; [exact Pkept|]. split; [|exact Ppan].
  intros Hp. destruct (Pdone Hp) as [A [B _]]. split; [exact A | exact B].
Qed.

(** EVERY predicate — verdicts may depend on the invocation count, any invocation may panic.
    There is a verdict [g] per entry such that: the [k]-th logged invocation was made with count [k]
    on a distinct stored entry and returned [g] of it; exactly the logged entries that were
    rejected are gone, every other entry is unchanged; if no invocation panicked, every stored
    entry was passed to exactly one invocation (the log is a duplicate-free permutation of the
    entry list) and the result is the [filter] by the verdicts; if one panicked, it did so on a
    stored entry not yet logged, at count [length calls]. *)
Theorem C10_retain_all_predicates (f : nat -> pfx -> V -> option bool)
        (m m' : pmap pfx V) (panicked : bool) (calls : list (pfx * V)) :
  wfm w V (root m) ->
  t_retain V f m = (m', panicked, calls) ->
  exists g : pfx -> V -> bool,
    (forall k e, nth_error calls k = Some e -> f k (fst e) (snd e) = Some (g (fst e) (snd e))) /\
    wfm w V (root m') /\ incl calls (entries (root m)) /\ NoDup calls /\
    (forall e, In e (entries (root m')) <->
               In e (entries (root m)) /\ ~ (In e calls /\ g (fst e) (snd e) = false)) /\
    (panicked = false ->
       entries (root m') = filter (fun e => g (fst e) (snd e)) (entries (root m)) /\
       Permutation calls (entries (root m))) /\
    (panicked = true ->
       exists e, In e (entries (root m)) /\ ~ In e calls /\ f (length calls) (fst e) (snd e) = None).
Proof. exact (retain_any_predicate pfx V (kbits w) (okp w) f m m' panicked calls). Qed.

(** every predicate that never panics, stateful or not: exactly one invocation per stored entry,
    and an entry survives iff THE invocation made on it returned [true] *)
Theorem C10_retain_total (f : nat -> pfx -> V -> option bool)
        (m m' : pmap pfx V) (panicked : bool) (calls : list (pfx * V)) :
  wfm w V (root m) ->
  (forall n p x, f n p x <> None) ->
  t_retain V f m = (m', panicked, calls) ->
  panicked = false /\ wfm w V (root m') /\
  Permutation calls (entries (root m)) /\ NoDup calls /\
  (forall e, In e (entries (root m')) <->
             exists k, nth_error calls k = Some e /\ f k (fst e) (snd e) = Some true).
Proof.
  intros Hwf Htot E.
  destruct (C10_retain_all_predicates f m m' panicked calls Hwf E)
    as [g [Pans [W [_ [Pnd [Pkept [Pdone Ppan]]]]]]].
  assert (Hp : panicked = false).
  { destruct panicked; [|reflexivity]. exfalso. destruct (Ppan eq_refl) as [e [_ [_ N]]]. exact (Htot _ _ _ N). }
  destruct (Pdone Hp) as [_ Pperm].
  split; [exact Hp|]. split; [exact W|]. split; [exact Pperm|]. split; [exact Pnd|].
  intros e. rewrite (Pkept e). split.
  - intros [Hin Hk]. assert (Hc : In e calls) by (eapply Permutation_in; [apply Permutation_sym; exact Pperm | exact Hin]).
    destruct (In_nth_error _ _ Hc) as [k Hn]. exists k. split; [exact Hn|]. rewrite (Pans k e Hn).
    destruct (g (fst e) (snd e)) eqn:G; [reflexivity|]. exfalso. apply Hk. split; [exact Hc | reflexivity].
  - intros [k [Hn Hv]]. pose proof (nth_error_In _ _ Hn) as Hc.
    split; [eapply Permutation_in; [exact Pperm | exact Hc]|].
    intros [_ G]. rewrite (Pans k e Hn), G in Hv. discriminate Hv.
Qed.

(** whatever the closure does (any [f], no hypothesis at all), the map stays well-formed *)
Theorem C10_retain_wf (f : nat -> pfx -> V -> option bool) (m m' : pmap pfx V) (panicked : bool)
        (calls : list (pfx * V)) :
  wfm w V (root m) -> t_retain V f m = (m', panicked, calls) -> wfm w V (root m').
Proof. exact (retain_wf pfx V (kbits w) (okp w) f m m' panicked calls). Qed.

(** ... all of it in every state reachable by a history of public mutating calls *)
Theorem C10_reachable (ops : list (hop V)) (q : pfx) (f : nat -> pfx -> V -> option bool) :
  Forall (hop_ok w V) ops -> okp w q ->
  (forall n p x, f n p x = f 0 p x /\ f n p x <> None) ->
  let m := hrun w fl V ops in
  map drop (t_children w fl V (root m) q) = filter (covered_by q) (entries (root m)) /\
  entries (root (t_remove_children w fl V m q)) = filter (fun e => negb (covered_by q e)) (entries (root m)) /\
  entries (root (fst (fst (t_retain V f m)))) = filter (fun e => verdict f (fst e) (snd e)) (entries (root m)) /\
  Permutation (snd (t_retain V f m)) (entries (root m)).
Proof.
  intros Hops Hq Hpure m. pose proof (reachable_wfm w fl V Hw ops Hops) as Hwf. fold m in Hwf.
  split; [apply C10_children_is_filter; assumption|].
  split; [exact (proj1 (proj2 (C10_remove_children m q Hwf Hq)))|].
  destruct (t_retain V f m) as [[m' pn] calls] eqn:E. cbn [fst snd].
  destruct (C10_retain f m m' pn calls Hwf Hpure E) as [_ [_ [P [_ [_ [A _]]]]]]. split; [exact A | exact P].
Qed.

(** * The same statement about the ARENA-level transcription of the code (Arena*.v; ArenaProps.v
      composes the refinement [Rep] with the tree-level theorem).  [areach am]: [am] is reached from
      the empty arena by a history of arena-level mutator calls with valid prefixes. *)
Theorem C10_arena_children (am : amap pfx V) (es : list (pfx * V)) (q : pfx) :
  areach pfx V (peq w) (contains w fl) (is_bit_set w) plen (lcp w fl) pzero (okp w) am -> okp w q -> a_entries pfx V am = Ok es ->
  Arena3.a_children pfx V (peq w) (contains w fl) (is_bit_set w) plen am q = Ok (filter (IterExtra.covered_by pfx V (kbits w) q) es).
Proof. exact (arena_C10_children pfx V _ _ _ _ _ _ _ _ _ (laws w fl Hw) am es q). Qed.

Theorem C10_arena_remove_children (am : amap pfx V) (es : list (pfx * V)) (q : pfx) :
  areach pfx V (peq w) (contains w fl) (is_bit_set w) plen (lcp w fl) pzero (okp w) am -> okp w q -> a_entries pfx V am = Ok es ->
  exists am', Arena2.a_remove_children pfx V (peq w) (contains w fl) (is_bit_set w) plen (lcp w fl) pzero am q = Ok am' /\ areach pfx V (peq w) (contains w fl) (is_bit_set w) plen (lcp w fl) pzero (okp w) am' /\
    a_entries pfx V am' = Ok (filter (fun e => negb (is_prefix (kbits w q) (TrieWf.key pfx V (kbits w) e))) es).
Proof. exact (arena_C10_remove_children pfx V _ _ _ _ _ _ _ _ _ (laws w fl Hw) am es q). Qed.

Theorem C10_arena_retain (am : amap pfx V) (es : list (pfx * V))
        (f : nat -> pfx -> V -> option bool) (g : pfx -> V -> bool) :
  areach pfx V (peq w) (contains w fl) (is_bit_set w) plen (lcp w fl) pzero (okp w) am -> a_entries pfx V am = Ok es -> (forall n p x, f n p x = Some (g p x)) ->
  exists am' calls, Arena2.a_retain pfx V f am = Ok (am', false, calls) /\ areach pfx V (peq w) (contains w fl) (is_bit_set w) plen (lcp w fl) pzero (okp w) am' /\
    a_entries pfx V am' = Ok (filter (fun e => g (fst e) (snd e)) es) /\ Permutation.Permutation calls es.
Proof. exact (arena_C10_retain pfx V _ _ _ _ _ _ _ _ _ (laws w fl Hw) am es f g). Qed.

End C10.

(** non-vacuity: a reachable state with a value-less leftover (128/1 after [remove_keep_tree]),
    a value-less branching node (0/1) and host bits (71/2).  The selector 128/1 is that leftover;
    160/3 lies on no node (edge/absent); 0/1 is the branching node.  [retain] with "value is
    even" calls the predicate once per entry (post-order) and keeps the even ones. *)
Example C10_example :
  let ins m p x := fst (t_insert 8 Generic nat m p x) in
  let m1 := ins (ins (ins (ins (ins (ins (t_empty nat) (mkpfx 0xc0 2) 2) (mkpfx 0x80 1) 1)
                  (mkpfx 0x47 2) 3) (mkpfx 0 0) 0) (mkpfx 0xe0 3) 4) (mkpfx 0x20 3) 5 in
  let m := fst (t_remove_keep_tree 8 Generic nat m1 (mkpfx 0x80 1)) in
  let f := fun (_ : nat) (_ : pfx) (x : nat) => Some (Nat.even x) in
  map (Inst.drop_id nat) (t_children 8 Generic nat (root m) (mkpfx 0x80 1))
    = [(mkpfx 0xc0 2, 2); (mkpfx 0xe0 3, 4)] /\
  map (Inst.drop_id nat) (t_children_mut 8 Generic nat (root m) (mkpfx 0x1f 1))
    = [(mkpfx 0x20 3, 5); (mkpfx 0x47 2, 3)] /\
  t_into_children 8 Generic nat (root m) (mkpfx 0xa0 3) = [] /\
  entries (root (t_remove_children 8 Generic nat m (mkpfx 0x80 1)))
    = [(mkpfx 0 0, 0); (mkpfx 0x20 3, 5); (mkpfx 0x47 2, 3)] /\
  entries (root (t_remove_children 8 Generic nat m (mkpfx 0xff 0))) = [] /\
  entries (root (fst (fst (t_retain nat f m)))) = [(mkpfx 0 0, 0); (mkpfx 0xc0 2, 2); (mkpfx 0xe0 3, 4)] /\
  snd (t_retain nat f m)
    = [(mkpfx 0x20 3, 5); (mkpfx 0x47 2, 3); (mkpfx 0xe0 3, 4); (mkpfx 0xc0 2, 2); (mkpfx 0 0, 0)] /\
  snd (fst (t_retain nat f m)) = false /\
  (* a stateful closure: rejects exactly its 2nd and 3rd invocation; panics at the 5th *)
  entries (root (fst (fst (t_retain nat (fun n _ _ => Some (negb (Nat.eqb n 1 || Nat.eqb n 2))) m))))
    = [(mkpfx 0 0, 0); (mkpfx 0x20 3, 5); (mkpfx 0xc0 2, 2)] /\
  snd (fst (t_retain nat (fun n _ x => if Nat.eqb n 4 then None else Some (Nat.even x)) m)) = true /\
  entries (root (fst (fst (t_retain nat (fun n _ x => if Nat.eqb n 4 then None else Some (Nat.even x)) m))))
    = [(mkpfx 0 0, 0); (mkpfx 0xc0 2, 2); (mkpfx 0xe0 3, 4)].
Proof. vm_compute. repeat split; reflexivity. Qed.

Print Assumptions C10_wfm_under.
Print Assumptions C10_covered_by_spec.
Print Assumptions C10_children_is_filter.
Print Assumptions C10_children_mut.
Print Assumptions C10_into_children.
Print Assumptions C10_children_members.
Print Assumptions C10_children_includes_self.
Print Assumptions C10_children_order.
Print Assumptions C10_remove_children.
Print Assumptions C10_remove_children_removes_children.
Print Assumptions C10_remove_children_zero.
Print Assumptions C10_retain.
Print Assumptions C10_retain_any_outcome.
Print Assumptions C10_retain_all_predicates.
Print Assumptions C10_retain_total.
Print Assumptions C10_retain_wf.
Print Assumptions C10_reachable.
Print Assumptions C10_arena_children.
Print Assumptions C10_arena_remove_children.
Print Assumptions C10_arena_retain.
