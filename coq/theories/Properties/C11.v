(** C11 — A view addresses exactly the entries under its prefix; left/right split by bit.

    (a) [view_at q] / [view_mut_at q] return [None] only if no stored prefix is covered by [q]; a
        returned view is positioned at [q] (its [prefix()] has the key of [q]; for a real node it is
        the stored node's prefix, for a virtual position it is [q] itself), its [value()] is the
        value stored exactly at [q], and its iterators yield exactly the stored entries covered by
        [q], in the map's (lexicographic) order: the list is the [filter] of [entries T].
    (b) for EVERY well-formed view (real, branching or virtual root; obtained by any sequence of
        left / right / find / find_exact / find_lpm): [left()] ([right()]) addresses exactly the
        entries of the view whose next bit after the view's prefix is 0 (1); [split()] is the pair;
        [has_left]/[has_right] agree; the entry list of the view is its own entry, then the entries
        of the left side, then those of the right side, and the three parts are pairwise disjoint.
    (c) in every state reachable by insert / entry-insert / or_insert / get_mut / remove / retain /
        clear / collect (the alphabet [History.canon_op]), a sub-view or a side exists EXACTLY when
        it contains an entry; the whole-map view always exists.
    Generic proofs: ViewsThm.v, ViewsExtra.v, MutTrav.v, Canon.v, History.v. *)
From Coq Require Import List NArith Bool Sorted.
From PT Require Import Lookup Lookup2 ViewsThm ViewsExtra MutTrav Canon Arena Arena3 ArenaProps ArenaViews.
From PT.Properties Require Import Common.
Import ListNotations.

Section C11.
Variables (w : N) (fl : flavour) (V : Type).
Hypothesis Hw : (1 <= w)%N.

Notation view := (Views.view pfx V).
Notation vwf := (view_wf pfx V pzero (kbits w) (okp w)).
Notation mwf := (vmut_wf pfx V pzero (kbits w) (okp w)).
Notation ventries := (v_entries pfx V).
Notation key := (ekey w V).
Notation under := (ViewsExtra.under pfx V (kbits w)).
Notation key_lt := (TrieWf.key_lt pfx V (kbits w)).
Notation drop_id := (Lookup2.drop_id pfx V).
Notation reach := (v_reach pfx V (peq w) (contains w fl) (is_bit_set w) plen pzero (okp w)).
Notation vcanon := (ViewsExtra.vcanon pfx V pzero (kbits w)).
Notation LAWS := (laws w fl Hw).

(** [AsViewMut::view_mut_at] of a map = [view_mut().find(q).ok()] *)
Definition view_mut_at (T : tree pfx V) (q : pfx) : option (vmut pfx) :=
  t_vm_find w fl V T (vm_root pfx) q.

(** the whole-map view of a well-formed map is a well-formed view *)
Theorem C11_whole_map_view (T : tree pfx V) : wfm w V T -> vwf (view_of T) /\ ventries (view_of T) = entries T.
Proof. intros HT. split; [exact (view_wf_root pfx V pzero _ _ T HT) | reflexivity]. Qed.

(* ---------------------------------------------------------------------------------------- *)
(** * (a) view_at *)

(** [view_at q = None] only if no stored prefix is covered by [q] *)
Theorem C11_view_at_none (T : tree pfx V) (q : pfx) :
  wfm w V T -> okp w q -> t_view_at w fl V T q = None ->
  forall e, In e (entries T) -> ~ prefix_of (kbits w q) (key e).
Proof.
  intros HT Hq H.
  pose proof (v_find_spec pfx V _ _ _ _ _ _ _ _ _ LAWS (view_of T) q (view_wf_root pfx V pzero _ _ T HT) Hq) as Hs.
  unfold t_view_at, view_at in H. rewrite H in Hs. exact Hs.
Qed.

(** the returned view is well-formed, positioned at [q], and addresses exactly the stored entries
    covered by [q] *)
Theorem C11_view_at_some (T : tree pfx V) (q : pfx) (v : view) :
  wfm w V T -> okp w q -> t_view_at w fl V T q = Some v ->
  vwf v /\ kbits w (t_v_prefix V v) = kbits w q /\
  forall e, In e (ventries v) <-> In e (entries T) /\ prefix_of (kbits w q) (key e).
Proof.
  intros HT Hq H.
  pose proof (v_find_spec pfx V _ _ _ _ _ _ _ _ _ LAWS (view_of T) q (view_wf_root pfx V pzero _ _ T HT) Hq) as Hs.
  unfold t_view_at, view_at in H. rewrite H in Hs. exact Hs.
Qed.

(** the literal value of [prefix()]: for a virtual position it is [q] as passed (host bits
    included — "network form" holds up to host bits, i.e. as keys, see [C11_view_at_some]); for a
    real node it is the prefix stored in that node *)
Theorem C11_view_at_prefix_literal (T : tree pfx V) (q p : pfx) (c : tree pfx V) :
  t_view_at w fl V T q = Some (VVirt p c) -> t_v_prefix V (VVirt p c) = q.
Proof. intros H. exact (v_find_virt_prefix pfx V _ _ _ _ (view_of T) q p c H). Qed.

(** its [value()] is the value stored exactly at [q] ([None] if [q] is not stored) — equivalently,
    what [get q] returns *)
Theorem C11_view_at_value (T : tree pfx V) (q : pfx) (v : view) :
  wfm w V T -> okp w q -> t_view_at w fl V T q = Some v ->
  (forall x, v_value v = Some x <-> exists p, In (p, x) (entries T) /\ kbits w p = kbits w q) /\
  v_value v = t_get w fl V T q.
Proof.
  intros HT Hq H.
  assert (A : forall x, v_value v = Some x <-> exists p, In (p, x) (entries T) /\ kbits w p = kbits w q).
  { intros x. exact (v_find_value pfx V _ _ _ _ _ _ _ _ _ LAWS (view_of T) q v x (view_wf_root pfx V pzero _ _ T HT) Hq H). }
  split; [exact A|].
  assert (B : forall x, t_get w fl V T q = Some x <-> exists p, In (p, x) (entries T) /\ kbits w p = kbits w q).
  { intros x. destruct T as [|i p v0 l r]; [destruct HT|].
    exact (get_spec pfx V _ _ _ _ _ _ _ _ _ LAWS [] _ q x (proj2 HT) Hq (wf_root_covers pfx V (kbits w) (okp w) _ q HT)). }
  destruct (v_value v) as [x|] eqn:E1.
  - symmetry. apply B. apply A. reflexivity.
  - destruct (t_get w fl V T q) as [y|] eqn:E2; [|reflexivity].
    pose proof (proj1 (B y) eq_refl) as H2. apply A in H2. discriminate.
Qed.

(** its iterators ([iter], [keys], [values], [into_iter]) yield exactly the stored entries covered
    by [q], in the order of the map's own iteration: the list is [entries T] filtered by "covered by
    [q]"; that list is strictly ascending in the lexicographic order of the keys *)
Theorem C11_view_at_iter (T : tree pfx V) (q : pfx) (v : view) :
  wfm w V T -> okp w q -> t_view_at w fl V T q = Some v ->
  map drop_id (v_iter v) = filter (under (kbits w q)) (entries T) /\
  StronglySorted key_lt (map drop_id (v_iter v)).
Proof.
  intros HT Hq H.
  pose proof (v_find_filter pfx V _ _ _ _ _ _ _ _ _ LAWS (view_of T) q (view_wf_root pfx V pzero _ _ T HT) Hq) as Hs.
  unfold t_view_at, view_at in H. rewrite H in Hs. rewrite v_iter_entries. split; [exact Hs|].
  pose proof (v_find_spec pfx V _ _ _ _ _ _ _ _ _ LAWS (view_of T) q (view_wf_root pfx V pzero _ _ T HT) Hq) as Hf.
  rewrite H in Hf. exact (v_entries_sorted pfx V pzero _ _ v (proj1 Hf)).
Qed.

(** no result only if the filter is empty (list form of [C11_view_at_none]) *)
Theorem C11_view_at_none_filter (T : tree pfx V) (q : pfx) :
  wfm w V T -> okp w q -> t_view_at w fl V T q = None -> filter (under (kbits w q)) (entries T) = [].
Proof.
  intros HT Hq H.
  pose proof (v_find_filter pfx V _ _ _ _ _ _ _ _ _ LAWS (view_of T) q (view_wf_root pfx V pzero _ _ T HT) Hq) as Hs.
  unfold t_view_at, view_at in H. rewrite H in Hs. exact Hs.
Qed.

(** the filter test is "the key of [q] is a prefix of the key of the entry" *)
Theorem C11_under_spec (k : list bool) (e : pfx * V) : under k e = true <-> prefix_of k (key e).
Proof. exact (under_spec pfx V (kbits w) k e). Qed.

(** [view_mut_at] locates the same position as [view_at] ([None] = [None]); [prefix()], [value()]
    and the mutable iterators of a mutable view are those of the read-only view at the same
    location *)
Theorem C11_view_mut_at_sim (T : tree pfx V) (q : pfx) :
  option_map (vm_view T) (view_mut_at T q) = t_view_at w fl V T q.
Proof.
  unfold view_mut_at, t_vm_find, t_view_at, view_at. rewrite (vm_find_sim pfx V).
  unfold vm_view, vm_root, vm_tree. cbn [mvirt mpath]. rewrite (subtree_nil pfx V). reflexivity.
Qed.

Theorem C11_mut_accessors (T : tree pfx V) (m : vmut pfx) :
  t_vm_prefix V T m = t_v_prefix V (vm_view T m) /\
  vm_value T m = v_value (vm_view T m) /\
  vm_iter_mut T m = v_iter (vm_view T m).
Proof.
  split; [exact (vm_prefix_sim pfx V pzero T m)|].
  split; [exact (vm_value_sim pfx V T m) | exact (vm_iter_mut_sim pfx V T m)].
Qed.

Theorem C11_view_mut_at_none (T : tree pfx V) (q : pfx) :
  wfm w V T -> okp w q -> view_mut_at T q = None ->
  forall e, In e (entries T) -> ~ prefix_of (kbits w q) (key e).
Proof.
  intros HT Hq H. apply C11_view_at_none; [exact HT | exact Hq|].
  rewrite <- C11_view_mut_at_sim, H. reflexivity.
Qed.

Theorem C11_view_mut_at_some (T : tree pfx V) (q : pfx) (m : vmut pfx) :
  wfm w V T -> okp w q -> view_mut_at T q = Some m ->
  mwf T m /\ kbits w (t_vm_prefix V T m) = kbits w q /\
  (forall x, vm_value T m = Some x <-> exists p, In (p, x) (entries T) /\ kbits w p = kbits w q) /\
  vm_value T m = t_get w fl V T q /\
  map drop_id (vm_iter_mut T m) = filter (under (kbits w q)) (entries T).
Proof.
  intros HT Hq H.
  assert (H' : t_view_at w fl V T q = Some (vm_view T m)) by (rewrite <- C11_view_mut_at_sim, H; reflexivity).
  destruct (C11_mut_accessors T m) as [E1 [E2 E3]]. rewrite E1, E2, E3.
  destruct (C11_view_at_some T q _ HT Hq H') as [A [B _]].
  destruct (C11_view_at_value T q _ HT Hq H') as [C D].
  destruct (C11_view_at_iter T q _ HT Hq H') as [E _].
  split; [exact A|]. split; [exact B|]. split; [exact C|]. split; [exact D | exact E].
Qed.

(* ---------------------------------------------------------------------------------------- *)
(** * (b) left / right / split, for every well-formed view *)

(** [left()] ([s = false]) / [right()] ([s = true]) return a well-formed view on a real node that
    addresses exactly the entries of the view under the view's prefix whose next bit is [s]; they
    return [None] only if there is no such entry *)
Theorem C11_side (v : view) (s : bool) :
  vwf v ->
  match (if s then t_v_right w V v else t_v_left w V v) with
  | Some v' =>
    vwf v' /\ v_is_virtual v' = false /\
    forall e, In e (ventries v') <-> In e (ventries v) /\ prefix_of (kbits w (t_v_prefix V v) ++ [s]) (key e)
  | None => forall e, In e (ventries v) -> ~ prefix_of (kbits w (t_v_prefix V v) ++ [s]) (key e)
  end.
Proof. exact (v_side_spec pfx V _ _ _ _ _ _ _ _ _ LAWS v s). Qed.

(** the same as an equality of entry lists (order included) *)
Theorem C11_side_filter (v : view) (s : bool) :
  vwf v ->
  match (if s then t_v_right w V v else t_v_left w V v) with
  | Some v' => ventries v' = filter (under (kbits w (t_v_prefix V v) ++ [s])) (ventries v)
  | None => filter (under (kbits w (t_v_prefix V v) ++ [s])) (ventries v) = []
  end.
Proof. exact (v_side_filter pfx V _ _ _ _ _ _ _ _ _ LAWS v s). Qed.

(** the view's entries are its own entry, then the left side, then the right side ... *)
Theorem C11_decomposition (v : view) :
  ventries v = own_entry pfx V v ++ opt_entries pfx V (t_v_left w V v) ++ opt_entries pfx V (t_v_right w V v).
Proof. exact (v_entries_decomp pfx V _ _ _ v). Qed.

(** ... where the own entry (if any) is [(prefix(), value())], the only entry with the view's key *)
Theorem C11_own_entry (v : view) (e : pfx * V) :
  vwf v -> In e (ventries v) -> key e = kbits w (t_v_prefix V v) ->
  v_is_virtual v = false /\ fst e = t_v_prefix V v /\ v_value v = Some (snd e).
Proof. exact (v_own_entry pfx V pzero _ _ v e). Qed.

(** ... every entry is the own entry or lies on exactly one side (next bit 0 / next bit 1) ... *)
Theorem C11_entries_split (v : view) (e : pfx * V) :
  vwf v -> In e (ventries v) ->
  key e = kbits w (t_v_prefix V v) \/
  prefix_of (kbits w (t_v_prefix V v) ++ [false]) (key e) \/
  prefix_of (kbits w (t_v_prefix V v) ++ [true]) (key e).
Proof. exact (v_entries_split pfx V pzero _ _ v e). Qed.

(** ... and the three cases exclude each other *)
Theorem C11_parts_disjoint (k k' : list bool) :
  (prefix_of (k ++ [false]) k' -> prefix_of (k ++ [true]) k' -> False) /\
  (forall s, prefix_of (k ++ [s]) k' -> k' <> k).
Proof. split; [apply sides_disjoint | intros s H E; exact (below_neq _ _ _ H E)]. Qed.

(** the mutable view: [left]/[right] simulate the read-only ones; [split()] returns both;
    [has_left]/[has_right] say whether they exist *)
Theorem C11_mut_sides_sim (T : tree pfx V) (m : vmut pfx) :
  option_map (vm_view T) (t_vm_left w V T m) = t_v_left w V (vm_view T m) /\
  option_map (vm_view T) (t_vm_right w V T m) = t_v_right w V (vm_view T m).
Proof. split; [exact (vm_left_sim pfx V _ _ _ T m) | exact (vm_right_sim pfx V _ _ _ T m)]. Qed.

Theorem C11_split (T : tree pfx V) (m : vmut pfx) :
  t_vm_split w V T m = (t_vm_left w V T m, t_vm_right w V T m).
Proof. exact (vm_split_eq pfx V _ _ _ T m). Qed.

Theorem C11_has_left (T : tree pfx V) (m : vmut pfx) :
  t_vm_has_left w V T m = true <-> t_vm_left w V T m <> None.
Proof. exact (vm_has_left_spec pfx V _ _ _ T m). Qed.

Theorem C11_has_right (T : tree pfx V) (m : vmut pfx) :
  t_vm_has_right w V T m = true <-> t_vm_right w V T m <> None.
Proof. exact (vm_has_right_spec pfx V _ _ _ T m). Qed.

(** the content of the mutable sides (hence of both halves of [split()]) *)
Theorem C11_mut_side (T : tree pfx V) (m : vmut pfx) (s : bool) :
  mwf T m ->
  match (if s then t_vm_right w V T m else t_vm_left w V T m) with
  | Some m' =>
    mwf T m' /\ mvirt pfx m' = None /\
    forall e, In e (ventries (vm_view T m')) <->
              In e (ventries (vm_view T m)) /\ prefix_of (kbits w (t_vm_prefix V T m) ++ [s]) (key e)
  | None => forall e, In e (ventries (vm_view T m)) -> ~ prefix_of (kbits w (t_vm_prefix V T m) ++ [s]) (key e)
  end.
Proof. exact (vm_side_spec pfx V _ _ _ _ _ _ _ _ _ LAWS T m s). Qed.

(** recursion: every view reachable from a well-formed view by any sequence of
    left / right / find / find_exact / find_lpm is well-formed again — so all statements of this
    file (and of C12) hold for it — and addresses a subset of the entries *)
Theorem C11_reachable_views (v v' : view) :
  vwf v -> reach v v' -> vwf v' /\ incl (ventries v') (ventries v).
Proof. exact (v_reach_wf pfx V _ _ _ _ _ _ _ _ _ LAWS v v'). Qed.

(** ... in particular every view reachable from the whole-map view of a reachable state *)
Theorem C11_reachable_state_views (ops : list (hop V)) (v : view) :
  Forall (hop_ok w V) ops -> reach (view_of (root (hrun w fl V ops))) v ->
  vwf v /\ incl (ventries v) (entries (root (hrun w fl V ops))).
Proof.
  intros Hops Hr.
  exact (C11_reachable_views _ v (view_wf_root pfx V pzero _ _ _ (reachable_wfm w fl V Hw ops Hops)) Hr).
Qed.

(* ---------------------------------------------------------------------------------------- *)
(** * (c) canonical histories: a sub-view or side exists exactly when it is non-empty *)

(** the states reachable over the alphabet insert / entry().insert / or_insert / get_mut-style
    updates / remove / retain / clear / collect / writes through iterators ([History.canon_op];
    excluded: [remove_keep_tree], [remove_children], [OccupiedEntry::remove] and the view-level
    [set]/[remove], which leave value-less nodes behind) *)
Definition canon_ops (ops : list (hop V)) : Prop := forallb (History.canon_op pfx V) ops = true.

Lemma C11_canon_root (ops : list (hop V)) :
  Forall (hop_ok w V) ops -> canon_ops ops ->
  vwf (view_of (root (hrun w fl V ops))) /\ vcanon (view_of (root (hrun w fl V ops))).
Proof.
  intros Hops Hc. pose proof (reachable_wfm w fl V Hw ops Hops) as HT.
  split; [exact (view_wf_root pfx V pzero _ _ _ HT)|].
  apply (vcanon_root pfx V pzero (kbits w) (okp w) _ HT).
  exact (reachable_canonical pfx V _ _ _ _ _ _ ops Hc).
Qed.

(** a sub-view of the map (at a non-empty prefix) exists exactly when it contains an entry *)
Theorem C11_canon_view_at (ops : list (hop V)) (q : pfx) :
  Forall (hop_ok w V) ops -> canon_ops ops -> okp w q -> plen q <> 0%N ->
  let T := root (hrun w fl V ops) in
  t_view_at w fl V T q <> None <-> exists e, In e (entries T) /\ prefix_of (kbits w q) (key e).
Proof.
  intros Hops Hc Hq Hlen T. destruct (C11_canon_root ops Hops Hc) as [A B].
  apply (v_find_canon_iff pfx V _ _ _ _ _ _ _ _ _ LAWS (view_of T) q A B Hq).
  left. apply (plen_pos_bits pfx _ _ _ _ _ _ _ _ _ LAWS q Hq). exact Hlen.
Qed.

(** the whole-map view always exists: [view()] is total, and [view_at] of the empty prefix returns
    it, whatever the map contains (also when it is empty) *)
Theorem C11_whole_map_view_exists (T : tree pfx V) (q : pfx) :
  wfm w V T -> okp w q -> plen q = 0%N -> t_view_at w fl V T q = Some (view_of T).
Proof.
  intros HT Hq Hlen. apply (view_at_root pfx V _ _ _ _ _ _ _ _ _ LAWS T q HT Hq).
  destruct (kbits w q) eqn:E; [reflexivity|]. exfalso.
  apply (plen_pos_bits pfx _ _ _ _ _ _ _ _ _ LAWS q Hq); [|exact Hlen]. rewrite E. discriminate.
Qed.

(** for EVERY view reachable from the whole-map view: a side exists exactly when some entry of
    the view has that next bit *)
Theorem C11_canon_side (ops : list (hop V)) (v : view) (s : bool) :
  Forall (hop_ok w V) ops -> canon_ops ops -> reach (view_of (root (hrun w fl V ops))) v ->
  (if s then t_v_right w V v else t_v_left w V v) <> None <->
  exists e, In e (ventries v) /\ prefix_of (kbits w (t_v_prefix V v) ++ [s]) (key e).
Proof.
  intros Hops Hc Hr. destruct (C11_canon_root ops Hops Hc) as [A B].
  apply (v_side_canon_iff pfx V _ _ _ _ _ _ _ _ _ LAWS v s).
  - exact (proj1 (v_reach_wf pfx V _ _ _ _ _ _ _ _ _ LAWS _ v A Hr)).
  - exact (v_reach_canon pfx V _ _ _ _ _ _ _ _ _ LAWS _ v A B Hr).
Qed.

(** ... and a sub-view (at a non-empty prefix) exists exactly when some entry of the view is
    covered by the query *)
Theorem C11_canon_find (ops : list (hop V)) (v : view) (q : pfx) :
  Forall (hop_ok w V) ops -> canon_ops ops -> reach (view_of (root (hrun w fl V ops))) v ->
  okp w q -> plen q <> 0%N ->
  t_v_find w fl V v q <> None <-> exists e, In e (ventries v) /\ prefix_of (kbits w q) (key e).
Proof.
  intros Hops Hc Hr Hq Hlen. destruct (C11_canon_root ops Hops Hc) as [A B].
  apply (v_find_canon_iff pfx V _ _ _ _ _ _ _ _ _ LAWS v q).
  - exact (proj1 (v_reach_wf pfx V _ _ _ _ _ _ _ _ _ LAWS _ v A Hr)).
  - exact (v_reach_canon pfx V _ _ _ _ _ _ _ _ _ LAWS _ v A B Hr).
  - exact Hq.
  - left. apply (plen_pos_bits pfx _ _ _ _ _ _ _ _ _ LAWS q Hq). exact Hlen.
Qed.

(** every view other than the whole-map view holds at least one entry *)
Theorem C11_canon_nonempty (ops : list (hop V)) (v : view) :
  Forall (hop_ok w V) ops -> canon_ops ops -> reach (view_of (root (hrun w fl V ops))) v ->
  v = view_of (root (hrun w fl V ops)) \/ exists e, In e (ventries v).
Proof.
  intros Hops Hc Hr. pose proof (reachable_wfm w fl V Hw ops Hops) as HT.
  destruct (v_reach_canon_root pfx V _ _ _ _ _ _ _ _ _ LAWS _ v HT (reachable_canonical pfx V _ _ _ _ _ _ ops Hc) Hr)
    as [E|[_ H]]; [left; exact E | right; exact H].
Qed.

(** the mutable twins: [has_left]/[has_right] (= existence of [left]/[right] = the halves of
    [split]) hold exactly when that side contains an entry *)
Theorem C11_canon_mut_side (ops : list (hop V)) (m : vmut pfx) (s : bool) :
  let T := root (hrun w fl V ops) in
  Forall (hop_ok w V) ops -> canon_ops ops -> reach (view_of T) (vm_view T m) ->
  (if s then t_vm_has_right w V T m else t_vm_has_left w V T m) = true <->
  exists e, In e (ventries (vm_view T m)) /\ prefix_of (kbits w (t_vm_prefix V T m) ++ [s]) (key e).
Proof.
  intros T Hops Hc Hr.
  pose proof (C11_canon_side ops (vm_view T m) s Hops Hc Hr) as H.
  destruct (C11_mut_accessors T m) as [E _]. rewrite E. rewrite <- H. clear H.
  destruct (C11_mut_sides_sim T m) as [Sl Sr].
  destruct s.
  - rewrite C11_has_right, <- Sr. destruct (t_vm_right w V T m); cbn; split; intros H; congruence.
  - rewrite C11_has_left, <- Sl. destruct (t_vm_left w V T m); cbn; split; intros H; congruence.
Qed.

(* ---------------------------------------------------------------------------------------- *)
(** * The same statements about the ARENA-level transcription of [TrieView] / [TrieViewMut]
      ([Arena3.a_v_*] / [a_vm_*], ArenaViews.v): [am] is any arena reachable from the empty arena by a
      history over the whole mutator alphabet; [es] is what the map's / the view's own iteration
      yields.  Only arena-level observations occur in the statements. *)
Notation avreach am := (a_vreach pfx V (peq w) (contains w fl) (is_bit_set w) plen (lcp w fl) (okp w) (Arena.tbl am)).
Notation aviter am := (a_v_iter pfx V (Arena.tbl am)).

(** [view_at q] / [view_mut_at q] ([find q] at the root location, both families) *)
Theorem C11_arena_view_at (am : Arena.amap pfx V) q es :
  areach pfx V (peq w) (contains w fl) (is_bit_set w) plen (lcp w fl) pzero (okp w) am -> okp w q -> Arena.a_entries pfx V am = Arena.Ok es ->
  exists o, Arena3.a_v_find pfx V (peq w) (contains w fl) (is_bit_set w) plen (lcp w fl) (Arena.tbl am) (Arena3.LNode 0) q = Arena.Ok o /\
            Arena3.a_vm_find pfx V (peq w) (contains w fl) (is_bit_set w) plen (lcp w fl) (Arena.tbl am) (Arena3.LNode 0) q = Arena.Ok o /\
    match o with
    | Some l' => avreach am l' /\ aviter am l' = Arena.Ok (filter (under (kbits w q)) es) /\
                 exists p, Arena3.a_v_prefix pfx V (Arena.tbl am) l' = Arena.Ok p /\ kbits w p = kbits w q
    | None => filter (under (kbits w q)) es = []
    end.
Proof. exact (arena_C11_view_at pfx V _ _ _ _ _ _ _ _ _ LAWS am q es). Qed.

(** [left()] ([s = false]) / [right()] ([s = true]) at any location reachable by navigation *)
Theorem C11_arena_side (am : Arena.amap pfx V) l (s : bool) p es :
  areach pfx V (peq w) (contains w fl) (is_bit_set w) plen (lcp w fl) pzero (okp w) am -> avreach am l ->
  Arena3.a_v_prefix pfx V (Arena.tbl am) l = Arena.Ok p -> aviter am l = Arena.Ok es ->
  exists o, (if s then Arena3.a_v_right pfx V (is_bit_set w) plen (Arena.tbl am) l
             else Arena3.a_v_left pfx V (is_bit_set w) plen (Arena.tbl am) l) = Arena.Ok o /\
    match o with
    | Some l' => avreach am l' /\ aviter am l' = Arena.Ok (filter (under (kbits w p ++ [s])) es)
    | None => filter (under (kbits w p ++ [s])) es = []
    end.
Proof. exact (arena_C11_side pfx V _ _ _ _ _ _ _ _ _ LAWS am l s p es). Qed.

End C11.

(** non-vacuity, [w = 8], the map {1/1 -> 1, 10/2 -> 2, 11/2 -> 3, 101/3 -> 4, 11010/5 -> 5}:
    - [view_at 110/3] (query given with host bits, [0xc7]) is a VIRTUAL view on the edge
      11/2 -> 11010/5: prefix as passed, no value, entries {11010/5};
    - [view_at 1/1] is a real view holding all five entries, in order, with value 1;
    - [view_at 0/1] does not exist; [view_at 0/0] is the whole-map view;
    - [view_mut_at 110/3] is the same location (path right-right-left, virtual);
    - the virtual view has no left side, its right side is the real node 11010/5; [split],
      [has_left], [has_right] of the mutable twin agree;
    - the sides of the view at 1/1 are {10/2, 101/3} and {11/2, 11010/5}. *)
Example C11_example :
  let ins := fun m p x => fst (t_insert 8 Generic nat m p x) in
  let M := ins (ins (ins (ins (ins (t_empty nat) (mkpfx 0x80 1) 1%nat) (mkpfx 0x80 2) 2%nat)
                 (mkpfx 0xc0 2) 3%nat) (mkpfx 0xa0 3) 4%nat) (mkpfx 0xd0 5) 5%nat in
  let T := root M in
  let info := option_map (fun v : view pfx nat =>
                (v_is_virtual v, t_v_prefix nat v, v_value v, map (Lookup2.drop_id pfx nat) (v_iter v))) in
  let at_ := t_view_at 8 Generic nat T in
  info (at_ (mkpfx 0xc7 3)) = Some (true, mkpfx 0xc7 3, None, [(mkpfx 0xd0 5, 5%nat)]) /\
  info (at_ (mkpfx 0x80 1)) =
    Some (false, mkpfx 0x80 1, Some 1%nat,
          [(mkpfx 0x80 1, 1%nat); (mkpfx 0x80 2, 2%nat); (mkpfx 0xa0 3, 4%nat); (mkpfx 0xc0 2, 3%nat); (mkpfx 0xd0 5, 5%nat)]) /\
  at_ (mkpfx 0x00 1) = None /\
  at_ (mkpfx 0x00 0) = Some (view_of T) /\
  view_mut_at 8 Generic nat T (mkpfx 0xc7 3) = Some (mkvmut pfx [true; true; false] (Some (mkpfx 0xc7 3))) /\
  (match at_ (mkpfx 0xc7 3) with
   | Some v => info (t_v_left 8 nat v) = None /\
               info (t_v_right 8 nat v) = Some (false, mkpfx 0xd0 5, Some 5%nat, [(mkpfx 0xd0 5, 5%nat)])
   | None => False
   end) /\
  (let m := mkvmut pfx [true; true; false] (Some (mkpfx 0xc7 3)) in
   t_vm_split 8 nat T m = (None, Some (mkvmut pfx [true; true; false] None)) /\
   t_vm_has_left 8 nat T m = false /\ t_vm_has_right 8 nat T m = true) /\
  (match at_ (mkpfx 0x80 1) with
   | Some v => info (t_v_left 8 nat v) = Some (false, mkpfx 0x80 2, Some 2%nat, [(mkpfx 0x80 2, 2%nat); (mkpfx 0xa0 3, 4%nat)]) /\
               info (t_v_right 8 nat v) = Some (false, mkpfx 0xc0 2, Some 3%nat, [(mkpfx 0xc0 2, 3%nat); (mkpfx 0xd0 5, 5%nat)])
   | None => False
   end).
Proof. vm_compute. repeat split; reflexivity. Qed.

(** the restriction of (c) to the canonical alphabet is necessary: after [remove_keep_tree] the
    value-less leaf 101/3 is still a node, so [view_at 101/3] exists although it holds no entry
    (parts (a) and (b) still hold for it) *)
Example C11_noncanonical_example :
  let ins := fun m p x => fst (t_insert 8 Generic nat m p x) in
  let M := ins (ins (t_empty nat) (mkpfx 0x80 1) 1%nat) (mkpfx 0xa0 3) 4%nat in
  let T := root (fst (t_remove_keep_tree 8 Generic nat M (mkpfx 0xa0 3))) in
  option_map (fun v : view pfx nat => (v_is_virtual v, v_value v, v_iter v)) (t_view_at 8 Generic nat T (mkpfx 0xa0 3))
  = Some (false, None, []) /\
  entries T = [(mkpfx 0x80 1, 1%nat)].
Proof. vm_compute. split; reflexivity. Qed.

Print Assumptions C11_whole_map_view.
Print Assumptions C11_view_at_none.
Print Assumptions C11_view_at_some.
Print Assumptions C11_view_at_prefix_literal.
Print Assumptions C11_view_at_value.
Print Assumptions C11_view_at_iter.
Print Assumptions C11_view_at_none_filter.
Print Assumptions C11_under_spec.
Print Assumptions C11_view_mut_at_sim.
Print Assumptions C11_mut_accessors.
Print Assumptions C11_view_mut_at_none.
Print Assumptions C11_view_mut_at_some.
Print Assumptions C11_side.
Print Assumptions C11_side_filter.
Print Assumptions C11_decomposition.
Print Assumptions C11_own_entry.
Print Assumptions C11_entries_split.
Print Assumptions C11_parts_disjoint.
Print Assumptions C11_mut_sides_sim.
Print Assumptions C11_split.
Print Assumptions C11_has_left.
Print Assumptions C11_has_right.
Print Assumptions C11_mut_side.
Print Assumptions C11_reachable_views.
Print Assumptions C11_reachable_state_views.
Print Assumptions C11_canon_root.
Print Assumptions C11_canon_view_at.
Print Assumptions C11_whole_map_view_exists.
Print Assumptions C11_canon_side.
Print Assumptions C11_canon_find.
Print Assumptions C11_canon_nonempty.
Print Assumptions C11_canon_mut_side.
Print Assumptions C11_arena_view_at.
Print Assumptions C11_arena_side.
