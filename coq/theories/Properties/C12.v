(** C12 — Searching from any view is relative to that view's entries, for every query.

    For every well-formed view [v] — rooted at a stored node, a branching node or a virtual position;
    every view reachable from a reachable map state by view_at / find / find_exact / find_lpm / left /
    right / split is one ([C12_reachable_views]) — and EVERY valid query [q] (inside the view, equal
    to its prefix, covering it, between a virtual root and its real node, disjoint from it):
    - [find q] returns a view positioned at [q] that addresses exactly the entries of [v] covered by
      [q] (as a list: the filter of [v]'s entries), and [None] only if there are none;
    - [find_exact q] answers exactly when [q] is stored in [v], with the very view [find q] returns;
    - [find_lpm q] answers exactly when [v] stores a prefix covering [q], with the view [find_exact]
      returns for the longest such prefix;
    - the [TrieViewMut] twins compute the same locations and fail (hand back the original view:
      [None] in the model, the caller keeps [m]) in exactly the same cases;
    - [view_at] on a view is [find] (in the code: the default method [self.view().find(p)]).
    Generic proofs: ViewsThm.v, ViewsExtra.v, MutTrav.v. *)
From Coq Require Import List NArith Bool Sorted.
From PT Require Import Lookup Lookup2 ViewsThm ViewsExtra MutTrav Arena Arena3 ArenaProps ArenaViews.
From PT.Properties Require Import Common.
Import ListNotations.

Section C12.
Variables (w : N) (fl : flavour) (V : Type).
Hypothesis Hw : (1 <= w)%N.

Notation view := (Views.view pfx V).
Notation vwf := (view_wf pfx V pzero (kbits w) (okp w)).
Notation mwf := (vmut_wf pfx V pzero (kbits w) (okp w)).
Notation ventries := (v_entries pfx V).
Notation key := (ekey w V).
Notation under := (ViewsExtra.under pfx V (kbits w)).
Notation reach := (v_reach pfx V (peq w) (contains w fl) (is_bit_set w) plen pzero (okp w)).
Notation is_lpm := (Lookup.is_lpm pfx V (kbits w)).
Notation no_cover := (Lookup.no_cover pfx V (kbits w)).
Notation LAWS := (laws w fl Hw).

(** the views the theorems range over include every view obtainable from a reachable state *)
Theorem C12_reachable_views (ops : list (hop V)) (v : view) :
  Forall (hop_ok w V) ops -> reach (view_of (root (hrun w fl V ops))) v -> vwf v.
Proof.
  intros Hops Hr.
  exact (proj1 (v_reach_wf pfx V _ _ _ _ _ _ _ _ _ LAWS _ v
                  (view_wf_root pfx V pzero _ _ _ (reachable_wfm w fl V Hw ops Hops)) Hr)).
Qed.

(* ---------------------------------------------------------------------------------------- *)
(** * find *)

(** [find q] returns a well-formed view positioned at [q] addressing exactly the entries of [v]
    covered by [q]; [None] only if there are none *)
Theorem C12_find (v : view) (q : pfx) :
  vwf v -> okp w q ->
  match t_v_find w fl V v q with
  | Some v' =>
    vwf v' /\ kbits w (t_v_prefix V v') = kbits w q /\
    forall e, In e (ventries v') <-> In e (ventries v) /\ prefix_of (kbits w q) (key e)
  | None => forall e, In e (ventries v) -> ~ prefix_of (kbits w q) (key e)
  end.
Proof. exact (v_find_spec pfx V _ _ _ _ _ _ _ _ _ LAWS v q). Qed.

(** the same as an equality of entry lists (what the iterators of the result yield, in order) *)
Theorem C12_find_filter (v : view) (q : pfx) :
  vwf v -> okp w q ->
  match t_v_find w fl V v q with
  | Some v' => ventries v' = filter (under (kbits w q)) (ventries v)
  | None => filter (under (kbits w q)) (ventries v) = []
  end.
Proof. exact (v_find_filter pfx V _ _ _ _ _ _ _ _ _ LAWS v q). Qed.

Theorem C12_under_spec (k : list bool) (e : pfx * V) : under k e = true <-> prefix_of k (key e).
Proof. exact (under_spec pfx V (kbits w) k e). Qed.

(** the value of the view found is the value [v] stores exactly at [q]; a virtual result carries
    [q] itself as its prefix *)
Theorem C12_find_value (v v' : view) (q : pfx) (x : V) :
  vwf v -> okp w q -> t_v_find w fl V v q = Some v' ->
  (v_value v' = Some x <-> exists p, In (p, x) (ventries v) /\ kbits w p = kbits w q).
Proof. exact (v_find_value pfx V _ _ _ _ _ _ _ _ _ LAWS v q v' x). Qed.

Theorem C12_find_prefix_literal (v : view) (q p : pfx) (c : tree pfx V) :
  t_v_find w fl V v q = Some (VVirt p c) -> p = q.
Proof. exact (v_find_virt_prefix pfx V _ _ _ _ v q p c). Qed.

(** queries covering the view's real node — this includes every query covering the view's prefix
    and every query between a virtual root and its real node — address the whole view: the result
    exists, sits on the same node, and has the same entries *)
Theorem C12_find_covering (v : view) (q : pfx) :
  vwf v -> okp w q -> prefix_of (kbits w q) (kbits w (tpfx pfx V pzero (v_tree v))) ->
  exists v', t_v_find w fl V v q = Some v' /\ v_tree v' = v_tree v /\ ventries v' = ventries v.
Proof. exact (v_find_above pfx V _ _ _ _ _ _ _ _ _ LAWS v q). Qed.

Theorem C12_find_covering_prefix (v : view) (q : pfx) :
  vwf v -> okp w q -> prefix_of (kbits w q) (kbits w (t_v_prefix V v)) ->
  exists v', t_v_find w fl V v q = Some v' /\ v_tree v' = v_tree v /\ ventries v' = ventries v.
Proof.
  intros Hv Hq Hc. apply (C12_find_covering v q Hv Hq).
  eapply prefix_of_trans; [exact Hc|].
  destruct v as [t|p t]; [apply prefix_of_refl|]. destruct Hv as [_ [_ [_ [H _]]]]. exact H.
Qed.

(** queries disjoint from the view's prefix find nothing, by any of the three searches *)
Theorem C12_disjoint (v : view) (q : pfx) :
  vwf v -> okp w q ->
  ~ prefix_of (kbits w q) (kbits w (t_v_prefix V v)) -> ~ prefix_of (kbits w (t_v_prefix V v)) (kbits w q) ->
  t_v_find w fl V v q = None /\ t_v_find_exact w fl V v q = None /\ t_v_find_lpm w fl V v q = None.
Proof. exact (v_find_disjoint pfx V _ _ _ _ _ _ _ _ _ LAWS v q). Qed.

(* ---------------------------------------------------------------------------------------- *)
(** * find_exact *)

(** [find_exact q] answers EXACTLY when [q] is stored in the view *)
Theorem C12_find_exact_iff (v : view) (q : pfx) :
  vwf v -> okp w q ->
  (t_v_find_exact w fl V v q <> None <-> exists e, In e (ventries v) /\ key e = kbits w q).
Proof. exact (v_find_exact_iff pfx V _ _ _ _ _ _ _ _ _ LAWS v q). Qed.

(** the view it returns is the view positioned at [q]: a real node, well-formed, with the key of
    [q], carrying the value [v] stores at [q], addressing exactly the entries of [v] covered by [q] *)
Theorem C12_find_exact (v v' : view) (q : pfx) :
  vwf v -> okp w q -> t_v_find_exact w fl V v q = Some v' ->
  vwf v' /\ v_is_virtual v' = false /\ kbits w (t_v_prefix V v') = kbits w q /\
  (exists x, v_value v' = Some x /\ In (t_v_prefix V v', x) (ventries v)) /\
  (forall e, In e (ventries v') <-> In e (ventries v) /\ prefix_of (kbits w q) (key e)).
Proof. exact (v_find_exact_full pfx V _ _ _ _ _ _ _ _ _ LAWS v q v'). Qed.

(** ... it is the very view [find q] returns *)
Theorem C12_find_exact_is_find (v v' : view) (q : pfx) :
  vwf v -> okp w q -> t_v_find_exact w fl V v q = Some v' -> t_v_find w fl V v q = Some v'.
Proof. exact (v_find_exact_find pfx V _ _ _ _ _ _ _ _ _ LAWS v q v'). Qed.

(* ---------------------------------------------------------------------------------------- *)
(** * find_lpm *)

(** [find_lpm q] answers EXACTLY when the view stores a prefix covering [q] ... *)
Theorem C12_find_lpm_iff (v : view) (q : pfx) :
  vwf v -> okp w q ->
  (t_v_find_lpm w fl V v q <> None <-> exists e, In e (ventries v) /\ prefix_of (key e) (kbits w q)).
Proof. exact (v_find_lpm_iff pfx V _ _ _ _ _ _ _ _ _ LAWS v q). Qed.

Theorem C12_find_lpm_none (v : view) (q : pfx) :
  vwf v -> okp w q -> t_v_find_lpm w fl V v q = None -> no_cover (ventries v) q.
Proof.
  intros Hv Hq H. pose proof (v_find_lpm_spec pfx V _ _ _ _ _ _ _ _ _ LAWS v q Hv Hq) as Hs.
  unfold t_v_find_lpm in H. rewrite H in Hs. exact Hs.
Qed.

(** ... and then returns the view positioned at the longest prefix [e] stored in [v] that covers
    [q]: a real, well-formed view whose prefix and value are [e], addressing exactly the entries of
    [v] under [e] *)
Theorem C12_find_lpm (v v' : view) (q : pfx) :
  vwf v -> okp w q -> t_v_find_lpm w fl V v q = Some v' ->
  exists e, is_lpm (ventries v) q e /\
    vwf v' /\ v_is_virtual v' = false /\ t_v_prefix V v' = fst e /\ v_value v' = Some (snd e) /\
    (forall e', In e' (ventries v') <-> In e' (ventries v) /\ prefix_of (key e) (key e')).
Proof. exact (v_find_lpm_view pfx V _ _ _ _ _ _ _ _ _ LAWS v q v'). Qed.

(** ... it is the very view [find_exact] (hence [find]) returns for that prefix *)
Theorem C12_find_lpm_is_find_exact (v v' : view) (q : pfx) :
  vwf v -> okp w q -> t_v_find_lpm w fl V v q = Some v' ->
  exists e, is_lpm (ventries v) q e /\ v_prefix_value v' = Some e /\
            t_v_find_exact w fl V v (fst e) = Some v'.
Proof. exact (v_find_lpm_full pfx V _ _ _ _ _ _ _ _ _ LAWS v q v'). Qed.

(* ---------------------------------------------------------------------------------------- *)
(** * the mutable twins *)

(** [TrieViewMut::find] / [find_exact] / [find_lpm] compute the location of the read-only search
    from the read-only view at the same location ([AsView for &TrieViewMut]) *)
Theorem C12_mut_sim (T : tree pfx V) (m : vmut pfx) (q : pfx) :
  option_map (vm_view T) (t_vm_find w fl V T m q) = t_v_find w fl V (vm_view T m) q /\
  option_map (vm_view T) (t_vm_find_exact w fl V T m q) = t_v_find_exact w fl V (vm_view T m) q /\
  option_map (vm_view T) (t_vm_find_lpm w fl V T m q) = t_v_find_lpm w fl V (vm_view T m) q.
Proof.
  split; [exact (vm_find_sim pfx V _ _ _ _ T m q)|].
  split; [exact (vm_find_exact_sim pfx V _ _ _ _ T m q) | exact (vm_find_lpm_sim pfx V _ _ _ _ T m q)].
Qed.

(** they fail ([Err(self)]: the original view is handed back) exactly when the read-only search
    returns [None] *)
Theorem C12_mut_failure (T : tree pfx V) (m : vmut pfx) (q : pfx) :
  (t_vm_find w fl V T m q = None <-> t_v_find w fl V (vm_view T m) q = None) /\
  (t_vm_find_exact w fl V T m q = None <-> t_v_find_exact w fl V (vm_view T m) q = None) /\
  (t_vm_find_lpm w fl V T m q = None <-> t_v_find_lpm w fl V (vm_view T m) q = None).
Proof.
  destruct (C12_mut_sim T m q) as [A [B C]]. rewrite <- A, <- B, <- C.
  repeat split; intros H; try (rewrite H; reflexivity).
  - destruct (t_vm_find w fl V T m q); [discriminate | reflexivity].
  - destruct (t_vm_find_exact w fl V T m q); [discriminate | reflexivity].
  - destruct (t_vm_find_lpm w fl V T m q); [discriminate | reflexivity].
Qed.

Theorem C12_mut_find (T : tree pfx V) (m : vmut pfx) (q : pfx) :
  mwf T m -> okp w q ->
  match t_vm_find w fl V T m q with
  | Some m' =>
    mwf T m' /\ kbits w (t_vm_prefix V T m') = kbits w q /\
    forall e, In e (ventries (vm_view T m')) <-> In e (ventries (vm_view T m)) /\ prefix_of (kbits w q) (key e)
  | None => forall e, In e (ventries (vm_view T m)) -> ~ prefix_of (kbits w q) (key e)
  end.
Proof. exact (vm_find_spec pfx V _ _ _ _ _ _ _ _ _ LAWS T m q). Qed.

Theorem C12_mut_find_exact (T : tree pfx V) (m : vmut pfx) (q : pfx) :
  mwf T m -> okp w q ->
  match t_vm_find_exact w fl V T m q with
  | Some m' => mwf T m' /\ mvirt pfx m' = None /\ kbits w (t_vm_prefix V T m') = kbits w q /\
               exists x, vm_value T m' = Some x /\ In (t_vm_prefix V T m', x) (ventries (vm_view T m))
  | None => forall e, In e (ventries (vm_view T m)) -> key e <> kbits w q
  end.
Proof. exact (vm_find_exact_spec pfx V _ _ _ _ _ _ _ _ _ LAWS T m q). Qed.

Theorem C12_mut_find_exact_iff (T : tree pfx V) (m : vmut pfx) (q : pfx) :
  mwf T m -> okp w q ->
  (t_vm_find_exact w fl V T m q <> None <-> exists e, In e (ventries (vm_view T m)) /\ key e = kbits w q).
Proof.
  intros Hm Hq. rewrite <- (C12_find_exact_iff (vm_view T m) q Hm Hq).
  destruct (C12_mut_failure T m q) as [_ [B _]]. rewrite B. reflexivity.
Qed.

Theorem C12_mut_find_lpm (T : tree pfx V) (m : vmut pfx) (q : pfx) :
  mwf T m -> okp w q ->
  match t_vm_find_lpm w fl V T m q with
  | Some m' => exists e, mvirt pfx m' = None /\ v_prefix_value (vm_view T m') = Some e /\
                         is_lpm (ventries (vm_view T m)) q e
  | None => no_cover (ventries (vm_view T m)) q
  end.
Proof. exact (vm_find_lpm_spec pfx V _ _ _ _ _ _ _ _ _ LAWS T m q). Qed.

Theorem C12_mut_find_lpm_iff (T : tree pfx V) (m : vmut pfx) (q : pfx) :
  mwf T m -> okp w q ->
  (t_vm_find_lpm w fl V T m q <> None <-> exists e, In e (ventries (vm_view T m)) /\ prefix_of (key e) (kbits w q)).
Proof.
  intros Hm Hq. rewrite <- (C12_find_lpm_iff (vm_view T m) q Hm Hq).
  destruct (C12_mut_failure T m q) as [_ [_ C]]. rewrite C. reflexivity.
Qed.

(** a successful mutable search is a well-formed mutable view again, for all three searches (so
    the theorems apply recursively) *)
Theorem C12_mut_results_wf (T : tree pfx V) (m m' : vmut pfx) (q : pfx) :
  mwf T m -> okp w q ->
  t_vm_find w fl V T m q = Some m' \/ t_vm_find_exact w fl V T m q = Some m' \/ t_vm_find_lpm w fl V T m q = Some m' ->
  mwf T m'.
Proof.
  intros Hm Hq H. destruct (C12_mut_sim T m q) as [A [B C]].
  unfold t_v_find, t_v_find_exact, t_v_find_lpm, t_vm_find, t_vm_find_exact, t_vm_find_lpm in *.
  assert (Hr : reach (vm_view T m) (vm_view T m')).
  { eapply VR_step; [apply VR_refl|]. destruct H as [H|[H|H]].
    - apply (VS_find _ _ _ _ _ _ _ _ _ _ q Hq). rewrite <- A, H. reflexivity.
    - apply (VS_find_exact _ _ _ _ _ _ _ _ _ _ q Hq). rewrite <- B, H. reflexivity.
    - apply (VS_find_lpm _ _ _ _ _ _ _ _ _ _ q Hq). rewrite <- C, H. reflexivity. }
  exact (proj1 (v_reach_wf pfx V _ _ _ _ _ _ _ _ _ LAWS _ _ Hm Hr)).
Qed.

(* ---------------------------------------------------------------------------------------- *)
(** * view_at on a view equals find *)

(** [AsView::view_at] is the default method [self.view().find(p)] for every implementor: for a
    map, [view()] is the whole-map view; for a [TrieView], [view()] is the view itself, so
    [view_at] IS [find]; for [&TrieViewMut], [view()] is [vm_view].  [AsViewMut::view_mut_at] is
    [self.view_mut().find(p).ok()] likewise ([view_mut()] of a [TrieViewMut] is itself). *)
Theorem C12_view_at_is_find (T : tree pfx V) (q : pfx) :
  t_view_at w fl V T q = t_v_find w fl V (view_of T) q.
Proof. reflexivity. Qed.

Theorem C12_view_mut_at_is_find (T : tree pfx V) (q : pfx) :
  option_map (vm_view T) (t_vm_find w fl V T (vm_root pfx) q) = t_view_at w fl V T q.
Proof.
  unfold t_vm_find, t_view_at, view_at. rewrite (vm_find_sim pfx V).
  unfold vm_view, vm_root, vm_tree. cbn [mvirt mpath]. rewrite (subtree_nil pfx V). reflexivity.
Qed.

(* ---------------------------------------------------------------------------------------- *)
(** * The same statements about the ARENA-level transcription of [TrieView] / [TrieViewMut]
      ([Arena3.a_v_*] / [a_vm_*], ArenaViews.v): [am] is any arena reachable from the empty arena by a
      history over the whole mutator alphabet, [l] any location obtained from the root location by any
      sequence of [find] / [find_exact] / [find_lpm] / [left] / [right] calls of either family
      ([a_vreach]); [es] is what the view's own iteration yields.  Only arena-level observations
      occur in the statements. *)
Notation avreach am := (a_vreach pfx V (peq w) (contains w fl) (is_bit_set w) plen (lcp w fl) (okp w) (Arena.tbl am)).
Notation aviter am := (a_v_iter pfx V (Arena.tbl am)).

Theorem C12_arena_find (am : Arena.amap pfx V) l q es :
  areach pfx V (peq w) (contains w fl) (is_bit_set w) plen (lcp w fl) pzero (okp w) am -> avreach am l -> okp w q -> aviter am l = Arena.Ok es ->
  exists o, Arena3.a_v_find pfx V (peq w) (contains w fl) (is_bit_set w) plen (lcp w fl) (Arena.tbl am) l q = Arena.Ok o /\
            Arena3.a_vm_find pfx V (peq w) (contains w fl) (is_bit_set w) plen (lcp w fl) (Arena.tbl am) l q = Arena.Ok o /\
    match o with
    | Some l' => avreach am l' /\ aviter am l' = Arena.Ok (filter (under (kbits w q)) es) /\
                 exists p, Arena3.a_v_prefix pfx V (Arena.tbl am) l' = Arena.Ok p /\ kbits w p = kbits w q
    | None => filter (under (kbits w q)) es = []
    end.
Proof. exact (arena_C12_find pfx V _ _ _ _ _ _ _ _ _ LAWS am l q es). Qed.

Theorem C12_arena_find_exact (am : Arena.amap pfx V) l q es :
  areach pfx V (peq w) (contains w fl) (is_bit_set w) plen (lcp w fl) pzero (okp w) am -> avreach am l -> okp w q -> aviter am l = Arena.Ok es ->
  exists o, Arena3.a_v_find_exact pfx V (peq w) (contains w fl) (is_bit_set w) plen (Arena.tbl am) l q = Arena.Ok o /\
            Arena3.a_vm_find_exact pfx V (peq w) (contains w fl) (is_bit_set w) plen (Arena.tbl am) l q = Arena.Ok o /\
    (o <> None <-> exists e, In e es /\ key e = kbits w q) /\
    match o with
    | Some l' => avreach am l' /\
                 Arena3.a_v_find pfx V (peq w) (contains w fl) (is_bit_set w) plen (lcp w fl) (Arena.tbl am) l q = Arena.Ok (Some l') /\
                 aviter am l' = Arena.Ok (filter (under (kbits w q)) es) /\
                 exists p x, Arena3.a_v_prefix pfx V (Arena.tbl am) l' = Arena.Ok p /\
                             Arena3.a_v_value pfx V (Arena.tbl am) l' = Arena.Ok (Some x) /\
                             In (p, x) es /\ kbits w p = kbits w q
    | None => True
    end.
Proof. exact (arena_C12_find_exact pfx V _ _ _ _ _ _ _ _ _ LAWS am l q es). Qed.

Theorem C12_arena_find_lpm (am : Arena.amap pfx V) l q es :
  areach pfx V (peq w) (contains w fl) (is_bit_set w) plen (lcp w fl) pzero (okp w) am -> avreach am l -> okp w q -> aviter am l = Arena.Ok es ->
  exists o, Arena3.a_v_find_lpm pfx V (peq w) (contains w fl) (is_bit_set w) plen (Arena.tbl am) l q = Arena.Ok o /\
            Arena3.a_vm_find_lpm pfx V (peq w) (contains w fl) (is_bit_set w) plen (Arena.tbl am) l q = Arena.Ok o /\
    match o with
    | Some l' => avreach am l' /\
                 exists e, is_lpm es q e /\ Arena3.a_v_prefix_value pfx V (Arena.tbl am) l' = Arena.Ok (Some e) /\
                           Arena3.a_v_find_exact pfx V (peq w) (contains w fl) (is_bit_set w) plen (Arena.tbl am) l (fst e) = Arena.Ok (Some l') /\
                           aviter am l' = Arena.Ok (filter (under (kbits w (fst e))) es)
    | None => no_cover es q
    end.
Proof. exact (arena_C12_find_lpm pfx V _ _ _ _ _ _ _ _ _ LAWS am l q es). Qed.

End C12.

(** non-vacuity, [w = 8], the map {1/1 -> 1, 10/2 -> 2, 11/2 -> 3, 101/3 -> 4, 11010/5 -> 5} and the
    VIRTUAL view [v] = [view_at 110/3] (on the edge 11/2 -> 11010/5; entries {11010/5}):
    - [find 1101/4] (between the virtual root and its real node): virtual view at 1101/4, same entry;
    - [find 11010/5] (the real node): the real view with value 5;
    - [find 11/2], [find 1/1] (covering [v]; 11/2 and 1/1 are stored in the MAP, not in [v]): virtual
      views at the query holding only [v]'s entry — relative to [v], not to the map;
    - [find 1100/4] (inside [v]'s prefix, beside the real node): [None];
    - [find 10/2] (disjoint): [None];
    - [find_exact 11010/5] answers, [find_exact 11/2] does not (not stored in [v]);
    - [find_lpm 11010111/8] is the view at 11010/5; [find_lpm 11/2] is [None] although the map
      stores 11/2: nothing in [v] covers it;
    - the mutable twin at the same location answers / fails in the same cases;
    - from the real view at 1/1: [find_lpm 10100111/8] is the view at 101/3 (not 1/1, not 10/2),
      [find 0/0] (covering) is a virtual view on the node 1/1 holding all five entries. *)
Example C12_example :
  let ins := fun m p x => fst (t_insert 8 Generic nat m p x) in
  let M := ins (ins (ins (ins (ins (t_empty nat) (mkpfx 0x80 1) 1%nat) (mkpfx 0x80 2) 2%nat)
                 (mkpfx 0xc0 2) 3%nat) (mkpfx 0xa0 3) 4%nat) (mkpfx 0xd0 5) 5%nat in
  let T := root M in
  let info := option_map (fun v : view pfx nat =>
                (v_is_virtual v, t_v_prefix nat v, v_value v, map (Lookup2.drop_id pfx nat) (v_iter v))) in
  let e5 := [(mkpfx 0xd0 5, 5%nat)] in
  match t_view_at 8 Generic nat T (mkpfx 0xc0 3), t_view_at 8 Generic nat T (mkpfx 0x80 1) with
  | Some v, Some v1 =>
    info (Some v) = Some (true, mkpfx 0xc0 3, None, e5) /\
    info (t_v_find 8 Generic nat v (mkpfx 0xd0 4)) = Some (true, mkpfx 0xd0 4, None, e5) /\
    info (t_v_find 8 Generic nat v (mkpfx 0xd0 5)) = Some (false, mkpfx 0xd0 5, Some 5%nat, e5) /\
    info (t_v_find 8 Generic nat v (mkpfx 0xc0 2)) = Some (true, mkpfx 0xc0 2, None, e5) /\
    info (t_v_find 8 Generic nat v (mkpfx 0x80 1)) = Some (true, mkpfx 0x80 1, None, e5) /\
    t_v_find 8 Generic nat v (mkpfx 0xc0 4) = None /\
    t_v_find 8 Generic nat v (mkpfx 0x80 2) = None /\
    info (t_v_find_exact 8 Generic nat v (mkpfx 0xd0 5)) = Some (false, mkpfx 0xd0 5, Some 5%nat, e5) /\
    t_v_find_exact 8 Generic nat v (mkpfx 0xc0 2) = None /\
    info (t_v_find_lpm 8 Generic nat v (mkpfx 0xd7 8)) = Some (false, mkpfx 0xd0 5, Some 5%nat, e5) /\
    t_v_find_lpm 8 Generic nat v (mkpfx 0xc0 2) = None /\
    (let m := mkvmut pfx [true; true; false] (Some (mkpfx 0xc0 3)) in
     vm_view T m = v /\
     t_vm_find 8 Generic nat T m (mkpfx 0xd0 4) = Some (mkvmut pfx [true; true; false] (Some (mkpfx 0xd0 4))) /\
     t_vm_find 8 Generic nat T m (mkpfx 0xc0 2) = Some (mkvmut pfx [true; true; false] (Some (mkpfx 0xc0 2))) /\
     t_vm_find 8 Generic nat T m (mkpfx 0xc0 4) = None /\
     t_vm_find_exact 8 Generic nat T m (mkpfx 0xd0 5) = Some (mkvmut pfx [true; true; false] None) /\
     t_vm_find_exact 8 Generic nat T m (mkpfx 0xc0 2) = None /\
     t_vm_find_lpm 8 Generic nat T m (mkpfx 0xd7 8) = Some (mkvmut pfx [true; true; false] None) /\
     t_vm_find_lpm 8 Generic nat T m (mkpfx 0xc0 2) = None) /\
    info (t_v_find_lpm 8 Generic nat v1 (mkpfx 0xa7 8)) = Some (false, mkpfx 0xa0 3, Some 4%nat, [(mkpfx 0xa0 3, 4%nat)]) /\
    info (t_v_find 8 Generic nat v1 (mkpfx 0x00 0)) =
      Some (true, mkpfx 0x00 0, None,
            [(mkpfx 0x80 1, 1%nat); (mkpfx 0x80 2, 2%nat); (mkpfx 0xa0 3, 4%nat); (mkpfx 0xc0 2, 3%nat); (mkpfx 0xd0 5, 5%nat)])
  | _, _ => False
  end.
Proof. vm_compute. repeat split; reflexivity. Qed.

Print Assumptions C12_reachable_views.
Print Assumptions C12_find.
Print Assumptions C12_find_filter.
Print Assumptions C12_under_spec.
Print Assumptions C12_find_value.
Print Assumptions C12_find_prefix_literal.
Print Assumptions C12_find_covering.
Print Assumptions C12_find_covering_prefix.
Print Assumptions C12_disjoint.
Print Assumptions C12_find_exact_iff.
Print Assumptions C12_find_exact.
Print Assumptions C12_find_exact_is_find.
Print Assumptions C12_find_lpm_iff.
Print Assumptions C12_find_lpm_none.
Print Assumptions C12_find_lpm.
Print Assumptions C12_find_lpm_is_find_exact.
Print Assumptions C12_mut_sim.
Print Assumptions C12_mut_failure.
Print Assumptions C12_mut_find.
Print Assumptions C12_mut_find_exact.
Print Assumptions C12_mut_find_exact_iff.
Print Assumptions C12_mut_find_lpm.
Print Assumptions C12_mut_find_lpm_iff.
Print Assumptions C12_mut_results_wf.
Print Assumptions C12_view_at_is_find.
Print Assumptions C12_view_mut_at_is_find.
Print Assumptions C12_arena_find.
Print Assumptions C12_arena_find_exact.
Print Assumptions C12_arena_find_lpm.
