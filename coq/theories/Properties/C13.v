(** C13 — Mutable traversals mirror the read-only ones, and writes land exactly there.

    In the model every item a traversal yields carries the arena slot [N] of its node; a mutable
    traversal "hands out the reference" to that slot, and a client that holds any set of such
    references and writes through them is [write_ids t ws] ([ws] = the (slot, new value) pairs).
    The mutable traversals are SEPARATE transcriptions of the Rust loops ([iter_mut_items],
    [children_mut], [lpmm_walk], [find_walk_m] ..., [um_expand], [im_expand], [dm_expand],
    [cdm_expand]), so every "mirrors" statement below is a theorem, not a definition.

    (a) [C13_*_mirrors]: each mutable traversal yields the same prefixes and current values, in
        the same order, as its read-only twin.
    (b) [C13_*_refs]: what each mutable traversal yields is a list of references to entries of
        the map ([refs_of]).  [C13_write_*]: for ANY sub-collection of such references held at
        once and ANY values (a function of the slot, so pairwise distinct values are allowed),
        the write changes the value of exactly the designated entries, keeps every other entry,
        the sequence of stored prefixes, the slots, the shape of the tree and well-formedness,
        and is seen by every later read ([iter], [get], [get_key_value], [get_lpm]).
    All statements hold for every width [w >= 1], flavour, value type, and every tree with
    pairwise distinct slots — in particular ([C13_reachable]) every state reachable by a
    history of public mutating calls. *)
From Coq Require Import List NArith Bool.
From PT Require Import Lookup Lookup2 ViewsThm Slots MutTrav MutTravExtra UnionThm InterDiffThm Arena Arena3 ArenaProps ArenaWrite.
From PT.Properties Require Import Common.
Import ListNotations.

Section C13.
Variables (w : N) (fl : flavour) (V R : Type).
Hypothesis Hw : (1 <= w)%N.
Notation tree := (Trie.tree pfx V).
Notation ids := (Slots.ids pfx V).
Notation slot := (MutTrav.slot3 pfx V).
Notation skel := (MutTrav.skel pfx V).
Notation LAWS := (laws w fl Hw).
Notation newval := (MutTravExtra.newval V).

(** every reachable state is well formed and has pairwise distinct slots: the two premises used
    below *)
Theorem C13_reachable (ops : list (hop V)) :
  Forall (hop_ok w V) ops ->
  wfm w V (root (hrun w fl V ops)) /\ NoDup (ids (root (hrun w fl V ops))).
Proof.
  intros H. split; [exact (reachable_wfm w fl V Hw ops H)|].
  exact (reachable_nodup pfx V _ _ _ _ _ _ _ _ _ LAWS ops H).
Qed.

(* ------------------------------------------------------------------------------------------ *)
(** * (a) the mutable traversals mirror the read-only ones *)

(** [iter_mut] = [iter] (same slots, prefixes, values, order); both yield the entry list *)
Theorem C13_iter_mut_mirrors (t : tree) : t_iter_mut_items V t = t_iter_items V t.
Proof. exact (iter_mut_items_eq pfx V t). Qed.

Theorem C13_iter_yields_entries (t : tree) :
  t_iter_items V t = entries_id t /\ map (fun '(_, p, x) => (p, x)) (entries_id t) = entries t.
Proof. split; [exact (iter_items_spec pfx V t) | exact (entries_id_entries pfx V t)]. Qed.

(** [values_mut] = [values] *)
Theorem C13_values_mut_mirrors (t : tree) :
  map (fun '(_, _, x) => x) (t_iter_mut_items V t) = map snd (entries t).
Proof.
  unfold t_iter_mut_items. rewrite (iter_mut_items_spec pfx V t), <- (entries_id_entries pfx V t), map_map.
  apply map_ext. intros [[i p] x]. reflexivity.
Qed.

(** [into_iter] (the third copy of the loop) *)
Theorem C13_into_iter_mirrors (t : tree) : t_into_iter_items V t = t_iter_items V t.
Proof. exact (into_iter_items_eq pfx V t). Qed.

(** [children_mut] = [children], [into_children] = [children] *)
Theorem C13_children_mut_mirrors (t : tree) (q : pfx) :
  t_children_mut w fl V t q = t_children w fl V t q.
Proof. exact (children_mut_eq pfx V _ _ _ _ t q). Qed.

Theorem C13_into_children_mirrors (t : tree) (q : pfx) :
  t_into_children w fl V t q = t_children w fl V t q.
Proof. exact (into_children_eq pfx V _ _ _ _ t q). Qed.

(** [get_mut]: the reference designates the entry [get] reads.  ([get] is the value of the node
    the shared descent [get_node] reaches; the descent of the write, [modify], is a separate
    recursion — that it reaches the same node is [C13_get_mut_write] below.) *)
Theorem C13_get_mut_mirrors (t : tree) (q : pfx) i p x :
  t_get_node w fl V t q = Some (i, p, Some x) ->
  t_get w fl V t q = Some x /\ In (i, p, x) (entries_id t).
Proof.
  intros H. split; [unfold t_get, Trie.get; fold (t_get_node w fl V); rewrite H; reflexivity|].
  exact (get_node_item pfx V _ _ _ _ t q i p x H).
Qed.

(** [get_lpm_mut] (its own loop) designates the entry [get_lpm] returns *)
Theorem C13_get_lpm_mut_mirrors (t : tree) (q : pfx) :
  option_map (fun '(_, p, x) => (p, x)) (t_get_lpm_mut w fl V t q) = t_get_lpm w fl V t q.
Proof. exact (get_lpm_mut_eq pfx V _ _ _ _ t q). Qed.

(** the view's [iter_mut] / [values_mut] / [into_iter] = the read-only view's [iter] *)
Theorem C13_view_iter_mut_mirrors (T : tree) (m : vmut pfx) :
  vm_iter_mut T m = v_iter (vm_view T m).
Proof. exact (vm_iter_mut_sim pfx V T m). Qed.

(** the view's [value_mut] / [prefix_value_mut] hand out what [value] / [prefix_value] read *)
Theorem C13_view_value_mut_mirrors (T : tree) (m : vmut pfx) (g : V -> V) :
  snd (vm_value_mut T m g) = v_prefix_value (vm_view T m) /\
  vm_value T m = v_value (vm_view T m) /\
  option_map snd (v_prefix_value (vm_view T m)) = v_value (vm_view T m).
Proof.
  split; [exact (vm_value_mut_sim pfx V T m g)|]. split; [exact (vm_value_sim pfx V T m)|].
  unfold vm_view. destruct (mvirt pfx m); [reflexivity|]. cbn [v_prefix_value v_value].
  destruct (vm_tree T m) as [|i p [x|] l r]; reflexivity.
Qed.

(** [union_mut] yields, item by item, what [union] yields (without the LPM annotations, which
    only the read-only iterator computes), plus the slots *)
Theorem C13_union_mut_mirrors ba bb (ta : tree) (tb : Trie.tree pfx R) :
  wfu w V ba ta -> wfu w R bb tb ->
  exists out outm, t_union w fl V R ta tb = Some out /\ t_union_mut w fl V R ta tb = Some outm /\
    map (fun it => match it with
                   | ILeft _ _ _ p l _ => (p, Some l, None)
                   | IRight _ _ _ p _ r => (p, None, Some r)
                   | IBoth _ _ _ p l r => (p, Some l, Some r)
                   end) out
    = map (fun '(p, l, r) => (p, option_map snd l, option_map snd r)) outm.
Proof. exact (union_mut_mirrors pfx V R _ _ _ _ _ _ _ _ _ LAWS ba bb ta tb). Qed.

Theorem C13_intersection_mut_mirrors ba bb (ta : tree) (tb : Trie.tree pfx R) :
  wfu w V ba ta -> wfu w R bb tb ->
  exists out outm, t_intersection w fl V R ta tb = Some out /\ t_intersection_mut w fl V R ta tb = Some outm /\
    out = map (fun '(p, (_, l), (_, r)) => (p, l, r)) outm /\
    (forall p i l j r, In (p, (i, l), (j, r)) outm ->
       In (i, p, l) (entries_id ta) /\ exists pr, In (j, pr, r) (entries_id tb) /\ kbits w pr = kbits w p).
Proof. exact (intersection_mut_mirrors pfx V R _ _ _ _ _ _ _ _ _ LAWS ba bb ta tb). Qed.

Theorem C13_difference_mut_mirrors ba bb (ta : tree) (tb : Trie.tree pfx R) :
  wfu w V ba ta -> wfu w R bb tb ->
  exists out outm, t_difference w fl V R ta tb = Some out /\ t_difference_mut w fl V R ta tb = Some outm /\
    out = map (fun '(p, (_, l), ann) => (p, l, ann)) outm /\
    (forall p i l ann, In (p, (i, l), ann) outm -> In (i, p, l) (entries_id ta)).
Proof. exact (difference_mut_mirrors pfx V R _ _ _ _ _ _ _ _ _ LAWS ba bb ta tb). Qed.

Theorem C13_covering_difference_mut_mirrors ba bb (ta : tree) (tb : Trie.tree pfx R) :
  wfu w V ba ta -> wfu w R bb tb ->
  exists out outm, t_covering_difference w fl V R ta tb = Some out /\
    t_covering_difference_mut w fl V R ta tb = Some outm /\
    out = map (fun '(p, (_, l)) => (p, l)) outm /\
    (forall p i l, In (p, (i, l)) outm -> In (i, p, l) (entries_id ta)).
Proof. exact (covering_difference_mut_mirrors pfx V R _ _ _ _ _ _ _ _ _ LAWS ba bb ta tb). Qed.

(* ------------------------------------------------------------------------------------------ *)
(** * (b) what is yielded are references to entries of the map *)

(** [items] is a collection of references (slot, stored prefix, current value) to entries of [t] *)
Definition refs_of {T} (t : Trie.tree pfx T) (items : list (N * pfx * T)) : Prop :=
  incl items (entries_id t).

Theorem C13_iter_mut_refs (t : tree) : refs_of t (t_iter_mut_items V t).
Proof. unfold refs_of, t_iter_mut_items. rewrite (iter_mut_items_spec pfx V t). apply incl_refl. Qed.

Theorem C13_children_mut_refs (t : tree) (q : pfx) :
  NoDup (ids t) -> refs_of t (t_children_mut w fl V t q).
Proof. intros H. exact (proj2 (children_mut_refs pfx V _ _ _ _ t q H)). Qed.

Theorem C13_get_mut_ref (t : tree) (q : pfx) i p x :
  t_get_node w fl V t q = Some (i, p, Some x) -> refs_of t [(i, p, x)].
Proof.
  intros H e [<-|[]]. exact (get_node_item pfx V _ _ _ _ t q i p x H).
Qed.

Theorem C13_get_lpm_mut_ref (t : tree) (q : pfx) e :
  t_get_lpm_mut w fl V t q = Some e -> refs_of t [e].
Proof.
  intros H e' [<-|[]]. destruct e as [[i p] x]. exact (get_lpm_mut_slot pfx V _ _ _ _ t q i p x H).
Qed.

Theorem C13_view_iter_mut_refs (T : tree) (m : vmut pfx) :
  NoDup (ids T) -> refs_of T (vm_iter_mut T m).
Proof. intros H. exact (proj2 (vm_iter_mut_refs pfx V T m H)). Qed.

(** [value_mut]/[prefix_value_mut] on a view whose node holds a value: one reference, and the
    model's write through it IS the [write_ids] of that slot *)
Theorem C13_view_value_mut_ref (T : tree) (m : vmut pfx) (g : V -> V) i p x l r :
  NoDup (ids T) -> mvirt pfx m = None -> vm_tree T m = Node i p (Some x) l r ->
  refs_of T [(i, p, x)] /\ snd (vm_value_mut T m g) = Some (p, x) /\
  fst (vm_value_mut T m g) = write_ids T [(i, g x)].
Proof.
  intros Hnd Hv Hs. split; [|split].
  - intros e [<-|[]]. apply (subtree_entries_id_incl pfx V (mpath pfx m) T). fold (vm_tree T m).
    rewrite Hs. left. reflexivity.
  - unfold vm_value_mut. rewrite Hv, Hs. reflexivity.
  - exact (vm_value_mut_write pfx V T m g i p x l r Hnd Hv Hs).
Qed.

(** ... and no reference (nothing changes) on a virtual view or a value-less node *)
Theorem C13_view_value_mut_none (T : tree) (m : vmut pfx) (g : V -> V) :
  vm_value T m = None -> vm_tree T m <> Leaf -> vm_value_mut T m g = (T, None).
Proof.
  unfold vm_value. destruct (mvirt pfx m) as [q|] eqn:Hv; intros H Hn.
  - unfold vm_value_mut. rewrite Hv. reflexivity.
  - destruct (vm_tree T m) as [|i p v l r] eqn:Hs; [contradiction|]. cbn [tval] in H. subst v.
    exact (vm_value_mut_none pfx V T m g i p l r Hv Hs).
Qed.

(** the four [*_mut] set operations: the left references are entries of the left operand, the
    right references (union, intersection) are entries of the right operand up to the reported
    prefix (an item with both sides reports the left node's stored prefix, which denotes the same
    key) *)
Theorem C13_union_mut_refs ba bb (ta : tree) (tb : Trie.tree pfx R) outm :
  wfu w V ba ta -> wfu w R bb tb -> t_union_mut w fl V R ta tb = Some outm ->
  refs_of ta (um_lrefs pfx V R outm) /\
  (forall i p y, In (i, p, y) (um_rrefs pfx V R outm) ->
     exists pr, In (i, pr, y) (entries_id tb) /\ kbits w pr = kbits w p).
Proof.
  intros Ha Hb Hm.
  destruct (union_mut_refs pfx V R _ _ _ _ _ _ _ _ _ LAWS ba bb ta tb outm Ha Hb Hm) as [A [B _]].
  split; assumption.
Qed.

Theorem C13_intersection_mut_refs ba bb (ta : tree) (tb : Trie.tree pfx R) outm :
  wfu w V ba ta -> wfu w R bb tb -> t_intersection_mut w fl V R ta tb = Some outm ->
  refs_of ta (im_lrefs pfx V R outm) /\
  (forall j p y, In (j, p, y) (im_rrefs pfx V R outm) ->
     exists pr, In (j, pr, y) (entries_id tb) /\ kbits w pr = kbits w p).
Proof.
  intros Ha Hb Hm.
  destruct (intersection_mut_refs pfx V R _ _ _ _ _ _ _ _ _ LAWS ba bb ta tb outm Ha Hb Hm) as [A [B _]].
  split; assumption.
Qed.

Theorem C13_difference_mut_refs ba bb (ta : tree) (tb : Trie.tree pfx R) outm :
  wfu w V ba ta -> wfu w R bb tb -> t_difference_mut w fl V R ta tb = Some outm ->
  refs_of ta (dm_refs pfx V R outm).
Proof.
  intros Ha Hb Hm.
  exact (proj1 (difference_mut_refs pfx V R _ _ _ _ _ _ _ _ _ LAWS ba bb ta tb outm Ha Hb Hm)).
Qed.

Theorem C13_covering_difference_mut_refs ba bb (ta : tree) (tb : Trie.tree pfx R) outm :
  wfu w V ba ta -> wfu w R bb tb -> t_covering_difference_mut w fl V R ta tb = Some outm ->
  refs_of ta (cdm_refs pfx V outm).
Proof.
  intros Ha Hb Hm.
  exact (proj1 (covering_difference_mut_refs pfx V R _ _ _ _ _ _ _ _ _ LAWS ba bb ta tb outm Ha Hb Hm)).
Qed.

(* ------------------------------------------------------------------------------------------ *)
(** * (b) writes through any of the yielded references *)

(** Hold ANY sub-collection [items] of references to entries of [t] (by the [*_refs] theorems:
    of what any mutable traversal yielded) and store [g slot old_value] through each: every
    entry keeps its position, slot and stored prefix; its value becomes the written one exactly
    when a reference to it was written through, and is unchanged otherwise. *)
Theorem C13_write_exact (t : tree) (items : list (N * pfx * V)) (g : N -> V -> V) :
  NoDup (ids t) -> refs_of t items ->
  entries_id (write_ids t (map (fun '(i, _, x) => (i, g i x)) items))
  = map (fun '(i, p, x) => (i, p, if is_slot_of pfx V items i then g i x else x)) (entries_id t).
Proof. exact (write_through_items pfx V t items g). Qed.

(** all references of [iter_mut] at once, a distinct value through each *)
Theorem C13_write_all (t : tree) (g : N -> V -> V) :
  NoDup (ids t) ->
  entries_id (write_ids t (map (fun '(i, _, x) => (i, g i x)) (t_iter_mut_items V t)))
  = map (fun '(i, p, x) => (i, p, g i x)) (t_iter_items V t).
Proof.
  intros H. unfold t_iter_mut_items, t_iter_items.
  rewrite (iter_mut_items_spec pfx V t), (iter_items_spec pfx V t).
  exact (write_through_all pfx V t g H).
Qed.

(** ... in every reachable state *)
Theorem C13_write_all_reachable (ops : list (hop V)) (g : N -> V -> V) :
  Forall (hop_ok w V) ops ->
  let t := root (hrun w fl V ops) in
  entries_id (write_ids t (map (fun '(i, _, x) => (i, g i x)) (t_iter_mut_items V t)))
  = map (fun '(i, p, x) => (i, p, g i x)) (t_iter_items V t).
Proof. intros H t. apply C13_write_all. exact (proj2 (C13_reachable ops H)). Qed.

(** The same for an arbitrary write list [ws] (slot, value) — e.g. through the right-hand
    references of [union_mut]: position by position, [newval ws i x] is the value written to
    slot [i] if there is one, else [x]. *)
Theorem C13_write_positions (t : tree) (ws : list (N * V)) :
  entries_id (write_ids t ws) = map (fun '(i, p, x) => (i, p, newval ws i x)) (entries_id t).
Proof. exact (write_ids_entries_id_newval pfx V t ws). Qed.

(** pointwise: the entry at a written slot holds the written value; every other entry keeps its
    value; no entry appears or disappears *)
Theorem C13_write_lands (t : tree) (ws : list (N * V)) :
  (forall i p x y, In (i, p, x) (entries_id t) -> assoc_id ws i = Some y ->
                   In (i, p, y) (entries_id (write_ids t ws))) /\
  (forall i p x, In (i, p, x) (entries_id t) -> ~ In i (map fst ws) ->
                 In (i, p, x) (entries_id (write_ids t ws))) /\
  (forall i p y, In (i, p, y) (entries_id (write_ids t ws)) ->
                 exists x, In (i, p, x) (entries_id t) /\ y = newval ws i x).
Proof.
  split; [|split].
  - exact (write_ids_written pfx V t ws).
  - exact (write_ids_untouched pfx V t ws).
  - exact (write_ids_in_inv pfx V t ws).
Qed.

(** when the references written through are pairwise distinct, "the value written through the
    reference to slot [i]" is the pair's second component *)
Theorem C13_write_lands_distinct (t : tree) (ws : list (N * V)) i p x y :
  NoDup (map fst ws) -> In (i, y) ws -> In (i, p, x) (entries_id t) ->
  In (i, p, y) (entries_id (write_ids t ws)).
Proof. exact (write_ids_written_nodup pfx V t ws i p x y). Qed.

(** a reference reported up to the key (right-hand side of [union_mut]/[intersection_mut]) *)
Theorem C13_write_lands_keyed (tb : tree) (ws : list (N * V)) i p y z :
  (exists pr, In (i, pr, y) (entries_id tb) /\ kbits w pr = kbits w p) -> assoc_id ws i = Some z ->
  exists pr, In (i, pr, z) (entries_id (write_ids tb ws)) /\ kbits w pr = kbits w p.
Proof.
  intros [pr [Hin Hk]] Ha. exists pr. split; [|exact Hk].
  exact (write_ids_written pfx V tb ws i pr y z Hin Ha).
Qed.

(** no write changes the sequence of stored prefixes, the slots, the shape of the tree (which
    nodes exist, where, and which hold a value), or well-formedness *)
Theorem C13_write_preserves (t : tree) (ws : list (N * V)) :
  map fst (entries (write_ids t ws)) = map fst (entries t) /\
  map (fun '(i, p, _) => (i, p)) (entries_id (write_ids t ws))
    = map (fun '(i, p, _) => (i, p)) (entries_id t) /\
  ids (write_ids t ws) = ids t /\
  skel (write_ids t ws) = skel t /\
  (wfm w V t -> wfm w V (write_ids t ws)).
Proof.
  split; [exact (write_ids_entries_keys pfx V t ws)|].
  split; [exact (write_ids_keys pfx V t ws)|].
  split; [exact (write_ids_same_ids pfx V t ws)|].
  split; [exact (write_ids_skel pfx V t ws)|].
  exact (write_ids_wf_root pfx V (kbits w) (okp w) ws t).
Qed.

(** writes through references of a view touch nothing outside the view's subtree *)
Theorem C13_write_inside_view (T : tree) (m : vmut pfx) (ws : list (N * V)) :
  NoDup (ids T) -> (forall i, In i (map fst ws) -> In i (ids (vm_tree T m))) ->
  write_ids T ws = subst T (mpath pfx m) (write_ids (vm_tree T m) ws).
Proof. exact (write_ids_local pfx V (mpath pfx m) T ws). Qed.

(* ------------------------------------------------------------------------------------------ *)
(** * (b) every later read sees the write *)

(** the iterators *)
Theorem C13_write_visible_iter (t : tree) (ws : list (N * V)) :
  t_iter_items V (write_ids t ws) = map (fun '(i, p, x) => (i, p, newval ws i x)) (t_iter_items V t) /\
  entries (write_ids t ws) = map (fun '(i, p, x) => (p, newval ws i x)) (t_iter_items V t).
Proof.
  unfold t_iter_items. rewrite !(iter_items_spec pfx V). split.
  - exact (write_ids_entries_id_newval pfx V t ws).
  - exact (write_ids_entries_newval pfx V t ws).
Qed.

(** [get] / [get_key_value] of ANY key: the same node is reached, and its value is the written
    one (no hypothesis at all: the descent only looks at prefixes) *)
Theorem C13_write_visible_get (t : tree) (ws : list (N * V)) (q : pfx) :
  t_get w fl V (write_ids t ws) q
  = match t_get_node w fl V t q with Some (i, _, v) => option_map (newval ws i) v | None => None end.
Proof. exact (get_write_ids pfx V _ _ _ _ t ws q). Qed.

Theorem C13_write_visible_get_key_value (t : tree) (ws : list (N * V)) (q : pfx) :
  t_get_key_value w fl V (write_ids t ws) q
  = match t_get_node w fl V t q with Some (i, p, Some x) => Some (p, newval ws i x) | _ => None end.
Proof. exact (get_key_value_write_ids pfx V _ _ _ _ t ws q). Qed.

(** [get_lpm]: the same entry, with the written value *)
Theorem C13_write_visible_get_lpm (t : tree) (ws : list (N * V)) (q : pfx) :
  t_get_lpm w fl V (write_ids t ws) q
  = option_map (fun '(i, p, x) => (p, newval ws i x)) (t_get_lpm_mut w fl V t q).
Proof. exact (get_lpm_write_ids pfx V _ _ _ _ t ws q). Qed.

(** by entry: in a well-formed map, looking up the key of the entry at slot [i] afterwards
    returns the value written to slot [i] (or the old value if none was) *)
Theorem C13_write_visible_by_key (t : tree) (ws : list (N * V)) i p x (q : pfx) :
  wfm w V t -> okp w q -> In (i, p, x) (entries_id t) -> kbits w q = kbits w p ->
  t_get w fl V (write_ids t ws) q = Some (newval ws i x).
Proof. exact (write_ids_get pfx V _ _ _ _ _ _ _ _ _ LAWS t ws i p x q). Qed.

(** [get_mut(q)] followed by a write of [g old]: the model's keyed update (its own descent,
    [modify]) IS the write through the slot [get] designates; a later [get(q)] returns it.  If
    [q] is not stored there is no reference and nothing changes. *)
Theorem C13_get_mut_write (m : pmap pfx V) (q : pfx) (g : V -> V) i p x :
  NoDup (ids (root m)) -> t_get_node w fl V (root m) q = Some (i, p, Some x) ->
  t_update_value w fl V m q g = mkmap (write_ids (root m) [(i, g x)]) (al m) /\
  t_get w fl V (root (t_update_value w fl V m q g)) q = Some (g x).
Proof.
  intros Hnd Hg.
  pose proof (update_value_write pfx V _ _ _ _ m q g i p x Hnd Hg) as E.
  split; [exact E|]. unfold t_update_value. rewrite E. cbn [root].
  rewrite C13_write_visible_get, Hg. cbn [option_map]. unfold MutTravExtra.newval. cbn [assoc_id].
  rewrite N.eqb_refl. reflexivity.
Qed.

Theorem C13_get_mut_absent (m : pmap pfx V) (q : pfx) (g : V -> V) :
  t_get w fl V (root m) q = None -> t_update_value w fl V m q g = m.
Proof. exact (update_value_absent pfx V _ _ _ _ m q g). Qed.

(* ---------------------------------------------------------------------------------------- *)
(** * The same statements about the ARENA-level transcription (ArenaWrite.v).  At the arena level a
      reference handed out by a mutable traversal is a slot index into the table, and a write through
      it is [table[i].value = Some x] on a slot that holds a value ([a_write]).  [am] is any arena
      reachable from the empty arena by a history over the whole mutator alphabet. *)

(** the two copies of the traversal loop ([Iter::next] / [IterMut::next]) are the same function up to
    the projection of the slot — for EVERY table, fuel and stack (no hypothesis at all) *)
Theorem C13_arena_iter_mirrors fuel (tb : list (Arena.anode pfx V)) st :
  Arena.a_iter pfx V fuel tb st
  = Arena.rbind (a_iter_mut pfx V fuel tb st) (fun items => Arena.Ok (map (drop3 pfx V) items)).
Proof. exact (iter_mirrors pfx V fuel tb st). Qed.

(** [iter_mut] returns [Ok], [iter] is its projection, and no two references alias *)
Theorem C13_arena_iter_mut (am : Arena.amap pfx V) : areach pfx V (peq w) (contains w fl) (is_bit_set w) plen (lcp w fl) pzero (okp w) am ->
  exists items, a_items pfx V am = Arena.Ok items /\
                Arena.a_entries pfx V am = Arena.Ok (map (drop3 pfx V) items) /\ NoDup (map slot items).
Proof.
  intros H. apply (arena_C13_iter_mut pfx V (peq w) (contains w fl) (is_bit_set w) plen (lcp w fl) pzero (kbits w) (okp w)).
  exact (areach_good pfx V _ _ _ _ _ _ _ _ _ LAWS am H).
Qed.

(** a write changes nothing but values: prefixes, links, which slots hold a value, the free list, the
    counter and the table length are literally the same; the written arena again represents a
    well-formed map with exact slot accounting (so every arena theorem applies to it again) *)
Theorem C13_arena_write_frame (am : Arena.amap pfx V) ws : areach pfx V (peq w) (contains w fl) (is_bit_set w) plen (lcp w fl) pzero (okp w) am ->
  map (nskel pfx V) (Arena.tbl (a_write pfx V am ws)) = map (nskel pfx V) (Arena.tbl am) /\
  Arena.afree (a_write pfx V am ws) = Arena.afree am /\ Arena.acount (a_write pfx V am ws) = Arena.acount am /\
  agood pfx V (kbits w) (okp w) (a_write pfx V am ws).
Proof.
  intros H. destruct (a_write_frame pfx V am ws) as (A & B & C & _). split; [exact A|]. split; [exact B|]. split; [exact C|].
  apply a_write_good. exact (areach_good pfx V _ _ _ _ _ _ _ _ _ LAWS am H).
Qed.

(** writing [g slot old] through ANY selection [sel] of the references handed out by [iter_mut]:
    the traversal of the written arena yields the same slots and prefixes in the same order, the
    value [g i x] exactly at the selected slots and the old value everywhere else *)
Theorem C13_arena_write_exact (am : Arena.amap pfx V) items sel (g : N -> V -> V) : areach pfx V (peq w) (contains w fl) (is_bit_set w) plen (lcp w fl) pzero (okp w) am ->
  a_items pfx V am = Arena.Ok items -> incl sel items ->
  a_items pfx V (a_write pfx V am (MutTrav.writes_of pfx V g sel))
  = Arena.Ok (map (fun '(i, p, x) => (i, p, if MutTrav.is_slot_of pfx V sel i then g i x else x)) items).
Proof.
  intros H. apply (arena_C13_write_exact pfx V (peq w) (contains w fl) (is_bit_set w) plen (lcp w fl) pzero (kbits w) (okp w)).
  exact (areach_good pfx V _ _ _ _ _ _ _ _ _ LAWS am H).
Qed.

Theorem C13_arena_write_all (am : Arena.amap pfx V) items (g : N -> V -> V) : areach pfx V (peq w) (contains w fl) (is_bit_set w) plen (lcp w fl) pzero (okp w) am ->
  a_items pfx V am = Arena.Ok items ->
  a_items pfx V (a_write pfx V am (MutTrav.writes_of pfx V g items)) = Arena.Ok (map (fun '(i, p, x) => (i, p, g i x)) items) /\
  Arena.a_entries pfx V (a_write pfx V am (MutTrav.writes_of pfx V g items)) = Arena.Ok (map (fun '(i, p, x) => (p, g i x)) items).
Proof.
  intros H. apply (arena_C13_write_all pfx V (peq w) (contains w fl) (is_bit_set w) plen (lcp w fl) pzero (kbits w) (okp w)).
  exact (areach_good pfx V _ _ _ _ _ _ _ _ _ LAWS am H).
Qed.

(** [get_lpm_mut] hands out one of the references of [iter_mut]; prefix and value are [get_lpm]'s *)
Theorem C13_arena_get_lpm_mut (am : Arena.amap pfx V) items q : areach pfx V (peq w) (contains w fl) (is_bit_set w) plen (lcp w fl) pzero (okp w) am ->
  a_items pfx V am = Arena.Ok items ->
  exists o, Arena3.a_get_lpm_mut pfx V (peq w) (contains w fl) (is_bit_set w) plen am q = Arena.Ok o /\
            Arena.a_get_lpm pfx V (peq w) (contains w fl) (is_bit_set w) plen am q = Arena.Ok (option_map (drop3 pfx V) o) /\
            match o with Some e => In e items | None => True end.
Proof.
  intros H. apply (arena_C13_get_lpm_mut pfx V (peq w) (contains w fl) (is_bit_set w) plen (lcp w fl) pzero (kbits w) (okp w)).
  exact (areach_good pfx V _ _ _ _ _ _ _ _ _ LAWS am H).
Qed.

End C13.

(** non-vacuity (w = 8): the map {00/2 -> 1, 40/2 -> 2, 80/1 -> 3, c0/2 -> 4}; inserting 40/2
    created the value-less branching node 0/1 (slot 2).  [iter_mut] yields the slots 1,3,4,5
    (pairwise distinct, the branching node yields nothing) and the same items as [iter]; writing
    20 and 40 through the references to slots 3 and 5 changes exactly those two entries, and a
    later [get] sees it. *)
Example C13_example :
  let ins := fun m q (x : nat) => fst (t_insert 8 Generic nat m q x) in
  let m := ins (ins (ins (ins (t_empty nat) (mkpfx 0x00 2) 1%nat) (mkpfx 0x40 2) 2%nat)
                    (mkpfx 0x80 1) 3%nat) (mkpfx 0xc0 2) 4%nat in
  let t := root m in
  let ws := [(3%N, 20%nat); (5%N, 40%nat)] in
  map (fun '(i, _, _) => i) (t_iter_mut_items nat t) = [1; 3; 4; 5]%N /\
  t_iter_mut_items nat t = t_iter_items nat t /\
  t_get_node 8 Generic nat t (mkpfx 0x00 1) = Some (2%N, mkpfx 0x00 1, None) /\
  entries t = [(mkpfx 0x00 2, 1%nat); (mkpfx 0x40 2, 2%nat); (mkpfx 0x80 1, 3%nat); (mkpfx 0xc0 2, 4%nat)] /\
  entries (write_ids t ws)
    = [(mkpfx 0x00 2, 1%nat); (mkpfx 0x40 2, 20%nat); (mkpfx 0x80 1, 3%nat); (mkpfx 0xc0 2, 40%nat)] /\
  t_get 8 Generic nat (write_ids t ws) (mkpfx 0x40 2) = Some 20%nat /\
  t_get_lpm 8 Generic nat (write_ids t ws) (mkpfx 0xc5 8) = Some (mkpfx 0xc0 2, 40%nat) /\
  Slots.ids pfx nat (write_ids t ws) = Slots.ids pfx nat t.
Proof. vm_compute. repeat split; reflexivity. Qed.

Print Assumptions C13_reachable.
Print Assumptions C13_iter_mut_mirrors.
Print Assumptions C13_iter_yields_entries.
Print Assumptions C13_values_mut_mirrors.
Print Assumptions C13_into_iter_mirrors.
Print Assumptions C13_children_mut_mirrors.
Print Assumptions C13_into_children_mirrors.
Print Assumptions C13_get_mut_mirrors.
Print Assumptions C13_get_lpm_mut_mirrors.
Print Assumptions C13_view_iter_mut_mirrors.
Print Assumptions C13_view_value_mut_mirrors.
Print Assumptions C13_union_mut_mirrors.
Print Assumptions C13_intersection_mut_mirrors.
Print Assumptions C13_difference_mut_mirrors.
Print Assumptions C13_covering_difference_mut_mirrors.
Print Assumptions C13_iter_mut_refs.
Print Assumptions C13_children_mut_refs.
Print Assumptions C13_get_mut_ref.
Print Assumptions C13_get_lpm_mut_ref.
Print Assumptions C13_view_iter_mut_refs.
Print Assumptions C13_view_value_mut_ref.
Print Assumptions C13_view_value_mut_none.
Print Assumptions C13_union_mut_refs.
Print Assumptions C13_intersection_mut_refs.
Print Assumptions C13_difference_mut_refs.
Print Assumptions C13_covering_difference_mut_refs.
Print Assumptions C13_write_exact.
Print Assumptions C13_write_all.
Print Assumptions C13_write_all_reachable.
Print Assumptions C13_write_positions.
Print Assumptions C13_write_lands.
Print Assumptions C13_write_lands_distinct.
Print Assumptions C13_write_lands_keyed.
Print Assumptions C13_write_preserves.
Print Assumptions C13_write_inside_view.
Print Assumptions C13_write_visible_iter.
Print Assumptions C13_write_visible_get.
Print Assumptions C13_write_visible_get_key_value.
Print Assumptions C13_write_visible_get_lpm.
Print Assumptions C13_write_visible_by_key.
Print Assumptions C13_get_mut_write.
Print Assumptions C13_get_mut_absent.
Print Assumptions C13_arena_iter_mirrors.
Print Assumptions C13_arena_iter_mut.
Print Assumptions C13_arena_write_frame.
Print Assumptions C13_arena_write_exact.
Print Assumptions C13_arena_write_all.
Print Assumptions C13_arena_get_lpm_mut.
