(** C14 — Mutable access is exclusive: live mutable references never alias an entry.

    SCOPE.  This file states the MODEL-LEVEL part of C14.  In the model a reference is the arena
    slot [N] carried by every yielded item, a mutable view is a path into the map's tree
    ([vmut]), the slots a view can reach are [vm_slots T m], and a worker's activity is a list
    of (slot, value) writes applied one by one ([write_each] = [fold_left] of single-reference
    [write_ids]).  Proved here, for every width [w >= 1], flavour, value type and every tree
    with pairwise distinct slots — which every reachable state is ([C14_reachable_distinct_slots]):
      (a) all references yielded by ONE mutable traversal (iter_mut, children_mut, a view's
          iter_mut, either side of the four [*_mut] set operations) are pairwise distinct;
      (b) the views obtained from one view by [split] / [left]+[right], and all views derived
          from those by any sequence of [find] / [find_exact] / [find_lpm] / [left] / [right],
          address disjoint slot sets, hand out disjoint references, and a view over other
          entries observes nothing of the writes (frame);
      (c) a [*_mut] set operation over two disjoint sub-views of one map hands out pairwise
          distinct references on both sides together (for the two difference operations, whose
          right operand is read-only: none of the mutable references lies in the right view);
      (d) writes through disjoint reference sets commute, and EVERY interleaving of the
          per-entry writes of two workers on disjoint views equals the sequential result (in
          either order); the structural writes of views ([set], [remove], [value_mut]) at
          disjoint views commute as well.
    NOT EXPRESSIBLE in a Gallina model, and therefore not claimed here: the compile-time clauses
    of C14 — that client programs which WOULD create aliasing views/references (or a read-only
    view coexisting with a mutable one over the same entries) are rejected by the borrow
    checker, and that maps/views holding non-thread-safe values cannot cross threads (the
    [unsafe impl Send/Sync] bounds).  What the model contributes to those clauses is the
    soundness argument they rest on: the API constructors that consume or mutably borrow a view
    ([split], [left], [right], [find*], [iter_mut], [*_mut]) only ever produce the disjoint slot
    sets of (a)-(c), so the lifetimes the signatures promise are honoured by the arena indexing. *)
From Coq Require Import List NArith Bool Permutation Relations.
From PT Require Import Lookup Lookup2 ViewsThm Slots MutTrav MutTravExtra UnionThm InterDiffThm ParModel InstPar Arena Arena3 ArenaProps ArenaViews ArenaWrite ArenaAlias.
From PT.Properties Require Import Common.
Import ListNotations.

Section C14.
Variables (w : N) (fl : flavour) (V R : Type).
Hypothesis Hw : (1 <= w)%N.
Notation tree := (Trie.tree pfx V).
Notation ids := (Slots.ids pfx V).
Notation slot := (MutTrav.slot3 pfx V).
Notation slotR := (MutTrav.slot3 pfx R).
Notation LAWS := (laws w fl Hw).
Notation vm_slots := (MutTravExtra.vm_slots pfx V).
Notation write_each := (MutTrav.write_each pfx V).
(** one consuming API step on a mutable view / any number of them *)
Notation step := (vm_step pfx V (peq w) (contains w fl) (is_bit_set w) plen pzero).
Notation derived := (vm_derived pfx V (peq w) (contains w fl) (is_bit_set w) plen pzero).

(** in every reachable state the slots of the tree are pairwise distinct *)
Theorem C14_reachable_distinct_slots (ops : list (hop V)) :
  Forall (hop_ok w V) ops -> NoDup (ids (root (hrun w fl V ops))).
Proof. exact (reachable_nodup pfx V _ _ _ _ _ _ _ _ _ LAWS ops). Qed.

(* ------------------------------------------------------------------------------------------ *)
(** * (a) one traversal never yields two references to the same entry *)

Theorem C14_iter_mut_distinct (t : tree) :
  NoDup (ids t) -> NoDup (map slot (t_iter_mut_items V t)).
Proof. intros H. exact (proj1 (iter_mut_refs pfx V t H)). Qed.

Theorem C14_iter_mut_distinct_reachable (ops : list (hop V)) :
  Forall (hop_ok w V) ops -> NoDup (map slot (t_iter_mut_items V (root (hrun w fl V ops)))).
Proof. intros H. apply C14_iter_mut_distinct. exact (C14_reachable_distinct_slots ops H). Qed.

Theorem C14_children_mut_distinct (t : tree) (q : pfx) :
  NoDup (ids t) -> NoDup (map slot (t_children_mut w fl V t q)).
Proof. intros H. exact (proj1 (children_mut_refs pfx V _ _ _ _ t q H)). Qed.

Theorem C14_view_iter_mut_distinct (T : tree) (m : vmut pfx) :
  NoDup (ids T) -> NoDup (map slot (vm_iter_mut T m)) /\ incl (map slot (vm_iter_mut T m)) (vm_slots T m).
Proof.
  intros H. split; [exact (proj1 (vm_iter_mut_refs pfx V T m H)) | exact (vm_iter_mut_slots pfx V T m)].
Qed.

(** the [*_mut] set operations over two maps (or views) [ta], [tb]: the references into [ta] are
    pairwise distinct, and so are the references into [tb] *)
Theorem C14_union_mut_distinct ba bb (ta : tree) (tb : Trie.tree pfx R) outm :
  wfu w V ba ta -> wfu w R bb tb -> t_union_mut w fl V R ta tb = Some outm ->
  (NoDup (ids ta) -> NoDup (map slot (um_lrefs pfx V R outm))) /\
  (NoDup (Slots.ids pfx R tb) -> NoDup (map slotR (um_rrefs pfx V R outm))).
Proof.
  intros Ha Hb Hm.
  destruct (union_mut_refs pfx V R _ _ _ _ _ _ _ _ _ LAWS ba bb ta tb outm Ha Hb Hm) as [_ [_ C]]. exact C.
Qed.

Theorem C14_intersection_mut_distinct ba bb (ta : tree) (tb : Trie.tree pfx R) outm :
  wfu w V ba ta -> wfu w R bb tb -> t_intersection_mut w fl V R ta tb = Some outm ->
  (NoDup (ids ta) -> NoDup (map slot (im_lrefs pfx V R outm))) /\
  (NoDup (Slots.ids pfx R tb) -> NoDup (map slotR (im_rrefs pfx V R outm))).
Proof.
  intros Ha Hb Hm.
  destruct (intersection_mut_refs pfx V R _ _ _ _ _ _ _ _ _ LAWS ba bb ta tb outm Ha Hb Hm) as [_ [_ C]]. exact C.
Qed.

Theorem C14_difference_mut_distinct ba bb (ta : tree) (tb : Trie.tree pfx R) outm :
  wfu w V ba ta -> wfu w R bb tb -> t_difference_mut w fl V R ta tb = Some outm ->
  NoDup (ids ta) -> NoDup (map slot (dm_refs pfx V R outm)).
Proof.
  intros Ha Hb Hm.
  exact (proj2 (difference_mut_refs pfx V R _ _ _ _ _ _ _ _ _ LAWS ba bb ta tb outm Ha Hb Hm)).
Qed.

Theorem C14_covering_difference_mut_distinct ba bb (ta : tree) (tb : Trie.tree pfx R) outm :
  wfu w V ba ta -> wfu w R bb tb -> t_covering_difference_mut w fl V R ta tb = Some outm ->
  NoDup (ids ta) -> NoDup (map slot (cdm_refs pfx V outm)).
Proof.
  intros Ha Hb Hm.
  exact (proj2 (covering_difference_mut_refs pfx V R _ _ _ _ _ _ _ _ _ LAWS ba bb ta tb outm Ha Hb Hm)).
Qed.

(* ------------------------------------------------------------------------------------------ *)
(** * (b) several views obtained from one view *)

(** [derived] contains every consuming constructor of [TrieViewMut] *)
Theorem C14_derived_steps (T : tree) (m m' : vmut pfx) :
  (forall q, t_vm_find w fl V T m q = Some m' -> derived T m m') /\
  (forall q, t_vm_find_exact w fl V T m q = Some m' -> derived T m m') /\
  (forall q, t_vm_find_lpm w fl V T m q = Some m' -> derived T m m') /\
  (t_vm_left w V T m = Some m' -> derived T m m') /\
  (t_vm_right w V T m = Some m' -> derived T m m').
Proof.
  repeat split; intros; apply rt_step.
  - eapply vs_find; eassumption.
  - eapply vs_find_exact; eassumption.
  - eapply vs_find_lpm; eassumption.
  - apply vs_left; assumption.
  - apply vs_right; assumption.
Qed.

(** a derived view addresses a subset of the slots of the view it was derived from *)
Theorem C14_derived_inside (T : tree) (m m' : vmut pfx) :
  derived T m m' -> incl (vm_slots T m') (vm_slots T m).
Proof. exact (vm_derived_slots pfx V _ _ _ _ _ T m m'). Qed.

(** the two halves of [split] (equivalently: the results of [left] and [right]) address
    disjoint slot sets *)
Theorem C14_split_disjoint (T : tree) (m ml mr : vmut pfx) :
  NoDup (ids T) -> t_vm_split w V T m = (Some ml, Some mr) ->
  forall i, In i (vm_slots T ml) -> ~ In i (vm_slots T mr).
Proof. exact (vm_split_slots_disjoint pfx V _ _ _ T m ml mr). Qed.

Theorem C14_split_is_left_right (T : tree) (m : vmut pfx) :
  t_vm_split w V T m = (t_vm_left w V T m, t_vm_right w V T m).
Proof. exact (vm_split_eq pfx V _ _ _ T m). Qed.

Theorem C14_left_right_disjoint (T : tree) (m ml mr : vmut pfx) :
  NoDup (ids T) -> t_vm_left w V T m = Some ml -> t_vm_right w V T m = Some mr ->
  forall i, In i (vm_slots T ml) -> ~ In i (vm_slots T mr).
Proof.
  intros Hnd Hl Hr. apply (C14_split_disjoint T m ml mr Hnd).
  exact (vm_left_right_split pfx V _ _ _ T m ml mr Hl Hr).
Qed.

(** ... and so do ALL views derived from the one half and from the other half *)
Theorem C14_split_derived_disjoint (T : tree) (m ml mr m1 m2 : vmut pfx) :
  NoDup (ids T) -> t_vm_split w V T m = (Some ml, Some mr) ->
  derived T ml m1 -> derived T mr m2 ->
  forall i, In i (vm_slots T m1) -> ~ In i (vm_slots T m2).
Proof. exact (vm_split_derived_disjoint pfx V _ _ _ _ _ T m ml mr m1 m2). Qed.

(** the references their [iter_mut]s hand out — all of them, both views together — are pairwise
    distinct *)
Theorem C14_split_derived_refs_distinct (T : tree) (m ml mr m1 m2 : vmut pfx) :
  NoDup (ids T) -> t_vm_split w V T m = (Some ml, Some mr) ->
  derived T ml m1 -> derived T mr m2 ->
  NoDup (map slot (vm_iter_mut T m1) ++ map slot (vm_iter_mut T m2)).
Proof.
  intros Hnd Hs D1 D2. apply nodup_app_intro.
  - exact (proj1 (C14_view_iter_mut_distinct T m1 Hnd)).
  - exact (proj1 (C14_view_iter_mut_distinct T m2 Hnd)).
  - intros i H1 H2. apply (C14_split_derived_disjoint T m ml mr m1 m2 Hnd Hs D1 D2 i).
    + exact (vm_iter_mut_slots pfx V T m1 i H1).
    + exact (vm_iter_mut_slots pfx V T m2 i H2).
Qed.

(** generally: two views at incomparable paths (neither is inside the other) are disjoint; views
    derived from the two halves of a split are at incomparable paths *)
Theorem C14_incomparable_views_disjoint (T : tree) (m1 m2 : vmut pfx) :
  NoDup (ids T) -> ~ prefix_of (mpath pfx m1) (mpath pfx m2) -> ~ prefix_of (mpath pfx m2) (mpath pfx m1) ->
  forall i, In i (vm_slots T m1) -> ~ In i (vm_slots T m2).
Proof. intros Hnd. exact (subtree_slots_disjoint pfx V (mpath pfx m1) T (mpath pfx m2) Hnd). Qed.

Theorem C14_split_derived_incomparable (T : tree) (m ml mr m1 m2 : vmut pfx) :
  t_vm_split w V T m = (Some ml, Some mr) -> derived T ml m1 -> derived T mr m2 ->
  ~ prefix_of (mpath pfx m1) (mpath pfx m2) /\ ~ prefix_of (mpath pfx m2) (mpath pfx m1).
Proof.
  intros Hs D1 D2. destruct (vm_split_both pfx V _ _ _ T m ml mr Hs) as [_ [El Er]].
  apply (sides_below_incomparable (mpath pfx m)).
  - pose proof (vm_derived_below pfx V _ _ _ _ _ T ml m1 D1) as H. rewrite El in H. exact H.
  - pose proof (vm_derived_below pfx V _ _ _ _ _ T mr m2 D2) as H. rewrite Er in H. exact H.
Qed.

(** frame: a view (read-only twin [vm_view] included) none of whose slots is written observes
    no change at all — so a view over entries disjoint from a mutable view's is unaffected by
    whatever is written through the latter *)
Theorem C14_disjoint_view_unaffected (T : tree) (m : vmut pfx) (ws : list (N * V)) :
  (forall i, In i (vm_slots T m) -> ~ In i (map fst ws)) ->
  vm_tree (write_ids T ws) m = vm_tree T m /\ vm_view (write_ids T ws) m = vm_view T m /\
  vm_iter_mut (write_ids T ws) m = vm_iter_mut T m.
Proof.
  intros H. pose proof (vm_tree_frame pfx V T m ws H) as E.
  split; [exact E|]. unfold vm_view, vm_iter_mut. rewrite E. split; reflexivity.
Qed.

(* ------------------------------------------------------------------------------------------ *)
(** * (c) a [*_mut] set operation over two disjoint sub-views of ONE map *)

(** [T] is one (well-formed, distinct-slot) map; the operands are its sub-views at the
    incomparable paths [pa1], [pa2] (e.g. the two halves of a split, or views derived from them:
    [C14_split_derived_incomparable]).  All references handed out — both sides together — are
    pairwise distinct; the left ones lie in the first view, the right ones in the second. *)
Theorem C14_union_mut_disjoint_views b (T : tree) (pa1 pa2 : path) outm :
  wfu w V b T -> NoDup (ids T) -> ~ prefix_of pa1 pa2 -> ~ prefix_of pa2 pa1 ->
  t_union_mut w fl V V (subtree T pa1) (subtree T pa2) = Some outm ->
  incl (map slot (um_lrefs pfx V V outm)) (ids (subtree T pa1)) /\
  incl (map slot (um_rrefs pfx V V outm)) (ids (subtree T pa2)) /\
  NoDup (map slot (um_lrefs pfx V V outm) ++ map slot (um_rrefs pfx V V outm)).
Proof.
  intros H1 H2 H3 H4. exact (union_mut_views_disjoint pfx V _ _ _ _ _ _ _ _ _ LAWS b T pa1 pa2 H1 H2 H3 H4 outm).
Qed.

Theorem C14_intersection_mut_disjoint_views b (T : tree) (pa1 pa2 : path) outm :
  wfu w V b T -> NoDup (ids T) -> ~ prefix_of pa1 pa2 -> ~ prefix_of pa2 pa1 ->
  t_intersection_mut w fl V V (subtree T pa1) (subtree T pa2) = Some outm ->
  incl (map slot (im_lrefs pfx V V outm)) (ids (subtree T pa1)) /\
  incl (map slot (im_rrefs pfx V V outm)) (ids (subtree T pa2)) /\
  NoDup (map slot (im_lrefs pfx V V outm) ++ map slot (im_rrefs pfx V V outm)).
Proof.
  intros H1 H2 H3 H4. exact (intersection_mut_views_disjoint pfx V _ _ _ _ _ _ _ _ _ LAWS b T pa1 pa2 H1 H2 H3 H4 outm).
Qed.

(** the difference operations borrow only the left view mutably; the right view is read: none of
    the mutable references designates an entry the right view can see *)
Theorem C14_difference_mut_disjoint_views b (T : tree) (pa1 pa2 : path) outm :
  wfu w V b T -> NoDup (ids T) -> ~ prefix_of pa1 pa2 -> ~ prefix_of pa2 pa1 ->
  t_difference_mut w fl V V (subtree T pa1) (subtree T pa2) = Some outm ->
  incl (map slot (dm_refs pfx V V outm)) (ids (subtree T pa1)) /\
  NoDup (map slot (dm_refs pfx V V outm)) /\
  (forall i, In i (map slot (dm_refs pfx V V outm)) -> ~ In i (ids (subtree T pa2))).
Proof.
  intros H1 H2 H3 H4. exact (difference_mut_views_disjoint pfx V _ _ _ _ _ _ _ _ _ LAWS b T pa1 pa2 H1 H2 H3 H4 outm).
Qed.

Theorem C14_covering_difference_mut_disjoint_views b (T : tree) (pa1 pa2 : path) outm :
  wfu w V b T -> NoDup (ids T) -> ~ prefix_of pa1 pa2 -> ~ prefix_of pa2 pa1 ->
  t_covering_difference_mut w fl V V (subtree T pa1) (subtree T pa2) = Some outm ->
  incl (map slot (cdm_refs pfx V outm)) (ids (subtree T pa1)) /\
  NoDup (map slot (cdm_refs pfx V outm)) /\
  (forall i, In i (map slot (cdm_refs pfx V outm)) -> ~ In i (ids (subtree T pa2))).
Proof.
  intros H1 H2 H3 H4. exact (covering_difference_mut_views_disjoint pfx V _ _ _ _ _ _ _ _ _ LAWS b T pa1 pa2 H1 H2 H3 H4 outm).
Qed.

(* ------------------------------------------------------------------------------------------ *)
(** * (d) disjoint writes commute; every interleaving equals the sequential result *)

(** two batches of writes through disjoint reference sets commute (any tree, any values) *)
Theorem C14_writes_commute (t : tree) (w1 w2 : list (N * V)) :
  (forall i, In i (map fst w1) -> ~ In i (map fst w2)) ->
  write_ids (write_ids t w1) w2 = write_ids (write_ids t w2) w1.
Proof. exact (write_ids_comm pfx V t w1 w2). Qed.

(** writes through references yielded under two disjoint sub-views commute *)
Theorem C14_subview_writes_commute (T : tree) (pa1 pa2 : path) items1 items2 (g1 g2 : N -> V -> V) :
  NoDup (ids T) -> ~ prefix_of pa1 pa2 -> ~ prefix_of pa2 pa1 ->
  incl items1 (entries_id (subtree T pa1)) -> incl items2 (entries_id (subtree T pa2)) ->
  write_ids (write_ids T (map (fun '(i, _, x) => (i, g1 i x)) items1)) (map (fun '(i, _, x) => (i, g2 i x)) items2)
  = write_ids (write_ids T (map (fun '(i, _, x) => (i, g2 i x)) items2)) (map (fun '(i, _, x) => (i, g1 i x)) items1).
Proof. exact (subtree_writes_commute pfx V T pa1 pa2 items1 items2 g1 g2). Qed.

(** SCHEDULES.  [w1], [w2]: the sequences of single-reference writes of two workers, in each
    worker's program order (a worker may write a slot any number of times); [w]: any
    order-preserving merge of the two ([interleave]) — i.e. any thread interleaving at the
    granularity of one write.  If the workers' slot sets are disjoint, executing [w] write by
    write gives exactly the result of running worker 1 to completion and then worker 2 — and
    of running worker 2 first. *)
Theorem C14_interleaving_sequential (T : tree) (w1 w2 ws : list (N * V)) :
  interleave w1 w2 ws -> (forall i, In i (map fst w1) -> ~ In i (map fst w2)) ->
  fold_left (fun t e => write_ids t [e]) ws T = write_each (write_each T w1) w2 /\
  fold_left (fun t e => write_ids t [e]) ws T = write_each (write_each T w2) w1.
Proof.
  intros Hi Hd. split.
  - exact (interleave_sequential pfx V w1 w2 ws Hi Hd T).
  - exact (interleave_sequential_sym pfx V w1 w2 ws Hi Hd T).
Qed.

(** even an arbitrary reordering is harmless when every slot is written at most once overall *)
Theorem C14_any_order (T : tree) (w1 w2 ws : list (N * V)) :
  NoDup (map fst (w1 ++ w2)) -> Permutation ws (w1 ++ w2) ->
  fold_left (fun t e => write_ids t [e]) ws T = write_ids (write_ids T w1) w2 /\
  write_each T ws = write_each (write_each T w1) w2.
Proof.
  intros Hnd Hp. split.
  - exact (interleaving_irrelevant pfx V T w1 w2 ws Hnd Hp).
  - exact (interleaving_sequential pfx V T w1 w2 ws Hnd Hp).
Qed.

(** THE CONCURRENCY STATEMENT of C14 at the model level.  Split a view of the map; hand views
    derived from the left half to worker 1 and views derived from the right half to worker 2;
    each worker writes (in its own order, any values, any number of times) through references
    its view's traversals yielded.  Whatever the interleaving, the final map is the one obtained
    by running the two workers one after the other, in either order. *)
Theorem C14_split_workers (T : tree) (m ml mr m1 m2 : vmut pfx) (w1 w2 ws : list (N * V)) :
  NoDup (ids T) -> t_vm_split w V T m = (Some ml, Some mr) ->
  derived T ml m1 -> derived T mr m2 ->
  incl (map fst w1) (vm_slots T m1) -> incl (map fst w2) (vm_slots T m2) ->
  interleave w1 w2 ws ->
  fold_left (fun t e => write_ids t [e]) ws T = write_each (write_each T w1) w2 /\
  fold_left (fun t e => write_ids t [e]) ws T = write_each (write_each T w2) w1.
Proof.
  intros Hnd Hs D1 D2 I1 I2 Hi. apply C14_interleaving_sequential; [exact Hi|].
  intros i H1 H2. exact (C14_split_derived_disjoint T m ml mr m1 m2 Hnd Hs D1 D2 i (I1 i H1) (I2 i H2)).
Qed.

(** the structural writes of [TrieViewMut] — [remove] (take the value out), [set], a write
    through [value_mut] — at two views derived from the two halves of a split commute, and
    neither changes what the other view sees *)
Theorem C14_view_writes_commute (T : tree) (m ml mr m1 m2 : vmut pfx) (o1 o2 : vwrite V) :
  t_vm_split w V T m = (Some ml, Some mr) -> derived T ml m1 -> derived T mr m2 ->
  vm_apply pfx V (vm_apply pfx V T m1 o1) m2 o2 = vm_apply pfx V (vm_apply pfx V T m2 o2) m1 o1 /\
  vm_tree (vm_apply pfx V T m1 o1) m2 = vm_tree T m2 /\
  vm_tree (vm_apply pfx V T m2 o2) m1 = vm_tree T m1.
Proof.
  intros Hs D1 D2. destruct (C14_split_derived_incomparable T m ml mr m1 m2 Hs D1 D2) as [H12 H21].
  split; [exact (vm_apply_comm pfx V T m1 m2 o1 o2 H12 H21)|]. split.
  - exact (vm_apply_other pfx V T m1 m2 o1 H12 H21).
  - exact (vm_apply_other pfx V T m2 m1 o2 H21 H12).
Qed.

(** * The two script operations that tie this property to the code ([alias], [par]: SCRIPT.md).
      Their model side is [ParModel.v], extracted and run by the driver ([InstPar.t_*]). *)

(** [alias]: in every reachable state the report the model prints is "all flags true": the
    references of one [iter_mut] are pairwise distinct; the own values of all views of a recursive
    [split()] are pairwise distinct and are exactly the entries; both sides of the four [*_mut]
    set operations over the two halves of the root split are pairwise distinct entries of the
    map (the difference ones avoid the read-only half).  The implementation must print the same
    flags, computed from ADDRESSES. *)
Theorem C14_alias_report (ops : list (hop V)) :
  Forall (hop_ok w V) ops ->
  let T := root (hrun w fl V ops) in
  t_alias_report w fl V T = (length (entries T), true, true, true, true).
Proof.
  intros Hops T.
  apply (alias_report_true_root pfx V _ _ _ _ _ _ _ _ _ LAWS T).
  - exact (reachable_wfm w fl V Hw ops Hops).
  - exact (C14_reachable_distinct_slots ops Hops).
Qed.

(** [par k]: the splitter and the workers write pairwise disjoint slot sets, and EVERY schedule of
    the workers' individual writes — indeed every order of all individual writes — yields the tree
    the model computes by running them one after the other; only values change. *)
Theorem C14_par_schedule_independent (sf : V -> V) (wf : nat -> V -> V) (k : nat) (T : tree) :
  NoDup (ids T) ->
  let ws := snd (t_par_jobs w V sf k T) in
  let W := par_workers pfx V (is_bit_set w) plen pzero wf sf k T in
  NoDup (map fst ws ++ concat (map (map fst) W)) /\
  (forall s, interleaveN W s -> write_each T (ws ++ s) = t_par_result w V wf sf k T) /\
  (forall s, Permutation s (par_writes pfx V (is_bit_set w) plen pzero wf sf k T) ->
             write_each T s = t_par_result w V wf sf k T) /\
  fold_left (fun t w0 => write_ids t w0) W (write_ids T ws) = t_par_result w V wf sf k T /\
  map fst (entries (t_par_result w V wf sf k T)) = map fst (entries T) /\
  ids (t_par_result w V wf sf k T) = ids T /\
  MutTrav.skel pfx V (t_par_result w V wf sf k T) = MutTrav.skel pfx V T.
Proof.
  intros Hnd ws W.
  destruct (par_schedule_independent pfx V (is_bit_set w) plen pzero sf wf k T Hnd) as (A & _ & _ & B & C & D).
  destruct (par_result_frame pfx V (is_bit_set w) plen pzero sf wf k T) as (E & F & G & _).
  repeat split; assumption.
Qed.

(** every entry is written exactly once by [par]: by the splitter (the own entry of a node that
    is split) or by exactly one worker *)
Theorem C14_par_jobs_cover (sf : V -> V) (k : nat) (T : tree) :
  NoDup (ids T) ->
  let jobs := fst (t_par_jobs w V sf k T) in
  let ws := snd (t_par_jobs w V sf k T) in
  forall i p x, In (i, p, x) (entries_id T) ->
    (In (i, sf x) ws /\ forall j, In j jobs -> ~ In i (job_slots pfx V T j))
    \/
    (~ In i (map fst ws) /\
     exists n j, nth_error jobs n = Some j /\ In (i, p, x) (vm_iter_mut T j) /\
       forall n' j', nth_error jobs n' = Some j' -> In i (job_slots pfx V T j') -> n' = n).
Proof. intros Hnd. exact (par_jobs_cover pfx V (is_bit_set w) plen pzero sf k T Hnd). Qed.

(* ---------------------------------------------------------------------------------------- *)
(** * The same statements about the ARENA-level transcription (ArenaAlias.v): at the arena level a
      [&mut T] handed out by a traversal is a slot index into the table.  [am] is any arena reachable
      from the empty arena by a history over the whole mutator alphabet, [l] any view location
      obtained from the root by any sequence of navigation calls. *)

(** one mutable traversal of a view ([iter_mut] / [values_mut] / [into_iter]): pairwise distinct
    slots; its projection is the read-only traversal *)
Theorem C14_arena_view_iter_mut (am : Arena.amap pfx V) l : areach pfx V (peq w) (contains w fl) (is_bit_set w) plen (lcp w fl) pzero (okp w) am -> a_vreach pfx V (peq w) (contains w fl) (is_bit_set w) plen (lcp w fl) (okp w) (Arena.tbl am) l ->
  exists items, a_v_iter_mut pfx V (Arena.tbl am) l = Arena.Ok items /\
                a_v_iter pfx V (Arena.tbl am) l = Arena.Ok (map (ArenaWrite.drop3 pfx V) items) /\
                NoDup (map slot items).
Proof. exact (arena_C14_view_iter_mut pfx V _ _ _ _ _ _ _ _ _ LAWS am l). Qed.

(** the two halves of [split()] hand out disjoint slot sets: the concatenation of the two mutable
    traversals contains no slot twice *)
Theorem C14_arena_split (am : Arena.amap pfx V) l l1 l2 : areach pfx V (peq w) (contains w fl) (is_bit_set w) plen (lcp w fl) pzero (okp w) am -> a_vreach pfx V (peq w) (contains w fl) (is_bit_set w) plen (lcp w fl) (okp w) (Arena.tbl am) l ->
  Arena3.a_vm_split pfx V (is_bit_set w) plen (Arena.tbl am) l = Arena.Ok (Some l1, Some l2) ->
  exists i1 i2, a_v_iter_mut pfx V (Arena.tbl am) l1 = Arena.Ok i1 /\ a_v_iter_mut pfx V (Arena.tbl am) l2 = Arena.Ok i2 /\
                NoDup (map slot i1 ++ map slot i2).
Proof. exact (arena_C14_split pfx V _ _ _ _ _ _ _ _ _ LAWS am l l1 l2). Qed.

End C14.

(** non-vacuity (w = 8): the map {00/2 -> 1, 40/2 -> 2, 80/1 -> 3, c0/2 -> 4} with the
    value-less branching node 0/1 (slot 2).  The slots [iter_mut] yields are pairwise distinct;
    splitting the root view gives the views at paths [false] (slots 2,1,3) and [true] (slots
    4,5); a worker on each side writes one entry (slot 3 := 20, slot 5 := 40): both sequential
    orders and an interleaved schedule with a repeated write give the same map. *)
Example C14_example :
  let ins := fun m q (x : nat) => fst (t_insert 8 Generic nat m q x) in
  let m := ins (ins (ins (ins (t_empty nat) (mkpfx 0x00 2) 1%nat) (mkpfx 0x40 2) 2%nat)
                    (mkpfx 0x80 1) 3%nat) (mkpfx 0xc0 2) 4%nat in
  let T := root m in
  let ml := mkvmut pfx [false] None in
  let mr := mkvmut pfx [true] None in
  let w1 := [(3%N, 19%nat); (3%N, 20%nat)] in
  let w2 := [(5%N, 40%nat)] in
  map (fun '(i, _, _) => i) (t_iter_mut_items nat T) = [1; 3; 4; 5]%N /\
  t_vm_split 8 nat T (vm_root pfx) = (Some ml, Some mr) /\
  MutTravExtra.vm_slots pfx nat T ml = [2; 1; 3]%N /\ MutTravExtra.vm_slots pfx nat T mr = [4; 5]%N /\
  map (fun '(i, _, _) => i) (vm_iter_mut T ml) = [1; 3]%N /\
  map (fun '(i, _, _) => i) (vm_iter_mut T mr) = [4; 5]%N /\
  entries (write_ids T [(3%N, 20%nat); (5%N, 40%nat)])
    = [(mkpfx 0x00 2, 1%nat); (mkpfx 0x40 2, 20%nat); (mkpfx 0x80 1, 3%nat); (mkpfx 0xc0 2, 40%nat)] /\
  MutTrav.write_each pfx nat T [(3%N, 19%nat); (5%N, 40%nat); (3%N, 20%nat)]
    = MutTrav.write_each pfx nat (MutTrav.write_each pfx nat T w1) w2 /\
  MutTrav.write_each pfx nat (MutTrav.write_each pfx nat T w1) w2
    = MutTrav.write_each pfx nat (MutTrav.write_each pfx nat T w2) w1 /\
  MutTrav.write_each pfx nat (MutTrav.write_each pfx nat T w1) w2 = write_ids T [(3%N, 20%nat); (5%N, 40%nat)].
Proof. vm_compute. repeat split; reflexivity. Qed.

Print Assumptions C14_alias_report.
Print Assumptions C14_par_schedule_independent.
Print Assumptions C14_par_jobs_cover.
Print Assumptions C14_reachable_distinct_slots.
Print Assumptions C14_iter_mut_distinct.
Print Assumptions C14_iter_mut_distinct_reachable.
Print Assumptions C14_children_mut_distinct.
Print Assumptions C14_view_iter_mut_distinct.
Print Assumptions C14_union_mut_distinct.
Print Assumptions C14_intersection_mut_distinct.
Print Assumptions C14_difference_mut_distinct.
Print Assumptions C14_covering_difference_mut_distinct.
Print Assumptions C14_derived_steps.
Print Assumptions C14_derived_inside.
Print Assumptions C14_split_disjoint.
Print Assumptions C14_split_is_left_right.
Print Assumptions C14_left_right_disjoint.
Print Assumptions C14_split_derived_disjoint.
Print Assumptions C14_split_derived_refs_distinct.
Print Assumptions C14_incomparable_views_disjoint.
Print Assumptions C14_split_derived_incomparable.
Print Assumptions C14_disjoint_view_unaffected.
Print Assumptions C14_union_mut_disjoint_views.
Print Assumptions C14_intersection_mut_disjoint_views.
Print Assumptions C14_difference_mut_disjoint_views.
Print Assumptions C14_covering_difference_mut_disjoint_views.
Print Assumptions C14_writes_commute.
Print Assumptions C14_subview_writes_commute.
Print Assumptions C14_interleaving_sequential.
Print Assumptions C14_any_order.
Print Assumptions C14_split_workers.
Print Assumptions C14_view_writes_commute.
Print Assumptions C14_arena_view_iter_mut.
Print Assumptions C14_arena_split.
