(** C15 — the trie stays well-formed; the insert/remove shape depends only on the key set.

    The structure observable through views is the tree [root m] of the model, walked along paths
    ([subtree t pa]: [left()] / [right()] of a view append a bit to the path; [prefix()] / [value()]
    read the node reached).

    (a) FULL alphabet ([History.op], any closures, Entry API, views): every reachable state is a
        well-formed binary trie — the root is the zero-length prefix; for every node [p] and its
        child [c] on side [s], [c]'s key extends [p]'s key by the bit [s]: strictly longer, covered
        by [p], and [s] is the bit of [c] at position [len p] ([is_bit_set c (len p) = s]) —
        [C15_wf_reachable], [C15_edges]; hence every root-to-leaf path has at most [w + 1] nodes
        ([C15_depth], [C15_path_len]).
    (b) insert / Entry API / collect / remove / retain / clear ([History.canon_op]; also get_mut and
        writes through mutable traversals): every value-less non-root node has two children
        ([C15_canonical], [C15_canonical_words]), and the observable shape ([Canon.shape_of]: keys,
        has-value flags, structure; no slot numbers, values, host bits) is IDENTICAL to that of a
        map freshly built from the surviving entries in ANY order ([C15_shape_rebuild]), in fact
        from any list with the same key set ([C15_shape_same_keys]); two such histories with the
        same surviving key set have the same shape ([C15_shape_determined]); [remove] exactly
        reverts the [insert] of a fresh key ([C15_remove_reverts_insert]).
    (c) remove_keep_tree, OccupiedEntry::remove and the value-only operations (get_mut /
        and_modify, writes through mutable traversals, TrieViewMut::set / ::remove, the Entry API
        on an occupied entry) never change the structure: same slots, same stored prefixes, same
        children ([C15_value_ops_keep_structure]; [OccupiedEntry::insert] stores the caller's
        prefix, so for it: same keys, [C15_value_ops_keep_keys]). *)
From Coq Require Import List NArith ZArith Bool Lia Permutation.
From PT Require Import Slots Mutate Canon History HistoryExtra Arena ArenaThm ArenaProps.
From PT.Properties Require Import Common.
Import ListNotations.

Section C15.
Variables (w : N) (fl : flavour) (V : Type).
Hypothesis Hw : (1 <= w)%N.

Notation hrun := (hrun w fl V).
Notation hop := (hop V).
Notation hop_ok := (hop_ok w V).
Notation kbits := (kbits w).
Notation okp := (okp w).
Notation wfm := (wfm w V).
Notation canon_op := (History.canon_op pfx V).
Notation canonical := (Canon.canonical pfx V).
Notation shape_of := (Canon.shape_of pfx V kbits).
Notation step := (History.step pfx V (peq w) (contains w fl) (is_bit_set w) plen (lcp w fl) pzero).
Notation value_op := (HistoryExtra.value_op pfx V (peq w) (contains w fl) (is_bit_set w) plen).
Notation replaces_prefix := (HistoryExtra.replaces_prefix pfx V).
Notation depth := (HistoryExtra.depth pfx V).
Notation skel := (Mutate.skel pfx V).
Notation skelb := (Mutate.skelb pfx V kbits).
Notation LAWS := (laws w fl Hw).

(** keys have at most [w] bits *)
Lemma C15_key_len (p : pfx) : okp p -> (length (kbits p) <= N.to_nat w)%nat.
Proof.
  intros H. pose proof (plen_bits _ _ _ _ _ _ _ _ _ _ LAWS p H) as E.
  unfold Common.okp, valid in H. apply andb_true_iff in H. destruct H as [H _].
  apply N.leb_le in H. lia.
Qed.

(* ---------------------------------------------------------------------------------------- *)
(** (a) well-formedness over the FULL alphabet *)

Theorem C15_wf_reachable (ops : list hop) : Forall hop_ok ops -> wfm (root (hrun ops)).
Proof. exact (reachable_wfm w fl V Hw ops). Qed.

(** a well-formed map in words: the root is the zero-length prefix; along every path, for every
    node [p] and every child [cp] of it on side [s] ([false] = left, [true] = right): both are
    valid prefixes, [cp] is strictly longer than [p], covered by [p], and on the side selected by
    its bit number [len p] *)
Theorem C15_edges (t : tree pfx V) : wfm t ->
  (exists i p v l r, t = Node i p v l r /\ kbits p = [] /\ plen p = 0%N) /\
  forall pa i p v l r, subtree t pa = Node i p v l r ->
    okp p /\
    forall (s : bool) ci cp cv cl cr, (if s then r else l) = Node ci cp cv cl cr ->
      okp cp /\ (plen p < plen cp)%N /\ (length (kbits p) < length (kbits cp))%nat /\
      prefix_of (kbits p) (kbits cp) /\ prefix_of (kbits p ++ [s]) (kbits cp) /\
      nth (length (kbits p)) (kbits cp) false = s /\ is_bit_set w cp (plen p) = s.
Proof.
  intros Hr. destruct (wf_edges pfx V kbits okp t Hr) as [R E]. split.
  - destruct R as (i & p & v & l & r & Et & Eb). exists i, p, v, l, r. split; [exact Et|]. split; [exact Eb|].
    assert (Hp : okp p). { subst t. destruct Hr as [_ [Hp _]]. exact Hp. }
    rewrite (plen_bits _ _ _ _ _ _ _ _ _ _ LAWS p Hp), Eb. reflexivity.
  - intros pa i p v l r Hs. destruct (E pa i p v l r Hs) as [Hp [_ Hc]]. split; [exact Hp|].
    intros s ci cp cv cl cr Hch. destruct (Hc s ci cp cv cl cr Hch) as [Hcp Hpre].
    destruct (edge_words _ _ _ Hpre) as [L [P B]].
    pose proof (plen_bits _ _ _ _ _ _ _ _ _ _ LAWS p Hp) as Lp.
    pose proof (plen_bits _ _ _ _ _ _ _ _ _ _ LAWS cp Hcp) as Lc.
    repeat split; try assumption; [lia|].
    rewrite (bit_spec _ _ _ _ _ _ _ _ _ _ LAWS cp (plen p) Hcp), Lp, Nat2N.id. exact B.
Qed.

Corollary C15_edges_reachable (ops : list hop) : Forall hop_ok ops ->
  forall pa i p v l r, subtree (root (hrun ops)) pa = Node i p v l r ->
    forall (s : bool) ci cp cv cl cr, (if s then r else l) = Node ci cp cv cl cr ->
      (plen p < plen cp)%N /\ prefix_of (kbits p) (kbits cp) /\ is_bit_set w cp (plen p) = s.
Proof.
  intros Hops pa i p v l r Hs s ci cp cv cl cr Hc.
  destruct (proj2 (C15_edges _ (C15_wf_reachable ops Hops)) pa i p v l r Hs) as [_ H].
  destruct (H s ci cp cv cl cr Hc) as (_ & A & _ & B & _ & _ & C). auto.
Qed.

(** every root-to-leaf path of a reachable state has at most [w + 1] nodes; every node is
    reached from the root by at most [w] steps *)
Theorem C15_depth (ops : list hop) : Forall hop_ok ops ->
  (depth (root (hrun ops)) <= N.to_nat w + 1)%nat.
Proof.
  intros Hops. apply (wf_root_depth pfx V pzero kbits okp); [exact C15_key_len|].
  exact (C15_wf_reachable ops Hops).
Qed.

Theorem C15_path_len (ops : list hop) pa i p v l r : Forall hop_ok ops ->
  subtree (root (hrun ops)) pa = Node i p v l r -> (length pa <= N.to_nat w)%nat.
Proof.
  intros Hops Hs. eapply (wf_root_path_len pfx V kbits okp); [exact C15_key_len | | exact Hs].
  exact (C15_wf_reachable ops Hops).
Qed.

(* ---------------------------------------------------------------------------------------- *)
(** (b) the canonical shape over insert / Entry API / collect / remove / retain / clear *)

Theorem C15_canonical (ops : list hop) : forallb canon_op ops = true -> canonical (root (hrun ops)).
Proof. exact (reachable_canonical pfx V _ _ _ _ _ _ ops). Qed.

(** in words: every value-less node other than the root has two children *)
Theorem C15_canonical_words (ops : list hop) : forallb canon_op ops = true ->
  forall pa i p l r, pa <> [] -> subtree (root (hrun ops)) pa = Node i p None l r ->
    is_node l = true /\ is_node r = true.
Proof. intros Hc. exact (canonical_words pfx V _ (C15_canonical ops Hc)). Qed.

(** the shape is that of a map freshly built from the surviving entries, in ANY order *)
Theorem C15_shape_rebuild (ops : list hop) (l : list (pfx * V)) :
  Forall hop_ok ops -> forallb canon_op ops = true ->
  Permutation l (entries (root (hrun ops))) ->
  shape_of (root (hrun ops)) = shape_of (root (t_from_list w fl V l)).
Proof.
  intros Hops Hc HP.
  exact (canonical_shape_rebuild pfx V _ _ _ _ _ _ _ kbits okp LAWS _ l
           (C15_wf_reachable ops Hops) (C15_canonical ops Hc) HP).
Qed.

(** ... indeed from any list of valid prefixes with the same KEY SET (other values, repetitions) *)
Theorem C15_shape_same_keys (ops : list hop) (l : list (pfx * V)) :
  Forall hop_ok ops -> forallb canon_op ops = true ->
  (forall e, In e l -> okp (fst e)) ->
  (forall k, (exists e, In e (entries (root (hrun ops))) /\ ekey w V e = k) <->
             (exists e, In e l /\ ekey w V e = k)) ->
  shape_of (root (hrun ops)) = shape_of (root (t_from_list w fl V l)).
Proof.
  intros Hops Hc Hok HK.
  exact (canonical_shape_from_list pfx V _ _ _ _ _ _ _ kbits okp LAWS _ l
           (C15_wf_reachable ops Hops) (C15_canonical ops Hc) Hok HK).
Qed.

(** the shape depends only on the key set: whatever the two histories did *)
Theorem C15_shape_determined (ops1 ops2 : list hop) :
  Forall hop_ok ops1 -> forallb canon_op ops1 = true ->
  Forall hop_ok ops2 -> forallb canon_op ops2 = true ->
  (forall k, (exists e, In e (entries (root (hrun ops1))) /\ ekey w V e = k) <->
             (exists e, In e (entries (root (hrun ops2))) /\ ekey w V e = k)) ->
  shape_of (root (hrun ops1)) = shape_of (root (hrun ops2)).
Proof.
  intros H1 C1 H2 C2 HK.
  exact (canonical_unique pfx V kbits okp _ _ (C15_wf_reachable ops1 H1) (C15_wf_reachable ops2 H2)
           (C15_canonical ops1 C1) (C15_canonical ops2 C2) HK).
Qed.

(** [remove] exactly reverts [insert]: inserting a key that is not stored and removing it again
    restores the shape (and the entries) *)
Theorem C15_remove_reverts_insert (ops : list hop) (q : pfx) (x : V) :
  Forall hop_ok ops -> forallb canon_op ops = true -> okp q ->
  (~ exists e, In e (entries (root (hrun ops))) /\ ekey w V e = kbits q) ->
  let ops' := ops ++ [OInsert pfx V q x; ORemove pfx V q] in
  shape_of (root (hrun ops')) = shape_of (root (hrun ops)) /\
  entries (root (hrun ops')) = entries (root (hrun ops)).
Proof.
  intros Hops Hc Hq Hfresh. cbv zeta.
  assert (E : hrun (ops ++ [OInsert pfx V q x; ORemove pfx V q]) =
              fst (t_remove w fl V (fst (t_insert w fl V (hrun ops) q x)) q)).
  { unfold Common.hrun, History.run. rewrite fold_left_app. reflexivity. }
  rewrite E.
  destruct (remove_reverts_insert_wf pfx V _ _ _ _ _ _ _ kbits okp LAWS (hrun ops) q x
              (C15_wf_reachable ops Hops) (C15_canonical ops Hc) Hq Hfresh) as (_ & _ & S & En).
  split; [exact S | exact En].
Qed.

(* ---------------------------------------------------------------------------------------- *)
(** (c) remove_keep_tree and the value-only operations never change the structure *)

(** from ANY state: slot numbers, stored prefixes (host bits included) and the child structure of
    every node are untouched ([skel] forgets the values only).  [value_op m o] holds for
    remove_keep_tree, OccupiedEntry::remove, get_mut / and_modify, writes through mutable
    traversals, TrieViewMut::set / ::remove, and the Entry API when the entry is occupied. *)
Theorem C15_value_ops_keep_structure (m : pmap pfx V) (o : hop) :
  value_op m o = true -> replaces_prefix o = false -> skel (root (step m o)) = skel (root m).
Proof. exact (step_value_skel pfx V _ _ _ _ _ _ m o). Qed.

(** ... [OccupiedEntry::insert] included: slot numbers, KEYS and child structure are untouched *)
Theorem C15_value_ops_keep_keys (ops : list hop) (o : hop) :
  Forall hop_ok ops -> hop_ok o -> value_op (hrun ops) o = true ->
  skelb (root (hrun (ops ++ [o]))) = skelb (root (hrun ops)).
Proof.
  intros Hops Ho Hv. unfold Common.hrun. rewrite run_snoc.
  exact (step_value_skelb pfx V _ _ _ _ _ _ _ kbits okp LAWS _ o (C15_wf_reachable ops Hops) Ho Hv).
Qed.

(** * The same statement about the ARENA-level transcription of the code (Arena*.v; ArenaProps.v
      composes the refinement [Rep] with the tree-level theorem).  [areach am]: [am] is reached from
      the empty arena by a history of arena-level mutator calls with valid prefixes. *)
Theorem C15_arena (am : amap pfx V) :
  areach pfx V (peq w) (contains w fl) (is_bit_set w) plen (lcp w fl) pzero okp am ->
  exists m, Rep pfx V am m /\ Slots.minv pfx V m /\ wf_root pfx V kbits okp (root m) /\ (forall m', Rep pfx V am m' -> m' = m).
Proof. exact (arena_C15_wf pfx V _ _ _ _ _ _ _ _ _ (laws w fl Hw) am). Qed.

Theorem C15_arena_canonical (am : amap pfx V) :
  areach_in pfx V (peq w) (contains w fl) (is_bit_set w) plen (lcp w fl) pzero okp (canon2 pfx V) am ->
  exists m, Rep pfx V am m /\ wf_root pfx V kbits okp (root m) /\ Canon.canonical pfx V (root m).
Proof. exact (arena_C15_canonical pfx V _ _ _ _ _ _ _ _ _ (laws w fl Hw) am). Qed.

End C15.

(** non-vacuity (w = 8): a canonical history leaving a value-less branch node; its shape equals the
    shape of the map rebuilt from the surviving entries in reverse order; a [remove_keep_tree]
    leftover is NOT canonical (so (b) really is about the smaller alphabet) but well-formed, and
    keeps the structure. *)
Example C15_example :
  let ops : list (hop nat) :=
    [OInsert pfx nat (mkpfx 0x80 2) 1%nat; OInsert pfx nat (mkpfx 0xc0 2) 2%nat;
     OInsert pfx nat (mkpfx 0x20 3) 3%nat; OInsert pfx nat (mkpfx 0xe0 3) 4%nat;
     ORemove pfx nat (mkpfx 0xe0 3); OOrInsert pfx nat (mkpfx 0x00 1) 5%nat;
     ORetain pfx nat (fun _ p _ => Some (negb (plen p =? 1)%N))] in
  let m := hrun 8 Generic nat ops in
  forallb (History.canon_op pfx nat) ops = true /\
  map fst (entries (root m)) = [mkpfx 0x20 3; mkpfx 0x80 2; mkpfx 0xc0 2] /\
  Canon.shape_of pfx nat (kbits 8) (root m) =
    SNode [] false (SNode [false; false; true] true SLeaf SLeaf)
                   (SNode [true] false (SNode [true; false] true SLeaf SLeaf)
                                       (SNode [true; true] true SLeaf SLeaf)) /\
  Canon.shape_of pfx nat (kbits 8) (root m) =
    Canon.shape_of pfx nat (kbits 8) (root (t_from_list 8 Generic nat (rev (entries (root m))))) /\
  HistoryExtra.depth pfx nat (root m) = 3%nat /\
  let m' := hrun 8 Generic nat (ops ++ [ORemoveKeepTree pfx nat (mkpfx 0xc0 2)]) in
  Mutate.skel pfx nat (root m') = Mutate.skel pfx nat (root m) /\
  length (entries (root m')) = 2%nat /\
  Canon.shape_of pfx nat (kbits 8) (root m') <>
    Canon.shape_of pfx nat (kbits 8) (root (t_from_list 8 Generic nat (entries (root m')))).
Proof. vm_compute. repeat split; try reflexivity. discriminate. Qed.

Print Assumptions C15_key_len.
Print Assumptions C15_wf_reachable.
Print Assumptions C15_edges.
Print Assumptions C15_edges_reachable.
Print Assumptions C15_depth.
Print Assumptions C15_path_len.
Print Assumptions C15_canonical.
Print Assumptions C15_canonical_words.
Print Assumptions C15_shape_rebuild.
Print Assumptions C15_shape_same_keys.
Print Assumptions C15_shape_determined.
Print Assumptions C15_remove_reverts_insert.
Print Assumptions C15_value_ops_keep_structure.
Print Assumptions C15_value_ops_keep_keys.
Print Assumptions C15_arena.
Print Assumptions C15_arena_canonical.
