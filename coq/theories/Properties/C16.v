(** C16 — removed nodes are reclaimed: storage stays bounded under churn.

    State of the model: [root m] (every node carries the arena slot it lives in: [Slots.ids]),
    the free list [free (al m)] and the arena length [alen (al m)].  [nnodes t] = number of nodes of
    the tree.  Histories are over the FULL alphabet [History.op] (insert, Entry API, remove,
    remove_keep_tree, remove_children, retain with any closure incl. a panicking one, clear,
    collect, mutable traversals, mutable views); the slot theorems need NO hypothesis on the
    arguments of the operations.

    - [C16_slots_ok], [C16_partition]: in every reachable state the slots of the tree together with
      the free list are a permutation of [0 .. alen-1]: every slot ever allocated is in the tree or
      in the free list, never both (disjoint, no duplicates on either side), never neither.
    - [C16_reuse_before_grow], [C16_reuse_free_slots], [C16_reused_slots], [C16_step_alen]: an
      operation grows the arena only if the tree needs more nodes than the arena has slots — i.e.
      only once the free list is used up; the new nodes live in slots taken from the free list.
    - [C16_storage_bounded], [C16_high_water], [C16_high_water_since_reset]: the arena length after
      ANY history is at most the largest number of nodes alive at one time, and exactly that number
      counted since the last clear / remove_children(zero-length prefix) / collect (which shrink the
      arena to the nodes alive) — however many insert/remove, remove_children or retain cycles.
    - [C16_emptied_by_remove]: over insert / Entry API / remove / retain / clear / collect, a map
      with no entries consists of the root node alone, like a new map; [C16_nodes_linear],
      [C16_churn_bound]: such a map of [n] entries has at most [2n+1] nodes, so a history that never
      holds more than [B] entries never uses more than [2B+1] slots.
      (After remove_keep_tree / remove_children value-less leftovers may remain — that is their
      contract — so this clause is about the smaller alphabet [History.canon_op].) *)
From Coq Require Import List NArith ZArith Bool Lia Permutation.
From PT Require Import Slots Canon History HistoryExtra Arena ArenaThm Arena2 Arena2Thm InstArena.
From PT.Properties Require Import Common.
Import ListNotations.

Section C16.
Variables (w : N) (fl : flavour) (V : Type).

Notation hrun := (hrun w fl V).
Notation hop := (hop V).
Notation ids := (Slots.ids pfx V).
Notation nnodes := (Slots.nnodes pfx V).
Notation slots_ok := (Slots.slots_ok pfx V).
Notation minv := (Slots.minv pfx V).
Notation canon_op := (History.canon_op pfx V).
Notation step := (History.step pfx V (peq w) (contains w fl) (is_bit_set w) plen (lcp w fl) pzero).
Notation is_reset := (HistoryExtra.is_reset pfx V plen).
Notation hpeak := (HistoryExtra.hpeak pfx V (peq w) (contains w fl) (is_bit_set w) plen (lcp w fl) pzero).
Notation empty := (Trie.empty pfx V pzero).

(** every reachable state: the slots of the tree and the free list partition [0 .. alen-1] *)
Theorem C16_slots_ok (ops : list hop) :
  Permutation (ids (root (hrun ops)) ++ free (al (hrun ops))) (seqN (alen (al (hrun ops)))).
Proof. exact (reachable_minv pfx V _ _ _ _ _ _ ops). Qed.

(** spelled out: no slot is used by two nodes; no slot is free twice; no slot is both in the tree
    and free ("never both"); a number is a slot of the tree or a free slot exactly when it is below
    the arena length ("never neither", and nothing out of range) *)
Theorem C16_partition (ops : list hop) :
  let m := hrun ops in
  NoDup (ids (root m)) /\ NoDup (free (al m)) /\
  (forall i, In i (ids (root m)) -> ~ In i (free (al m))) /\
  (forall i, (i < alen (al m))%N <-> In i (ids (root m)) \/ In i (free (al m))) /\
  alen (al m) = (nnodes (root m) + N.of_nat (length (free (al m))))%N.
Proof.
  cbv zeta. pose proof (C16_slots_ok ops) as S. repeat split.
  - exact (slots_nodup pfx V (peq w) (contains w fl) (is_bit_set w) plen (lcp w fl) pzero _ _ S).
  - exact (slots_free_nodup pfx V (peq w) (contains w fl) (is_bit_set w) plen (lcp w fl) pzero _ _ S).
  - exact (slots_disjoint pfx V (peq w) (contains w fl) (is_bit_set w) plen (lcp w fl) pzero _ _ S).
  - apply (slots_range pfx V (peq w) (contains w fl) (is_bit_set w) plen (lcp w fl) pzero _ _ S).
  - apply (slots_range pfx V (peq w) (contains w fl) (is_bit_set w) plen (lcp w fl) pzero _ _ S).
  - apply (alen_bounded pfx V (peq w) (contains w fl) (is_bit_set w) plen (lcp w fl) pzero (hrun ops) S).
Qed.

(** the next insertion reuses freed slots before growing: as long as the tree after the insertion
    fits into the arena, the arena does not grow *)
Theorem C16_reuse_before_grow (ops : list hop) (q : pfx) (x : V) :
  let m := hrun ops in let m' := hrun (ops ++ [OInsert pfx V q x]) in
  (nnodes (root m') <= alen (al m))%N -> alen (al m') = alen (al m).
Proof.
  cbv zeta. unfold Common.hrun. rewrite run_snoc. cbn [History.step].
  apply (reuse_before_grow pfx V (peq w) (contains w fl) (is_bit_set w) plen (lcp w fl) pzero). exact (reachable_minv pfx V _ _ _ _ _ _ ops).
Qed.

(** ... in particular whenever the free list holds as many slots as the insertion needs nodes *)
Theorem C16_reuse_free_slots (ops : list hop) (q : pfx) (x : V) :
  let m := hrun ops in let m' := hrun (ops ++ [OInsert pfx V q x]) in
  (nnodes (root m') <= nnodes (root m) + N.of_nat (length (free (al m))))%N ->
  alen (al m') = alen (al m).
Proof.
  cbv zeta. unfold Common.hrun. rewrite run_snoc. cbn [History.step].
  apply (reuse_free_slots pfx V (peq w) (contains w fl) (is_bit_set w) plen (lcp w fl) pzero). exact (reachable_minv pfx V _ _ _ _ _ _ ops).
Qed.

(** ... and then (for ANY operation that leaves the arena length alone) every node of the new tree
    lives in a slot of the old tree or in a slot taken from the old free list *)
Theorem C16_reused_slots (ops : list hop) (o : hop) :
  let m := hrun ops in let m' := hrun (ops ++ [o]) in
  alen (al m') = alen (al m) ->
  forall i, In i (ids (root m')) -> In i (ids (root m)) \/ In i (free (al m)).
Proof.
  cbv zeta. intros E.
  exact (no_growth_reuses pfx V (peq w) (contains w fl) (is_bit_set w) plen (lcp w fl) pzero _ _
           (reachable_minv pfx V _ _ _ _ _ _ ops) (reachable_minv pfx V _ _ _ _ _ _ (ops ++ [o])) E).
Qed.

(** one step of ANY operation from a reachable state: clear, remove_children of the zero-length
    prefix and collect shrink the arena to the nodes alive; every other operation (insert, Entry
    API, remove, remove_keep_tree, remove_children, retain, traversals, views) leaves the arena
    length alone unless the tree now has more nodes than the arena had slots *)
Theorem C16_step_alen (ops : list hop) (o : hop) :
  let m := hrun ops in let m' := hrun (ops ++ [o]) in
  alen (al m') = if is_reset o then nnodes (root m') else N.max (alen (al m)) (nnodes (root m')).
Proof.
  cbv zeta. unfold Common.hrun. rewrite run_snoc.
  apply (step_alen pfx V (peq w) (contains w fl) (is_bit_set w) plen (lcp w fl) pzero). exact (reachable_minv pfx V _ _ _ _ _ _ ops).
Qed.

(** STORAGE BOUND, any history over the full alphabet, of any length: if no state visited has
    more than [B] nodes, the arena never has more than [B] slots *)
Theorem C16_storage_bounded (ops : list hop) (B : N) :
  (forall k, (nnodes (root (hrun (firstn k ops))) <= B)%N) -> (alen (al (hrun ops)) <= B)%N.
Proof.
  intros H. pose proof (reachable_high_water_bound pfx V (peq w) (contains w fl) (is_bit_set w) plen (lcp w fl) pzero ops) as A.
  pose proof (hpeak_le pfx V (peq w) (contains w fl) (is_bit_set w) plen (lcp w fl) pzero ops empty B H) as P.
  unfold Common.hrun. lia.
Qed.

(** [hpeak ops m]: the largest number of nodes of any state visited by [ops] started in [m] *)
Theorem C16_hpeak_unfold (o : hop) (ops : list hop) (m : pmap pfx V) :
  hpeak [] m = nnodes (root m) /\
  hpeak (o :: ops) m = N.max (nnodes (root m)) (hpeak ops (step m o)).
Proof. split; reflexivity. Qed.

(** EXACT: without a resetting operation the arena length IS the high-water mark of the number of
    nodes alive at one time *)
Theorem C16_high_water (ops : list hop) :
  forallb (fun o => negb (is_reset o)) ops = true -> alen (al (hrun ops)) = hpeak ops empty.
Proof. exact (reachable_high_water pfx V _ _ _ _ _ _ ops). Qed.

(** ... and with resetting operations, the high-water mark since the last of them *)
Theorem C16_high_water_since_reset (ops1 : list hop) (o : hop) (ops2 : list hop) :
  is_reset o = true -> forallb (fun o => negb (is_reset o)) ops2 = true ->
  alen (al (hrun (ops1 ++ o :: ops2))) = hpeak ops2 (hrun (ops1 ++ [o])).
Proof. exact (reachable_high_water_since_reset pfx V _ _ _ _ _ _ ops1 o ops2). Qed.

(** a map emptied by remove (or retain) needs no more nodes than a new one: over the insert /
    Entry API / remove / retain / clear / collect alphabet, a state without entries is the bare
    root; all other slots are in the free list *)
Theorem C16_emptied_by_remove (ops : list hop) :
  forallb canon_op ops = true -> entries (root (hrun ops)) = [] ->
  (exists i p, root (hrun ops) = Node i p None Leaf Leaf) /\
  nnodes (root (hrun ops)) = nnodes (root empty) /\ nnodes (root (hrun ops)) = 1%N /\
  N.of_nat (length (free (al (hrun ops)))) = (alen (al (hrun ops)) - 1)%N.
Proof.
  intros Hc E. pose proof (reachable_canonical pfx V (peq w) (contains w fl) (is_bit_set w) plen (lcp w fl) pzero ops Hc) as C.
  pose proof (canonical_empty_nnodes pfx V _ C E) as N1.
  destruct (C16_partition ops) as (_ & _ & _ & _ & A). cbv zeta in A. unfold Common.hrun in *.
  split; [exact (canonical_empty_root pfx V _ C E)|]. split; [rewrite N1; reflexivity|]. split; [exact N1|]. lia.
Qed.

(** over that alphabet a map of [n] entries has at most [2n + 1] nodes *)
Theorem C16_nodes_linear (ops : list hop) :
  forallb canon_op ops = true ->
  (nnodes (root (hrun ops)) <= 2 * N.of_nat (length (entries (root (hrun ops)))) + 1)%N.
Proof.
  intros Hc. apply canonical_nodes.
  exact (reachable_canonical pfx V (peq w) (contains w fl) (is_bit_set w) plen (lcp w fl) pzero ops Hc).
Qed.

(** hence bounded churn: a history (of any length) over that alphabet that never holds more than
    [B] entries at a time never uses more than [2B + 1] slots *)
Theorem C16_churn_bound (ops : list hop) (B : nat) :
  forallb canon_op ops = true ->
  (forall k, (length (entries (root (hrun (firstn k ops)))) <= B)%nat) ->
  (alen (al (hrun ops)) <= 2 * N.of_nat B + 1)%N.
Proof. exact (canon_churn_bound pfx V _ _ _ _ _ _ ops B). Qed.

(** * The same at the level of the ARENA (Arena.v, Arena2.v: a transcription of src/inner.rs, of
      every mutator and lookup of src/map/mod.rs — insert, new_node, remove, _remove_node,
      remove_keep_tree, remove_children, _do_remove_children, retain, _retain, clear —, of the Entry
      insertions / OccupiedEntry writes of src/map/entry.rs, of get_mut and of the TrieViewMut writes
      over a vector of nodes with index links, where a slot linked twice, linked while free, a
      dangling or out-of-bounds link CAN be expressed; ArenaThm.v / Arena2Thm.v prove that it refines
      the tree model).  In every arena state reachable from the empty map by ANY history over that
      alphabet ([aop2]; retain with any closure, panicking ones included): every live slot exists,
      every link is in bounds, no live slot is on the free list, no slot is linked from two places,
      slot 0 is never a link target, and a slot below the arena length is live or free. *)
Lemma peq_len_N (p q : pfx) : peq w p q = true -> plen p = plen q.
Proof. exact (peqN_len w p q). Qed.

Theorem C16_arena_structure (am : amap pfx V) :
  reachable2 pfx V (peq w) (contains w fl) (is_bit_set w) plen (lcp w fl) pzero am ->
  (forall i, live pfx V (tbl am) i -> exists n, slot pfx V (tbl am) i = Some n) /\
  (forall i rt j, live pfx V (tbl am) i -> edge pfx V (tbl am) i rt j -> (j < N.of_nat (length (tbl am)))%N) /\
  (forall i, live pfx V (tbl am) i -> ~ In i (afree am)) /\
  (forall i1 rt1 i2 rt2 j, live pfx V (tbl am) i1 -> live pfx V (tbl am) i2 ->
     edge pfx V (tbl am) i1 rt1 j -> edge pfx V (tbl am) i2 rt2 j -> i1 = i2 /\ rt1 = rt2) /\
  (forall i rt, live pfx V (tbl am) i -> ~ edge pfx V (tbl am) i rt 0%N) /\
  (forall i, (i < N.of_nat (length (tbl am)))%N <-> (live pfx V (tbl am) i \/ In i (afree am))).
Proof. exact (reachable_structure2 pfx V (peq w) (contains w fl) (is_bit_set w) plen (lcp w fl) pzero peq_len_N eq_refl am). Qed.

(** the arena run of a history represents the tree run (same slots, same free list in the same
    order, same length, same counter), so the tree-level statements above are statements about
    the arena; this is also what the `arenax` lines of the correspondence check compare, slot by
    slot, with the implementation's arena *)
Theorem C16_arena_refines (ops : list (aop2 pfx V)) :
  exists am, a_run2 pfx V (peq w) (contains w fl) (is_bit_set w) plen (lcp w fl) pzero ops = Ok am /\
             Rep pfx V am (t_run2 pfx V (peq w) (contains w fl) (is_bit_set w) plen (lcp w fl) pzero ops) /\ Slots.minv pfx V (t_run2 pfx V (peq w) (contains w fl) (is_bit_set w) plen (lcp w fl) pzero ops).
Proof. exact (run_sim2_N V w fl ops). Qed.

End C16.

(** non-vacuity (w = 8): ten insert/remove cycles over a working set of three keys (with a
    NewBranch placement, i.e. two nodes per insertion), then remove_children and retain cycles: the
    arena length stays at the high-water mark 5; the free list is reused; the emptied map is the
    bare root with all four other slots free. *)
Example C16_example :
  let cyc : list (hop nat) :=
    [OInsert pfx nat (mkpfx 0x80 2) 1%nat; OInsert pfx nat (mkpfx 0xc0 2) 2%nat;
     OInsert pfx nat (mkpfx 0x20 3) 3%nat;
     ORemove pfx nat (mkpfx 0xc0 2); ORemove pfx nat (mkpfx 0x20 3); ORemove pfx nat (mkpfx 0x80 2)] in
  let cyc2 : list (hop nat) :=
    [OInsert pfx nat (mkpfx 0x80 2) 1%nat; OInsert pfx nat (mkpfx 0xc0 2) 2%nat;
     OInsert pfx nat (mkpfx 0x20 3) 3%nat; ORemoveChildren pfx nat (mkpfx 0x80 1);
     ORetain pfx nat (fun _ _ _ => Some false)] in
  let ops := cyc ++ cyc ++ cyc ++ cyc ++ cyc ++ cyc ++ cyc ++ cyc ++ cyc ++ cyc ++ cyc2 ++ cyc2 in
  let m := hrun 8 Generic nat ops in
  alen (al m) = 5%N /\ Slots.nnodes pfx nat (root m) = 1%N /\ length (free (al m)) = 4%nat /\
  entries (root m) = [] /\
  HistoryExtra.hpeak pfx nat (peq 8) (contains 8 Generic) (is_bit_set 8) plen (lcp 8 Generic) pzero
    ops (Trie.empty pfx nat pzero) = 5%N /\
  let m3 := hrun 8 Generic nat (firstn 3 ops) in
  let m5 := hrun 8 Generic nat (firstn 5 ops) in
  let m8 := hrun 8 Generic nat (firstn 8 ops) in
  (Slots.ids pfx nat (root m3), free (al m3), alen (al m3)) = ([0; 4; 2; 1; 3], [], 5)%N /\
  (Slots.ids pfx nat (root m5), free (al m5), alen (al m5)) = ([0; 1], [4; 2; 3], 5)%N /\
  (Slots.ids pfx nat (root m8), free (al m8), alen (al m8)) = ([0; 4; 1; 2], [3], 5)%N.
Proof. vm_compute. repeat split; reflexivity. Qed.

Print Assumptions C16_slots_ok.
Print Assumptions C16_partition.
Print Assumptions C16_reuse_before_grow.
Print Assumptions C16_reuse_free_slots.
Print Assumptions C16_reused_slots.
Print Assumptions C16_step_alen.
Print Assumptions C16_storage_bounded.
Print Assumptions C16_hpeak_unfold.
Print Assumptions C16_high_water.
Print Assumptions C16_high_water_since_reset.
Print Assumptions C16_emptied_by_remove.
Print Assumptions C16_nodes_linear.
Print Assumptions C16_churn_bound.
Print Assumptions C16_arena_structure.
Print Assumptions C16_arena_refines.
Print Assumptions peq_len_N.
