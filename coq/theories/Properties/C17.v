(** C17 — prefix algebra is sound for every shipped prefix type, incl. boundary lengths.
    [PrefixN] models the [Prefix] trait over a word of ANY width [w >= 1] (8, 16, 32, 64, 128 are
    instances) for the three flavours of shipped implementations (generic defaults; ipnet's own
    [contains]/[longest_common_prefix]; cidr's masking constructor).  All statements are for all
    valid values ([len <= w], address below [2^w]) and all bit indices. *)
From Coq Require Import List NArith Bool.
From PT Require Import Bits BitsThm PrefixN Laws PrefixLaws.
From PT.Properties Require Import Common.
Import ListNotations.

(** The representation theorem: against the bit string [kbits p] (the [len] leading bits),
    - [prefix_len] is its length, [eq] is equality of bit strings (host bits ignored),
    - [contains a b] is exactly "the bits of [a] are a prefix of the bits of [b]" (hence reflexive,
      transitive, antisymmetric up to host bits),
    - [is_bit_set p i] is the i-th leading bit and [false] for every [i >= len] (also [i >= w], up to 255 and beyond),
    - [longest_common_prefix a b] denotes the longest common prefix of the two bit strings (hence
      symmetric on keys, covers both, length = min(len a, len b, number of equal leading bits)),
    - [zero()] is the zero-length prefix,
    - numeric comparison of masked addresses is the zero-padded comparison of the bit strings. *)
Theorem C17_representation (w : N) (fl : flavour) : (1 <= w)%N ->
  prefix_laws pfx (peq w) (contains w fl) (is_bit_set w) plen (lcp w fl) pzero (mcmp w)
              (pbits w) (fun p => valid w p = true).
Proof. exact (pn_laws w fl). Qed.

Theorem C17_from_repr_len (w : N) (fl : flavour) (r l : N) :
  (1 <= w)%N -> (l <= w)%N -> (r < 2 ^ w)%N ->
  let p := from_repr_len w fl r l in
  valid w p = true /\ plen p = l /\ pbits w p = pbits w (mkpfx r l).
Proof. exact (from_repr_len_spec w fl r l). Qed.

(** the masking constructor (cidr) stores the address masked to the length *)
Theorem C17_from_repr_len_masking (w r l : N) :
  repr (from_repr_len w Masking r l) = N.land r (mask_from_len w l).
Proof. exact (from_repr_len_masking_repr w r l). Qed.

(** [mask()] has a zeroed host part, and so has the result of [longest_common_prefix] *)
Theorem C17_mask_host_zero (w : N) (p : pfx) :
  valid w p = true -> forall i, (i < w - plen p)%N -> N.testbit (pmask w p) i = false.
Proof. exact (pmask_host_zero w p). Qed.

Theorem C17_lcp_host_zero (w : N) (fl : flavour) (a b : pfx) :
  (1 <= w)%N -> valid w a = true -> valid w b = true -> repr (lcp w fl a b) = pmask w (lcp w fl a b).
Proof. exact (lcp_repr_masked w fl a b). Qed.

(** the type-specific overrides (ipnet) agree with the generic definitions *)
Theorem C17_override_contains (w : N) (a b : pfx) :
  (1 <= w)%N -> valid w a = true -> valid w b = true -> contains_ipnet w a b = contains_generic w a b.
Proof. exact (contains_ipnet_generic w a b). Qed.

Theorem C17_override_lcp (w : N) (a b : pfx) :
  (1 <= w)%N -> valid w a = true -> valid w b = true ->
  pbits w (lcp_ipnet w a b) = pbits w (lcp_generic w Generic a b).
Proof. exact (lcp_ipnet_generic_bits w a b). Qed.

(** no shift overflows for valid lengths ([!0 >> len] panics in debug builds for [len >= w]) *)
Theorem C17_no_shift_overflow (w len : N) :
  (len <= w)%N -> mask_from_len_chk w len = Some (mask_from_len w len).
Proof. exact (mask_chk_total w len). Qed.

Theorem C17_bit_beyond_length (w : N) (p : pfx) (i : N) :
  (1 <= w)%N -> valid w p = true -> (plen p <= i)%N -> is_bit_set w p i = false.
Proof. exact (is_bit_set_high w p i). Qed.

(** non-vacuity: a concrete valid prefix with host bits, and one algebraic instance *)
Example C17_example :
  valid 8 (mkpfx 0x47 2) = true /\ pbits 8 (mkpfx 0x47 2) = [false; true] /\
  contains 8 Ipnet (mkpfx 0x47 2) (mkpfx 0x60 3) = true /\
  lcp 8 Generic (mkpfx 0x47 8) (mkpfx 0x60 3) = mkpfx 0x40 2.
Proof. vm_compute. repeat split; reflexivity. Qed.

Print Assumptions C17_representation.
Print Assumptions C17_from_repr_len.
Print Assumptions C17_from_repr_len_masking.
Print Assumptions C17_mask_host_zero.
Print Assumptions C17_lcp_host_zero.
Print Assumptions C17_override_contains.
Print Assumptions C17_override_lcp.
Print Assumptions C17_no_shift_overflow.
Print Assumptions C17_bit_beyond_length.
