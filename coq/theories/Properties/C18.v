(** C18 — Keys are identified by network part; stored representation is last inserted.

    The key of a prefix is [kbits w p], its [len] leading bits; two representations of one key
    differ in host bits only.  For every width [w >= 1], flavour and value type, on every
    well-formed map (every state reachable by the complete mutator alphabet is one):

      - two representations of one key are interchangeable in every exact-match observer, in
        longest-prefix match, and in every key-addressed call of the alphabet: same result, same
        resulting contents — except that an inserting call stores the representation it was given
        ([C18_interchangeable], [C18_lpm_key_only]);
      - a key is never stored twice ([C18_one_entry_per_key], [C18_reachable_one_entry_per_key]);
      - [insert], [Entry::insert] (= [OccupiedEntry::insert] on an occupied, [VacantEntry::insert]
        on a vacant entry) and the vacant insertions of [or_insert*] store the representation
        passed: afterwards every representation of the key finds that one; [or_insert*] on an
        occupied entry keeps the resident one ([C18_inserting_calls_store_their_prefix]);
      - nothing else changes a stored representation: over the COMPLETE alphabet (value-only
        accesses, writes through references and views, removals, retain, collect, operations on
        other keys) an entry that stays keeps its representation ([C18_repr_stable]); every
        representation stored after a call was stored before, or was passed to this inserting call,
        or is the existing prefix of the value-less node that this [TrieViewMut::set] gave a value
        ([C18_repr_origin]); over whole histories: every stored representation was passed by an
        inserting call of the history or is such a node prefix ([C18_repr_provenance]);
      - lookups, [Entry::key] and the iterators report the stored representation, never the
        query's ([C18_lookup_reports_stored], [C18_entry_key_reports_stored], [C18_iter_reports_stored]);
      - set operations report a stored representation of one of the operands
        ([C18_union_reports_stored], [C18_intersection_reports_stored]; full statements: C05 ff.).

      - two representations of one key are interchangeable as SELECTION and VIEW keys as well:
        [get_lpm_prefix]/[get_lpm_mut], [get_spm]/[cover] (every state of the lazy iterator),
        [children*], [remove]/[remove_keep_tree]/[remove_children]/value updates (equality of the
        WHOLE map, allocator included), [view_at]/[find]/[find_exact]/[find_lpm] and arbitrary
        navigations of read-only and mutable views ([C18_lpm_variants_key_only],
        [C18_spm_cover_key_only], [C18_children_key_only], [C18_removal_key_only],
        [C18_views_key_only], [C18_view_navigation_key_only], [C18_view_mut_key_only],
        [C18_view_mut_navigation_key_only]; proofs in KeyCongr.v).  A virtual view stores the query
        as passed, so two views obtained with different representations agree on everything
        except the host bits of [prefix()] ([C18_view_at_literal_refuted] shows that this
        exception is real — the documented behaviour, cf. C11). *)
From Coq Require Import List NArith Bool Sorted.
From PT Require Import Lookup Lookup2 UnionThm InterDiffThm Refine Refine2.
From PT.Properties Require Import Common.
Import ListNotations.

#[local] Arguments SetOps.ILeft {pfx L R}.
#[local] Arguments SetOps.IRight {pfx L R}.
#[local] Arguments SetOps.IBoth {pfx L R}.

Section C18.
Variables (w : N) (fl : flavour) (V : Type).
Hypothesis Hw : (1 <= w)%N.

Notation step := (History.step pfx V (peq w) (contains w fl) (is_bit_set w) plen (lcp w fl) pzero).
Notation c_out := (Refine2.c_out_full pfx V (peq w) (contains w fl) (is_bit_set w) plen (lcp w fl)).
Notation adm := (Refine2.admissible pfx V (okp w)).
Notation L := (laws w fl Hw).

(** [same_effect m o o']: the calls [o] and [o'] made in state [m] leave the same contents and
    return the same:
      [entries (root (step m o)) = entries (root (step m o')) /\ c_out m o = c_out m o'] *)
Notation same_effect :=
  (Refine2.same_effect pfx V (peq w) (contains w fl) (is_bit_set w) plen (lcp w fl) pzero).
(** [same_upto_repr m o o' q q' x]: the inserting calls [o] (with [q]) and [o'] (with [q']) return
    the same, and EITHER both leave the contents unchanged (or_insert on an occupied entry) OR the
    resulting contents are [A1 ++ (q, x) :: A2] and [A1 ++ (q', x) :: A2] for the same [A1], [A2],
    which consist of entries of [m] under other keys *)
Notation same_upto_repr :=
  (Refine2.same_upto_repr pfx V (peq w) (contains w fl) (is_bit_set w) plen (lcp w fl) pzero (kbits w)).

Example same_effect_unfold m o o' :
  same_effect m o o' =
  (entries (root (step m o)) = entries (root (step m o')) /\ c_out m o = c_out m o').
Proof. reflexivity. Qed.

Example same_upto_repr_unfold m o o' q q' x :
  same_upto_repr m o o' q q' x =
  (c_out m o = c_out m o' /\
   ((entries (root (step m o)) = entries (root m) /\ entries (root (step m o')) = entries (root m)) \/
    exists A1 A2,
      entries (root (step m o)) = A1 ++ (q, x) :: A2 /\
      entries (root (step m o')) = A1 ++ (q', x) :: A2 /\
      forall e, In e A1 \/ In e A2 -> In e (entries (root m)) /\ ekey w V e <> kbits w q)).
Proof. reflexivity. Qed.

(** INTERCHANGEABLE.  Two representations [q], [q'] of one key give the same answer in [get]
    (= [get_mut]'s target), [get_key_value], [contains_key], [Entry::get]; the same effect and the
    same return value in [remove], [remove_keep_tree], [OccupiedEntry::remove], [remove_children],
    [get_mut]/[and_modify] writes; and in [insert], [Entry::insert], [or_insert*] the same return
    value and the same contents up to the representation stored for the inserted entry. *)
Theorem C18_interchangeable (m : pmap pfx V) (q q' : pfx) :
  wfm w V (root m) -> okp w q -> okp w q' -> kbits w q = kbits w q' ->
  (t_get w fl V (root m) q = t_get w fl V (root m) q' /\
   t_get_key_value w fl V (root m) q = t_get_key_value w fl V (root m) q' /\
   t_contains_key w fl V (root m) q = t_contains_key w fl V (root m) q' /\
   t_h_get w fl V m (t_entry w fl V m q) = t_h_get w fl V m (t_entry w fl V m q')) /\
  (same_effect m (ORemove pfx V q) (ORemove pfx V q') /\
   same_effect m (ORemoveKeepTree pfx V q) (ORemoveKeepTree pfx V q') /\
   same_effect m (OOccRemove pfx V q) (OOccRemove pfx V q') /\
   same_effect m (ORemoveChildren pfx V q) (ORemoveChildren pfx V q') /\
   forall g, same_effect m (OUpdate pfx V q g) (OUpdate pfx V q' g)) /\
  (forall x,
   same_upto_repr m (OInsert pfx V q x) (OInsert pfx V q' x) q q' x /\
   same_upto_repr m (OEntryInsert pfx V q x) (OEntryInsert pfx V q' x) q q' x /\
   same_upto_repr m (OOrInsert pfx V q x) (OOrInsert pfx V q' x) q q' x).
Proof. exact (Refine2.step_key_only pfx V _ _ _ _ _ _ _ _ _ L m q q'). Qed.

(** ... and as selection key of the longest-prefix match *)
Theorem C18_lpm_key_only (t : tree pfx V) (q q' : pfx) :
  wfm w V t -> okp w q -> okp w q' -> kbits w q = kbits w q' ->
  t_get_lpm w fl V t q = t_get_lpm w fl V t q'.
Proof.
  intros Hwf Hq Hq' E. destruct t as [|i p v l r]; [destruct Hwf|].
  pose proof (get_lpm_spec pfx V _ _ _ _ _ _ _ _ _ L [] _ q (proj2 Hwf) Hq
                (wf_root_covers pfx V (kbits w) (okp w) _ q Hwf)) as A.
  pose proof (get_lpm_spec pfx V _ _ _ _ _ _ _ _ _ L [] _ q' (proj2 Hwf) Hq'
                (wf_root_covers pfx V (kbits w) (okp w) _ q' Hwf)) as B.
  unfold t_get_lpm.
  destruct (get_lpm pfx V (peq w) (contains w fl) (is_bit_set w) plen (Node i p v l r) q) as [e1|],
           (get_lpm pfx V (peq w) (contains w fl) (is_bit_set w) plen (Node i p v l r) q') as [e2|];
    unfold is_lpm, no_cover in A, B; try rewrite E in A.
  - f_equal. exact (is_lpm_unique pfx V (kbits w) (okp w) [] _ q' e1 e2 (proj2 Hwf) A B).
  - exfalso. destruct A as [Hin [Hc _]]. exact (B _ Hin Hc).
  - exfalso. destruct B as [Hin [Hc _]]. exact (A _ Hin Hc).
  - reflexivity.
Qed.

(** ONE ENTRY PER KEY.  Two representations of one key can never be stored as two entries: the
    keys of the entry list are pairwise distinct, i.e. two entries with the same key are the same
    entry — in every well-formed map, hence after every history over the complete alphabet. *)
Theorem C18_one_entry_per_key (t : tree pfx V) :
  wfm w V t ->
  NoDup (map (ekey w V) (entries t)) /\
  forall e1 e2, In e1 (entries t) -> In e2 (entries t) -> ekey w V e1 = ekey w V e2 -> e1 = e2.
Proof.
  intros Hr. split; [exact (Refine2.wf_keys_NoDup pfx V pzero (kbits w) (okp w) t Hr)|].
  intros e1 e2. apply (TrieWf.sorted_key_inj pfx V (kbits w)).
  exact (Refine.wf_sorted pfx V pzero (kbits w) (okp w) t Hr).
Qed.

Theorem C18_reachable_one_entry_per_key (ops : list (hop V)) :
  Forall (hop_ok w V) ops -> NoDup (map (ekey w V) (entries (root (hrun w fl V ops)))).
Proof. intros H. apply C18_one_entry_per_key. apply (reachable_wfm w fl V Hw). exact H. Qed.

(** THE INSERTING CALLS STORE THE REPRESENTATION PASSED.  After [insert q x] and after
    [entry(q).insert(x)] (occupied or vacant), looking up ANY representation [q'] of the key
    returns the pair [(q, x)] — the representation passed to the call, not the earlier one and not
    the query's.  After [entry(q).or_insert*(x)] the lookup returns the resident pair if the entry
    was occupied (the stored representation is NOT replaced), and [(q, x)] if it was vacant. *)
Theorem C18_inserting_calls_store_their_prefix (m : pmap pfx V) (q q' : pfx) (x : V) :
  wfm w V (root m) -> okp w q -> okp w q' -> kbits w q' = kbits w q ->
  t_get_key_value w fl V (root (step m (OInsert pfx V q x))) q' = Some (q, x) /\
  t_get_key_value w fl V (root (step m (OEntryInsert pfx V q x))) q' = Some (q, x) /\
  t_get_key_value w fl V (root (step m (OOrInsert pfx V q x))) q'
  = match t_get_key_value w fl V (root m) q' with Some e => Some e | None => Some (q, x) end.
Proof. exact (Refine2.insert_stores_repr_full pfx V _ _ _ _ _ _ _ _ _ L m q q' x). Qed.

(** NOTHING ELSE CHANGES IT.  Let [o] be ANY call of the complete alphabet.  If the key of an entry
    [(p0, v0)] of the map is still stored after [o], as [(p, v)], then [p] IS [p0] — unless [o] is
    [insert p v] or [entry(p).insert(v)] for that very key, in which case the representation passed
    is stored.  (So value-only accesses — get_mut, and_modify, writes through the references of
    iterators, lookups and views, [TrieViewMut::set] on a node that holds a value —, [or_insert*],
    removals and re-threading of other entries, [retain], [collect] never change it.) *)
Theorem C18_repr_stable (m : pmap pfx V) (o : hop V) (p0 : pfx) (v0 : V) (p : pfx) (v : V) :
  wfm w V (root m) -> adm o ->
  In (p0, v0) (entries (root m)) -> In (p, v) (entries (root (step m o))) -> kbits w p = kbits w p0 ->
  p = p0 \/ o = OInsert pfx V p v \/ o = OEntryInsert pfx V p v.
Proof. exact (Refine2.step_repr_stable pfx V _ _ _ _ _ _ _ _ _ L m o p0 v0 p v). Qed.

(** WHERE A STORED REPRESENTATION COMES FROM (one call).  Every pair [(p, v)] stored after a call
    was stored under the very same representation [p] before the call, or [p] was passed to this
    inserting call ([insert], [Entry::insert], a vacant [or_insert*]), or — the only prefix the user
    did not pass — [p] is the existing prefix of the value-less node to which this
    [TrieViewMut::set] gave the value [v]. *)
Theorem C18_repr_origin (m : pmap pfx V) (o : hop V) (p : pfx) (v : V) :
  wfm w V (root m) -> adm o -> In (p, v) (entries (root (step m o))) ->
  (exists v0, In (p, v0) (entries (root m))) \/
  (o = OInsert pfx V p v \/ o = OEntryInsert pfx V p v \/
   (o = OOrInsert pfx V p v /\ t_get w fl V (root m) p = None)) \/
  (exists pa i l r, o = OViewSet pfx V pa v /\ subtree (root m) pa = Node i p None l r).
Proof. exact (Refine2.step_repr_origin pfx V _ _ _ _ _ _ _ _ _ L m o p v). Qed.

(** ... and over whole histories: a representation stored after a history was passed by one of its
    inserting calls, or is the prefix of a node that was value-less when a [TrieViewMut::set] of the
    history gave it a value. *)
Theorem C18_repr_provenance (ops : list (hop V)) (p : pfx) (v : V) :
  Forall adm ops -> In (p, v) (entries (root (hrun w fl V ops))) ->
  (exists x, In (OInsert pfx V p x) ops \/ In (OEntryInsert pfx V p x) ops \/ In (OOrInsert pfx V p x) ops) \/
  exists ops1 pa x ops2 i l r,
    ops = ops1 ++ OViewSet pfx V pa x :: ops2 /\ subtree (root (hrun w fl V ops1)) pa = Node i p None l r.
Proof. exact (Refine2.repr_provenance pfx V _ _ _ _ _ _ _ _ _ L ops p v). Qed.

(** [TrieViewMut::set] keeps the node's existing prefix, as documented: at a node holding prefix
    [p], [set x] turns the entry list [P ++ own ++ Q] ([own] = the node's entry, if any) into
    [P ++ (p, x) :: Q] *)
Theorem C18_view_set_keeps_prefix (m : pmap pfx V) (pa : path) (x : V) i p v l r :
  wfm w V (root m) -> subtree (root m) pa = Node i p v l r ->
  exists P Q, entries (root m) = P ++ Refine2.own pfx V p v ++ Q /\
              entries (root (step m (OViewSet pfx V pa x))) = P ++ (p, x) :: Q.
Proof.
  intros Hr Hs.
  exact (proj2 (proj2 (proj2 (Refine2.view_set_step pfx V (peq w) (contains w fl) (is_bit_set w) plen (lcp w fl) pzero
                                 (kbits w) (okp w) m pa x i p v l r Hr Hs)))).
Qed.

(** LOOKUPS REPORT THE STORED REPRESENTATION.  [get_key_value q] returns [(p, x)] exactly when
    [(p, x)] is the stored entry with the key of [q]: the prefix returned is the stored one
    (an element of the entry list), whatever the host bits of the query. *)
Theorem C18_lookup_reports_stored (m : pmap pfx V) (q p : pfx) (x : V) :
  wfm w V (root m) -> okp w q ->
  (t_get_key_value w fl V (root m) q = Some (p, x) <-> In (p, x) (entries (root m)) /\ kbits w p = kbits w q).
Proof. exact (Refine2.lookup_reports_stored pfx V _ _ _ _ _ _ _ _ _ L m q p x). Qed.

(** [Entry::key] of [entry(q)]: the stored prefix for an occupied entry, [q] itself for a vacant one *)
Theorem C18_entry_key_reports_stored (m : pmap pfx V) (q : pfx) :
  wfm w V (root m) -> okp w q ->
  t_h_key w fl V m (t_entry w fl V m q)
  = match t_get_key_value w fl V (root m) q with Some e => fst e | None => q end.
Proof.
  intros Hr Hq. destruct (Refine2.observers_refine pfx V _ _ _ _ _ _ _ _ _ L m q Hr Hq) as [_ [K [_ [_ H]]]].
  cbv zeta in *. unfold t_h_key, t_entry, t_get_key_value. rewrite H, K. reflexivity.
Qed.

(** the iterators ([iter], [keys], [into_iter], ...) yield the entry list itself, i.e. the stored pairs *)
Theorem C18_iter_reports_stored (t : tree pfx V) :
  map (Lookup2.drop_id pfx V) (t_iter_items V t) = entries t.
Proof. unfold t_iter_items. rewrite iter_items_spec. apply entries_id_entries. Qed.

End C18.

(** SET OPERATIONS report a stored representation of one of the operands: the left operand's for
    an item stored in both ([Both]) or only left, the right operand's for an item only stored right *)
Section C18_setops.
Variables (w : N) (fl : flavour) (A B : Type).
Hypothesis Hw : (1 <= w)%N.

Theorem C18_union_reports_stored ba bb (ta : tree pfx A) (tb : tree pfx B) out :
  wfu w A ba ta -> wfu w B bb tb -> t_union w fl A B ta tb = Some out ->
  forall it, In it out ->
    match it with
    | IBoth p l r => In (p, l) (entries ta) /\ exists pr, In (pr, r) (entries tb) /\ kbits w pr = kbits w p
    | ILeft p l _ => In (p, l) (entries ta)
    | IRight p _ r => In (p, r) (entries tb)
    end.
Proof.
  intros Ha Hb E it Hit.
  destruct (union_correct pfx A B _ _ _ _ _ _ _ _ _ (laws w fl Hw) ba bb ta tb Ha Hb) as [out' [E' [_ [Hi _]]]].
  unfold t_union in E. rewrite E in E'. inversion E'; subst out'. specialize (Hi it Hit).
  destruct it as [p l ann|p ann r|p l r]; [exact (proj1 Hi) | exact (proj1 Hi) | exact Hi].
Qed.

Theorem C18_intersection_reports_stored ba bb (ta : tree pfx A) (tb : tree pfx B) out :
  wfu w A ba ta -> wfu w B bb tb -> t_intersection w fl A B ta tb = Some out ->
  forall p l r, In (p, l, r) out ->
    In (p, l) (entries ta) /\ exists pr, In (pr, r) (entries tb) /\ kbits w pr = kbits w p.
Proof.
  intros Ha Hb E.
  destruct (intersection_correct pfx A B _ _ _ _ _ _ _ _ _ (laws w fl Hw) ba bb ta tb Ha Hb) as [out' [E' [_ [Hi _]]]].
  unfold t_intersection in E. rewrite E in E'. inversion E'; subst out'. exact Hi.
Qed.

End C18_setops.

(** non-vacuity at [w = 8]: [0100_0111/2] and [0111_1111/2] are two representations of the key
    [01].  Insert the first, look it up by the second: the stored one is reported.  [or_insert]
    with the second keeps the first; [get_mut]-style update, a write through a reference and a
    [remove] of another key keep it; [insert] with the second replaces it; the map never holds
    the key twice.  Finally a [TrieViewMut::set] on the value-less root creates an entry with the
    root's own prefix. *)
Definition C18_ops1 : list (hop nat) :=
  [ OInsert pfx nat (mkpfx 0x80 1) 1%nat;
    OInsert pfx nat (mkpfx 0x47 2) 3%nat;
    OInsert pfx nat (mkpfx 0xc0 2) 2%nat;
    OOrInsert pfx nat (mkpfx 0x7f 2) 9%nat;
    OUpdate pfx nat (mkpfx 0x55 2) S;
    OWrite pfx nat [(1%N, 50%nat)];
    ORemove pfx nat (mkpfx 0xff 2) ].

Example C18_example :
  let m1 := hrun 8 Generic nat C18_ops1 in
  let m2 := hrun 8 Generic nat (C18_ops1 ++ [OInsert pfx nat (mkpfx 0x7f 2) 6%nat]) in
  let m3 := hrun 8 Generic nat (C18_ops1 ++ [OInsert pfx nat (mkpfx 0x7f 2) 6%nat; OViewSet pfx nat [] 7%nat]) in
  kbits 8 (mkpfx 0x47 2) = kbits 8 (mkpfx 0x7f 2) /\ mkpfx 0x47 2 <> mkpfx 0x7f 2 /\
  entries (root m1) = [(mkpfx 0x47 2, 4%nat); (mkpfx 0x80 1, 50%nat)] /\
  t_get_key_value 8 Generic nat (root m1) (mkpfx 0x7f 2) = Some (mkpfx 0x47 2, 4%nat) /\
  entries (root m2) = [(mkpfx 0x7f 2, 6%nat); (mkpfx 0x80 1, 50%nat)] /\
  t_get_key_value 8 Generic nat (root m2) (mkpfx 0x47 2) = Some (mkpfx 0x7f 2, 6%nat) /\
  entries (root m3) = [(pzero, 7%nat); (mkpfx 0x7f 2, 6%nat); (mkpfx 0x80 1, 50%nat)].
Proof. vm_compute. repeat split; try reflexivity. discriminate. Qed.

(* ------------------------------------------------------------------------------------------ *)
(** * SELECTION and VIEW keys (added; supersedes the "NOT covered here" note in the header)

    Every descent of the model uses its query only through [eq], [contains], [is_bit_set] and
    [prefix_len] against node prefixes, and each of these depends on the key only
    ([KeyCongr.peq_congr], [contains_congr], [contains_congr_l], [to_right_congr],
    [to_right_congr_l], [plen_congr]).  So on every well-formed map two valid representations [q],
    [q'] of one key give LITERALLY THE SAME result in every selection ([get_lpm], [get_lpm_prefix],
    [get_lpm_mut], [get_spm], [get_spm_prefix], [cover] — the whole iterator and every single
    [next] —, [children], [children_mut], [into_children]) and every removal (the same resulting
    map: tree, free list, arena length and counter — stronger than [same_effect] above), and in
    [find_exact]/[find_lpm] of both view types.  [view_at]/[TrieView::find]/[TrieViewMut::find]
    store the query itself in a virtual view; there literal equality is FALSE
    ([C18_view_at_literal_refuted]) and the two results are at the same location: the same real
    node (same subtree), both real or both virtual, with virtual prefixes of equal key and length —
    so [prefix()] has the same key, and [value], [prefix_value], the iterators, [left], [right],
    [split], [remove], [set], writes, and every further [find*] call agree again, along navigations
    of any length ([C18_view_navigation_key_only], [C18_view_mut_navigation_key_only]). *)
From PT Require KeyCongr.
From PT Require Import Arena Arena2 Arena3 ArenaProps ArenaKeys.

Section C18_keys.
Variables (w : N) (fl : flavour) (V : Type).
Hypothesis Hw : (1 <= w)%N.
Notation L := (laws w fl Hw).
Notation nok := (KeyCongr.wf_root_nodes_ok pfx V (kbits w) (okp w)).

(** LONGEST-PREFIX MATCH, all three copies of the loop *)
Theorem C18_lpm_variants_key_only (t : tree pfx V) (q q' : pfx) :
  wfm w V t -> okp w q -> okp w q' -> kbits w q = kbits w q' ->
  t_get_lpm w fl V t q = t_get_lpm w fl V t q' /\
  t_get_lpm_prefix w fl V t q = t_get_lpm_prefix w fl V t q' /\
  t_get_lpm_mut w fl V t q = t_get_lpm_mut w fl V t q'.
Proof.
  intros Hwf Hq Hq' E. pose proof (nok t Hwf) as Hn. split; [|split].
  - exact (KeyCongr.get_lpm_congr pfx V _ _ _ _ _ _ _ _ _ L q q' Hq Hq' E t Hn).
  - exact (KeyCongr.get_lpm_prefix_congr pfx V _ _ _ _ _ _ _ _ _ L q q' Hq Hq' E t Hn).
  - exact (KeyCongr.get_lpm_mut_congr pfx V _ _ _ _ _ _ _ _ _ L q q' Hq Hq' E t Hn).
Qed.

(** SHORTEST-PREFIX MATCH and COVER: the same item / the same list of items; for the lazy [Cover]
    iterator also call by call — the first [next] and every later one (the iterator stands at a
    node of the map, i.e. at [subtree t pa] for some path): same item, same successor state *)
Theorem C18_spm_cover_key_only (t : tree pfx V) (q q' : pfx) :
  wfm w V t -> okp w q -> okp w q' -> kbits w q = kbits w q' ->
  t_get_spm w fl V t q = t_get_spm w fl V t q' /\
  t_get_spm_prefix w fl V t q = t_get_spm_prefix w fl V t q' /\
  t_cover_walk w fl V t q = t_cover_walk w fl V t q' /\
  (forall fuel, t_cover_drain w fl V fuel t CStart q = t_cover_drain w fl V fuel t CStart q') /\
  t_cover_next w fl V t CStart q = t_cover_next w fl V t CStart q' /\
  (forall pa, t_cover_next w fl V t (CAt (subtree t pa)) q = t_cover_next w fl V t (CAt (subtree t pa)) q') /\
  (forall pa fuel, t_cover_drain w fl V fuel t (CAt (subtree t pa)) q
                   = t_cover_drain w fl V fuel t (CAt (subtree t pa)) q').
Proof.
  intros Hwf Hq Hq' E. pose proof (nok t Hwf) as Hn.
  assert (Hs : forall pa, KeyCongr.nodes_ok pfx V (okp w) (subtree t pa)).
  { intros pa. apply KeyCongr.nodes_ok_subtree. exact Hn. }
  repeat split.
  - exact (KeyCongr.get_spm_congr pfx V _ _ _ _ _ _ _ _ _ L q q' Hq Hq' E t Hn).
  - exact (KeyCongr.get_spm_prefix_congr pfx V _ _ _ _ _ _ _ _ _ L q q' Hq Hq' E t Hn).
  - exact (KeyCongr.cover_walk_congr pfx V _ _ _ _ _ _ _ _ _ L q q' Hq Hq' E t Hn).
  - intros fuel. exact (KeyCongr.cover_drain_congr pfx V _ _ _ _ _ _ _ _ _ L q q' Hq Hq' E fuel t CStart Hn I).
  - exact (KeyCongr.cover_next_congr pfx V _ _ _ _ _ _ _ _ _ L q q' Hq Hq' E t CStart Hn I).
  - intros pa. exact (KeyCongr.cover_next_congr pfx V _ _ _ _ _ _ _ _ _ L q q' Hq Hq' E t (CAt (subtree t pa)) Hn (Hs pa)).
  - intros pa fuel.
    exact (KeyCongr.cover_drain_congr pfx V _ _ _ _ _ _ _ _ _ L q q' Hq Hq' E fuel t (CAt (subtree t pa)) Hn (Hs pa)).
Qed.

(** CHILDREN: the same initial stack ([lpm_children_iter_start]), hence the same items (with the
    same slots) from [children], [children_mut], [into_children] *)
Theorem C18_children_key_only (t : tree pfx V) (q q' : pfx) :
  wfm w V t -> okp w q -> okp w q' -> kbits w q = kbits w q' ->
  children_start pfx V (peq w) (contains w fl) (is_bit_set w) plen t q
  = children_start pfx V (peq w) (contains w fl) (is_bit_set w) plen t q' /\
  t_children w fl V t q = t_children w fl V t q' /\
  t_children_mut w fl V t q = t_children_mut w fl V t q' /\
  t_into_children w fl V t q = t_into_children w fl V t q'.
Proof.
  intros Hwf Hq Hq' E. pose proof (nok t Hwf) as Hn. repeat split.
  - exact (KeyCongr.children_start_congr pfx V _ _ _ _ _ _ _ _ _ L q q' Hq Hq' E t Hn).
  - exact (KeyCongr.children_congr pfx V _ _ _ _ _ _ _ _ _ L q q' Hq Hq' E t Hn).
  - exact (KeyCongr.children_mut_congr pfx V _ _ _ _ _ _ _ _ _ L q q' Hq Hq' E t Hn).
  - exact (KeyCongr.into_children_congr pfx V _ _ _ _ _ _ _ _ _ L q q' Hq Hq' E t Hn).
Qed.

(** REMOVALS and in-place updates: the same returned value and the same resulting MAP — the same
    tree (node for node, slot for slot), free list, arena length and counter.  (Strengthens the
    [same_effect] clauses of [C18_interchangeable], which compare entry lists.) *)
Theorem C18_removal_key_only (m : pmap pfx V) (q q' : pfx) :
  wfm w V (root m) -> okp w q -> okp w q' -> kbits w q = kbits w q' ->
  t_remove w fl V m q = t_remove w fl V m q' /\
  t_remove_keep_tree w fl V m q = t_remove_keep_tree w fl V m q' /\
  t_occ_remove w fl V m q = t_occ_remove w fl V m q' /\
  t_remove_children w fl V m q = t_remove_children w fl V m q' /\
  (forall g, t_update_value w fl V m q g = t_update_value w fl V m q' g) /\
  t_get_node w fl V (root m) q = t_get_node w fl V (root m) q'.
Proof.
  intros Hwf Hq Hq' E. pose proof (nok (root m) Hwf) as Hn. repeat split.
  - exact (KeyCongr.remove_congr pfx V _ _ _ _ _ _ _ _ _ L q q' Hq Hq' E m Hn).
  - exact (KeyCongr.remove_keep_tree_congr pfx V _ _ _ _ _ _ _ _ _ L q q' Hq Hq' E m Hn).
  - exact (KeyCongr.occ_remove_congr pfx V _ _ _ _ _ _ _ _ _ L q q' Hq Hq' E m Hn).
  - exact (KeyCongr.remove_children_congr pfx V _ _ _ _ _ _ _ _ _ L q q' Hq Hq' E m Hn).
  - intros g. exact (KeyCongr.update_value_congr pfx V _ _ _ _ _ _ _ _ _ L q q' Hq Hq' E m g Hn).
  - exact (KeyCongr.get_node_congr pfx V _ _ _ _ _ _ _ _ _ L q q' Hq Hq' E (root m) Hn).
Qed.

(** VIEWS.  [same_view v v']: the two views are at the same location and indistinguishable by
    every observer except the host bits of a virtual view's [prefix()]: the same real node (the
    same subtree), both real or both virtual, prefixes with the same key and length, the same
    value, entry, iterator, [left()] and [right()]. *)
Definition same_view (v v' : view pfx V) : Prop :=
  v_tree v = v_tree v' /\ v_is_virtual v = v_is_virtual v' /\
  kbits w (t_v_prefix V v) = kbits w (t_v_prefix V v') /\ plen (t_v_prefix V v) = plen (t_v_prefix V v') /\
  v_value v = v_value v' /\ v_prefix_value v = v_prefix_value v' /\ v_iter v = v_iter v' /\
  t_v_left w V v = t_v_left w V v' /\ t_v_right w V v = t_v_right w V v'.
Definition same_oview (o o' : option (view pfx V)) : Prop :=
  match o, o' with
  | None, None => True
  | Some v, Some v' => same_view v v'
  | _, _ => False
  end.

Lemma C18_view_sim_same v v' : KeyCongr.view_sim pfx V (kbits w) (okp w) v v' -> same_view v v'.
Proof.
  intros H.
  destruct (KeyCongr.view_sim_observers pfx V _ _ _ _ _ _ _ _ _ L v v' H) as [A [B [C [D [F [G K]]]]]].
  unfold same_view. repeat split; try assumption.
  - exact (KeyCongr.v_left_congr pfx V _ _ _ _ _ _ _ _ _ L v v' H).
  - exact (KeyCongr.v_right_congr pfx V _ _ _ _ _ _ _ _ _ L v v' H).
Qed.

Lemma C18_osim_same o o' : KeyCongr.osim pfx V (kbits w) (okp w) o o' -> same_oview o o'.
Proof. destruct o, o'; cbn; try tauto. apply C18_view_sim_same. Qed.

(** the view calls on a map: [view_at] and [find] give views at the same location; [find_exact]
    and [find_lpm] (which only return real nodes) give the same view *)
Theorem C18_views_key_only (T : tree pfx V) (q q' : pfx) :
  wfm w V T -> okp w q -> okp w q' -> kbits w q = kbits w q' ->
  same_oview (t_view_at w fl V T q) (t_view_at w fl V T q') /\
  same_oview (t_v_find w fl V (view_of T) q) (t_v_find w fl V (view_of T) q') /\
  t_v_find_exact w fl V (view_of T) q = t_v_find_exact w fl V (view_of T) q' /\
  t_v_find_lpm w fl V (view_of T) q = t_v_find_lpm w fl V (view_of T) q'.
Proof.
  intros Hwf Hq Hq' E. pose proof (nok T Hwf) as Hn.
  assert (S : KeyCongr.view_sim pfx V (kbits w) (okp w) (view_of T) (view_of T)) by constructor.
  repeat split.
  - apply C18_osim_same. exact (KeyCongr.view_at_sim pfx V _ _ _ _ _ _ _ _ _ L q q' Hq Hq' E T Hn).
  - apply C18_osim_same. exact (KeyCongr.v_find_sim pfx V _ _ _ _ _ _ _ _ _ L q q' Hq Hq' E _ _ S Hn).
  - exact (KeyCongr.v_find_exact_congr pfx V _ _ _ _ _ _ _ _ _ L q q' Hq Hq' E _ _ S Hn).
  - exact (KeyCongr.v_find_lpm_congr pfx V _ _ _ _ _ _ _ _ _ L q q' Hq Hq' E _ _ S Hn).
Qed.

(** ... and on sub-views, to any depth.  A navigation is a list of calls [find q] / [find_exact q]
    / [find_lpm q] / [left] / [right], each applied to the view the previous one returned
    ([vnav]; [None] as soon as a call returns [None]).  Two navigations that make the same calls
    with (valid) representations of the same keys ([same_calls]) both fail, or end in views at the
    same location. *)
Notation vstep := (KeyCongr.vstep pfx).
Notation SFind := (KeyCongr.SFind pfx).
Notation SFindExact := (KeyCongr.SFindExact pfx).
Notation SFindLpm := (KeyCongr.SFindLpm pfx).
Notation SLeft := (KeyCongr.SLeft pfx).
Notation SRight := (KeyCongr.SRight pfx).
Notation vnav := (KeyCongr.vnav pfx V (peq w) (contains w fl) (is_bit_set w) plen pzero).
Notation same_calls := (Forall2 (KeyCongr.vstep_sim pfx (kbits w) (okp w))).

Example vnav_unfold (v : view pfx V) s ss :
  vnav v [] = Some v /\
  vnav v (s :: ss)
  = match match s with
          | KeyCongr.SFind _ q => t_v_find w fl V v q
          | KeyCongr.SFindExact _ q => t_v_find_exact w fl V v q
          | KeyCongr.SFindLpm _ q => t_v_find_lpm w fl V v q
          | KeyCongr.SLeft _ => t_v_left w V v
          | KeyCongr.SRight _ => t_v_right w V v
          end with Some v' => vnav v' ss | None => None end.
Proof. split; reflexivity. Qed.

Example same_call_unfold s s' :
  KeyCongr.vstep_sim pfx (kbits w) (okp w) s s' =
  match s, s' with
  | KeyCongr.SFind _ q, KeyCongr.SFind _ q'
  | KeyCongr.SFindExact _ q, KeyCongr.SFindExact _ q'
  | KeyCongr.SFindLpm _ q, KeyCongr.SFindLpm _ q' => okp w q /\ okp w q' /\ kbits w q = kbits w q'
  | KeyCongr.SLeft _, KeyCongr.SLeft _ | KeyCongr.SRight _, KeyCongr.SRight _ => True
  | _, _ => False
  end.
Proof. reflexivity. Qed.

Theorem C18_view_navigation_key_only (T : tree pfx V) (ss ss' : list vstep) :
  wfm w V T -> same_calls ss ss' -> same_oview (vnav (view_of T) ss) (vnav (view_of T) ss').
Proof.
  intros Hwf HF. apply C18_osim_same.
  apply (KeyCongr.vnav_sim pfx V _ _ _ _ _ _ _ _ _ L ss ss' (view_of T) (view_of T)); [|constructor|exact HF].
  split; [exact (nok T Hwf) | exact I].
Qed.

(** MUTABLE VIEWS.  [same_vmut T m m']: the same path from the root, both real or both virtual with
    prefixes of the same key; and then every operation of [TrieViewMut] agrees: the same subtree,
    [left]/[right]/[split], [value], [remove], [set], writes through [value_mut], [iter_mut]; the
    key of [prefix()]. *)
Definition same_vmut (T : tree pfx V) (m m' : vmut pfx) : Prop :=
  mpath pfx m = mpath pfx m' /\
  match mvirt pfx m, mvirt pfx m' with
  | None, None => True
  | Some p, Some p' => kbits w p = kbits w p'
  | _, _ => False
  end /\
  vm_tree T m = vm_tree T m' /\
  t_vm_left w V T m = t_vm_left w V T m' /\ t_vm_right w V T m = t_vm_right w V T m' /\
  t_vm_split w V T m = t_vm_split w V T m' /\
  t_vm_has_left w V T m = t_vm_has_left w V T m' /\ t_vm_has_right w V T m = t_vm_has_right w V T m' /\
  kbits w (t_vm_prefix V T m) = kbits w (t_vm_prefix V T m') /\
  vm_value T m = vm_value T m' /\ vm_remove T m = vm_remove T m' /\
  (forall x, vm_set T m x = vm_set T m' x) /\
  (forall g, vm_value_mut T m g = vm_value_mut T m' g) /\
  vm_iter_mut T m = vm_iter_mut T m'.
Definition same_ovmut (T : tree pfx V) (o o' : option (vmut pfx)) : Prop :=
  match o, o' with
  | None, None => True
  | Some m, Some m' => same_vmut T m m'
  | _, _ => False
  end.

Lemma C18_vm_sim_same T m m' : KeyCongr.vm_sim pfx (kbits w) (okp w) m m' -> same_vmut T m m'.
Proof.
  intros H. pose proof (KeyCongr.vm_ops_congr pfx V _ _ _ _ _ _ _ _ _ L T m m' H) as K.
  destruct H as [A B]. split; [exact A|]. split; [|exact K].
  destruct (mvirt pfx m), (mvirt pfx m'); try tauto.
Qed.

Lemma C18_ovm_sim_same T o o' : KeyCongr.ovm_sim pfx (kbits w) (okp w) o o' -> same_ovmut T o o'.
Proof. destruct o, o'; cbn; try tauto. apply C18_vm_sim_same. Qed.

Notation vmnav := (KeyCongr.vmnav pfx V (peq w) (contains w fl) (is_bit_set w) plen pzero).

Example vmnav_unfold (T : tree pfx V) (m : vmut pfx) s ss :
  vmnav T m [] = Some m /\
  vmnav T m (s :: ss)
  = match match s with
          | KeyCongr.SFind _ q => t_vm_find w fl V T m q
          | KeyCongr.SFindExact _ q => t_vm_find_exact w fl V T m q
          | KeyCongr.SFindLpm _ q => t_vm_find_lpm w fl V T m q
          | KeyCongr.SLeft _ => t_vm_left w V T m
          | KeyCongr.SRight _ => t_vm_right w V T m
          end with Some m' => vmnav T m' ss | None => None end.
Proof. split; reflexivity. Qed.

(** the [find*] calls of the map's mutable view *)
Theorem C18_view_mut_key_only (T : tree pfx V) (q q' : pfx) :
  wfm w V T -> okp w q -> okp w q' -> kbits w q = kbits w q' ->
  same_ovmut T (t_vm_find w fl V T (vm_root pfx) q) (t_vm_find w fl V T (vm_root pfx) q') /\
  t_vm_find_exact w fl V T (vm_root pfx) q = t_vm_find_exact w fl V T (vm_root pfx) q' /\
  t_vm_find_lpm w fl V T (vm_root pfx) q = t_vm_find_lpm w fl V T (vm_root pfx) q'.
Proof.
  intros Hwf Hq Hq' E. pose proof (nok T Hwf) as Hn.
  assert (S : KeyCongr.vm_sim pfx (kbits w) (okp w) (vm_root pfx) (vm_root pfx)) by (split; [reflexivity | exact I]).
  repeat split.
  - apply C18_ovm_sim_same. exact (KeyCongr.vm_find_sim pfx V _ _ _ _ _ _ _ _ _ L q q' Hq Hq' E T _ _ Hn S).
  - exact (KeyCongr.vm_find_exact_congr pfx V _ _ _ _ _ _ _ _ _ L q q' Hq Hq' E T _ _ Hn S).
  - exact (KeyCongr.vm_find_lpm_congr pfx V _ _ _ _ _ _ _ _ _ L q q' Hq Hq' E T _ _ Hn S).
Qed.

(** ... and navigations of any length from it *)
Theorem C18_view_mut_navigation_key_only (T : tree pfx V) (ss ss' : list vstep) :
  wfm w V T -> same_calls ss ss' -> same_ovmut T (vmnav T (vm_root pfx) ss) (vmnav T (vm_root pfx) ss').
Proof.
  intros Hwf HF. apply C18_ovm_sim_same.
  apply (KeyCongr.vmnav_sim pfx V _ _ _ _ _ _ _ _ _ L T ss ss' (vm_root pfx) (vm_root pfx) (nok T Hwf)); [|exact HF].
  split; [reflexivity | exact I].
Qed.

(* ---------------------------------------------------------------------------------------- *)
(** * The same statements about the ARENA-level transcription (ArenaKeys.v), for every arena reachable
      from the empty arena by a history over the whole mutator alphabet *)

(** two valid representations of one key (they may differ in host bits) give literally the same
    result in every lookup and selection *)
Theorem C18_arena_key_only (am : Arena.amap pfx V) (q q' : pfx) :
  areach pfx V (peq w) (contains w fl) (is_bit_set w) plen (lcp w fl) pzero (okp w) am -> okp w q -> okp w q' -> kbits w q = kbits w q' ->
  Arena.a_get pfx V (peq w) (contains w fl) (is_bit_set w) plen am q = Arena.a_get pfx V (peq w) (contains w fl) (is_bit_set w) plen am q' /\
  Arena3.a_get_key_value pfx V (peq w) (contains w fl) (is_bit_set w) plen am q = Arena3.a_get_key_value pfx V (peq w) (contains w fl) (is_bit_set w) plen am q' /\
  Arena3.a_contains_key pfx V (peq w) (contains w fl) (is_bit_set w) plen am q = Arena3.a_contains_key pfx V (peq w) (contains w fl) (is_bit_set w) plen am q' /\
  Arena.a_get_lpm pfx V (peq w) (contains w fl) (is_bit_set w) plen am q = Arena.a_get_lpm pfx V (peq w) (contains w fl) (is_bit_set w) plen am q' /\
  Arena3.a_get_lpm_prefix pfx V (peq w) (contains w fl) (is_bit_set w) plen am q = Arena3.a_get_lpm_prefix pfx V (peq w) (contains w fl) (is_bit_set w) plen am q' /\
  Arena3.a_get_lpm_mut pfx V (peq w) (contains w fl) (is_bit_set w) plen am q = Arena3.a_get_lpm_mut pfx V (peq w) (contains w fl) (is_bit_set w) plen am q' /\
  Arena3.a_get_spm pfx V (peq w) (contains w fl) (is_bit_set w) plen am q = Arena3.a_get_spm pfx V (peq w) (contains w fl) (is_bit_set w) plen am q' /\
  Arena3.a_get_spm_prefix pfx V (peq w) (contains w fl) (is_bit_set w) plen am q = Arena3.a_get_spm_prefix pfx V (peq w) (contains w fl) (is_bit_set w) plen am q' /\
  Arena3.a_cover pfx V (peq w) (contains w fl) (is_bit_set w) plen am q = Arena3.a_cover pfx V (peq w) (contains w fl) (is_bit_set w) plen am q' /\
  Arena3.a_children pfx V (peq w) (contains w fl) (is_bit_set w) plen am q = Arena3.a_children pfx V (peq w) (contains w fl) (is_bit_set w) plen am q'.
Proof. exact (arena_C18_key_only pfx V _ _ _ _ _ _ _ _ _ L am q q'). Qed.

(** the inserting calls store the representation passed: afterwards a lookup of ANY representation
    [q'] of the key returns [(q, x)] *)
Theorem C18_arena_insert_stores_repr (am : Arena.amap pfx V) (q q' : pfx) (x : V) :
  areach pfx V (peq w) (contains w fl) (is_bit_set w) plen (lcp w fl) pzero (okp w) am -> okp w q -> okp w q' -> kbits w q' = kbits w q ->
  (exists am' o, Arena.a_insert pfx V (peq w) (contains w fl) (is_bit_set w) plen (lcp w fl) am q x = Arena.Ok (am', o) /\ areach pfx V (peq w) (contains w fl) (is_bit_set w) plen (lcp w fl) pzero (okp w) am' /\
                 Arena3.a_get_key_value pfx V (peq w) (contains w fl) (is_bit_set w) plen am' q' = Arena.Ok (Some (q, x))) /\
  (exists am' o, Arena2.a_entry_insert pfx V (peq w) (contains w fl) (is_bit_set w) plen (lcp w fl) am q x = Arena.Ok (am', o) /\ areach pfx V (peq w) (contains w fl) (is_bit_set w) plen (lcp w fl) pzero (okp w) am' /\
                 Arena3.a_get_key_value pfx V (peq w) (contains w fl) (is_bit_set w) plen am' q' = Arena.Ok (Some (q, x))).
Proof. exact (arena_C18_insert_stores_repr pfx V _ _ _ _ _ _ _ _ _ L am q q' x). Qed.

End C18_keys.

(** literal equality of the two [view_at] results is FALSE: at [w = 8], in the map holding
    [0100_0000/2], the queries [0000_0000/1] and [0011_1111/1] (one key, [0]) yield the virtual
    views [VVirt (0000_0000/1) c] and [VVirt (0011_1111/1) c] over the same node [c]; [prefix()]
    reports the query's own representation (there is no stored one). *)
Definition C18_T2 : tree pfx nat :=
  root (hrun 8 Generic nat [OInsert pfx nat (mkpfx 0x40 2) 1%nat; OInsert pfx nat (mkpfx 0x60 3) 2%nat;
                            OInsert pfx nat (mkpfx 0xc0 2) 3%nat]).

Theorem C18_view_at_literal_refuted :
  exists (T : tree pfx nat) (q q' : pfx),
    wfm 8 nat T /\ okp 8 q /\ okp 8 q' /\ kbits 8 q = kbits 8 q' /\
    t_view_at 8 Generic nat T q <> t_view_at 8 Generic nat T q' /\
    option_map (t_v_prefix nat) (t_view_at 8 Generic nat T q) = Some q /\
    option_map (t_v_prefix nat) (t_view_at 8 Generic nat T q') = Some q'.
Proof.
  exists C18_T2, (mkpfx 0x00 1), (mkpfx 0x3f 1).
  split; [apply (reachable_wfm 8 Generic nat); [discriminate | repeat constructor]|].
  vm_compute. repeat split; try reflexivity. discriminate.
Qed.

(** non-vacuity of the selection/view theorems on that map: the two representations select the
    same children and cover, and the virtual views have the same subtree and the same [left()] *)
Example C18_keys_example :
  let q := mkpfx 0x00 1 in let q' := mkpfx 0x3f 1 in
  map (Inst.drop_id nat) (t_children 8 Generic nat C18_T2 q) = [(mkpfx 0x40 2, 1%nat); (mkpfx 0x60 3, 2%nat)] /\
  map (Inst.drop_id nat) (t_children 8 Generic nat C18_T2 q') = [(mkpfx 0x40 2, 1%nat); (mkpfx 0x60 3, 2%nat)] /\
  t_cover_walk 8 Generic nat C18_T2 (mkpfx 0x7f 3) = [(mkpfx 0x40 2, 1%nat); (mkpfx 0x60 3, 2%nat)] /\
  t_cover_walk 8 Generic nat C18_T2 (mkpfx 0x60 3) = [(mkpfx 0x40 2, 1%nat); (mkpfx 0x60 3, 2%nat)] /\
  t_get_spm_prefix 8 Generic nat C18_T2 (mkpfx 0x7f 3) = Some (mkpfx 0x40 2) /\
  t_get_lpm_prefix 8 Generic nat C18_T2 (mkpfx 0x7f 3) = Some (mkpfx 0x60 3) /\
  option_map v_is_virtual (t_view_at 8 Generic nat C18_T2 q) = Some true /\
  option_map v_tree (t_view_at 8 Generic nat C18_T2 q) = option_map v_tree (t_view_at 8 Generic nat C18_T2 q') /\
  option_map (fun v => map (Inst.drop_id nat) (v_iter v)) (t_view_at 8 Generic nat C18_T2 q')
    = Some [(mkpfx 0x40 2, 1%nat); (mkpfx 0x60 3, 2%nat)] /\
  option_map (t_vm_prefix nat C18_T2) (t_vm_find 8 Generic nat C18_T2 (vm_root pfx) q') = Some q'.
Proof. vm_compute. repeat split; reflexivity. Qed.

Print Assumptions C18_interchangeable.
Print Assumptions C18_lpm_key_only.
Print Assumptions C18_one_entry_per_key.
Print Assumptions C18_reachable_one_entry_per_key.
Print Assumptions C18_inserting_calls_store_their_prefix.
Print Assumptions C18_repr_stable.
Print Assumptions C18_repr_origin.
Print Assumptions C18_repr_provenance.
Print Assumptions C18_view_set_keeps_prefix.
Print Assumptions C18_lookup_reports_stored.
Print Assumptions C18_entry_key_reports_stored.
Print Assumptions C18_iter_reports_stored.
Print Assumptions C18_union_reports_stored.
Print Assumptions C18_intersection_reports_stored.
Print Assumptions C18_lpm_variants_key_only.
Print Assumptions C18_spm_cover_key_only.
Print Assumptions C18_children_key_only.
Print Assumptions C18_removal_key_only.
Print Assumptions C18_view_sim_same.
Print Assumptions C18_osim_same.
Print Assumptions C18_views_key_only.
Print Assumptions C18_view_navigation_key_only.
Print Assumptions C18_vm_sim_same.
Print Assumptions C18_ovm_sim_same.
Print Assumptions C18_view_mut_key_only.
Print Assumptions C18_view_mut_navigation_key_only.
Print Assumptions C18_view_at_literal_refuted.
Print Assumptions C18_arena_key_only.
Print Assumptions C18_arena_insert_stores_repr.
