(** C19 — equality, clone and round-trips depend only on the stored entries.

    [==] on maps ([Inst.t_map_eq]: the two iterators compared element-wise under the key type's
    own equality — address AND length, host bits included — and the value type's equality) is
    true exactly when the two maps store the same sequence of (stored prefix, value) pairs.
    Consequences: it never holds between maps with different numbers of entries (in particular
    the empty map equals only empty maps), it does not depend on the tree shapes that the
    histories left behind, and it is reflexive, symmetric and transitive.  Rebuilding a map from
    its own entries in ANY order (collect; serialisation through an unordered container) gives an
    equal map.  [clone] is the identity on an immutable model value, so "equal and independent"
    is definitional here; the independence of the two Rust objects is a differential check
    ([clone] lines of the scripts), stated as such in DESIGN.md. *)
From Coq Require Import List NArith Bool Permutation.
From PT Require Import Lookup2 Mutate Refine EqClone Arena Arena2 ArenaProps ArenaWrite ArenaEq.
From PT.Properties Require Import Common.
Import ListNotations.

(** the key type's own equality compares the stored representation: address and length *)
Lemma prepr_eq_spec (p q : pfx) : prepr_eq p q = true <-> p = q.
Proof.
  unfold prepr_eq. rewrite andb_true_iff, !N.eqb_eq. destruct p as [r l], q as [r' l']. cbn. split.
  - intros [-> ->]. reflexivity.
  - intros E. inversion E. auto.
Qed.

(** the extracted [==] (two [Iter] machines compared element-wise) is [map_eq] on the entry lists *)
Lemma t_map_eq_entries (V : Type) (veq : V -> V -> bool) (a b : tree pfx V) :
  t_map_eq V veq a b = map_eq pfx V prepr_eq veq a b.
Proof.
  unfold t_map_eq, t_iter_items. rewrite <- (iter_eq_map_eq pfx V prepr_eq veq a b).
  f_equal; apply map_ext; intros [[i p] x]; reflexivity.
Qed.

Section C19.
Variables (w : N) (fl : flavour) (V : Type).
Hypothesis Hw : (1 <= w)%N.
(** the value type's [==]; an [Eq] type: it decides equality *)
Variable veq : V -> V -> bool.
Hypothesis veq_spec : forall x y, veq x y = true <-> x = y.

(** two maps compare equal exactly when they store the same sequence of (stored prefix, value)
    pairs — whatever histories and shapes produced them ([a], [b] are arbitrary trees) *)
Theorem C19_eq (a b : tree pfx V) :
  t_map_eq V veq a b = true <-> entries a = entries b.
Proof.
  rewrite t_map_eq_entries.
  exact (map_eq_iff pfx V prepr_eq veq prepr_eq_spec veq_spec a b).
Qed.

(** without any assumption on [veq]: equality is the element-wise comparison of the two entry
    sequences, so maps with different numbers of entries are never equal *)
Theorem C19_eq_pairwise (veq' : V -> V -> bool) (a b : tree pfx V) :
  t_map_eq V veq' a b = true <-> Forall2 (pair_eq pfx V prepr_eq veq') (entries a) (entries b).
Proof.
  rewrite t_map_eq_entries. apply map_eq_spec.
Qed.

Theorem C19_surplus (veq' : V -> V -> bool) (a b : tree pfx V) :
  length (entries a) <> length (entries b) -> t_map_eq V veq' a b = false.
Proof.
  intros H. rewrite t_map_eq_entries. apply map_eq_surplus. exact H.
Qed.

(** the empty map equals exactly the maps without entries *)
Theorem C19_empty (b : tree pfx V) :
  t_map_eq V veq (root (t_empty V)) b = true <-> entries b = [].
Proof. rewrite C19_eq. cbn. split; intros H; symmetry; exact H. Qed.

(** equivalence relation *)
Theorem C19_refl (a : tree pfx V) : t_map_eq V veq a a = true.
Proof. apply C19_eq. reflexivity. Qed.
Theorem C19_sym (a b : tree pfx V) : t_map_eq V veq a b = t_map_eq V veq b a.
Proof.
  destruct (t_map_eq V veq a b) eqn:E1, (t_map_eq V veq b a) eqn:E2; try reflexivity.
  - apply C19_eq in E1. symmetry in E1. apply C19_eq in E1. congruence.
  - apply C19_eq in E2. symmetry in E2. apply C19_eq in E2. congruence.
Qed.
Theorem C19_trans (a b c : tree pfx V) :
  t_map_eq V veq a b = true -> t_map_eq V veq b c = true -> t_map_eq V veq a c = true.
Proof. rewrite !C19_eq. congruence. Qed.

(** one differing value or stored representation (e.g. one host bit) at some position makes two
    maps unequal *)
Theorem C19_differs (a b : tree pfx V) e1 e2 n :
  nth_error (entries a) n = Some e1 -> nth_error (entries b) n = Some e2 -> e1 <> e2 ->
  t_map_eq V veq a b = false.
Proof.
  intros H1 H2 Hne. destruct (t_map_eq V veq a b) eqn:E; [|reflexivity]. apply C19_eq in E.
  rewrite E in H1. congruence.
Qed.

(** rebuilding a reachable map from its own entries, in any order ([perm] is any permutation:
    collect, or deserialisation from an unordered container), yields an equal map *)
Theorem C19_rebuild (ops : list (hop V)) (perm : list (pfx * V) -> list (pfx * V)) :
  Forall (hop_ok w V) ops -> (forall l, Permutation (perm l) l) ->
  let m := hrun w fl V ops in
  t_map_eq V veq (root (t_from_list w fl V (perm (entries (root m))))) (root m) = true.
Proof.
  intros Hops Hp m. apply C19_eq.
  exact (collect_refines pfx V _ _ _ _ _ _ _ (kbits w) (okp w) (laws w fl Hw) perm m
           (reachable_wfm w fl V Hw ops Hops) Hp).
Qed.

(** and the rebuilt map and the original answer every equality test alike *)
Corollary C19_rebuild_congruent (ops : list (hop V)) perm (b : tree pfx V) :
  Forall (hop_ok w V) ops -> (forall l, Permutation (perm l) l) ->
  let m := hrun w fl V ops in
  t_map_eq V veq (root (t_from_list w fl V (perm (entries (root m))))) b = t_map_eq V veq (root m) b.
Proof.
  intros Hops Hp m.
  pose proof (C19_rebuild ops perm Hops Hp) as E. cbv zeta in E. fold m in E. apply C19_eq in E.
  rewrite !t_map_eq_entries. unfold map_eq. rewrite E. reflexivity.
Qed.

(* ---------------------------------------------------------------------------------------- *)
(** * The same statements about the ARENA-level transcription (ArenaEq.v): [==] drains the two arena
      iterators and compares them pairwise; [clone] copies table, free list and counter; [a], [b] are
      arenas reachable from the empty arena by histories over the whole mutator alphabet. *)
Notation aeq := (a_map_eq pfx V prepr_eq veq).

(** [==] never panics, and holds exactly when the two iterations are the same list — whatever the
    tables, free lists and counters look like *)
Theorem C19_arena_eq (a b : Arena.amap pfx V) ea eb : areach pfx V (peq w) (contains w fl) (is_bit_set w) plen (lcp w fl) pzero (okp w) a -> areach pfx V (peq w) (contains w fl) (is_bit_set w) plen (lcp w fl) pzero (okp w) b ->
  Arena.a_entries pfx V a = Arena.Ok ea -> Arena.a_entries pfx V b = Arena.Ok eb ->
  exists r, aeq a b = Arena.Ok r /\ (r = true <-> ea = eb).
Proof.
  intros Ha Hb. apply (arena_C19_eq pfx V (kbits w) (okp w) prepr_eq veq prepr_eq_spec veq_spec).
  - exact (ArenaWrite.areach_good pfx V _ _ _ _ _ _ _ _ _ (laws w fl Hw) a Ha).
  - exact (ArenaWrite.areach_good pfx V _ _ _ _ _ _ _ _ _ (laws w fl Hw) b Hb).
Qed.

Theorem C19_arena_equivalence (a b c : Arena.amap pfx V) : areach pfx V (peq w) (contains w fl) (is_bit_set w) plen (lcp w fl) pzero (okp w) a -> areach pfx V (peq w) (contains w fl) (is_bit_set w) plen (lcp w fl) pzero (okp w) b -> areach pfx V (peq w) (contains w fl) (is_bit_set w) plen (lcp w fl) pzero (okp w) c ->
  aeq a a = Arena.Ok true /\ aeq a b = aeq b a /\
  (aeq a b = Arena.Ok true -> aeq b c = Arena.Ok true -> aeq a c = Arena.Ok true).
Proof.
  intros Ha Hb Hc.
  pose proof (ArenaWrite.areach_good pfx V _ _ _ _ _ _ _ _ _ (laws w fl Hw) a Ha) as Ga.
  pose proof (ArenaWrite.areach_good pfx V _ _ _ _ _ _ _ _ _ (laws w fl Hw) b Hb) as Gb.
  pose proof (ArenaWrite.areach_good pfx V _ _ _ _ _ _ _ _ _ (laws w fl Hw) c Hc) as Gc.
  split; [exact (arena_C19_refl pfx V (peq w) (contains w fl) (is_bit_set w) plen (lcp w fl) pzero (kbits w) (okp w) prepr_eq veq prepr_eq_spec veq_spec a Ga)|].
  split; [exact (arena_C19_sym pfx V (peq w) (contains w fl) (is_bit_set w) plen (lcp w fl) pzero (kbits w) (okp w) prepr_eq veq prepr_eq_spec veq_spec a b Ga Gb)|].
  exact (arena_C19_trans pfx V (peq w) (contains w fl) (is_bit_set w) plen (lcp w fl) pzero (kbits w) (okp w) prepr_eq veq prepr_eq_spec veq_spec a b c Ga Gb Gc).
Qed.

Theorem C19_arena_clone (a : Arena.amap pfx V) : areach pfx V (peq w) (contains w fl) (is_bit_set w) plen (lcp w fl) pzero (okp w) a ->
  Arena.a_entries pfx V (a_clone pfx V a) = Arena.a_entries pfx V a /\
  aeq (a_clone pfx V a) a = Arena.Ok true /\ aeq a (a_clone pfx V a) = Arena.Ok true.
Proof.
  intros Ha.
  pose proof (ArenaWrite.areach_good pfx V _ _ _ _ _ _ _ _ _ (laws w fl Hw) a Ha) as Ga.
  destruct (arena_C19_clone pfx V (peq w) (contains w fl) (is_bit_set w) plen (lcp w fl) pzero (kbits w) (okp w) prepr_eq veq prepr_eq_spec veq_spec a Ga)
    as (_ & E1 & E2 & E3). auto.
Qed.

Theorem C19_arena_differs (a b : Arena.amap pfx V) ea eb : areach pfx V (peq w) (contains w fl) (is_bit_set w) plen (lcp w fl) pzero (okp w) a -> areach pfx V (peq w) (contains w fl) (is_bit_set w) plen (lcp w fl) pzero (okp w) b ->
  Arena.a_entries pfx V a = Arena.Ok ea -> Arena.a_entries pfx V b = Arena.Ok eb -> ea <> eb ->
  aeq a b = Arena.Ok false.
Proof.
  intros Ha Hb. apply (arena_C19_differs pfx V (kbits w) (okp w) prepr_eq veq prepr_eq_spec veq_spec).
  - exact (ArenaWrite.areach_good pfx V _ _ _ _ _ _ _ _ _ (laws w fl Hw) a Ha).
  - exact (ArenaWrite.areach_good pfx V _ _ _ _ _ _ _ _ _ (laws w fl Hw) b Hb).
Qed.

(** rebuilding ([collect], deserialisation: repeated arena-level [insert]) from the entries in ANY
    order: runs without panic and yields an arena equal to the original in both directions *)
Theorem C19_arena_rebuild (a : Arena.amap pfx V) es es' : areach pfx V (peq w) (contains w fl) (is_bit_set w) plen (lcp w fl) pzero (okp w) a ->
  Arena.a_entries pfx V a = Arena.Ok es -> Permutation es' es ->
  exists b, Arena2.a_run2 pfx V (peq w) (contains w fl) (is_bit_set w) plen (lcp w fl) pzero (ins_ops pfx V es') = Arena.Ok b /\
            areach pfx V (peq w) (contains w fl) (is_bit_set w) plen (lcp w fl) pzero (okp w) b /\ Arena.a_entries pfx V b = Arena.Ok es /\ aeq b a = Arena.Ok true /\ aeq a b = Arena.Ok true.
Proof.
  exact (arena_C19_rebuild pfx V (peq w) (contains w fl) (is_bit_set w) plen (lcp w fl) pzero (mcmp w) (kbits w) (okp w)
           (laws w fl Hw) prepr_eq veq prepr_eq_spec veq_spec a es es').
Qed.

End C19.

(** non-vacuity: same entries reached by different histories (one leaves a value-less leftover
    node behind) are equal; a surplus entry, and a differing host bit, make them unequal *)
Example C19_example :
  let ins m r l x := fst (t_insert 8 Generic nat m (mkpfx r l) x) in
  let a := ins (ins (ins (t_empty nat) 0x80 1 1%nat) 0xc0 2 2%nat) 0x40 2 3%nat in
  let a' := fst (t_remove_keep_tree 8 Generic nat (ins a 0xe0 3 9%nat) (mkpfx 0xe0 3)) in
  let b := ins a 0xe0 3 9%nat in
  let c := ins (ins (ins (t_empty nat) 0x81 1 1%nat) 0xc0 2 2%nat) 0x40 2 3%nat in
  (t_map_eq nat Nat.eqb (root a) (root a'), t_map_eq nat Nat.eqb (root a) (root b),
   t_map_eq nat Nat.eqb (root (t_empty nat)) (root a), t_map_eq nat Nat.eqb (root a) (root c))
  = (true, false, false, false).
Proof. vm_compute. reflexivity. Qed.

Print Assumptions C19_eq.
Print Assumptions C19_eq_pairwise.
Print Assumptions C19_surplus.
Print Assumptions C19_empty.
Print Assumptions C19_refl.
Print Assumptions C19_sym.
Print Assumptions C19_trans.
Print Assumptions C19_differs.
Print Assumptions C19_rebuild.
Print Assumptions C19_rebuild_congruent.
Print Assumptions prepr_eq_spec.
Print Assumptions t_map_eq_entries.
Print Assumptions C19_arena_eq.
Print Assumptions C19_arena_equivalence.
Print Assumptions C19_arena_clone.
Print Assumptions C19_arena_differs.
Print Assumptions C19_arena_rebuild.
