(** C20 — no panic, overflow or divergence on valid input; user panics keep the map valid.

    What "panic / overflow / divergence" are in the model.  Every model function is a total Coq
    function: all descents are structural recursions (so they terminate; [C15_depth] bounds every
    path by width+1 nodes).  The places where the Rust code can fail are explicit:
      - traversals with an explicit stack (iterators, children, the eight set-operation
        iterators) run on FUEL and return [None] when it is exhausted = the Rust loop would not
        stop after the number of steps the tree size allows;
      - shifts by the prefix length have a checked variant [mask_from_len_chk] ([None] = the
        debug-build overflow panic of [!0 >> len]); [is_bit_set] uses [checked_shr] semantics;
      - the cached counter is a [Z]: a negative value = [count -= 1] underflowed;
      - [OccupiedEntry] methods [unwrap] the node's value: [None] in the model = that panic;
      - user closures are modelled as functions that may answer [None] = the closure panics.
    The theorems below say that none of these failures happens on valid input in reachable
    states (outside the two recorded known classes, for which a refutation witness is given),
    and that a panicking [retain] predicate leaves a well-formed, size-consistent map holding
    exactly the old entries minus those already rejected.
    Out of scope of a Gallina model (covered differentially, both build profiles, every call under
    [catch_unwind]): arena indexing and the [unwrap]s on child links inside [_remove_node] /
    [_retain] — the model is a tree, not an arena; see DESIGN.md section 7. *)
From Coq Require Import List NArith ZArith Bool Lia Permutation.
From PT Require Import Lookup Lookup2 Mutate Slots Retain MutTrav UnionThm InterDiffThm HistoryExtra EntryApi InstEntry Arena ArenaThm Arena2 Arena2Thm Arena3 Arena3Thm InstArena.
From PT.Properties Require Import Common.
Import ListNotations.

Lemma entries_id_length {V} (t : tree pfx V) : (length (entries_id t) <= tsize t)%nat.
Proof.
  induction t as [|i p v l IHl r IHr]; [apply le_n|]. cbn [entries_id tsize].
  rewrite !app_length. destruct v; cbn [length]; lia.
Qed.

Section C20.
Variables (w : N) (fl : flavour) (V : Type).
Hypothesis Hw : (1 <= w)%N.
Notation wfR R := (wf_under pfx R (kbits w) (okp w)).

(** * termination of the stack traversals: the fuel derived from the tree size always suffices,
      and an iterator yields at most as many items as there are nodes *)
Theorem C20_iter_terminates (t : tree pfx V) :
  iter_run pfx V (nodes_of [t]) = Some (t_iter_items V t) /\
  t_iter_mut_items V t = t_iter_items V t /\ t_into_iter_items V t = t_iter_items V t /\
  (length (t_iter_items V t) <= tsize t)%nat.
Proof.
  unfold t_iter_items, t_iter_mut_items, t_into_iter_items.
  rewrite iter_mut_items_eq, into_iter_items_eq, iter_items_spec.
  repeat split; [|apply entries_id_length].
  rewrite iter_run_spec by apply nodes_of_is_node.
  rewrite flat_map_nodes_of by reflexivity. cbn. rewrite app_nil_r. reflexivity.
Qed.

Theorem C20_children_terminates (t : tree pfx V) (q : pfx) :
  iter_run pfx V (children_start pfx V (peq w) (contains w fl) (is_bit_set w) plen t q)
  = Some (t_children w fl V t q) /\
  t_children_mut w fl V t q = t_children w fl V t q /\
  t_into_children w fl V t q = t_children w fl V t q.
Proof.
  unfold t_children, t_children_mut, t_into_children. split; [|split].
  - unfold children. rewrite iter_run_spec by apply children_start_nodes. reflexivity.
  - apply children_mut_eq.
  - apply into_children_eq.
Qed.

(** the lazy [Cover] iterator stops: after [length cover] calls nothing is pending *)
Theorem C20_cover_terminates (T : tree pfx V) (q : pfx) : T <> Leaf ->
  forall fuel, (length (t_cover_walk w fl V T q) < fuel)%nat ->
  t_cover_drain w fl V fuel T CStart q = t_cover_walk w fl V T q.
Proof. intros HT fuel Hf. exact (cover_drain_spec pfx V _ _ _ _ T q HT fuel CStart Hf). Qed.

(** all eight set-operation iterators terminate on every pair of well-formed operands (any
    roots, any two value types) *)
Theorem C20_setops_terminate (L R : Type) ba bb (ta : tree pfx L) (tb : tree pfx R) :
  wfR L ba ta -> wfR R bb tb ->
  t_union w fl L R ta tb <> None /\ t_union_mut w fl L R ta tb <> None /\
  t_intersection w fl L R ta tb <> None /\ t_intersection_mut w fl L R ta tb <> None /\
  t_difference w fl L R ta tb <> None /\ t_difference_mut w fl L R ta tb <> None /\
  t_covering_difference w fl L R ta tb <> None /\ t_covering_difference_mut w fl L R ta tb <> None.
Proof.
  intros Ha Hb. pose proof (laws w fl Hw) as LW.
  destruct (union_mut_mirrors pfx L R _ _ _ _ _ _ _ _ _ LW ba bb ta tb Ha Hb) as [o1 [o1' [E1 [E1' _]]]].
  destruct (intersection_mut_mirrors pfx L R _ _ _ _ _ _ _ _ _ LW ba bb ta tb Ha Hb) as [o2 [o2' [E2 [E2' _]]]].
  destruct (difference_mut_mirrors pfx L R _ _ _ _ _ _ _ _ _ LW ba bb ta tb Ha Hb) as [o3 [o3' [E3 [E3' _]]]].
  destruct (covering_difference_mut_mirrors pfx L R _ _ _ _ _ _ _ _ _ LW ba bb ta tb Ha Hb) as [o4 [o4' [E4 [E4' _]]]].
  unfold t_union, t_union_mut, t_intersection, t_intersection_mut, t_difference, t_difference_mut,
         t_covering_difference, t_covering_difference_mut.
  rewrite E1, E1', E2, E2', E3, E3', E4, E4'. repeat split; discriminate.
Qed.

(** * no shift overflow for valid lengths; [is_bit_set] is defined (and false) for every bit
      index at or beyond the length — in particular for 128..=255 on every width *)
Theorem C20_no_shift_overflow (len : N) :
  (len <= w)%N -> mask_from_len_chk w len = Some (mask_from_len w len).
Proof. exact (mask_chk_total w len). Qed.

Theorem C20_bit_index_total (p : pfx) (i : N) :
  okp w p -> (plen p <= i)%N -> is_bit_set w p i = false.
Proof. intros Hp Hi. exact (is_bit_set_high w p i Hw Hp Hi). Qed.

(** * the counter never underflows: outside the two view operations that cannot reach it
      (known finding, class view-counter), [len()] is the number of entries after every step,
      hence never negative, and wherever a call is about to take a value out ([count -= 1])
      the counter is at least 1 *)
Theorem C20_counter_never_negative (ops : list (hop V)) (k : nat) :
  forallb (counts pfx V) ops = true ->
  (0 <= len (hrun w fl V (firstn k ops)))%Z.
Proof.
  intros Hc.
  assert (Hk : forallb (counts pfx V) (firstn k ops) = true).
  { apply forallb_firstn. exact Hc. }
  pose proof (reachable_count pfx V (peq w) (contains w fl) (is_bit_set w) plen (lcp w fl) pzero
                (firstn k ops) Hk) as Hci.
  unfold hrun. rewrite (cinv_len pfx V _ Hci). lia.
Qed.

Theorem C20_decrement_safe (m : pmap pfx V) (q : pfx) (y : V) :
  wfm w V (root m) -> cinv pfx V m -> okp w q -> t_get w fl V (root m) q = Some y ->
  (1 <= len m)%Z.
Proof.
  intros Hwf Hc Hq G. destruct (root m) as [|i p v l r] eqn:R; [destruct Hwf|].
  pose proof (laws w fl Hw) as LW.
  assert (Hrc : root_covers pfx V (kbits w) (Node i p v l r) q).
  { apply (wf_root_covers pfx V (kbits w) (okp w)). exact Hwf. }
  apply (get_spec pfx V _ _ _ _ _ _ _ _ _ LW [] _ q y (proj2 Hwf) Hq Hrc) in G.
  destruct G as [p0 [Hin _]].
  rewrite (cinv_len pfx V _ Hc), R. destruct (entries (Node i p v l r)); [destruct Hin | cbn [length]; lia].
Qed.

(** * [retain]: whatever the predicate does — including panicking at ANY call — the map it
      leaves is well-formed, has consistent slot accounting and a counter equal to its number
      of entries; its entries are the old ones minus those rejected before the panic *)
Theorem C20_retain_any_closure (f : nat -> pfx -> V -> option bool) (m : pmap pfx V) :
  wfm w V (root m) -> minv pfx V m -> cinv pfx V m ->
  let m' := fst (fst (t_retain V f m)) in
  wfm w V (root m') /\ minv pfx V m' /\ cinv pfx V m' /\ (0 <= len m')%Z.
Proof.
  intros Hwf Hm Hc m'. destruct (t_retain V f m) as [[m1 pn] calls] eqn:E. unfold m'. cbn [fst].
  assert (Hc' : cinv pfx V m1).
  { pose proof (retain_cinv pfx V (peq w) (contains w fl) (is_bit_set w) plen (lcp w fl) pzero f m Hc) as H. unfold t_retain in E. rewrite E in H. exact H. }
  split; [eapply (retain_wf pfx V (kbits w) (okp w)); eauto|].
  split; [pose proof (retain_minv pfx V (peq w) (contains w fl) (is_bit_set w) plen (lcp w fl) pzero f m Hm) as H; unfold t_retain in E; rewrite E in H; exact H|].
  split; [exact Hc'|]. rewrite (cinv_len pfx V _ Hc'). lia.
Qed.

(** the scripted closure: invocation [k] panics iff [panics k]; otherwise the verdict is [g] *)
Theorem C20_retain_callback_panic (panics : nat -> bool) (g : pfx -> V -> bool) (m m' : pmap pfx V)
        (panicked : bool) (calls : list (pfx * V)) :
  wfm w V (root m) ->
  t_retain V (pf pfx V panics g) m = (m', panicked, calls) ->
  wfm w V (root m') /\
  incl calls (entries (root m)) /\ NoDup calls /\
  (forall e, In e (entries (root m')) <->
             In e (entries (root m)) /\ ~ (In e calls /\ g (fst e) (snd e) = false)) /\
  (panicked = true -> panics (length calls) = true /\ (length calls < length (entries (root m)))%nat) /\
  (panicked = false <-> forall k, (k < length (entries (root m)))%nat -> panics k = false).
Proof.
  intros Hwf E.
  destruct (retain_pf_spec pfx V (kbits w) (okp w) panics g m m' panicked calls Hwf E)
    as (W & _ & Pi & Pn & Pk & _ & Pp & Piff).
  split; [exact W|]. split; [exact Pi|]. split; [exact Pn|]. split; [exact Pk|]. split; [exact Pp | exact Piff].
Qed.

(** * [OccupiedEntry] on an entry that is occupied: no [unwrap] fails *)
Theorem C20_occupied_entry_total (m : pmap pfx V) (q : pfx) (x y : V) :
  wfm w V (root m) -> okp w q -> t_get w fl V (root m) q = Some y ->
  snd (t_occ_insert w fl V m q x) = Some y /\ snd (t_occ_remove w fl V m q) = Some y /\
  t_h_get w fl V m (t_entry w fl V m q) = Some y.
Proof.
  intros Hwf Hq G. pose proof (laws w fl Hw) as LW. split; [|split].
  - destruct (t_occ_insert w fl V m q x) as [m' o] eqn:E.
    destruct (occ_insert_spec pfx V _ _ _ _ _ _ _ _ _ LW m q x y m' o Hwf Hq G E) as (_ & _ & -> & _). reflexivity.
  - destruct (t_occ_remove w fl V m q) as [m' o] eqn:E.
    destruct (occ_remove_spec pfx V _ _ _ _ _ _ _ _ _ LW m q m' o Hwf Hq E) as (_ & _ & -> & _). exact G.
  - unfold t_h_get, t_entry, h_get, entry. unfold t_get, get in G.
    destruct (get_node pfx V (peq w) (contains w fl) (is_bit_set w) plen (root m) q) as [[[i p] [v|]]|] eqn:N;
      try discriminate. cbn. unfold get. rewrite N. exact G.
Qed.

(** * the Entry API as a whole: ANY sequence of method calls on one entry handle
      ([EntryApi.entry_chain] is the state machine the extracted driver runs for [entry] lines).
      Outside the recorded known class (an accessor other than [key()] after
      [OccupiedEntry::remove] on the same handle) no call panics unless a user closure does; a
      closure panic ([or_insert_with], [and_modify], [VacantEntry::insert_with]) leaves the map
      exactly as the calls before it left it; whatever happens — known class and panicking
      closures included — the map stays well-formed with consistent slot accounting, and outside
      the known class the counter stays exact. *)
Theorem C20_entry_chain_no_panic (m : pmap pfx V) (q : pfx) (acts : list (eact V)) :
  wfm w V (root m) -> okp w q -> occupied_reuse V acts = false -> closure_panics V acts = false ->
  ~ In (TPanic (pfx:=pfx) (V:=V)) (snd (t_entry_chain w fl V m q acts)).
Proof. exact (entry_chain_no_panic pfx V _ _ _ _ _ _ _ _ _ (laws w fl Hw) m q acts). Qed.

Theorem C20_entry_chain_closure_panic (m : pmap pfx V) (q : pfx) (acts : list (eact V)) :
  wfm w V (root m) -> okp w q -> occupied_reuse V acts = false ->
  In (TPanic (pfx:=pfx) (V:=V)) (snd (t_entry_chain w fl V m q acts)) ->
  exists acts1 a acts2,
    acts = acts1 ++ a :: acts2 /\
    (a = EOrInsertWith None \/ a = EAndModify None \/ a = VacInsertWith None) /\
    fst (t_entry_chain w fl V m q acts) = fst (t_entry_chain w fl V m q acts1).
Proof.
  intros Hwf Hq Hr Hin.
  destruct (entry_chain_closure_panic pfx V _ _ _ _ _ _ _ _ _ (laws w fl Hw) m q acts Hwf Hq Hr Hin)
    as [a1 [a [a2 [E [C F]]]]].
  exists a1, a, a2. split; [exact E|]. split; [apply closure_panic_act_spec; exact C | exact F].
Qed.

Theorem C20_entry_chain_keeps_invariants (m : pmap pfx V) (q : pfx) (acts : list (eact V)) :
  wfm w V (root m) -> okp w q ->
  let m' := fst (t_entry_chain w fl V m q acts) in
  wfm w V (root m') /\
  (minv pfx V m -> minv pfx V m') /\
  (cinv pfx V m -> occupied_reuse V acts = false -> cinv pfx V m' /\ (0 <= len m')%Z) /\
  (forall e, ekey w V e <> kbits w q -> (In e (entries (root m')) <-> In e (entries (root m)))).
Proof.
  intros Hwf Hq m'. pose proof (laws w fl Hw) as LW. split; [|split; [|split]].
  - exact (entry_chain_wf pfx V _ _ _ _ _ _ _ _ _ LW m q acts Hwf Hq).
  - exact (entry_chain_minv pfx V (peq w) (contains w fl) (is_bit_set w) plen (lcp w fl) pzero m q acts).
  - intros Hc Hr.
    pose proof (entry_chain_cinv pfx V _ _ _ _ _ _ _ _ _ LW m q acts Hc Hwf Hq Hr) as Hc'.
    split; [exact Hc'|]. pose proof (cinv_len pfx V _ Hc') as E. unfold m', t_entry_chain. rewrite E. lia.
  - exact (entry_chain_frame pfx V _ _ _ _ _ _ _ _ _ LW m q acts Hwf Hq).
Qed.

(** * At the level of the ARENA (Arena.v, Arena2.v: the transcription of src/inner.rs, of the
      lookups and of EVERY mutator of src/map/mod.rs, of the Entry insertions and OccupiedEntry
      writes, of get_mut and of the TrieViewMut writes over a vector of nodes with index links, in
      which every index out of bounds and every [unwrap] of a missing link or value is an explicit
      [Panic] and every link-following loop / recursion runs on fuel): in every arena state
      reachable from the empty map by ANY history over that alphabet, none of these operations
      panics or runs out of fuel, and each loop returns within [length table] iterations. *)
Theorem C20_arena_total (am : amap pfx V) (q : pfx) (x : V)
        (f : nat -> pfx -> V -> option bool) (g : V -> V) :
  reachable2 pfx V (peq w) (contains w fl) (is_bit_set w) plen (lcp w fl) pzero am ->
  (exists o, t_a_get w fl V am q = Ok o) /\ (exists o, t_a_get_lpm w fl V am q = Ok o) /\
  (exists r, t_a_insert w fl V am q x = Ok r) /\ (exists r, t_a_remove w fl V am q = Ok r) /\
  (exists r, t_a_remove_keep_tree w fl V am q = Ok r) /\ (exists es, t_a_entries V am = Ok es) /\
  (exists am', t_a_remove_children w fl V am q = Ok am') /\
  (exists r, t_a_retain V f am = Ok r) /\
  (exists r, t_a_entry_insert w fl V am q x = Ok r) /\
  (exists am', t_a_get_mut w fl V am q g = Ok am').
Proof.
  intros H.
  destruct (reachable_total2 pfx V (peq w) (contains w fl) (is_bit_set w) plen (lcp w fl) pzero (peqN_len w) eq_refl am q x f g H)
    as (A1 & A2 & A3 & A4 & A5 & A6 & A7 & A8 & _ & A10 & _ & _ & A13 & _).
  repeat split; assumption.
Qed.

(** ... and so do the READ-ONLY observers transcribed at arena level (Arena3.v): the remaining
    lookups, the start of [children*], the lazy [Cover] iterator at every state it can reach, and —
    at every view location that is linked from the root — [find] / [find_exact] / [find_lpm] /
    [left] / [right] / [split] / [has_left] / [has_right] / [prefix] / [value] of [TrieView] and
    [TrieViewMut]; every location they hand out is again linked from the root. *)
Theorem C20_arena_lookups_total (am : amap pfx V) (q : pfx) :
  reachable2 pfx V (peq w) (contains w fl) (is_bit_set w) plen (lcp w fl) pzero am ->
  (exists o, a_get_key_value pfx V (peq w) (contains w fl) (is_bit_set w) plen am q = Ok o) /\
  (exists o, a_contains_key pfx V (peq w) (contains w fl) (is_bit_set w) plen am q = Ok o) /\
  (exists o, a_get_lpm_prefix pfx V (peq w) (contains w fl) (is_bit_set w) plen am q = Ok o) /\
  (exists o, a_get_lpm_mut pfx V (peq w) (contains w fl) (is_bit_set w) plen am q = Ok o) /\
  (exists o, a_get_spm pfx V (peq w) (contains w fl) (is_bit_set w) plen am q = Ok o) /\
  (exists o, a_get_spm_prefix pfx V (peq w) (contains w fl) (is_bit_set w) plen am q = Ok o) /\
  (exists st, a_children_start pfx V (peq w) (contains w fl) (is_bit_set w) plen am q = Ok st) /\
  (exists es, a_children pfx V (peq w) (contains w fl) (is_bit_set w) plen am q = Ok es) /\
  (exists es, a_cover pfx V (peq w) (contains w fl) (is_bit_set w) plen am q = Ok es) /\
  (forall st, cover_reach pfx V (peq w) (contains w fl) (is_bit_set w) plen (tbl am) q st ->
     exists r, a_cover_next pfx V (peq w) (contains w fl) (is_bit_set w) plen (S (length (tbl am))) (tbl am) st q = Ok r).
Proof. exact (reachable_total3 pfx V (peq w) (contains w fl) (is_bit_set w) plen (lcp w fl) pzero (peqN_len w) eq_refl am q). Qed.

Theorem C20_arena_views_total (am : amap pfx V) (l : vloc pfx) (q : pfx) :
  reachable2 pfx V (peq w) (contains w fl) (is_bit_set w) plen (lcp w fl) pzero am -> live_loc pfx V (tbl am) l ->
  (exists o, a_v_find pfx V (peq w) (contains w fl) (is_bit_set w) plen (lcp w fl) (tbl am) l q = Ok o /\ olive pfx V (tbl am) o) /\
  (exists o, a_v_find_exact pfx V (peq w) (contains w fl) (is_bit_set w) plen (tbl am) l q = Ok o /\ olive pfx V (tbl am) o) /\
  (exists o, a_v_find_lpm pfx V (peq w) (contains w fl) (is_bit_set w) plen (tbl am) l q = Ok o /\ olive pfx V (tbl am) o) /\
  (exists o, a_vm_find pfx V (peq w) (contains w fl) (is_bit_set w) plen (lcp w fl) (tbl am) l q = Ok o /\ olive pfx V (tbl am) o) /\
  (exists o, a_vm_find_exact pfx V (peq w) (contains w fl) (is_bit_set w) plen (tbl am) l q = Ok o /\ olive pfx V (tbl am) o) /\
  (exists o, a_vm_find_lpm pfx V (peq w) (contains w fl) (is_bit_set w) plen (tbl am) l q = Ok o /\ olive pfx V (tbl am) o).
Proof.
  intros H L.
  destruct (reachable_views pfx V (peq w) (contains w fl) (is_bit_set w) plen (lcp w fl) pzero (peqN_len w) eq_refl am l q H L)
    as (A1 & A2 & A3 & _ & _ & _ & _ & _ & A9 & A10 & A11 & _).
  repeat split; assumption.
Qed.

(** ... and the eight simultaneous-traversal iterators (union, intersection, difference, covering
    difference and their [_mut] twins) as index-pair stack machines over TWO arenas, at any two view
    locations of any two reachable arenas (possibly of different value types): they return within
    the fuel [1 + length tableL + length tableR] *)
Theorem C20_arena_setops_total (R : Type) (amL : amap pfx V) (amR : amap pfx R) (lL lR : vloc pfx) :
  reachable2 pfx V (peq w) (contains w fl) (is_bit_set w) plen (lcp w fl) pzero amL -> reachable2 pfx R (peq w) (contains w fl) (is_bit_set w) plen (lcp w fl) pzero amR ->
  live_loc pfx V (tbl amL) lL -> live_loc pfx R (tbl amR) lR ->
  (exists out, a_union pfx V R (contains w fl) (is_bit_set w) plen (mcmp w) (tbl amL) (tbl amR) (loc_idx lL) (loc_idx lR) = Ok out) /\
  (exists out, a_union_mut pfx V R (contains w fl) (is_bit_set w) plen (mcmp w) (tbl amL) (tbl amR) (loc_idx lL) (loc_idx lR) = Ok out) /\
  (exists out, a_intersection pfx V R (contains w fl) (is_bit_set w) plen (mcmp w) (tbl amL) (tbl amR) (loc_idx lL) (loc_idx lR) = Ok out) /\
  (exists out, a_intersection_mut pfx V R (contains w fl) (is_bit_set w) plen (mcmp w) (tbl amL) (tbl amR) (loc_idx lL) (loc_idx lR) = Ok out) /\
  (exists out, a_difference pfx V R (contains w fl) (is_bit_set w) plen (mcmp w) (tbl amL) (tbl amR) (loc_idx lL) (loc_idx lR) = Ok out) /\
  (exists out, a_difference_mut pfx V R (contains w fl) (is_bit_set w) plen (mcmp w) (tbl amL) (tbl amR) (loc_idx lL) (loc_idx lR) = Ok out) /\
  (exists out, a_covering_difference pfx V R (contains w fl) (is_bit_set w) plen (mcmp w) (tbl amL) (tbl amR) (loc_idx lL) (loc_idx lR) = Ok out) /\
  (exists out, a_covering_difference_mut pfx V R (contains w fl) (is_bit_set w) plen (mcmp w) (tbl amL) (tbl amR) (loc_idx lL) (loc_idx lR) = Ok out).
Proof. exact (reachable_setops pfx V R (peq w) (contains w fl) (is_bit_set w) plen (lcp w fl) pzero (mcmp w) (peqN_len w) eq_refl amL amR lL lR). Qed.

(** the values the arena operations return along a history are those of the tree model *)
Theorem C20_arena_outputs (ops : list (aop pfx V)) :
  a_outs pfx V (peq w) (contains w fl) (is_bit_set w) plen (lcp w fl) ops (a_empty pfx V pzero) = Ok (t_outs pfx V (peq w) (contains w fl) (is_bit_set w) plen (lcp w fl) ops (Trie.empty pfx V pzero)).
Proof. exact (outs_sim pfx V (peq w) (contains w fl) (is_bit_set w) plen (lcp w fl) pzero ops). Qed.

End C20.

(** KNOWN FINDING (class occupied-reuse, recorded in KNOWN_FINDINGS.txt): [OccupiedEntry::remove]
    takes [&mut self], so the handle survives; a second accessor then [unwrap]s a [None].  The
    model reproduces it: after [occ_remove], [occ_insert] on the same key reports the panic. *)
Theorem C20_occupied_reuse_refuted :
  exists (ops : list (hop nat)) (q : pfx),
    Forall (hop_ok 8 nat) ops /\ okp 8 q /\
    let m := hrun 8 Generic nat ops in
    t_get 8 Generic nat (root m) q <> None /\
    snd (t_occ_insert 8 Generic nat (fst (t_occ_remove 8 Generic nat m q)) q 7%nat) = None.
Proof.
  exists [OInsert pfx nat (mkpfx 0x80 1) 1%nat], (mkpfx 0x80 1).
  split; [repeat constructor|]. split; [reflexivity|].
  split; [vm_compute; discriminate | vm_compute; reflexivity].
Qed.

(** non-vacuity: a retain whose predicate panics at its third call, on a 5-entry map: two calls
    are logged, the one rejected entry is gone, the others (incl. the unvisited ones) are kept,
    the counter equals the number of entries *)
Example C20_example :
  let ins m r l x := fst (t_insert 8 Generic nat m (mkpfx r l) x) in
  let m := ins (ins (ins (ins (ins (t_empty nat) 0x00 2 1%nat) 0x40 2 2%nat) 0x80 1 3%nat) 0xc0 2 4%nat) 0xe0 3 5%nat in
  let '(m', panicked, calls) :=
      t_retain nat (pf pfx nat (fun k => Nat.eqb k 2) (fun _ x => Nat.even x)) m in
  (panicked, List.length calls, map snd (entries (root m')), len m') = (true, 2%nat, [2; 3; 4; 5]%nat, 4%Z).
Proof. vm_compute. reflexivity. Qed.

Print Assumptions C20_iter_terminates.
Print Assumptions C20_children_terminates.
Print Assumptions C20_cover_terminates.
Print Assumptions C20_setops_terminate.
Print Assumptions C20_no_shift_overflow.
Print Assumptions C20_bit_index_total.
Print Assumptions C20_counter_never_negative.
Print Assumptions C20_decrement_safe.
Print Assumptions C20_retain_any_closure.
Print Assumptions C20_retain_callback_panic.
Print Assumptions C20_occupied_entry_total.
Print Assumptions C20_occupied_reuse_refuted.
Print Assumptions C20_entry_chain_no_panic.
Print Assumptions C20_entry_chain_closure_panic.
Print Assumptions C20_entry_chain_keeps_invariants.
Print Assumptions C20_arena_total.
Print Assumptions C20_arena_outputs.
Print Assumptions C20_arena_lookups_total.
Print Assumptions C20_arena_views_total.
Print Assumptions C20_arena_setops_total.
Print Assumptions entries_id_length.
