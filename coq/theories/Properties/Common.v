(** Shared abbreviations for the property files: the model instantiated with the concrete prefix
    operations of [PrefixN] at width [w] and flavour [fl] — the very functions ([Inst.t_*]) that
    are extracted and run against the implementation. *)
From Coq Require Import List NArith ZArith.
From PT Require Export Bits BitsThm PrefixN Laws PrefixLaws Machine Trie Views SetOps Inst TrieWf History.
Import ListNotations.

Section C.
Variables (w : N) (fl : flavour).

(** the valid values of the prefix type: [len <= width], address below [2^width] *)
Definition okp (p : pfx) : Prop := valid w p = true.
(** the key a prefix denotes: its [len] leading bits *)
Definition kbits (p : pfx) : list bool := pbits w p.

Definition laws (Hw : (1 <= w)%N) :
  prefix_laws pfx (peq w) (contains w fl) (is_bit_set w) plen (lcp w fl) pzero (mcmp w) kbits okp :=
  pn_laws w fl Hw.

Variable V : Type.
(** a whole map is well-formed / a subtree is well-formed under a bound *)
Definition wfm (t : tree pfx V) : Prop := wf_root pfx V kbits okp t.
Definition wfu (b : list bool) (t : tree pfx V) : Prop := wf_under pfx V kbits okp b t.
Definition ekey (e : pfx * V) : list bool := kbits (fst e).

(** histories over the public mutator alphabet, on the concrete instance *)
Definition hop := History.op pfx V.
Definition hrun (ops : list hop) : pmap pfx V :=
  History.run pfx V (peq w) (contains w fl) (is_bit_set w) plen (lcp w fl) pzero ops.
Definition hop_ok (o : hop) : Prop := History.op_ok pfx V okp o.

(** every reachable state is well-formed (C15) — used by the other property files to discharge
    the well-formedness premise *)
Lemma reachable_wfm (Hw : (1 <= w)%N) ops : Forall hop_ok ops -> wfm (root (hrun ops)).
Proof.
  intros H. exact (proj1 (reachable_wf pfx V _ _ _ _ _ _ _ kbits okp (laws Hw) ops H)).
Qed.
End C.
