(** Refinement: after any history of public mutating calls the contents of the map are those of
    an abstract ordered association list, and every mutating call returns what the abstract map
    returns.  Keys are identified through [bits] only (the network part); the list stores the
    representation passed by the last inserting call. *)
From Coq Require Import List NArith ZArith Bool Arith Lia Sorted Permutation.
From PT Require Import Bits BitsThm Laws Machine Trie Views TrieWf Lookup Mutate Slots Retain Canon History.
Import ListNotations.

#[local] Arguments OInsert {pfx V}.
#[local] Arguments OEntryInsert {pfx V}.
#[local] Arguments OOrInsert {pfx V}.
#[local] Arguments OOccRemove {pfx V}.
#[local] Arguments OUpdate {pfx V}.
#[local] Arguments ORemove {pfx V}.
#[local] Arguments ORemoveKeepTree {pfx V}.
#[local] Arguments ORemoveChildren {pfx V}.
#[local] Arguments ORetain {pfx V}.
#[local] Arguments OClear {pfx V}.
#[local] Arguments OCollect {pfx V}.
#[local] Arguments OWrite {pfx V}.
#[local] Arguments OViewSet {pfx V}.
#[local] Arguments OViewRemove {pfx V}.

Section R.
Variables (pfx V : Type).
Variables (peq contains : pfx -> pfx -> bool) (is_bit_set : pfx -> N -> bool)
          (plen : pfx -> N) (lcp : pfx -> pfx -> pfx) (pzero : pfx)
          (mcmp : pfx -> pfx -> comparison).
Variable bits : pfx -> list bool.
Variable ok : pfx -> Prop.
Hypothesis LAWS : prefix_laws pfx peq contains is_bit_set plen lcp pzero mcmp bits ok.

Notation tree := (Trie.tree pfx V).
Notation pmap := (Trie.pmap pfx V).
Notation wf_under := (TrieWf.wf_under pfx V bits ok).
Notation wf_root := (TrieWf.wf_root pfx V bits ok).
Notation key := (TrieWf.key pfx V bits).
Notation key_lt := (TrieWf.key_lt pfx V bits).
Notation get := (Trie.get pfx V peq contains is_bit_set plen).
Notation get_key_value := (Trie.get_key_value pfx V peq contains is_bit_set plen).
Notation contains_key := (Trie.contains_key pfx V peq contains is_bit_set plen).
Notation insert := (Trie.insert pfx V peq contains is_bit_set plen lcp).
Notation vacant_insert := (Trie.vacant_insert pfx V peq contains is_bit_set plen lcp).
Notation occ_insert := (Trie.occ_insert pfx V peq contains is_bit_set plen).
Notation occ_remove := (Trie.occ_remove pfx V peq contains is_bit_set plen).
Notation update_value := (Trie.update_value pfx V peq contains is_bit_set plen).
Notation remove := (Trie.remove pfx V peq contains is_bit_set plen).
Notation remove_keep_tree := (Trie.remove_keep_tree pfx V peq contains is_bit_set plen).
Notation remove_children := (Trie.remove_children pfx V peq contains is_bit_set plen pzero).
Notation retain := (Trie.retain pfx V).
Notation clear := (Trie.clear pfx V pzero).
Notation empty := (Trie.empty pfx V pzero).
Notation from_list := (Trie.from_list pfx V peq contains is_bit_set plen lcp pzero).
Notation op := (History.op pfx V).
Notation step := (History.step pfx V peq contains is_bit_set plen lcp pzero).
Notation run := (History.run pfx V peq contains is_bit_set plen lcp pzero).
Notation op_ok := (History.op_ok pfx V ok).
Notation occupied := (History.occupied pfx V peq contains is_bit_set plen).

(* ---------------------------------------------------------------------------------------- *)
(** * The abstract ordered map *)

Definition amap := list (pfx * V).

Definition akey (e : pfx * V) : list bool := bits (fst e).

Definition a_get (A : amap) (q : pfx) : option V :=
  option_map snd (find (fun e => beq (akey e) (bits q)) A).
Definition a_without (A : amap) (q : pfx) : amap :=
  filter (fun e => negb (beq (akey e) (bits q))) A.
Definition a_insert (A : amap) (q : pfx) (x : V) : amap :=
  filter (fun e => lex_ltb (akey e) (bits q)) A ++ (q, x) :: filter (fun e => lex_ltb (bits q) (akey e)) A.
Definition a_update (A : amap) (q : pfx) (g : V -> V) : amap :=
  map (fun e => if beq (akey e) (bits q) then (fst e, g (snd e)) else e) A.
Definition a_remove_children (A : amap) (q : pfx) : amap :=
  filter (fun e => negb (is_prefix (bits q) (akey e))) A.
Definition a_retain (A : amap) (g : pfx -> V -> bool) : amap :=
  filter (fun e => g (fst e) (snd e)) A.

(** the verdict of a pure, total [retain] closure *)
Definition verdict (f : nat -> pfx -> V -> option bool) (p : pfx) (x : V) : bool :=
  match f 0 p x with Some true => true | _ => false end.

(** one abstract step and what the call returns (previous / removed / resident value) *)
Definition a_step (A : amap) (o : op) : amap * option V :=
  match o with
  | OInsert q x | OEntryInsert q x => (a_insert A q x, a_get A q)
  | OOrInsert q x => (match a_get A q with Some _ => A | None => a_insert A q x end,
                      Some (match a_get A q with Some y => y | None => x end))
  | OOccRemove q | ORemove q | ORemoveKeepTree q => (a_without A q, a_get A q)
  | OUpdate q g => (a_update A q g, a_get A q)
  | ORemoveChildren q => (a_remove_children A q, None)
  | ORetain f => (a_retain A (fun p x => match f 0 p x with Some true => true | _ => false end), None)
  | OClear => ([], None)
  | OCollect _ => (A, None)
  | _ => (A, None)
  end.

(** what the concrete call returns *)
Definition c_out (m : pmap) (o : op) : option V :=
  match o with
  | OInsert q x => snd (insert m q x)
  | OEntryInsert q x => if occupied m q then snd (occ_insert m q x) else None
  | OOrInsert q x => Some (match get (root m) q with Some y => y | None => x end)
  | OOccRemove q => if occupied m q then snd (occ_remove m q) else None
  | ORemove q => snd (remove m q)
  | ORemoveKeepTree q => snd (remove_keep_tree m q)
  | OUpdate q _ => get (root m) q
  | _ => None
  end.

(** the sub-alphabet covered by the refinement theorem *)
Definition refinable (o : op) : Prop :=
  op_ok o /\
  match o with
  | OWrite _ | OViewSet _ _ | OViewRemove _ => False
  | ORetain f => forall n p x, f n p x = f 0 p x /\ f n p x <> None
  | _ => True
  end.

Definition a_run (ops : list op) : amap := fold_left (fun A o => fst (a_step A o)) ops [].

Fixpoint c_outs (m : pmap) (ops : list op) : list (option V) :=
  match ops with
  | [] => []
  | o :: ops' => c_out m o :: c_outs (step m o) ops'
  end.

Fixpoint a_outs (A : amap) (ops : list op) : list (option V) :=
  match ops with
  | [] => []
  | o :: ops' => snd (a_step A o) :: a_outs (fst (a_step A o)) ops'
  end.

(* ---------------------------------------------------------------------------------------- *)
(** * Facts about the abstract operations (lists only) *)

Lemma akey_key e : akey e = key e.
Proof. reflexivity. Qed.

Lemma beq_key e q : beq (akey e) (bits q) = true <-> key e = bits q.
Proof. rewrite beq_spec. reflexivity. Qed.

Lemma beq_key_false e q : beq (akey e) (bits q) = false <-> key e <> bits q.
Proof.
  split.
  - intros H E. apply beq_key in E. congruence.
  - intros H. destruct (beq (akey e) (bits q)) eqn:E; [|reflexivity]. apply beq_key in E. contradiction.
Qed.

Lemma neq_lex (a b : list bool) : a <> b <-> lex_lt a b \/ lex_lt b a.
Proof.
  split.
  - intros H. destruct (lex_lt_total a b) as [E|[L|L]]; [contradiction | left; exact L | right; exact L].
  - intros [L|L] E; subst; eapply lex_lt_irrefl; exact L.
Qed.

Lemma in_a_insert A q x e :
  In e (a_insert A q x) <-> e = (q, x) \/ (In e A /\ key e <> bits q).
Proof.
  unfold a_insert. rewrite in_app_iff. cbn [In]. rewrite !filter_In, !lex_ltb_spec, neq_lex.
  change (akey e) with (key e). split.
  - intros [[H1 H2]|[H|[H1 H2]]]; auto.
  - intros [H|[H1 [H2|H2]]]; auto.
Qed.

Lemma in_a_without A q e : In e (a_without A q) <-> In e A /\ key e <> bits q.
Proof. unfold a_without. rewrite filter_In, nbeq_spec. reflexivity. Qed.

Lemma in_a_remove_children A q e :
  In e (a_remove_children A q) <-> In e A /\ ~ prefix_of (bits q) (key e).
Proof. unfold a_remove_children. rewrite filter_In, nprefix_spec. reflexivity. Qed.

Lemma in_a_retain A g e : In e (a_retain A g) <-> In e A /\ g (fst e) (snd e) = true.
Proof. unfold a_retain. rewrite filter_In. reflexivity. Qed.

Lemma in_a_update A q g e :
  In e (a_update A q g) <->
  (In e A /\ key e <> bits q) \/ (exists y, In (fst e, y) A /\ key e = bits q /\ snd e = g y).
Proof.
  unfold a_update. rewrite in_map_iff. split.
  - intros [e0 [H Hin]]. destruct (beq (akey e0) (bits q)) eqn:B.
    + apply beq_key in B. subst e. right. exists (snd e0). cbn [fst snd].
      rewrite <- surjective_pairing. auto.
    + apply beq_key_false in B. subst e. left. auto.
  - intros [[Hin Hne]|[y [Hin [Hk Hs]]]].
    + exists e. split; [|exact Hin]. apply beq_key_false in Hne. rewrite Hne. reflexivity.
    + exists (fst e, y). split; [|exact Hin].
      assert (B : beq (akey (fst e, y)) (bits q) = true) by (apply beq_key; exact Hk).
      rewrite B. cbn [fst snd]. rewrite <- Hs. symmetry. apply surjective_pairing.
Qed.

(** sortedness is preserved *)
Lemma sorted_a_insert A q x : StronglySorted key_lt A -> StronglySorted key_lt (a_insert A q x).
Proof.
  intros HA. unfold a_insert. apply (sorted_app pfx V bits).
  - apply (Mutate.sorted_filter pfx V bits). exact HA.
  - constructor; [apply (Mutate.sorted_filter pfx V bits); exact HA|].
    apply Forall_forall. intros e He. apply filter_In in He. destruct He as [_ He].
    apply lex_ltb_spec in He. exact He.
  - intros a b Ha Hb. apply filter_In in Ha. destruct Ha as [_ Ha]. apply lex_ltb_spec in Ha.
    unfold TrieWf.key_lt. change (akey a) with (key a) in Ha.
    destruct Hb as [<-|Hb]; [exact Ha|].
    apply filter_In in Hb. destruct Hb as [_ Hb]. apply lex_ltb_spec in Hb.
    eapply lex_lt_trans; [exact Ha | exact Hb].
Qed.

Lemma sorted_map_key (h : pfx * V -> pfx * V) (l : list (pfx * V)) :
  (forall e, key (h e) = key e) -> StronglySorted key_lt l -> StronglySorted key_lt (map h l).
Proof.
  intros Hh. induction l as [|a l IH]; intros Hs; cbn [map]; [constructor|].
  inversion Hs as [|? ? Hs' Hf]; subst. constructor; [apply IH; exact Hs'|].
  rewrite Forall_forall in *. intros e He. apply in_map_iff in He. destruct He as [e0 [<- He0]].
  unfold TrieWf.key_lt. rewrite !Hh. apply Hf. exact He0.
Qed.

Lemma sorted_a_update A q g : StronglySorted key_lt A -> StronglySorted key_lt (a_update A q g).
Proof.
  unfold a_update. apply sorted_map_key. intros e. destruct (beq (akey e) (bits q)); reflexivity.
Qed.

Lemma sorted_a_without A q : StronglySorted key_lt A -> StronglySorted key_lt (a_without A q).
Proof. apply (Mutate.sorted_filter pfx V bits). Qed.
Lemma sorted_a_remove_children A q : StronglySorted key_lt A -> StronglySorted key_lt (a_remove_children A q).
Proof. apply (Mutate.sorted_filter pfx V bits). Qed.
Lemma sorted_a_retain A g : StronglySorted key_lt A -> StronglySorted key_lt (a_retain A g).
Proof. apply (Mutate.sorted_filter pfx V bits). Qed.

(** every abstract step keeps the list strictly sorted *)
Lemma a_step_sorted A o : StronglySorted key_lt A -> StronglySorted key_lt (fst (a_step A o)).
Proof.
  intros HA. destruct o; cbn [a_step fst]; try exact HA.
  - apply sorted_a_insert; exact HA.
  - apply sorted_a_insert; exact HA.
  - destruct (a_get A q); [exact HA | apply sorted_a_insert; exact HA].
  - apply sorted_a_without; exact HA.
  - apply sorted_a_update; exact HA.
  - apply sorted_a_without; exact HA.
  - apply sorted_a_without; exact HA.
  - apply sorted_a_remove_children; exact HA.
  - apply sorted_a_retain; exact HA.
  - constructor.
Qed.

Theorem a_run_sorted ops : StronglySorted key_lt (a_run ops).
Proof.
  unfold a_run. assert (H0 : StronglySorted key_lt (@nil (pfx * V))) by constructor.
  revert H0. generalize (@nil (pfx * V)) as A.
  induction ops as [|o ops IH]; intros A HA; cbn [fold_left]; [exact HA|].
  apply IH. apply a_step_sorted. exact HA.
Qed.

(** lookups in a strictly sorted list *)
Lemma find_key_spec A q e :
  StronglySorted key_lt A ->
  (find (fun e => beq (akey e) (bits q)) A = Some e <-> In e A /\ key e = bits q).
Proof.
  intros HA. split.
  - intros H. apply find_some in H. destruct H as [H1 H2]. apply beq_key in H2. auto.
  - intros [Hin Hk]. destruct (find (fun e => beq (akey e) (bits q)) A) as [e'|] eqn:F.
    + apply find_some in F. destruct F as [F1 F2]. apply beq_key in F2. f_equal.
      apply (sorted_key_inj pfx V bits A); [exact HA | exact F1 | exact Hin | congruence].
    + exfalso. pose proof (find_none _ _ F e Hin) as N. cbn beta in N.
      apply beq_key_false in N. contradiction.
Qed.

Lemma a_get_spec A q x :
  StronglySorted key_lt A ->
  (a_get A q = Some x <-> exists p, In (p, x) A /\ bits p = bits q).
Proof.
  intros HA. unfold a_get. split.
  - destruct (find (fun e => beq (akey e) (bits q)) A) as [e|] eqn:F; [|discriminate].
    cbn [option_map]. intros H. inversion H; subst. apply (find_key_spec A q e HA) in F.
    destruct F as [F1 F2]. exists (fst e). rewrite <- surjective_pairing. auto.
  - intros [p [Hin Hk]]. assert (F : find (fun e => beq (akey e) (bits q)) A = Some (p, x)).
    { apply find_key_spec; [exact HA|]. auto. }
    rewrite F. reflexivity.
Qed.

Lemma option_ext {X} (o1 o2 : option X) : (forall x, o1 = Some x <-> o2 = Some x) -> o1 = o2.
Proof.
  intros H. destruct o1 as [x|].
  - symmetry. apply H. reflexivity.
  - destruct o2 as [y|]; [|reflexivity]. apply H. reflexivity.
Qed.

Lemma a_get_none A q : a_get A q = None <-> forall e, In e A -> key e <> bits q.
Proof.
  unfold a_get. split.
  - destruct (find (fun e => beq (akey e) (bits q)) A) as [e|] eqn:F; [discriminate|].
    intros _ e Hin. apply beq_key_false. apply (find_none _ _ F e Hin).
  - intros H. destruct (find (fun e => beq (akey e) (bits q)) A) as [e|] eqn:F; [|reflexivity].
    exfalso. apply find_some in F. destruct F as [F1 F2]. apply beq_key in F2. apply (H e F1 F2).
Qed.

(* ---------------------------------------------------------------------------------------- *)
(** * Observers on a well-formed map *)

Lemma wf_root_under (t : tree) : wf_root t -> wf_under [] t.
Proof. intros H. exact (proj1 (wf_root_inv pfx V pzero bits ok t pzero H)). Qed.

Lemma wf_sorted (t : tree) : wf_root t -> StronglySorted key_lt (entries t).
Proof. apply (wf_root_sorted pfx V pzero bits ok). Qed.

Lemma get_refines (t : tree) q : wf_root t -> ok q -> get t q = a_get (entries t) q.
Proof.
  intros Hr Hq. destruct (wf_root_inv pfx V pzero bits ok t q Hr) as [Hwf [Hrc _]].
  apply option_ext. intros x. rewrite (a_get_spec (entries t) q x (wf_sorted t Hr)).
  eapply get_spec; eauto.
Qed.

Lemma get_key_value_refines (t : tree) q :
  wf_root t -> ok q -> get_key_value t q = find (fun e => beq (akey e) (bits q)) (entries t).
Proof.
  intros Hr Hq. destruct (wf_root_inv pfx V pzero bits ok t q Hr) as [Hwf [Hrc _]].
  apply option_ext. intros [p x]. rewrite (find_key_spec (entries t) q (p, x) (wf_sorted t Hr)).
  eapply get_key_value_spec; eauto.
Qed.

Lemma contains_key_refines (t : tree) q :
  wf_root t -> ok q -> (contains_key t q = true <-> a_get (entries t) q <> None).
Proof.
  intros Hr Hq. destruct (wf_root_inv pfx V pzero bits ok t q Hr) as [Hwf [Hrc _]].
  rewrite (contains_key_spec pfx V peq contains is_bit_set plen lcp pzero mcmp bits ok LAWS [] t q Hwf Hq Hrc).
  split.
  - intros [e [Hin Hk]] N. rewrite a_get_none in N. apply (N e Hin Hk).
  - intros N. destruct (a_get (entries t) q) as [x|] eqn:G; [|congruence].
    apply (a_get_spec (entries t) q x (wf_sorted t Hr)) in G. destruct G as [p [Hin Hk]].
    exists (p, x). auto.
Qed.

(* ---------------------------------------------------------------------------------------- *)
(** * One step *)

Lemma ext_to (t : tree) (A : amap) :
  wf_root t -> StronglySorted key_lt A -> (forall e, In e (entries t) <-> In e A) -> entries t = A.
Proof. apply (entries_ext pfx V pzero bits ok). Qed.

Lemma a_without_absent A q : StronglySorted key_lt A -> a_get A q = None -> a_without A q = A.
Proof.
  intros HA N. rewrite a_get_none in N. apply (sorted_ext pfx V bits); [apply sorted_a_without; exact HA | exact HA|].
  intros e. rewrite in_a_without. split; [tauto|]. intros H. split; [exact H | apply N; exact H].
Qed.

Lemma insert_refines m q x :
  wf_root (root m) -> ok q ->
  entries (root (fst (insert m q x))) = a_insert (entries (root m)) q x /\
  snd (insert m q x) = a_get (entries (root m)) q.
Proof.
  intros Hr Hq. destruct (insert m q x) as [m' o] eqn:E. cbn [fst snd].
  destruct (insert_spec pfx V peq contains is_bit_set plen lcp pzero mcmp bits ok LAWS m q x m' o Hr Hq E)
    as [P1 [P2 P3]].
  split; [|rewrite P3; apply get_refines; assumption].
  apply ext_to; [exact P1 | apply sorted_a_insert; apply wf_sorted; exact Hr|].
  intros e. rewrite P2, in_a_insert. reflexivity.
Qed.

Lemma vacant_insert_refines m q x :
  wf_root (root m) -> ok q ->
  entries (root (vacant_insert m q x)) = a_insert (entries (root m)) q x.
Proof.
  intros Hr Hq.
  destruct (vacant_insert_spec pfx V peq contains is_bit_set plen lcp pzero mcmp bits ok LAWS m q x Hr Hq)
    as [P1 P2].
  apply ext_to; [exact P1 | apply sorted_a_insert; apply wf_sorted; exact Hr|].
  intros e. rewrite P2, in_a_insert. reflexivity.
Qed.

Lemma occ_insert_refines m q x y :
  wf_root (root m) -> ok q -> get (root m) q = Some y ->
  entries (root (fst (occ_insert m q x))) = a_insert (entries (root m)) q x /\
  snd (occ_insert m q x) = Some y.
Proof.
  intros Hr Hq G. destruct (occ_insert m q x) as [m' o] eqn:E. cbn [fst snd].
  destruct (occ_insert_spec pfx V peq contains is_bit_set plen lcp pzero mcmp bits ok LAWS m q x y m' o Hr Hq G E)
    as [P1 [P2 [P3 _]]].
  split; [|exact P3].
  apply ext_to; [exact P1 | apply sorted_a_insert; apply wf_sorted; exact Hr|].
  intros e. rewrite P2, in_a_insert. reflexivity.
Qed.

Lemma remove_refines2 m q :
  wf_root (root m) -> ok q ->
  entries (root (fst (remove m q))) = a_without (entries (root m)) q /\
  snd (remove m q) = a_get (entries (root m)) q.
Proof.
  intros Hr Hq. destruct (remove m q) as [m' o] eqn:E. cbn [fst snd].
  destruct (remove_spec pfx V peq contains is_bit_set plen lcp pzero mcmp bits ok LAWS m q m' o Hr Hq E)
    as [P1 [P2 P3]].
  split; [|rewrite P3; apply get_refines; assumption].
  apply ext_to; [exact P1 | apply sorted_a_without; apply wf_sorted; exact Hr|].
  intros e. rewrite P2, in_a_without. reflexivity.
Qed.

Lemma remove_keep_tree_refines2 m q :
  wf_root (root m) -> ok q ->
  entries (root (fst (remove_keep_tree m q))) = a_without (entries (root m)) q /\
  snd (remove_keep_tree m q) = a_get (entries (root m)) q.
Proof.
  intros Hr Hq. destruct (remove_keep_tree m q) as [m' o] eqn:E. cbn [fst snd].
  destruct (remove_keep_tree_spec pfx V peq contains is_bit_set plen lcp pzero mcmp bits ok LAWS m q m' o Hr Hq E)
    as [P1 [P2 [P3 _]]].
  split; [|rewrite P3; apply get_refines; assumption].
  apply ext_to; [exact P1 | apply sorted_a_without; apply wf_sorted; exact Hr|].
  intros e. rewrite P2, in_a_without. reflexivity.
Qed.

Lemma occ_remove_refines2 m q :
  wf_root (root m) -> ok q ->
  entries (root (fst (occ_remove m q))) = a_without (entries (root m)) q /\
  snd (occ_remove m q) = a_get (entries (root m)) q.
Proof. exact (remove_keep_tree_refines2 m q). Qed.

Lemma update_refines m q g :
  wf_root (root m) -> ok q ->
  entries (root (update_value m q g)) = a_update (entries (root m)) q g.
Proof.
  intros Hr Hq.
  destruct (update_value_spec pfx V peq contains is_bit_set plen lcp pzero mcmp bits ok LAWS m q g Hr Hq)
    as [P1 [P2 _]].
  apply ext_to; [exact P1 | apply sorted_a_update; apply wf_sorted; exact Hr|].
  intros e. rewrite P2, in_a_update. reflexivity.
Qed.

Lemma remove_children_refines2 m q :
  wf_root (root m) -> ok q ->
  entries (root (remove_children m q)) = a_remove_children (entries (root m)) q.
Proof.
  intros Hr Hq.
  destruct (remove_children_spec pfx V peq contains is_bit_set plen lcp pzero mcmp bits ok LAWS m q Hr Hq)
    as [P1 P2].
  apply ext_to; [exact P1 | apply sorted_a_remove_children; apply wf_sorted; exact Hr|].
  intros e. rewrite P2, in_a_remove_children. reflexivity.
Qed.

Lemma retain_refines (f : nat -> pfx -> V -> option bool) m :
  wf_root (root m) -> (forall n p x, f n p x = f 0 p x /\ f n p x <> None) ->
  entries (root (fst (fst (retain f m)))) = a_retain (entries (root m)) (verdict f).
Proof.
  intros Hr Hpure. destruct (retain f m) as [[m' pn] calls] eqn:E. cbn [fst].
  assert (Hf : forall n p x c, f n p x = Some c -> c = verdict f p x).
  { intros n p x c H. unfold verdict. rewrite <- (proj1 (Hpure n p x)), H. destruct c; reflexivity. }
  destruct (retain_spec pfx V bits ok f (verdict f) Hf m m' pn calls Hr E)
    as [_ [_ [_ [_ [_ [Pdone Ppan]]]]]].
  destruct pn.
  - exfalso. destruct (Ppan eq_refl) as [e [_ [_ N]]]. apply (proj2 (Hpure (length calls) (fst e) (snd e))). exact N.
  - destruct (Pdone eq_refl) as [P _]. rewrite P. reflexivity.
Qed.

Lemma sorted_NoDup_keys (l : list (pfx * V)) : StronglySorted key_lt l -> NoDup (map akey l).
Proof.
  induction l as [|a l IH]; intros Hs; cbn [map]; [constructor|].
  inversion Hs as [|? ? Hs' Hf]; subst. constructor; [|apply IH; exact Hs'].
  rewrite Forall_forall in Hf. intros Hin. apply in_map_iff in Hin. destruct Hin as [e [Ek He]].
  specialize (Hf e He). unfold TrieWf.key_lt in Hf. change (akey e) with (key e) in Ek.
  change (akey a) with (key a) in Ek. rewrite Ek in Hf. eapply lex_lt_irrefl; exact Hf.
Qed.

Lemma sorted_NoDup (l : list (pfx * V)) : StronglySorted key_lt l -> NoDup l.
Proof. intros Hs. apply (NoDup_map_inv akey). apply sorted_NoDup_keys. exact Hs. Qed.

Lemma collect_refines (perm : list (pfx * V) -> list (pfx * V)) m :
  wf_root (root m) -> (forall l, Permutation (perm l) l) ->
  entries (root (from_list (perm (entries (root m))))) = entries (root m).
Proof.
  intros Hr Hp. set (E := entries (root m)). pose proof (Hp E) as HP.
  assert (Hok : forall e, In e (perm E) -> ok (fst e)).
  { intros e He. eapply (entries_ok pfx V bits ok); [apply wf_root_under; exact Hr|].
    eapply Permutation_in; [exact HP | exact He]. }
  destruct (from_list_spec pfx V peq contains is_bit_set plen lcp pzero mcmp bits ok LAWS (perm E) Hok)
    as [P1 P2].
  assert (HsE : StronglySorted key_lt E) by (apply wf_sorted; exact Hr).
  assert (Hnd : NoDup (perm E)).
  { eapply Permutation_NoDup; [apply Permutation_sym; exact HP | apply sorted_NoDup; exact HsE]. }
  apply ext_to; [exact P1 | exact HsE|].
  intros e. rewrite P2. split.
  - intros [l1 [l2 [El _]]]. eapply Permutation_in; [exact HP|]. rewrite El. apply in_elt.
  - intros He. assert (He' : In e (perm E)) by (eapply Permutation_in; [apply Permutation_sym; exact HP | exact He]).
    apply in_split in He'. destruct He' as [l1 [l2 El]]. exists l1, l2. split; [exact El|].
    intros e' He' Ek. rewrite El in Hnd. apply NoDup_remove_2 in Hnd. apply Hnd.
    assert (e' = e).
    { apply (sorted_key_inj pfx V bits E); [exact HsE | | exact He | exact Ek].
      eapply Permutation_in; [exact HP|]. rewrite El. apply in_or_app. right. right. exact He'. }
    subst e'. apply in_or_app. right. exact He'.
Qed.

(** MAIN THEOREM 1: every refinable call transforms the entry list as the abstract map and
    returns what the abstract map returns *)
Theorem step_refines m o :
  wf_root (root m) -> refinable o ->
  entries (root (step m o)) = fst (a_step (entries (root m)) o) /\
  c_out m o = snd (a_step (entries (root m)) o).
Proof.
  intros Hr [Hok Href]. pose proof (wf_sorted _ Hr) as HsA.
  destruct o; cbn [step a_step c_out fst snd History.op_ok] in *; try contradiction.
  - (* insert *) apply insert_refines; assumption.
  - (* entry(q).insert(x) *)
    unfold History.occupied. rewrite <- (get_refines (root m) q Hr Hok).
    destruct (get (root m) q) as [y|] eqn:G.
    + apply occ_insert_refines; assumption.
    + split; [apply vacant_insert_refines; assumption | reflexivity].
  - (* or_insert *)
    unfold History.occupied. rewrite <- (get_refines (root m) q Hr Hok).
    destruct (get (root m) q) as [y|] eqn:G.
    + split; reflexivity.
    + split; [apply vacant_insert_refines; assumption | reflexivity].
  - (* OccupiedEntry::remove *)
    unfold History.occupied.
    destruct (get (root m) q) as [y|] eqn:G.
    + apply occ_remove_refines2; assumption.
    + rewrite (get_refines (root m) q Hr Hok) in G. rewrite G. split; [|reflexivity].
      symmetry. apply a_without_absent; assumption.
  - (* update *)
    split; [apply update_refines; assumption | apply get_refines; assumption].
  - (* remove *) apply remove_refines2; assumption.
  - (* remove_keep_tree *) apply remove_keep_tree_refines2; assumption.
  - (* remove_children *) split; [apply remove_children_refines2; assumption | reflexivity].
  - (* retain *) split; [apply retain_refines; assumption | reflexivity].
  - (* clear *) split; reflexivity.
  - (* collect *) split; [apply collect_refines; assumption | reflexivity].
Qed.

(* ---------------------------------------------------------------------------------------- *)
(** * Whole histories *)

Lemma refinable_ok o : refinable o -> op_ok o.
Proof. intros [H _]. exact H. Qed.

Lemma Forall_refinable_ok ops : Forall refinable ops -> Forall op_ok ops.
Proof. apply Forall_impl. exact refinable_ok. Qed.

Lemma fold_refines ops : forall m A,
  wf_root (root m) -> entries (root m) = A -> Forall refinable ops ->
  entries (root (fold_left step ops m)) = fold_left (fun A o => fst (a_step A o)) ops A /\
  c_outs m ops = a_outs A ops.
Proof.
  induction ops as [|o ops IH]; intros m A Hr EA Hall; cbn [fold_left c_outs a_outs].
  - split; [exact EA | reflexivity].
  - inversion Hall as [|? ? Ho Hops]; subst.
    destruct (step_refines m o Hr Ho) as [S1 S2].
    assert (Hr' : wf_root (root (step m o))).
    { apply (step_wf pfx V peq contains is_bit_set plen lcp pzero mcmp bits ok LAWS); [apply refinable_ok; exact Ho | exact Hr]. }
    destruct (IH (step m o) (fst (a_step (entries (root m)) o)) Hr' S1 Hops) as [I1 I2].
    split; [exact I1|]. rewrite S2, I2. reflexivity.
Qed.

Lemma empty_wf : wf_root (root empty).
Proof. exact (proj1 (empty_spec pfx V peq contains is_bit_set plen lcp pzero mcmp bits ok LAWS)). Qed.

(** MAIN THEOREM 2: the contents after any refinable history are those of the abstract map ... *)
Theorem run_refines ops : Forall refinable ops -> entries (root (run ops)) = a_run ops.
Proof.
  intros Hall. unfold History.run, a_run.
  apply (fold_refines ops empty [] empty_wf eq_refl Hall).
Qed.

(** ... and every call of the history returned what the abstract map returns *)
Theorem outs_refine ops : Forall refinable ops -> c_outs empty ops = a_outs [] ops.
Proof. intros Hall. apply (fold_refines ops empty [] empty_wf eq_refl Hall). Qed.

(** the same after every step: every prefix of a refinable history is a refinable history *)
Corollary run_refines_every_step ops1 ops2 :
  Forall refinable (ops1 ++ ops2) ->
  entries (root (run ops1)) = a_run ops1 /\
  entries (root (run (ops1 ++ ops2))) = fold_left (fun A o => fst (a_step A o)) ops2 (a_run ops1) /\
  c_outs empty (ops1 ++ ops2) = a_outs [] ops1 ++ a_outs (a_run ops1) ops2.
Proof.
  intros Hall. pose proof Hall as Hall'. apply Forall_app in Hall'. destruct Hall' as [H1 H2].
  split; [apply run_refines; exact H1|]. split.
  - rewrite (run_refines _ Hall). unfold a_run. apply fold_left_app.
  - rewrite (outs_refine _ Hall). unfold a_run. generalize (@nil (pfx * V)) as A.
    clear. induction ops1 as [|o ops1 IH]; intros A; cbn [app a_outs fold_left]; [reflexivity|].
    rewrite IH. reflexivity.
Qed.

(** the step from any reachable state *)
Corollary reachable_step_refines ops o :
  Forall refinable ops -> refinable o ->
  entries (root (step (run ops) o)) = fst (a_step (a_run ops) o) /\
  c_out (run ops) o = snd (a_step (a_run ops) o).
Proof.
  intros Hall Ho. rewrite <- (run_refines ops Hall). apply step_refines; [|exact Ho].
  apply (reachable_wf pfx V peq contains is_bit_set plen lcp pzero mcmp bits ok LAWS).
  apply Forall_refinable_ok. exact Hall.
Qed.

(* ---------------------------------------------------------------------------------------- *)
(** * Observers on every reachable state, for every valid query *)

Lemma run_wf ops : Forall refinable ops -> wf_root (root (run ops)).
Proof.
  intros Hall. apply (reachable_wf pfx V peq contains is_bit_set plen lcp pzero mcmp bits ok LAWS).
  apply Forall_refinable_ok. exact Hall.
Qed.

(** MAIN THEOREM 3 *)
Theorem get_run_refines ops q :
  Forall refinable ops -> ok q -> get (root (run ops)) q = a_get (a_run ops) q.
Proof.
  intros Hall Hq. rewrite <- (run_refines ops Hall). apply get_refines; [apply run_wf; exact Hall | exact Hq].
Qed.

Theorem get_key_value_run_refines ops q :
  Forall refinable ops -> ok q ->
  get_key_value (root (run ops)) q = find (fun e => beq (akey e) (bits q)) (a_run ops).
Proof.
  intros Hall Hq. rewrite <- (run_refines ops Hall).
  apply get_key_value_refines; [apply run_wf; exact Hall | exact Hq].
Qed.

Theorem contains_key_run_refines ops q :
  Forall refinable ops -> ok q ->
  (contains_key (root (run ops)) q = true <-> a_get (a_run ops) q <> None).
Proof.
  intros Hall Hq. rewrite <- (run_refines ops Hall).
  apply contains_key_refines; [apply run_wf; exact Hall | exact Hq].
Qed.

(* ---------------------------------------------------------------------------------------- *)
(** * Keys are identified by their network part; the stored representation is the last inserted *)

(** (a) no key is stored twice (any history over the whole alphabet of the abstract map) *)
Theorem a_run_keys_NoDup ops : NoDup (map akey (a_run ops)).
Proof. apply sorted_NoDup_keys. apply a_run_sorted. Qed.

(** (b) the abstract operations only look at [bits q]: two representations of the same key act
    identically, except that [insert] stores the representation it was given *)
Theorem key_only A q q' :
  bits q = bits q' ->
  a_get A q = a_get A q' /\
  find (fun e => beq (akey e) (bits q)) A = find (fun e => beq (akey e) (bits q')) A /\
  a_without A q = a_without A q' /\
  a_remove_children A q = a_remove_children A q' /\
  (forall g, a_update A q g = a_update A q' g) /\
  (forall x,
     snd (a_step A (OInsert q x)) = snd (a_step A (OInsert q' x)) /\
     map akey (fst (a_step A (OInsert q x))) = map akey (fst (a_step A (OInsert q' x))) /\
     map snd (fst (a_step A (OInsert q x))) = map snd (fst (a_step A (OInsert q' x))) /\
     exists A1 A2,
       fst (a_step A (OInsert q x)) = A1 ++ (q, x) :: A2 /\
       fst (a_step A (OInsert q' x)) = A1 ++ (q', x) :: A2 /\
       (forall e, In e A1 \/ In e A2 -> In e A /\ akey e <> bits q)).
Proof.
  intros E. unfold a_get, a_without, a_remove_children, a_update. cbn [a_step fst snd].
  unfold a_get, a_insert. rewrite <- E.
  split; [reflexivity|]. split; [reflexivity|]. split; [reflexivity|]. split; [reflexivity|].
  split; [reflexivity|]. intros x. split; [reflexivity|].
  split; [rewrite !map_app; cbn [map]; do 2 f_equal; exact E|].
  split; [rewrite !map_app; reflexivity|].
  exists (filter (fun e => lex_ltb (akey e) (bits q)) A), (filter (fun e => lex_ltb (bits q) (akey e)) A).
  split; [reflexivity|]. split; [reflexivity|].
  intros e [H|H]; apply filter_In in H; destruct H as [H1 H2]; apply lex_ltb_spec in H2;
    (split; [exact H1|]); intros Ek; rewrite Ek in H2; eapply lex_lt_irrefl; exact H2.
Qed.

(** all steps of the abstract map agree on two representations of the same key, up to the stored
    representation of the inserted entry *)
Corollary key_only_outputs A q q' :
  bits q = bits q' ->
  (forall x, snd (a_step A (OInsert q x)) = snd (a_step A (OInsert q' x))) /\
  (forall x, snd (a_step A (OEntryInsert q x)) = snd (a_step A (OEntryInsert q' x))) /\
  (forall x, snd (a_step A (OOrInsert q x)) = snd (a_step A (OOrInsert q' x))) /\
  a_step A (OOccRemove q) = a_step A (OOccRemove q') /\
  a_step A (ORemove q) = a_step A (ORemove q') /\
  a_step A (ORemoveKeepTree q) = a_step A (ORemoveKeepTree q') /\
  a_step A (ORemoveChildren q) = a_step A (ORemoveChildren q') /\
  (forall g, a_step A (OUpdate q g) = a_step A (OUpdate q' g)).
Proof.
  intros E. destruct (key_only A q q' E) as [K1 [_ [K2 [K3 [K4 _]]]]].
  cbn [a_step fst snd]. rewrite K1, K2, K3.
  repeat split; try reflexivity. intros g. rewrite K4. reflexivity.
Qed.

(** (c) no operation other than an insertion changes the stored representation of an entry *)
Theorem repr_stable A :
  (forall q e, In e (a_without A q) -> In e A) /\
  (forall q e, In e (a_remove_children A q) -> In e A) /\
  (forall g e, In e (a_retain A g) -> In e A) /\
  (forall q g e, In e (a_update A q g) -> exists e0, In e0 A /\ fst e = fst e0) /\
  (forall q x e, In e (a_insert A q x) -> e = (q, x) \/ (In e A /\ akey e <> bits q)).
Proof.
  split; [|split; [|split; [|split]]].
  - intros q e H. apply in_a_without in H. tauto.
  - intros q e H. apply in_a_remove_children in H. tauto.
  - intros g e H. apply in_a_retain in H. tauto.
  - intros q g e H. apply in_a_update in H. destruct H as [[H _]|[y [H _]]].
    + exists e. auto.
    + exists (fst e, y). auto.
  - intros q x e H. apply in_a_insert in H. exact H.
Qed.

(** an insertion stores the representation it was given: any representation of the same key
    finds it afterwards *)
Theorem a_insert_stores A q q' x :
  StronglySorted key_lt A -> bits q' = bits q ->
  find (fun e => beq (akey e) (bits q')) (a_insert A q x) = Some (q, x) /\
  a_get (a_insert A q x) q' = Some x.
Proof.
  intros HA E.
  assert (F : find (fun e => beq (akey e) (bits q')) (a_insert A q x) = Some (q, x)).
  { apply find_key_spec; [apply sorted_a_insert; exact HA|]. split; [|symmetry; exact E].
    apply in_a_insert. left. reflexivity. }
  split; [exact F|]. unfold a_get. rewrite F. reflexivity.
Qed.

(** the output recorded for [or_insert] is the value found at [q] after the call (what the
    returned reference points to) *)
Lemma or_insert_out m q x :
  wf_root (root m) -> ok q ->
  get (root (step m (OOrInsert q x))) q = c_out m (OOrInsert q x).
Proof.
  intros Hr Hq. assert (Ho : refinable (OOrInsert q x)) by (split; [exact Hq | exact I]).
  destruct (step_refines m _ Hr Ho) as [S1 _].
  assert (Hr' : wf_root (root (step m (OOrInsert q x)))).
  { apply (step_wf pfx V peq contains is_bit_set plen lcp pzero mcmp bits ok LAWS); [exact Hq | exact Hr]. }
  rewrite (get_refines _ q Hr' Hq), S1. cbn [a_step fst c_out].
  rewrite (get_refines (root m) q Hr Hq).
  destruct (a_get (entries (root m)) q) as [y|] eqn:G; [exact G|].
  apply a_insert_stores; [apply wf_sorted; exact Hr | reflexivity].
Qed.

(** the concrete map: after [insert q x] on a reachable state, looking up any representation [q']
    of the same key returns the representation [q] passed to [insert] *)
Corollary insert_stores_repr ops q q' x :
  Forall refinable ops -> ok q -> ok q' -> bits q' = bits q ->
  get_key_value (root (step (run ops) (OInsert q x))) q' = Some (q, x).
Proof.
  intros Hall Hq Hq' E.
  assert (Hall' : Forall refinable (ops ++ [OInsert q x])).
  { apply Forall_app. split; [exact Hall|]. constructor; [|constructor]. split; [exact Hq | exact I]. }
  pose proof (get_key_value_run_refines _ q' Hall' Hq') as G.
  unfold History.run in G. rewrite fold_left_app in G. cbn [fold_left] in G.
  unfold History.run. rewrite G. unfold a_run. rewrite fold_left_app. cbn [fold_left a_step fst].
  apply a_insert_stores; [apply a_run_sorted | exact E].
Qed.

End R.

Print Assumptions step_refines.
Print Assumptions run_refines.
Print Assumptions outs_refine.
Print Assumptions run_refines_every_step.
Print Assumptions reachable_step_refines.
Print Assumptions get_run_refines.
Print Assumptions get_key_value_run_refines.
Print Assumptions contains_key_run_refines.
Print Assumptions a_run_sorted.
Print Assumptions a_run_keys_NoDup.
Print Assumptions key_only.
Print Assumptions key_only_outputs.
Print Assumptions repr_stable.
Print Assumptions a_insert_stores.
Print Assumptions insert_stores_repr.
Print Assumptions or_insert_out.
