(** Refinement over the FULL mutator alphabet of [History.op].

    [Refine.v] proves that the contents of the map refine an abstract ordered association list for
    the key-addressed calls.  The three remaining operations address their target not by a key
    but by a designator into the concrete state: [OWrite ws] by slot numbers (the references handed
    out by a mutable traversal), [OViewSet pa x] / [OViewRemove pa] by a path to a node (the
    location of a [TrieViewMut]).  A designator has no meaning in an abstract map; its meaning is
    the KEY of the entry / node it designates in the state in which it is used.  [resolve m o]
    performs exactly that translation (it inspects the concrete state [m] only through
    [entries_id (root m)] for writes and through the node [subtree (root m) pa] for views) and
    yields a key-addressed abstract operation [xop]:

      - [OWrite ws]        |->  [XWrite kw]: set the values of the entries whose keys are in [kw]
                                 ([kw] = the (stored prefix, new value) of every entry whose slot is in [ws]);
      - [OViewSet pa x]    |->  [insert p x] where [p] is the prefix stored at the node (the value is
                                 replaced, or an entry with the node's existing prefix is created;
                                 returns the previous value); nothing if the path ends in a [Leaf];
      - [OViewRemove pa]   |->  [remove_keep_tree p] if the node holds a value (returns it);
                                 nothing otherwise;
      - every other call   |->  itself.

    MAIN THEOREMS: [step_refines_full] (one step, any well-formed state), [run_refines_full],
    [outs_refine_full] (whole histories over the complete alphabet), the observers on every
    reachable state, and the facts about keys and stored representations used by C18. *)
From Coq Require Import List NArith ZArith Bool Arith Lia Sorted Permutation.
From PT Require Import Bits BitsThm Laws Machine Trie Views TrieWf Lookup Lookup2 Mutate Slots Retain Canon History MutTrav Refine.
Import ListNotations.

#[local] Arguments OInsert {pfx V}.
#[local] Arguments OEntryInsert {pfx V}.
#[local] Arguments OOrInsert {pfx V}.
#[local] Arguments OOccRemove {pfx V}.
#[local] Arguments OUpdate {pfx V}.
#[local] Arguments ORemove {pfx V}.
#[local] Arguments ORemoveKeepTree {pfx V}.
#[local] Arguments ORemoveChildren {pfx V}.
#[local] Arguments ORetain {pfx V}.
#[local] Arguments OClear {pfx V}.
#[local] Arguments OCollect {pfx V}.
#[local] Arguments OWrite {pfx V}.
#[local] Arguments OViewSet {pfx V}.
#[local] Arguments OViewRemove {pfx V}.

Section R2.
Variables (pfx V : Type).
Variables (peq contains : pfx -> pfx -> bool) (is_bit_set : pfx -> N -> bool)
          (plen : pfx -> N) (lcp : pfx -> pfx -> pfx) (pzero : pfx)
          (mcmp : pfx -> pfx -> comparison).
Variable bits : pfx -> list bool.
Variable ok : pfx -> Prop.
Hypothesis LAWS : prefix_laws pfx peq contains is_bit_set plen lcp pzero mcmp bits ok.

Notation tree := (Trie.tree pfx V).
Notation pmap := (Trie.pmap pfx V).
Notation wf_root := (TrieWf.wf_root pfx V bits ok).
Notation key := (TrieWf.key pfx V bits).
Notation key_lt := (TrieWf.key_lt pfx V bits).
Notation get := (Trie.get pfx V peq contains is_bit_set plen).
Notation get_key_value := (Trie.get_key_value pfx V peq contains is_bit_set plen).
Notation contains_key := (Trie.contains_key pfx V peq contains is_bit_set plen).
Notation entry := (Trie.entry pfx V peq contains is_bit_set plen).
Notation h_get := (Trie.h_get pfx V peq contains is_bit_set plen).
Notation h_key := (Trie.h_key pfx V peq contains is_bit_set plen).
Notation empty := (Trie.empty pfx V pzero).
Notation op := (History.op pfx V).
Notation step := (History.step pfx V peq contains is_bit_set plen lcp pzero).
Notation run := (History.run pfx V peq contains is_bit_set plen lcp pzero).
Notation op_ok := (History.op_ok pfx V ok).
Notation amap := (Refine.amap pfx V).
Notation akey := (Refine.akey pfx V bits).
Notation a_get := (Refine.a_get pfx V bits).
Notation a_insert := (Refine.a_insert pfx V bits).
Notation a_without := (Refine.a_without pfx V bits).
Notation a_update := (Refine.a_update pfx V bits).
Notation a_remove_children := (Refine.a_remove_children pfx V bits).
Notation a_retain := (Refine.a_retain pfx V).
Notation a_step := (Refine.a_step pfx V bits).
Notation a_run := (Refine.a_run pfx V bits).
Notation c_out := (Refine.c_out pfx V peq contains is_bit_set plen lcp).
Notation refinable := (Refine.refinable pfx V ok).
Notation drop_id := (Lookup2.drop_id pfx V).
Notation own_id := (MutTrav.own_id pfx V).
Notation mkvmut := (Views.mkvmut pfx).

Local Ltac LW := exact LAWS.

(* ---------------------------------------------------------------------------------------- *)
(** * The key-addressed abstract alphabet and the resolution of designators *)

(** write the value [y] to the entry with the key of [p], for every [(p, y)] of [kw]
    (first match wins); every other entry, every stored prefix and the order are unchanged *)
Definition a_write (A : amap) (kw : amap) : amap :=
  map (fun e => match a_get kw (fst e) with Some y => (fst e, y) | None => e end) A.

Inductive xop :=
| XBase (o : op)          (* a key-addressed call of [Refine.a_step] *)
| XWrite (kw : amap)      (* writes through references, by key *)
| XSkip.                  (* no effect *)

Definition x_step (A : amap) (xo : xop) : amap * option V :=
  match xo with
  | XBase o => a_step A o
  | XWrite kw => (a_write A kw, None)
  | XSkip => (A, None)
  end.

(** the (stored prefix, new value) pairs of the entries whose slot is written *)
Definition kw1 (ws : list (N * V)) (e : N * pfx * V) : amap :=
  let '(i, p, _) := e in match assoc_id ws i with Some y => [(p, y)] | None => [] end.
Definition key_writes (t : tree) (ws : list (N * V)) : amap := flat_map (kw1 ws) (entries_id t).

(** what a designator means in the state [m] *)
Definition resolve (m : pmap) (o : op) : xop :=
  match o with
  | OWrite ws => XWrite (key_writes (root m) ws)
  | OViewSet pa x =>
    match subtree (root m) pa with
    | Node _ p _ _ _ => XBase (OInsert p x)
    | Leaf => XSkip
    end
  | OViewRemove pa =>
    match subtree (root m) pa with
    | Node _ p (Some _) _ _ => XBase (ORemoveKeepTree p)
    | _ => XSkip
    end
  | _ => XBase o
  end.

(** what the concrete call returns: [Refine.c_out], plus the previous value returned by
    [TrieViewMut::set] ([Ok(old)]) and the value returned by [TrieViewMut::remove] *)
Definition c_out_full (m : pmap) (o : op) : option V :=
  match o with
  | OViewSet pa x =>
    match snd (vm_set (root m) (mkvmut pa None) x) with inl v => v | inr _ => None end
  | OViewRemove pa => snd (vm_remove (root m) (mkvmut pa None))
  | _ => c_out m o
  end.

(** the complete alphabet: valid arguments; the [retain] closure is pure and total (as in
    [Refine.refinable]); no other restriction *)
Definition admissible (o : op) : Prop :=
  op_ok o /\
  match o with
  | ORetain f => forall n p x, f n p x = f 0 p x /\ f n p x <> None
  | _ => True
  end.

(** the abstract history of a concrete history: designators resolved in the state they are used in *)
Fixpoint elab (m : pmap) (ops : list op) : list xop :=
  match ops with
  | [] => []
  | o :: ops' => resolve m o :: elab (step m o) ops'
  end.

Definition x_run_from (A : amap) (xs : list xop) : amap := fold_left (fun A xo => fst (x_step A xo)) xs A.
Definition x_run (xs : list xop) : amap := x_run_from [] xs.

Fixpoint x_outs (A : amap) (xs : list xop) : list (option V) :=
  match xs with
  | [] => []
  | xo :: xs' => snd (x_step A xo) :: x_outs (fst (x_step A xo)) xs'
  end.

Fixpoint c_outs_full (m : pmap) (ops : list op) : list (option V) :=
  match ops with
  | [] => []
  | o :: ops' => c_out_full m o :: c_outs_full (step m o) ops'
  end.

(* ---------------------------------------------------------------------------------------- *)
(** * List facts *)

Definition own (p : pfx) (v : option V) : list (pfx * V) :=
  match v with Some x => [(p, x)] | None => [] end.

Lemma own_map i p v : map drop_id (own_id i p v) = own p v.
Proof. destruct v; reflexivity. Qed.

Lemma sorted_mid (P : list (pfx * V)) e Q :
  StronglySorted key_lt (P ++ e :: Q) ->
  (forall a, In a P -> key_lt a e) /\ (forall b, In b Q -> key_lt e b).
Proof.
  induction P as [|a0 P IH]; cbn [app]; intros Hs; inversion Hs as [|? ? Hs' Hf]; subst.
  - split; [intros a []|]. rewrite Forall_forall in Hf. exact Hf.
  - destruct (IH Hs') as [I1 I2]. split; [|exact I2]. rewrite Forall_forall in Hf.
    intros a [<-|Ha]; [apply Hf; apply in_elt | apply I1; exact Ha].
Qed.

Lemma mid_keys (P : list (pfx * V)) e Q :
  StronglySorted key_lt (P ++ e :: Q) -> forall a, In a P \/ In a Q -> key a <> key e.
Proof.
  intros Hs a Ha E. destruct (sorted_mid P e Q Hs) as [H1 H2].
  destruct Ha as [Ha|Ha]; [apply H1 in Ha | apply H2 in Ha]; unfold TrieWf.key_lt in Ha;
    rewrite E in Ha; eapply lex_lt_irrefl; exact Ha.
Qed.

Lemma wf_sorted (t : tree) : wf_root t -> StronglySorted key_lt (entries t).
Proof. apply (Refine.wf_sorted pfx V pzero bits ok). Qed.

(** the context of a node: the entry list splits around the node's own item, and rewriting the
    node's value rewrites only that item; the rewritten tree is well-formed again *)
Lemma node_ctx (T : tree) pa i p v l r v' :
  wf_root T -> subtree T pa = Node i p v l r ->
  exists P Q,
    entries T = P ++ own p v ++ Q /\
    entries (subst T pa (set_tval (subtree T pa) v')) = P ++ own p v' ++ Q /\
    wf_root (subst T pa (set_tval (subtree T pa) v')).
Proof.
  intros Hr Hs.
  destruct (subst_set_tval_entries_id pfx V T pa i p v l r v' Hs) as [pre [post [E1 E2]]].
  destruct (entries_of_ctx pfx V _ _ pre post _ _ E1 E2) as [F1 F2].
  exists (map drop_id pre), (map drop_id post). rewrite !own_map in *.
  split; [exact F1|]. split; [exact F2|]. apply (subst_set_wf_root pfx V bits ok). exact Hr.
Qed.

(** no entry outside the node carries the node's key, whether the node holds a value or not *)
Lemma ctx_other_keys (T' : tree) P Q p x :
  wf_root T' -> entries T' = P ++ own p (Some x) ++ Q ->
  forall a, In a P \/ In a Q -> key a <> bits p.
Proof.
  intros Hr E a Ha. pose proof (wf_sorted T' Hr) as Hs. rewrite E in Hs. cbn [own app] in Hs.
  exact (mid_keys P (p, x) Q Hs a Ha).
Qed.

(* ---------------------------------------------------------------------------------------- *)
(** * [OWrite]: writes through the references of a mutable traversal *)

(** PER-STEP THEOREM (write), slot form, no hypothesis: every entry keeps its position, slot and
    stored prefix; its value is replaced exactly when its slot is in [ws] *)
Theorem write_step_entries m ws :
  entries (root (step m (OWrite ws)))
  = map (fun e : N * pfx * V => let '(i, p, x) := e in
                                (p, match assoc_id ws i with Some y => y | None => x end))
        (entries_id (root m)).
Proof.
  cbn [History.step root]. rewrite <- (entries_id_entries pfx V), (write_ids_entries_id_upd pfx V), map_map.
  apply map_ext. intros [[i p] x]. reflexivity.
Qed.

Lemma NoDup_map_inj {X Y} (f : X -> Y) (l : list X) a b :
  NoDup (map f l) -> In a l -> In b l -> f a = f b -> a = b.
Proof.
  induction l as [|c l IH]; intros Hnd Ha Hb E; [destruct Ha|].
  cbn [map] in Hnd. inversion Hnd as [|? ? Hc Hl]; subst.
  destruct Ha as [<-|Ha], Hb as [<-|Hb].
  - reflexivity.
  - exfalso. apply Hc. rewrite E. apply in_map. exact Hb.
  - exfalso. apply Hc. rewrite <- E. apply in_map. exact Ha.
  - apply IH; assumption.
Qed.

Lemma a_get_cons_ne (A : amap) p y q : bits p <> bits q -> a_get ((p, y) :: A) q = a_get A q.
Proof.
  intros H. unfold Refine.a_get. cbn [find].
  assert (B : beq (akey (p, y)) (bits q) = false) by (apply Refine.beq_key_false; exact H).
  rewrite B. reflexivity.
Qed.

Lemma a_get_cons_eq (A : amap) p y q : bits p = bits q -> a_get ((p, y) :: A) q = Some y.
Proof.
  intros H. unfold Refine.a_get. cbn [find].
  assert (B : beq (akey (p, y)) (bits q) = true) by (apply Refine.beq_key; exact H).
  rewrite B. reflexivity.
Qed.

Lemma a_get_key_writes ws : forall L : list (N * pfx * V),
  NoDup (map (fun e => akey (drop_id e)) L) ->
  forall i p x, In (i, p, x) L -> a_get (flat_map (kw1 ws) L) p = assoc_id ws i.
Proof.
  induction L as [|[[j pj] xj] L IH]; intros Hnd i p x Hin; [destruct Hin|].
  cbn [map] in Hnd. inversion Hnd as [|? ? Hj HL]; subst. cbn [flat_map kw1].
  destruct Hin as [E|Hin].
  - inversion E; subst. destruct (assoc_id ws i) as [y|] eqn:Ea; cbn [app].
    + apply a_get_cons_eq. reflexivity.
    + apply Refine.a_get_none. intros e He Ek. apply in_flat_map in He.
      destruct He as [[[i0 p0] x0] [H0 He]]. cbn [kw1] in He.
      destruct (assoc_id ws i0) as [y0|]; [|destruct He]. destruct He as [<-|[]].
      apply Hj. apply in_map_iff. exists (i0, p0, x0). split; [|exact H0].
      unfold Refine.akey. cbn. exact Ek.
  - assert (Hne : bits pj <> bits p).
    { intros Ek. apply Hj. apply in_map_iff. exists (i, p, x). split; [|exact Hin].
      unfold Refine.akey. cbn. symmetry. exact Ek. }
    destruct (assoc_id ws j) as [y|]; cbn [app].
    + rewrite (a_get_cons_ne _ pj y p Hne). exact (IH HL i p x Hin).
    + exact (IH HL i p x Hin).
Qed.

(** PER-STEP THEOREM (write), key form: the effect on the entry list is the key-addressed write
    of the new values to the keys of the designated entries *)
Theorem write_step_refines m ws :
  wf_root (root m) ->
  entries (root (step m (OWrite ws))) = a_write (entries (root m)) (key_writes (root m) ws).
Proof.
  intros Hr. rewrite write_step_entries. unfold a_write, key_writes.
  rewrite <- (entries_id_entries pfx V (root m)), map_map. apply map_ext_in.
  intros [[i p] x] Hin. cbn [Lookup2.drop_id fst].
  rewrite (a_get_key_writes ws (entries_id (root m))) with (i := i) (x := x); [| |exact Hin].
  - destruct (assoc_id ws i); reflexivity.
  - rewrite <- map_map, (entries_id_entries pfx V). apply (Refine.sorted_NoDup_keys pfx V bits).
    apply wf_sorted. exact Hr.
Qed.

(** what a key-addressed write does, as membership *)
Lemma in_a_write (A kw : amap) e :
  In e (a_write A kw) <->
  exists e0, In e0 A /\ fst e = fst e0 /\
             snd e = match a_get kw (fst e0) with Some y => y | None => snd e0 end.
Proof.
  unfold a_write. rewrite in_map_iff. split.
  - intros [e0 [E Hin]]. exists e0. split; [exact Hin|]. subst e.
    destruct (a_get kw (fst e0)); cbn [fst snd]; auto.
  - intros [e0 [Hin [E1 E2]]]. exists e0. split; [|exact Hin]. destruct e as [p y]. cbn [fst snd] in *.
    subst p y. destruct (a_get kw (fst e0)); [reflexivity | apply surjective_pairing].
Qed.

Lemma a_write_keys (A kw : amap) : map fst (a_write A kw) = map fst A.
Proof.
  unfold a_write. rewrite map_map. apply map_ext. intros e. destruct (a_get kw (fst e)); reflexivity.
Qed.

Lemma sorted_a_write (A kw : amap) : StronglySorted key_lt A -> StronglySorted key_lt (a_write A kw).
Proof.
  unfold a_write. apply (Refine.sorted_map_key pfx V bits). intros e.
  destruct (a_get kw (fst e)); reflexivity.
Qed.

(* ---------------------------------------------------------------------------------------- *)
(** * [OViewSet] / [OViewRemove]: [TrieViewMut::set] / [::remove] at the node reached by [pa] *)

Lemma step_view_set_root m pa x :
  root (step m (OViewSet pa x)) = subst (root m) pa (set_tval (subtree (root m) pa) (Some x)).
Proof. reflexivity. Qed.

Lemma step_view_remove_root m pa :
  root (step m (OViewRemove pa)) = subst (root m) pa (set_tval (subtree (root m) pa) None).
Proof. reflexivity. Qed.

(** a path that ends in a [Leaf] designates nothing: the call has no effect *)
Theorem view_step_leaf m pa :
  subtree (root m) pa = Leaf ->
  (forall x, step m (OViewSet pa x) = m) /\ step m (OViewRemove pa) = m.
Proof.
  intros Hs.
  destruct (vm_write_leaf pfx V (root m) (mkvmut pa None) Hs) as [E1 [E2 _]].
  destruct m as [T a]. cbn [History.step root al] in *. split; [intros x; rewrite E2 | rewrite E1]; reflexivity.
Qed.

(** PER-STEP THEOREM (view set): at a node with stored prefix [p] and value [v], [set x] acts on
    the contents as [insert p x]: the entry list splits around the node's item as [P ++ own ++ Q]
    and becomes [P ++ (p, x) :: Q] (all other entries unchanged, the node's existing prefix kept);
    the call returns [v], which is what the abstract map holds at [p] *)
Theorem view_set_step m pa x i p v l r :
  wf_root (root m) -> subtree (root m) pa = Node i p v l r ->
  entries (root (step m (OViewSet pa x))) = a_insert (entries (root m)) p x /\
  c_out_full m (OViewSet pa x) = v /\
  a_get (entries (root m)) p = v /\
  exists P Q, entries (root m) = P ++ own p v ++ Q /\
              entries (root (step m (OViewSet pa x))) = P ++ (p, x) :: Q.
Proof.
  intros Hr Hs. rewrite step_view_set_root.
  destruct (node_ctx (root m) pa i p v l r (Some x) Hr Hs) as [P [Q [E1 [E2 Hr']]]].
  pose proof (ctx_other_keys _ P Q p x Hr' E2) as Hoth.
  assert (Hown : forall e, In e (own p v) -> key e = bits p).
  { intros e He. destruct v; [|destruct He]. destruct He as [<-|[]]. reflexivity. }
  split; [|split; [|split]].
  - apply (sorted_ext pfx V bits).
    + apply wf_sorted. exact Hr'.
    + apply (Refine.sorted_a_insert pfx V bits). apply wf_sorted. exact Hr.
    + intros e. rewrite (Refine.in_a_insert pfx V bits), E1, E2. cbn [own]. rewrite !in_app_iff. cbn [In].
      split.
      * intros [H|[[H|[]]|H]]; [right | left; symmetry; exact H | right];
          (split; [tauto | apply Hoth; tauto]).
      * intros [H|[[H|[H|H]] Hk]]; [right; left; left; symmetry; exact H | tauto | | tauto].
        exfalso. apply Hk. apply Hown. exact H.
  - cbn [c_out_full vm_set Views.mvirt snd Views.mpath]. unfold vm_tree. cbn [Views.mpath]. rewrite Hs. reflexivity.
  - destruct v as [y|].
    + apply (Refine.a_get_spec pfx V bits); [apply wf_sorted; exact Hr|].
      exists p. split; [|reflexivity]. rewrite E1. cbn [own]. apply in_or_app. right. left. reflexivity.
    + apply Refine.a_get_none. intros e He. apply Hoth. rewrite E1 in He. cbn [own app] in He.
      apply in_app_iff in He. exact He.
  - exists P, Q. split; [exact E1 | exact E2].
Qed.

(** PER-STEP THEOREM (view remove): at a node with stored prefix [p] and value [v], [remove] takes
    the node's own item out of the entry list and returns [v]; when the node holds a value this is
    the effect of [remove_keep_tree p] on the abstract map *)
Theorem view_remove_step m pa i p v l r :
  wf_root (root m) -> subtree (root m) pa = Node i p v l r ->
  c_out_full m (OViewRemove pa) = v /\
  (exists P Q, entries (root m) = P ++ own p v ++ Q /\
               entries (root (step m (OViewRemove pa))) = P ++ Q) /\
  (forall y, v = Some y ->
     entries (root (step m (OViewRemove pa))) = a_without (entries (root m)) p /\
     a_get (entries (root m)) p = Some y) /\
  (v = None -> entries (root (step m (OViewRemove pa))) = entries (root m)).
Proof.
  intros Hr Hs. rewrite step_view_remove_root.
  destruct (node_ctx (root m) pa i p v l r None Hr Hs) as [P [Q [E1 [E2 Hr']]]].
  cbn [own app] in E2.
  split; [|split; [|split]].
  - cbn [c_out_full vm_remove Views.mvirt snd Views.mpath]. unfold vm_tree. cbn [Views.mpath]. rewrite Hs. reflexivity.
  - exists P, Q. split; [exact E1 | exact E2].
  - intros y ->. cbn [own] in E1.
    assert (Hoth : forall a, In a P \/ In a Q -> key a <> bits p).
    { apply (ctx_other_keys (root m) P Q p y Hr). exact E1. }
    split.
    + apply (sorted_ext pfx V bits).
      * apply wf_sorted. exact Hr'.
      * apply (Refine.sorted_a_without pfx V bits). apply wf_sorted. exact Hr.
      * intros e. rewrite (Refine.in_a_without pfx V bits), E1, E2. rewrite !in_app_iff. cbn [In]. split.
        -- intros H. split; [tauto | apply Hoth; tauto].
        -- intros [[H|[[H|[]]|H]] Hk]; [tauto | | tauto]. exfalso. apply Hk. subst e. reflexivity.
    + apply (Refine.a_get_spec pfx V bits); [apply wf_sorted; exact Hr|].
      exists p. split; [|reflexivity]. rewrite E1. apply in_or_app. right. left. reflexivity.
  - intros ->. cbn [own app] in E1. rewrite E1, E2. reflexivity.
Qed.

(* ---------------------------------------------------------------------------------------- *)
(** * One step of the full alphabet *)

Lemma admissible_ok o : admissible o -> op_ok o.
Proof. intros [H _]. exact H. Qed.

Lemma refinable_admissible o : refinable o -> admissible o.
Proof. intros [H1 H2]. split; [exact H1|]. destruct o; try exact I. exact H2. Qed.

Lemma step_wf' m o : admissible o -> wf_root (root m) -> wf_root (root (step m o)).
Proof.
  intros Ho. apply (step_wf pfx V peq contains is_bit_set plen lcp pzero mcmp bits ok LAWS).
  apply admissible_ok. exact Ho.
Qed.

(** MAIN THEOREM 1: every call of the complete alphabet transforms the entry list as the abstract
    map is transformed by the resolved call, and returns what the abstract map returns *)
Theorem step_refines_full m o :
  wf_root (root m) -> admissible o ->
  entries (root (step m o)) = fst (x_step (entries (root m)) (resolve m o)) /\
  c_out_full m o = snd (x_step (entries (root m)) (resolve m o)).
Proof.
  intros Hr [Hok Hadm].
  assert (Hbase : forall o', refinable o' ->
            entries (root (step m o')) = fst (a_step (entries (root m)) o') /\
            c_out m o' = snd (a_step (entries (root m)) o')).
  { intros o' Ho'.
    exact (step_refines pfx V peq contains is_bit_set plen lcp pzero mcmp bits ok LAWS m o' Hr Ho'). }
  destruct o; cbn [resolve x_step c_out_full];
    try (apply Hbase; split; [exact Hok | exact Hadm]).
  - (* write *) split; [apply write_step_refines; exact Hr | reflexivity].
  - (* view set *)
    destruct (subtree (root m) pa) as [|i p v l r] eqn:Hs.
    + destruct (view_step_leaf m pa Hs) as [E _]. rewrite E. cbn [x_step fst snd]. split; [reflexivity|].
      cbn [vm_set Views.mvirt snd Views.mpath]. unfold vm_tree. cbn [Views.mpath]. rewrite Hs. reflexivity.
    + destruct (view_set_step m pa x i p v l r Hr Hs) as [S1 [S2 [S3 _]]].
      cbn [x_step Refine.a_step fst snd]. split; [exact S1|].
      cbn [c_out_full] in S2. rewrite S2, S3. reflexivity.
  - (* view remove *)
    destruct (subtree (root m) pa) as [|i p v l r] eqn:Hs.
    + destruct (view_step_leaf m pa Hs) as [_ E]. rewrite E. cbn [x_step fst snd]. split; [reflexivity|].
      cbn [vm_remove Views.mvirt snd Views.mpath]. unfold vm_tree. cbn [Views.mpath]. rewrite Hs. reflexivity.
    + destruct (view_remove_step m pa i p v l r Hr Hs) as [S1 [_ [S2 S3]]].
      cbn [c_out_full] in S1. rewrite S1. destruct v as [y|].
      * destruct (S2 y eq_refl) as [S4 S5]. cbn [x_step Refine.a_step fst snd].
        split; [exact S4 | symmetry; exact S5].
      * cbn [x_step fst snd]. split; [apply S3; reflexivity | reflexivity].
Qed.

(** on the key-addressed sub-alphabet the resolution is the identity and the outputs are those of
    [Refine]: MAIN THEOREM 1 extends [Refine.step_refines] *)
Lemma resolve_refinable m o : refinable o -> resolve m o = XBase o /\ c_out_full m o = c_out m o.
Proof. intros [_ H]. destruct o; try contradiction; split; reflexivity. Qed.

(* ---------------------------------------------------------------------------------------- *)
(** * Whole histories over the complete alphabet *)

Lemma x_step_sorted A xo : StronglySorted key_lt A -> StronglySorted key_lt (fst (x_step A xo)).
Proof.
  intros HA. destruct xo as [o|kw|]; cbn [x_step fst].
  - apply (Refine.a_step_sorted pfx V bits). exact HA.
  - apply sorted_a_write. exact HA.
  - exact HA.
Qed.

Lemma x_run_from_sorted xs : forall A, StronglySorted key_lt A -> StronglySorted key_lt (x_run_from A xs).
Proof.
  unfold x_run_from. induction xs as [|xo xs IH]; intros A HA; cbn [fold_left]; [exact HA|].
  apply IH. apply x_step_sorted. exact HA.
Qed.

(** the abstract map stays strictly sorted by key, hence never holds a key twice *)
Theorem x_run_sorted xs : StronglySorted key_lt (x_run xs).
Proof. apply x_run_from_sorted. constructor. Qed.

Theorem x_run_keys_NoDup xs : NoDup (map akey (x_run xs)).
Proof. apply (Refine.sorted_NoDup_keys pfx V bits). apply x_run_sorted. Qed.

Lemma fold_refines_full ops : forall m A,
  wf_root (root m) -> entries (root m) = A -> Forall admissible ops ->
  entries (root (fold_left step ops m)) = x_run_from A (elab m ops) /\
  c_outs_full m ops = x_outs A (elab m ops).
Proof.
  unfold x_run_from.
  induction ops as [|o ops IH]; intros m A Hr EA Hall; cbn [fold_left c_outs_full x_outs elab].
  - split; [exact EA | reflexivity].
  - inversion Hall as [|? ? Ho Hops]; subst.
    destruct (step_refines_full m o Hr Ho) as [S1 S2].
    destruct (IH (step m o) _ (step_wf' m o Ho Hr) S1 Hops) as [I1 I2].
    split; [exact I1|]. rewrite S2, I2. reflexivity.
Qed.

Lemma empty_wf : wf_root (root empty).
Proof. exact (Refine.empty_wf pfx V peq contains is_bit_set plen lcp pzero mcmp bits ok LAWS). Qed.

(** MAIN THEOREM 2: after ANY history over the complete alphabet the contents are those of the
    abstract map to which the same calls (designators resolved) were applied ... *)
Theorem run_refines_full ops :
  Forall admissible ops -> entries (root (run ops)) = x_run (elab empty ops).
Proof. intros Hall. exact (proj1 (fold_refines_full ops empty [] empty_wf eq_refl Hall)). Qed.

(** ... and every call of the history returned what the abstract map returns *)
Theorem outs_refine_full ops :
  Forall admissible ops -> c_outs_full empty ops = x_outs [] (elab empty ops).
Proof. intros Hall. exact (proj2 (fold_refines_full ops empty [] empty_wf eq_refl Hall)). Qed.

Lemma Forall_admissible_ok ops : Forall admissible ops -> Forall op_ok ops.
Proof. apply Forall_impl. exact admissible_ok. Qed.

Lemma run_wf ops : Forall admissible ops -> wf_root (root (run ops)).
Proof.
  intros Hall. apply (reachable_wf pfx V peq contains is_bit_set plen lcp pzero mcmp bits ok LAWS).
  apply Forall_admissible_ok. exact Hall.
Qed.

Lemma elab_app ops1 : forall m ops2,
  elab m (ops1 ++ ops2) = elab m ops1 ++ elab (fold_left step ops1 m) ops2.
Proof.
  induction ops1 as [|o ops1 IH]; intros m ops2; cbn [app elab fold_left]; [reflexivity|].
  rewrite IH. reflexivity.
Qed.

(** the same after every step: the state after any prefix [ops] of a history is well-formed, its
    contents are the abstract map's, and the next call [o] acts on it as the resolved abstract
    call and returns the abstract answer *)
Corollary reachable_step_refines_full ops o :
  Forall admissible ops -> admissible o ->
  wf_root (root (run ops)) /\
  entries (root (run ops)) = x_run (elab empty ops) /\
  entries (root (run (ops ++ [o]))) = fst (x_step (x_run (elab empty ops)) (resolve (run ops) o)) /\
  c_out_full (run ops) o = snd (x_step (x_run (elab empty ops)) (resolve (run ops) o)).
Proof.
  intros Hall Ho. pose proof (run_wf ops Hall) as Hr. split; [exact Hr|].
  split; [apply run_refines_full; exact Hall|].
  rewrite <- (run_refines_full ops Hall).
  rewrite (run_app pfx V peq contains is_bit_set plen lcp pzero). cbn [fold_left].
  apply step_refines_full; assumption.
Qed.

(** the three designator-addressed calls from any reachable state, in the per-step forms *)
Corollary reachable_step_write ops ws :
  Forall admissible ops ->
  entries (root (step (run ops) (OWrite ws)))
  = map (fun e : N * pfx * V => let '(i, p, x) := e in
                                (p, match assoc_id ws i with Some y => y | None => x end))
        (entries_id (root (run ops))) /\
  entries (root (step (run ops) (OWrite ws)))
  = a_write (x_run (elab empty ops)) (key_writes (root (run ops)) ws).
Proof.
  intros Hall. split; [apply write_step_entries|].
  rewrite <- (run_refines_full ops Hall). apply write_step_refines. apply run_wf. exact Hall.
Qed.

Corollary reachable_step_view_set ops pa x :
  Forall admissible ops ->
  match subtree (root (run ops)) pa with
  | Leaf => step (run ops) (OViewSet pa x) = run ops
  | Node _ p v _ _ =>
    entries (root (step (run ops) (OViewSet pa x))) = a_insert (x_run (elab empty ops)) p x /\
    c_out_full (run ops) (OViewSet pa x) = v /\
    a_get (x_run (elab empty ops)) p = v /\
    exists P Q, entries (root (run ops)) = P ++ own p v ++ Q /\
                entries (root (step (run ops) (OViewSet pa x))) = P ++ (p, x) :: Q
  end.
Proof.
  intros Hall. destruct (subtree (root (run ops)) pa) as [|i p v l r] eqn:Hs.
  - apply view_step_leaf. exact Hs.
  - rewrite <- (run_refines_full ops Hall). apply (view_set_step _ pa x i p v l r); [|exact Hs].
    apply run_wf. exact Hall.
Qed.

Corollary reachable_step_view_remove ops pa :
  Forall admissible ops ->
  match subtree (root (run ops)) pa with
  | Leaf => step (run ops) (OViewRemove pa) = run ops
  | Node _ p v _ _ =>
    c_out_full (run ops) (OViewRemove pa) = v /\
    (exists P Q, entries (root (run ops)) = P ++ own p v ++ Q /\
                 entries (root (step (run ops) (OViewRemove pa))) = P ++ Q) /\
    (forall y, v = Some y ->
       entries (root (step (run ops) (OViewRemove pa))) = a_without (x_run (elab empty ops)) p /\
       a_get (x_run (elab empty ops)) p = Some y)
  end.
Proof.
  intros Hall. destruct (subtree (root (run ops)) pa) as [|i p v l r] eqn:Hs.
  - apply view_step_leaf. exact Hs.
  - rewrite <- (run_refines_full ops Hall).
    destruct (view_remove_step _ pa i p v l r (run_wf ops Hall) Hs) as [A [B [C _]]]. auto.
Qed.

(** MAIN THEOREM 2 extends [Refine.run_refines]: on a key-addressed history nothing is resolved *)
Lemma elab_refinable ops : forall m, Forall refinable ops -> elab m ops = map XBase ops.
Proof.
  induction ops as [|o ops IH]; intros m Hall; cbn [elab map]; [reflexivity|].
  inversion Hall as [|? ? Ho Hops]; subst. rewrite (proj1 (resolve_refinable m o Ho)), IH by exact Hops.
  reflexivity.
Qed.

Theorem x_run_refinable ops : Forall refinable ops -> x_run (elab empty ops) = a_run ops.
Proof.
  intros Hall. rewrite (elab_refinable ops empty Hall). unfold x_run, x_run_from, Refine.a_run.
  generalize (@nil (pfx * V)) as A. induction ops as [|o ops IH]; intros A; cbn [map fold_left]; [reflexivity|].
  inversion Hall as [|? ? Ho Hops]; subst. apply IH. exact Hops.
Qed.

(* ---------------------------------------------------------------------------------------- *)
(** * Observers on every well-formed / reachable state, for every valid query *)

Lemma entry_get m q : h_get m (entry m q) = get (root m) q.
Proof.
  unfold Trie.h_get, Trie.entry, Trie.get.
  destruct (Trie.get_node pfx V peq contains is_bit_set plen (root m) q) as [[[i p] [x|]]|] eqn:G;
    cbn [hkind_ hkey]; [|reflexivity|reflexivity].
  unfold Trie.get. rewrite G. reflexivity.
Qed.

Lemma entry_key m q :
  h_key m (entry m q) = match get_key_value (root m) q with Some e => fst e | None => q end.
Proof.
  unfold Trie.h_key, Trie.entry, Trie.get_key_value.
  destruct (Trie.get_node pfx V peq contains is_bit_set plen (root m) q) as [[[i p] [x|]]|] eqn:G;
    cbn [hkind_ hkey fst]; [|reflexivity|reflexivity].
  rewrite G. reflexivity.
Qed.

Lemma contains_key_get (t : tree) q : contains_key t q = is_some (get t q).
Proof.
  unfold Trie.contains_key, Trie.get.
  destruct (Trie.get_node pfx V peq contains is_bit_set plen t q) as [[[i p] [x|]]|]; reflexivity.
Qed.

(** MAIN THEOREM 3: every exact-match observer on a well-formed map answers as the abstract map
    holding its entries *)
Theorem observers_refine m q :
  wf_root (root m) -> ok q ->
  let A := entries (root m) in
  let hit := find (fun e => beq (akey e) (bits q)) A in
  get (root m) q = a_get A q /\
  get_key_value (root m) q = hit /\
  contains_key (root m) q = is_some (a_get A q) /\
  h_get m (entry m q) = a_get A q /\
  h_key m (entry m q) = match hit with Some e => fst e | None => q end.
Proof.
  intros Hr Hq A hit.
  pose proof (Refine.get_refines pfx V peq contains is_bit_set plen lcp pzero mcmp bits ok LAWS (root m) q Hr Hq) as G.
  pose proof (Refine.get_key_value_refines pfx V peq contains is_bit_set plen lcp pzero mcmp bits ok LAWS (root m) q Hr Hq) as K.
  split; [exact G|]. split; [exact K|]. split; [rewrite contains_key_get, G; reflexivity|].
  split; [rewrite entry_get; exact G | rewrite entry_key, K; reflexivity].
Qed.

(** ... in particular after every history over the complete alphabet *)
Corollary observers_run_full ops q :
  Forall admissible ops -> ok q ->
  let A := x_run (elab empty ops) in
  let hit := find (fun e => beq (akey e) (bits q)) A in
  get (root (run ops)) q = a_get A q /\
  get_key_value (root (run ops)) q = hit /\
  contains_key (root (run ops)) q = is_some (a_get A q) /\
  h_get (run ops) (entry (run ops) q) = a_get A q /\
  h_key (run ops) (entry (run ops) q) = match hit with Some e => fst e | None => q end.
Proof.
  intros Hall Hq. rewrite <- (run_refines_full ops Hall). apply observers_refine; [|exact Hq].
  apply run_wf. exact Hall.
Qed.

(** the answers of the abstract map, spelled out *)
Lemma hit_spec (A : amap) q e :
  StronglySorted key_lt A ->
  (find (fun e => beq (akey e) (bits q)) A = Some e <-> In e A /\ key e = bits q).
Proof. apply (Refine.find_key_spec pfx V bits). Qed.

(* ---------------------------------------------------------------------------------------- *)
(** * Keys are identified by [bits] only *)

(** two calls have the same effect on the contents and return the same *)
Definition same_effect (m : pmap) (o o' : op) : Prop :=
  entries (root (step m o)) = entries (root (step m o')) /\ c_out_full m o = c_out_full m o'.

(** two inserting calls return the same and produce the same contents except that each stores the
    representation it was given: either both leave the contents as they are (or_insert on an
    occupied entry), or the two results are [A1 ++ (q, x) :: A2] and [A1 ++ (q', x) :: A2] with
    [A1], [A2] entries of the old map under other keys *)
Definition same_upto_repr (m : pmap) (o o' : op) (q q' : pfx) (x : V) : Prop :=
  c_out_full m o = c_out_full m o' /\
  ((entries (root (step m o)) = entries (root m) /\ entries (root (step m o')) = entries (root m)) \/
   exists A1 A2,
     entries (root (step m o)) = A1 ++ (q, x) :: A2 /\
     entries (root (step m o')) = A1 ++ (q', x) :: A2 /\
     forall e, In e A1 \/ In e A2 -> In e (entries (root m)) /\ key e <> bits q).

Lemma base_adm (o : op) :
  op_ok o ->
  match o with OWrite _ | OViewSet _ _ | OViewRemove _ | ORetain _ => False | _ => True end ->
  refinable o.
Proof. intros H1 H2. split; [exact H1|]. destruct o; try contradiction; exact I. Qed.

(** MAIN THEOREM 4: two representations of the same key are interchangeable in every observer and
    in every key-addressed call, on every well-formed state *)
Theorem step_key_only m q q' :
  wf_root (root m) -> ok q -> ok q' -> bits q = bits q' ->
  (get (root m) q = get (root m) q' /\
   get_key_value (root m) q = get_key_value (root m) q' /\
   contains_key (root m) q = contains_key (root m) q' /\
   h_get m (entry m q) = h_get m (entry m q')) /\
  (same_effect m (ORemove q) (ORemove q') /\
   same_effect m (ORemoveKeepTree q) (ORemoveKeepTree q') /\
   same_effect m (OOccRemove q) (OOccRemove q') /\
   same_effect m (ORemoveChildren q) (ORemoveChildren q') /\
   forall g, same_effect m (OUpdate q g) (OUpdate q' g)) /\
  (forall x,
   same_upto_repr m (OInsert q x) (OInsert q' x) q q' x /\
   same_upto_repr m (OEntryInsert q x) (OEntryInsert q' x) q q' x /\
   same_upto_repr m (OOrInsert q x) (OOrInsert q' x) q q' x).
Proof.
  intros Hr Hq Hq' E. set (A := entries (root m)).
  destruct (observers_refine m q Hr Hq) as [G1 [K1 [C1 [H1 _]]]].
  destruct (observers_refine m q' Hr Hq') as [G2 [K2 [C2 [H2 _]]]].
  destruct (Refine.key_only pfx V bits A q q' E) as [KA [KF [KW [KR [KU KI]]]]].
  fold A in G1, G2, K1, K2, C1, C2, H1, H2.
  assert (SR : forall o, refinable o ->
            entries (root (step m o)) = fst (a_step A o) /\ c_out_full m o = snd (a_step A o)).
  { intros o Ho. destruct (resolve_refinable m o Ho) as [_ Ec]. rewrite Ec.
    exact (step_refines pfx V peq contains is_bit_set plen lcp pzero mcmp bits ok LAWS m o Hr Ho). }
  assert (SE : forall o o', refinable o -> refinable o' -> a_step A o = a_step A o' -> same_effect m o o').
  { intros o o' Ho Ho' Ea. destruct (SR o Ho) as [S1 S2]. destruct (SR o' Ho') as [S1' S2'].
    split; [rewrite S1, S1', Ea | rewrite S2, S2', Ea]; reflexivity. }
  destruct (Refine.key_only_outputs pfx V bits A q q' E) as [_ [_ [_ [O1 [O2 [O3 [O4 O5]]]]]]].
  split; [|split].
  - split; [rewrite G1, G2; exact KA|]. split; [rewrite K1, K2; exact KF|].
    split; [rewrite C1, C2, KA; reflexivity | rewrite H1, H2; exact KA].
  - split; [apply SE; try (apply base_adm; [assumption | exact I]); exact O2|].
    split; [apply SE; try (apply base_adm; [assumption | exact I]); exact O3|].
    split; [apply SE; try (apply base_adm; [assumption | exact I]); exact O1|].
    split; [apply SE; try (apply base_adm; [assumption | exact I]); exact O4|].
    intros g. apply SE; try (apply base_adm; [assumption | exact I]). apply O5.
  - intros x. destruct (KI x) as [_ [_ [_ [A1 [A2 [I1 [I2 I3]]]]]]]. cbn [Refine.a_step fst] in I1, I2.
    assert (I3' : forall e, In e A1 \/ In e A2 -> In e A /\ key e <> bits q).
    { intros e He. destruct (I3 e He) as [X Y]. split; [exact X | exact Y]. }
    split; [|split].
    + destruct (SR (OInsert q x)) as [S1 S2]; [apply base_adm; [exact Hq | exact I]|].
      destruct (SR (OInsert q' x)) as [S1' S2']; [apply base_adm; [exact Hq' | exact I]|].
      split; [rewrite S2, S2'; cbn [Refine.a_step snd]; exact KA|].
      right. exists A1, A2. rewrite S1, S1'. cbn [Refine.a_step fst]. auto.
    + destruct (SR (OEntryInsert q x)) as [S1 S2]; [apply base_adm; [exact Hq | exact I]|].
      destruct (SR (OEntryInsert q' x)) as [S1' S2']; [apply base_adm; [exact Hq' | exact I]|].
      split; [rewrite S2, S2'; cbn [Refine.a_step snd]; exact KA|].
      right. exists A1, A2. rewrite S1, S1'. cbn [Refine.a_step fst]. auto.
    + destruct (SR (OOrInsert q x)) as [S1 S2]; [apply base_adm; [exact Hq | exact I]|].
      destruct (SR (OOrInsert q' x)) as [S1' S2']; [apply base_adm; [exact Hq' | exact I]|].
      split; [rewrite S2, S2'; cbn [Refine.a_step snd]; rewrite KA; reflexivity|].
      rewrite S1, S1'. cbn [Refine.a_step fst]. rewrite <- KA.
      destruct (a_get A q); [left; split; reflexivity|]. right. exists A1, A2. auto.
Qed.

(* ---------------------------------------------------------------------------------------- *)
(** * Stored representations *)

(** the inserting calls store the representation they are given: afterwards ANY representation
    [q'] of the key finds [(q, x)]; [or_insert] on an occupied entry keeps the resident pair *)
Theorem insert_stores_repr_full m q q' x :
  wf_root (root m) -> ok q -> ok q' -> bits q' = bits q ->
  get_key_value (root (step m (OInsert q x))) q' = Some (q, x) /\
  get_key_value (root (step m (OEntryInsert q x))) q' = Some (q, x) /\
  get_key_value (root (step m (OOrInsert q x))) q'
  = match get_key_value (root m) q' with Some e => Some e | None => Some (q, x) end.
Proof.
  intros Hr Hq Hq' E. set (A := entries (root m)).
  pose proof (wf_sorted _ Hr) as HsA. fold A in HsA.
  assert (SR : forall o, refinable o ->
            get_key_value (root (step m o)) q' = find (fun e => beq (akey e) (bits q')) (fst (a_step A o))).
  { intros o Ho.
    destruct (step_refines pfx V peq contains is_bit_set plen lcp pzero mcmp bits ok LAWS m o Hr Ho) as [S1 _].
    fold A in S1. rewrite <- S1.
    apply (Refine.get_key_value_refines pfx V peq contains is_bit_set plen lcp pzero mcmp bits ok LAWS); [|exact Hq'].
    apply step_wf'; [apply refinable_admissible; exact Ho | exact Hr]. }
  pose proof (proj1 (Refine.a_insert_stores pfx V bits A q q' x HsA E)) as St.
  split; [|split].
  - rewrite SR by (apply base_adm; [exact Hq | exact I]). exact St.
  - rewrite SR by (apply base_adm; [exact Hq | exact I]). exact St.
  - rewrite SR by (apply base_adm; [exact Hq | exact I]). cbn [Refine.a_step fst].
    rewrite (Refine.get_key_value_refines pfx V peq contains is_bit_set plen lcp pzero mcmp bits ok LAWS (root m) q' Hr Hq').
    fold A. unfold Refine.a_get. rewrite <- E.
    destruct (find (fun e => beq (akey e) (bits q')) A) as [e|] eqn:F; cbn [option_map].
    + exact F.
    + exact St.
Qed.

(** where a stored representation can come from (one step, complete alphabet): every pair
    [(p, v)] stored after a call was either stored under the very same representation [p] before,
    or [p] is the representation passed to this inserting call, or [p] is the existing prefix of
    the value-less node that this [TrieViewMut::set] gave a value *)
Theorem step_repr_origin m o p v :
  wf_root (root m) -> admissible o -> In (p, v) (entries (root (step m o))) ->
  (exists v0, In (p, v0) (entries (root m))) \/
  (o = OInsert p v \/ o = OEntryInsert p v \/ (o = OOrInsert p v /\ get (root m) p = None)) \/
  (exists pa i l r, o = OViewSet pa v /\ subtree (root m) pa = Node i p None l r).
Proof.
  intros Hr Ho Hin. set (A := entries (root m)).
  destruct (Refine.repr_stable pfx V bits A) as [R1 [R2 [R3 [R4 R5]]]].
  assert (Hold : forall e0, In e0 A -> fst e0 = p -> exists v0, In (p, v0) A).
  { intros [p0 v0] H0 E0. cbn [fst] in E0. subst p0. exists v0. exact H0. }
  assert (Hins : forall q x, In (p, v) (a_insert A q x) -> (exists v0, In (p, v0) A) \/ (p = q /\ v = x)).
  { intros q x H. destruct (R5 q x _ H) as [E|[H1 _]]; [right; inversion E; auto | left; exists v; exact H1]. }
  destruct (step_refines_full m o Hr Ho) as [S _]. fold A in S. rewrite S in Hin. clear S.
  destruct Ho as [Hok Hadm].
  destruct o; cbn [resolve x_step Refine.a_step fst] in Hin.
  - destruct (Hins _ _ Hin) as [H|[-> ->]]; [left; exact H | right; left; left; reflexivity].
  - destruct (Hins _ _ Hin) as [H|[-> ->]]; [left; exact H | right; left; right; left; reflexivity].
  - cbn [History.op_ok] in Hok.
    pose proof (Refine.get_refines pfx V peq contains is_bit_set plen lcp pzero mcmp bits ok LAWS (root m) q Hr Hok) as G0.
    fold A in G0. rewrite <- G0 in Hin. clear G0.
    destruct (get (root m) q) as [y|] eqn:G; [left; exists v; exact Hin|].
    destruct (Hins _ _ Hin) as [H|[-> ->]]; [left; exact H|]. right. left. right. right. auto.
  - left. exists v. exact (R1 _ _ Hin).
  - left. destruct (R4 _ _ _ Hin) as [e0 [H0 E0]]. apply (Hold e0 H0). symmetry. exact E0.
  - left. exists v. exact (R1 _ _ Hin).
  - left. exists v. exact (R1 _ _ Hin).
  - left. exists v. exact (R2 _ _ Hin).
  - left. exists v. exact (R3 _ _ Hin).
  - destruct Hin.
  - left. exists v. exact Hin.
  - left. apply in_a_write in Hin. destruct Hin as [e0 [H0 [E0 _]]]. apply (Hold e0 H0). symmetry. exact E0.
  - destruct (subtree (root m) pa) as [|i p0 v0 l r] eqn:Hs; cbn [x_step Refine.a_step fst] in Hin;
      [left; exists v; exact Hin|].
    destruct (Hins _ _ Hin) as [H|[-> ->]]; [left; exact H|].
    destruct v0 as [y|].
    + left. exists y. destruct (view_set_step m pa x i p0 (Some y) l r Hr Hs) as [_ [_ [_ [P [Q [E1 _]]]]]].
      fold A in E1. rewrite E1. cbn [own]. apply in_or_app. right. left. reflexivity.
    + right. right. exists pa, i, l, r. auto.
  - destruct (subtree (root m) pa) as [|i p0 [y|] l r] eqn:Hs; cbn [x_step Refine.a_step fst] in Hin.
    + left. exists v. exact Hin.
    + left. exists v. exact (R1 _ _ Hin).
    + left. exists v. exact Hin.
Qed.

(** hence the stored representation of a key that stays in the map changes only by an [insert] /
    [Entry::insert] ([OccupiedEntry::insert]) of that key, and then to the representation passed:
    value-only accesses, [or_insert], view writes and operations on other keys never change it *)
Theorem step_repr_stable m o p0 v0 p v :
  wf_root (root m) -> admissible o ->
  In (p0, v0) (entries (root m)) -> In (p, v) (entries (root (step m o))) -> bits p = bits p0 ->
  p = p0 \/ o = OInsert p v \/ o = OEntryInsert p v.
Proof.
  intros Hr Ho H0 Hin E.
  assert (Hinj : forall v1, In (p, v1) (entries (root m)) -> p = p0).
  { intros v1 H1.
    assert (X : (p, v1) = (p0, v0)) by (apply (sorted_key_inj pfx V bits _ _ _ (wf_sorted _ Hr) H1 H0); exact E).
    inversion X. reflexivity. }
  destruct (step_repr_origin m o p v Hr Ho Hin) as [[v1 H1]|[[H|[H|[H G]]]|[pa [i [l [r [Eo Hs]]]]]]].
  - left. exact (Hinj v1 H1).
  - right. left. exact H.
  - right. right. exact H.
  - exfalso. subst o. destruct Ho as [Hok _]. cbn [History.op_ok] in Hok.
    rewrite (Refine.get_refines pfx V peq contains is_bit_set plen lcp pzero mcmp bits ok LAWS (root m) p Hr Hok) in G.
    rewrite Refine.a_get_none in G. apply (G _ H0). symmetry. exact E.
  - exfalso. destruct (view_set_step m pa v i p None l r Hr Hs) as [_ [_ [G _]]].
    rewrite Refine.a_get_none in G. apply (G _ H0). symmetry. exact E.
Qed.

(** whole histories: every representation stored in a reachable state was passed by an inserting
    call of the history, or is the prefix of a value-less node to which a [TrieViewMut::set] of the
    history gave a value *)
Definition passed (ops : list op) (p : pfx) : Prop :=
  exists x, In (OInsert p x) ops \/ In (OEntryInsert p x) ops \/ In (OOrInsert p x) ops.

Theorem repr_provenance ops p v :
  Forall admissible ops -> In (p, v) (entries (root (run ops))) ->
  passed ops p \/
  exists ops1 pa x ops2 i l r,
    ops = ops1 ++ OViewSet pa x :: ops2 /\ subtree (root (run ops1)) pa = Node i p None l r.
Proof.
  revert p v. induction ops as [|o ops IH] using rev_ind; intros p v Hall Hin.
  - destruct Hin.
  - apply Forall_app in Hall. destruct Hall as [Hall Ho]. inversion Ho as [|? ? Ho' _]; subst.
    rewrite (run_app pfx V peq contains is_bit_set plen lcp pzero) in Hin. cbn [fold_left] in Hin.
    assert (Hmono : passed ops p -> passed (ops ++ [o]) p).
    { intros [x H]. exists x. rewrite !in_app_iff. tauto. }
    assert (Hlast : forall x, o = OInsert p x \/ o = OEntryInsert p x \/ o = OOrInsert p x -> passed (ops ++ [o]) p).
    { intros x H. exists x. rewrite !in_app_iff. cbn [In]. destruct H as [ -> | [ -> | -> ] ]; tauto. }
    destruct (step_repr_origin (run ops) o p v (run_wf ops Hall) Ho' Hin)
      as [[v1 H1]|[[H|[H|[H _]]]|[pa [i [l [r [Eo Hs]]]]]]].
    + destruct (IH p v1 Hall H1) as [H|[ops1 [pa [x [ops2 [i [l [r [E Hs]]]]]]]]]; [left; apply Hmono; exact H|].
      right. exists ops1, pa, x, (ops2 ++ [o]), i, l, r. split; [|exact Hs].
      rewrite E, <- app_assoc. reflexivity.
    + left. apply (Hlast v). auto.
    + left. apply (Hlast v). auto.
    + left. apply (Hlast v). auto.
    + right. exists ops, pa, v, [], i, l, r. split; [rewrite Eo; reflexivity | exact Hs].
Qed.

(** a lookup reports the stored representation, never the query's *)
Theorem lookup_reports_stored m q p x :
  wf_root (root m) -> ok q ->
  (get_key_value (root m) q = Some (p, x) <-> In (p, x) (entries (root m)) /\ bits p = bits q).
Proof.
  intros Hr Hq.
  destruct (wf_root_inv pfx V pzero bits ok (root m) q Hr) as [Hwf [Hrc _]].
  exact (get_key_value_spec pfx V peq contains is_bit_set plen lcp pzero mcmp bits ok LAWS [] (root m) q p x Hwf Hq Hrc).
Qed.

(** no key is stored twice in a well-formed map *)
Theorem wf_keys_NoDup (t : tree) : wf_root t -> NoDup (map akey (entries t)).
Proof. intros Hr. apply (Refine.sorted_NoDup_keys pfx V bits). apply wf_sorted. exact Hr. Qed.

End R2.

Print Assumptions write_step_entries.
Print Assumptions write_step_refines.
Print Assumptions view_step_leaf.
Print Assumptions view_set_step.
Print Assumptions view_remove_step.
Print Assumptions step_refines_full.
Print Assumptions x_run_sorted.
Print Assumptions x_run_keys_NoDup.
Print Assumptions run_refines_full.
Print Assumptions outs_refine_full.
Print Assumptions reachable_step_refines_full.
Print Assumptions reachable_step_write.
Print Assumptions reachable_step_view_set.
Print Assumptions reachable_step_view_remove.
Print Assumptions x_run_refinable.
Print Assumptions observers_refine.
Print Assumptions observers_run_full.
Print Assumptions step_key_only.
Print Assumptions insert_stores_repr_full.
Print Assumptions step_repr_origin.
Print Assumptions step_repr_stable.
Print Assumptions repr_provenance.
Print Assumptions lookup_reports_stored.
Print Assumptions wf_keys_NoDup.
