(** [retain] / [_retain]: well-formedness for every outcome (also when the closure panics), the
    predicate is evaluated exactly once per stored entry, and the result holds exactly the entries
    that were not (yet) rejected. *)
From Coq Require Import List NArith ZArith Bool Arith Lia Sorted Permutation.
From PT Require Import Bits BitsThm Laws Machine Trie TrieWf.
Import ListNotations.

(* ------------------------------------------------------------------------------------------ *)
(** * List bookkeeping *)
Section Lists.
Context {E : Type}.
Variable rej : E -> Prop.

(** [X'] = [X] minus the members of [c] that are rejected *)
Definition kept (X X' c : list E) : Prop :=
  forall e, In e X' <-> In e X /\ ~ (In e c /\ rej e).
Definition disj (X Y : list E) : Prop := forall e, In e X -> In e Y -> False.

Lemma kept_nil X : kept X X [].
Proof. intros e. cbn. tauto. Qed.

Lemma kept_app X Y X' Y' cX cY c :
  disj X Y -> incl cX X -> incl cY Y -> kept X X' cX -> kept Y Y' cY ->
  (forall e, In e c <-> In e cX \/ In e cY) -> kept (X ++ Y) (X' ++ Y') c.
Proof.
  intros D IX IY KX KY Hc e. rewrite !in_app_iff, (KX e), (KY e), (Hc e). split.
  - intros [[H1 H2]|[H1 H2]]; (split; [tauto|]); intros [[H3|H3] H4].
    + apply H2. tauto.
    + apply (D e); [exact H1 | apply IY; exact H3].
    + apply (D e); [apply IX; exact H3 | exact H1].
    + apply H2. tauto.
  - intros [[H1|H1] H2]; [left|right]; (split; [exact H1|]); intros [H3 H4]; apply H2; tauto.
Qed.

Lemma NoDup_app_disj (l1 l2 : list E) : NoDup l1 -> NoDup l2 -> disj l1 l2 -> NoDup (l1 ++ l2).
Proof.
  induction l1 as [|x l1 IH]; intros H1 H2 D; cbn; [exact H2|].
  inversion H1 as [|? ? Hx H1']; subst. constructor.
  - rewrite in_app_iff. intros [H|H]; [exact (Hx H)|]. apply (D x); [left; reflexivity | exact H].
  - apply IH; [exact H1' | exact H2|]. intros e He. apply D. right. exact He.
Qed.

Lemma disj_sym X Y : disj X Y -> disj Y X.
Proof. intros D e H1 H2. exact (D e H2 H1). Qed.

Lemma disj_incl X Y X' Y' : disj X Y -> incl X' X -> incl Y' Y -> disj X' Y'.
Proof. intros D IX IY e H1 H2. apply (D e); [apply IX; exact H1 | apply IY; exact H2]. Qed.

Lemma disj_app_r X Y Z : disj X Y -> disj X Z -> disj X (Y ++ Z).
Proof. intros D1 D2 e H1 H2. rewrite in_app_iff in H2. destruct H2; [eapply D1 | eapply D2]; eauto. Qed.

(** three pairwise disjoint groups (own entry, left, right); the calls come in the order
    left, right, own *)
Lemma combine3 (O L R O' L' R' cO cL cR : list E) :
  disj O L -> disj O R -> disj L R ->
  incl cO O -> NoDup cO -> kept O O' cO ->
  incl cL L -> NoDup cL -> kept L L' cL ->
  incl cR R -> NoDup cR -> kept R R' cR ->
  let calls := cL ++ cR ++ cO in
  incl calls (O ++ L ++ R) /\ NoDup calls /\ kept (O ++ L ++ R) (O' ++ L' ++ R') calls /\
  (Permutation cO O -> Permutation cL L -> Permutation cR R -> Permutation calls (O ++ L ++ R)) /\
  (forall Q : E -> Prop,
   (exists e, In e O /\ ~ In e cO /\ Q e) \/ (exists e, In e L /\ ~ In e cL /\ Q e) \/
   (exists e, In e R /\ ~ In e cR /\ Q e) ->
   exists e, In e (O ++ L ++ R) /\ ~ In e calls /\ Q e).
Proof.
  intros DOL DOR DLR IO NO KO IL NL KL IR NR KR calls. subst calls.
  split; [|split; [|split; [|split]]].
  - intros e. rewrite !in_app_iff. intros [H|[H|H]]; auto.
  - apply NoDup_app_disj; [exact NL| |].
    + apply NoDup_app_disj; [exact NR | exact NO|]. apply (disj_incl R O); [apply disj_sym; exact DOR | exact IR | exact IO].
    + apply disj_app_r.
      * apply (disj_incl L R); assumption.
      * apply (disj_incl L O); [apply disj_sym; exact DOL | exact IL | exact IO].
  - apply (kept_app O (L ++ R) O' (L' ++ R') cO (cL ++ cR)).
    + apply disj_app_r; assumption.
    + exact IO.
    + intros e. rewrite !in_app_iff. intros [H|H]; auto.
    + exact KO.
    + apply (kept_app L R L' R' cL cR); try assumption. intros e. rewrite in_app_iff. tauto.
    + intros e. rewrite !in_app_iff. tauto.
  - intros PO PL PR.
    apply Permutation_trans with (l' := (cL ++ cR) ++ cO); [rewrite app_assoc; apply Permutation_refl|].
    apply Permutation_trans with (l' := cO ++ (cL ++ cR)); [apply Permutation_app_comm|].
    apply Permutation_app; [exact PO|]. apply Permutation_app; assumption.
  - intros Q [[e [H1 [H2 HQ]]]|[[e [H1 [H2 HQ]]]|[e [H1 [H2 HQ]]]]]; exists e; rewrite !in_app_iff;
      (split; [tauto|]); (split; [|exact HQ]).
    + intros [H|[H|H]]; [apply (DOL e); auto | apply (DOR e); auto | exact (H2 H)].
    + intros [H|[H|H]]; [exact (H2 H) | apply (DLR e); auto | apply (DOL e); auto].
    + intros [H|[H|H]]; [apply (DLR e); auto | exact (H2 H) | apply (DOR e); auto].
Qed.

End Lists.

Ltac feed C tac :=
  repeat (match type of C with
          | ?A -> _ => let HA := fresh in assert (HA : A) by tac; specialize (C HA); clear HA
          end).
Ltac usecx Cx := match goal with |- exists e, _ /\ _ /\ @?Q e => apply (Cx Q) end.
Ltac prem := first [ assumption | apply kept_nil | (intros ? []) | constructor ].

(* ------------------------------------------------------------------------------------------ *)
Section RT.
Variables (pfx V : Type).
Variables (peq contains : pfx -> pfx -> bool) (is_bit_set : pfx -> N -> bool)
          (plen : pfx -> N) (lcp : pfx -> pfx -> pfx) (pzero : pfx)
          (mcmp : pfx -> pfx -> comparison).
Variable bits : pfx -> list bool.
Variable ok : pfx -> Prop.
Hypothesis LAWS : prefix_laws pfx peq contains is_bit_set plen lcp pzero mcmp bits ok.

Notation tree := (tree pfx V).
Notation wf_under := (wf_under pfx V bits ok).
Notation wf_root := (wf_root pfx V bits ok).
Notation key := (key pfx V bits).
Notation key_lt := (key_lt pfx V bits).
Notation remove_self := (Trie.remove_self pfx V).
Notation ret := (Trie.ret pfx V).
Notation retain := (Trie.retain pfx V).

Definition own (p : pfx) (v : option V) : list (pfx * V) :=
  match v with Some x => [(p, x)] | None => [] end.

Lemma entries_node i p v (l r : tree) : entries (Node i p v l r) = own p v ++ entries l ++ entries r.
Proof. reflexivity. Qed.

Lemma disj_own_sub p v s (c : tree) : wf_under (bits p ++ [s]) c -> disj (own p v) (entries c).
Proof.
  intros Hc e H1 H2. destruct v as [x|]; cbn in H1; [|contradiction]. destruct H1 as [<-|[]].
  pose proof (entries_under _ _ _ _ _ _ _ Hc H2) as Hu. eapply below_neq; [exact Hu|reflexivity].
Qed.

Lemma disj_l_r a (l r : tree) :
  wf_under (a ++ [false]) l -> wf_under (a ++ [true]) r -> disj (entries l) (entries r).
Proof.
  intros Hl Hr e H1 H2.
  eapply sides_disjoint; [exact (entries_under _ _ _ _ _ _ _ Hl H1) | exact (entries_under _ _ _ _ _ _ _ Hr H2)].
Qed.

Lemma wf_sub_weaken b p s (c : tree) : prefix_of b (bits p) -> wf_under (bits p ++ [s]) c -> wf_under b c.
Proof.
  intros Hb Hc. eapply wf_weaken; [|exact Hc]. eapply prefix_of_trans; [exact Hb|apply prefix_of_app].
Qed.

(** ** [remove_self] *)
Lemma remove_self_spec b hp i p v l r a t' fl a' :
  wf_under b (Node i p v l r) -> remove_self hp i p v l r a = (t', fl, a') ->
  wf_under b t' /\ entries t' = entries l ++ entries r /\
  (fl = true -> t' = Leaf /\ l = Leaf /\ r = Leaf) /\
  (hp = false -> t' = Node i p None l r).
Proof.
  intros Hwf H. pose proof Hwf as [Hp [Hb [Hl Hr]]]. unfold Trie.remove_self in H.
  assert (Hn : wf_under b (Node i p None l r)) by (cbn; tauto).
  destruct l as [|li lp lv ll lr]; destruct r as [|ri rp rv rl rr]; destruct hp; cbn [is_node] in H;
    inversion H; subst; clear H;
    (split; [first [exact Hn | exact I | eapply wf_sub_weaken; eassumption]|]);
    (split; [cbn [entries own app]; rewrite ?app_nil_r; reflexivity|]);
    (split; [first [discriminate | intros _; auto] | first [discriminate | reflexivity | intros _; reflexivity]]).
Qed.

(* ------------------------------------------------------------------------------------------ *)
(** * Well-formedness for an arbitrary closure (every outcome, also a panic) *)

Lemma ret_wf_gen (f : nat -> pfx -> V -> option bool) t : forall b hp s t' st s',
  wf_under b t -> ret f hp t s = (t', st, s') ->
  wf_under b t' /\
  (hp = false -> forall i p v l r, t = Node i p v l r -> exists v' l' r', t' = Node i p v' l' r') /\
  (st = RDone true -> t' = Leaf).
Proof.
  induction t as [|i p v l IHl r IHr]; intros b hp s t' st s' Hwf H.
  - cbn in H. inversion H; subst. split; [exact I|].
    split; [intros _ i p v l r E; discriminate E | discriminate].
  - cbn [Trie.ret] in H. pose proof Hwf as [Hp [Hb [Hl Hr]]].
    assert (ROOT : forall v' (l' r' : tree), hp = false -> forall i0 p0 v0 l0 r0, Node i p v l r = Node i0 p0 v0 l0 r0 ->
                     exists v'' l'' r'', Node i p v' l' r' = Node i0 p0 v'' l'' r'').
    { intros v' l' r' _ i0 p0 v0 l0 r0 E. inversion E; subst. eauto. }
    destruct (ret f true l s) as [[l' sl] s1] eqn:EL.
    destruct (IHl _ _ _ _ _ _ Hl EL) as [LwfL [_ LleafL]].
    destruct sl as [fl|].
    2: { inversion H; subst. split; [cbn; tauto|]. split; [apply ROOT | discriminate]. }
    destruct (fl && (hp && is_none v)) eqn:C1.
    + apply andb_prop in C1 as [-> C1]. apply andb_prop in C1 as [-> Hv].
      destruct (IHr _ _ _ _ _ _ Hr H) as [LwfR [_ LleafR]].
      split; [eapply wf_sub_weaken; eassumption|]. split; [intros E; discriminate E | exact LleafR].
    + destruct (ret f true r s1) as [[r' sr] s2] eqn:ER.
      destruct (IHr _ _ _ _ _ _ Hr ER) as [LwfR [_ LleafR]].
      assert (WF' : forall v', wf_under b (Node i p v' l' r')) by (intros v'; cbn; tauto).
      destruct sr as [fr|].
      2: { inversion H; subst. split; [apply WF'|]. split; [apply ROOT | discriminate]. }
      destruct (fr && (hp && is_none v)) eqn:C2.
      * apply andb_prop in C2 as [-> C2]. apply andb_prop in C2 as [-> Hv].
        inversion H; subst. split; [eapply wf_sub_weaken; eassumption|].
        split; [intros E; discriminate E | discriminate].
      * destruct v as [x|].
        2: { inversion H; subst. split; [apply WF'|]. split; [apply ROOT | discriminate]. }
        destruct (f (length (snd s2)) p x) as [[|]|] eqn:F.
        -- inversion H; subst. split; [apply WF'|]. split; [apply ROOT | discriminate].
        -- destruct (remove_self hp i p (Some x) l' r' (fst s2)) as [[t1 fl1] a3] eqn:RS.
           inversion H; subst.
           destruct (remove_self_spec _ _ _ _ _ _ _ _ _ _ _ (WF' (Some x)) RS) as [RSwf [_ [RSfl RShp]]].
           split; [exact RSwf|]. split.
           ++ intros E i0 p0 v0 l0 r0 E0. rewrite (RShp E). inversion E0; subst. eauto.
           ++ intros E. inversion E; subst. apply RSfl. reflexivity.
        -- inversion H; subst. split; [apply WF'|]. split; [apply ROOT | discriminate].
Qed.

(** MAIN THEOREM 1 (arbitrary closure): [_retain] preserves well-formedness whatever the outcome;
    a node without parent stays in place; a subtree reported as "removed as a leaf" is gone *)
Theorem ret_wf (f : nat -> pfx -> V -> option bool) b hp t s t' st s' :
  wf_under b t -> ret f hp t s = (t', st, s') ->
  wf_under b t' /\
  (hp = false -> forall i p v l r, t = Node i p v l r -> exists v' l' r', t' = Node i p v' l' r') /\
  (st = RDone true -> t' = Leaf).
Proof. apply ret_wf_gen. Qed.

Theorem retain_wf (f : nat -> pfx -> V -> option bool) m m' panicked calls :
  wf_root (root m) -> retain f m = (m', panicked, calls) -> wf_root (root m').
Proof.
  unfold Trie.retain. intros Hwf H.
  destruct (ret f false (root m) (al m, [])) as [[t' st] [a' log']] eqn:E.
  inversion H; subst. cbn [root].
  destruct (root m) as [|i p v l r] eqn:R; [destruct Hwf|]. destruct Hwf as [Hb Hwf].
  destruct (ret_wf_gen f _ _ _ _ _ _ _ Hwf E) as [W [N _]].
  destruct (N eq_refl _ _ _ _ _ eq_refl) as [v' [l' [r' ->]]].
  split; [exact Hb | exact W].
Qed.

(* ------------------------------------------------------------------------------------------ *)
(** * The recursion *)
Section F.
Variable f : nat -> pfx -> V -> option bool.
Variable g : pfx -> V -> bool.
(** the verdict of a non-panicking invocation does not depend on the invocation count *)
Hypothesis Hf : forall n p x c, f n p x = Some c -> c = g p x.

Definition rej (e : pfx * V) : Prop := g (fst e) (snd e) = false.

Record ret_post (b : list bool) (hp : bool) (t : tree) (log : list (pfx * V))
       (t' : tree) (st : rstat) (log' : list (pfx * V)) (calls : list (pfx * V)) : Prop := {
  rp_log : log' = rev calls ++ log;
  rp_wf : wf_under b t';
  rp_root : hp = false -> forall i p v l r, t = Node i p v l r -> exists v' l' r', t' = Node i p v' l' r';
  rp_leaf : st = RDone true -> t' = Leaf;
  rp_incl : incl calls (entries t);
  rp_nodup : NoDup calls;
  rp_perm : st <> RPanic -> Permutation calls (entries t);
  rp_kept : kept rej (entries t) (entries t') calls;
  rp_panic : st = RPanic -> exists e, In e (entries t) /\ ~ In e calls /\ f (length log') (fst e) (snd e) = None }.

Lemma log_comb (log log1 log2 log' cL cR cO : list (pfx * V)) :
  log1 = rev cL ++ log -> log2 = rev cR ++ log1 -> log' = rev cO ++ log2 ->
  log' = rev (cL ++ cR ++ cO) ++ log.
Proof. intros -> -> ->. rewrite !rev_app_distr, <- !app_assoc. reflexivity. Qed.

Lemma ret_spec t : forall b hp a log t' st a' log',
  wf_under b t -> ret f hp t (a, log) = (t', st, (a', log')) ->
  exists calls, ret_post b hp t log t' st log' calls.
Proof.
  induction t as [|i p v l IHl r IHr]; intros b hp a log t' st a' log' Hwf H.
  - cbn in H. inversion H; subst. exists []. constructor; cbn.
    + reflexivity.
    + exact I.
    + intros _ i p v l r E. discriminate E.
    + discriminate.
    + intros e [].
    + constructor.
    + intros _. constructor.
    + apply kept_nil.
    + discriminate.
  - cbn [Trie.ret] in H.
    pose proof Hwf as [Hp [Hb [Hl Hr]]].
    assert (DOL := disj_own_sub p v false l Hl).
    assert (DOR := disj_own_sub p v true r Hr).
    assert (DLR := disj_l_r _ l r Hl Hr).
    pose proof (fun O' L' R' cO cL cR => combine3 rej (own p v) (entries l) (entries r) O' L' R' cO cL cR DOL DOR DLR) as COMB.
    rewrite <- (entries_node i p v l r) in COMB.
    assert (ROOT : forall v' (l' r' : tree), hp = false -> forall i0 p0 v0 l0 r0, Node i p v l r = Node i0 p0 v0 l0 r0 ->
                     exists v'' l'' r'', Node i p v' l' r' = Node i0 p0 v'' l'' r'').
    { intros v' l' r' _ i0 p0 v0 l0 r0 E. inversion E; subst. eauto. }
    assert (NOPANIC : forall fl, RDone fl <> RPanic) by (intros fl; discriminate).
    destruct (ret f true l (a, log)) as [[l' sl] [a1 log1]] eqn:EL.
    destruct (IHl _ _ _ _ _ _ _ _ Hl EL) as [cL [LlogL LwfL _ LleafL LinclL LndL LpermL LkeptL LpanL]].
    destruct sl as [fl|].
    2: { (* the predicate panicked in the left subtree *)
      inversion H; subst. exists (cL ++ [] ++ []).
      pose proof (COMB (own p v) (entries l') (entries r) [] cL []) as C; feed C prem; cbv zeta in C; destruct C as [Ci [Cn [Ck [_ Cx]]]].
      constructor.
      - eapply log_comb; [reflexivity|reflexivity|reflexivity].
      - cbn. tauto.
      - apply ROOT.
      - discriminate.
      - exact Ci.
      - exact Cn.
      - intros N. exfalso. apply N. reflexivity.
      - rewrite entries_node. exact Ck.
      - intros _. usecx Cx. right. left. apply LpanL. reflexivity. }
    destruct (fl && (hp && is_none v)) eqn:C1.
    + (* collapsed by the removal of the left child *)
      apply andb_prop in C1 as [-> C1]. apply andb_prop in C1 as [-> Hv].
      destruct v as [x|]; [discriminate Hv|]. cbn [fst snd] in H.
      destruct (IHr _ _ _ _ _ _ _ _ Hr H) as [cR [LlogR LwfR _ LleafR LinclR LndR LpermR LkeptR LpanR]].
      rewrite (LleafL eq_refl) in LkeptL.
      exists (cL ++ cR ++ []).
      pose proof (COMB [] [] (entries t') [] cL cR) as C; feed C prem; cbv zeta in C; destruct C as [Ci [Cn [Ck [Cp Cx]]]].
      constructor.
      * eapply log_comb; [exact LlogL|exact LlogR|reflexivity].
      * eapply wf_sub_weaken; eassumption.
      * intros E. discriminate E.
      * exact LleafR.
      * exact Ci.
      * exact Cn.
      * intros N. apply Cp; [constructor | apply LpermL; apply NOPANIC | apply LpermR; exact N].
      * exact Ck.
      * intros N. usecx Cx. right. right. apply LpanR. exact N.
    + destruct (ret f true r (a1, log1)) as [[r' sr] [a2 log2]] eqn:ER.
      destruct (IHr _ _ _ _ _ _ _ _ Hr ER) as [cR [LlogR LwfR _ LleafR LinclR LndR LpermR LkeptR LpanR]].
      assert (WF' : forall v', wf_under b (Node i p v' l' r')) by (intros v'; cbn; tauto).
      destruct sr as [fr|].
      2: { (* the predicate panicked in the right subtree *)
        inversion H; subst. exists (cL ++ cR ++ []).
        pose proof (COMB (own p v) (entries l') (entries r') [] cL cR) as C; feed C prem; cbv zeta in C; destruct C as [Ci [Cn [Ck [_ Cx]]]].
        constructor.
        - eapply log_comb; [reflexivity|reflexivity|reflexivity].
        - apply WF'.
        - apply ROOT.
        - discriminate.
        - exact Ci.
        - exact Cn.
        - intros N. exfalso. apply N. reflexivity.
        - rewrite entries_node. exact Ck.
        - intros _. usecx Cx. right. right. apply LpanR. reflexivity. }
      destruct (fr && (hp && is_none v)) eqn:C2.
      * (* collapsed by the removal of the right child *)
        apply andb_prop in C2 as [-> C2]. apply andb_prop in C2 as [-> Hv].
        destruct v as [x|]; [discriminate Hv|].
        inversion H; subst.
        rewrite (LleafR eq_refl) in LkeptR.
        exists (cL ++ cR ++ []).
        pose proof (COMB [] (entries t') [] [] cL cR) as C; feed C prem; cbv zeta in C; destruct C as [Ci [Cn [Ck [Cp Cx]]]].
        cbn [app] in Ck. rewrite (app_nil_r (entries t')) in Ck.
        constructor.
        -- eapply log_comb; [reflexivity|reflexivity|reflexivity].
        -- eapply wf_sub_weaken; eassumption.
        -- intros E. discriminate E.
        -- discriminate.
        -- exact Ci.
        -- exact Cn.
        -- intros _. apply Cp; [constructor | apply LpermL; apply NOPANIC | apply LpermR; apply NOPANIC].
        -- exact Ck.
        -- discriminate.
      * destruct v as [x|].
        2: { (* a value-less node that stays *)
          inversion H; subst. exists (cL ++ cR ++ []).
          pose proof (COMB [] (entries l') (entries r') [] cL cR) as C; feed C prem; cbv zeta in C; destruct C as [Ci [Cn [Ck [Cp Cx]]]].
          constructor.
          - eapply log_comb; [reflexivity|reflexivity|reflexivity].
          - apply WF'.
          - apply ROOT.
          - discriminate.
          - exact Ci.
          - exact Cn.
          - intros _. apply Cp; [constructor | apply LpermL; apply NOPANIC | apply LpermR; apply NOPANIC].
          - rewrite entries_node. exact Ck.
          - discriminate. }
        cbn [fst snd] in H.
        assert (IO : incl [(p, x)] (own p (Some x))) by (intros e He; exact He).
        assert (NO : NoDup [(p, x)]) by (constructor; [intros []|constructor]).
        destruct (f (length log2) p x) as [[|]|] eqn:F.
        -- (* accepted *)
           apply Hf in F. inversion H; subst. exists (cL ++ cR ++ [(p, x)]).
           assert (KO : kept rej (own p (Some x)) [(p, x)] [(p, x)]).
           { intros e. cbn. split; [|tauto]. intros [<-|[]]. split; [auto|]. intros [_ R]. unfold rej in R. cbn in R. congruence. }
           pose proof (COMB [(p, x)] (entries l') (entries r') [(p, x)] cL cR) as C; feed C prem; cbv zeta in C; destruct C as [Ci [Cn [Ck [Cp Cx]]]].
           constructor.
           ++ eapply log_comb; [reflexivity|reflexivity|reflexivity].
           ++ apply WF'.
           ++ apply ROOT.
           ++ discriminate.
           ++ exact Ci.
           ++ exact Cn.
           ++ intros _. apply Cp; [apply Permutation_refl | apply LpermL; apply NOPANIC | apply LpermR; apply NOPANIC].
           ++ rewrite entries_node. exact Ck.
           ++ discriminate.
        -- (* rejected: the node is removed *)
           apply Hf in F.
           destruct (remove_self hp i p (Some x) l' r' a2) as [[t1 fl1] a3] eqn:RS.
           inversion H; subst.
           destruct (remove_self_spec _ _ _ _ _ _ _ _ _ _ _ (WF' (Some x)) RS) as [RSwf [RSent [RSfl RShp]]].
           exists (cL ++ cR ++ [(p, x)]).
           assert (KO : kept rej (own p (Some x)) [] [(p, x)]).
           { intros e. cbn. split; [intros []|]. intros [[<-|[]] N]. apply N. split; [auto|]. unfold rej. cbn. congruence. }
           pose proof (COMB [] (entries l') (entries r') [(p, x)] cL cR) as C; feed C prem; cbv zeta in C; destruct C as [Ci [Cn [Ck [Cp Cx]]]].
           constructor.
           ++ eapply log_comb; [reflexivity|reflexivity|reflexivity].
           ++ exact RSwf.
           ++ intros E i0 p0 v0 l0 r0 E0. rewrite (RShp E). inversion E0; subst. eauto.
           ++ intros E. inversion E; subst. apply RSfl. reflexivity.
           ++ exact Ci.
           ++ exact Cn.
           ++ intros _. apply Cp; [apply Permutation_refl | apply LpermL; apply NOPANIC | apply LpermR; apply NOPANIC].
           ++ rewrite RSent. exact Ck.
           ++ discriminate.
        -- (* the predicate panicked on the node's own entry *)
           inversion H; subst. exists (cL ++ cR ++ []).
           pose proof (COMB [(p, x)] (entries l') (entries r') [] cL cR) as C; feed C prem; cbv zeta in C; destruct C as [Ci [Cn [Ck [_ Cx]]]].
           constructor.
           ++ eapply log_comb; [reflexivity|reflexivity|reflexivity].
           ++ apply WF'.
           ++ apply ROOT.
           ++ discriminate.
           ++ exact Ci.
           ++ exact Cn.
           ++ intros N. exfalso. apply N. reflexivity.
           ++ rewrite entries_node. exact Ck.
           ++ intros _. usecx Cx. left. exists (p, x). split; [left; reflexivity|]. split; [intros [] | exact F].
Qed.


(** the invocation counter: every call made was answered by [g] at the index it was made with *)
Fixpoint answered (n : nat) (calls : list (pfx * V)) : Prop :=
  match calls with
  | [] => True
  | e :: c => f n (fst e) (snd e) = Some (g (fst e) (snd e)) /\ answered (S n) c
  end.

Lemma answered_app n c1 c2 : answered n c1 -> answered (n + length c1) c2 -> answered n (c1 ++ c2).
Proof.
  revert n. induction c1 as [|e c1 IH]; intros n H1 H2; cbn in *.
  - rewrite Nat.add_0_r in H2. exact H2.
  - destruct H1 as [H0 H1]. split; [exact H0|]. apply IH; [exact H1|].
    rewrite Nat.add_succ_r in H2. exact H2.
Qed.

Lemma answered_app3 (log log1 log2 cL cR cO : list (pfx * V)) :
  log1 = rev cL ++ log -> log2 = rev cR ++ log1 ->
  answered (length log) cL -> answered (length log1) cR -> answered (length log2) cO ->
  answered (length log) (cL ++ cR ++ cO).
Proof.
  intros -> -> HL HR HO. rewrite !app_length, !rev_length in *.
  apply answered_app; [exact HL|]. apply answered_app.
  - replace (length log + length cL) with (length cL + length log) by lia. exact HR.
  - replace (length log + length cL + length cR) with (length cR + (length cL + length log)) by lia. exact HO.
Qed.

Lemma ret_answers t : forall hp a log t' st a' log',
  ret f hp t (a, log) = (t', st, (a', log')) ->
  exists calls, log' = rev calls ++ log /\ answered (length log) calls.
Proof.
  induction t as [|i p v l IHl r IHr]; intros hp a log t' st a' log' H.
  - cbn in H. inversion H; subst. exists []. split; [reflexivity|exact I].
  - cbn [Trie.ret] in H.
    destruct (ret f true l (a, log)) as [[l' sl] [a1 log1]] eqn:EL.
    destruct (IHl _ _ _ _ _ _ _ EL) as [cL [LlogL AL]].
    destruct sl as [fl|].
    2: { inversion H; subst. exists cL. split; [reflexivity|exact AL]. }
    destruct (fl && (hp && is_none v)) eqn:C1.
    + cbn [fst snd] in H. destruct (IHr _ _ _ _ _ _ _ H) as [cR [LlogR AR]].
      exists (cL ++ cR ++ []). split.
      * eapply log_comb; [exact LlogL | exact LlogR | reflexivity].
      * eapply answered_app3; [exact LlogL | exact LlogR | exact AL | exact AR | exact I].
    + destruct (ret f true r (a1, log1)) as [[r' sr] [a2 log2]] eqn:ER.
      destruct (IHr _ _ _ _ _ _ _ ER) as [cR [LlogR AR]].
      assert (NOOWN : log' = log2 -> exists calls, log' = rev calls ++ log /\ answered (length log) calls).
      { intros ->. exists (cL ++ cR ++ []). split.
        - eapply log_comb; [exact LlogL | exact LlogR | reflexivity].
        - eapply answered_app3; [exact LlogL | exact LlogR | exact AL | exact AR | exact I]. }
      destruct sr as [fr|].
      2: { inversion H; subst. apply NOOWN. reflexivity. }
      destruct (fr && (hp && is_none v)) eqn:C2.
      * inversion H; subst. apply NOOWN. reflexivity.
      * destruct v as [x|].
        2: { inversion H; subst. apply NOOWN. reflexivity. }
        cbn [fst snd] in H.
        assert (OWN : forall c, f (length log2) p x = Some c -> log' = (p, x) :: log2 ->
                  exists calls, log' = rev calls ++ log /\ answered (length log) calls).
        { intros c F ->. exists (cL ++ cR ++ [(p, x)]). split.
          - eapply log_comb; [exact LlogL | exact LlogR | reflexivity].
          - eapply answered_app3; [exact LlogL | exact LlogR | exact AL | exact AR|].
            cbn. split; [|exact I]. rewrite F. f_equal. eapply Hf. exact F. }
        destruct (f (length log2) p x) as [[|]|] eqn:F.
        -- inversion H; subst. eapply OWN; reflexivity.
        -- destruct (remove_self hp i p (Some x) l' r' a2) as [[t1 fl1] a3] eqn:RS.
           inversion H; subst. eapply OWN; reflexivity.
        -- inversion H; subst. apply NOOWN. reflexivity.
Qed.

Lemma sorted_filter (h : pfx * V -> bool) (l : list (pfx * V)) :
  StronglySorted key_lt l -> StronglySorted key_lt (filter h l).
Proof.
  induction l as [|x l IH]; intros Hs; cbn; [constructor|].
  inversion Hs as [|? ? Hs' Hf']; subst. destruct (h x).
  - constructor; [apply IH; exact Hs'|]. rewrite Forall_forall in *. intros e He.
    apply filter_In in He. apply Hf'. tauto.
  - apply IH. exact Hs'.
Qed.

Definition keep (e : pfx * V) : bool := g (fst e) (snd e).

(** MAIN THEOREM 2: the calls of [_retain] and the entries of its result *)
Theorem ret_calls b hp t a log t' st a' log' :
  wf_under b t -> ret f hp t (a, log) = (t', st, (a', log')) ->
  exists calls,
    log' = rev calls ++ log /\
    length log' = length log + length calls /\
    answered (length log) calls /\
    incl calls (entries t) /\ NoDup calls /\
    (forall e, In e (entries t') <-> In e (entries t) /\ ~ (In e calls /\ g (fst e) (snd e) = false)) /\
    (forall fl, st = RDone fl ->
       Permutation calls (entries t) /\
       (forall e, In e (entries t') <-> In e (entries t) /\ g (fst e) (snd e) = true) /\
       entries t' = filter keep (entries t)) /\
    (st = RPanic ->
       exists e, In e (entries t) /\ ~ In e calls /\ f (length log') (fst e) (snd e) = None).
Proof.
  intros Hwf H.
  destruct (ret_spec t _ _ _ _ _ _ _ _ Hwf H) as [calls [Plog Pwf _ _ Pincl Pnd Pperm Pkept Ppan]].
  destruct (ret_answers t _ _ _ _ _ _ _ H) as [calls' [Plog' Pans]].
  assert (calls' = calls).
  { rewrite Plog in Plog'. apply app_inv_tail in Plog'.
    rewrite <- (rev_involutive calls), <- (rev_involutive calls'). f_equal. symmetry. exact Plog'. }
  subst calls'. exists calls.
  split; [exact Plog|]. split; [rewrite Plog, app_length, rev_length; lia|].
  split; [exact Pans|]. split; [exact Pincl|]. split; [exact Pnd|]. split; [exact Pkept|].
  split; [|exact Ppan].
  intros fl ->.
  assert (Pp : Permutation calls (entries t)) by (apply Pperm; discriminate).
  assert (M : forall e, In e (entries t') <-> In e (entries t) /\ g (fst e) (snd e) = true).
  { intros e. rewrite (Pkept e). unfold rej. split.
    - intros [H1 H2]. split; [exact H1|]. destruct (g (fst e) (snd e)); [reflexivity|].
      exfalso. apply H2. split; [|reflexivity]. eapply Permutation_in; [apply Permutation_sym; exact Pp | exact H1].
    - intros [H1 H2]. split; [exact H1|]. intros [_ H3]. congruence. }
  split; [exact Pp|]. split; [exact M|].
  apply (sorted_ext pfx V bits).
  - eapply entries_sorted. exact Pwf.
  - apply sorted_filter. eapply entries_sorted. exact Hwf.
  - intros e. rewrite (M e), filter_In. unfold keep. tauto.
Qed.

(** MAIN THEOREM 3: the map-level operation *)
Theorem retain_spec m m' panicked calls :
  wf_root (root m) -> retain f m = (m', panicked, calls) ->
  wf_root (root m') /\
  answered 0 calls /\
  incl calls (entries (root m)) /\ NoDup calls /\
  (forall e, In e (entries (root m')) <->
             In e (entries (root m)) /\ ~ (In e calls /\ g (fst e) (snd e) = false)) /\
  (panicked = false ->
     entries (root m') = filter keep (entries (root m)) /\
     Permutation calls (entries (root m)) /\
     (forall e, In e (entries (root m')) <-> In e (entries (root m)) /\ g (fst e) (snd e) = true)) /\
  (panicked = true ->
     exists e, In e (entries (root m)) /\ ~ In e calls /\ f (length calls) (fst e) (snd e) = None).
Proof.
  intros Hwf H. split; [eapply retain_wf; eassumption|].
  unfold Trie.retain in H.
  destruct (ret f false (root m) (al m, [])) as [[t' st] [a' log']] eqn:E.
  inversion H; subst. cbn [root]. clear H.
  assert (Hwf0 : wf_under [] (root m)).
  { destruct (root m); [destruct Hwf | exact (proj2 Hwf)]. }
  destruct (ret_calls _ _ _ _ _ _ _ _ _ Hwf0 E) as [calls [Plog [Plen [Pans [Pincl [Pnd [Pkept [Pdone Ppan]]]]]]]].
  rewrite app_nil_r in Plog. subst log'. rewrite rev_involutive. rewrite rev_length in *.
  split; [exact Pans|]. split; [exact Pincl|]. split; [exact Pnd|]. split; [exact Pkept|]. split.
  - intros Hp. destruct st as [fl|]; [|discriminate Hp].
    destruct (Pdone fl eq_refl) as [A [B C]]. auto.
  - intros Hp. destruct st as [fl|]; [discriminate Hp|]. apply Ppan. reflexivity.
Qed.

End F.

(* ------------------------------------------------------------------------------------------ *)
(** * The closure of the test scripts: invocation [k] panics iff [panics k]; otherwise the verdict
      is [g] *)
Section P.
Variable panics : nat -> bool.
Variable g : pfx -> V -> bool.

Definition pf (n : nat) (p : pfx) (x : V) : option bool := if panics n then None else Some (g p x).

Lemma pf_ok : forall n p x c, pf n p x = Some c -> c = g p x.
Proof. unfold pf. intros n p x c. destruct (panics n); [discriminate|]. intros H. inversion H. reflexivity. Qed.

Lemma answered_pf n calls : answered pf g n calls -> forall k, k < length calls -> panics (n + k) = false.
Proof.
  revert n. induction calls as [|e c IH]; intros n H k Hk; cbn in *; [lia|].
  destruct H as [H0 H]. destruct k as [|k].
  - rewrite Nat.add_0_r. unfold pf in H0. destruct (panics n); [discriminate|reflexivity].
  - rewrite Nat.add_succ_r. apply (IH (S n) H k). lia.
Qed.

(** [_retain] with the scripted closure *)
Theorem ret_pf_spec b hp t a log t' st a' log' :
  wf_under b t -> ret pf hp t (a, log) = (t', st, (a', log')) ->
  wf_under b t' /\
  (hp = false -> forall i p v l r, t = Node i p v l r -> exists v' l' r', t' = Node i p v' l' r') /\
  (st = RDone true -> t' = Leaf) /\
  exists calls,
    log' = rev calls ++ log /\
    length log' = length log + length calls /\
    (forall k, k < length calls -> panics (length log + k) = false) /\
    incl calls (entries t) /\ NoDup calls /\
    (forall e, In e (entries t') <-> In e (entries t) /\ ~ (In e calls /\ g (fst e) (snd e) = false)) /\
    (forall fl, st = RDone fl ->
       Permutation calls (entries t) /\
       (forall e, In e (entries t') <-> In e (entries t) /\ g (fst e) (snd e) = true) /\
       entries t' = filter (fun e => g (fst e) (snd e)) (entries t)) /\
    (st = RPanic -> panics (length log') = true /\ length calls < length (entries t)).
Proof.
  intros Hwf H.
  destruct (ret_wf pf _ _ _ _ _ _ _ Hwf H) as [W [N L]].
  split; [exact W|]. split; [exact N|]. split; [exact L|].
  destruct (ret_calls pf g pf_ok _ _ _ _ _ _ _ _ _ Hwf H)
    as [calls [Plog [Plen [Pans [Pincl [Pnd [Pkept [Pdone Ppan]]]]]]]].
  exists calls.
  split; [exact Plog|]. split; [exact Plen|]. split; [apply answered_pf; exact Pans|].
  split; [exact Pincl|]. split; [exact Pnd|]. split; [exact Pkept|]. split; [exact Pdone|].
  intros Hst. destruct (Ppan Hst) as [e [He [Hne Hpan]]]. split.
  - unfold pf in Hpan. destruct (panics (length log')); [reflexivity|discriminate].
  - assert (Hl : length (e :: calls) <= length (entries t)).
    { apply NoDup_incl_length.
      - constructor; assumption.
      - intros e' [<-|He']; [exact He | apply Pincl; exact He']. }
    cbn in Hl. lia.
Qed.

(** [retain] with the scripted closure.  The closure panics iff one of the first [n] invocations
    is scripted to panic ([n] = number of stored entries); the number of invocations that returned
    is the index of the first panicking one. *)
Theorem retain_pf_spec m m' panicked calls :
  wf_root (root m) -> retain pf m = (m', panicked, calls) ->
  wf_root (root m') /\
  (forall k, k < length calls -> panics k = false) /\
  incl calls (entries (root m)) /\ NoDup calls /\
  (forall e, In e (entries (root m')) <->
             In e (entries (root m)) /\ ~ (In e calls /\ g (fst e) (snd e) = false)) /\
  (panicked = false ->
     entries (root m') = filter (fun e => g (fst e) (snd e)) (entries (root m)) /\
     Permutation calls (entries (root m)) /\
     (forall e, In e (entries (root m')) <-> In e (entries (root m)) /\ g (fst e) (snd e) = true)) /\
  (panicked = true -> panics (length calls) = true /\ length calls < length (entries (root m))) /\
  (panicked = false <-> forall k, k < length (entries (root m)) -> panics k = false).
Proof.
  intros Hwf H.
  destruct (retain_spec pf g pf_ok _ _ _ _ Hwf H) as [W [Pans [Pincl [Pnd [Pkept [Pdone Ppan]]]]]].
  assert (Pk : forall k, k < length calls -> panics k = false).
  { intros k Hk. apply (answered_pf 0 calls Pans k Hk). }
  assert (Pp : panicked = true -> panics (length calls) = true /\ length calls < length (entries (root m))).
  { intros Hp. destruct (Ppan Hp) as [e [He [Hne Hpan]]]. split.
    - unfold pf in Hpan. destruct (panics (length calls)); [reflexivity|discriminate].
    - assert (Hl : length (e :: calls) <= length (entries (root m))).
      { apply NoDup_incl_length.
        - constructor; assumption.
        - intros e' [<-|He']; [exact He | apply Pincl; exact He']. }
      cbn in Hl. lia. }
  split; [exact W|]. split; [exact Pk|]. split; [exact Pincl|]. split; [exact Pnd|].
  split; [exact Pkept|]. split; [exact Pdone|]. split; [exact Pp|].
  split.
  - intros Hp k Hk. apply Pk. destruct (Pdone Hp) as [_ [Perm _]].
    rewrite (Permutation_length Perm). exact Hk.
  - intros Hall. destruct panicked; [|reflexivity]. destruct (Pp eq_refl) as [A B].
    rewrite (Hall _ B) in A. discriminate A.
Qed.

End P.

End RT.

Print Assumptions ret_wf.
Print Assumptions retain_wf.
Print Assumptions ret_calls.
Print Assumptions retain_spec.
Print Assumptions ret_pf_spec.
Print Assumptions retain_pf_spec.
