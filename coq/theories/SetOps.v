(** The model of [src/trieview/{union,intersection,difference}.rs]: the simultaneous traversals
    of two tries as instances of the generic stack machine.  Stack entries hold *subtrees*.
    Each Rust file has its own copies of [next_indices*]/[extend_lpm] and a hand-duplicated
    [*Mut] iterator; each is transcribed separately here. *)
From Coq Require Import List NArith ZArith Bool.
From PT Require Import Machine Trie.
Import ListNotations.

Section S.
Variables (pfx L R : Type).
Variables (contains : pfx -> pfx -> bool) (is_bit_set : pfx -> N -> bool)
          (plen : pfx -> N) (pzero : pfx) (mcmp : pfx -> pfx -> comparison).
Notation treeL := (tree pfx L).
Notation treeR := (tree pfx R).
Notation to_right := (to_right pfx is_bit_set plen).
Notation tpL := (tpfx pfx L pzero).
Notation tpR := (tpfx pfx R pzero).

Definition lpmL := option (pfx * L).
Definition lpmR := option (pfx * R).
Definition orelse {A} (a b : option A) : option A := match a with Some _ => a | None => b end.
Definition idval {T} (t : tree pfx T) : option (N * T) :=
  match t with Node i _ (Some x) _ _ => Some (i, x) | _ => None end.

(* ------------------------------------------------------------------------------------------ *)
(** * union.rs *)

Inductive uidx :=
| UBoth (l : treeL) (r : treeR) | UFirstL (l : treeL) (r : treeR) | UFirstR (l : treeL) (r : treeR)
| UOnlyL (l : treeL) | UOnlyR (r : treeR).
Definition uentry := (uidx * lpmL * lpmR)%type.
Inductive uitem :=
| ILeft (p : pfx) (l : L) (r : lpmR)
| IRight (p : pfx) (l : lpmL) (r : R)
| IBoth (p : pfx) (l : L) (r : R).

Definition u_next_indices (a : treeL) (b : treeR) : list uidx :=
  match is_node a, is_node b with
  | false, true => [UOnlyR b]
  | true, false => [UOnlyL a]
  | false, false => []
  | true, true =>
    let pa := tpL a in let pb := tpR b in
    if (plen pa =? plen pb)%N then
      match mcmp pa pb with
      | Lt => [UOnlyR b; UOnlyL a]
      | Eq => [UBoth a b]
      | Gt => [UOnlyL a; UOnlyR b]
      end
    else if contains pa pb then [UFirstL a b]
    else if contains pb pa then [UFirstR a b]
    else match mcmp pa pb with
         | Lt => [UOnlyR b; UOnlyL a]
         | _ => [UOnlyL a; UOnlyR b]
         end
  end.

Definition u_next_first_l (l : treeL) (r : treeR) : list uidx :=
  let ll := tleft l in let lr := tright l in
  match is_node ll, is_node lr with
  | false, false => [UOnlyR r]
  | false, true => u_next_indices lr r
  | true, false => u_next_indices ll r
  | true, true =>
    if to_right (tpL l) (tpR r) then u_next_indices lr r ++ [UOnlyL ll]
    else UOnlyL lr :: u_next_indices ll r
  end.

Definition u_next_first_r (l : treeL) (r : treeR) : list uidx :=
  let rl := tleft r in let rr := tright r in
  match is_node rl, is_node rr with
  | false, false => [UOnlyL l]
  | false, true => u_next_indices l rr
  | true, false => u_next_indices l rl
  | true, true =>
    if to_right (tpR r) (tpL l) then u_next_indices l rr ++ [UOnlyR rl]
    else UOnlyR rr :: u_next_indices l rl
  end.

Definition u_extend_lpm (ll : lpmL) (lr : lpmR) (xs : list uidx) : list uentry :=
  map (fun x => match x with
                | UBoth l r => (x, orelse (pv l) ll, orelse (pv r) lr)
                | UFirstL l _ | UOnlyL l => (x, orelse (pv l) ll, lr)
                | UFirstR _ r | UOnlyR r => (x, ll, orelse (pv r) lr)
                end) xs.

Definition u_get_next (p : pfx) (l : option L) (r : option R) (ll : lpmL) (lr : lpmR) : option uitem :=
  match l, r with
  | None, None => None
  | None, Some y => Some (IRight p ll y)
  | Some x, None => Some (ILeft p x lr)
  | Some x, Some y => Some (IBoth p x y)
  end.

Definition u_only_l (t : treeL) : list uidx :=
  (if is_node (tright t) then [UOnlyL (tright t)] else []) ++
  (if is_node (tleft t) then [UOnlyL (tleft t)] else []).
Definition u_only_r (t : treeR) : list uidx :=
  (if is_node (tright t) then [UOnlyR (tright t)] else []) ++
  (if is_node (tleft t) then [UOnlyR (tleft t)] else []).

(** one iteration of [Union::next]'s loop *)
Definition u_expand (e : uentry) : option uitem * list uentry :=
  let '(cur, ll, lr) := e in
  match cur with
  | UBoth l r =>
    (* the prefix of the node that holds the entry; the left one if both do *)
    (u_get_next (if is_some (tval l) then tpL l else tpR r) (tval l) (tval r) ll lr,
     u_extend_lpm ll lr (u_next_indices (tright l) (tright r)) ++
     u_extend_lpm ll lr (u_next_indices (tleft l) (tleft r)))
  | UFirstL l r => (u_get_next (tpL l) (tval l) None ll lr, u_extend_lpm ll lr (u_next_first_l l r))
  | UFirstR l r => (u_get_next (tpR r) None (tval r) ll lr, u_extend_lpm ll lr (u_next_first_r l r))
  | UOnlyL l => (u_get_next (tpL l) (tval l) None ll lr, u_extend_lpm ll lr (u_only_l l))
  | UOnlyR r => (u_get_next (tpR r) None (tval r) ll lr, u_extend_lpm ll lr (u_only_r r))
  end.

Definition so_fuel (a : treeL) (b : treeR) : nat := S (tsize a + tsize b).

(** [TrieView::union]: the inherited matches start empty *)
Definition union (a : treeL) (b : treeR) : option (list uitem) :=
  run uentry uitem u_expand (so_fuel a b) (rev (u_extend_lpm None None (u_next_indices a b))).

(** [UnionMut]: no LPM bookkeeping; items are (prefix, left slot+value, right slot+value) *)
Definition umitem := (pfx * option (N * L) * option (N * R))%type.
Definition um_expand (cur : uidx) : option umitem * list uidx :=
  match cur with
  | UBoth l r =>
    ((if is_some (tval l) || is_some (tval r)
      then Some ((if is_some (tval l) then tpL l else tpR r), idval l, idval r) else None),
     u_next_indices (tright l) (tright r) ++ u_next_indices (tleft l) (tleft r))
  | UFirstL l r =>
    ((if is_some (tval l) then Some (tpL l, idval l, None) else None), u_next_first_l l r)
  | UFirstR l r =>
    ((if is_some (tval r) then Some (tpR r, None, idval r) else None), u_next_first_r l r)
  | UOnlyL l => ((if is_some (tval l) then Some (tpL l, idval l, None) else None), u_only_l l)
  | UOnlyR r => ((if is_some (tval r) then Some (tpR r, None, idval r) else None), u_only_r r)
  end.
Definition union_mut (a : treeL) (b : treeR) : option (list umitem) :=
  run uidx umitem um_expand (so_fuel a b) (rev (u_next_indices a b)).

(* ------------------------------------------------------------------------------------------ *)
(** * intersection.rs *)

Inductive iidx := IxBoth (l : treeL) (r : treeR) | IxFirstA (l : treeL) (r : treeR) | IxFirstB (l : treeL) (r : treeR).

Definition i_next_indices (a : treeL) (b : treeR) : list iidx :=
  match is_node a, is_node b with
  | true, true =>
    let pa := tpL a in let pb := tpR b in
    if (plen pa =? plen pb)%N then
      match mcmp pa pb with Eq => [IxBoth a b] | _ => [] end
    else if contains pa pb then [IxFirstA a b]
    else if contains pb pa then [IxFirstB a b]
    else []
  | _, _ => []
  end.
Definition i_next_first_a (l : treeL) (r : treeR) : list iidx :=
  let ll := tleft l in let lr := tright l in
  match is_node ll, is_node lr with
  | false, false => []
  | false, true => i_next_indices lr r
  | true, false => i_next_indices ll r
  | true, true => if to_right (tpL l) (tpR r) then i_next_indices lr r else i_next_indices ll r
  end.
Definition i_next_first_b (l : treeL) (r : treeR) : list iidx :=
  let rl := tleft r in let rr := tright r in
  match is_node rl, is_node rr with
  | false, false => []
  | false, true => i_next_indices l rr
  | true, false => i_next_indices l rl
  | true, true => if to_right (tpR r) (tpL l) then i_next_indices l rr else i_next_indices l rl
  end.

Definition i_expand (cur : iidx) : option (pfx * L * R) * list iidx :=
  match cur with
  | IxBoth l r =>
    (match tval l, tval r with Some x, Some y => Some (tpL l, x, y) | _, _ => None end,
     i_next_indices (tright l) (tright r) ++ i_next_indices (tleft l) (tleft r))
  | IxFirstA l r => (None, i_next_first_a l r)
  | IxFirstB l r => (None, i_next_first_b l r)
  end.
Definition intersection (a : treeL) (b : treeR) : option (list (pfx * L * R)) :=
  run iidx (pfx * L * R) i_expand (so_fuel a b) (rev (i_next_indices a b)).

Definition imitem := (pfx * (N * L) * (N * R))%type.
Definition im_expand (cur : iidx) : option imitem * list iidx :=
  match cur with
  | IxBoth l r =>
    (match idval l, idval r with Some x, Some y => Some (tpL l, x, y) | _, _ => None end,
     i_next_indices (tright l) (tright r) ++ i_next_indices (tleft l) (tleft r))
  | IxFirstA l r => (None, i_next_first_a l r)
  | IxFirstB l r => (None, i_next_first_b l r)
  end.
Definition intersection_mut (a : treeL) (b : treeR) : option (list imitem) :=
  run iidx imitem im_expand (so_fuel a b) (rev (i_next_indices a b)).

(* ------------------------------------------------------------------------------------------ *)
(** * difference.rs *)

Inductive didx :=
| DBoth (l : treeL) (r : treeR) | DFirstL (l : treeL) (r : treeR) | DFirstR (l : treeL) (r : treeR)
| DOnlyL (l : treeL).

Definition d_next_indices (a : treeL) (b : treeR) : list didx :=
  match is_node a, is_node b with
  | false, _ => []
  | true, false => [DOnlyL a]
  | true, true =>
    let pa := tpL a in let pb := tpR b in
    if (plen pa =? plen pb)%N then
      match mcmp pa pb with Eq => [DBoth a b] | _ => [DOnlyL a] end
    else if contains pa pb then [DFirstL a b]
    else if contains pb pa then [DFirstR a b]
    else [DOnlyL a]
  end.
Definition d_next_first_a (l : treeL) (r : treeR) : list didx :=
  let ll := tleft l in let lr := tright l in
  match is_node ll, is_node lr with
  | false, false => []
  | false, true => d_next_indices lr r
  | true, false => d_next_indices ll r
  | true, true =>
    if to_right (tpL l) (tpR r) then d_next_indices lr r ++ [DOnlyL ll]
    else DOnlyL lr :: d_next_indices ll r
  end.
Definition d_next_first_b (l : treeL) (r : treeR) : list didx :=
  let rl := tleft r in let rr := tright r in
  match is_node rl, is_node rr with
  | false, false => [DOnlyL l]
  | false, true => d_next_indices l rr
  | true, false => d_next_indices l rl
  | true, true => if to_right (tpR r) (tpL l) then d_next_indices l rr else d_next_indices l rl
  end.
Definition d_extend_lpm (lr : lpmR) (xs : list didx) : list (didx * lpmR) :=
  map (fun x => match x with
                | DBoth _ r | DFirstR _ r => (x, orelse (pv r) lr)
                | DFirstL _ _ | DOnlyL _ => (x, lr)
                end) xs.
Definition d_only_l (t : treeL) : list didx :=
  (if is_node (tright t) then [DOnlyL (tright t)] else []) ++
  (if is_node (tleft t) then [DOnlyL (tleft t)] else []).

Definition ditem := (pfx * L * lpmR)%type.
Definition d_expand (e : didx * lpmR) : option ditem * list (didx * lpmR) :=
  let '(cur, lr) := e in
  match cur with
  | DBoth l r =>
    (match tval l with
     | Some x => if is_none (tval r) then Some (tpL l, x, lr) else None
     | None => None end,
     d_extend_lpm lr (d_next_indices (tright l) (tright r)) ++
     d_extend_lpm lr (d_next_indices (tleft l) (tleft r)))
  | DFirstL l r =>
    (match tval l with Some x => Some (tpL l, x, lr) | None => None end,
     d_extend_lpm lr (d_next_first_a l r))
  | DFirstR l r => (None, d_extend_lpm lr (d_next_first_b l r))
  | DOnlyL l =>
    (match tval l with Some x => Some (tpL l, x, lr) | None => None end,
     d_extend_lpm lr (d_only_l l))
  end.
(** [TrieView::difference]: the inherited match starts empty *)
Definition difference (a : treeL) (b : treeR) : option (list ditem) :=
  run (didx * lpmR)%type ditem d_expand (so_fuel a b) (rev (d_extend_lpm None (d_next_indices a b))).

Definition dmitem := (pfx * (N * L) * lpmR)%type.
Definition dm_expand (e : didx * lpmR) : option dmitem * list (didx * lpmR) :=
  let '(cur, lr) := e in
  match cur with
  | DBoth l r =>
    (match idval l with
     | Some x => if is_none (tval r) then Some (tpL l, x, lr) else None
     | None => None end,
     d_extend_lpm lr (d_next_indices (tright l) (tright r)) ++
     d_extend_lpm lr (d_next_indices (tleft l) (tleft r)))
  | DFirstL l r =>
    (match idval l with Some x => Some (tpL l, x, lr) | None => None end,
     d_extend_lpm lr (d_next_first_a l r))
  | DFirstR l r => (None, d_extend_lpm lr (d_next_first_b l r))
  | DOnlyL l =>
    (match idval l with Some x => Some (tpL l, x, lr) | None => None end,
     d_extend_lpm lr (d_only_l l))
  end.
Definition difference_mut (a : treeL) (b : treeR) : option (list dmitem) :=
  run (didx * lpmR)%type dmitem dm_expand (so_fuel a b) (rev (d_extend_lpm None (d_next_indices a b))).

(** covering difference: a valued right node drops the entry ([continue]) *)
Definition cd_expand (cur : didx) : option (pfx * L) * list didx :=
  match cur with
  | DBoth l r =>
    if is_some (tval r) then (None, []) else
    (match tval l with Some x => Some (tpL l, x) | None => None end,
     d_next_indices (tright l) (tright r) ++ d_next_indices (tleft l) (tleft r))
  | DFirstL l r =>
    (match tval l with Some x => Some (tpL l, x) | None => None end, d_next_first_a l r)
  | DFirstR l r =>
    if is_some (tval r) then (None, []) else (None, d_next_first_b l r)
  | DOnlyL l => (match tval l with Some x => Some (tpL l, x) | None => None end, d_only_l l)
  end.
Definition covering_difference (a : treeL) (b : treeR) : option (list (pfx * L)) :=
  run didx (pfx * L) cd_expand (so_fuel a b) (rev (d_next_indices a b)).

Definition cdm_expand (cur : didx) : option (pfx * (N * L)) * list didx :=
  match cur with
  | DBoth l r =>
    if is_some (tval r) then (None, []) else
    (match idval l with Some x => Some (tpL l, x) | None => None end,
     d_next_indices (tright l) (tright r) ++ d_next_indices (tleft l) (tleft r))
  | DFirstL l r =>
    (match idval l with Some x => Some (tpL l, x) | None => None end, d_next_first_a l r)
  | DFirstR l r =>
    if is_some (tval r) then (None, []) else (None, d_next_first_b l r)
  | DOnlyL l => (match idval l with Some x => Some (tpL l, x) | None => None end, d_only_l l)
  end.
Definition covering_difference_mut (a : treeL) (b : treeR) : option (list (pfx * (N * L))) :=
  run didx (pfx * (N * L)) cdm_expand (so_fuel a b) (rev (d_next_indices a b)).

End S.
