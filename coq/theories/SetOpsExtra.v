(** Corollaries of the set-operation theorems ([UnionThm.v], [InterDiffThm.v]) in the form quoted
    by the property files C05–C08: for arbitrary pairs of well-formed subtrees [ta] (under any
    bound [ba]) and [tb] (under any bound [bb]; no relation between [ba] and [bb] is assumed), and
    for the output [out] of the machine,

    - keys of [out] strictly ascending, hence without repetition; exact membership of keys;
    - which stored representation and which values an item carries;
    - the list forms of difference / covering difference ([filter]) and their edge cases;
    - the longest-prefix-match annotations: [None] exactly when nothing covers, the match covers
      the key, the annotation is unique and equals [get_lpm] of any whole map with those entries;
    - view-level forms ([view_wf] views: the operand is the subtree at the view's real node). *)
From Coq Require Import List NArith ZArith Bool Arith Lia Sorted.
From PT Require Import Bits BitsThm Laws Machine MachineThm Trie Views TrieWf Lookup ViewsThm SetOps.
From PT Require UnionThm InterDiffThm.
Import ListNotations.

(* ------------------------------------------------------------------------------------------ *)
(** * List facts *)

Lemma ss_map {A B} (f : A -> B) (Rb : B -> B -> Prop) (l : list A) :
  StronglySorted (fun i j => Rb (f i) (f j)) l -> StronglySorted Rb (map f l).
Proof.
  induction 1 as [|x l Hs IH Hf]; cbn [map]; constructor; [exact IH|].
  rewrite Forall_forall in *. intros y Hy. apply in_map_iff in Hy. destruct Hy as [z [<- Hz]].
  apply Hf. exact Hz.
Qed.

(** a list of keys that is strictly ascending in the iteration order has no repetition *)
Lemma ss_lex_nodup (ks : list (list bool)) : StronglySorted lex_lt ks -> NoDup ks.
Proof.
  induction 1 as [|k ks Hs IH Hf]; constructor; [|exact IH].
  intros Hin. rewrite Forall_forall in Hf. exact (lex_lt_irrefl _ (Hf _ Hin)).
Qed.

Lemma ss_filter {A} (Rl : A -> A -> Prop) (f : A -> bool) (l : list A) :
  StronglySorted Rl l -> StronglySorted Rl (filter f l).
Proof.
  induction 1 as [|x l Hs IH Hf]; cbn [filter]; [constructor|].
  destruct (f x); [|exact IH]. constructor; [exact IH|].
  rewrite Forall_forall in *. intros y Hy. apply filter_In in Hy. apply Hf. tauto.
Qed.

Lemma filter_all {A} (f : A -> bool) (l : list A) : (forall x, In x l -> f x = true) -> filter f l = l.
Proof.
  induction l as [|x l IH]; intros H; cbn [filter]; [reflexivity|].
  rewrite (H x (or_introl eq_refl)). f_equal. apply IH. intros y Hy. apply H. right. exact Hy.
Qed.

Lemma filter_none {A} (f : A -> bool) (l : list A) : (forall x, In x l -> f x = false) -> filter f l = [].
Proof.
  induction l as [|x l IH]; intros H; cbn [filter]; [reflexivity|].
  rewrite (H x (or_introl eq_refl)). apply IH. intros y Hy. apply H. right. exact Hy.
Qed.

Section SX.
Variables (pfx L R : Type).
Variables (peq contains : pfx -> pfx -> bool) (is_bit_set : pfx -> N -> bool)
          (plen : pfx -> N) (lcp : pfx -> pfx -> pfx) (pzero : pfx)
          (mcmp : pfx -> pfx -> comparison).
Variable bits : pfx -> list bool.
Variable ok : pfx -> Prop.
Hypothesis LAWS : prefix_laws pfx peq contains is_bit_set plen lcp pzero mcmp bits ok.

Notation treeL := (tree pfx L).
Notation treeR := (tree pfx R).
Notation wfL := (wf_under pfx L bits ok).
Notation wfR := (wf_under pfx R bits ok).
Notation keyL := (TrieWf.key pfx L bits).
Notation keyR := (TrieWf.key pfx R bits).
Notation uitem := (SetOps.uitem pfx L R).
Notation umitem := (SetOps.umitem pfx L R).
Notation lpmR := (SetOps.lpmR pfx R).
Notation ikey := (UnionThm.ikey pfx L R bits).
Notation union_spec := (UnionThm.union_spec pfx L R bits).
Notation inter_spec := (InterDiffThm.inter_spec pfx L R bits).
Notation diff_spec := (InterDiffThm.diff_spec pfx L R bits).
Notation cdiff_spec := (InterDiffThm.cdiff_spec pfx L R bits).
Notation union := (SetOps.union pfx L R contains is_bit_set plen pzero mcmp).
Notation union_mut := (SetOps.union_mut pfx L R contains is_bit_set plen pzero mcmp).
Notation intersection := (SetOps.intersection pfx L R contains is_bit_set plen pzero mcmp).
Notation intersection_mut := (SetOps.intersection_mut pfx L R contains is_bit_set plen pzero mcmp).
Notation difference := (SetOps.difference pfx L R contains is_bit_set plen pzero mcmp).
Notation difference_mut := (SetOps.difference_mut pfx L R contains is_bit_set plen pzero mcmp).
Notation covering_difference := (SetOps.covering_difference pfx L R contains is_bit_set plen pzero mcmp).
Notation covering_difference_mut :=
  (SetOps.covering_difference_mut pfx L R contains is_bit_set plen pzero mcmp).

#[local] Arguments SetOps.ILeft {pfx L R}.
#[local] Arguments SetOps.IRight {pfx L R}.
#[local] Arguments SetOps.IBoth {pfx L R}.

(* ------------------------------------------------------------------------------------------ *)
(** * Longest-prefix-match annotations (generic in the value type) *)

Section Ann.
Variable T : Type.
Notation is_lpmT := (Lookup.is_lpm pfx T bits).
Notation no_coverT := (Lookup.no_cover pfx T bits).

(** [ann] is the longest-prefix match of [p] among the entries [B]; [None] iff nothing covers
    (the same definition as [UnionThm.lpm_ann] and [InterDiffThm.lpm_ann]) *)
Definition lpm_ann (B : list (pfx * T)) (p : pfx) (ann : option (pfx * T)) : Prop :=
  match ann with
  | Some e => is_lpmT B p e
  | None => no_coverT B p
  end.

Lemma lpm_ann_none_iff B p ann : lpm_ann B p ann -> (ann = None <-> no_coverT B p).
Proof.
  destruct ann as [e|]; cbn [lpm_ann]; intros H; split; intros H'; try discriminate; try assumption;
    try reflexivity.
  exfalso. destruct H as [Hin [Hc _]]. exact (H' e Hin Hc).
Qed.

(** a reported match is a stored entry covering the item's key, and the most specific such *)
Lemma lpm_ann_some B p e : lpm_ann B p (Some e) ->
  In e B /\ prefix_of (bits (fst e)) (bits p) /\
  forall e', In e' B -> prefix_of (bits (fst e')) (bits p) -> length (bits (fst e')) <= length (bits (fst e)).
Proof. intros H. exact H. Qed.

Lemma lpm_ann_unique b (t : tree pfx T) p a1 a2 :
  wf_under pfx T bits ok b t -> lpm_ann (entries t) p a1 -> lpm_ann (entries t) p a2 -> a1 = a2.
Proof.
  intros Hwf H1 H2. destruct a1 as [e1|], a2 as [e2|]; cbn [lpm_ann] in *.
  - f_equal. eapply (is_lpm_unique pfx T bits ok); eassumption.
  - exfalso. destruct H1 as [Hin [Hc _]]. exact (H2 _ Hin Hc).
  - exfalso. destruct H2 as [Hin [Hc _]]. exact (H1 _ Hin Hc).
  - reflexivity.
Qed.

(** the annotation is what [get_lpm] answers on ANY well-formed whole map holding exactly the
    entries [B] *)
Lemma lpm_ann_get_lpm (Tm : tree pfx T) B p ann :
  wf_root pfx T bits ok Tm -> entries Tm = B -> ok p -> lpm_ann B p ann ->
  Trie.get_lpm pfx T peq contains is_bit_set plen Tm p = ann.
Proof.
  intros Hwf <- Hp Hann.
  assert (Hu : wf_under pfx T bits ok [] Tm) by (destruct Tm as [|i q v l r]; [destruct Hwf | exact (proj2 Hwf)]).
  pose proof (get_lpm_spec pfx T _ _ _ _ _ _ _ _ _ LAWS [] Tm p Hu Hp
                (wf_root_covers pfx T bits ok Tm p Hwf)) as G.
  eapply lpm_ann_unique; [exact Hu | exact G | exact Hann].
Qed.
End Ann.
Arguments lpm_ann {T}.

(* ------------------------------------------------------------------------------------------ *)
(** * Views as operands *)

(** the operand a view denotes — the subtree at its real node — is well-formed under its own
    root key, which the view's prefix covers *)
Lemma view_operand {T} (v : view pfx T) : view_wf pfx T pzero bits ok v ->
  wf_under pfx T bits ok (bits (tpfx pfx T pzero (v_tree v))) (v_tree v) /\
  prefix_of (bits (v_prefix pfx T pzero v)) (bits (tpfx pfx T pzero (v_tree v))).
Proof.
  intros [Hn [[b Hwf] Hv]].
  destruct v as [t|p t]; cbn [v_tree Views.v_prefix] in *;
    (destruct t as [|i p0 v0 l r]; [discriminate|]); cbn [tpfx].
  - split; [eapply wf_self; exact Hwf | apply prefix_of_refl].
  - split; [eapply wf_self; exact Hwf | exact (proj1 (proj2 Hv))].
Qed.

Lemma view_operand_wf {T} (v : view pfx T) : view_wf pfx T pzero bits ok v ->
  exists b, wf_under pfx T bits ok b (v_tree v).
Proof. intros H. exact (proj1 (proj2 H)). Qed.

(** [view_at] of a well-formed whole map yields a well-formed view (as do [find], [left],
    [right] of a well-formed view: [ViewsThm.v_find_spec], [v_side_spec]) *)
Lemma view_at_wf {T} (Tm : tree pfx T) q v :
  wf_root pfx T bits ok Tm -> ok q ->
  view_at pfx T peq contains is_bit_set plen Tm q = Some v -> view_wf pfx T pzero bits ok v.
Proof.
  intros HT Hq E.
  pose proof (v_find_spec pfx T _ _ _ _ _ _ _ _ _ LAWS (view_of Tm) q
                (view_wf_root pfx T pzero bits ok Tm HT) Hq) as H.
  unfold view_at in E. rewrite E in H. exact (proj1 H).
Qed.

(* ------------------------------------------------------------------------------------------ *)
(** * union *)

Definition iprefix (it : uitem) : pfx :=
  match it with ILeft p _ _ | IRight p _ _ | IBoth p _ _ => p end.
Definition ilval (it : uitem) : option L :=
  match it with ILeft _ l _ | IBoth _ l _ => Some l | IRight _ _ _ => None end.
Definition irval (it : uitem) : option R :=
  match it with IRight _ _ r | IBoth _ _ r => Some r | ILeft _ _ _ => None end.

Lemma union_some ba bb (ta : treeL) (tb : treeR) out :
  wfL ba ta -> wfR bb tb -> union ta tb = Some out -> union_spec (entries ta) (entries tb) out.
Proof.
  intros Ha Hb E.
  destruct (UnionThm.union_correct pfx L R _ _ _ _ _ _ _ _ _ LAWS ba bb ta tb Ha Hb) as [out' [E' U]].
  rewrite E in E'. injection E' as <-. exact U.
Qed.

Section USpec.
Variables (A : list (pfx * L)) (B : list (pfx * R)) (out : list uitem).
Hypothesis U : union_spec A B out.

Lemma union_keys_sorted : StronglySorted lex_lt (map ikey out).
Proof. apply ss_map. exact (proj1 U). Qed.

Lemma union_keys_nodup : NoDup (map ikey out).
Proof. apply ss_lex_nodup. exact union_keys_sorted. Qed.

Lemma union_keys_iff k : In k (map ikey out) <-> In k (map keyL A) \/ In k (map keyR B).
Proof.
  destruct U as (_ & Hi & Hca & Hcb). split.
  - intros Hin. apply in_map_iff in Hin. destruct Hin as [it [<- Hit]].
    specialize (Hi it Hit). destruct it as [p l ann|p ann r|p l r]; cbn [UnionThm.ikey].
    + left. apply in_map_iff. exists (p, l). split; [reflexivity | apply Hi].
    + right. apply in_map_iff. exists (p, r). split; [reflexivity | apply Hi].
    + left. apply in_map_iff. exists (p, l). split; [reflexivity | apply Hi].
  - intros [Hin|Hin]; apply in_map_iff in Hin; destruct Hin as [e [<- He]].
    + destruct (Hca e He) as [it [Hit Hk]]. apply in_map_iff. exists it. split; [exact Hk | exact Hit].
    + destruct (Hcb e He) as [it [Hit Hk]]. apply in_map_iff. exists it. split; [exact Hk | exact Hit].
Qed.

(** the presence pattern: an item has a left value exactly when its key is stored on the left,
    a right value exactly when it is stored on the right (hence [Both] iff stored in both,
    [Left] iff on the left only, [Right] iff on the right only) *)
Lemma union_presence it : In it out ->
  (ilval it <> None <-> In (ikey it) (map keyL A)) /\
  (irval it <> None <-> In (ikey it) (map keyR B)).
Proof.
  destruct U as (_ & Hi & _ & _). intros Hit. specialize (Hi it Hit).
  destruct it as [p l ann|p ann r|p l r]; cbn [ilval irval UnionThm.ikey].
  - destruct Hi as (H1 & H2 & _). split; split; try discriminate; try congruence.
    + intros _. apply in_map_iff. exists (p, l). split; [reflexivity | exact H1].
    + intros Hin. apply in_map_iff in Hin. destruct Hin as [e [Hk He]]. exfalso. exact (H2 e He Hk).
  - destruct Hi as (H1 & H2 & _). split; split; try discriminate; try congruence.
    + intros Hin. apply in_map_iff in Hin. destruct Hin as [e [Hk He]]. exfalso. exact (H2 e He Hk).
    + intros _. apply in_map_iff. exists (p, r). split; [reflexivity | exact H1].
  - destruct Hi as (H1 & pr & H2 & H3). split; split; try discriminate.
    + intros _. apply in_map_iff. exists (p, l). split; [reflexivity | exact H1].
    + intros _. apply in_map_iff. exists (pr, r). split; [exact H3 | exact H2].
Qed.

(** every value an item carries is stored under the item's key in the respective operand; the
    reported prefix is the stored representation of the left entry when there is one, otherwise
    that of the right entry *)
Lemma union_item_sound it : In it out ->
  (forall l, ilval it = Some l -> In (iprefix it, l) A) /\
  (forall r, irval it = Some r -> exists pr, In (pr, r) B /\ bits pr = ikey it) /\
  (forall r, ilval it = None -> irval it = Some r -> In (iprefix it, r) B).
Proof.
  destruct U as (_ & Hi & _ & _). intros Hit. specialize (Hi it Hit).
  destruct it as [p l ann|p ann r|p l r]; cbn [ilval irval iprefix UnionThm.ikey].
  - split; [|split]; [intros l0 E; injection E as <-; apply Hi | discriminate | discriminate].
  - split; [|split]; [discriminate| |].
    + intros r0 E. injection E as <-. exists p. split; [apply Hi | reflexivity].
    + intros r0 _ E. injection E as <-. apply Hi.
  - destruct Hi as (H1 & pr & H2 & H3). split; [|split]; [| |discriminate].
    + intros l0 E. injection E as <-. exact H1.
    + intros r0 E. injection E as <-. exists pr. split; assumption.
Qed.
End USpec.

(** conversely: every stored entry is carried by the (unique) item of its key *)
Lemma union_item_left ba (ta : treeL) B out p l :
  wfL ba ta -> union_spec (entries ta) B out -> In (p, l) (entries ta) ->
  exists it, In it out /\ iprefix it = p /\ ilval it = Some l.
Proof.
  intros Ha U Hin. destruct U as (_ & Hi & Hca & _).
  destruct (Hca _ Hin) as [it [Hit Hk]]. cbn [fst] in Hk. exists it. split; [exact Hit|].
  specialize (Hi it Hit).
  assert (inj : forall p' l', In (p', l') (entries ta) -> bits p' = bits p -> (p', l') = (p, l)).
  { intros p' l' H' E. eapply (entries_key_inj pfx L bits ok); [exact Ha | exact H' | exact Hin | exact E]. }
  destruct it as [p' l' ann|p' ann r|p' l' r]; cbn [iprefix ilval UnionThm.ikey] in *.
  - destruct Hi as (H1 & _). pose proof (inj _ _ H1 Hk) as E. injection E as -> ->. split; reflexivity.
  - destruct Hi as (_ & H2 & _). exfalso. apply (H2 _ Hin). cbn [fst]. symmetry. exact Hk.
  - destruct Hi as (H1 & _). pose proof (inj _ _ H1 Hk) as E. injection E as -> ->. split; reflexivity.
Qed.

Lemma union_item_right bb A (tb : treeR) out pr r :
  wfR bb tb -> union_spec A (entries tb) out -> In (pr, r) (entries tb) ->
  exists it, In it out /\ ikey it = bits pr /\ irval it = Some r /\ (ilval it = None -> iprefix it = pr).
Proof.
  intros Hb U Hin. destruct U as (_ & Hi & _ & Hcb).
  destruct (Hcb _ Hin) as [it [Hit Hk]]. cbn [fst] in Hk. exists it. split; [exact Hit|]. split; [exact Hk|].
  specialize (Hi it Hit).
  assert (inj : forall p' r', In (p', r') (entries tb) -> bits p' = bits pr -> (p', r') = (pr, r)).
  { intros p' r' H' E. eapply (entries_key_inj pfx R bits ok); [exact Hb | exact H' | exact Hin | exact E]. }
  destruct it as [p' l' ann|p' ann r'|p' l' r']; cbn [iprefix ilval irval UnionThm.ikey] in *.
  - destruct Hi as (_ & H2 & _). exfalso. apply (H2 _ Hin). cbn [fst]. symmetry. exact Hk.
  - destruct Hi as (H1 & _). pose proof (inj _ _ H1 Hk) as E. injection E as -> ->. split; reflexivity.
  - destruct Hi as (_ & q & H2 & H3). pose proof (inj _ _ H2 (eq_trans H3 Hk)) as E. injection E as -> ->.
    split; [reflexivity | discriminate].
Qed.

(** the annotations of one-sided items *)
Lemma union_ann_left A B out p l ann : union_spec A B out -> In (ILeft p l ann) out -> lpm_ann B p ann.
Proof. intros (_ & Hi & _) Hit. exact (proj2 (proj2 (Hi _ Hit))). Qed.

Lemma union_ann_right A B out p ann r : union_spec A B out -> In (IRight p ann r) out -> lpm_ann A p ann.
Proof. intros (_ & Hi & _) Hit. exact (proj2 (proj2 (Hi _ Hit))). Qed.

Lemma union_left_ok ba (ta : treeL) B out p l ann :
  wfL ba ta -> union_spec (entries ta) B out -> In (ILeft p l ann) out -> ok p.
Proof.
  intros Ha (_ & Hi & _) Hit. exact (entries_ok pfx L bits ok ba ta (p, l) Ha (proj1 (Hi _ Hit))).
Qed.

Lemma union_right_ok bb A (tb : treeR) out p ann r :
  wfR bb tb -> union_spec A (entries tb) out -> In (IRight p ann r) out -> ok p.
Proof.
  intros Hb (_ & Hi & _) Hit. exact (entries_ok pfx R bits ok bb tb (p, r) Hb (proj1 (Hi _ Hit))).
Qed.

(** ** [union_mut] *)
Definition projU (it : uitem) : pfx * option L * option R :=
  match it with
  | ILeft p l _ => (p, Some l, None)
  | IRight p _ r => (p, None, Some r)
  | IBoth p l r => (p, Some l, Some r)
  end.
Definition projM : umitem -> pfx * option L * option R :=
  fun '(p, l, r) => (p, option_map snd l, option_map snd r).

Lemma projU_parts it : projU it = (iprefix it, ilval it, irval it).
Proof. destruct it; reflexivity. Qed.

(** [union_mut] terminates and yields, item by item, the same prefix with the same presence
    pattern and the same values as [union] *)
Lemma union_mut_some ba bb (ta : treeL) (tb : treeR) :
  wfL ba ta -> wfR bb tb ->
  exists out outm, union ta tb = Some out /\ union_mut ta tb = Some outm /\
                   map projM outm = map projU out.
Proof.
  intros Ha Hb.
  destruct (UnionThm.union_mut_mirrors pfx L R _ _ _ _ _ _ _ _ _ LAWS ba bb ta tb Ha Hb)
    as (out & outm & E1 & E2 & M).
  exists out, outm. split; [exact E1|]. split; [exact E2|]. symmetry. exact M.
Qed.

Lemma union_mut_keys out outm : map projM outm = map projU out ->
  map (fun it : umitem => bits (fst (fst it))) outm = map ikey out.
Proof.
  intros M.
  assert (E1 : map (fun it : umitem => bits (fst (fst it))) outm
               = map (fun x => bits (fst (fst x))) (map projM outm)).
  { rewrite map_map. apply map_ext. intros [[p l] r]. reflexivity. }
  assert (E2 : map ikey out = map (fun x => bits (fst (fst x))) (map projU out)).
  { rewrite map_map. apply map_ext. intros it. destruct it; reflexivity. }
  rewrite E1, E2, M. reflexivity.
Qed.

(* ------------------------------------------------------------------------------------------ *)
(** * intersection *)

Notation ikey3 := (fun it : pfx * L * R => bits (fst (fst it))).

Lemma inter_some ba bb (ta : treeL) (tb : treeR) out :
  wfL ba ta -> wfR bb tb -> intersection ta tb = Some out -> inter_spec (entries ta) (entries tb) out.
Proof.
  intros Ha Hb E.
  destruct (InterDiffThm.intersection_correct pfx L R _ _ _ _ _ _ _ _ _ LAWS ba bb ta tb Ha Hb) as [out' [E' U]].
  rewrite E in E'. injection E' as <-. exact U.
Qed.

Section ISpec.
Variables (A : list (pfx * L)) (B : list (pfx * R)) (out : list (pfx * L * R)).
Hypothesis I : inter_spec A B out.

Lemma inter_keys_sorted : StronglySorted lex_lt (map ikey3 out).
Proof. apply ss_map. exact (proj1 I). Qed.

Lemma inter_keys_nodup : NoDup (map ikey3 out).
Proof. apply ss_lex_nodup. exact inter_keys_sorted. Qed.

Lemma inter_keys_iff k : In k (map ikey3 out) <-> In k (map keyL A) /\ In k (map keyR B).
Proof.
  destruct I as (_ & Hs & Hc). split.
  - intros Hin. apply in_map_iff in Hin. destruct Hin as [[[p l] r] [<- Hit]]. cbn [fst].
    destruct (Hs p l r Hit) as [H1 [pr [H2 H3]]]. split; apply in_map_iff.
    + exists (p, l). split; [reflexivity | exact H1].
    + exists (pr, r). split; [exact H3 | exact H2].
  - intros [H1 H2]. apply in_map_iff in H1. destruct H1 as [ea [<- Ha]].
    apply in_map_iff in H2. destruct H2 as [eb [Hk Hb]].
    apply in_map_iff. exists (fst ea, snd ea, snd eb). split; [reflexivity|].
    apply Hc; [exact Ha | exact Hb | symmetry; exact Hk].
Qed.
End ISpec.

(** two views whose prefixes are ⊑-incomparable have an empty intersection *)
Lemma intersection_disjoint_views (va : view pfx L) (vb : view pfx R) :
  view_wf pfx L pzero bits ok va -> view_wf pfx R pzero bits ok vb ->
  ~ prefix_of (bits (v_prefix pfx L pzero va)) (bits (v_prefix pfx R pzero vb)) ->
  ~ prefix_of (bits (v_prefix pfx R pzero vb)) (bits (v_prefix pfx L pzero va)) ->
  intersection (v_tree va) (v_tree vb) = Some [].
Proof.
  intros Ha Hb N1 N2. destruct (view_operand va Ha) as [Wa Pa]. destruct (view_operand vb Hb) as [Wb Pb].
  eapply (InterDiffThm.intersection_disjoint pfx L R _ _ _ _ _ _ _ _ _ LAWS); [exact Wa | exact Wb | |].
  - intros H. destruct (prefix_of_comparable _ _ _ (prefix_of_trans _ _ _ Pa H) Pb); contradiction.
  - intros H. destruct (prefix_of_comparable _ _ _ Pa (prefix_of_trans _ _ _ Pb H)); contradiction.
Qed.

(** [intersection_mut] terminates and yields the same (prefix, left value, right value) triples,
    with the slots of those entries *)
Lemma intersection_mut_some ba bb (ta : treeL) (tb : treeR) :
  wfL ba ta -> wfR bb tb ->
  exists out outm, intersection ta tb = Some out /\ intersection_mut ta tb = Some outm /\
    map (fun '(p, (_, l), (_, r)) => (p, l, r)) outm = out /\
    (forall p i l j r, In (p, (i, l), (j, r)) outm ->
       In (i, p, l) (entries_id ta) /\ exists pr, In (j, pr, r) (entries_id tb) /\ bits pr = bits p).
Proof.
  intros Ha Hb.
  destruct (InterDiffThm.intersection_mut_mirrors pfx L R _ _ _ _ _ _ _ _ _ LAWS ba bb ta tb Ha Hb)
    as (out & outm & E1 & E2 & M & S).
  exists out, outm. split; [exact E1|]. split; [exact E2|]. split; [symmetry; exact M | exact S].
Qed.

(* ------------------------------------------------------------------------------------------ *)
(** * difference *)

Notation ditem := (pfx * L * lpmR)%type.
Notation dkey := (fun it : ditem => bits (fst (fst it))).

Lemma diff_some ba bb (ta : treeL) (tb : treeR) out :
  wfL ba ta -> wfR bb tb -> difference ta tb = Some out -> diff_spec (entries ta) (entries tb) out.
Proof.
  intros Ha Hb E.
  destruct (InterDiffThm.difference_correct pfx L R _ _ _ _ _ _ _ _ _ LAWS ba bb ta tb Ha Hb) as [out' [E' U]].
  rewrite E in E'. injection E' as <-. exact U.
Qed.

(** the key of [e] is not stored in [B] (decidable form) *)
Definition key_absent (B : list (pfx * R)) (e : pfx * L) : bool :=
  negb (existsb (fun e' => Bits.beq (bits (fst e')) (bits (fst e))) B).
(** no key of [B] covers the key of [e] (decidable form) *)
Definition uncovered (B : list (pfx * R)) (e : pfx * L) : bool :=
  negb (existsb (fun e' => Bits.is_prefix (bits (fst e')) (bits (fst e))) B).

Lemma key_absent_spec B e : key_absent B e = true <-> forall e', In e' B -> bits (fst e') <> bits (fst e).
Proof.
  unfold key_absent. rewrite negb_true_iff. split.
  - intros H e' He' Hk. assert (X : existsb (fun e' => Bits.beq (bits (fst e')) (bits (fst e))) B = true).
    { apply existsb_exists. exists e'. split; [exact He' | apply InterDiffThm.beq_spec; exact Hk]. }
    rewrite X in H. discriminate.
  - intros H. destruct (existsb _ B) eqn:X; [|reflexivity]. exfalso.
    apply existsb_exists in X. destruct X as [e' [He' Hk]]. apply InterDiffThm.beq_spec in Hk.
    exact (H e' He' Hk).
Qed.

Lemma uncovered_spec B e :
  uncovered B e = true <-> forall e', In e' B -> ~ prefix_of (bits (fst e')) (bits (fst e)).
Proof.
  unfold uncovered. rewrite negb_true_iff. split.
  - intros H e' He' Hk. assert (X : existsb (fun e' => Bits.is_prefix (bits (fst e')) (bits (fst e))) B = true).
    { apply existsb_exists. exists e'. split; [exact He' | apply is_prefix_spec; exact Hk]. }
    rewrite X in H. discriminate.
  - intros H. destruct (existsb _ B) eqn:X; [|reflexivity]. exfalso.
    apply existsb_exists in X. destruct X as [e' [He' Hk]]. apply is_prefix_spec in Hk.
    exact (H e' He' Hk).
Qed.

(** the list form of [difference] *)
Lemma diff_filter ba bb (ta : treeL) (tb : treeR) out :
  wfL ba ta -> wfR bb tb -> difference ta tb = Some out ->
  map fst out = filter (key_absent (entries tb)) (entries ta).
Proof.
  intros Ha Hb E.
  destruct (InterDiffThm.difference_filter pfx L R _ _ _ _ _ _ _ _ _ LAWS ba bb ta tb Ha Hb) as [out' [E' U]].
  rewrite E in E'. injection E' as <-. exact U.
Qed.

Section DSpec.
Variables (A : list (pfx * L)) (B : list (pfx * R)) (out : list ditem).
Hypothesis D : diff_spec A B out.

Lemma diff_keys_sorted : StronglySorted lex_lt (map dkey out).
Proof. apply ss_map. exact (proj1 D). Qed.

Lemma diff_keys_nodup : NoDup (map dkey out).
Proof. apply ss_lex_nodup. exact diff_keys_sorted. Qed.

(** exactly the entries of the left operand whose key is not stored on the right *)
Lemma diff_in_iff e :
  In e (map fst out) <-> In e A /\ forall e', In e' B -> bits (fst e') <> bits (fst e).
Proof.
  destruct D as (_ & Hs & Hc). split.
  - intros Hin. apply in_map_iff in Hin. destruct Hin as [[[p l] ann] [<- Hit]]. cbn [fst].
    destruct (Hs p l ann Hit) as (H1 & H2 & _). split; assumption.
  - intros [Hin Hn]. destruct (Hc e Hin Hn) as [ann Hit]. apply in_map_iff.
    exists (fst e, snd e, ann). split; [destruct e; reflexivity | exact Hit].
Qed.

Lemma diff_ann p l ann : In (p, l, ann) out -> lpm_ann B p ann.
Proof. destruct D as (_ & Hs & _). intros Hit. exact (proj2 (proj2 (Hs p l ann Hit))). Qed.
End DSpec.

Lemma diff_item_ok ba (ta : treeL) B out p l ann :
  wfL ba ta -> diff_spec (entries ta) B out -> In (p, l, ann) out -> ok p.
Proof.
  intros Ha (_ & Hs & _) Hit. exact (entries_ok pfx L bits ok ba ta (p, l) Ha (proj1 (Hs p l ann Hit))).
Qed.

(** right operand without entries: every entry of the left operand, no match *)
Lemma diff_right_empty ba bb (ta : treeL) (tb : treeR) out :
  wfL ba ta -> wfR bb tb -> entries tb = [] -> difference ta tb = Some out ->
  map fst out = entries ta /\ forall it, In it out -> snd it = None.
Proof.
  intros Ha Hb Eb E. split.
  - rewrite (diff_filter ba bb ta tb out Ha Hb E), Eb. apply filter_all. intros; reflexivity.
  - intros [[p l] ann] Hit. pose proof (diff_ann _ _ _ (diff_some ba bb ta tb out Ha Hb E) p l ann Hit) as H.
    rewrite Eb in H. destruct ann as [e|]; [|reflexivity]. destruct H as [[] _].
Qed.

(** [difference_mut] terminates and yields the same (prefix, value, match) triples, with the
    slots of those entries *)
Lemma difference_mut_some ba bb (ta : treeL) (tb : treeR) :
  wfL ba ta -> wfR bb tb ->
  exists out outm, difference ta tb = Some out /\ difference_mut ta tb = Some outm /\
    map (fun '(p, (_, l), ann) => (p, l, ann)) outm = out /\
    (forall p i l ann, In (p, (i, l), ann) outm -> In (i, p, l) (entries_id ta)).
Proof.
  intros Ha Hb.
  destruct (InterDiffThm.difference_mut_mirrors pfx L R _ _ _ _ _ _ _ _ _ LAWS ba bb ta tb Ha Hb)
    as (out & outm & E1 & E2 & M & S).
  exists out, outm. split; [exact E1|]. split; [exact E2|]. split; [symmetry; exact M | exact S].
Qed.

(** the annotation of every [difference_mut] item *)
Lemma difference_mut_ann ba bb (ta : treeL) (tb : treeR) outm p i l ann :
  wfL ba ta -> wfR bb tb -> difference_mut ta tb = Some outm -> In (p, (i, l), ann) outm ->
  In (p, l) (entries ta) /\ (forall e, In e (entries tb) -> bits (fst e) <> bits p) /\
  lpm_ann (entries tb) p ann.
Proof.
  intros Ha Hb E Hit. destruct (difference_mut_some ba bb ta tb Ha Hb) as (out & outm' & E1 & E2 & M & _).
  rewrite E in E2. injection E2 as <-.
  assert (Hin : In (p, l, ann) out).
  { rewrite <- M. apply in_map_iff. exists (p, (i, l), ann). split; [reflexivity | exact Hit]. }
  destruct (diff_some ba bb ta tb out Ha Hb E1) as (_ & Hs & _). exact (Hs p l ann Hin).
Qed.

(* ------------------------------------------------------------------------------------------ *)
(** * covering difference *)

Lemma cdiff_some ba bb (ta : treeL) (tb : treeR) out :
  wfL ba ta -> wfR bb tb -> covering_difference ta tb = Some out ->
  cdiff_spec (entries ta) (entries tb) out.
Proof.
  intros Ha Hb E.
  destruct (InterDiffThm.covering_difference_correct pfx L R _ _ _ _ _ _ _ _ _ LAWS ba bb ta tb Ha Hb)
    as [out' [E' U]].
  rewrite E in E'. injection E' as <-. exact U.
Qed.

Lemma cdiff_keys_nodup A B out : cdiff_spec A B out -> NoDup (map keyL out).
Proof. intros C. apply ss_lex_nodup. apply ss_map. exact (proj1 C). Qed.

(** the list form of [covering_difference] *)
Lemma cdiff_filter ba (ta : treeL) B out :
  wfL ba ta -> cdiff_spec (entries ta) B out -> out = filter (uncovered B) (entries ta).
Proof.
  intros Ha [Hs Hm]. apply (sorted_ext pfx L bits).
  - exact Hs.
  - apply ss_filter. exact (entries_sorted pfx L bits ok ba ta Ha).
  - intros e. rewrite Hm, filter_In, uncovered_spec. reflexivity.
Qed.

Lemma cdiff_right_empty ba (ta : treeL) out :
  wfL ba ta -> cdiff_spec (entries ta) [] out -> out = entries ta.
Proof.
  intros Ha C. rewrite (cdiff_filter ba ta [] out Ha C). apply filter_all. intros; reflexivity.
Qed.

(** if the right operand stores the zero-length prefix, everything is covered *)
Lemma cdiff_right_zero A B out :
  cdiff_spec A B out -> (exists e, In e B /\ bits (fst e) = []) -> out = [].
Proof.
  intros [_ Hm] [e0 [H0 Hk]]. destruct out as [|e out]; [reflexivity|]. exfalso.
  destruct (proj1 (Hm e) (or_introl eq_refl)) as [_ Hn]. apply (Hn e0 H0). rewrite Hk. apply prefix_of_nil.
Qed.

(** a covered entry is in particular absent from [difference]'s complement: the covering
    difference is a sub-list of the difference *)
Lemma cdiff_sub_diff A B out outd e :
  cdiff_spec A B out -> diff_spec A B outd -> In e out -> In e (map fst outd).
Proof.
  intros [_ Hm] D Hin. apply (diff_in_iff A B outd D). destruct (proj1 (Hm e) Hin) as [H1 H2].
  split; [exact H1|]. intros e' He' Hk. apply (H2 e' He'). rewrite Hk. apply prefix_of_refl.
Qed.

Lemma covering_difference_mut_some ba bb (ta : treeL) (tb : treeR) :
  wfL ba ta -> wfR bb tb ->
  exists out outm, covering_difference ta tb = Some out /\ covering_difference_mut ta tb = Some outm /\
    map (fun '(p, (_, l)) => (p, l)) outm = out /\
    (forall p i l, In (p, (i, l)) outm -> In (i, p, l) (entries_id ta)).
Proof.
  intros Ha Hb.
  destruct (InterDiffThm.covering_difference_mut_mirrors pfx L R _ _ _ _ _ _ _ _ _ LAWS ba bb ta tb Ha Hb)
    as (out & outm & E1 & E2 & M & S).
  exists out, outm. split; [exact E1|]. split; [exact E2|]. split; [symmetry; exact M | exact S].
Qed.

End SX.

Print Assumptions lpm_ann_get_lpm.
Print Assumptions view_at_wf.
Print Assumptions union_item_left.
Print Assumptions union_item_right.
Print Assumptions union_presence.
Print Assumptions union_keys_iff.
Print Assumptions union_mut_some.
Print Assumptions inter_keys_iff.
Print Assumptions intersection_disjoint_views.
Print Assumptions intersection_mut_some.
Print Assumptions diff_in_iff.
Print Assumptions diff_right_empty.
Print Assumptions difference_mut_ann.
Print Assumptions cdiff_filter.
Print Assumptions cdiff_right_zero.
Print Assumptions covering_difference_mut_some.
